"""shared helpers for the Rotation properties C12/C13"""
import math
import random

import torch

from harness.core.conv import bits2f, f2bits

from mrpro.data.Rotation import AXIS_ORDER  # the documented component order ('zyx'); read from the code under test


def letter_index(letter: str) -> int:
    return AXIS_ORDER.index(letter.lower())


def to_scipy_seq(seq: str) -> str:
    """mrpro axis letter L names storage component AXIS_ORDER.index(L); scipy names component i 'xyz'[i]"""
    out = ''.join('xyz'[letter_index(ch)] for ch in seq)
    return out.upper() if seq.isupper() else out


def rand_quat(rng: random.Random, kind='generic'):
    if kind == 'generic':
        q = [rng.gauss(0, 1) for _ in range(4)]
    elif kind == 'near_identity':
        q = [rng.gauss(0, 1e-4) for _ in range(3)] + [1.0]
    elif kind == 'tiny':  # angles of 1e-4 .. 1e-9 rad (sub-voxel motion, slowly drifting orientations)
        a = rng.choice([1e-4, 1e-6, 1e-8, 1e-9])
        q = [rng.gauss(0, a) for _ in range(3)] + [1.0]
    elif kind == 'near_pi':
        q = [rng.gauss(0, 1) for _ in range(3)] + [rng.gauss(0, 1e-5)]
    elif kind == 'axis':
        q = [0.0, 0.0, 0.0, math.cos(0.3)]
        q[rng.randrange(3)] = math.sin(0.3) * rng.choice([-1, 1])
    elif kind == 'unnormalised':
        s = rng.choice([1e-3, 5.0, 100.0])
        q = [s * rng.gauss(0, 1) for _ in range(4)]
    else:
        raise KeyError(kind)
    n = math.sqrt(sum(v * v for v in q))
    if n < 1e-12:
        return [0.0, 0.0, 0.0, 1.0]
    return q


def drv_rot(drv, fn, **kw):
    req = {'op': 'rot', 'fn': fn}
    for k, v in kw.items():
        if isinstance(v, (list, tuple)) and v and isinstance(v[0], float):
            req[k] = [f2bits(x) for x in v]
        else:
            req[k] = v
    return [bits2f(b) for b in drv.call(req)['out']]


def same_rotation_quat(a, b, tol=1e-9):
    """q ~ -q"""
    a, b = torch.as_tensor(a, dtype=torch.float64), torch.as_tensor(b, dtype=torch.float64)
    return bool(((a - b).abs().max(-1).values < tol).logical_or((a + b).abs().max(-1).values < tol).all())
