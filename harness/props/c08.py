"""C08 — functionals evaluate their definition and prox is the true minimiser."""
import itertools
import random
from fractions import Fraction

import torch

from harness.core.conv import frac_str, tensor_strs
from harness.core.runner import Outcome
from harness.core.util import call

RULE = ('classes {L1Norm, L1NormViewAsReal, L2NormSquared, MSE, ZeroFunctional} x real/complex input x weight kinds (python scalar, tensor, '
        'complex, broadcasting) x target kinds x every dim subset of rank <= 3 (quick: sampled) x divide_by_n x keepdim x sigma kinds '
        '(0, 1e-9, scalar, broadcasting tensor); real configurations compared with the exact rational Lean model (forward, prox, '
        'prox_convex_conj); all configurations checked on the real code: documented value, variational optimality of prox at perturbed '
        'points, Moreau identity, scaled functionals, separable sums. distinct = distinct configuration key')
ASSUMPTIONS = ['python-scalar parameters are stored as float32 tensors by the library: agreement is required to 2e-6, not to float64 round-off; at sigma = 0 prox_convex_conj is outside the property (sigma > 0) and not compared', 'torch broadcasting / dtype promotion as documented', 'complex modulus case: theorem blockSoftThr_argmin + numerical oracle only']
CLS = ['L1Norm', 'L1NormViewAsReal', 'L2NormSquared', 'MSE', 'ZeroFunctional']
MODEL_CLS = {'L1Norm': 'l1', 'L1NormViewAsReal': 'l1var', 'L2NormSquared': 'l2', 'MSE': 'l2', 'ZeroFunctional': 'zero'}


def generate(rng: random.Random, tier: str):
    thorough = tier == 'thorough'
    cases = []
    for _ in range(1500 if thorough else 220):
        rank = rng.randint(1, 3)
        shape = [rng.randint(1, 3) for _ in range(rank)]
        dims = None if rng.random() < 0.2 else sorted(rng.sample(range(rank), rng.randint(1, rank)))
        if dims is not None:
            dims = [d if rng.random() < 0.5 else d - rank for d in dims]
        cases.append({'kind': 'fun', 'cls': rng.choice(CLS), 'shape': shape, 'dim': dims, 'complex_x': rng.random() < 0.4,
                      'target_dtype': rng.choice(['same', 'same', 'same', 'complex', 'real']),  # a complex target for a real x and vice versa
                      'weight': rng.choice(['py', 'py', 'tensor', 'bcast', 'complex']), 'target': rng.choice(['none', 'py', 'tensor', 'bcast']),
                      'divide_by_n': rng.random() < 0.5, 'keepdim': rng.random() < 0.5,
                      'sigma': rng.choice(['zero', 'tiny', 'py', 'py', 'tensor0', 'bcast']), 'scale': rng.choice([None, None, 0.5, 2.0, 3]),
                      'seed': rng.randrange(1 << 30)})
    for _ in range(40 if thorough else 10):
        cases.append({'kind': 'sepsum', 'seed': rng.randrange(1 << 30)})
    # x smaller than the broadcast of (x, weight, target): the documented value reduces over the *broadcast* elements
    for _ in range(300 if thorough else 60):
        rank = rng.randint(1, 3)
        shape = [rng.randint(2, 3) for _ in range(rank)]
        dims = None if rng.random() < 0.3 else sorted(rng.sample(range(rank), rng.randint(1, rank)))
        if dims is not None:
            dims = [d if rng.random() < 0.5 else d - rank for d in dims]
        full = rng.choice(['weight', 'target', 'both'])
        cases.append({'kind': 'funx', 'cls': rng.choice([c for c in CLS if c != 'ZeroFunctional']), 'shape': shape, 'dim': dims, 'complex_x': rng.random() < 0.3, 'target_dtype': 'same',
                      'weight': 'tensor' if full in ('weight', 'both') else rng.choice(['py', 'bcast']),
                      'target': 'tensor' if full in ('target', 'both') else rng.choice(['none', 'py', 'bcast']),
                      'divide_by_n': rng.random() < 0.7, 'keepdim': rng.random() < 0.5, 'sigma': 'py', 'scale': None,
                      'x_shape': bcast_shape(rng, shape), 'seed': rng.randrange(1 << 30)})
    return cases


def dy(rng, lo=-8, hi=8, den=4):
    return rng.randint(lo * den, hi * den) / den


def rand_tensor(rng, shape, cplx=False, pos=False):
    n = 1
    for s in shape:
        n *= s
    re = torch.tensor([abs(dy(rng)) + 0.25 if pos else dy(rng) for _ in range(n)], dtype=torch.float64).reshape(shape)
    if cplx:
        im = torch.tensor([dy(rng) for _ in range(n)], dtype=torch.float64).reshape(shape)
        return torch.complex(re, im)
    return re


def bcast_shape(rng, shape):
    return [s if rng.random() < 0.5 else 1 for s in shape][rng.randint(0, len(shape) - 1):]


def build(case, rng):
    import mrpro.operators.functionals as F

    shape = case['shape']
    x = rand_tensor(rng, case.get('x_shape', shape), case['complex_x'])
    wk = case['weight']
    if wk == 'py':
        w = rng.choice([1.0, 2.0, 0.5, 0.0, -1.5])
    elif wk == 'tensor':
        w = rand_tensor(rng, shape)
    elif wk == 'bcast':
        w = rand_tensor(rng, bcast_shape(rng, shape))
    else:
        w = rand_tensor(rng, bcast_shape(rng, shape), cplx=True)
    tk = case['target']
    if tk == 'none':
        t = None
    elif tk == 'py':
        t = rng.choice([0.0, 1.0, -2.5])
    elif tk == 'tensor':
        t = rand_tensor(rng, shape, {'same': case['complex_x'], 'complex': True, 'real': False}[case.get('target_dtype', 'same')])
    else:
        t = rand_tensor(rng, bcast_shape(rng, shape), {'same': case['complex_x'], 'complex': True, 'real': False}[case.get('target_dtype', 'same')])
    kw = {'weight': w, 'target': t, 'dim': case['dim'], 'divide_by_n': case['divide_by_n'], 'keepdim': case['keepdim']}
    f = getattr(F, case['cls'])(**kw)
    fk = getattr(F, case['cls'])(**{**kw, 'keepdim': True})
    # sigma must broadcast against the batch (non-reduced) dims: singleton on reduced dims
    rank = len(shape)
    red = list(range(rank)) if case['dim'] is None else [d % rank for d in case['dim']]
    sk = case['sigma']
    if sk == 'zero':
        sigma = 0.0
    elif sk == 'tiny':
        sigma = 1e-9
    elif sk == 'py':
        sigma = rng.choice([0.5, 1.0, 2.0, 0.125])
    elif sk == 'tensor0':
        sigma = torch.tensor(rng.choice([0.5, 1.0, 3.0]), dtype=torch.float64)
    else:
        sshape = [1 if i in red else s for i, s in enumerate(shape)]
        sigma = rand_tensor(rng, sshape, pos=True)
    return f, fk, x, w, t, sigma, red


def tens(v, cplx_ok=True):
    return torch.as_tensor(v, dtype=torch.float64) if not torch.is_tensor(v) else v


def spec_value(case, x, w, t, red):
    """documented value computed directly"""
    wt = tens(w)
    tt = torch.zeros((), dtype=torch.float64) if t is None else tens(t)
    d = x - tt
    cls = case['cls']
    if cls == 'L1Norm':
        v = (wt * d).abs()
    elif cls == 'L1NormViewAsReal':
        if d.is_complex():
            wr, wi = (wt.real, wt.imag) if wt.is_complex() else (wt, wt)
            v = (wr * d.real).abs() + (wi * d.imag).abs()
        else:
            v = (wt * d).abs() if not wt.is_complex() else None
    elif cls in ('L2NormSquared', 'MSE'):
        v = (wt * d).abs() ** 2
    else:
        v = torch.zeros(torch.broadcast_shapes(x.shape, wt.shape, tt.shape), dtype=torch.float64)
    if v is None:
        return None
    v = v.real if v.is_complex() else v
    div = case['divide_by_n'] if cls != 'MSE' else case['divide_by_n']
    dims = tuple(red)
    out = v.mean(dim=dims, keepdim=case['keepdim']) if div and cls != 'ZeroFunctional' else v.sum(dim=dims, keepdim=case['keepdim'])
    return out


TOL = 2e-6  # python-scalar weights / targets / scales / sigmas become float32 0-dim tensors inside the library: float32-level agreement


def close(a, b, tol=TOL):
    if a.shape != b.shape:
        return False
    a, b = a.to(torch.complex128), b.to(torch.complex128)
    return bool(((a - b).abs() <= tol * (1 + b.abs())).all())


def tj(t_):
    t_ = tens(t_)
    return {'shape': list(t_.shape), 'data': tensor_strs(t_)}


def run_fun(case, drv) -> Outcome:
    rng = random.Random(case['seed'])
    st, built = call(lambda: build(case, rng))
    if st != 'ok':
        return Outcome(key=('fun-ctor', str(case)), corr=f'constructor raised {built} for {case}')
    f, fk, x, w, t, sigma, red = built
    scale = case['scale']
    cfgs = f'{case["cls"]} shape {case["shape"]} dim {case["dim"]} w:{case["weight"]} t:{case["target"]}{"/" + case.get("target_dtype", "same") if case["target"] in ("tensor", "bcast") else ""} div:{case["divide_by_n"]} keep:{case["keepdim"]} sigma:{case["sigma"]}'
    viol = None
    corr = None

    def v(sig, what):
        return {'signature': f'{case["cls"]}:{sig}', 'what': f'{cfgs}: {what}'}

    # ---------------- forward value
    st, val = call(lambda: f(x)[0])
    if st != 'ok':
        return Outcome(key=('fun', cfgs), viol=v('forward-raises', f'forward raises {val}'), branches=[f'{case["cls"]}:raises'])
    want = spec_value(case, x, w, t, red)
    if want is not None and not close(val, want):
        viol = viol or v('value', f'forward value {val.flatten().tolist()[:4]} differs from the documented value {want.flatten().tolist()[:4]}')
    # ---------------- prox: variational optimality against the functional's own (keepdim) forward
    sig_t = tens(sigma)
    st, p = call(lambda: f.prox(x, sigma)[0])
    if st != 'ok':
        viol = viol or v('prox-raises', f'prox raises {p}')
    else:
        def J(q):
            fv = fk(q)[0]
            return float((sig_t * fv).sum() + 0.5 * ((x - q).abs() ** 2).sum()) if sig_t.ndim == 0 or True else 0.0

        base = J(p.to(x.dtype) if not p.is_complex() or x.is_complex() else p)
        prng = random.Random(case['seed'] + 7)
        for _ in range(8):
            eps = prng.choice([1e-3, 1e-2, 0.1, 1.0])
            delta = rand_tensor(prng, list(p.shape), p.is_complex()) * eps / 8
            q = p + delta
            if J(q) < base - 1e-6 * (1 + abs(base)):
                viol = viol or v('prox-not-argmin', f'sigma*f(p)+0.5|x-p|^2 is smaller at a perturbed point ({J(q):.12g}) than at prox(x) ({base:.12g})')
                break
        for q in (x + 0 * p, (tens(t if t is not None else 0.0) + 0 * p)):
            if q.shape == p.shape and J(q) < base - 1e-6 * (1 + abs(base)):
                viol = viol or v('prox-not-argmin', f'objective smaller at x or target than at prox(x)')
    # ---------------- Moreau identity, sigma > 0
    sig_pos = float(sig_t.min()) > 0
    if sig_pos and st == 'ok':
        sig_m = sigma.clone() if torch.is_tensor(sigma) else sigma
        inv = 1 / sig_t if torch.is_tensor(sigma) else 1 / sigma
        st2, c = call(lambda: f.prox_convex_conj(x / sig_t, inv.clone() if torch.is_tensor(inv) else inv)[0])
        if st2 != 'ok':
            viol = viol or v('conj-raises', f'prox_convex_conj raises {c}')
        else:
            rec = p + sig_t * c
            # tiny sigma: the generic fallback perturbs sigma by 1e-6 (documented clamp) -> absolute tolerance
            # x/sigma is ~1e9 for the tiny sigma: absolute accuracy of the reconstruction degrades accordingly
            tol = TOL if case['sigma'] != 'tiny' else 1e-4
            if not close(rec.to(torch.complex128), (x + 0 * rec).to(torch.complex128), tol):
                viol = viol or v('moreau', f'x != prox(x,sigma) + sigma*prox_convex_conj(x/sigma, 1/sigma): max dev {float((rec - x).abs().max()):.3e}')
    # ---------------- scaled functional
    if scale is not None and st == 'ok':
        sf = scale * f
        st3, sp = call(lambda: sf.prox(x, sigma)[0])
        st4, pp = call(lambda: f.prox(x, sig_t * scale)[0])
        if st3 == 'ok' and st4 == 'ok' and not close(sp, pp):
            viol = viol or v('scaled-prox', f'(a*f).prox(x,sigma) != f.prox(x, a*sigma) for a={scale}')
        st5, sv = call(lambda: sf(x)[0])
        if st5 == 'ok' and not close(sv, scale * val):
            viol = viol or v('scaled-value', f'(a*f)(x) != a*f(x)')
        if sig_pos and st3 == 'ok':
            st6, sc = call(lambda: sf.prox_convex_conj(x / sig_t, 1 / sig_t if torch.is_tensor(sigma) else 1 / sigma)[0])
            if st6 == 'ok' and not close((sp + sig_t * sc).to(torch.complex128), (x + 0 * sp).to(torch.complex128), TOL if case['sigma'] != 'tiny' else 1e-4):
                viol = viol or v('scaled-moreau', f'Moreau identity fails for the scaled functional a={scale}')
    # ---------------- correspondence with the exact Lean model (real data only)
    real_cfg = not case['complex_x'] and case['weight'] != 'complex' and not (torch.is_tensor(t) and t.is_complex())
    if real_cfg:
        base_req = {'op': 'functional', 'cls': MODEL_CLS[case['cls']], 'weight': tj(w), 'target': tj(0.0 if t is None else t), 'dim': case['dim'],
                    'divide_by_n': case['divide_by_n'], 'keepdim': case['keepdim'], 'x': tj(x)}
        from harness.core.conv import parse_scal

        def mt(res):
            return torch.tensor([float(parse_scal(s)[0]) for s in res['data']], dtype=torch.float64).reshape(res['shape'])

        m = drv.call({**base_req, 'call': 'forward'})
        if 'err' in m:
            corr = corr or f'{cfgs}: model forward raises {m["err"]}, implementation returns'
        elif not close(val, mt(m)):
            corr = corr or f'{cfgs}: forward impl {val.flatten().tolist()[:4]} model {mt(m).flatten().tolist()[:4]}'
        if st == 'ok':
            m = drv.call({**base_req, 'call': 'prox', 'sigma': tj(sigma)})
            if 'err' in m:
                corr = corr or f'{cfgs}: model prox raises {m["err"]}'
            elif not close(p, mt(m)):
                corr = corr or f'{cfgs}: prox impl {p.flatten().tolist()[:4]} model {mt(m).flatten().tolist()[:4]}'
        sig_c = sigma.clone() if torch.is_tensor(sigma) else sigma
        st7, cc = call(lambda: f.prox_convex_conj(x, sig_c)[0])
        if st7 == 'ok':
            m = drv.call({**base_req, 'call': 'conj', 'sigma': tj(sigma)})
            if 'err' in m:
                corr = corr or f'{cfgs}: model prox_convex_conj raises {m["err"]}'
            elif case['sigma'] != 'zero' and not close(cc, mt(m), TOL if case['sigma'] != 'tiny' else 1e-4):
                corr = corr or f'{cfgs}: prox_convex_conj impl {cc.flatten().tolist()[:4]} model {mt(m).flatten().tolist()[:4]}'
    return Outcome(key=('fun', cfgs, case['complex_x'], str(scale)), corr=corr, viol=viol,
                   branches=[case['cls'], f'w:{case["weight"]}', f'sigma:{case["sigma"]}', 'complex' if case['complex_x'] else 'real',
                             f'div:{case["divide_by_n"]}', 'dim:none' if case['dim'] is None else f'dim:{len(case["dim"])}of{len(case["shape"])}'],
                   sample=case)


def run_sepsum(case, drv) -> Outcome:
    import mrpro.operators.functionals as F

    rng = random.Random(case['seed'])
    fs, xs = [], []
    for _ in range(rng.randint(2, 3)):
        shape = [rng.randint(1, 3) for _ in range(rng.randint(1, 2))]
        cls = rng.choice(['L1Norm', 'L2NormSquared', 'ZeroFunctional', 'L1NormViewAsReal'])
        g = getattr(F, cls)(weight=rng.choice([1.0, 2.0]), target=rand_tensor(rng, shape), divide_by_n=rng.random() < 0.5)
        if rng.random() < 0.5:
            g = rng.choice([0.5, 3.0]) * g  # scaled component: (a f).prox(x, s) = f.prox(x, a s), conj likewise
        fs.append(g)
        xs.append(rand_tensor(rng, shape, rng.random() < 0.5))
    s = fs[0] | fs[1]
    for g in fs[2:]:
        s = s | g
    sigma = rng.choice([0.5, 2.0])
    if rng.random() < 0.6:
        sigma = torch.tensor(sigma, dtype=torch.float64)  # one tensor handed to every component
    viol = None
    (val,) = s(*xs)
    want = sum(g(xi)[0] for g, xi in zip(fs, xs, strict=True))
    if not close(val, want):
        viol = {'signature': 'sepsum:value', 'what': 'separable sum value != sum of values'}
    fresh = (lambda: sigma.clone()) if torch.is_tensor(sigma) else (lambda: sigma)
    ps = s.prox(*xs, sigma=sigma)
    cs = s.prox_convex_conj(*xs, sigma=sigma)
    for g, xi, pi, ci in zip(fs, xs, ps, cs, strict=True):
        if not close(pi, g.prox(xi, fresh())[0]) or not close(ci, g.prox_convex_conj(xi, fresh())[0]):
            viol = viol or {'signature': 'sepsum:prox', 'what': 'separable sum prox != tuple of individual proxes'}
    return Outcome(key=('sepsum', len(fs), case['seed'] % 13), viol=viol, branches=['sepsum'])


def run_funx(case, drv) -> Outcome:
    """forward value only, for an x that is broadcast against a larger weight / target"""
    rng = random.Random(case['seed'])
    st, built = call(lambda: build(case, rng))
    if st != 'ok':
        return Outcome(key=('funx-ctor', str(case)), corr=f'constructor raised {built} for {case}')
    f, _fk, x, w, t, _sigma, red = built
    cfgs = f'{case["cls"]} x-shape {case["x_shape"]} broadcast shape {case["shape"]} dim {case["dim"]} w:{case["weight"]} t:{case["target"]} div:{case["divide_by_n"]} keep:{case["keepdim"]}'
    viol = corr = None
    st, val = call(lambda: f(x)[0])
    if st != 'ok':
        return Outcome(key=('funx', cfgs), viol={'signature': f'{case["cls"]}:forward-raises', 'what': f'{cfgs}: forward raises {val}'}, branches=['funx:raises'])
    want = spec_value(case, x, w, t, red)
    if want is not None and not close(val, want):
        viol = {'signature': f'{case["cls"]}:value', 'what': f'{cfgs}: forward value {val.flatten().tolist()[:4]} differs from the documented value '
                f'{want.flatten().tolist()[:4]} (reduction / normalisation over the broadcast of x, weight and target)'}
    if not case['complex_x'] and case['weight'] != 'complex':
        from harness.core.conv import parse_scal

        m = drv.call({'op': 'functional', 'cls': MODEL_CLS[case['cls']], 'weight': tj(w), 'target': tj(0.0 if t is None else t), 'dim': case['dim'],
                      'divide_by_n': case['divide_by_n'], 'keepdim': case['keepdim'], 'x': tj(x), 'call': 'forward'})
        if 'err' in m:
            corr = f'{cfgs}: model forward raises {m["err"]}, implementation returns'
        else:
            mv = torch.tensor([float(parse_scal(s_)[0]) for s_ in m['data']], dtype=torch.float64).reshape(m['shape'])
            if not close(val, mv):
                corr = f'{cfgs}: forward impl {val.flatten().tolist()[:4]} model {mv.flatten().tolist()[:4]}'
    return Outcome(key=('funx', cfgs, case['complex_x']), corr=corr, viol=viol,
                   branches=[case['cls'], 'x-broadcast', f'div:{case["divide_by_n"]}', 'dim:none' if case['dim'] is None else f'dim:{len(case["dim"])}of{len(case["shape"])}'],
                   sample=case)


def run(case, drv) -> Outcome:
    if case['kind'] == 'funx':
        return run_funx(case, drv)
    return run_fun(case, drv) if case['kind'] == 'fun' else run_sepsum(case, drv)
