"""C02 — superposition: A(ax+by) = aA(x)+bA(y), A(0)=0, and action on any input = matrix action."""
import random

from harness.core import zoo, zoo_kernels
from harness.core.runner import Outcome
from harness.props import _ops

RULE = ('zoo configurations; per configuration: 3 scalar pairs (complex, real, i) x random integer x,y for forward and adjoint, '
        'zero input, and generic (mixed-magnitude dyadic) inputs compared exactly with the Lean model. distinct = distinct '
        'configuration; non-trivial = domain with more than one element')
ASSUMPTIONS = ['linearity of the model is a theorem; the real code is tied to it by exact comparison on generic inputs']


def generate(rng: random.Random, tier: str):
    n = 30 if tier == 'thorough' else 6
    cases = [zoo.gen_config(kind, rng) for kind in zoo.EXACT_KINDS for _ in range(n * (2 if kind in ('cartsamp',) else 1))]
    for kind in zoo_kernels.KERNEL_KINDS:
        cases += zoo_kernels.gen_configs(kind, rng, max(2, n // 2))
    return cases


def run_kernel(cfg) -> Outcome:
    """superposition on the real operator incl. complex scalars on operators that treat real and imaginary parts separately;
    action on a generic input = action of the operator's matrix (from basis vectors)"""
    import math

    import torch

    rng = random.Random(cfg['seed'] + 1)
    op, dom, rng_shape, tol = zoo_kernels.build(cfg)
    single = cfg['kind'] == 'sliceproj'
    dt = torch.complex64 if single else torch.complex128
    tol = max(tol, 1e-4 if single else 1e-9)
    viol = None
    for which, fn, shape in (('forward', op.forward, dom), ('adjoint', op.adjoint, rng_shape), ('gram', op.gram, dom)):
        n = math.prod(shape)

        def rnd():
            return torch.tensor([complex(rng.gauss(0, 1), rng.gauss(0, 1)) * 10 ** rng.randint(-3, 3) for _ in range(n)], dtype=dt).reshape(shape)

        x, y = rnd(), rnd()
        a, b = complex(rng.gauss(0, 1), rng.gauss(0, 1)), complex(rng.gauss(0, 1), rng.gauss(0, 1))
        lhs = fn(a * x + b * y)[0]
        rhs = a * fn(x)[0] + b * fn(y)[0]
        scale = max(1e-30, float(rhs.abs().max()))
        if float((lhs - rhs).abs().nan_to_num(nan=float('inf')).max()) > 100 * tol * scale:
            viol = viol or {'signature': f'linearity:{cfg["kind"]}:{which}', 'what': f'{cfg} {which}: A(ax+by) != aA(x)+bA(y) (rel dev {float((lhs - rhs).abs().max()) / scale:.2e})'}
        if bool((fn(torch.zeros(shape, dtype=dt))[0] != 0).any()):
            viol = viol or {'signature': f'linearity:{cfg["kind"]}:{which}:zero', 'what': f'{cfg} {which}: A(0) != 0'}
        # (a composition A^H A rounds its large real part into the imaginary part of the result: the sharp tiny-imaginary test is for A, A^H)
        v = _ops.scale_sweep(fn, x / max(1e-30, float(x.abs().max())), y / max(1e-30, float(y.abs().max())), tol, tiny_imag=which != 'gram')
        if v:
            viol = viol or {'signature': f'linearity:{cfg["kind"]}:{which}:scale', 'what': f'{cfg} {which}: {v}'}
        # a real-dtype input is the same element of the domain as its complex copy
        xr = x.real.contiguous()
        try:
            (lr,) = fn(xr)
        except Exception:  # noqa: BLE001  (an operator may refuse real tensors; that is not a silent wrong result)
            lr = None
        if lr is not None:
            (lc,) = fn(xr.to(dt))
            if lr.shape != lc.shape or float((lr.to(dt) - lc).abs().nan_to_num(nan=float('inf')).max()) > 100 * tol * max(1e-30, float(lc.abs().max())):
                viol = viol or {'signature': f'linearity:{cfg["kind"]}:{which}:real-input',
                                'what': f'{cfg} {which}: A(x) for a real-dtype x differs from A(x + 0j) (superposition with complex scalars fails for real images)'}
        M = zoo_kernels.dense(fn, shape, single=single)
        got = fn(x)[0].reshape(-1).to(M.dtype)
        want = M @ x.reshape(-1).to(M.dtype)
        if float((got - want).abs().nan_to_num(nan=float('inf')).max()) > 100 * tol * max(1e-30, float(want.abs().max())):
            viol = viol or {'signature': f'matrix-action:{cfg["kind"]}:{which}', 'what': f'{cfg} {which}: A(x) differs from the matrix of A (from basis vectors) applied to x'}
    return Outcome(key={k: v for k, v in cfg.items() if k != 'seed'}, viol=viol, branches=[f'kernel:{cfg["kind"]}'], sample=cfg)


def run(cfg, drv) -> Outcome:
    if cfg['kind'] in zoo_kernels.KERNEL_KINDS:
        return run_kernel(cfg)
    rng = random.Random(cfg['seed'] + 1)
    built = zoo.build(cfg)
    corr = _ops.generic_apply_corr(cfg, built, rng, drv)
    viol = _ops.linearity_oracle(cfg, built, rng)
    key = {k: v for k, v in cfg.items() if k != 'seed'}
    return Outcome(key=key, nontrivial=zoo.numel(built.dom) > 1, corr=corr, viol=viol,
                   branches=[f'{cfg["kind"]}:{cfg.get("flavour", cfg.get("mode", ""))}'], sample=cfg)


def neighbours(cfg, rng):
    return [zoo.gen_config(cfg['kind'], rng) for _ in range(20)]
