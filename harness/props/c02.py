"""C02 — superposition: A(ax+by) = aA(x)+bA(y), A(0)=0, and action on any input = matrix action."""
import random

from harness.core import zoo
from harness.core.runner import Outcome
from harness.props import _ops

RULE = ('zoo configurations; per configuration: 3 scalar pairs (complex, real, i) x random integer x,y for forward and adjoint, '
        'zero input, and generic (mixed-magnitude dyadic) inputs compared exactly with the Lean model. distinct = distinct '
        'configuration; non-trivial = domain with more than one element')
ASSUMPTIONS = ['linearity of the model is a theorem; the real code is tied to it by exact comparison on generic inputs']


def generate(rng: random.Random, tier: str):
    n = 30 if tier == 'thorough' else 6
    return [zoo.gen_config(kind, rng) for kind in zoo.EXACT_KINDS for _ in range(n * (2 if kind in ('cartsamp',) else 1))]


def run(cfg, drv) -> Outcome:
    rng = random.Random(cfg['seed'] + 1)
    built = zoo.build(cfg)
    corr = _ops.generic_apply_corr(cfg, built, rng, drv)
    viol = _ops.linearity_oracle(cfg, built, rng)
    key = {k: v for k, v in cfg.items() if k != 'seed'}
    return Outcome(key=key, nontrivial=zoo.numel(built.dom) > 1, corr=corr, viol=viol,
                   branches=[f'{cfg["kind"]}:{cfg.get("flavour", cfg.get("mode", ""))}'], sample=cfg)


def neighbours(cfg, rng):
    return [zoo.gen_config(cfg['kind'], rng) for _ in range(20)]
