"""Operator matrices (LinearOperatorMatrix): random block programs vs dense block algebra."""
import random

import torch

from harness.core.runner import Outcome
from harness.core.util import call, int_tensor


def run_opmatrix(case, drv) -> Outcome:
    import mrpro
    from mrpro.operators import LinearOperatorMatrix

    rng = random.Random(case['seed'])
    n = rng.randint(1, 3)

    def leaf():
        m = int_tensor(rng, (n, n), lo=-2, hi=2)
        return mrpro.operators.EinsumOp(m), m

    def mk(r, c):
        ops, mats = [], []
        for _ in range(r):
            row = [leaf() for _ in range(c)]
            ops.append([o for o, _ in row])
            mats.append([m for _, m in row])
        return LinearOperatorMatrix(ops), torch.cat([torch.cat(row, dim=1) for row in mats], dim=0)

    r, c, k = rng.randint(1, 3), rng.randint(1, 3), rng.randint(1, 3)
    prog = rng.choice(['apply', 'matmul', 'H', 'add', 'diag', 'getitem', 'stack', 'scale', 'addop', 'matmul_op', 'diag_matmul'])
    A, DA = mk(r, c)
    viol = None

    def apply(M, D, cols, what):
        nonlocal viol
        xs = [int_tensor(rng, (n,), lo=-3, hi=3) for _ in range(cols)]
        st, ys = call(lambda: M(*xs))
        want = D @ torch.cat(xs)
        if st != 'ok':
            viol = viol or {'signature': f'opmatrix:{prog}:raises', 'what': f'operator matrix program {what} raises {ys}'}
            return
        got = torch.cat([(y + torch.zeros(n, dtype=torch.complex128)) for y in ys])
        if not torch.equal(got.to(torch.complex128), want):
            viol = viol or {'signature': f'opmatrix:{prog}', 'what': f'operator matrix program {what} ({r}x{c} blocks of {n}x{n}) differs from dense block algebra'}

    if prog == 'apply':
        apply(A, DA, c, 'A(x)')
    elif prog == 'matmul':
        B, DB = mk(c, k)
        st, M = call(lambda: A @ B)
        if st != 'ok':
            viol = {'signature': 'opmatrix:matmul:raises', 'what': f'A @ B raises {M}'}
        else:
            apply(M, DA @ DB, k, 'A @ B')
    elif prog == 'matmul_op':
        o, m = leaf()
        st, M = call(lambda: A @ o)
        if st != 'ok':
            viol = {'signature': 'opmatrix:matmul_op:raises', 'what': f'LinearOperatorMatrix @ LinearOperator raises {M}'}
        else:
            apply(M, DA @ torch.block_diag(*[m] * c), c, 'A @ op')
    elif prog == 'diag_matmul':
        ls = [leaf() for _ in range(rng.randint(1, 3))]
        ms = [leaf() for _ in ls]
        D1 = LinearOperatorMatrix.from_diagonal(*[o for o, _ in ls])
        D2 = LinearOperatorMatrix.from_diagonal(*[o for o, _ in ms])
        st, M = call(lambda: D1 @ D2)
        if st != 'ok':
            viol = {'signature': 'opmatrix:diag_matmul:raises', 'what': f'from_diagonal(..) @ from_diagonal(..) raises {M}'}
        else:
            apply(M, torch.block_diag(*[m for _, m in ls]) @ torch.block_diag(*[m for _, m in ms]), len(ls), 'from_diagonal @ from_diagonal')
    elif prog == 'H':
        apply(A.H, DA.conj().T, r, 'A.H')
        xs = [int_tensor(rng, (n,), lo=-3, hi=3) for _ in range(r)]
        st, ys = call(lambda: A.adjoint(*xs))
        if st == 'ok' and not torch.equal(torch.cat(list(ys)).to(torch.complex128), DA.conj().T @ torch.cat(xs)):
            viol = viol or {'signature': 'opmatrix:adjoint', 'what': 'A.adjoint(*x) differs from dense A^H x'}
    elif prog == 'add':
        B, DB = mk(r, c)
        apply(A + B, DA + DB, c, 'A + B')
    elif prog == 'diag':
        ls = [leaf() for _ in range(rng.randint(1, 3))]
        M = LinearOperatorMatrix.from_diagonal(*[o for o, _ in ls])
        apply(M, torch.block_diag(*[m for _, m in ls]), len(ls), 'from_diagonal')
        apply(M.H, torch.block_diag(*[m for _, m in ls]).conj().T, len(ls), 'from_diagonal(...).H')
    elif prog == 'getitem':
        rows = sorted(rng.sample(range(r), rng.randint(1, r)))
        cols = sorted(rng.sample(range(c), rng.randint(1, c)))
        enc_rows = [i if rng.random() < 0.5 else i - r for i in rows]
        enc_cols = [j if rng.random() < 0.5 else j - c for j in cols]
        st, S = call(lambda: A[enc_rows, enc_cols])
        D = DA.reshape(r, n, c, n)[rows][:, :, cols].reshape(len(rows) * n, len(cols) * n)
        if st != 'ok':
            viol = {'signature': 'opmatrix:getitem:raises', 'what': f'A[{enc_rows},{enc_cols}] raises {S}'}
        elif isinstance(S, LinearOperatorMatrix):
            apply(S, D, len(cols), f'A[{enc_rows},{enc_cols}]')
        else:
            x = int_tensor(rng, (n,), lo=-3, hi=3)
            if not torch.equal(S(x)[0].to(torch.complex128), D @ x):
                viol = {'signature': 'opmatrix:getitem', 'what': f'A[{enc_rows},{enc_cols}] (single operator) differs from the dense block'}
    elif prog == 'stack':
        B, DB = mk(r, k)
        apply(A | B, torch.cat([DA, DB], dim=1), c + k, 'A | B')
        C, DC = mk(k, c)
        apply(A & C, torch.cat([DA, DC], dim=0), c, 'A & C')
        (o1, m1), (o2, m2) = leaf(), leaf()
        apply(o1 | o2, torch.cat([m1, m2], dim=1), 2, 'op | op')
        apply(o1 & o2, torch.cat([m1, m2], dim=0), 1, 'op & op')
    elif prog == 'scale':
        s = complex(rng.randint(-2, 2), rng.randint(-2, 2))
        apply(s * A, s * DA, c, 'c * A')
        apply(A * s, s * DA, c, 'A * c')
        t = int_tensor(rng, (n,), lo=-2, hi=2)
        apply(A * t, DA @ torch.block_diag(*[torch.diag(t)] * c), c, 'A * tensor')
        apply(t * A, torch.block_diag(*[torch.diag(t)] * r) @ DA, c, 'tensor * A')
    elif prog == 'addop':
        S, DS = mk(r, r)
        o, m = leaf()
        apply(S + o, DS + torch.block_diag(*[m] * r), r, 'square matrix + operator')
    return Outcome(key=('opmatrix', prog, r, c, n, case['seed'] % 11), viol=viol, branches=[f'opmatrix:{prog}'], sample={'prog': prog, 'blocks': [r, c], 'n': n})


# ------------------------------------------------------------------------------------------------------------------
# random LinearOperatorMatrix *programs*, mirrored in the Lean model `M.MExpr` (driver op `opmatrix`): what is built, its
# shape, what raises, and the value of forward / adjoint on integer data are compared exactly


def _rand_entry(rng, n_leaves):
    r = rng.random()
    if r < 0.7:
        return {'t': 'leaf', 'i': rng.randrange(n_leaves)}
    if r < 0.8:
        return {'t': 'ident'}
    if r < 0.9:
        return {'t': 'zero'}
    return {'t': rng.choice(['comp', 'add']), 'a': {'t': 'leaf', 'i': rng.randrange(n_leaves)}, 'b': {'t': 'leaf', 'i': rng.randrange(n_leaves)}}


def _rand_idx(rng, length):
    k = rng.choice(['int', 'seq', 'all', 'slice', 'slice'])
    if k == 'int':
        return {'t': 'int', 'i': rng.randint(-length - 1, length)}
    if k == 'seq':
        return {'t': 'seq', 'l': [rng.randint(-length, length - 1) for _ in range(rng.randint(1, 3))] if length else [0]}
    if k == 'all':
        return {'t': 'all'}
    out = {'t': 'slice'}
    if rng.random() < 0.7:
        out['start'] = rng.randint(0, length + 1)
    if rng.random() < 0.7:
        out['stop'] = rng.randint(0, length + 1)
    return out


def rand_mexpr(rng, depth, n, n_leaves, shape=None):
    """a random program; shapes are mostly compatible, sometimes deliberately not (the model must reject what the class rejects)"""
    from harness.props.c04 import rand_scal

    r, c = shape or (rng.randint(1, 3), rng.randint(1, 3))
    if depth == 0 or rng.random() < 0.25:
        if rng.random() < 0.15 and r == c:
            return {'t': 'fromDiag', 'ops': [_rand_entry(rng, n_leaves) for _ in range(r)]}
        return {'t': 'lit', 'rows': [[_rand_entry(rng, n_leaves) for _ in range(c)] for _ in range(r)]}
    bad = rng.random() < 0.1  # incompatible on purpose
    t = rng.choice(['matmul', 'matmul', 'add', 'H', 'rmul', 'mul', 'rmulSeq', 'mulSeq', 'addOp', 'addT', 'matmulOp', 'getitem', 'vstack', 'hstack',
                    'vstackOp', 'hstackOp', 'opVstack', 'opHstack'])
    sub = lambda shp: rand_mexpr(rng, depth - 1, n, n_leaves, shp)  # noqa: E731
    if t == 'matmul':
        k = rng.randint(1, 3)
        return {'t': t, 'a': sub((r, k)), 'b': sub((k + (1 if bad else 0), c))}
    if t == 'add':
        return {'t': t, 'a': sub((r, c)), 'b': sub((r + (1 if bad else 0), c))}
    if t == 'H':
        return {'t': t, 'a': sub((c, r))}
    if t in ('rmul', 'mul'):
        return {'t': t, 's': rand_scal(rng, n), 'a': sub((r, c))}
    if t == 'rmulSeq':
        return {'t': t, 'ss': [rand_scal(rng, n) for _ in range(r + (1 if bad else 0))], 'a': sub((r, c))}
    if t == 'mulSeq':
        return {'t': t, 'ss': [rand_scal(rng, n) for _ in range(c + (1 if bad else 0))], 'a': sub((r, c))}
    if t == 'addOp':
        return {'t': t, 'a': sub((r, r if not bad else r + 1)), 'o': _rand_entry(rng, n_leaves)}
    if t == 'addT':
        return {'t': t, 'a': sub((r, r)), 's': rand_scal(rng, n)}
    if t == 'matmulOp':
        return {'t': t, 'a': sub((r, c)), 'o': _rand_entry(rng, n_leaves)}
    if t == 'getitem':
        R, C = rng.randint(r, r + 1), rng.randint(c, c + 1)
        return {'t': t, 'a': sub((R, C)), 'ri': _rand_idx(rng, R), 'ci': _rand_idx(rng, C)}
    if t == 'vstack':
        return {'t': t, 'a': sub((r, c)), 'b': sub((rng.randint(1, 2), c + (1 if bad else 0)))}
    if t == 'hstack':
        return {'t': t, 'a': sub((r, c)), 'b': sub((r + (1 if bad else 0), rng.randint(1, 2)))}
    if t in ('vstackOp', 'opVstack'):
        return {'t': t, 'a': sub((r, 1 if not bad else 2)), 'o': _rand_entry(rng, n_leaves)}
    return {'t': t, 'a': sub((1 if not bad else 2, c)), 'o': _rand_entry(rng, n_leaves)}


def _py_idx(ix):
    if ix['t'] == 'int':
        return ix['i']
    if ix['t'] == 'seq':
        return list(ix['l'])
    if ix['t'] == 'all':
        return slice(None)
    return slice(ix.get('start'), ix.get('stop'))


def build_mexpr(e, leaves, n):
    from mrpro.operators import LinearOperatorMatrix

    from harness.props.c04 import build_real, to_scalar

    t = e['t']
    B = lambda k: build_mexpr(e[k], leaves, n)  # noqa: E731
    op = lambda k: build_real(e[k], leaves, n)  # noqa: E731
    if t == 'lit':
        return LinearOperatorMatrix([[build_real(x, leaves, n) for x in row] for row in e['rows']])
    if t == 'fromDiag':
        return LinearOperatorMatrix.from_diagonal(*[build_real(x, leaves, n) for x in e['ops']])
    if t == 'matmul':
        return B('a') @ B('b')
    if t == 'matmulOp':
        return B('a') @ op('o')
    if t == 'add':
        return B('a') + B('b')
    if t == 'addOp':
        return B('a') + op('o')
    if t == 'addT':
        return B('a') + to_scalar(e['s'], n)
    if t == 'rmul':
        return to_scalar(e['s'], n) * B('a')
    if t == 'mul':
        return B('a') * to_scalar(e['s'], n)
    if t == 'rmulSeq':
        return [to_scalar(s, n) for s in e['ss']] * B('a')
    if t == 'mulSeq':
        return B('a') * [to_scalar(s, n) for s in e['ss']]
    if t == 'H':
        return B('a').H
    if t == 'getitem':
        out = B('a')[_py_idx(e['ri']), _py_idx(e['ci'])]
        if not isinstance(out, LinearOperatorMatrix):
            raise ValueError('selection is a single operator')  # MExpr.getitem is the matrix-valued indexing
        return out
    if t == 'vstack':
        return B('a') & B('b')
    if t == 'hstack':
        return B('a') | B('b')
    if t == 'vstackOp':
        return B('a') & op('o')
    if t == 'opVstack':
        return op('o') & B('a')
    if t == 'hstackOp':
        return B('a') | op('o')
    if t == 'opHstack':
        return op('o') | B('a')
    raise KeyError(t)


def fmt_m(e):
    from harness.props.c04 import fmt

    t = e['t']
    if t == 'lit':
        return '[' + '; '.join(' '.join(fmt(x) for x in row) for row in e['rows']) + ']'
    if t == 'fromDiag':
        return 'diag(' + ', '.join(fmt(x) for x in e['ops']) + ')'
    if t in ('matmul', 'add', 'vstack', 'hstack'):
        return f'({fmt_m(e["a"])} {dict(matmul="@", add="+", vstack="&", hstack="|")[t]} {fmt_m(e["b"])})'
    if t == 'H':
        return fmt_m(e['a']) + '.H'
    if t == 'getitem':
        return f'{fmt_m(e["a"])}[{e["ri"]}, {e["ci"]}]'
    return f'{t}({fmt_m(e["a"])}, …)'


def run_mprogram(case, drv) -> Outcome:
    import mrpro

    from harness.core.conv import strs_equal, tensor_strs
    from harness.props.c04 import strip

    rng = random.Random(case['seed'])
    n = case['n']
    e = case['e']
    mats = [int_tensor(rng, (n, n), complex_=rng.random() < 0.5, lo=-2, hi=2).to(torch.complex128) for _ in range(3)]
    leaves = [mrpro.operators.EinsumOp(m) for m in mats]
    st, A = call(lambda: build_mexpr(e, leaves, n))
    viol = None
    corr = None
    desc = fmt_m(e)
    shape_model = drv.call({'op': 'opmatrix', 'n': n, 'leaves': [tensor_strs(m) for m in mats], 'e': strip(e), 'xs': [], 'adj': False})['shape']
    if st != 'ok':
        if shape_model is not None:
            corr = f'program {desc}: the class raises {A}, the model builds a matrix of shape {shape_model}'
        return Outcome(key=('mprog-raises', desc), nontrivial=False, corr=corr, branches=['mprog:rejected'], sample={'n': n, 'program': desc})
    if shape_model is None or list(A.shape) != list(shape_model):
        corr = f'program {desc}: the class builds shape {list(A.shape)}, the model {shape_model}'
        return Outcome(key=('mprog', desc), corr=corr, branches=['mprog:shape'], sample={'n': n, 'program': desc})
    r, c = A.shape
    for adj in (False, True):
        k = r if adj else c
        xs = [int_tensor(rng, (n,), complex_=True, lo=-3, hi=3).to(torch.complex128) for _ in range(k)]
        stv, ys = call(lambda: (A.adjoint(*xs) if adj else A(*xs)))
        m = drv.call({'op': 'opmatrix', 'n': n, 'leaves': [tensor_strs(mm) for mm in mats], 'e': strip(e), 'xs': [tensor_strs(x) for x in xs], 'adj': adj})
        which = 'adjoint' if adj else 'forward'
        if stv != 'ok':
            if m['status'] == 'ok':
                corr = corr or f'program {desc} {which}: the class raises {ys}, the model returns a value'
                # the program was built and has a block-matrix value on this input: raising is a failure of the property
                viol = viol or {'signature': f'opmatrix:program:{which}:raises', 'what': f'operator-matrix program {desc} ({which}, blocks {n}x{n}) raises {ys}; '
                                f'its block-matrix semantics gives {m["ys"][:2]}'}
            continue
        if m['status'] != 'ok':
            corr = corr or f'program {desc} {which}: the model rejects the call, the class returns a value'
            continue
        got = [(y + torch.zeros(n, dtype=torch.complex128)) for y in ys]  # an all-ZeroOp row returns the scalar 0
        if len(got) != len(m['ys']) or any(not strs_equal(tensor_strs(g), my) for g, my in zip(got, m['ys'])):
            corr = corr or f'program {desc} {which}: class {[tensor_strs(g) for g in got][:2]} model {m["ys"][:2]}'
            viol = viol or {'signature': f'opmatrix:program:{which}', 'what': f'operator-matrix program {desc} ({which}, blocks {n}x{n}) differs from its block-matrix semantics'}
    return Outcome(key=('mprog', n, desc), corr=corr, viol=viol, branches=[f'mprog:root:{e["t"]}', f'mprog:shape:{r}x{c}'], sample={'n': n, 'program': desc})
