"""Operator matrices (LinearOperatorMatrix): random block programs vs dense block algebra."""
import random

import torch

from harness.core.runner import Outcome
from harness.core.util import call, int_tensor


def run_opmatrix(case, drv) -> Outcome:
    import mrpro
    from mrpro.operators import LinearOperatorMatrix

    rng = random.Random(case['seed'])
    n = rng.randint(1, 3)

    def leaf():
        m = int_tensor(rng, (n, n), lo=-2, hi=2)
        return mrpro.operators.EinsumOp(m), m

    def mk(r, c):
        ops, mats = [], []
        for _ in range(r):
            row = [leaf() for _ in range(c)]
            ops.append([o for o, _ in row])
            mats.append([m for _, m in row])
        return LinearOperatorMatrix(ops), torch.cat([torch.cat(row, dim=1) for row in mats], dim=0)

    r, c, k = rng.randint(1, 3), rng.randint(1, 3), rng.randint(1, 3)
    prog = rng.choice(['apply', 'matmul', 'H', 'add', 'diag', 'getitem', 'stack', 'scale', 'addop', 'matmul_op', 'diag_matmul'])
    A, DA = mk(r, c)
    viol = None

    def apply(M, D, cols, what):
        nonlocal viol
        xs = [int_tensor(rng, (n,), lo=-3, hi=3) for _ in range(cols)]
        st, ys = call(lambda: M(*xs))
        want = D @ torch.cat(xs)
        if st != 'ok':
            viol = viol or {'signature': f'opmatrix:{prog}:raises', 'what': f'operator matrix program {what} raises {ys}'}
            return
        got = torch.cat([(y + torch.zeros(n, dtype=torch.complex128)) for y in ys])
        if not torch.equal(got.to(torch.complex128), want):
            viol = viol or {'signature': f'opmatrix:{prog}', 'what': f'operator matrix program {what} ({r}x{c} blocks of {n}x{n}) differs from dense block algebra'}

    if prog == 'apply':
        apply(A, DA, c, 'A(x)')
    elif prog == 'matmul':
        B, DB = mk(c, k)
        st, M = call(lambda: A @ B)
        if st != 'ok':
            viol = {'signature': 'opmatrix:matmul:raises', 'what': f'A @ B raises {M}'}
        else:
            apply(M, DA @ DB, k, 'A @ B')
    elif prog == 'matmul_op':
        o, m = leaf()
        st, M = call(lambda: A @ o)
        if st != 'ok':
            viol = {'signature': 'opmatrix:matmul_op:raises', 'what': f'LinearOperatorMatrix @ LinearOperator raises {M}'}
        else:
            apply(M, DA @ torch.block_diag(*[m] * c), c, 'A @ op')
    elif prog == 'diag_matmul':
        ls = [leaf() for _ in range(rng.randint(1, 3))]
        ms = [leaf() for _ in ls]
        D1 = LinearOperatorMatrix.from_diagonal(*[o for o, _ in ls])
        D2 = LinearOperatorMatrix.from_diagonal(*[o for o, _ in ms])
        st, M = call(lambda: D1 @ D2)
        if st != 'ok':
            viol = {'signature': 'opmatrix:diag_matmul:raises', 'what': f'from_diagonal(..) @ from_diagonal(..) raises {M}'}
        else:
            apply(M, torch.block_diag(*[m for _, m in ls]) @ torch.block_diag(*[m for _, m in ms]), len(ls), 'from_diagonal @ from_diagonal')
    elif prog == 'H':
        apply(A.H, DA.conj().T, r, 'A.H')
        xs = [int_tensor(rng, (n,), lo=-3, hi=3) for _ in range(r)]
        st, ys = call(lambda: A.adjoint(*xs))
        if st == 'ok' and not torch.equal(torch.cat(list(ys)).to(torch.complex128), DA.conj().T @ torch.cat(xs)):
            viol = viol or {'signature': 'opmatrix:adjoint', 'what': 'A.adjoint(*x) differs from dense A^H x'}
    elif prog == 'add':
        B, DB = mk(r, c)
        apply(A + B, DA + DB, c, 'A + B')
    elif prog == 'diag':
        ls = [leaf() for _ in range(rng.randint(1, 3))]
        M = LinearOperatorMatrix.from_diagonal(*[o for o, _ in ls])
        apply(M, torch.block_diag(*[m for _, m in ls]), len(ls), 'from_diagonal')
        apply(M.H, torch.block_diag(*[m for _, m in ls]).conj().T, len(ls), 'from_diagonal(...).H')
    elif prog == 'getitem':
        rows = sorted(rng.sample(range(r), rng.randint(1, r)))
        cols = sorted(rng.sample(range(c), rng.randint(1, c)))
        enc_rows = [i if rng.random() < 0.5 else i - r for i in rows]
        enc_cols = [j if rng.random() < 0.5 else j - c for j in cols]
        st, S = call(lambda: A[enc_rows, enc_cols])
        D = DA.reshape(r, n, c, n)[rows][:, :, cols].reshape(len(rows) * n, len(cols) * n)
        if st != 'ok':
            viol = {'signature': 'opmatrix:getitem:raises', 'what': f'A[{enc_rows},{enc_cols}] raises {S}'}
        elif isinstance(S, LinearOperatorMatrix):
            apply(S, D, len(cols), f'A[{enc_rows},{enc_cols}]')
        else:
            x = int_tensor(rng, (n,), lo=-3, hi=3)
            if not torch.equal(S(x)[0].to(torch.complex128), D @ x):
                viol = {'signature': 'opmatrix:getitem', 'what': f'A[{enc_rows},{enc_cols}] (single operator) differs from the dense block'}
    elif prog == 'stack':
        B, DB = mk(r, k)
        apply(A | B, torch.cat([DA, DB], dim=1), c + k, 'A | B')
        C, DC = mk(k, c)
        apply(A & C, torch.cat([DA, DC], dim=0), c, 'A & C')
        (o1, m1), (o2, m2) = leaf(), leaf()
        apply(o1 | o2, torch.cat([m1, m2], dim=1), 2, 'op | op')
        apply(o1 & o2, torch.cat([m1, m2], dim=0), 1, 'op & op')
    elif prog == 'scale':
        s = complex(rng.randint(-2, 2), rng.randint(-2, 2))
        apply(s * A, s * DA, c, 'c * A')
        apply(A * s, s * DA, c, 'A * c')
        t = int_tensor(rng, (n,), lo=-2, hi=2)
        apply(A * t, DA @ torch.block_diag(*[torch.diag(t)] * c), c, 'A * tensor')
        apply(t * A, torch.block_diag(*[torch.diag(t)] * r) @ DA, c, 'tensor * A')
    elif prog == 'addop':
        S, DS = mk(r, r)
        o, m = leaf()
        apply(S + o, DS + torch.block_diag(*[m] * r), r, 'square matrix + operator')
    return Outcome(key=('opmatrix', prog, r, c, n, case['seed'] % 11), viol=viol, branches=[f'opmatrix:{prog}'], sample={'prog': prog, 'blocks': [r, c], 'n': n})
