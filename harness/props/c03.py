"""C03 — Fourier operators compute the MR encoding model (non-uniform DFT, centre voxel n//2)."""
import math
import random
import warnings
from fractions import Fraction

import torch

from harness.core.conv import bits_tensor, frac_str, tensor_bits
from harness.core.runner import Outcome
from harness.core.util import call, int_tensor

RULE = ('FastFourierOp: random shapes (rank 1-4), dim subsets/encodings, recon/encoding sizes 1..9 of both parities or no padding; '
        'FourierOp: trajectories (Cartesian full/permuted/undersampled/duplicated, 2D with singleton kz, per-other, partially on-grid, '
        'radial, random; 1-3 D) x recon/encoding sizes; forward and adjoint compared with the Lean model (double precision) on '
        'Cartesian cases and with an explicit non-uniform DFT in float64 on all. distinct = distinct configuration key')
ASSUMPTIONS = ['torch.fft.fftn(norm=ortho) is the DFT with kernel e^{-2 pi i k r/n}/sqrt(n) (checked against the model per case)',
               'KB-NUFFT (torchkbnufft) approximates the NUDFT to its documented accuracy (checked to 5e-3 relative per case)']
TOL_FFT = 1e-10
TOL_NUFFT = 5e-3


# --------------------------------------------------------------------------- generation
def generate(rng: random.Random, tier: str):
    thorough = tier == 'thorough'
    cases = []
    for _ in range(150 if thorough else 30):
        rank = rng.randint(1, 4)
        shape = [rng.randint(1, 4) for _ in range(rank)]
        k = rng.randint(1, min(3, rank))
        dims = rng.sample(range(rank), k)
        enc_dims = [d if rng.random() < 0.5 else d - rank for d in dims]
        pad = rng.random() < 0.75
        recon = [rng.randint(1, 9) for _ in dims]
        enc = [rng.randint(1, 9) for _ in dims]
        for d, r in zip(dims, recon, strict=True):
            shape[d] = r
        cases.append({'kind': 'fft', 'shape': shape, 'dim': enc_dims, 'recon': recon if pad else None, 'enc': enc if pad else None,
                      'seed': rng.randrange(1 << 30)})
    # bounded-exhaustive 1-D parity table
    top = 9 if thorough else 6
    for r in range(1, top + 1):
        for e in range(1, top + 1):
            cases.append({'kind': 'fft', 'shape': [r], 'dim': [0], 'recon': [r], 'enc': [e], 'seed': r * 31 + e})
    flavours = ['cart_jitter', 'cart_full', 'cart_permuted', 'cart_interleaved', 'cart_undersampled', 'cart_dup', 'cart_2d', 'cart_1d', 'cart_per_other', 'partial_grid',
                'radial2d', 'random2d', 'random3d', 'random1d']
    for _ in range(120 if thorough else 36):
        cases.append(gen_fourier(rng, rng.choice(flavours)))
    return cases


def _axis(n):
    return list(range(-(n // 2), n - n // 2))


def _carry(case):
    """an axis whose trajectory component is a single value is not transformed: the image axis is carried over to the
    matching k-space axis, so its size must be the (broadcast) trajectory size there"""
    shapes = [case[k]['shape'] for k in ('kz', 'ky', 'kx')]
    tshape = [max(s[i] for s in shapes) for i in range(4)]
    for a, name in enumerate(('kz', 'ky', 'kx')):
        if all(d == 1 for d in case[name]['shape'][1:]):
            case['recon'][a] = tshape[1 + a]
    return case


def gen_fourier(rng, flavour):
    cart = flavour.startswith('cart')
    other = rng.randint(1, 2)
    coils = rng.randint(1, 2)
    if cart:
        d3 = flavour not in ('cart_2d', 'cart_1d') and rng.random() < 0.5
        enc = [rng.randint(2, 4) if d3 else 1, 1 if flavour == 'cart_1d' else rng.randint(2, 7), rng.randint(2, 8)]
        recon = [rng.randint(1, 5) if d3 else 1, 1 if flavour == 'cart_1d' else rng.randint(1, 8), rng.randint(1, 9)]
        comps = {}
        for name, n, pos in (('kz', enc[0], 1), ('ky', enc[1], 2), ('kx', enc[2], 3)):
            vals = _axis(n)
            o = 1
            if n == 1:
                vals = [0]
            elif flavour in ('cart_permuted', 'cart_jitter') and pos != 3:
                rng.shuffle(vals)
            elif flavour == 'cart_interleaved' and pos != 3 and n >= 4:
                # every line once, lowest first and highest last, interleaved in between (e.g. even lines, then odd lines)
                mid = vals[2:-1:2] + vals[1:-1:2]
                while mid == vals[1:-1]:
                    rng.shuffle(mid)
                vals = [vals[0], *mid, vals[-1]]
            elif flavour == 'cart_undersampled' and pos != 3:
                vals = sorted(rng.sample(vals, max(1, n - rng.randint(1, 2))))
            elif flavour == 'cart_dup' and pos != 3:
                vals = [rng.choice(vals) for _ in vals]
            elif flavour == 'cart_per_other' and pos == 2:
                o = other
                vv = []
                for _ in range(o):
                    w = _axis(n)
                    rng.shuffle(w)
                    vv += w
                vals = vv
            shape = [o, 1, 1, 1]
            shape[pos] = len(vals) // o
            if flavour == 'cart_jitter' and n > 1:
                # on the grid only up to the detection tolerance: stored with small errors of either sign
                vals = [Fraction(v) + rng.choice([-1, 1, 1, -1, 0]) * Fraction(1, rng.choice([2048, 4096, 8192])) for v in vals]
            comps[name] = {'shape': shape, 'vals': [str(v) for v in vals]}
        return _carry({'kind': 'fourier', 'flavour': flavour, 'recon': recon, 'enc': enc, 'other': other, 'coils': coils, **comps,
                       'seed': rng.randrange(1 << 30)})
    # non-Cartesian: float trajectories (stored as exact dyadic fractions)
    def dy(v):
        return frac_str(Fraction(round(v * 1024), 1024))

    if flavour == 'partial_grid':
        # ky on grid along k1, kx off-grid along k0 (aligned as FourierOp requires)
        ny, nx = rng.randint(2, 6), rng.choice([6, 7, 8, 9])
        enc = [1, ny, nx]
        recon = [1, rng.randint(1, 6), rng.choice([6, 7, 8])]
        kyv = _axis(ny)
        rng.shuffle(kyv)
        k0 = rng.randint(4, 8)
        kxv = [rng.uniform(-nx / 2, nx / 2 - 0.01) for _ in range(k0)]
        return _carry({'kind': 'fourier', 'flavour': flavour, 'recon': recon, 'enc': enc, 'other': other, 'coils': coils,
                       'kz': {'shape': [1, 1, 1, 1], 'vals': ['0']}, 'ky': {'shape': [1, 1, ny, 1], 'vals': [str(v) for v in kyv]},
                       'kx': {'shape': [1, 1, 1, k0], 'vals': [dy(v) for v in kxv]}, 'seed': rng.randrange(1 << 30)})
    dims = {'radial2d': 2, 'random2d': 2, 'random3d': 3, 'random1d': 1}[flavour]
    enc = [rng.choice([6, 7, 8]) if dims == 3 else 1, rng.choice([6, 7, 8, 9]) if dims >= 2 else 1, rng.choice([6, 7, 8, 9, 10])]
    recon = [rng.choice([6, 7]) if dims == 3 else 1, rng.choice([6, 7, 8]) if dims >= 2 else 1, rng.choice([6, 7, 8, 9])]
    k1, k0 = rng.randint(2, 4), rng.randint(4, 7)
    shape = [1, 1, k1, k0]
    n = k1 * k0
    # overshoot: trajectories that leave the encoded k-space (radial / spiral overshoot, measured trajectories); the encoding
    # model is a Fourier sum at whatever position the sample has
    over = rng.choice([1.0, 1.0, 1.0, 1.3, 1.7])
    if flavour == 'radial2d':
        ang = [math.pi * i / k1 for i in range(k1)]
        rad = [over * (-0.5 + j / k0) for j in range(k0)]
        kx = [r * math.cos(a) * enc[2] for a in ang for r in rad]
        ky = [r * math.sin(a) * enc[1] for a in ang for r in rad]
        kz = None
    else:
        kx = [over * rng.uniform(-enc[2] / 2, enc[2] / 2 - 0.01) for _ in range(n)]
        ky = [over * rng.uniform(-enc[1] / 2, enc[1] / 2 - 0.01) for _ in range(n)] if dims >= 2 else None
        kz = [over * rng.uniform(-enc[0] / 2, enc[0] / 2 - 0.01) for _ in range(n)] if dims == 3 else None

    def comp(v):
        return {'shape': shape, 'vals': [dy(t) for t in v]} if v is not None else {'shape': [1, 1, 1, 1], 'vals': ['0']}

    return _carry({'kind': 'fourier', 'flavour': flavour, 'recon': recon, 'enc': enc, 'other': other, 'coils': coils, 'kz': comp(kz),
                   'ky': comp(ky), 'kx': comp(kx), 'seed': rng.randrange(1 << 30)})


# --------------------------------------------------------------------------- oracles
def centred_dft_matrix(nrec, nenc):
    """E[k, r] = exp(-2 pi i (k - nenc//2)(r - nrec//2)/nenc)/sqrt(nenc) for the r that survive centred cropping to nenc"""
    k = torch.arange(nenc, dtype=torch.float64) - nenc // 2
    r = torch.arange(nrec, dtype=torch.float64) - nrec // 2
    E = torch.exp(-2j * math.pi * k[:, None] * r[None, :] / nenc) / math.sqrt(nenc)
    # cropping: image index r survives iff 0 <= r + (nenc//2 - nrec//2) < nenc
    rr = torch.arange(nrec) + (nenc // 2 - nrec // 2)
    keep = (rr >= 0) & (rr < nenc)
    return E * keep[None, :].to(E.dtype)


def spec_fft(x, dims, recon, enc):
    y = x.to(torch.complex128)
    for i, d in enumerate(dims):
        n = y.shape[d]
        nrec = n if recon is None else recon[i]
        nenc = n if enc is None else enc[i]
        E = centred_dft_matrix(nrec, nenc)
        y = torch.movedim(torch.tensordot(y, E, dims=([d], [1])), -1, d)
    return y


def rel_err(a, b):
    den = max(float(b.abs().max()), 1e-30)
    return float((a - b).abs().max()) / den if a.shape == b.shape else float('inf')


def run_fft(case, drv):
    import mrpro

    rng = random.Random(case['seed'])
    shape, dims = case['shape'], case['dim']
    nd = len(shape)
    x = int_tensor(rng, shape).to(torch.complex128) + 0.25
    st, op = call(lambda: mrpro.operators.FastFourierOp(dim=tuple(dims), recon_matrix=case['recon'], encoding_matrix=case['enc']))
    if st != 'ok':
        return Outcome(key=('fft-ctor-err', str(case)), corr=f'FastFourierOp constructor raised {op} for {case}')
    (y,) = op(x)
    spec = {'op': 'linopf', 'name': 'fft', 'dim': dims, 'recon': case['recon'], 'enc': case['enc']}
    m = drv.call({**spec, 'adj': False, 'shape': list(shape), 'x': tensor_bits(x)})
    corr = None
    if 'err' in m:
        corr = f'fft {case}: model raises {m["err"]}, implementation returns'
    else:
        ym = bits_tensor(m['data'], m['shape'])
        if list(y.shape) != m['shape'] or rel_err(y, ym) > TOL_FFT:
            corr = f'fft forward {case}: impl vs model rel err {rel_err(y, ym):.2e}, shapes {list(y.shape)} {m["shape"]}'
    yin = int_tensor(rng, y.shape).to(torch.complex128)
    (xa,) = op.adjoint(yin)
    ma = drv.call({**spec, 'adj': True, 'shape': list(y.shape), 'x': tensor_bits(yin)})
    if corr is None:
        if 'err' in ma:
            corr = f'fft adjoint {case}: model raises {ma["err"]}'
        else:
            xm = bits_tensor(ma['data'], ma['shape'])
            if list(xa.shape) != ma['shape'] or rel_err(xa, xm) > TOL_FFT:
                corr = f'fft adjoint {case}: impl vs model rel err {rel_err(xa, xm):.2e}'
    # property-level oracle: explicit centred DFT sum
    ndims = [d % nd for d in dims]
    want = spec_fft(x, ndims, case['recon'], case['enc'])
    viol = None
    if want.shape != y.shape or rel_err(y, want) > TOL_FFT:
        viol = {'signature': 'fft:encoding-model', 'what': f'FastFourierOp {case}: output differs from c*sum_r x[r] exp(-2 pi i k (r-r_c)/N_enc) '
                f'(rel err {rel_err(y, want):.2e}); centre voxel r_c = n//2'}
    elif case['recon'] == case['enc'] or case['recon'] is None:
        # without cropping the operator is unitary: A^H A x = x
        (back,) = op.adjoint(y)
        if rel_err(back, x) > TOL_FFT:
            viol = {'signature': 'fft:unitary', 'what': f'FastFourierOp {case}: adjoint(forward(x)) != x without cropping (rel err {rel_err(back, x):.2e})'}
    par = 'none' if case['recon'] is None else ''.join('eo'[r % 2] + 'eo'[e % 2] + ('p' if e >= r else 'c') + ' ' for r, e in zip(case['recon'], case['enc'], strict=True))
    return Outcome(key=('fft', tuple(shape), tuple(dims), str(case['recon']), str(case['enc'])), nontrivial=max(shape) > 1, corr=corr, viol=viol,
                   branches=[f'fft:{par.strip()}'], sample=case)


def traj_tensor(c):
    return torch.tensor([float(Fraction(v)) for v in c['vals']], dtype=torch.float64).reshape(c['shape'])


def nudft_oracle(x, kz, ky, kx, recon, enc, transformed, tshape):
    """y[o,c,k2,k1,k0] = sum_{r in transformed axes} x * exp(-2 pi i sum_a k_a (r_a - rc_a)/Nenc_a), constant 1"""
    o, c = x.shape[0], x.shape[1]
    ks = [k.expand(max(k.shape[0], 1), *tshape[1:]) for k in (kz, ky, kx)]
    out = torch.zeros(o, c, *tshape[1:], dtype=torch.complex128)
    # loop over samples (small)
    img = x.to(torch.complex128)
    for oi in range(o):
        for s2 in range(tshape[1]):
            for s1 in range(tshape[2]):
                for s0 in range(tshape[3]):
                    ph = torch.ones(recon[0], recon[1], recon[2], dtype=torch.complex128)
                    sel = [slice(None)] * 3
                    for a in range(3):
                        k = ks[a][oi if ks[a].shape[0] > 1 else 0, s2, s1, s0]
                        if transformed[a]:
                            r = torch.arange(recon[a], dtype=torch.float64) - recon[a] // 2
                            e = torch.exp(-2j * math.pi * k * r / enc[a])
                            shp = [1, 1, 1]
                            shp[a] = recon[a]
                            ph = ph * e.reshape(shp)
                        else:
                            # untransformed (singleton) axis: image axis is carried over to the matching k axis
                            idx = (s2, s1, s0)[a]
                            sel[a] = slice(idx, idx + 1) if recon[a] > 1 else slice(None)
                    sub = img[oi][(slice(None), *sel)]
                    phs = ph[tuple(sel)]
                    out[oi, :, s2, s1, s0] = (sub * phs).reshape(c, -1).sum(-1)
    return out


def run_fourier(case, drv):
    import mrpro
    from mrpro.data import KTrajectory, SpatialDimension

    rng = random.Random(case['seed'])
    recon, enc = case['recon'], case['enc']
    kz, ky, kx = (traj_tensor(case[k]) for k in ('kz', 'ky', 'kx'))
    traj = KTrajectory(kz, ky, kx, repeat_detection_tolerance=None)
    with warnings.catch_warnings():
        warnings.simplefilter('ignore')
        st, op = call(lambda: mrpro.operators.FourierOp(SpatialDimension(*recon), SpatialDimension(*enc), traj))
    if st != 'ok':
        if op == 'NotImplementedError':
            # the documented limitation: a direction that happens to be on the grid but is not aligned with its k-space dimension next to a
            # NUFFT direction (e.g. two radial spokes at 0 and 90 degrees) is rejected explicitly - not a statement about the encoding model
            return Outcome(key=('fourier-unsupported', case['flavour']), nontrivial=False, branches=['fourier:not-implemented'])
        return Outcome(key=('fourier-ctor', case['flavour']), corr=f'FourierOp constructor raised {op} for flavour {case["flavour"]} {recon} {enc}')
    tshape = list(traj.broadcasted_shape)
    b = max(case['other'], tshape[0])
    c = case['coils']
    x = int_tensor(rng, (b, c, *recon)).to(torch.complex128)
    if float(x.abs().max()) == 0:
        x = x + 1  # a zero image says nothing about the constant
    (y,) = op(x)
    cart = case['flavour'].startswith('cart')
    corr = None
    viol = None
    transformed = [(-3 + a) in (op._fft_dims + op._nufft_dims) for a in range(3)]
    branches = [f'fourier:{case["flavour"]}:fft{len(op._fft_dims)}:nufft{len(op._nufft_dims)}:ignore{len(op._ignore_dims)}']
    if cart:
        spec = {'op': 'linopf', 'name': 'fourier_cart', 'enc': enc, 'recon': recon, 'tshape': tshape, 'kz': case['kz'], 'ky': case['ky'],
                'kx': case['kx']}
        m = drv.call({**spec, 'adj': False, 'shape': list(x.shape), 'x': tensor_bits(x)})
        if 'err' in m:
            corr = f'fourier {case["flavour"]} recon {recon} enc {enc}: model raises {m["err"]}'
        else:
            ym = bits_tensor(m['data'], m['shape'])
            if list(y.shape) != m['shape'] or rel_err(y, ym) > TOL_FFT:
                corr = f'fourier forward {case["flavour"]} recon {recon} enc {enc}: impl vs model rel err {rel_err(y, ym):.2e} shapes {list(y.shape)} {m["shape"]}'
        yin = int_tensor(rng, y.shape).to(torch.complex128)
        (xa,) = op.adjoint(yin)
        ma = drv.call({**spec, 'adj': True, 'shape': list(y.shape), 'x': tensor_bits(yin)})
        if corr is None:
            if 'err' in ma:
                corr = f'fourier adjoint {case["flavour"]}: model raises {ma["err"]}'
            else:
                xm = bits_tensor(ma['data'], ma['shape'])
                if list(xa.shape) != ma['shape'] or rel_err(xa, xm) > TOL_FFT:
                    corr = f'fourier adjoint {case["flavour"]} recon {recon} enc {enc}: impl vs model rel err {rel_err(xa, xm):.2e}'
    # property-level oracle: NUDFT at the trajectory points, samples in trajectory order/shape
    if list(y.shape[-3:]) != tshape[1:]:
        viol = {'signature': 'fourier:shape', 'what': f'FourierOp {case["flavour"]}: output shape {list(y.shape)} is not the trajectory shape {tshape}'}
    else:
        # for cropping configurations restrict the oracle to the voxels that survive (FFT path crops the image)
        if case['flavour'] == 'cart_jitter':  # on-grid within the tolerance means: the sample at the grid point
            kz, ky, kx = kz.round(), ky.round(), kx.round()
        want = nudft_oracle(x, kz, ky, kx, recon, enc, transformed, tshape)
        crop = any(r > e for r, e, t in zip(recon, enc, transformed, strict=True) if t)
        if not crop:
            num = (want.conj() * y).sum()
            den = (want.conj() * want).sum()
            cst = complex(num / den) if abs(den) > 0 else 0
            tol = TOL_FFT if not op._nufft_dims else TOL_NUFFT
            err = rel_err(y, cst * want)
            fft_sizes = [enc[a] for a in range(3) if (-3 + a) in op._fft_dims]
            if not (cst.real > 0 and abs(cst.imag) <= tol * abs(cst)) or err > tol * (10 if op._nufft_dims else 1):
                viol = {'signature': f'fourier:encoding-model:{"nufft" if op._nufft_dims else "fft"}',
                        'what': (f'FourierOp {case["flavour"]} recon {recon} enc {enc}: output is not c*NUDFT(x) with a positive constant: '
                                 f'c = {cst:.6g}, rel err {err:.2e}')}
            elif not op._nufft_dims:
                c_expected = 1.0 / math.sqrt(math.prod(fft_sizes)) if fft_sizes else 1.0
                if abs(cst.real - c_expected) > 1e-9:
                    viol = {'signature': 'fourier:constant', 'what': f'FourierOp FFT path constant {cst.real} != 1/sqrt(prod enc) = {c_expected}'}
            else:
                # the constant must not depend on data or trajectory: second image + perturbed trajectory of the same sizes
                x2 = int_tensor(rng, (b, c, *recon)).to(torch.complex128)
                (y2,) = op(x2)
                want2 = nudft_oracle(x2, kz, ky, kx, recon, enc, transformed, tshape)
                c2 = complex((want2.conj() * y2).sum() / (want2.conj() * want2).sum())
                if abs(c2 - cst) > TOL_NUFFT * abs(cst):
                    viol = {'signature': 'fourier:constant', 'what': f'NUFFT constant depends on the data: {cst} vs {c2}'}
    return Outcome(key=('fourier', case['flavour'], tuple(recon), tuple(enc), case['other'], tuple(tshape)), corr=corr, viol=viol, branches=branches,
                   sample={k: v for k, v in case.items() if k not in ('kz', 'ky', 'kx')} | {'tshape': tshape})


def run(case, drv) -> Outcome:
    return run_fft(case, drv) if case['kind'] == 'fft' else run_fourier(case, drv)


def neighbours(case, rng):
    if case['kind'] == 'fft':
        return [{**case, 'recon': [r], 'enc': [e], 'shape': [r], 'dim': [0]} for r in range(1, 7) for e in range(1, 7)]
    return [gen_fourier(rng, case['flavour']) for _ in range(20)]
