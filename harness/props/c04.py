"""C04 — operator algebra and gram shortcuts behave like matrix algebra."""
import random

import torch

from harness.core.conv import parse_scal, scal_str, strs_equal, tensor_strs
from harness.core.runner import Outcome
from harness.core.util import call, int_tensor

RULE = ('random expression trees (depth <= 5 quick / 6 thorough) plus all trees of depth <= 2 over the combinators @ + (+tensor) c* *c .H .gram '
        'with leaves EinsumOp (dense integer complex matrices), IdentityOp, ZeroOp and python-scalar / 1-element / n-element tensor '
        'factors incl. 0 and 1; built with the real overloads and applied to integer vectors (forward and adjoint); compared '
        'exactly with the Lean object-graph model and with the shortcut-free denotation; specialised gram operators '
        '(CartesianSamplingGramOp, FourierGramOp) compared with adjoint(forward(x)); operator matrices vs dense block algebra. '
        'distinct = distinct tree; non-trivial = tree with at least one combinator')
ASSUMPTIONS = ['EinsumOp leaves are the dense matrices they were constructed from (C09)']


def rand_scal(rng, n, allow_tn=True):
    kind = rng.choice(['py', 'py', 't1', 'tn'] if allow_tn else ['py', 't1'])
    if kind == 'py':
        v = rng.choice([0, 1, 2, -1, 3, 1j, 2 - 1j, 0.5, 1.0, 0.0])
        return {'k': 'py', 'v': scal_str(complex(v)), 'pytype': type(v).__name__}
    if kind == 't1':
        v = complex(rng.randint(-2, 2), rng.randint(-2, 2))
        return {'k': 't1', 'v': scal_str(v)}
    return {'k': 'tn', 'v': [scal_str(complex(rng.randint(-2, 2), rng.randint(-2, 2))) for _ in range(n)]}


def rand_tree(rng, depth, n, n_leaves):
    if depth == 0 or rng.random() < 0.15:
        r = rng.random()
        if r < 0.75:
            return {'t': 'leaf', 'i': rng.randrange(n_leaves)}
        return {'t': 'ident'} if r < 0.9 else {'t': 'zero'}
    t = rng.choice(['comp', 'comp', 'add', 'add', 'addT', 'rmul', 'mul', 'adj', 'gram', 'gram'])
    if t in ('comp', 'add'):
        return {'t': t, 'a': rand_tree(rng, depth - 1, n, n_leaves), 'b': rand_tree(rng, depth - 1, n, n_leaves)}
    if t == 'addT':
        return {'t': t, 'a': rand_tree(rng, depth - 1, n, n_leaves), 's': _tensor_scal(rng, n)}
    if t in ('rmul', 'mul'):
        return {'t': t, 'a': rand_tree(rng, depth - 1, n, n_leaves), 's': rand_scal(rng, n)}
    return {'t': t, 'a': rand_tree(rng, depth - 1, n, n_leaves)}


def _tensor_scal(rng, n):
    s = rand_scal(rng, n)
    while s['k'] == 'py':
        s = rand_scal(rng, n)
    return s


def depth2_trees(n):
    """all trees of depth <= 2 over one leaf L0/L1, identity, zero and a fixed scalar set"""
    atoms = [{'t': 'leaf', 'i': 0}, {'t': 'leaf', 'i': 1}, {'t': 'ident'}, {'t': 'zero'}]
    scal = [{'k': 'py', 'v': '0', 'pytype': 'int'}, {'k': 'py', 'v': '1', 'pytype': 'int'}, {'k': 'py', 'v': '2;-1', 'pytype': 'complex'},
            {'k': 't1', 'v': '0;2'}, {'k': 'tn', 'v': [scal_str(complex(i - 1, 1)) for i in range(n)]}]

    def level(prev):
        out = []
        for a in prev:
            out += [{'t': 'adj', 'a': a}, {'t': 'gram', 'a': a}]
            for s in scal:
                out += [{'t': 'rmul', 's': s, 'a': a}, {'t': 'mul', 'a': a, 's': s}]
                if s['k'] != 'py':
                    out.append({'t': 'addT', 'a': a, 's': s})
            for b in prev:
                out += [{'t': 'comp', 'a': a, 'b': b}, {'t': 'add', 'a': a, 'b': b}]
        return out

    l1 = level(atoms)
    return l1, level(atoms + l1[::7])


def generate(rng: random.Random, tier: str):
    thorough = tier == 'thorough'
    cases = []
    n = 3
    l1, l2 = depth2_trees(n)
    for e in l1:
        cases.append({'kind': 'expr', 'n': n, 'e': e, 'seed': rng.randrange(1 << 30)})
    for e in (l2 if thorough else rng.sample(l2, 150)):
        cases.append({'kind': 'expr', 'n': n, 'e': e, 'seed': rng.randrange(1 << 30)})
    for _ in range(1500 if thorough else 200):
        n = rng.randint(1, 4)
        cases.append({'kind': 'expr', 'n': n, 'e': rand_tree(rng, rng.randint(2, 6 if thorough else 5), n, 3), 'seed': rng.randrange(1 << 30)})
    for i in range(40 if thorough else 10):
        cases.append({'kind': 'samp_gram', 'seed': rng.randrange(1 << 30)})
        cases.append({'kind': 'fourier_gram', 'seed': rng.randrange(1 << 30), 'flavour': ['cart', 'radial', 'mixed', 'random3d', 'random1d'][i % 5]})
    for _ in range(150 if thorough else 40):
        cases.append({'kind': 'opmatrix', 'seed': rng.randrange(1 << 30)})
    from harness.props import c04_matrix

    for _ in range(1200 if thorough else 160):
        n = rng.randint(1, 3)
        cases.append({'kind': 'mprogram', 'n': n, 'e': c04_matrix.rand_mexpr(rng, rng.randint(0, 3), n, 3), 'seed': rng.randrange(1 << 30)})
    return cases


def to_scalar(s, n):
    a, b = parse_scal(s['v']) if s['k'] != 'tn' else (None, None)
    if s['k'] == 'py':
        z = complex(float(a), float(b))
        pt = s.get('pytype', 'complex')
        if pt == 'int':
            return int(z.real)
        if pt == 'float':
            return float(z.real)
        return z
    if s['k'] == 't1':
        return torch.tensor([complex(float(a), float(b))], dtype=torch.complex128)
    return torch.tensor([complex(*map(float, parse_scal(v))) for v in s['v']], dtype=torch.complex128)


def build_real(e, leaves, n):
    import mrpro

    t = e['t']
    if t == 'leaf':
        return leaves[e['i']]
    if t == 'ident':
        return mrpro.operators.IdentityOp()
    if t == 'zero':
        return mrpro.operators.ZeroOp()
    if t == 'comp':
        return build_real(e['a'], leaves, n) @ build_real(e['b'], leaves, n)
    if t == 'add':
        return build_real(e['a'], leaves, n) + build_real(e['b'], leaves, n)
    if t == 'addT':
        return build_real(e['a'], leaves, n) + to_scalar(e['s'], n)
    if t == 'rmul':
        return to_scalar(e['s'], n) * build_real(e['a'], leaves, n)
    if t == 'mul':
        return build_real(e['a'], leaves, n) * to_scalar(e['s'], n)
    if t == 'adj':
        return build_real(e['a'], leaves, n).H
    if t == 'gram':
        return build_real(e['a'], leaves, n).gram
    raise KeyError(t)


def dense(e, mats, n):
    """numpy-style dense evaluation of the expression on the operands' matrices (the specification)"""
    t = e['t']
    eye = torch.eye(n, dtype=torch.complex128)
    if t == 'leaf':
        return mats[e['i']]
    if t == 'ident':
        return eye
    if t == 'zero':
        return torch.zeros(n, n, dtype=torch.complex128)
    if t == 'comp':
        return dense(e['a'], mats, n) @ dense(e['b'], mats, n)
    if t == 'add':
        return dense(e['a'], mats, n) + dense(e['b'], mats, n)
    if t in ('addT', 'rmul', 'mul'):
        s = to_scalar(e['s'], n)
        d = torch.diag(s.expand(n).to(torch.complex128)) if isinstance(s, torch.Tensor) else complex(s) * eye
        a = dense(e['a'], mats, n)
        return a + d if t == 'addT' else (d @ a if t == 'rmul' else a @ d)
    if t == 'adj':
        return dense(e['a'], mats, n).conj().T
    if t == 'gram':
        a = dense(e['a'], mats, n)
        return a.conj().T @ a
    raise KeyError(t)


def tree_size(e):
    return 1 + sum(tree_size(e[k]) for k in ('a', 'b') if k in e)


def strip(e):
    return {k: (strip(v) if isinstance(v, dict) and 't' in v else ({kk: vv for kk, vv in v.items() if kk != 'pytype'} if isinstance(v, dict) else v))
            for k, v in e.items()}


def run_expr(case, drv) -> Outcome:
    import mrpro

    rng = random.Random(case['seed'])
    n, e = case['n'], case['e']
    mats = [int_tensor(rng, (n, n), lo=-2, hi=2) for _ in range(3)]
    leaves = [mrpro.operators.EinsumOp(m) for m in mats]
    x = int_tensor(rng, (n,), lo=-3, hi=3)
    corr = None
    viol = None
    D = dense(e, mats, n)
    st, op = call(lambda: build_real(e, leaves, n))
    results = {}
    if st == 'ok':
        for adj in (False, True):
            stv, v = call(lambda adj=adj: (op.adjoint(x) if adj else op(x))[0])
            if stv == 'ok':
                # ZeroOp() returns a broadcastable scalar 0 by design: canonicalise anything that broadcasts to (n,)
                v = v.to(torch.complex128)
                if tuple(v.shape) != (n,) and v.numel() == 1:
                    v = v.reshape(()) + torch.zeros(n, dtype=torch.complex128)
            results[adj] = (stv, v)
    else:
        results = {False: ('err', op), True: ('err', op)}
    for adj in (False, True):
        m = drv.call({'op': 'expr', 'n': n, 'leaves': [tensor_strs(mm) for mm in mats], 'e': strip(e), 'x': tensor_strs(x), 'adj': adj})
        want = (D.conj().T if adj else D) @ x
        stv, v = results[adj]
        which = 'adjoint' if adj else 'forward'
        # exact comparison needs every integer to stay exactly representable in float64: deep gram towers reach 1e19; beyond 2^45 in
        # the (exact) model result the case is outside the exact regime and is not compared
        big = max((abs(int(t.split('/')[0])) for sc_ in m['den'] for t in str(sc_).split(';') if t.strip('-').split('/')[0].isdigit()), default=0)
        if big > 2 ** 45 or float(want.abs().max()) > 2.0 ** 45:
            return Outcome(key=('expr-magnitude', n, fmt(e)), nontrivial=False, branches=['magnitude-skip'], sample={'n': n, 'expr': fmt(e)})
        if not strs_equal(m['build'], m['den']) or not strs_equal(m['den'], tensor_strs(want)):
            corr = corr or f'model inconsistency ({which}): build {m["build"]} den {m["den"]} dense {tensor_strs(want)}'
        if stv == 'err':
            # the specification has a value, the library raises: the property fails on this input
            viol = viol or {'signature': f'expr:raises:{v}', 'what': f'expression {fmt(e)} ({which}) raises {v}; dense evaluation gives {tensor_strs(want)}',
                            'expr': fmt(e)}
            corr = corr or f'{which} of {fmt(e)}: implementation raises {v}, model returns a value'
        else:
            if list(v.shape) != [n] or not strs_equal(tensor_strs(v), m['build']):
                corr = corr or f'{which} of {fmt(e)}: impl {tensor_strs(v)} vs model {m["build"]}'
            if list(v.shape) != [n] or not torch.equal(v, want):
                viol = viol or {'signature': 'expr:value', 'what': f'expression {fmt(e)} ({which}) on x={tensor_strs(x)}: library {tensor_strs(v)} != dense {tensor_strs(want)}',
                                'expr': fmt(e)}
    return Outcome(key=('expr', n, fmt(e)), nontrivial=tree_size(e) > 1, corr=corr, viol=viol, branches=[f'root:{e["t"]}', f'size:{min(tree_size(e), 12)}'],
                   sample={'n': n, 'expr': fmt(e)})


def fmt(e):
    t = e['t']
    if t == 'leaf':
        return f'L{e["i"]}'
    if t in ('ident', 'zero'):
        return 'I' if t == 'ident' else 'Z'

    def s(sc):
        return f'{sc["k"]}({sc["v"] if sc["k"] != "tn" else "[...]"})'

    if t == 'comp':
        return f'({fmt(e["a"])} @ {fmt(e["b"])})'
    if t == 'add':
        return f'({fmt(e["a"])} + {fmt(e["b"])})'
    if t == 'addT':
        return f'({fmt(e["a"])} + {s(e["s"])})'
    if t == 'rmul':
        return f'({s(e["s"])} * {fmt(e["a"])})'
    if t == 'mul':
        return f'({fmt(e["a"])} * {s(e["s"])})'
    return f'{fmt(e["a"])}.{"H" if t == "adj" else "gram"}'


def run_samp_gram(case, drv) -> Outcome:
    import warnings

    from harness.core import zoo

    rng = random.Random(case['seed'])
    cfg = zoo.gen_cartsamp(rng, case['seed'])
    built = zoo.build(cfg)
    with warnings.catch_warnings():
        warnings.simplefilter('ignore')
        g = built.op.gram
    x = int_tensor(rng, built.dom)
    (a,) = g(x)
    (b,) = built.op.adjoint(built.op(x)[0])
    viol = None
    if not torch.equal(a, b):
        viol = {'signature': f'samp_gram:{cfg["flavour"]}', 'what': f'CartesianSamplingOp.gram(x) != adjoint(forward(x)) for flavour {cfg["flavour"]} enc {cfg["enc"]}'}
    (c,) = g.adjoint(x)
    if viol is None and not torch.equal(c, a):
        viol = {'signature': 'samp_gram:adjoint', 'what': 'CartesianSamplingGramOp.adjoint != forward (gram must be self-adjoint)'}
    return Outcome(key=('samp_gram', cfg['flavour'], tuple(cfg['enc'])), viol=viol, branches=[f'samp_gram:{cfg["flavour"]}'], sample={'flavour': cfg['flavour'], 'enc': cfg['enc']})


def run_fourier_gram(case, drv) -> Outcome:
    import math
    import warnings

    import mrpro
    from mrpro.data import KTrajectory, SpatialDimension

    rng = random.Random(case['seed'])
    fl = case['flavour']
    ny, nx = rng.choice([6, 8]), rng.choice([6, 8])
    nz = 1
    kz = torch.zeros(1, 1, 1, 1, dtype=torch.float64)
    if fl == 'random3d':  # rank-3 NUFFT (3-D radial / cones / measured trajectories)
        nz = rng.choice([4, 5, 6])
        k1, k0 = 6, 9
        kz, ky, kx = (torch.tensor([rng.uniform(-n / 2, n / 2 - 0.01) for _ in range(k1 * k0)], dtype=torch.float64).reshape(1, 1, k1, k0) for n in (nz, ny, nx))
    elif fl == 'random1d':  # rank-1 NUFFT: only the readout direction is encoded
        ny = 1
        ky = torch.zeros(1, 1, 1, 1, dtype=torch.float64)
        kx = torch.tensor([rng.uniform(-nx / 2, nx / 2 - 0.01) for _ in range(11)], dtype=torch.float64).reshape(1, 1, 1, -1)
    elif fl == 'cart':
        ky = torch.tensor(rng.sample(range(-ny // 2, ny // 2), ny - 2), dtype=torch.float64).reshape(1, 1, -1, 1)
        kx = torch.arange(-nx // 2, nx // 2, dtype=torch.float64).reshape(1, 1, 1, -1)
    elif fl == 'radial':
        k1, k0 = 5, 8
        ang = torch.arange(k1, dtype=torch.float64) * math.pi / k1
        rad = torch.linspace(-0.5, 0.5, k0, dtype=torch.float64)
        kx = (rad[None, :] * torch.cos(ang)[:, None] * nx).reshape(1, 1, k1, k0)
        ky = (rad[None, :] * torch.sin(ang)[:, None] * ny).reshape(1, 1, k1, k0)
    else:
        ky = torch.tensor(rng.sample(range(-ny // 2, ny // 2), ny - 1), dtype=torch.float64).reshape(1, 1, -1, 1)
        k0 = nx if case['seed'] % 2 else 7
        fl = fl + ('_k0eq' if k0 == nx else '_k0ne')
        kx = torch.tensor([rng.uniform(-nx / 2, nx / 2 - 0.01) for _ in range(k0)], dtype=torch.float64).reshape(1, 1, 1, -1)
    traj = KTrajectory(kz, ky, kx, repeat_detection_tolerance=None)
    with warnings.catch_warnings():
        warnings.simplefilter('ignore')
        op = mrpro.operators.FourierOp(SpatialDimension(nz, ny, nx), SpatialDimension(nz, ny, nx), traj)
        x = int_tensor(rng, (1, 2, nz, ny, nx)).to(torch.complex128)
        (b,) = op.adjoint(op(x)[0])
        st, a = call(lambda: op.gram(x)[0])
    if st != 'ok':
        return Outcome(key=('fourier_gram', fl, ny, nx, 'raises'), branches=[f'fourier_gram:{fl}:raises'],
                       viol={'signature': f'fourier_gram:{fl}:raises', 'what': f'FourierOp.gram(x) raises {a} for a trajectory with FFT and NUFFT '
                             f'dimensions ({fl}, image {ny}x{nx}, {kx.shape[-1]} samples along k0) while adjoint(forward(x)) evaluates'})
    err = float((a - b).abs().max() / b.abs().max())
    tol = 1e-10 if fl == 'cart' else 2e-2  # Toeplitz/KB-NUFFT accuracy
    viol = None
    if err > tol:
        viol = {'signature': f'fourier_gram:{fl}', 'what': f'FourierOp.gram(x) differs from adjoint(forward(x)) by rel {err:.2e} ({fl}, {nz}x{ny}x{nx})'}
    return Outcome(key=('fourier_gram', fl, ny, nx, case['seed'] % 5), viol=viol, branches=[f'fourier_gram:{fl}'], sample={'flavour': fl, 'ny': ny, 'nx': nx, 'rel_err': err})


def run(case, drv) -> Outcome:
    k = case['kind']
    if k == 'expr':
        return run_expr(case, drv)
    if k == 'samp_gram':
        return run_samp_gram(case, drv)
    if k == 'fourier_gram':
        return run_fourier_gram(case, drv)
    from harness.props.c04_matrix import run_mprogram, run_opmatrix

    if k == 'mprogram':
        return run_mprogram(case, drv)
    return run_opmatrix(case, drv)


def neighbours(case, rng):
    if case['kind'] != 'expr':
        return []
    return [{'kind': 'expr', 'n': case['n'], 'e': rand_tree(rng, 3, case['n'], 3), 'seed': rng.randrange(1 << 30)} for _ in range(30)]
