"""C16 — Voronoi density compensation has the invariances of cell volumes."""
import math
import random
import warnings

import torch

from harness.core.conv import frac_str, parse_scal
from harness.core.runner import Outcome
from harness.core.util import call

RULE = ('1-D point sets (random dyadic positions, duplicates, uniform grids, 1..12 points) compared with the exact rational Lean model of dcf_1d; '
        'trajectories in 1/2/3 D (radial, spiral-like, random, with duplicates, separable Cartesian layouts) through DcfData.from_traj_voronoi: '
        'positivity/finiteness, permutation equivariance, |a|^d scaling, equal sharing among duplicates, translation/rotation invariance and '
        'uniform-grid constancy for bounded interior cells, product rule for separable layouts. partially broadcast 3-D layouts (every direction along its own subset of k2, k1, k0; chain and random patterns): exponent of |a| under isotropic scaling = number of directions with an extent = the degree of the Lean model, broadcast form = dense form where every direction is coupled. distinct = distinct point-set key')
ASSUMPTIONS = ['scipy.spatial.Voronoi / ConvexHull (qhull) cell volumes are a parameter of the model', 'float32 output: tolerance 1e-4 relative']


def generate(rng: random.Random, tier: str):
    thorough = tier == 'thorough'
    cases = []
    for _ in range(1200 if thorough else 150):
        cases.append({'kind': 'd1', 'n': rng.randint(1, 12), 'flavour': rng.choice(['random', 'random', 'duplicates', 'uniform', 'two', 'single']), 'seed': rng.randrange(1 << 30)})
    for _ in range(200 if thorough else 30):
        cases.append({'kind': 'd2', 'flavour': rng.choice(['radial', 'spiral', 'random', 'duplicates', 'grid']), 'seed': rng.randrange(1 << 30)})
        cases.append({'kind': 'glue', 'dim': rng.choice([2, 2, 3]), 'seed': rng.randrange(1 << 30)})
    for _ in range(30 if thorough else 6):
        cases.append({'kind': 'd3', 'flavour': rng.choice(['random', 'grid']), 'seed': rng.randrange(1 << 30)})
    for _ in range(60 if thorough else 12):
        cases.append({'kind': 'separable', 'seed': rng.randrange(1 << 30)})
        cases.append({'kind': 'layout', 'pattern': rng.choice(['chain', 'chain', 'random']), 'seed': rng.randrange(1 << 30)})
    return cases


def pts1(case, rng):
    n, fl = case['n'], case['flavour']
    if fl == 'uniform':
        h = rng.choice([0.5, 1.0, 2.0])
        x0 = rng.randint(-8, 8) / 4
        return [x0 + h * i for i in range(max(n, 2))]
    if fl == 'two':
        return [rng.randint(-16, 16) / 4, rng.randint(17, 40) / 4]
    if fl == 'single':
        return [rng.randint(-16, 16) / 4] * rng.randint(1, 3)
    xs = [rng.randint(-64, 64) / 8 for _ in range(n)]
    if fl == 'duplicates' and n >= 2:
        for _ in range(rng.randint(1, n // 2 + 1)):
            xs[rng.randrange(n)] = xs[rng.randrange(n)]
    return xs


def run_d1(case, drv) -> Outcome:
    from mrpro.algorithms.dcf.dcf_voronoi import dcf_1d

    rng = random.Random(case['seed'])
    xs = pts1(case, rng)
    t = torch.tensor(xs, dtype=torch.float32)
    st, w = call(lambda: dcf_1d(t))
    if st != 'ok':
        return Outcome(key=('d1-raises', str(xs)), viol={'signature': 'dcf1d:raises', 'what': f'dcf_1d raises {w} for {xs}'})
    m = drv.call({'op': 'dcf1d', 'x': [frac_str(x) for x in xs]})
    mw = [float(parse_scal(s)[0]) for s in m['w']]
    corr = None
    if len(mw) != len(w) or any(abs(float(a) - b) > 1e-5 * (1 + abs(b)) for a, b in zip(w, mw)):
        corr = f'dcf_1d({xs}) = {w.tolist()} vs model {mw}'
    viol = None
    if not bool(torch.isfinite(w).all()) or (len(set(xs)) >= 2 and not bool((w > 0).all())):
        viol = {'signature': 'dcf1d:positive', 'what': f'dcf_1d({xs}) = {w.tolist()} is not positive and finite'}
    else:
        perm = list(range(len(xs)))
        rng.shuffle(perm)
        wp = dcf_1d(t[perm])
        if not torch.allclose(wp, w[perm], rtol=1e-5, atol=1e-7):
            viol = {'signature': 'dcf1d:permutation', 'what': f'dcf_1d is not permutation equivariant for {xs}'}
        a = rng.choice([-2.0, 0.5, 4.0])
        if not torch.allclose(dcf_1d(t * a), w * abs(a), rtol=1e-5, atol=1e-7) and len(set(xs)) >= 2:
            viol = viol or {'signature': 'dcf1d:scale', 'what': f'dcf_1d({a}*x) != |{a}| dcf_1d(x) for {xs}'}
        if not torch.allclose(dcf_1d(t + 3.0), w, rtol=1e-5, atol=1e-6):
            viol = viol or {'signature': 'dcf1d:translate', 'what': f'dcf_1d(x + 3) != dcf_1d(x) for {xs}'}
    return Outcome(key=('d1', tuple(xs)), nontrivial=len(set(xs)) > 1, corr=corr, viol=viol, branches=[f'd1:{case["flavour"]}', f'distinct:{min(len(set(xs)), 6)}'],
                   sample={**case, 'points': xs})


def traj2(case, rng):
    fl = case['flavour']
    if fl == 'radial':
        k1, k0 = rng.randint(4, 8), rng.randint(5, 9)
        ang = torch.arange(k1, dtype=torch.float32) * math.pi / k1
        rad = (torch.arange(k0, dtype=torch.float32) - k0 // 2) * (8.0 / k0)  # exactly 0 at the centre: coincident samples are exact duplicates
        return (rad[None, :] * torch.cos(ang)[:, None]), (rad[None, :] * torch.sin(ang)[:, None])
    if fl == 'spiral':
        n = rng.randint(30, 60)
        tt = torch.linspace(0.2, 6 * math.pi, n)
        return (tt * torch.cos(tt) / 4).reshape(1, n), (tt * torch.sin(tt) / 4).reshape(1, n)
    if fl == 'grid':
        ny, nx = rng.randint(4, 6), rng.randint(4, 6)
        y, x = torch.meshgrid(torch.arange(ny, dtype=torch.float32) - ny // 2, torch.arange(nx, dtype=torch.float32) - nx // 2, indexing='ij')
        # dense 2-D tensors (not broadcastable singletons) -> joint Voronoi path
        return x + 0.0, y + 0.0
    n = rng.randint(12, 30)
    x = torch.tensor([rng.randint(-40, 40) / 8 for _ in range(n)], dtype=torch.float32).reshape(1, n)
    y = torch.tensor([rng.randint(-40, 40) / 8 for _ in range(n)], dtype=torch.float32).reshape(1, n)
    if fl == 'duplicates':
        for _ in range(4):
            i, j = rng.randrange(n), rng.randrange(n)
            x[0, i], y[0, i] = x[0, j], y[0, j]
        # ... and an outermost sample (unbounded / edge cell) acquired two or three times
        far = int(torch.argmax(x[0] ** 2 + y[0] ** 2))
        for i in rng.sample([i for i in range(n) if i != far], rng.choice([1, 2])):
            x[0, i], y[0, i] = x[0, far], y[0, far]
    return x, y


def interior_mask(x, y, w):
    """samples whose Voronoi cell is bounded, lies well inside the sampled region and is not replaced as an outlier:
    for these the weight must be the cell area"""
    import numpy as np
    from scipy.spatial import Voronoi

    pts = np.stack([x.flatten().numpy(), y.flatten().numpy()], 1).astype(np.float64)
    uniq, inv = np.unique(pts, axis=0, return_inverse=True)
    mask_u = np.zeros(len(uniq), dtype=bool)
    if len(uniq) >= 4:
        try:
            vor = Voronoi(uniq)
            lo, hi = uniq.min(0), uniq.max(0)
            margin = 0.15 * (hi - lo)
            for i, reg in enumerate(vor.point_region):
                r = vor.regions[reg]
                if len(r) and -1 not in r:
                    vv = vor.vertices[r]
                    mask_u[i] = bool(((vv > lo + margin) & (vv < hi - margin)).all())
        except Exception:  # noqa: BLE001  (degenerate point sets: no interior claim)
            pass
    m = torch.as_tensor(mask_u[inv.reshape(-1)])
    wn = w.flatten().double().numpy()
    q1, q3 = np.percentile(wn, [25, 75])
    return m & torch.as_tensor(wn <= q3 + 1.5 * (q3 - q1))


def dcf_of(kz, ky, kx):
    from mrpro.data import DcfData, KTrajectory

    return DcfData.from_traj_voronoi(KTrajectory(kz, ky, kx, repeat_detection_tolerance=None)).data


def run_d2(case, drv) -> Outcome:
    warnings.filterwarnings('ignore')
    rng = random.Random(case['seed'])
    x, y = traj2(case, rng)
    kx, ky = x.reshape(1, 1, *x.shape), y.reshape(1, 1, *y.shape)
    kz = torch.zeros(1, 1, 1, 1)
    st, w = call(lambda: dcf_of(kz, ky, kx))
    cfg = f'2D {case["flavour"]} seed {case["seed"]} ({x.numel()} points)'
    if st != 'ok':
        return Outcome(key=('d2-raises', cfg), viol={'signature': 'dcf2d:raises', 'what': f'{cfg}: raises {w}'})
    w = w.reshape(x.shape)
    viol = None

    def v(sig, what):
        return {'signature': f'dcf2d:{sig}', 'what': f'{cfg}: {what}'}

    if not bool(torch.isfinite(w).all()) or not bool((w > 0).all()):
        viol = v('positive', 'weights are not positive and finite')
    else:
        n = x.shape[-1]
        perm = torch.randperm(n, generator=torch.Generator().manual_seed(case['seed']))
        wp = dcf_of(kz, ky[..., perm], kx[..., perm]).reshape(x.shape)
        if not torch.allclose(wp, w[..., perm], rtol=1e-3, atol=1e-6):
            viol = v('permutation', 'weights are not equivariant to a permutation of the samples along k0')
        a = rng.choice([0.5, 2.0, -3.0])
        wa = dcf_of(kz, ky * a, kx * a).reshape(x.shape)
        if not torch.allclose(wa, w * a * a, rtol=1e-3, atol=1e-6):
            viol = viol or v('scale', f'scaling k-space by {a} does not scale the weights by |a|^2')
        # duplicates share equally
        pts = torch.stack([x.flatten(), y.flatten()], 1)
        uniq, inv, cnt = torch.unique(pts, dim=0, return_inverse=True, return_counts=True)
        wf = w.flatten()
        for u in range(len(uniq)):
            ws = wf[inv == u]
            if cnt[u] > 1 and float((ws - ws[0]).abs().nan_to_num(nan=float('inf')).max()) > 1e-5 * float(ws[0]):
                viol = viol or v('duplicates', 'coincident samples do not share their cell equally')
        # a cell is *split* among its coincident samples: together they weigh what the single sample weighs in the trajectory
        # without repetitions (also for edge cells, whose weight is a replacement value)
        if len(uniq) < pts.shape[0] and len(uniq) >= 4 and viol is None:
            ux, uy = uniq[:, 0].reshape(1, 1, 1, -1), uniq[:, 1].reshape(1, 1, 1, -1)
            st_u, wu = call(lambda: dcf_of(kz, uy, ux))
            if st_u == 'ok':
                wu = wu.flatten()
                sums = torch.zeros(len(uniq), dtype=wf.dtype).index_add_(0, inv, wf)
                if not torch.allclose(sums, wu.to(sums.dtype), rtol=2e-3, atol=1e-6):
                    bad = int(torch.argmax((sums - wu).abs()))
                    viol = viol or v('duplicates-split', f'the {int(cnt[bad])} samples at {uniq[bad].tolist()} weigh {float(sums[bad]):.5g} together, the single sample '
                                                         f'weighs {float(wu[bad]):.5g} in the trajectory without repetitions')
        # interior cells (bounded, away from the edge) = cell volume: translation and rotation invariant
        interior = interior_mask(x, y, wf)
        if bool(interior.any()):
            wt = dcf_of(kz, ky + 0.75, kx - 1.25).reshape(x.shape).flatten()
            if not torch.allclose(wt[interior], wf[interior], rtol=2e-3, atol=1e-6):
                viol = viol or v('translation', 'interior weights change under translation of the trajectory')
            th = 0.7
            xr, yr = x * math.cos(th) - y * math.sin(th), x * math.sin(th) + y * math.cos(th)
            wr = dcf_of(kz, yr.reshape(ky.shape), xr.reshape(kx.shape)).reshape(x.shape).flatten()
            if not torch.allclose(wr[interior], wf[interior], rtol=2e-3, atol=1e-6):
                viol = viol or v('rotation', 'interior weights change under rotation of the trajectory')
        if case['flavour'] == 'grid':
            inner = w[1:-1, 1:-1]
            if inner.numel() and float((inner - 1).abs().nan_to_num(nan=float('inf')).max()) > 1e-4:
                viol = viol or v('uniform', f'interior weights of a unit grid are not 1: {inner.flatten().tolist()[:5]}')
    return Outcome(key=('d2', case['flavour'], x.numel(), case['seed'] % 997), viol=viol, branches=[f'd2:{case["flavour"]}'], sample={**case, 'n_points': x.numel()})


def run_d3(case, drv) -> Outcome:
    warnings.filterwarnings('ignore')
    rng = random.Random(case['seed'])
    if case['flavour'] == 'grid':
        g = torch.arange(3, dtype=torch.float32) - 1
        z, y, x = torch.meshgrid(g, g, g, indexing='ij')
        z, y, x = (t.reshape(1, 1, 1, -1) + 0.0 for t in (z, y, x))
    else:
        n = rng.randint(12, 20)
        z, y, x = (torch.tensor([rng.randint(-24, 24) / 8 for _ in range(n)], dtype=torch.float32).reshape(1, 1, 1, n) for _ in range(3))
    st, w = call(lambda: dcf_of(z, y, x))
    cfg = f'3D {case["flavour"]} seed {case["seed"]}'
    if st != 'ok':
        return Outcome(key=('d3-raises', cfg), viol={'signature': 'dcf3d:raises', 'what': f'{cfg}: raises {w}'})
    viol = None
    wf = w.flatten()
    if not bool(torch.isfinite(wf).all()) or not bool((wf > 0).all()):
        viol = {'signature': 'dcf3d:positive', 'what': f'{cfg}: weights not positive and finite'}
    else:
        a = 2.0
        wa = dcf_of(z * a, y * a, x * a).flatten()
        if not torch.allclose(wa, wf * a ** 3, rtol=1e-3):
            viol = {'signature': 'dcf3d:scale', 'what': f'{cfg}: scaling by {a} does not scale the weights by |a|^3'}
        if case['flavour'] == 'grid' and abs(float(wf[13]) - 1) > 1e-4:
            viol = viol or {'signature': 'dcf3d:uniform', 'what': f'{cfg}: centre cell of a unit 3x3x3 grid has weight {float(wf[13])}'}
    return Outcome(key=('d3', case['flavour'], case['seed'] % 97), viol=viol, branches=[f'd3:{case["flavour"]}'], sample=case)


def run_separable(case, drv) -> Outcome:
    """separable layout: ky varies along k1 only, kx along k0 only -> product of the per-axis spacings"""
    from mrpro.algorithms.dcf.dcf_voronoi import dcf_1d

    rng = random.Random(case['seed'])
    n1, n0 = rng.randint(2, 6), rng.randint(2, 6)
    ky = torch.tensor(sorted(rng.sample(range(-20, 20), n1)), dtype=torch.float32).reshape(1, 1, n1, 1) / 2
    kx = torch.tensor(sorted(rng.sample(range(-20, 20), n0)), dtype=torch.float32).reshape(1, 1, 1, n0) / 2
    w = dcf_of(torch.zeros(1, 1, 1, 1), ky, kx)
    want = dcf_1d(ky.flatten()).reshape(1, 1, n1, 1) * dcf_1d(kx.flatten()).reshape(1, 1, 1, n0)
    viol = None
    if tuple(w.shape[-3:]) != (1, n1, n0) or not torch.allclose(w.reshape(1, 1, n1, n0), want, rtol=1e-5):
        viol = {'signature': 'dcf:separable', 'what': f'separable layout ({n1} x {n0}): weights are not the product of the per-axis spacings'}
    return Outcome(key=('separable', n1, n0, case['seed'] % 97), viol=viol, branches=['separable'], sample=case)


def run_layout(case, drv) -> Outcome:
    """partially broadcast trajectories (each of kz, ky, kx varies along its own subset of k2, k1, k0): isotropic scaling by a scales
    the weights by |a|^d (d = number of directions with an extent), and a layout in which every direction is coupled to another one
    through some dimension is the Voronoi tessellation of all points - the same weights as for the dense form of the trajectory"""
    warnings.filterwarnings('ignore')
    rng = random.Random(case['seed'])
    n = [rng.randint(3, 5), rng.randint(3, 5), rng.randint(3, 6)]  # k2, k1, k0
    if case['pattern'] == 'chain':
        # e.g. radial phase encoding with an oblique readout: k2,k1 couple (kz, ky), k0 couples (ky, kx)
        order = rng.sample(range(3), 3)
        subsets = [None, None, None]
        subsets[order[0]] = [0, 1]
        subsets[order[1]] = [0, 1, 2]
        subsets[order[2]] = [2]
    else:
        subsets = [sorted(rng.sample(range(3), rng.randint(0, 3))) for _ in range(3)]
    comps = []
    for sub in subsets:
        shape = [1, *[n[d] if d in sub else 1 for d in range(3)]]
        t = torch.tensor([rng.uniform(-8, 8) for _ in range(math.prod(shape))], dtype=torch.float32).reshape(shape)
        comps.append(t if sub else torch.zeros(1, 1, 1, 1))
    d_enc = sum(1 for sub in subsets if sub)
    # a direction that is the only one varying along some dimension and also varies along another dimension: the library as shipped
    # multiplied a 1-D weight along the first dimension with whatever it computed along the second (counted twice; repaired in /repo)
    double = any(len(sub) >= 2 and any(all(d not in other for j, other in enumerate(subsets) if j != i) for d in sub) for i, sub in enumerate(subsets))
    tag = 'formerly-double-counted' if double else case['pattern']
    cfg = f'layout {case["pattern"]} sizes (k2,k1,k0) {n} kz along {subsets[0]} ky along {subsets[1]} kx along {subsets[2]}'
    st, w = call(lambda: dcf_of(*comps))
    if st != 'ok':
        return Outcome(key=('layout-raises', cfg), viol={'signature': 'dcf:layout:raises', 'what': f'{cfg}: from_traj_voronoi raises {w}'})
    viol = None
    if not bool(torch.isfinite(w).all()) or float(w.min()) <= 0:
        viol = {'signature': 'dcf:layout:positive', 'what': f'{cfg}: weights are not positive and finite'}
    a = rng.choice([2.0, 0.5, -2.0])
    st2, w2 = call(lambda: dcf_of(*[a * c for c in comps]))
    # correspondence with the Lean model of the decomposition (M.DcfLayout): the exponent of |a| the code has is `degree`
    corr = None
    mdl = drv.call({'op': 'dcf_layout', 'v': [[d in sub for d in range(3)] for sub in subsets]})
    if st2 == 'ok' and bool(torch.isfinite(w2).all()) and float(w.min()) > 0:
        expo = float(torch.log2(w2 / w).median()) / math.log2(abs(a))
        if abs(expo - mdl['degree']) > 0.02:
            corr = f'{cfg}: scaling by {a} scales the weights with exponent {expo:.3f}, the model of the decomposition gives {mdl["degree"]} (d = {mdl["d_enc"]})'
    if mdl['d_enc'] != d_enc or mdl['well_formed'] == double:
        corr = corr or f'{cfg}: harness classification (d {d_enc}, double-counted {double}) differs from the model ({mdl})'
    if viol is None and st2 == 'ok' and not torch.allclose(w2, abs(a) ** d_enc * w, rtol=1e-3):
        ratio = float((w2 / w).median())
        viol = {'signature': f'dcf:layout:scale:{tag}', 'what': f'{cfg}: scaling k-space by {a} scales the weights by {ratio:.4g}, expected |a|^{d_enc} = {abs(a) ** d_enc:.4g}'}
    # every direction coupled to another one through some dimension -> joint tessellation of all points = the dense form
    coupled = set()
    for dim in range(3):
        along = [i for i, sub in enumerate(subsets) if dim in sub]
        if len(along) > 1:
            coupled |= set(along)
    if viol is None and d_enc >= 2 and coupled == {i for i, sub in enumerate(subsets) if sub}:
        used = {d for sub in subsets for d in sub}  # (a dimension along which nothing varies would only repeat every point)
        full = [1, *[n[d] if d in used else 1 for d in range(3)]]
        dense = [c.expand(full).clone() if sub else c for c, sub in zip(comps, subsets, strict=True)]
        st3, w3 = call(lambda: dcf_of(*dense))
        if st3 == 'ok' and not torch.allclose(w.expand(w3.shape), w3, rtol=1e-3, atol=1e-6 * float(w3.max())):
            viol = {'signature': f'dcf:layout:dense:{tag}', 'what': f'{cfg}: the weights of the broadcast form differ from those of the dense form of the same trajectory '
                                                     f'(max rel dev {float(((w.expand(w3.shape) - w3).abs() / w3).max()):.3g})'}
    return Outcome(key=('layout', case['pattern'], tuple(map(tuple, subsets)), tuple(n)), viol=viol, corr=corr, branches=[f'layout:{case["pattern"]}', f'layout-d:{d_enc}'], sample={**case, 'subsets': subsets})


def run_glue(case, drv) -> Outcome:
    """dcf_2d3d_voronoi against the Lean model `M.dcfGlue` of everything around the Voronoi volumes: the cell volumes of the unique
    positions are computed here with scipy exactly as the library documents it (bounding corners at 10x the extent, shoelace formula /
    convex hull) and handed to the model as the oracle; unique positions, outlier replacement, sharing among coincident samples and the
    mapping back to the samples are the model's"""
    from fractions import Fraction
    from itertools import product

    import numpy as np
    from mrpro.algorithms.dcf.dcf_voronoi import dcf_2d3d_voronoi
    from scipy.spatial import ConvexHull, Voronoi

    from harness.core.conv import frac_str

    warnings.filterwarnings('ignore')
    rng = random.Random(case['seed'])
    dim = case['dim']
    n = rng.randint(10, 24) if dim == 2 else rng.randint(12, 20)
    pts = [[rng.randint(-24, 24) / 4 for _ in range(dim)] for _ in range(n)]
    for _ in range(rng.randint(1, 4)):  # repetitions, also of an outermost sample
        i, j = rng.randrange(n), rng.randrange(n)
        pts[i] = list(pts[j])
    far = max(range(n), key=lambda i: sum(v * v for v in pts[i]))
    for i in rng.sample([i for i in range(n) if i != far], rng.choice([0, 1, 2])):
        pts[i] = list(pts[far])
    traj = torch.tensor(pts, dtype=torch.float32).T.reshape(dim, 1, 1, n)
    st, w = call(lambda: dcf_2d3d_voronoi(traj))
    cfg = f'{dim}D glue seed {case["seed"]} ({n} samples)'
    if st != 'ok':
        return Outcome(key=('glue-raises', cfg), viol={'signature': 'dcfglue:raises', 'what': f'{cfg}: dcf_2d3d_voronoi raises {w}'})
    w = w.reshape(-1).double()
    # the volume oracle (qhull), on the unique positions in numpy's order
    arr = np.round(traj.numpy().reshape(dim, -1), decimals=15)
    uniq = np.unique(arr, axis=1)
    corner = np.array(list(product([-1, 1], repeat=dim))) * np.max(np.abs(uniq)) * 10
    vd = Voronoi(np.concatenate((uniq, corner.T), axis=1).T)
    verts = [vd.vertices[vd.regions[r]] for r in vd.point_region[: -len(corner)]]
    if dim == 2:
        vols = [float(np.abs(np.cross(v[:-1], v[1:]).sum(0) + np.cross(v[-1], v[0])) / 2) for v in verts]
    else:
        vols = [float(ConvexHull(v).volume) for v in verts]
    m = drv.call({'op': 'dcf_glue', 'pts': [[frac_str(float(c)) for c in p] for p in arr.T.tolist()], 'vol': [frac_str(v) for v in vols]})
    corr = None
    viol = None
    if [[float(Fraction(c)) for c in u] for u in m['unique']] != uniq.T.tolist():
        corr = f'{cfg}: unique positions / their order differ between numpy and the model'
    elif m['status'] != 'ok':
        corr = f'{cfg}: the model rejects the input'
    else:
        mw = torch.tensor([float(Fraction(x)) for x in m['w']], dtype=torch.float64)
        if not torch.allclose(w, mw, rtol=2e-5, atol=1e-7):
            bad = int(torch.argmax((w - mw).abs() / (mw.abs() + 1e-12)))
            corr = f'{cfg}: sample {bad} at {pts[bad]}: dcf {float(w[bad]):.6g}, model (volumes from qhull, glue from Lean) {float(mw[bad]):.6g}'
            viol = {'signature': 'dcfglue:value', 'what': corr}
    return Outcome(key=('glue', dim, n, case['seed'] % 997), corr=corr, viol=viol, branches=[f'glue:{dim}D', f'glue:outliers:{sum(1 for v in vols if v > 0) and "any"}'],
                   sample={**case, 'n': n})


def run(case, drv) -> Outcome:
    if case['kind'] == 'glue':
        return run_glue(case, drv)
    return {'d1': run_d1, 'd2': run_d2, 'd3': run_d3, 'separable': run_separable, 'layout': run_layout}[case['kind']](case, drv)
