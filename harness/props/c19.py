"""C19 — operator-norm estimates are scale-free and respect the stated bounds."""
import math
import random

import torch

from harness.core.conv import bits2f, f2bits, tensor_bits
from harness.core.runner import Outcome
from harness.core.util import call, int_tensor

RULE = ('dense operators (EinsumOp, m x n integer real/complex matrices of full column rank, m,n <= 5 quick / 8 thorough) x start vectors '
        'scaled by 1e-6 ... 1e6 x budgets 1..64 x tolerances (default / 0) x dtypes (float32/64, complex64/128) x batched dims; '
        'callback sequence compared with the Lean model run in double precision; on the real code: estimate <= sigma_max (SVD), '
        'non-decreasing, scale-free, convergence for generic starts; block layouts of LinearOperatorMatrix vs dense block norm. '
        'distinct = distinct (matrix seed, scale, budget, tolerances, dtype)')
ASSUMPTIONS = ['float32 default path: comparisons at 1e-4 relative; float64 at 1e-9', 'isclose stopping compared only through the values the '
               'property speaks about (iteration counts only when the decision is not within 10x of the threshold)']


def generate(rng: random.Random, tier: str):
    thorough = tier == 'thorough'
    cases = []
    for _ in range(600 if thorough else 110):
        n = rng.randint(1, 8 if thorough else 5)
        m = rng.randint(n, n + 2)
        dt = rng.choice(['32', '64', '64'])
        # start vectors from far below machine epsilon to large (squares stay representable in the dtype)
        scales = [-15, -9, -6, -3, -1, 0, 0, 1, 3, 6, 12] if dt == '32' else [-100, -30, -18, -9, -6, -3, -1, 0, 0, 1, 3, 6, 30]
        cplx = rng.random() < 0.5
        cases.append({'kind': 'norm', 'm': m, 'n': n, 'complex': cplx, 'dtype': dt, 'real_start': cplx and rng.random() < 0.4,
                      'scale_exp': rng.choice(scales), 'budget': rng.choice([1, 1, 2, 3, 5, 8, 20, 64]),
                      'tol': rng.choice(['default', 'zero', 'zero']), 'seed': rng.randrange(1 << 30)})
    for _ in range(150 if thorough else 40):
        cases.append({'kind': 'block', 'rows': rng.randint(1, 3), 'cols': rng.randint(1, 3), 'n': rng.randint(1, 3), 'aligned': rng.random() < 0.5,
                      'history': rng.random() < 0.5, 'seed': rng.randrange(1 << 30)})
    for _ in range(40 if thorough else 10):
        cases.append({'kind': 'batched', 'seed': rng.randrange(1 << 30), 'budget': rng.choice([1, 3, 30])})
    return cases


def full_rank_matrix(rng, m, n, cplx):
    while True:
        A = int_tensor(rng, (m, n), complex_=cplx, lo=-3, hi=3).to(torch.complex128)
        if torch.linalg.matrix_rank(A) == n:
            return A


def run_norm(case, drv):
    import mrpro

    rng = random.Random(case['seed'])
    m, n, cplx = case['m'], case['n'], case['complex']
    A = full_rank_matrix(rng, m, n, cplx)
    real_start = bool(case.get('real_start'))  # a real-valued start vector for a complex operator
    v0 = int_tensor(rng, (n,), complex_=cplx and not real_start, lo=-3, hi=3).to(torch.complex128)
    if float(v0.abs().max()) == 0:
        v0[0] = 1
    scale = 10.0 ** case['scale_exp']
    dtype = {('32', False): torch.float32, ('64', False): torch.float64, ('32', True): torch.complex64, ('64', True): torch.complex128}[(case['dtype'], cplx)]
    if real_start:
        # EinsumOp refuses a real vector for a complex matrix (torch.einsum dtype check); a user-defined dense operator that promotes
        # its input, like FastFourierOp or a complex mask do, is the operator the power iteration sees here
        class Dense(mrpro.operators.LinearOperator):
            def __init__(self, mat):
                super().__init__()
                self.mat = mat

            def forward(self, x):
                return (self.mat @ x.to(self.mat.dtype),)

            def adjoint(self, y):
                return (self.mat.mH @ y.to(self.mat.dtype),)

        op = Dense(A.to(dtype))
    else:
        op = mrpro.operators.EinsumOp((A if cplx else A.real).to(dtype))
    tol = {} if case['tol'] == 'default' else {'relative_tolerance': 0.0, 'absolute_tolerance': 0.0}
    smax = float(torch.linalg.svdvals(A)[0])
    prec = 1e-4 if case['dtype'] == '32' else 1e-9
    cfg = f'{m}x{n} {"complex" if cplx else "real"}{" (real start vector)" if case.get("real_start") else ""} float{case["dtype"]} scale 1e{case["scale_exp"]} budget {case["budget"]} tol {case["tol"]}'
    viol = None
    corr = None

    def run_impl(start):
        cbs = []
        sdt = dtype.to_real() if real_start else dtype
        st, val = call(lambda: op.operator_norm((start.real if real_start else start).to(sdt), dim=None, max_iterations=case['budget'],
                                                callback=lambda t: cbs.append(float(t)), **tol))
        return st, val, cbs

    x0 = ((v0 if cplx else v0.real) * scale)
    st, val, cbs = run_impl(x0)
    if st != 'ok':
        return Outcome(key=('norm', cfg), viol={'signature': f'norm:raises:float{case["dtype"]}', 'what': f'operator_norm raises {val} for {cfg}'},
                       corr=f'operator_norm raises {val} ({cfg}); the model returns an estimate', branches=[f'raises:{case["dtype"]}'])
    est = float(val)
    seq = cbs + [est]
    # ---- property-level oracle on the real code
    if not math.isfinite(est) or est > smax * (1 + 10 * prec):
        viol = viol or {'signature': 'norm:exceeds', 'what': f'estimate {est:.8g} exceeds the largest singular value {smax:.8g} ({cfg}, seed {case["seed"]})'}
    for a, b in zip(seq, seq[1:]):
        if b < a * (1 - 10 * prec):
            viol = viol or {'signature': 'norm:not-monotone', 'what': f'estimates decrease {a:.8g} -> {b:.8g} ({cfg})'}
    st2, val2, cbs2 = run_impl(x0 * 8.0)
    if st2 == 'ok' and abs(float(val2) - est) > 10 * prec * max(est, 1e-30) and len(cbs2) == len(cbs):
        viol = viol or {'signature': 'norm:scale-dependent', 'what': f'estimate depends on the length of the start vector: {est:.8g} vs {float(val2):.8g} for 8*v ({cfg})'}
    if case['budget'] >= 64 and case['tol'] == 'zero' and n <= 4:
        gap = torch.linalg.svdvals(A)
        # the convergence clause is for *generic* start vectors: a small integer vector can be exactly orthogonal to the dominant right
        # singular vector (e.g. (3,-3) for [[3,2],[2,3]]); require a component along it
        vdom = torch.linalg.svd(A).Vh[0].conj()
        generic = float(torch.vdot(vdom, v0.to(vdom.dtype)).abs() / torch.linalg.vector_norm(v0)) > 0.05
        if generic and (n == 1 or float(gap[1] / gap[0]) < 0.8):
            if abs(est - smax) > 1e-3 * smax:
                viol = viol or {'signature': 'norm:no-convergence', 'what': f'after 64 iterations estimate {est:.8g} != sigma_max {smax:.8g} ({cfg})'}
    # ---- correspondence with the Lean model (double precision run of the same recurrence)
    atol, rtol = (1e-5, 1e-4) if case['tol'] == 'default' else (0.0, 0.0)
    mres = drv.call({'op': 'power', 'm': m, 'n': n, 'A': tensor_bits(A), 'v0': tensor_bits(v0 * scale), 'max_iter': case['budget'], 'atol': [f2bits(atol)],
                     'rtol': [f2bits(rtol)]})
    mest = bits2f(mres['norm'][0])
    mcb = [bits2f(b) for b in mres['callbacks']]
    # values in lockstep; the stop decision may differ only if it is marginal
    for k, (a, b) in enumerate(zip(cbs, mcb)):
        if abs(a - b) > 20 * prec * max(b, 1e-30):
            corr = corr or f'callback {k}: impl {a:.9g} model {b:.9g} ({cfg})'
    if len(cbs) == len(mcb) and abs(est - mest) > 20 * prec * max(mest, 1e-30):
        corr = corr or f'result: impl {est:.9g} model {mest:.9g} ({cfg})'
    if len(cbs) != len(mcb) and case['tol'] == 'zero':
        corr = corr or f'iterations: impl {len(cbs)} model {len(mcb)} with tolerances 0 ({cfg})'
    return Outcome(key=('norm', m, n, cplx, case['dtype'], case['scale_exp'], case['budget'], case['tol'], case['seed'] % 29), corr=corr, viol=viol,
                   branches=[f'dtype:{case["dtype"]}', f'scale:1e{case["scale_exp"]}', f'real_start:{bool(case.get("real_start"))}', f'budget:{case["budget"]}', f'tol:{case["tol"]}', f'iters:{min(len(cbs), 10)}'],
                   sample={**case, 'estimate': est, 'sigma_max': smax, 'callbacks': len(cbs)})


def run_block(case, drv):
    import mrpro
    from mrpro.operators import LinearOperatorMatrix

    rng = random.Random(case['seed'])
    r, c, n = case['rows'], case['cols'], case['n']
    mats = [[int_tensor(rng, (n, n), complex_=False, lo=-2, hi=2) + (3 if i == j else 0) * torch.eye(n, dtype=torch.float64) for j in range(c)] for i in range(r)]
    if case['aligned']:
        base = mats[0][0]
        mats = [[base.clone() for _ in range(c)] for _ in range(r)]
    M = LinearOperatorMatrix([[mrpro.operators.EinsumOp(m.to(torch.float32)) for m in row] for row in mats])
    D = torch.cat([torch.cat(row, dim=1) for row in mats], dim=0)
    true = float(torch.linalg.svdvals(D)[0])
    # generic start vectors (the property's convergence clause is for generic starts: small integer vectors can be exactly
    # orthogonal to the dominant singular vector of a small integer matrix, e.g. (1,1) for [[a,b],[b,a]]) and enough iterations
    vs = [torch.tensor([rng.uniform(0.5, 1.5) * rng.choice([-1, 1]) for _ in range(n)], dtype=torch.float32) for _ in range(c)]
    st, val = call(lambda: M.operator_norm(*vs, max_iterations=1000, relative_tolerance=0.0, absolute_tolerance=0.0))
    viol = None
    if st != 'ok':
        viol = {'signature': 'block:raises', 'what': f'LinearOperatorMatrix.operator_norm raises {val}'}
    elif float(val) < true * (1 - 1e-3):
        viol = {'signature': f'block:not-upper-bound:cols{"1" if c == 1 else ">1"}',
                'what': f'documented upper bound {float(val):.6g} is below the true norm {true:.6g} of the {r}x{c} block operator (n={n}, aligned={case["aligned"]}, seed {case["seed"]})'}
    if viol is None and case.get('history'):
        # the estimate depends on the operators as they are *now*: after an in-place update of a parameter of one block
        # (optimiser step, load_state_dict) a second call on the same matrix object must equal a call on a freshly built matrix
        i, j = rng.randrange(r), rng.randrange(c)
        factor = rng.choice([4.0, 8.0, 0.125])
        target = M._operators[i][j]
        with torch.no_grad():
            target.matrix.mul_(factor)
        mats[i][j] = mats[i][j] * factor
        st2, again = call(lambda: M.operator_norm(*vs, max_iterations=1000, relative_tolerance=0.0, absolute_tolerance=0.0))
        fresh_m = LinearOperatorMatrix([[mrpro.operators.EinsumOp(m.to(torch.float32)) for m in row] for row in mats])
        st3, fresh = call(lambda: fresh_m.operator_norm(*vs, max_iterations=1000, relative_tolerance=0.0, absolute_tolerance=0.0))
        if st2 != 'ok' or st3 != 'ok':
            viol = {'signature': 'block:raises', 'what': f'LinearOperatorMatrix.operator_norm raises after a parameter update: {again if st2 != "ok" else fresh}'}
        elif abs(float(again) - float(fresh)) > 1e-4 * (1 + abs(float(fresh))):
            viol = {'signature': 'block:stale-after-parameter-update',
                    'what': f'operator_norm of the same {r}x{c} matrix object after scaling block ({i},{j}) in place by {factor} returns {float(again):.6g}, '
                            f'a freshly built matrix of the same operators gives {float(fresh):.6g} (first call gave {float(val):.6g}; seed {case["seed"]})'}
    return Outcome(key=('block', r, c, n, case['aligned'], case['seed'] % 23), viol=viol, branches=[f'block:{r}x{c}', f'aligned:{case["aligned"]}'],
                   sample={**case, 'bound': float(val) if st == 'ok' else None, 'true_norm': true})


def run_batched(case, drv):
    import mrpro

    rng = random.Random(case['seed'])
    b, n = rng.randint(2, 3), rng.randint(1, 3)
    A = torch.stack([full_rank_matrix(rng, n + 1, n, False).real for _ in range(b)]).to(torch.float32)
    op = mrpro.operators.EinsumOp(A)
    v = int_tensor(rng, (b, n), complex_=False, lo=1, hi=3).to(torch.float32)
    st, val = call(lambda: op.operator_norm(v, dim=(-1,), max_iterations=case['budget'], relative_tolerance=0.0, absolute_tolerance=0.0))
    viol = None
    if st != 'ok':
        viol = {'signature': 'batched:raises', 'what': f'batched operator_norm raises {val}'}
    else:
        each = torch.stack([mrpro.operators.EinsumOp(A[i]).operator_norm(v[i], dim=None, max_iterations=case['budget'], relative_tolerance=0.0,
                                                                       absolute_tolerance=0.0) for i in range(b)])
        sv = torch.stack([torch.linalg.svdvals(A[i].double())[0] for i in range(b)])
        if val.shape != (b, 1) or float((val.reshape(-1) - each.reshape(-1)).abs().nan_to_num(nan=float('inf')).max()) > 1e-4 * float(each.abs().max()):
            viol = {'signature': 'batched:per-batch', 'what': f'batched estimate {val.flatten().tolist()} != per-batch estimates {each.flatten().tolist()}'}
        elif bool((val.reshape(-1).double() > sv * (1 + 1e-4)).any()):
            viol = {'signature': 'batched:exceeds', 'what': f'batched estimate exceeds per-batch sigma_max'}
    return Outcome(key=('batched', b, n, case['budget'], case['seed'] % 13), viol=viol, branches=['batched'])


def run(case, drv) -> Outcome:
    return {'norm': run_norm, 'block': run_block, 'batched': run_batched}[case['kind']](case, drv)


def neighbours(case, rng):
    if case['kind'] != 'norm':
        return []
    return [{**case, 'scale_exp': s, 'budget': b, 'seed': rng.randrange(1 << 30)} for s in (-3, 0, 3) for b in (1, 2, 20)]
