"""Shared machinery for the operator properties C01 (adjoint), C02 (linearity), C09 (documented action):
dense matrices of the real operator (both code paths) vs the Lean model's, plus property-level oracles."""
import random

import torch

from harness.core import zoo
from harness.core.conv import parse_scal, strs_equal, tensor_strs, first_diff
from harness.core.runner import Outcome
from harness.core.util import call, int_tensor


def cols_to_tensor(cols, nrows):
    """model matrix (list of columns of exact strings) -> complex128 tensor [nrows, ncols]"""
    m = torch.zeros(nrows, len(cols), dtype=torch.complex128)
    for k, col in enumerate(cols):
        for i, s in enumerate(col):
            a, b = parse_scal(s)
            m[i, k] = complex(float(a), float(b))
    return m


def exact_equal(a: torch.Tensor, b: torch.Tensor) -> bool:
    return a.shape == b.shape and bool(torch.equal(a, b))


def first_mismatch(a: torch.Tensor, b: torch.Tensor):
    if a.shape != b.shape:
        return ('shape', tuple(a.shape), tuple(b.shape))
    d = (a != b).nonzero()
    if len(d) == 0:
        return None
    i, j = d[0].tolist()
    return (i, j, complex(a[i, j]), complex(b[i, j]))


def matrices(cfg, drv):
    """(built, F_impl, A_impl, F_model, A_model, notes) ; model entries are None on model error"""
    built = zoo.build(cfg)
    op = built.op
    F = zoo.impl_matrix(op.forward, built.dom)
    A = zoo.impl_matrix(op.adjoint, built.rng)
    stf, colsf, shf = zoo.model_matrix(drv, built, False)
    sta, colsa, sha = zoo.model_matrix(drv, built, True)
    Fm = cols_to_tensor(colsf, zoo.numel(built.can_rng)) if stf == 'ok' else None
    Am = cols_to_tensor(colsa, zoo.numel(built.can_dom)) if sta == 'ok' else None
    return built, F, A, Fm, Am, (stf, colsf, shf, sta, colsa, sha)


def correspondence(cfg, built, F, A, Fm, Am, notes):
    stf, colsf, shf, sta, colsa, sha = notes
    if stf != 'ok' or sta != 'ok':
        return f'{cfg["kind"]}: the implementation builds and applies the operator but the model raises {colsf if stf != "ok" else colsa}'
    if F.shape != Fm.shape:
        return f'{cfg["kind"]}: forward matrix shapes differ: impl {tuple(F.shape)} model {tuple(Fm.shape)}'
    if not exact_equal(F, Fm):
        return f'{cfg["kind"]} forward: impl and model matrices differ, first at {first_mismatch(F, Fm)} (row, col, impl, model)'
    if not exact_equal(A, Am):
        return f'{cfg["kind"]} adjoint: impl and model matrices differ, first at {first_mismatch(A, Am)} (row, col, impl, model)'
    return None


def adjoint_oracle(cfg, built, F, A, tol=0.0):
    """C01 on the real code: A must be the conjugate transpose of F; returns viol dict or None"""
    FH = F.conj().T
    if tol == 0.0:
        bad = FH != A
    else:
        bad = (FH - A).abs() > tol * max(1.0, float(F.abs().max()))
    if not bool(bad.any()):
        return None
    i, j = bad.nonzero()[0].tolist()
    # <A e_j, e_i> = conj(F[i? ...]) ; give explicit u (domain basis i), v (range basis j)
    return {'signature': f'adjoint:{cfg["kind"]}:{cfg.get("flavour", "")}',
            'what': (f'{cfg["kind"]} {({k: v for k, v in cfg.items() if k not in ("kz", "ky", "kx")})}: <A u, v> != <u, A^H v> for u = e_{i} '
                     f'(domain), v = e_{j} (range): <Au,v> = {complex(F[j, i].conj())}, <u,A^H v> = {complex(A[i, j].conj()) if False else complex(A[i, j])}'),
            'u_index': i, 'v_index': j}


def linearity_oracle(cfg, built, rng, drv=None, Fm=None):
    """C02 on the real code: superposition with generic inputs and complex scalars; exact for integer data"""
    op = built.op
    viol = None
    for which, fn, shape in (('forward', op.forward, built.dom), ('adjoint', op.adjoint, built.rng)):
        x = int_tensor(rng, shape, lo=-9, hi=9)
        y = int_tensor(rng, shape, lo=-9, hi=9)
        for a, b in ((complex(rng.randint(-3, 3), rng.randint(-3, 3)), complex(rng.randint(-3, 3), rng.randint(1, 3))), (2.0, -1.0),
                     (1j, 1.0)):
            lhs = fn(a * x + b * y)[0]
            rhs = a * fn(x)[0] + b * fn(y)[0]
            if not torch.equal(lhs.to(torch.complex128), rhs.to(torch.complex128)):
                viol = {'signature': f'linearity:{cfg["kind"]}:{which}',
                        'what': f'{cfg["kind"]} {which}: A(ax+by) != aA(x)+bA(y) for a={a}, b={b}, integer x,y seed {cfg["seed"]}'}
        z = fn(torch.zeros(shape, dtype=torch.complex128))[0]
        if bool((z != 0).any()):
            viol = {'signature': f'linearity:{cfg["kind"]}:{which}:zero', 'what': f'{cfg["kind"]} {which}: A(0) != 0'}
        v = scale_sweep(fn, x.to(torch.complex128), y.to(torch.complex128), 0.0)
        if v and not viol:
            viol = {'signature': f'linearity:{cfg["kind"]}:{which}:scale', 'what': f'{cfg["kind"]} {which}: {v} (integer x,y seed {cfg["seed"]})'}
    return viol


def scale_sweep(fn, x, y, tol, tiny_imag=True):
    """homogeneity over many orders of magnitude (powers of two, so exact for + - x kernels) and superposition of
    a large real with a tiny imaginary input: A(x + i s y) = A(x) + i s A(y)"""
    (ax,), (ay,) = fn(x), fn(y)
    ref = max(1e-300, float(ax.abs().max()), float(ay.abs().max()))
    for e in (-70, -40, -30, 30):
        s = 2.0 ** e
        (l,) = fn(s * x)
        if float((l - s * ax).abs().nan_to_num(nan=float('inf')).max()) > (100 * tol) * s * ref:
            return f'A(s x) != s A(x) for s = 2^{e}'
        xr, yr = x.real.to(x.dtype), y.real.to(x.dtype)
        (l,) = fn(xr + 1j * s * yr)
        (axr,), (ayr,) = fn(xr), fn(yr)
        # operators with a real matrix return an exactly real A(x) for real x: the comparison is then sharp; operators that
        # mix real and imaginary parts (DFT, PCA, ...) get the rounding error of the large part as allowance
        eps = 1.2e-7 if x.dtype == torch.complex64 else 2.3e-16
        mixing = float(axr.imag.abs().max()) + s * float(ayr.real.abs().max()) * (float(ayr.imag.abs().max()) > 0)
        if tiny_imag and -60 < e < 0 and float((l - axr - 1j * s * ayr).imag.abs().nan_to_num(nan=float('inf')).max()) > (100 * tol) * s * ref + 1e3 * eps * mixing:
            return f'A(x + i s y) != A(x) + i s A(y) for real x, y and s = 2^{e} (the small imaginary part is lost)'
    return None


def generic_apply_corr(cfg, built, rng, drv):
    """impl(x) vs model(x) on generic (non-basis) inputs incl. mixed magnitudes (dyadic, so still exact)"""
    for adj, fn, shape in ((False, built.op.forward, built.dom), (True, built.op.adjoint, built.rng)):
        x = int_tensor(rng, shape, lo=-50, hi=50)
        scale = torch.tensor([2.0 ** rng.randint(-20, 20) for _ in range(zoo.numel(shape))], dtype=torch.float64).reshape(shape)
        x = x * scale if cfg['kind'] in ('zeropad', 'rearrange', 'cartsamp') else x
        (y,) = fn(x)
        st, ym, shp = zoo.model_apply(drv, built, adj, x)
        if st != 'ok':
            return f'{cfg["kind"]} generic input: model raises {ym}'
        if not strs_equal(tensor_strs(y), ym):
            return f'{cfg["kind"]} {"adjoint" if adj else "forward"} on a generic input: impl != model, first diff {first_diff(tensor_strs(y), ym)}'
    return None
