"""C20 — resampling operators interpolate and integrate as specified."""
import math
import random
from fractions import Fraction

import torch

from harness.core.conv import frac_str, parse_scal
from harness.core.runner import Outcome
from harness.core.util import call

RULE = ('SliceProjectionOp: volumes 4..9 (quick) / ..12 (thorough) voxels per axis x profiles (rectangular fwhm 1..8, smoothed rectangular, '
        'Gaussian) x rotations (identity, axis-aligned, generic) x shifts; the support width used by the operator is observed through an '
        'instrumented profile callable and compared with the Lean model of the search on the same test grid; on the real code: tail mass '
        'outside the ray <= 2 %, weights >= 0, constant volume -> constant slice, dense rows follow the profile, axis-aligned = weighted '
        'slicing. GridSamplingOp: 2D/3D x bilinear/nearest x align_corners x batch/channel layouts x real/complex: values compared with the '
        'exact rational Lean interpolation model; identity grid returns the input. Tilted / identity slices: the whole weight matrix against profile x in-plane interpolation; quarter and half turns built from Euler angles (single precision) against the slice of the mirrored volume and a constant volume on the outermost voxels; slices partly outside the volume: row sum = fraction of the weights in view (Lean model, zero padding). distinct = distinct configuration key')
ASSUMPTIONS = ['grid_sample kernels of torch are a parameter (model covers bilinear/nearest with zeros padding)', 'sparse projection matrix is float32: 1e-4 tolerances']


class Probe(torch.nn.Module):
    """wraps a slice profile and records every call (the first call is the support search on its test grid)"""

    def __init__(self, inner):
        super().__init__()
        self.inner = inner
        self.calls = []

    def forward(self, x):
        y = self.inner(x)
        self.calls.append((x.detach().clone(), torch.as_tensor(y).detach().clone()))
        return y


def generate(rng: random.Random, tier: str):
    thorough = tier == 'thorough'
    cases = []
    for _ in range(150 if thorough else 36):
        n = rng.randint(4, 12 if thorough else 9)
        cases.append({'kind': 'slice', 'shape': [n, rng.randint(4, n), rng.randint(4, n)] if rng.random() < 0.4 else [n, n, n],
                      'profile': rng.choice(['rect', 'rect', 'smoothed', 'gauss', 'asym_neg', 'asym_pos']), 'fwhm': rng.choice([1.0, 2.0, 3.0, 4.0, 6.0, 8.0]),
                      'rotation': rng.choice(['identity', 'identity', 'axis', 'generic', 'tilt', 'tilt']), 'shift': rng.choice([0.0, 0.0, 1.0, -2.0, 0.5]),
                      'seed': rng.randrange(1 << 30)})
    # quarter and half turns about every axis as a user builds them (Euler angles, single precision), thin continuous profiles,
    # slice centre on a voxel plane
    for ax in 'xyz':
        for ang in (90.0, 180.0, 270.0):
            n = rng.choice([9, 11])
            cases.append({'kind': 'slice', 'shape': [n, n, n] if ang != 180.0 else [n, rng.choice([7, 8, 9]), rng.choice([6, 9])], 'profile': rng.choice(['smoothed', 'gauss', 'rect']),
                          'fwhm': 1.0, 'rotation': 'axis', 'axis_spec': [ax, ang], 'shift': rng.choice([0.0, 1.0]), 'seed': rng.randrange(1 << 30)})
    # batch dimensions that broadcast across each other: profiles (2, 1) x shifts (3,), grids (2, 1) x images (1, 3)
    for _ in range(20 if thorough else 4):
        cases.append({'kind': 'slicebatch', 'n': rng.randint(5, 8), 'pshape': rng.choice([[2, 1], [2, 1], [3, 1], [1, 2]]), 'nshift': rng.choice([2, 3]), 'seed': rng.randrange(1 << 30)})
        cases.append({'kind': 'gridcross', 'dim': rng.choice([2, 2, 3]), 'gb': rng.choice([[2, 1], [3, 1]]), 'xb': rng.choice([[1, 3], [1, 2], [2, 3]]), 'complex': rng.random() < 0.5,
                      'mode': rng.choice(['bilinear', 'nearest']), 'seed': rng.randrange(1 << 30)})
    # slices whose support partly leaves the volume along the normal (large shift): the row sum is the fraction of the weights in view
    for _ in range(40 if thorough else 8):
        n = rng.randint(5, 9)
        cases.append({'kind': 'edge', 'shape': [n, rng.randint(4, 7), rng.randint(4, 7)], 'profile': rng.choice(['smoothed', 'gauss', 'rect']),
                      'fwhm': rng.choice([2.0, 3.0, 4.0]), 'shift': rng.choice([-1, 1]) * rng.choice([n // 2, n // 2 - 1, n // 2 + 1, n // 2 - 0.5]), 'seed': rng.randrange(1 << 30)})
    for _ in range(300 if thorough else 60):
        dim = rng.choice([2, 3])
        cases.append({'kind': 'grid', 'dim': dim, 'mode': rng.choice(['bilinear', 'bilinear', 'nearest']), 'align': rng.random() < 0.5,
                      'padding': rng.choice(['zeros', 'zeros', 'border', 'reflection']), 'complex': rng.random() < 0.5,
                      'layout': rng.choice(['plain', 'channels', 'batch_bcast']), 'grid_kind': rng.choice(['identity', 'inside', 'outside']),
                      'seed': rng.randrange(1 << 30)})
    return cases


class Shifted(torch.nn.Module):
    """an asymmetric slice profile (e.g. a measured one): the inner profile centred at `centre` instead of 0"""

    def __init__(self, inner, centre):
        super().__init__()
        self.inner, self.centre = inner, centre

    def forward(self, x):
        return self.inner(x - self.centre)


def make_profile(kind, fwhm):
    from mrpro.utils.slice_profiles import SliceGaussian, SliceSmoothedRectangular

    if kind in ('asym_neg', 'asym_pos'):
        # support reaches further to negative (positive) positions than to the other side
        # (the library requires a positive profile on (-0.5, 0.5): the slice centre stays 0.8 voxels inside the plateau)
        return Shifted(SliceSmoothedRectangular(fwhm, 0.3), (-1 if kind == 'asym_neg' else 1) * max(0.0, fwhm / 2 - 0.8))

    if kind == 'rect':
        return SliceSmoothedRectangular(fwhm, 0.0)
    if kind == 'smoothed':
        return SliceSmoothedRectangular(fwhm, max(0.5, fwhm / 4))
    return SliceGaussian(fwhm)


def run_slice(case, drv) -> Outcome:
    import mrpro
    from mrpro.data import Rotation, SpatialDimension

    rng = random.Random(case['seed'])
    shape = case['shape']
    prof = Probe(make_profile(case['profile'], case['fwhm']))
    if case['rotation'] == 'identity':
        rot = None
    elif case['rotation'] == 'axis':
        ax_, ang_ = case.get('axis_spec') or ('xyz'[rng.randrange(3)], rng.choice([90.0, 180.0, 270.0]))
        rot = Rotation.from_euler(ax_, ang_, degrees=True)
    elif case['rotation'] == 'tilt':  # the slice normal is tilted about one in-plane axis
        rot = Rotation.from_euler('xy'[rng.randrange(2)], rng.choice([30.0, 45.0, -20.0, 12.5, -60.0, rng.uniform(-60, 60)]), degrees=True)
    else:
        rot = Rotation.from_euler('xyz', [rng.uniform(0, 90), rng.uniform(0, 90), rng.uniform(0, 90)], degrees=True)
    cfg = f'volume {shape} profile {case["profile"]} fwhm {case["fwhm"]} rotation {case["rotation"]}{case.get("axis_spec", "")} shift {case["shift"]}'
    st, op = call(lambda: mrpro.operators.SliceProjectionOp(SpatialDimension(*shape), slice_rotation=rot, slice_shift=case['shift'], slice_profile=prof))
    if st != 'ok':
        return Outcome(key=('slice-ctor', cfg), corr=f'SliceProjectionOp raises {op} for {cfg}')
    viol = None
    corr = None
    # ---- the support search: first probe call = test grid; the ray length is visible in the weight evaluation call
    grid_t, prof_t = prof.calls[0]
    ray_calls = [c for c in prof.calls if c[0].ndim == 4]
    w_impl = (ray_calls[0][0].shape[-1] - 1) // 2 if ray_calls else None
    m = drv.call({'op': 'find_width', 'grid': [frac_str(float(v)) for v in grid_t.flatten()], 'prof': [frac_str(float(v)) for v in prof_t.flatten().double()]})
    if w_impl is not None and m['w'] != w_impl:
        corr = f'{cfg}: support half-width used by the operator is {w_impl}, the model of the search on the same test grid gives {m["w"]}'
    # property: the ray -w..w must carry (almost) the whole profile: mass outside on a fine grid <= 2 %
    mx = max(shape)
    fine = torch.linspace(-mx, mx, 8 * mx + 1)
    pv = prof.inner(fine).double()
    outside = float(pv[(fine.abs() > (w_impl or 0) + 0.5)].sum() / pv.sum())
    if w_impl is not None and outside > 0.02 + 1e-6:
        viol = {'signature': 'slice:support-truncated',
                'what': f'{cfg}: the operator integrates over offsets -{w_impl}..{w_impl} only, {100 * outside:.1f}% of the slice profile lies outside (max volume size {mx})'}
    # ---- weights: non-negative, constant volume -> constant slice (where the whole ray is inside)
    vals = torch.cat([op.matrix.values() if op.matrix is not None else op.matrix_adjoint.values()])
    if not bool(torch.isfinite(vals).all()):
        viol = viol or {'signature': f'slice:nonfinite-weight:{case["rotation"]}', 'what': f'{cfg}: {int((~torch.isfinite(vals)).sum())} interpolation weights are NaN / inf'}
    if float(vals.min()) < -1e-7:
        viol = viol or {'signature': 'slice:negative-weight', 'what': f'{cfg}: negative interpolation weight {float(vals.min())}'}
    ones = torch.ones(shape, dtype=torch.float32)
    (s,) = op(ones)
    if not bool(torch.isfinite(s).all()) or float(s.max()) > 1 + 1e-4 or float(s.min()) < -1e-6:
        viol = viol or {'signature': 'slice:row-sum', 'what': f'{cfg}: projection of a constant volume leaves [0,1]: min {float(s.min())} max {float(s.max())}'}
    if case['rotation'] == 'identity' and abs(case['shift']) + (w_impl or 0) + 1 < shape[0] / 2 - 0.5:
        inner = s[..., 0, :, :][..., (mx - shape[1]) // 2 + 1:(mx + shape[1]) // 2 - 1, (mx - shape[2]) // 2 + 1:(mx + shape[2]) // 2 - 1]
        if inner.numel() and float((inner - 1).abs().nan_to_num(nan=float('inf')).max()) > 1e-4:
            viol = viol or {'signature': 'slice:constant', 'what': f'{cfg}: constant volume does not give a constant slice inside the volume (deviation {float((inner - 1).abs().max()):.2e})'}
        # dense row of the centre pixel follows the profile along z
        e = torch.zeros(1, 1, mx, mx)
        cy, cx = mx // 2, mx // 2
        e[0, 0, cy, cx] = 1
        (col,) = op.adjoint(e)
        colz = col[:, cy - (mx - shape[1]) // 2, cx - (mx - shape[2]) // 2].double()
        zc = shape[0] / 2 - 0.5 + case['shift']
        zs = torch.arange(shape[0], dtype=torch.float64)
        # expected: sum over ray samples of linear interpolation x profile, normalised
        wgt = torch.zeros(shape[0], dtype=torch.float64)
        for k in range(-(w_impl or 0), (w_impl or 0) + 1):
            pos = zc + k
            for z0 in (math.floor(pos), math.floor(pos) + 1):
                if 0 <= z0 < shape[0]:
                    wgt[z0] += 0  # the implementation samples the profile at the voxel distance, not by interpolation
        # the orientation of the profile axis relative to the volume index is a convention the property does not fix (the library
        # evaluates the profile at slice centre minus voxel position): either orientation is accepted, the *shape* must be the profile
        devs = []
        for sgn in (1.0, -1.0):
            expected = prof.inner((sgn * (zs - zc)).float()).double()
            expected = expected * ((zs - zc).abs() <= (w_impl or 0) + 1)
            if float(expected.sum()) > 0 and float(colz.sum()) > 0:
                devs.append(float((colz / colz.sum() - expected / expected.sum()).abs().max()))
        if devs:
            dev = min(devs)
            if dev > 0.05:
                viol = viol or {'signature': 'slice:profile-shape', 'what': f'{cfg}: weights of the centre pixel along the normal deviate from the normalised profile by {dev:.3f}'}
    # ---- axis-aligned half turns (the rotation as the user builds it, from Euler angles in single precision): the slice of V is the
    # unrotated slice of V mirrored along the axes whose sign the rotation flips (plain slicing, about the volume centre); symmetric
    # profiles only - a flipped normal mirrors the profile
    if viol is None and case['rotation'] == 'axis' and case['profile'] in ('smoothed', 'gauss') and rot is not None:
        sg = rot(torch.ones(3))
        if bool(((sg.abs() - 1).abs() < 1e-5).all()) and bool(((rot(torch.tensor([1.0, 2.0, 3.0])).abs() - torch.tensor([1.0, 2.0, 3.0])).abs() < 1e-4).all()):
            flips = [ax for ax in range(3) if float(sg[ax]) < 0]
            # a slice lying exactly between two voxel planes with a profile edge exactly on voxel centres is ambiguous: keep the
            # slice centre on a voxel plane (odd size with integer shift, or even size with half-integer shift)
            on_plane = abs((shape[0] / 2 - 0.5 + case['shift']) % 1.0) < 1e-9
            if on_plane:
                gen = torch.Generator().manual_seed(case['seed'])
                V = torch.randn(shape, generator=gen)
                op_id = mrpro.operators.SliceProjectionOp(SpatialDimension(*shape), slice_rotation=None, slice_shift=case['shift'], slice_profile=make_profile(case['profile'], case['fwhm']))
                (want_s,) = op_id(V.flip(flips) if flips else V)
                (got_s,) = op(V)
                # interior = slice pixels whose whole support (ray and in-plane neighbours) lies inside the volume: there the weights
                # sum to one whatever the edge approximation does
                # (slice pixel column j sits at volume coordinate j + (size - mx) // 2)
                y0, x0 = -((shape[1] - mx) // 2), -((shape[2] - mx) // 2)
                inner_ok = abs(case['shift']) + (w_impl or 0) + 1 < shape[0] / 2 - 0.5
                sel = torch.zeros(got_s.shape[-2:], dtype=torch.bool)
                if inner_ok:
                    sel[y0 + 1:y0 + shape[1] - 1, x0 + 1:x0 + shape[2] - 1] = True
                dev_s = (got_s - want_s).abs().nan_to_num(1e9)[..., sel]
                if got_s.shape == want_s.shape and dev_s.numel() and float(dev_s.max()) > 1e-3 * float(V.abs().max()):
                    bad = dev_s > 1e-3 * float(V.abs().max())
                    viol = {'signature': 'slice:axis-aligned', 'what': f'{cfg}: a half turn flipping axes {flips} does not give the slice of the mirrored volume: '
                                                                     f'{int(bad.sum())} of {bad.numel()} interior slice pixels differ (max dev {float(dev_s.max()):.3g})'}
                # the slice pixels on the outermost voxels of the volume still have their whole in-plane support inside it
                (o_id,) = op_id(torch.ones(shape))
                (o_rt,) = op(torch.ones(shape))
                edge_dev = (o_id - o_rt).abs().nan_to_num(1e9)
                if viol is None and inner_ok and float(edge_dev.max()) > 1e-3:
                    viol = {'signature': 'slice:edge-fraction:axis', 'what': f'{cfg}: a constant volume gives {float(o_rt.min()):.3f} .. {float(o_rt.max()):.3f} on slice pixels where the '
                                                                           f'unrotated slice of the mirrored volume gives {float(o_id[edge_dev > 1e-3].mean()):.3f} (pixels on the outermost voxels)'}
    # ---- the whole weight matrix (read off the forward operator with unit-impulse volumes) for slices whose in-plane axes stay
    # aligned with the volume (identity, tilts about one in-plane axis): the weight of voxel v for slice pixel p is
    # profile(d_normal) (1-|d_y|)+ (1-|d_x|)+ with d = R^T (p - v), p the rotated and shifted pixel position about the volume
    # centre, normalised to sum one - profile-weighted average along the normal with in-plane linear interpolation
    if viol is None and case['rotation'] in ('identity', 'tilt') and math.prod(shape) <= 1000:
        z, y, x = shape
        nvox = z * y * x
        (out,) = op(torch.eye(nvox).reshape(nvox, *shape))
        got = out[0, :, 0].permute(1, 2, 0).reshape(mx, mx, *shape).double()
        rmat = rot.as_matrix().double() if rot is not None else torch.eye(3, dtype=torch.float64)
        centre = torch.tensor([z / 2 - 0.5, y / 2 - 0.5, x / 2 - 0.5], dtype=torch.float64)
        yy, xx = torch.meshgrid(torch.arange((y - mx) // 2, (y - mx) // 2 + mx), torch.arange((x - mx) // 2, (x - mx) // 2 + mx), indexing='ij')
        pp = torch.stack([torch.zeros_like(yy).double() + z / 2 - 0.5 + case['shift'], yy.double(), xx.double()], -1)
        pp = (rmat @ (pp - centre)[..., None])[..., 0] + centre
        vv = torch.stack(torch.meshgrid(torch.arange(z), torch.arange(y), torch.arange(x), indexing='ij'), -1).double()
        dd = (rmat.T @ (pp[:, :, None, None, None, :] - vv)[..., None])[..., 0]
        want = prof.inner(dd[..., 0].float()).double() * (1 - dd[..., 1].abs()).clamp_min(0) * (1 - dd[..., 2].abs()).clamp_min(0)
        want = want * (dd[..., 0].abs() <= (w_impl or 0) + 1)
        # a rectangular profile is discontinuous at +-fwhm/2: a voxel within rounding of the edge may fall on either side
        edge_amb = ((dd[..., 0].abs() - case['fwhm'] / 2).abs() < 1e-3).flatten(2).any(-1) if case['profile'] == 'rect' else torch.zeros(mx, mx, dtype=torch.bool)
        tot = want.sum((-1, -2, -3))
        # pixels whose whole support lies inside the volume: the analytic weights of a pixel near the edge miss the part outside
        mass_all = prof.inner(torch.arange(-(w_impl or 0) - 1, (w_impl or 0) + 2).float()).double().sum()
        inside = (got.sum((-1, -2, -3)) - 1).abs() < 1e-4
        full = inside & (tot > 0) & ~edge_amb
        if bool(full.any()):
            dev = ((got - want / tot.clamp_min(1e-30)[..., None, None, None]).abs().amax((-1, -2, -3)))[full]
            # a pixel is only comparable if none of its support is cut off by the volume: both ends of its ray (half width w + 1
            # along the normal) and their in-plane neighbours lie inside
            normal = rmat @ torch.tensor([1.0, 0.0, 0.0], dtype=torch.float64)
            hi = torch.tensor([z - 1.0, y - 1.0, x - 1.0], dtype=torch.float64)
            ok_all = torch.ones(mx, mx, dtype=torch.bool)
            for sgn in (-1.0, 1.0):
                end = pp + sgn * ((w_impl or 0) + 1) * normal
                ok_all &= ((end >= 1.0) & (end <= hi - 1.0)).all(-1)
            complete = ok_all[full]
            if bool(complete.any()) and float(dev[complete].max()) > 2e-3:
                viol = {'signature': f'slice:weights:{case["rotation"]}',
                        'what': f'{cfg}: the weights of a slice pixel differ from profile(d_normal) x in-plane linear interpolation about the rotated pixel position by '
                                f'{float(dev[complete].max()):.3f} (largest weight {float(got.max()):.2f})'}
    return Outcome(key=('slice', tuple(shape), case['profile'], case['fwhm'], case['rotation'], case['shift']), corr=corr, viol=viol,
                   branches=[f'profile:{case["profile"]}', f'fwhm:{case["fwhm"]}', f'rot:{case["rotation"]}', f'w:{w_impl}'],
                   sample={**case, 'w_impl': w_impl, 'w_model': m['w'], 'test_grid': [float(v) for v in grid_t.flatten()][:6], 'mass_outside': outside})


def run_grid(case, drv) -> Outcome:
    import mrpro
    from mrpro.data import SpatialDimension

    rng = random.Random(case['seed'])
    dim = case['dim']
    ishape = [rng.randint(2, 4) for _ in range(dim)]
    oshape = [rng.randint(1, 3) for _ in range(dim)]
    cplx = case['complex']

    def dyad(lo, hi, den=8):
        return rng.randint(int(lo * den), int(hi * den)) / den

    if case['grid_kind'] == 'identity':
        oshape = list(ishape)
        axes = []
        for n in ishape[::-1]:
            axes.append([((2 * i + 1) / n - 1) if not case['align'] else (2 * i / (n - 1) - 1 if n > 1 else 0.0) for i in range(n)])
        pts = torch.zeros(*oshape, dim, dtype=torch.float64)
        import itertools
        for idx in itertools.product(*[range(s) for s in oshape]):
            for a in range(dim):
                pts[idx][a] = axes[a][idx[dim - 1 - a]]
    else:
        lo, hi = (-1, 1) if case['grid_kind'] == 'inside' else (-1.75, 1.75)
        pts = torch.tensor([dyad(lo, hi) for _ in range(math.prod(oshape) * dim)], dtype=torch.float64).reshape(*oshape, dim)
    layout = case['layout']
    gb = 2 if layout == 'batch_bcast' else 1
    grid = pts.unsqueeze(0).repeat(gb, *([1] * (dim + 1)))
    if gb == 2:
        grid[1] = grid[1].flip(0)
    chans = 2 if layout == 'channels' else 1
    xb = 1
    n = xb * chans * math.prod(ishape)
    xr = torch.tensor([rng.randint(-8, 8) for _ in range(n)], dtype=torch.float64).reshape(xb, chans, *ishape)
    x = torch.complex(xr, xr.flip(-1) * 0.5 + 1) if cplx else xr
    cfg = f'{dim}D {case["mode"]} align {case["align"]} padding {case["padding"]} {layout} {"complex" if cplx else "real"} grid {case["grid_kind"]} in {ishape} out {oshape}'
    sd = SpatialDimension(*(([1] if dim == 2 else []) + ishape))
    st, op = call(lambda: mrpro.operators.GridSamplingOp(grid, sd, interpolation_mode=case['mode'], padding_mode=case['padding'], align_corners=case['align']))
    if st != 'ok':
        return Outcome(key=('grid-ctor', cfg), corr=f'GridSamplingOp raises {op} for {cfg}')
    st, y = call(lambda: op(x)[0])
    if st != 'ok':
        return Outcome(key=('grid-fwd', cfg), viol={'signature': 'grid:raises', 'what': f'{cfg}: forward raises {y}'})
    viol = None
    corr = None
    want_shape = [gb, chans, *oshape]
    if list(y.shape) != want_shape:
        viol = {'signature': 'grid:shape', 'what': f'{cfg}: output shape {list(y.shape)} expected {want_shape}'}
    elif cplx:
        (yr,) = op(x.real.contiguous())
        (yi,) = op(x.imag.contiguous())
        if not torch.allclose(y, torch.complex(yr, yi), rtol=0, atol=1e-12):
            viol = {'signature': 'grid:reim', 'what': f'{cfg}: real and imaginary parts are not sampled alike'}
    if viol is None and case['grid_kind'] == 'identity' and (case['mode'] == 'nearest' or True):
        if not torch.allclose(y[0], x[0].to(y.dtype), rtol=0, atol=1e-9):
            viol = {'signature': 'grid:identity', 'what': f'{cfg}: sampling at the pixel centres does not return the input (max dev {float((y[0] - x[0]).abs().max()):.2e})'}
    # model correspondence: bilinear/nearest with every padding mode (coordinate maps of torch: clip for border, reflect + clip for
    # reflection) - for grid points outside [-1, 1] this is also the property-level oracle: the interpolated value at the grid location
    if viol is None:
        for b in range(gb):
            for c in range(chans):
                img = (x.real if cplx else x)[0, c]
                ptl = grid[b].reshape(-1, dim)
                # nearest with exact ties is implementation defined in float: skip points that unnormalise to .5
                m = drv.call({'op': 'interp', 'align_corners': case['align'], 'nearest': case['mode'] == 'nearest', 'shape': ishape,
                              'padding': {'zeros': 0, 'border': 1, 'reflection': 2}[case['padding']],
                              'img': [frac_str(float(v)) for v in img.flatten()], 'points': [[frac_str(float(v)) for v in p] for p in ptl]})
                mv = torch.tensor([float(parse_scal(s)[0]) for s in m['out']], dtype=torch.float64).reshape(oshape)
                got = (y.real if cplx else y)[b, c]
                bad = (got - mv).abs() > 1e-9
                if case['mode'] == 'nearest':
                    # exclude exact half-way points (tie rule of nearbyint vs model is the same: half to even; keep them)
                    pass
                if bool(bad.any()):
                    i = bad.nonzero()[0].tolist()
                    corr = corr or f'{cfg}: value at output index {i} (batch {b}, channel {c}): impl {float(got[tuple(i)])} model {float(mv[tuple(i)])}, grid point {grid[b][tuple(i)].tolist()}'
                    viol = viol or {'signature': f'grid:value:{case["padding"]}', 'what': f'{cfg}: output {i} is {float(got[tuple(i)])}, the {case["mode"]} interpolation of the input at '
                                    f'grid point {grid[b][tuple(i)].tolist()} with {case["padding"]} padding is {float(mv[tuple(i)])}'}
    return Outcome(key=('grid', dim, case['mode'], case['align'], case['padding'], layout, cplx, case['grid_kind'], tuple(ishape), tuple(oshape)), corr=corr, viol=viol,
                   branches=[f'{dim}D', case['mode'], f'align:{case["align"]}', f'pad:{case["padding"]}', layout, case['grid_kind']], sample=case)


def run_edge(case, drv) -> Outcome:
    """identity rotation, the slice partly outside the volume: the value of a constant volume at an interior slice pixel is the fraction
    of the pixel's weights that lies inside the volume (zero padding) - correspondence with `M.fractionInView` on the candidate points
    the operator enumerates (ray offsets -w..w, floor and floor + 1 along every axis), and the property-level value"""
    import mrpro
    from mrpro.data import SpatialDimension

    shape = case['shape']
    prof = Probe(make_profile(case['profile'], case['fwhm']))
    cfg = f'volume {shape} profile {case["profile"]} fwhm {case["fwhm"]} identity rotation shift {case["shift"]}'
    st, op = call(lambda: mrpro.operators.SliceProjectionOp(SpatialDimension(*shape), slice_rotation=None, slice_shift=case['shift'], slice_profile=prof))
    if st != 'ok':
        return Outcome(key=('edge-ctor', cfg), corr=f'SliceProjectionOp raises {op} for {cfg}')
    ray_calls = [c for c in prof.calls if c[0].ndim == 4]
    w_half = (ray_calls[0][0].shape[-1] - 1) // 2 if ray_calls else 0
    pz = shape[0] / 2 - 0.5 + case['shift']
    # candidates along the normal as the operator enumerates them; the in-plane neighbour at +1 has weight 0 for a pixel on the lattice
    zs = [math.floor(pz + k) + o for k in range(-w_half, w_half + 1) for o in (0, 1)]
    wz = prof.inner(torch.tensor([pz - z for z in zs], dtype=torch.float32)).double().tolist()
    wts, mask = [], []
    for z, wv in zip(zs, wz, strict=True):
        for oy in (0, 1):
            for ox in (0, 1):
                wts.append(wv if (oy, ox) == (0, 0) else 0.0)
                mask.append(0 <= z < shape[0])  # interior pixel: the in-plane neighbours are inside
    viol = corr = None
    (s,) = op(torch.ones(shape))
    mx = max(shape)
    y0, x0 = -((shape[1] - mx) // 2), -((shape[2] - mx) // 2)
    got = float(s[..., y0 + 1, x0 + 1].reshape(-1)[0])
    if sum(wts) > 0:
        m = drv.call({'op': 'fraction_in_view', 'w': [frac_str(v) for v in wts], 'mask': mask})
        frac = float(Fraction(m['fraction']))
        # unique voxels in view carry the (de-duplicated) weights: row sum = frac * s / (s + 1e-6)
        s_in = sum({z: wv for z, wv in zip(zs, wz, strict=True) if 0 <= z < shape[0]}.values())
        want = frac * s_in / (s_in + 1e-6) if s_in > 0 else 0.0
        if not math.isfinite(got) or abs(got - want) > 2e-4:
            corr = f'{cfg}: a constant volume gives {got:.6f} at an interior slice pixel, the model of the fraction in view gives {want:.6f} (fraction {frac:.6f}, as shipped {float(Fraction(m["shipped"])):.6f})'
        # property level: zero padding - the profile mass on the voxels inside over the mass on all voxels the ray reaches
        uniq = {z: wv for z, wv in zip(zs, wz, strict=True)}
        # (every voxel is reached twice except the two ends of the ray, which carry almost no weight)
        zp = sum(wv for z, wv in uniq.items() if 0 <= z < shape[0]) / max(1e-30, sum(uniq.values()))
        if not math.isfinite(got) or abs(got - zp) > 0.03:
            viol = {'signature': 'slice:zero-padding', 'what': f'{cfg}: a constant volume gives {got:.4f} at an interior slice pixel; with zero padding outside the volume the '
                                                               f'profile-weighted average is {zp:.4f}'}
    return Outcome(key=('edge', tuple(shape), case['profile'], case['fwhm'], case['shift']), corr=corr, viol=viol, branches=[f'edge:{case["profile"]}', f'edge-w:{w_half}'],
                   sample={**case, 'w_half': w_half, 'value': got})


def run_slicebatch(case, drv) -> Outcome:
    """slice profiles and shifts with batch shapes that broadcast across each other: slice [i, j] of the batched operator is the slice of
    the operator built from profile i and shift j alone"""
    import mrpro
    import numpy as np
    from mrpro.data import SpatialDimension
    from mrpro.utils.slice_profiles import SliceGaussian, SliceSmoothedRectangular

    rng = random.Random(case['seed'])
    n = case['n']
    shape = [n, n, n]
    pshape = case['pshape']
    profs = [SliceGaussian(1.0 + 0.75 * k) if k % 2 == 0 else SliceSmoothedRectangular(1.0 + k, 0.5) for k in range(pshape[0] * pshape[1])]
    parr = np.array(profs, dtype=object).reshape(pshape)
    nshift = case['nshift'] if pshape[1] == 1 else pshape[1]
    shifts = torch.tensor([rng.choice([-1.0, 0.0, 0.5, 1.0, 1.5]) for _ in range(nshift)])
    cfg = f'volume {shape} profiles of batch shape {pshape} shifts {shifts.tolist()}'
    st, op = call(lambda: mrpro.operators.SliceProjectionOp(SpatialDimension(*shape), slice_rotation=None, slice_shift=shifts, slice_profile=parr))
    if st != 'ok':
        return Outcome(key=('slicebatch-ctor', cfg), branches=['slicebatch:raises'], sample=case)  # a batch layout the operator refuses is not a wrong result
    gen = torch.Generator().manual_seed(case['seed'])
    V = torch.randn(shape, generator=gen)
    (y,) = op(V)
    viol = None
    bshape = list(torch.broadcast_shapes(tuple(pshape), (nshift,)))
    if list(y.shape[:len(bshape)]) != bshape:
        viol = {'signature': 'slice:batch-shape', 'what': f'{cfg}: output batch shape {list(y.shape)} expected to start with {bshape}'}
    else:
        for i in range(bshape[0]):
            for j in range(bshape[1]):
                pi = parr[i if pshape[0] > 1 else 0, j if pshape[1] > 1 else 0]
                single = mrpro.operators.SliceProjectionOp(SpatialDimension(*shape), slice_rotation=None, slice_shift=float(shifts[j]), slice_profile=pi)
                (ys,) = single(V)
                dev = float((y[i, j].reshape(-1) - ys.reshape(-1)).abs().nan_to_num(nan=float('inf')).max())
                if dev > 1e-4 * float(V.abs().max()):
                    viol = viol or {'signature': 'slice:batch-pairing', 'what': f'{cfg}: slice [{i}, {j}] of the batched operator differs from the operator built from profile '
                                                                              f'{i if pshape[0] > 1 else j} and shift {j} alone (max dev {dev:.3g})'}
    return Outcome(key=('slicebatch', n, tuple(pshape), nshift), viol=viol, branches=[f'slicebatch:{pshape}'], sample=case)


def run_gridcross(case, drv) -> Outcome:
    """grid batch (g, 1) against image batch (1, m) / (g, m): result [i, j] is image j sampled with grid i"""
    import mrpro
    from mrpro.data import SpatialDimension

    rng = random.Random(case['seed'])
    dim = case['dim']
    ishape = [rng.randint(2, 4) for _ in range(dim)]
    oshape = [rng.randint(1, 3) for _ in range(dim)]
    gb, xb = case['gb'], case['xb']
    grid = torch.tensor([rng.randint(-8, 8) / 8 for _ in range(gb[0] * math.prod(oshape) * dim)], dtype=torch.float64).reshape(gb[0], 1, *oshape, dim)
    chans = 2
    xr = torch.tensor([rng.randint(-8, 8) for _ in range(xb[0] * xb[1] * chans * math.prod(ishape))], dtype=torch.float64).reshape(*xb, chans, *ishape)
    x = torch.complex(xr, xr.flip(-1) * 0.5 + 1) if case['complex'] else xr
    if xb[0] not in (1, gb[0]):
        x = x[:1]
    sd = SpatialDimension(*(([1] if dim == 2 else []) + ishape))
    cfg = f'{dim}D {case["mode"]} grid batch {list(grid.shape[:2])} image batch {list(x.shape[:2])} {"complex" if case["complex"] else "real"} in {ishape} out {oshape}'
    st, y = call(lambda: mrpro.operators.GridSamplingOp(grid, sd, interpolation_mode=case['mode'])(x)[0])
    if st != 'ok':
        return Outcome(key=('gridcross-raises', cfg), branches=['gridcross:raises'], sample=case)
    viol = None
    want_b = [gb[0], x.shape[1]]
    if list(y.shape[:2]) != want_b:
        viol = {'signature': 'grid:cross-shape', 'what': f'{cfg}: output batch shape {list(y.shape[:2])}, expected {want_b}'}
    else:
        for i in range(want_b[0]):
            for j in range(want_b[1]):
                xi = x[i if x.shape[0] > 1 else 0, j][None]
                (single,) = mrpro.operators.GridSamplingOp(grid[i], sd, interpolation_mode=case['mode'])(xi)
                dev = float((y[i, j] - single[0]).abs().nan_to_num(nan=float('inf')).max())
                if dev > 1e-9:
                    viol = viol or {'signature': 'grid:cross-pairing', 'what': f'{cfg}: result [{i}, {j}] is not image {j} sampled with grid {i} (max dev {dev:.3g} from the non-batched operator)'}
    return Outcome(key=('gridcross', dim, tuple(gb), tuple(x.shape[:2]), case['mode'], case['complex']), viol=viol, branches=[f'gridcross:{gb}x{list(x.shape[:2])}'], sample=case)


def run(case, drv) -> Outcome:
    if case['kind'] == 'slicebatch':
        return run_slicebatch(case, drv)
    if case['kind'] == 'gridcross':
        return run_gridcross(case, drv)
    if case['kind'] == 'edge':
        return run_edge(case, drv)
    return run_slice(case, drv) if case['kind'] == 'slice' else run_grid(case, drv)
