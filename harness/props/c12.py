"""C12 — Rotation agrees with the reference implementation it reimplements (scipy)."""
import itertools
import math
import random
import warnings

import numpy as np
import torch

from harness.core.runner import Outcome
from harness.core.util import call
from harness.props._rot import AXIS_ORDER, drv_rot, letter_index, rand_quat, same_rotation_quat, to_scipy_seq

RULE = ('proper rotations: generic / near-identity / near-pi / axis (gimbal-lock) / unnormalised quaternions, nearly orthogonal matrices, single '
        'and batched; all 24 Euler sequences (12 x intrinsic/extrinsic) x degrees/radians; every operation shared with scipy compared '
        'three-way: real code vs scipy (axis letter AXIS_ORDER[i] <-> "xyz"[i], q ~ -q) and vs the Lean model (from_euler, as_euler, matrix -> '
        'quaternion, rotation vectors); round trips from_X(as_X()). distinct = distinct case key')
ASSUMPTIONS = ['scipy.spatial.transform.Rotation is the reference; float64 agreement 1e-9 (1e-6 near pi / gimbal lock)']
SEQS = [''.join(p) for p in itertools.permutations('xyz')] + [a + b + a for a in 'xyz' for b in 'xyz' if a != b]
TOL = 1e-9


def generate(rng: random.Random, tier: str):
    thorough = tier == 'thorough'
    cases = []
    for _ in range(3000 if thorough else 300):
        cases.append({'kind': 'convert', 'quat': rng.choice(['generic', 'generic', 'near_identity', 'near_pi', 'axis', 'unnormalised', 'tiny']),
                      'seq': rng.choice(SEQS), 'intrinsic': rng.random() < 0.5, 'degrees': rng.random() < 0.5, 'batch': rng.choice([0, 0, 1, 3]),
                      'gimbal': rng.random() < 0.15, 'seed': rng.randrange(1 << 30)})
    for _ in range(600 if thorough else 80):
        cases.append({'kind': 'ops', 'batch': rng.choice([0, 2, 4]), 'seed': rng.randrange(1 << 30)})
    return cases


def rmat(a, b, tol=TOL):
    a, b = torch.as_tensor(np.asarray(a), dtype=torch.float64), torch.as_tensor(np.asarray(b), dtype=torch.float64)
    return a.shape == b.shape and bool(torch.isfinite(a).all()) and float((a - b).abs().max()) <= tol


def run_convert(case, drv) -> Outcome:
    from mrpro.data import Rotation
    from scipy.spatial.transform import Rotation as SR

    rng = random.Random(case['seed'])
    nb = case['batch']
    seq = case['seq'].upper() if case['intrinsic'] else case['seq']
    sseq = to_scipy_seq(seq)
    deg = case['degrees']
    if case['gimbal']:
        # second angle at the singular value for the sequence type
        sym = case['seq'][0] == case['seq'][2]
        mid = rng.choice([0.0, math.pi]) if sym else rng.choice([-math.pi / 2, math.pi / 2])
        angs = [[rng.uniform(-3, 3), mid, rng.uniform(-3, 3)] for _ in range(max(nb, 1))]
        ang_t = torch.tensor(angs if nb else angs[0], dtype=torch.float64)
        R = Rotation.from_euler(seq, ang_t)
        S = SR.from_euler(sseq, np.array(angs if nb else angs[0]))
        q = torch.atleast_2d(R.as_quat()).tolist()
    else:
        q = [rand_quat(rng, case['quat']) for _ in range(max(nb, 1))]
        qt = torch.tensor(q if nb else q[0], dtype=torch.float64)
        R = Rotation.from_quat(qt)
        S = SR.from_quat(np.array(q if nb else q[0]))
    cfg = f'quat {case["quat"]} gimbal {case["gimbal"]} seq {seq} degrees {deg} batch {nb} seed {case["seed"]}'
    viol = None
    corr = None
    near = case['quat'] in ('near_pi', 'near_identity', 'tiny') or case['gimbal']
    tol = 1e-6 if near else TOL

    def v(sig, what):
        return {'signature': f'scipy:{sig}', 'what': f'{cfg}: {what}'}

    with warnings.catch_warnings():
        warnings.simplefilter('ignore')
        # quaternion / matrix / rotvec
        if not same_rotation_quat(R.as_quat(canonical=True), S.as_quat(canonical=True), 1e-9) and not rmat(R.as_matrix(), S.as_matrix()):
            viol = viol or v('as_quat', f'as_quat {R.as_quat(canonical=True).tolist()} vs scipy {S.as_quat(canonical=True).tolist()}')
        if not rmat(R.as_matrix(), S.as_matrix()):
            viol = viol or v('as_matrix', 'as_matrix differs from scipy')
        if not rmat(R.as_rotvec(degrees=deg), S.as_rotvec(degrees=deg), tol * (180 if deg else 1) * 10):
            viol = viol or v('as_rotvec', f'as_rotvec {R.as_rotvec(degrees=deg).tolist()} vs scipy {S.as_rotvec(degrees=deg).tolist()}')
        if not rmat(R.magnitude(), S.magnitude(), tol * 10):
            viol = viol or v('magnitude', 'magnitude differs from scipy')
        # small angles are resolved relative to their size (the angle is 2 atan2(|xyz|, |w|), well conditioned everywhere), in
        # double and in single precision
        mag_ref = np.atleast_1d(S.magnitude())
        mag = np.atleast_1d(np.asarray(R.magnitude(), dtype=np.float64))
        if mag.shape == mag_ref.shape and bool(np.any(np.abs(mag - mag_ref) > 1e-13 + 1e-6 * mag_ref)):
            viol = viol or v('magnitude-relative', f'magnitude {mag.tolist()} differs from scipy {mag_ref.tolist()} by more than 1e-6 relative')
        q32 = torch.atleast_2d(R.as_quat()).to(torch.float32)
        R32 = Rotation.from_quat(q32)
        ref32 = np.atleast_1d(SR.from_quat(q32.double().numpy()).magnitude())
        mag32 = np.asarray(R32.magnitude(), dtype=np.float64).reshape(-1)
        if bool(np.any(np.abs(mag32 - ref32) > 1e-9 + 2e-5 * ref32)):
            viol = viol or v('magnitude-float32', f'single precision magnitude {mag32.tolist()} differs from scipy on the same quaternion {ref32.tolist()} by more than 2e-5 relative')
        # euler: angles must agree away from gimbal lock; the rotation must round-trip always
        st, e = call(lambda: R.as_euler(seq, degrees=deg))
        if st != 'ok':
            viol = viol or v('as_euler-raises', f'as_euler raises {e}')
        else:
            es = S.as_euler(sseq, degrees=deg)
            back = Rotation.from_euler(seq, e, degrees=deg)
            if not rmat(back.as_matrix(), R.as_matrix(), 1e-6):
                viol = viol or v(f'euler-roundtrip:{"gimbal" if case["gimbal"] else "regular"}', f'from_euler(as_euler()) is a different rotation: angles {e.tolist()}')
            if not case['gimbal'] and case['quat'] not in ('axis',) and not rmat(e, es, tol * (180 if deg else 1) * 10):
                viol = viol or v('as_euler', f'as_euler {e.tolist()} vs scipy {es.tolist()}')
        # constructors
        m = torch.as_tensor(S.as_matrix())
        noisy = m + 1e-9 * torch.tensor(np.random.default_rng(case['seed']).standard_normal(m.shape))
        Rm = Rotation.from_matrix(noisy)
        if not rmat(Rm.as_matrix(), m, 1e-7):
            viol = viol or v('from_matrix', 'from_matrix of a nearly orthogonal matrix differs from the rotation')
        # a matrix that is only roughly a rotation (direction cosines rounded to 2-3 decimals, noisy or slightly scaled): the result is
        # a proper rotation near it - unit quaternion, orthogonal matrix of determinant +1, lengths preserved
        pert = rng.choice([1e-3, 5e-3, 2e-2])
        rough = m * rng.choice([1.0, 1.0 + pert, 1.0 - pert]) + pert * torch.tensor(np.random.default_rng(case['seed'] + 1).uniform(-1, 1, m.shape))
        st_r, Rr = call(lambda: Rotation.from_matrix(rough))
        if st_r != 'ok':
            viol = viol or v('from_matrix-rough-raises', f'from_matrix of a roughly orthogonal matrix raises {Rr}')
        else:
            qr = torch.atleast_2d(Rr.as_quat()).double()
            mr = Rr.as_matrix().double()
            eye = torch.eye(3, dtype=torch.float64)
            if float((qr.norm(dim=-1) - 1).abs().nan_to_num(nan=float('inf')).max()) > 1e-9:
                viol = viol or v('from_matrix-unit', f'from_matrix of a roughly orthogonal matrix (perturbation {pert}) stores a quaternion of norm {qr.norm(dim=-1).tolist()}')
            elif float((mr @ mr.transpose(-1, -2) - eye).abs().nan_to_num(nan=float('inf')).max()) > 1e-9 or float((torch.linalg.det(mr) - 1).abs().nan_to_num(nan=float('inf')).max()) > 1e-9:
                viol = viol or v('from_matrix-orthogonal', f'from_matrix of a roughly orthogonal matrix (perturbation {pert}) is not a proper rotation')
            elif float((mr - m).abs().nan_to_num(nan=float('inf')).max()) > 20 * pert:
                viol = viol or v('from_matrix-near', f'from_matrix of a roughly orthogonal matrix (perturbation {pert}) is {float((mr - m).abs().max()):.2e} away from it')
        rv = torch.as_tensor(S.as_rotvec(degrees=deg))
        if not rmat(Rotation.from_rotvec(rv, degrees=deg).as_matrix(), m, 1e-8):
            viol = viol or v('from_rotvec', 'from_rotvec(scipy rotvec) differs')
        if not rmat(Rotation.from_rotvec(R.as_rotvec()).as_matrix(), R.as_matrix(), 1e-7):
            viol = viol or v('rotvec-roundtrip', 'from_rotvec(as_rotvec()) is a different rotation')
        if not rmat(Rotation.from_matrix(R.as_matrix()).as_matrix(), R.as_matrix(), 1e-8):
            viol = viol or v('matrix-roundtrip', 'from_matrix(as_matrix()) is a different rotation')
        if not rmat(Rotation.from_quat(R.as_quat()).as_matrix(), R.as_matrix(), 1e-9):
            viol = viol or v('quat-roundtrip', 'from_quat(as_quat()) is a different rotation')
        ang = [rng.uniform(-180, 180) if deg else rng.uniform(-math.pi, math.pi) for _ in range(3)]
        if not rmat(Rotation.from_euler(seq, torch.tensor(ang, dtype=torch.float64), degrees=deg).as_matrix(), SR.from_euler(sseq, ang, degrees=deg).as_matrix()):
            viol = viol or v('from_euler', f'from_euler({seq}, {ang}) differs from scipy from_euler({sseq})')
        # apply
        vec = np.array([rng.uniform(-2, 2) for _ in range(3)])
        if not rmat(R(torch.as_tensor(vec)), S.apply(vec), 1e-9):
            viol = viol or v('apply', 'application to a vector differs from scipy')
    # ---- Lean model (first element)
    q0 = torch.atleast_2d(R.as_quat())[0].tolist()
    axes = [letter_index(ch) for ch in case['seq']]
    me = drv_rot(drv, 'toEuler', q=q0, axes=axes, extrinsic=not case['intrinsic'])
    ie = torch.atleast_2d(R.as_euler(seq))[0].tolist()
    if max(abs(a - b) for a, b in zip(me, ie)) > 1e-9:
        corr = corr or f'{cfg}: as_euler impl {ie} model {me}'
    mq = drv_rot(drv, 'fromEuler', axes=axes, angles=[float(a) for a in ie], intrinsic=case['intrinsic'])
    iq = torch.atleast_2d(Rotation.from_euler(seq, torch.tensor(ie, dtype=torch.float64)).as_quat())[0].tolist()
    if max(abs(a - b) for a, b in zip(mq, iq)) > 1e-12:
        corr = corr or f'{cfg}: from_euler impl {iq} model {mq}'
    m0 = torch.atleast_3d(R.as_matrix()).reshape(-1, 3, 3)[0]
    mm = drv_rot(drv, 'matrixToQuat', m=[float(x) for x in m0.flatten()])
    im = torch.atleast_2d(Rotation.from_matrix(m0).as_quat())[0].tolist()
    nm = math.sqrt(sum(x * x for x in mm))
    if max(abs(a / nm - b) for a, b in zip(mm, im)) > 1e-9:
        corr = corr or f'{cfg}: from_matrix quaternion impl {im} model {[a / nm for a in mm]}'
    mr = drv_rot(drv, 'toRotvec', q=drv_rot(drv, 'canonical', q=q0, xyz_index=[AXIS_ORDER.index(c) for c in 'xyz']))
    ir = torch.atleast_2d(R.as_rotvec())[0].tolist()
    if max(abs(a - b) for a, b in zip(mr, ir)) > 1e-9:
        corr = corr or f'{cfg}: as_rotvec impl {ir} model {mr}'
    return Outcome(key=('convert', case['quat'], case['gimbal'], seq, deg, nb, case['seed'] % 211), corr=corr, viol=viol,
                   branches=[f'quat:{case["quat"]}', f'seq:{"sym" if case["seq"][0] == case["seq"][2] else "asym"}', 'intrinsic' if case['intrinsic'] else 'extrinsic',
                             'deg' if deg else 'rad', 'gimbal' if case['gimbal'] else 'regular', f'batch:{nb}'], sample=case)


def run_ops(case, drv) -> Outcome:
    from mrpro.data import Rotation
    from scipy.spatial.transform import Rotation as SR

    rng = random.Random(case['seed'])
    nb = case['batch']
    viol = None
    cfg = f'ops batch {nb} seed {case["seed"]}'

    def v(sig, what):
        return {'signature': f'scipy:{sig}', 'what': f'{cfg}: {what}'}

    def mk():
        q = [rand_quat(rng) for _ in range(max(nb, 1))]
        return Rotation.from_quat(torch.tensor(q if nb else q[0], dtype=torch.float64)), SR.from_quat(np.array(q if nb else q[0]))

    (p, sp), (q, sq) = mk(), mk()
    with warnings.catch_warnings():
        warnings.simplefilter('ignore')
        if not rmat((p @ q).as_matrix(), (sp * sq).as_matrix()):
            viol = viol or v('compose', 'p @ q differs from scipy p * q')
        if not rmat(p.inv().as_matrix(), sp.inv().as_matrix()):
            viol = viol or v('inv', 'inv differs')
        for n in (2, -3, 0.5, 1.7, -0.25, 0, 1):
            if not rmat((p**n).as_matrix(), (sp**n).as_matrix(), 1e-8):
                viol = viol or v(f'pow:{n}', f'p ** {n} differs from scipy')
        if nb:
            w = np.array([rng.uniform(0.5, 2) for _ in range(nb)])
            st, mres = call(lambda: p.mean(torch.as_tensor(w)))
            if st == 'ok':
                if not rmat(mres.as_matrix(), sp.mean(w).as_matrix(), 1e-7):
                    viol = viol or v('mean', 'weighted mean differs from scipy')
            else:
                viol = viol or v('mean-raises', f'mean raises {mres}')
            a = np.array([[rng.gauss(0, 1) for _ in range(3)] for _ in range(nb + 1)])
            b = sp[0].apply(a) + 1e-3 * np.array([[rng.gauss(0, 1) for _ in range(3)] for _ in range(nb + 1)])
            st, res = call(lambda: Rotation.align_vectors(torch.as_tensor(b), torch.as_tensor(a)))
            sres = SR.align_vectors(b, a)
            if st == 'ok':
                if not rmat(res[0].as_matrix(), sres[0].as_matrix(), 1e-6):
                    viol = viol or v('align_vectors', 'align_vectors rotation differs from scipy')
            else:
                viol = viol or v('align-raises', f'align_vectors raises {res}')
            # approx_equal: same decision as scipy for a sweep of tolerances around the actual angle between the rotations
            ang = (sp * sq.inv()).magnitude() if nb else np.atleast_1d((sp * sq.inv()).magnitude())
            for atol in (float(np.min(ang)) * 0.5, float(np.max(ang)) * 2 + 1e-3):
                st, ae = call(lambda atol=atol: p.approx_equal(q, atol=atol))
                if st == 'ok':
                    if np.atleast_1d(ae.numpy()).tolist() != np.atleast_1d(sp.approx_equal(sq, atol=atol)).tolist():
                        viol = viol or v('approx_equal', f'approx_equal(atol={atol:.3g}) decides differently from scipy')
                else:
                    viol = viol or v('approx_equal-raises', f'approx_equal raises {ae}')
            # weighted: finite weights, and one infinite weight (that pair is aligned exactly, the others fix the twist)
            for kind in ('finite', 'inf'):
                w = np.array([rng.uniform(0.3, 3) for _ in range(nb + 1)])
                if kind == 'inf':
                    w[rng.randrange(nb + 1)] = np.inf
                st, res = call(lambda w=w: Rotation.align_vectors(torch.as_tensor(b), torch.as_tensor(a), weights=torch.as_tensor(w)))
                st_s, sres = call(lambda w=w: SR.align_vectors(b, a, weights=w))
                if st_s != 'ok':
                    continue
                if st == 'ok':
                    if not rmat(res[0].as_matrix(), sres[0].as_matrix(), 1e-6):
                        viol = viol or v(f'align_vectors:{kind}-weights', f'align_vectors with {kind} weights {w.tolist()} differs from scipy')
                else:
                    viol = viol or v('align-raises', f'align_vectors with {kind} weights raises {res}')
    return Outcome(key=('ops', nb, case['seed'] % 101), viol=viol, branches=[f'ops:batch{nb}'], sample=case)


def run(case, drv) -> Outcome:
    return run_convert(case, drv) if case['kind'] == 'convert' else run_ops(case, drv)
