"""C05 — differentiating through an operator yields its adjoint."""
import itertools
import math
import random
import warnings

import torch

from harness.core import zoo, zoo_kernels
from harness.core.conv import frac_str, parse_scal
from harness.core.runner import Outcome
from harness.core.util import call

RULE = ('operators with custom wiring (FourierOp FFT / NUFFT / mixed, GridSamplingOp 2D/3D, SliceProjectionOp with all optimize_for settings) and a '
        'sample of the others (zero pad, finite differences, sensitivity, einsum, Cartesian sampling, wavelets, FFT) x real / complex / mixed '
        'dtypes: torch.autograd.grad of L = Re<c, A x> and L = |A x|^2 (first order), of the gradient itself (second order) and forward-mode jvp '
        'compared with explicit adjoint / forward applications; grid gradients by gradcheck; the dtype case table of the sparse backward '
        'compared entry-wise with the Lean model. distinct = distinct (operator configuration, dtype combination, order)')
ASSUMPTIONS = ['the torch autograd engine and the aten grid_sampler backward are trusted', 'float32 sparse projection: 1e-4; others 1e-8 (NUFFT 1e-5)']


def generate(rng: random.Random, tier: str):
    thorough = tier == 'thorough'
    cases = []
    n = 10 if thorough else 3
    for kind in ['fourier_nufft', 'gridsample', 'sliceproj', 'wavelet', 'fft']:
        for kcfg in zoo_kernels.gen_configs(kind, rng, n * (2 if kind in ('fourier_nufft', 'gridsample', 'sliceproj') else 1)):
            cases.append({'kind': 'grad', 'src': 'kernel', 'cfg': kcfg, 'dtype_x': rng.choice(['complex', 'real']), 'dtype_c': rng.choice(['complex', 'real']),
                          'seed': rng.randrange(1 << 30)})
    for kind in ['zeropad', 'fd', 'sens', 'einsum', 'cartsamp']:
        for _ in range(n):
            cases.append({'kind': 'grad', 'src': 'exact', 'cfg': zoo.gen_config(kind, rng), 'dtype_x': rng.choice(['complex', 'real']), 'dtype_c': rng.choice(['complex', 'real']),
                          'seed': rng.randrange(1 << 30)})
    for _ in range(n * 2):
        cases.append({'kind': 'fourier_cart', 'seed': rng.randrange(1 << 30), 'dtype_x': rng.choice(['complex', 'real'])})
    for xc, mc, gc in itertools.product([False, True], repeat=3):
        cases.append({'kind': 'table', 'x_complex': xc, 'm_complex': mc, 'g_complex': gc, 'seed': rng.randrange(1 << 30)})
    for _ in range(n):
        cases.append({'kind': 'gridgrad', 'dim': rng.choice([2, 3]), 'seed': rng.randrange(1 << 30)})
    # every padding mode (x interpolation x align_corners, with grid points outside [-1, 1] where the modes differ)
    for pad in ('zeros', 'border', 'reflection'):
        for _ in range(2 if thorough else 1):
            dim = rng.choice([2, 3])
            cases.append({'kind': 'gridgrad', 'dim': dim, 'padding': pad, 'mode': rng.choice(['bilinear', 'bicubic']) if dim == 2 else 'bilinear',
                          'align': rng.random() < 0.5, 'wide': True, 'seed': rng.randrange(1 << 30)})
    return cases


def build(case):
    if case['src'] == 'kernel':
        op, dom, rg, tol = zoo_kernels.build(case['cfg'])
        return op, dom, rg, max(tol, 1e-8), case['cfg']['kind'] == 'sliceproj'
    b = zoo.build(case['cfg'])
    return b.op, list(b.dom), list(b.rng), 1e-10, False


def rnd(shape, cplx, single, gen):
    dt = (torch.complex64 if single else torch.complex128) if cplx else (torch.float32 if single else torch.float64)
    return torch.randn(*shape, dtype=dt, generator=gen) if not cplx else torch.complex(
        torch.randn(*shape, dtype=torch.float32 if single else torch.float64, generator=gen), torch.randn(*shape, dtype=torch.float32 if single else torch.float64, generator=gen))


def run_grad(case, drv, op=None, dom=None, rg=None, tol=None, single=False, name=None) -> Outcome:
    warnings.filterwarnings('ignore')
    if op is None:
        op, dom, rg, tol, single = build(case)
        name = str({k: v for k, v in case['cfg'].items() if k not in ('seed', 'kz', 'ky', 'kx')})
    gen = torch.Generator().manual_seed(case['seed'])
    xc = case['dtype_x'] == 'complex'
    cc = case.get('dtype_c', 'complex') == 'complex'
    x = rnd(dom, xc, single, gen).requires_grad_(True)
    tol = max(tol, 1e-4 if single else tol)
    cfg = f'{name} x:{case["dtype_x"]} c:{case.get("dtype_c")}'
    viol = None

    def v(sig, what):
        kind = case.get('cfg', {}).get('kind', case['kind'])
        if kind == 'wavelet':  # the adjoint of the non-orthogonal families is the known finding of C01
            kind += ':biorthogonal' if case['cfg'].get('wavelet') in zoo_kernels.WAVELETS_BIORTHO else ':orthogonal'
        return {'signature': f'grad:{kind}:{sig}', 'what': f'{cfg}: {what}'}

    def close(a, b):
        a, b = a.to(torch.complex128), b.to(torch.complex128)
        return a.shape == b.shape and float((a - b).abs().max()) <= 50 * tol * max(1.0, float(b.abs().max()))

    st, y = call(lambda: op(x)[0])
    if st != 'ok':
        return Outcome(key=('grad-skip', cfg), nontrivial=False, branches=['unsupported-dtype'])
    c = rnd(list(y.shape), cc or y.is_complex() and cc, single, gen)
    # L = Re <c, y>  -> grad_y = c (PyTorch convention), grad_x must be A^H c (real part if x is real)
    L = (c.conj() * y).real.sum() if (c.is_complex() or y.is_complex()) else (c * y).sum()
    (gx,) = torch.autograd.grad(L, x, create_graph=True)
    cy = c.to(y.dtype) if not c.is_complex() or y.is_complex() else c
    st, want = call(lambda: op.adjoint(cy if y.is_complex() or not cy.is_complex() else cy)[0])
    if st == 'ok':
        want_x = want if x.is_complex() else want.real
        if not close(gx, want_x):
            viol = v('first-order', f'autograd gradient of Re<c, A x> w.r.t. x differs from A^H c (max dev {float((gx.to(torch.complex128) - want_x.to(torch.complex128)).abs().max()):.2e})')
    # second order: d/dc-path: gradient of <w, grad_x> w.r.t. the cotangent seeds A w
    if viol is None and st == 'ok':
        g_in = rnd(list(y.shape), y.is_complex(), single, gen).requires_grad_(True)
        x2 = rnd(dom, xc, single, gen).requires_grad_(True)
        y2 = op(x2)[0]
        (gx2,) = torch.autograd.grad(y2, x2, grad_outputs=g_in, create_graph=True)
        w = rnd(dom, gx2.is_complex(), single, gen)
        L2 = (w.conj() * gx2).real.sum() if gx2.is_complex() else (w * gx2).sum()
        st2, gg = call(lambda: torch.autograd.grad(L2, g_in)[0])
        if st2 != 'ok' and 'not implemented' not in str(gg) and 'does not require grad' not in str(gg):
            viol = v('second-order-raises', f'differentiating the backward pass raises {str(gg)[:200]}')
        if st2 == 'ok':
            wa = op(w.to(x2.dtype) if not w.is_complex() or x2.is_complex() else w)[0]
            wa = wa if g_in.is_complex() else wa.real
            if not close(gg, wa):
                viol = v('second-order', 'differentiating the backward pass does not give the forward operator (double backward)')
    # forward mode
    if viol is None:
        t = rnd(dom, xc, single, gen)
        st3, jv = call(lambda: torch.autograd.functional.jvp(lambda z: op(z)[0], x.detach(), t)[1])
        if st3 == 'ok':
            if not close(jv, op(t)[0]):
                viol = v('jvp', 'forward-mode derivative differs from A applied to the tangent')
        # true forward-mode AD (dual numbers; torch.autograd.functional.jvp above uses the double-backward trick): custom
        # autograd functions have their own jvp rule
        st4, jf = call(lambda: torch.func.jvp(lambda z: op(z)[0], (x.detach(),), (t,))[1])
        if st4 == 'ok' and viol is None and not close(jf, op(t)[0]):
            viol = v('jvp-forward-ad', f'forward-mode (dual number) derivative at a {"complex" if xc else "real"} input differs from A applied to the tangent')
    return Outcome(key=('grad', cfg), viol=viol, branches=[f'{case.get("cfg", {}).get("kind", case["kind"])}:{case["dtype_x"]}/{case.get("dtype_c")}'], sample={k: v for k, v in case.items() if k != 'cfg'} | {'op': name})


def run_fourier_cart(case, drv) -> Outcome:
    import mrpro
    from mrpro.data import KTrajectory, SpatialDimension

    rng = random.Random(case['seed'])
    ny, nx = rng.randint(2, 5), rng.randint(2, 5)
    ky = torch.tensor(rng.sample(range(-(ny // 2), ny - ny // 2), max(1, ny - 1)), dtype=torch.float64).reshape(1, 1, -1, 1)
    kx = torch.arange(-(nx // 2), nx - nx // 2, dtype=torch.float64).reshape(1, 1, 1, -1)
    traj = KTrajectory(torch.zeros(1, 1, 1, 1, dtype=torch.float64), ky, kx, repeat_detection_tolerance=None)
    op = mrpro.operators.FourierOp(SpatialDimension(1, ny, nx), SpatialDimension(1, ny, nx), traj)
    return run_grad({**case, 'dtype_c': 'complex', 'kind': 'fourier_cart'}, drv, op, [1, 2, 1, ny, nx], None, 1e-9, False, f'FourierOp(cartesian {ny}x{nx}, undersampled ky)')


def run_table(case, drv) -> Outcome:
    from mrpro.operators.SliceProjectionOp import _MatrixMultiplication

    rng = random.Random(case['seed'])
    xc, mc, gc = case['x_complex'], case['m_complex'], case['g_complex']
    viol = None
    corr = None
    for _ in range(4):
        m = complex(rng.randint(-4, 4), rng.randint(-4, 4) if mc else 0)      # entry of the adjoint matrix
        g = complex(rng.randint(-4, 4), rng.randint(-4, 4) if gc else 0)
        madj = torch.tensor([[m]], dtype=torch.complex128 if mc else torch.float64) if mc else torch.tensor([[m.real]], dtype=torch.float64)
        mat = madj.conj().T.contiguous()
        x = torch.tensor([1.0 + (0.5j if xc else 0)], dtype=torch.complex128 if xc else torch.float64).requires_grad_(True)
        y = _MatrixMultiplication.apply(x, mat, madj)
        # the cotangent dtype follows the output dtype; force the requested combination where possible
        gt = torch.tensor([g], dtype=torch.complex128) if y.is_complex() else torch.tensor([g.real], dtype=torch.float64)
        g_used = complex(gt[0])
        g_is_complex = y.is_complex()
        (gx,) = torch.autograd.grad(y, x, grad_outputs=gt)
        mm = drv.call({'op': 'matmul_backward', 'x_complex': xc, 'm_complex': mc, 'g_complex': g_is_complex, 'm': [frac_str(m.real), frac_str(m.imag)],
                       'g': [frac_str(g_used.real), frac_str(g_used.imag)]})
        want_m = complex(float(parse_scal(mm['out'][0])[0]), float(parse_scal(mm['out'][1])[0]))
        got = complex(gx[0])
        if abs(got - want_m) > 1e-12:
            corr = f'sparse backward case x_complex={xc} m_complex={mc} g_complex={g_is_complex}: impl {got} model {want_m} (m={m}, g={g_used})'
        prod = m * g_used
        want = prod if xc else complex(prod.real, 0)
        if abs(got - want) > 1e-12:
            viol = {'signature': f'table:{xc}:{mc}:{g_is_complex}', 'what': f'_MatrixMultiplication.backward with x_complex={xc}, matrix complex={mc}, cotangent complex={g_is_complex}: '
                    f'gradient {got}, expected {"" if xc else "Re "}(m^H g) = {want}'}
    return Outcome(key=('table', xc, mc, gc), corr=corr, viol=viol, branches=[f'table:{int(xc)}{int(mc)}{int(gc)}'], sample=case)


def run_gridgrad(case, drv) -> Outcome:
    import mrpro
    from mrpro.data import SpatialDimension

    rng = random.Random(case['seed'])
    dim = case['dim']
    ishape = [rng.randint(2, 3) for _ in range(dim)]
    oshape = [rng.randint(1, 2) for _ in range(dim)]
    lim = 1.4 if case.get('wide') else 0.8
    mode, padding, align = case.get('mode', 'bilinear'), case.get('padding', 'zeros'), case.get('align', False)
    grid = torch.tensor([rng.uniform(-lim, lim) for _ in range(math.prod(oshape) * dim)], dtype=torch.float64).reshape(1, *oshape, dim).requires_grad_(True)
    x = torch.randn(1, 1, *ishape, dtype=torch.float64, requires_grad=True)
    sd = SpatialDimension(*(([1] if dim == 2 else []) + ishape))

    def f(g, xx):
        return mrpro.operators.GridSamplingOp(g, sd, interpolation_mode=mode, padding_mode=padding, align_corners=align)(xx)[0]

    def fa(g, yy):
        return mrpro.operators.GridSamplingOp(g, sd, interpolation_mode=mode, padding_mode=padding, align_corners=align).adjoint(yy)[0]

    viol = None
    with warnings.catch_warnings():
        warnings.simplefilter('ignore')
        st, ok = call(lambda: torch.autograd.gradcheck(f, (grid, x), eps=1e-6, atol=1e-5, rtol=1e-4, raise_exception=False))
        y = torch.randn(1, 1, *oshape, dtype=torch.float64, requires_grad=True)
        st2, ok2 = call(lambda: torch.autograd.gradcheck(fa, (grid, y), eps=1e-6, atol=1e-5, rtol=1e-4, raise_exception=False))
    if st != 'ok' or not ok:
        viol = {'signature': 'gridgrad:forward', 'what': f'GridSamplingOp {dim}D {mode}/{padding}/align={align}: gradients w.r.t. grid / input fail the finite-difference check ({ok})'}
    elif st2 != 'ok' or not ok2:
        viol = {'signature': 'gridgrad:adjoint', 'what': f'GridSamplingOp {dim}D {mode}/{padding}/align={align} adjoint: gradients w.r.t. grid / input fail the finite-difference check ({ok2})'}
    return Outcome(key=('gridgrad', dim, mode, padding, align, case['seed'] % 97), viol=viol, branches=[f'gridgrad:{dim}D:{mode}:{padding}'], sample=case)


def run(case, drv) -> Outcome:
    return {'grad': run_grad, 'fourier_cart': run_fourier_cart, 'table': run_table, 'gridgrad': run_gridgrad}[case['kind']](case, drv)
