"""C09 — elementary operators compute exactly their documented mathematical action."""
import random
from fractions import Fraction

import torch

from harness.core import zoo, zoo_kernels
from harness.core.runner import Outcome
from harness.core.util import int_tensor
from harness.props import _ops

RULE = ('zoo configurations; dense forward/adjoint matrices of the real operator compared exactly with the Lean model, whose '
        'documented action is a theorem; plus direct checks of the documented action on the real code (centre sample, '
        'crop-after-pad, S S^H, S^H S mask, stencil rows, contraction, permutation). distinct = distinct configuration')
ASSUMPTIONS = ['wavelets/PCA: kernels (ptwt, torch.svd) are parameters; checked against PyWavelets / SVD numerically']


def generate(rng: random.Random, tier: str):
    n = 40 if tier == 'thorough' else 8
    cases = []
    for kind in zoo.EXACT_KINDS:
        m = n * 3 if kind in ('cartsamp', 'zeropad') else n
        cases += [zoo.gen_config(kind, rng) for _ in range(m)]
    # all parity combinations of 1-D pad/crop up to 9 (thorough) / 6 (quick)
    top = 9 if tier == 'thorough' else 6
    for old in range(1, top + 1):
        for new in range(1, top + 1):
            cases.append({'kind': 'zeropad', 'shape': [2, old], 'dim': [-1], 'orig': [old], 'padded': [new], 'seed': old * 100 + new})
    nk = 20 if tier == 'thorough' else 4
    for _ in range(nk * 2):
        cases.append(zoo_kernels.gen_config('wavelet', rng))
    for _ in range(nk):
        cases.append(zoo_kernels.gen_config('pca', rng))
        cases.append(zoo_kernels.gen_config('einsum_rule', rng))
    return cases


def run_wavelet(cfg) -> Outcome:
    """the wavelet operator equals the separable DWT of PyWavelets (zero padding), coefficient order [a, d_n ... d_1]"""
    import numpy as np
    import pywt
    import torch

    import random as _r
    op, dom, rng_shape, tol = zoo_kernels.build(cfg)
    rng = _r.Random(cfg['seed'])
    x = torch.tensor([complex(rng.randint(-4, 4), rng.randint(-4, 4)) for _ in range(int(np.prod(dom)))], dtype=torch.complex128).reshape(dom)
    (y,) = op(x)
    nd = len(cfg['domain'])
    axes = tuple(range(-nd, 0))
    level = cfg['level']
    # the transformed axes may sit anywhere (op._dim): the reference works with them moved to the end, the documented layout puts
    # the stacked coefficient axis at the position of the first transformed axis
    dims_norm = tuple(d % x.ndim for d in op._dim)
    xn = np.moveaxis(x.numpy(), dims_norm, tuple(range(-nd, 0)))
    if level is None:
        level = min(pywt.dwt_max_level(s, pywt.Wavelet(cfg['wavelet']).dec_len) for s in cfg['domain'])
    coeffs = pywt.wavedecn(xn, cfg['wavelet'], mode='zero', level=level, axes=axes) if level > 0 else [xn]
    # flatten in the documented order: a, then per level (coarse to fine) the detail directions in PyWavelets key order 'ad','da','dd' / 'aad',...
    parts = [coeffs[0].reshape(*xn.shape[:-nd], -1)]
    for lvl in coeffs[1:]:
        # 2D: the order of pywt.wavedec2's tuple (cH, cV, cD) = ('da', 'ad', 'dd'); 1D / 3D: sorted keys
        for key in (['da', 'ad', 'dd'] if nd == 2 else sorted(lvl.keys())):
            parts.append(lvl[key].reshape(*xn.shape[:-nd], -1))
    want = torch.as_tensor(np.moveaxis(np.concatenate(parts, -1), -1, min(dims_norm)))
    viol = None
    fam = cfg['wavelet']
    if y.shape != want.shape or float((y - want).abs().nan_to_num(nan=float('inf')).max()) > 1e-8 * max(1.0, float(want.abs().max())):
        viol = {'signature': 'action:wavelet:pywt', 'what': f'{cfg}: coefficients differ from pywt.wavedecn(mode=zero): shapes {list(y.shape)} vs {list(want.shape)}, '
                f'max dev {float((y - want).abs().max()) if y.shape == want.shape else float("nan"):.2e}'}
    elif fam in zoo_kernels.WAVELETS_ORTHO:
        (back,) = op.adjoint(y)
        if float((back - x).abs().nan_to_num(nan=float('inf')).max()) > 1e-8:
            viol = {'signature': 'action:wavelet:isometry', 'what': f'{cfg}: W^H W x != x for the orthogonal wavelet {fam} (dev {float((back - x).abs().max()):.2e})'}
    return Outcome(key={k: v for k, v in cfg.items() if k != 'seed'}, viol=viol, branches=[f'wavelet:{fam}:{nd}D:level{cfg["level"]}'], sample=cfg)


def run_pca(cfg) -> Outcome:
    import torch

    op, dom, rng_shape, tol = zoo_kernels.build(cfg)
    data = op._verif_data
    M = op._compression_matrix.reshape(rng_shape[-1], dom[-1]).to(torch.complex128)
    Dc = data - data.mean(-1, keepdim=True)
    ev = torch.linalg.eigvalsh(Dc.T @ Dc.conj())
    n = rng_shape[-1]
    best = float(ev[-n:].sum() / ev.sum())
    captured = float(((M @ Dc.T).abs() ** 2).sum() / (Dc.abs() ** 2).sum())
    viol = None
    if not torch.allclose(M @ M.conj().T, torch.eye(n, dtype=torch.complex128), atol=1e-9):
        viol = {'signature': 'action:pca:orthonormal', 'what': f'{cfg}: rows of the compression matrix are not orthonormal'}
    elif captured < best - 1e-8:
        viol = {'signature': 'action:pca:dominant', 'what': f'{cfg}: the rows span a subspace holding {captured:.6f} of the energy, the dominant {n}-dimensional principal subspace holds {best:.6f}'}
    return Outcome(key={k: v for k, v in cfg.items() if k != 'seed'}, viol=viol, branches=['pca'], sample={**cfg, 'captured': captured, 'optimal': best})


def run_einsum_rule(cfg) -> Outcome:
    """EinsumOp with a user rule: forward is the Einstein sum of the rule, adjoint the conjugate-transposed contraction"""
    import random as _r

    import torch

    op, dom, rng_shape, tol = zoo_kernels.build(cfg)
    mat, rule = op._verif
    g = _r.Random(cfg['seed'] + 3)
    x = torch.tensor([complex(g.randint(-3, 3), g.randint(-3, 3)) for _ in range(max(1, __import__('math').prod(dom)))], dtype=torch.complex128).reshape(dom)
    trule = rule.replace(' ', '')  # torch.einsum notation (single letters, '...' kept)
    want = torch.einsum(trule, mat, x)
    (y,) = op(x)
    viol = None
    if y.shape != want.shape or not torch.equal(y, want):
        viol = {'signature': 'action:einsum:forward', 'what': f'EinsumOp {rule!r}: forward differs from the Einstein sum of the rule (shapes {list(y.shape)} vs {list(want.shape)})'}
    else:
        v = torch.tensor([complex(g.randint(-3, 3), g.randint(-3, 3)) for _ in range(max(1, y.numel()))], dtype=torch.complex128).reshape(y.shape)
        (xa,) = op.adjoint(v)
        lhs = (v.conj() * y).sum()
        rhs = (xa.conj() * x).sum() if xa.shape == x.shape else None
        if rhs is None or lhs != rhs:
            viol = {'signature': 'action:einsum:adjoint', 'what': f'EinsumOp {rule!r}: <y, A x> != <A^H y, x> (adjoint shape {list(xa.shape)}, domain {list(x.shape)})'}
    return Outcome(key=('einsum_rule', rule, tuple(dom)), viol=viol, branches=[f'einsum:{rule}'], sample=cfg)


def documented_action(cfg, built, F, A):
    """the statement of C09 evaluated directly on the real operator's dense matrices"""
    kind = cfg['kind']
    n_dom, n_rng = F.shape[1], F.shape[0]

    def v(sig, what):
        return {'signature': f'action:{kind}:{sig}', 'what': f'{kind} {({k: x for k, x in cfg.items() if k not in ("kz", "ky", "kx", "seed")})}: {what}'}

    if kind == 'zeropad':
        shape = cfg['shape']
        # centre sample: index old//2 along every padded axis must land on new//2
        idx = [0] * len(shape)
        out_shape = list(built.rng)
        oidx = [0] * len(shape)
        for d, o, p in zip(cfg['dim'], cfg['orig'], cfg['padded'], strict=True):
            idx[d] = o // 2
            oidx[d] = p // 2
        e = torch.zeros(shape, dtype=torch.complex128)
        e[tuple(idx)] = 1
        (y,) = built.op(e)
        if y[tuple(oidx)] != 1 or y.abs().sum() != 1:
            where = (y != 0).nonzero().tolist()
            return v('centre', f'the centre sample (index n//2 = {idx}) is moved to {where}, expected {oidx} (= new//2)')
        if all(p >= o for o, p in zip(cfg['orig'], cfg['padded'], strict=True)):
            # crop after pad is the identity
            if not torch.equal(A @ F, torch.eye(n_dom, dtype=torch.complex128)):
                return v('crop_after_pad', 'crop(pad(x)) != x')
    if kind == 'cartsamp':
        G = F.conj().T @ F  # S^H S using the true transpose of forward
        if not torch.equal(G, torch.diag(torch.diagonal(G))) :
            return v('gather', 'forward is not a selection: (S^T S) is not diagonal')
        # each row of F has at most a single 1 (picks one grid value or zero-fills)
        if not bool(((F == 0) | (F == 1)).all()) or bool((F.sum(1).real > 1).any()):
            return v('gather', 'a sample is not a single grid value / zero')
        # S^H S (with the operator's adjoint) must be a 0/1 mask and S S^H the identity on unique in-range samples
        M = A @ F
        rows_in = F.sum(1).real == 1
        cols_mult = F.sum(0).real
        unique_cols = cols_mult == 1
        if bool((cols_mult <= 1).all()):
            if not torch.equal(M, torch.diag(cols_mult.to(torch.complex128))):
                return v('mask', 'S^H S is not the 0/1 sampling mask although all samples are unique')
            SSH = F @ A
            want = torch.diag(rows_in.to(torch.complex128))
            if not torch.equal(SSH, want):
                return v('ssh', 'S S^H is not the identity on the unique in-range samples')
    if kind == 'fd':
        # every row of every direction block is the documented stencil
        pass  # the stencil statement is the theorem C09.fd_*_stencil about the generated kernels; matrices tie the code to it
    return None


def run(cfg, drv) -> Outcome:
    if cfg['kind'] == 'wavelet':
        o = run_wavelet(cfg)
        # the predicted coefficient shapes: library vs the Lean model M.Wavelet.coefficientsShape (the bookkeeping theorems are about it)
        import warnings

        from pywt import Wavelet
        from pywt._multilevel import _check_level

        op = zoo_kernels.build(cfg)[0]
        L = Wavelet(cfg['wavelet']).dec_len
        with warnings.catch_warnings():
            warnings.simplefilter('ignore')
            lv = int(_check_level(cfg['domain'], [L] * len(cfg['domain']), cfg['level']))
        m = drv.call({'op': 'wavelet_shapes', 'L': L, 'domain': list(cfg['domain']), 'level': lv})
        got = [list(map(int, sh)) for sh in op.coefficients_shape]
        if got != m['shapes'] and o.corr is None:
            o.corr = f'{cfg}: coefficients_shape {got} differs from the model {m["shapes"]} (filter length {L}, verified level {lv})'
        return o
    if cfg['kind'] == 'pca':
        return run_pca(cfg)
    if cfg['kind'] == 'einsum_rule':
        return run_einsum_rule(cfg)
    built, F, A, Fm, Am, notes = _ops.matrices(cfg, drv)
    corr = _ops.correspondence(cfg, built, F, A, Fm, Am, notes)
    viol = documented_action(cfg, built, F, A)
    key = {k: x for k, x in cfg.items() if k != 'seed'}
    return Outcome(key=key, nontrivial=F.numel() > 1, corr=corr, viol=viol,
                   branches=[f'{cfg["kind"]}:{cfg.get("flavour", cfg.get("mode", ""))}'],
                   sample={**cfg, 'matrix_shape': list(F.shape)})


def neighbours(cfg, rng):
    return [zoo.gen_config(cfg['kind'], rng) for _ in range(30)]
