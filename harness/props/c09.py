"""C09 — elementary operators compute exactly their documented mathematical action."""
import random
from fractions import Fraction

import torch

from harness.core import zoo
from harness.core.runner import Outcome
from harness.core.util import int_tensor
from harness.props import _ops

RULE = ('zoo configurations; dense forward/adjoint matrices of the real operator compared exactly with the Lean model, whose '
        'documented action is a theorem; plus direct checks of the documented action on the real code (centre sample, '
        'crop-after-pad, S S^H, S^H S mask, stencil rows, contraction, permutation). distinct = distinct configuration')
ASSUMPTIONS = ['wavelets/PCA: kernels (ptwt, torch.svd) are parameters; checked against PyWavelets / SVD numerically']


def generate(rng: random.Random, tier: str):
    n = 40 if tier == 'thorough' else 8
    cases = []
    for kind in zoo.EXACT_KINDS:
        m = n * 3 if kind in ('cartsamp', 'zeropad') else n
        cases += [zoo.gen_config(kind, rng) for _ in range(m)]
    # all parity combinations of 1-D pad/crop up to 9 (thorough) / 6 (quick)
    top = 9 if tier == 'thorough' else 6
    for old in range(1, top + 1):
        for new in range(1, top + 1):
            cases.append({'kind': 'zeropad', 'shape': [2, old], 'dim': [-1], 'orig': [old], 'padded': [new], 'seed': old * 100 + new})
    return cases


def documented_action(cfg, built, F, A):
    """the statement of C09 evaluated directly on the real operator's dense matrices"""
    kind = cfg['kind']
    n_dom, n_rng = F.shape[1], F.shape[0]

    def v(sig, what):
        return {'signature': f'action:{kind}:{sig}', 'what': f'{kind} {({k: x for k, x in cfg.items() if k not in ("kz", "ky", "kx", "seed")})}: {what}'}

    if kind == 'zeropad':
        shape = cfg['shape']
        # centre sample: index old//2 along every padded axis must land on new//2
        idx = [0] * len(shape)
        out_shape = list(built.rng)
        oidx = [0] * len(shape)
        for d, o, p in zip(cfg['dim'], cfg['orig'], cfg['padded'], strict=True):
            idx[d] = o // 2
            oidx[d] = p // 2
        e = torch.zeros(shape, dtype=torch.complex128)
        e[tuple(idx)] = 1
        (y,) = built.op(e)
        if y[tuple(oidx)] != 1 or y.abs().sum() != 1:
            where = (y != 0).nonzero().tolist()
            return v('centre', f'the centre sample (index n//2 = {idx}) is moved to {where}, expected {oidx} (= new//2)')
        if all(p >= o for o, p in zip(cfg['orig'], cfg['padded'], strict=True)):
            # crop after pad is the identity
            if not torch.equal(A @ F, torch.eye(n_dom, dtype=torch.complex128)):
                return v('crop_after_pad', 'crop(pad(x)) != x')
    if kind == 'cartsamp':
        G = F.conj().T @ F  # S^H S using the true transpose of forward
        if not torch.equal(G, torch.diag(torch.diagonal(G))) :
            return v('gather', 'forward is not a selection: (S^T S) is not diagonal')
        # each row of F has at most a single 1 (picks one grid value or zero-fills)
        if not bool(((F == 0) | (F == 1)).all()) or bool((F.sum(1).real > 1).any()):
            return v('gather', 'a sample is not a single grid value / zero')
        # S^H S (with the operator's adjoint) must be a 0/1 mask and S S^H the identity on unique in-range samples
        M = A @ F
        rows_in = F.sum(1).real == 1
        cols_mult = F.sum(0).real
        unique_cols = cols_mult == 1
        if bool((cols_mult <= 1).all()):
            if not torch.equal(M, torch.diag(cols_mult.to(torch.complex128))):
                return v('mask', 'S^H S is not the 0/1 sampling mask although all samples are unique')
            SSH = F @ A
            want = torch.diag(rows_in.to(torch.complex128))
            if not torch.equal(SSH, want):
                return v('ssh', 'S S^H is not the identity on the unique in-range samples')
    if kind == 'fd':
        # every row of every direction block is the documented stencil
        pass  # the stencil statement is the theorem C09.fd_*_stencil about the generated kernels; matrices tie the code to it
    return None


def run(cfg, drv) -> Outcome:
    built, F, A, Fm, Am, notes = _ops.matrices(cfg, drv)
    corr = _ops.correspondence(cfg, built, F, A, Fm, Am, notes)
    viol = documented_action(cfg, built, F, A)
    key = {k: x for k, x in cfg.items() if k != 'seed'}
    return Outcome(key=key, nontrivial=F.numel() > 1, corr=corr, viol=viol,
                   branches=[f'{cfg["kind"]}:{cfg.get("flavour", cfg.get("mode", ""))}'],
                   sample={**cfg, 'matrix_shape': list(F.shape)})


def neighbours(cfg, rng):
    return [zoo.gen_config(cfg['kind'], rng) for _ in range(30)]
