"""C01 — adjoint identity <A u, v> = <u, A^H v> for every operator, configuration, u, v."""
import random

from harness.core import zoo, zoo_kernels
from harness.core.runner import Outcome
from harness.props import _ops

RULE = ('operator configurations drawn per kind from the zoo generators (shapes, dims encodings, parities, trajectories with '
        'duplicates / out-of-range / permuted / non-grid / per-other samples); both code paths materialised as dense matrices '
        'from basis vectors (decides all u, v of the configuration). distinct = distinct configuration; non-trivial = matrix '
        'with more than one entry')
ASSUMPTIONS = ['torch kernels (F.pad, conv1d, take_along_dim/scatter, einsum, einops) compute what the model states; this is what '
               'the exact matrix comparison checks per configuration']


def generate(rng: random.Random, tier: str):
    n = 40 if tier == 'thorough' else 8
    cases = []
    for kind in zoo.EXACT_KINDS:
        m = n * 3 if kind in ('cartsamp', 'zeropad') else n
        for _ in range(m):
            cases.append(zoo.gen_config(kind, rng))
    nk = 12 if tier == 'thorough' else 3
    for kind in zoo_kernels.KERNEL_KINDS:
        cases += zoo_kernels.gen_configs(kind, rng, nk * (3 if kind == 'wavelet' else 1))
    # operators *derived* from elementary ones (sum, composition, scaling, .H, stacking), with leaves whose adjoint may hand back its argument
    for _ in range(200 if tier == 'thorough' else 40):
        cases.append({'kind': 'derived', 'form': rng.choice(DERIVED_FORMS), 'n': rng.randint(2, 4), 'complex': rng.random() < 0.6,
                      'mixed_v': False, 'seed': rng.randrange(1 << 30)})
    if tier == 'thorough':
        for fam in zoo_kernels.WAVELETS_ORTHO + zoo_kernels.WAVELETS_BIORTHO:
            for level in (1, 2):
                cases.append({'kind': 'wavelet', 'wavelet': fam, 'domain': [8, 8], 'level': level, 'batch': 0, 'seed': level})
    return cases


def run_kernel(cfg, drv) -> Outcome:
    """operators around third-party kernels: the hypothesis 'the kernel pair is adjoint' of the wrapper theorems is evaluated on
    the real operator by dense matrices (decides all u, v of this configuration)"""
    import torch

    op, dom, rng_shape, tol = zoo_kernels.build(cfg)
    single = cfg['kind'] == 'sliceproj'  # the sparse projection matrix is float32
    import math

    F = zoo_kernels.dense(op.forward, dom, single=single)
    n_rng = math.prod(rng_shape)
    if n_rng <= 400:
        A = zoo_kernels.dense(op.adjoint, rng_shape, single=single)
    else:
        # large range (long wavelet filters): all u, but only a sample of v (8 random vectors and 8 basis vectors), completed to a matrix
        g = torch.Generator().manual_seed(cfg['seed'])
        V = torch.randn(n_rng, 16, dtype=torch.float64, generator=g).to(F.dtype)
        V[:, 8:] = 0
        for c, r in enumerate(torch.randint(0, n_rng, (8,), generator=g).tolist()):
            V[r, 8 + c] = 1
        AV = torch.stack([op.adjoint(V[:, c].reshape(rng_shape))[0].reshape(-1).to(F.dtype) for c in range(16)], 1)
        want = F.conj().T @ V
        scale = max(1.0, float(F.abs().max()))
        dev = float((want - AV).abs().max()) / scale
        viol = None
        if not (dev <= tol * 10):
            fam = cfg.get('wavelet', '')
            sub = ('biorthogonal' if fam in zoo_kernels.WAVELETS_BIORTHO else 'orthogonal') if cfg['kind'] == 'wavelet' else ''
            viol = {'signature': f'adjoint:{cfg["kind"]}:{sub}', 'what': f'{cfg}: adjoint(v) differs from forward^H v for a sampled v by {dev * scale:.3e}'}
        return Outcome(key={k: v for k, v in cfg.items() if k != 'seed'}, viol=viol, branches=[f'kernel:{cfg["kind"]}:{cfg.get("wavelet", "")}:sampled-v'],
                       sample={**cfg, 'matrix_shape': list(F.shape), 'adjoint_deviation': dev, 'sampled_v': 16})
    scale = max(1.0, float(F.abs().max()))
    dev = float((F.conj().T - A).abs().max()) / scale
    viol = None
    if not (dev <= tol):
        i, j = ((F.conj().T - A).abs() == (F.conj().T - A).abs().max()).nonzero()[0].tolist()
        fam = cfg.get('wavelet', '')
        sub = ('biorthogonal' if fam in zoo_kernels.WAVELETS_BIORTHO else 'orthogonal') if cfg['kind'] == 'wavelet' else ''
        viol = {'signature': f'adjoint:{cfg["kind"]}:{sub}',
                'what': f'{cfg}: adjoint() is not the adjoint of forward(): max |<A e_j, e_i> - <e_j, A^H e_i>| = {dev * scale:.3e} at u = e_{i}, v = e_{j} (tolerance {tol})'}
    return Outcome(key={k: v for k, v in cfg.items() if k != 'seed'}, viol=viol, branches=[f'kernel:{cfg["kind"]}:{cfg.get("wavelet", cfg.get("mode", ""))}'],
                   sample={**cfg, 'matrix_shape': list(F.shape), 'adjoint_deviation': dev})


DERIVED_FORMS = ['id+B', 'id+B+C', 'B+id+C', 'B+C', '(id+B).H', 'id@B+C', 's*(id+B)', 'zeropad0+B', '(B+C)@(id+B)', 'rearr+B', 't*id+B', 'stack']


def run_derived(cfg, drv) -> Outcome:
    """<A u, v> = <u, A^H v> for derived operators: dense matrices of forward and adjoint from fresh basis vectors, and one pair (u, v)
    whose v is *reused* after the adjoint call (the identity is about the v the caller holds)"""
    import torch
    from mrpro.operators import EinsumOp, IdentityOp, LinearOperatorMatrix, ZeroPadOp
    from mrpro.operators.RearrangeOp import RearrangeOp

    rng = random.Random(cfg['seed'])
    n = cfg['n']
    cd = torch.complex128 if cfg['complex'] else torch.float64

    def mat():
        m = torch.tensor([[rng.randint(-3, 3) for _ in range(n)] for _ in range(n)], dtype=torch.float64)
        if cfg['complex']:
            m = torch.complex(m, torch.tensor([[float(rng.randint(-3, 3)) for _ in range(n)] for _ in range(n)], dtype=torch.float64))
        return m

    B, C, Id = EinsumOp(mat()), EinsumOp(mat()), IdentityOp()
    form = cfg['form']
    if form == 'stack':
        Mx = LinearOperatorMatrix([[Id + B, C], [B, Id]])
        fwd = lambda x: torch.cat(Mx(x[:n], x[n:]))  # noqa: E731
        adj = lambda y: torch.cat(Mx.adjoint(y[:n], y[n:]))  # noqa: E731
        dim_in = dim_out = 2 * n
    else:
        A = {'id+B': lambda: Id + B, 'id+B+C': lambda: Id + B + C, 'B+id+C': lambda: B + Id + C, 'B+C': lambda: B + C, '(id+B).H': lambda: (Id + B).H,
             'id@B+C': lambda: Id @ B + C, 's*(id+B)': lambda: (2 - 1j if cfg['complex'] else 2.0) * (Id + B),
             'zeropad0+B': lambda: ZeroPadOp(dim=(-1,), original_shape=(n,), padded_shape=(n,)) + B, '(B+C)@(id+B)': lambda: (B + C) @ (Id + B),
             'rearr+B': lambda: RearrangeOp('n -> n') + B, 't*id+B': lambda: torch.arange(1, n + 1).to(cd) * Id + B}[form]()
        fwd = lambda x: A(x)[0]  # noqa: E731
        adj = lambda y: A.adjoint(y)[0]  # noqa: E731
        dim_in = dim_out = n
    eye_in, eye_out = torch.eye(dim_in, dtype=cd), torch.eye(dim_out, dtype=cd)
    F = torch.stack([fwd(eye_in[:, j].clone()).to(cd) for j in range(dim_in)], 1)
    AH = torch.stack([adj(eye_out[:, j].clone()).to(cd) for j in range(dim_out)], 1)
    viol = None
    dev = float((F.conj().T - AH).abs().max())
    name = f'derived operator {form} (n={n}, {"complex" if cfg["complex"] else "real"}, seed {cfg["seed"]})'
    if not dev <= 1e-9:
        viol = {'signature': f'adjoint:derived:{form}', 'what': f'{name}: adjoint() is not the adjoint of forward(): max deviation of the matrices {dev:.3e}'}
    u = torch.tensor([complex(rng.randint(-4, 4), rng.randint(-4, 4) if cfg['complex'] else 0) for _ in range(dim_in)]).to(cd)
    v = torch.tensor([complex(rng.randint(-4, 4), rng.randint(-4, 4) if cfg['complex'] and not cfg['mixed_v'] else 0) for _ in range(dim_out)])
    v = v.to(cd) if not cfg['mixed_v'] else v.real.to(torch.float64)
    v_before = v.clone()
    ahv = adj(v)
    lhs = torch.vdot(fwd(u).to(torch.complex128), v.to(torch.complex128))  # v as the caller holds it after the adjoint call
    rhs = torch.vdot(u.to(torch.complex128), ahv.to(torch.complex128))
    want = torch.vdot((F @ u).to(torch.complex128), v_before.to(torch.complex128))
    if viol is None and (abs(complex(lhs - rhs)) > 1e-9 * (1 + abs(complex(want))) or abs(complex(rhs - want)) > 1e-9 * (1 + abs(complex(want)))):
        viol = {'signature': f'adjoint:derived:{form}',
                'what': f'{name}: <A u, v> = {complex(lhs):.6g} and <u, A^H v> = {complex(rhs):.6g} for the v the caller holds (with the matrix of A and v before the call: '
                        f'{complex(want):.6g}); v changed by the adjoint call: {not torch.equal(v, v_before)}'}
    return Outcome(key=('derived', form, n, cfg['complex'], cfg['mixed_v']), viol=viol, branches=[f'derived:{form}'], sample=cfg)


def real_data_oracle(cfg, built, F, A):
    """the identity holds 'for real and complex data': a real-valued u or v handed to forward / adjoint (where the operator accepts one) gives
    what the matrix gives - in particular A^H conjugates the operator's own complex coefficients whatever the dtype of v is"""
    import torch
    from harness.core.util import int_tensor

    rng = random.Random(cfg.get('seed', 0) + 17)
    for which, fn, shape, mat in (('adjoint', built.op.adjoint, built.rng, A), ('forward', built.op.forward, built.dom, F)):
        x = int_tensor(rng, shape, complex_=False, lo=-5, hi=5).real.to(torch.float64)
        try:
            got = fn(x)[0]
        except (RuntimeError, TypeError, ValueError):
            continue  # the operator refuses real data (dtype check of the kernel): nothing promised
        want = mat @ x.reshape(-1).to(mat.dtype)
        if got.numel() != want.numel() or not bool(((got.reshape(-1).to(torch.complex128) - want.to(torch.complex128)).abs() <= 1e-9 * (1 + want.abs())).all()):
            return {'signature': f'adjoint:{cfg["kind"]}:real-data',
                    'what': f'{cfg["kind"]} {({k: v for k, v in cfg.items() if k not in ("kz", "ky", "kx")})}: {which}() of a real-valued (float64) tensor differs from the '
                            f'operator\'s matrix applied to it, so <A u, v> != <u, A^H v> for real data'}
    return None


def run(cfg, drv) -> Outcome:
    if cfg['kind'] == 'derived':
        return run_derived(cfg, drv)
    if cfg['kind'] in zoo_kernels.KERNEL_KINDS:
        return run_kernel(cfg, drv)
    built, F, A, Fm, Am, notes = _ops.matrices(cfg, drv)
    corr = _ops.correspondence(cfg, built, F, A, Fm, Am, notes)
    viol = _ops.adjoint_oracle(cfg, built, F, A)
    if viol is None:
        viol = real_data_oracle(cfg, built, F, A)
    key = {k: v for k, v in cfg.items() if k != 'seed'}
    return Outcome(key=key, nontrivial=F.numel() > 1, corr=corr, viol=viol,
                   branches=[f'{cfg["kind"]}:{cfg.get("flavour", cfg.get("mode", ""))}'],
                   sample={**{k: v for k, v in cfg.items()}, 'matrix_shape': list(F.shape)})


def neighbours(cfg, rng):
    if cfg['kind'] == 'derived':
        return []
    return [zoo.gen_config(cfg['kind'], rng) for _ in range(30)]
