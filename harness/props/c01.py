"""C01 — adjoint identity <A u, v> = <u, A^H v> for every operator, configuration, u, v."""
import random

from harness.core import zoo, zoo_kernels
from harness.core.runner import Outcome
from harness.props import _ops

RULE = ('operator configurations drawn per kind from the zoo generators (shapes, dims encodings, parities, trajectories with '
        'duplicates / out-of-range / permuted / non-grid / per-other samples); both code paths materialised as dense matrices '
        'from basis vectors (decides all u, v of the configuration). distinct = distinct configuration; non-trivial = matrix '
        'with more than one entry')
ASSUMPTIONS = ['torch kernels (F.pad, conv1d, take_along_dim/scatter, einsum, einops) compute what the model states; this is what '
               'the exact matrix comparison checks per configuration']


def generate(rng: random.Random, tier: str):
    n = 40 if tier == 'thorough' else 8
    cases = []
    for kind in zoo.EXACT_KINDS:
        m = n * 3 if kind in ('cartsamp', 'zeropad') else n
        for _ in range(m):
            cases.append(zoo.gen_config(kind, rng))
    nk = 12 if tier == 'thorough' else 3
    for kind in zoo_kernels.KERNEL_KINDS:
        cases += zoo_kernels.gen_configs(kind, rng, nk * (3 if kind == 'wavelet' else 1))
    if tier == 'thorough':
        for fam in zoo_kernels.WAVELETS_ORTHO + zoo_kernels.WAVELETS_BIORTHO:
            for level in (1, 2):
                cases.append({'kind': 'wavelet', 'wavelet': fam, 'domain': [8, 8], 'level': level, 'batch': 0, 'seed': level})
    return cases


def run_kernel(cfg, drv) -> Outcome:
    """operators around third-party kernels: the hypothesis 'the kernel pair is adjoint' of the wrapper theorems is evaluated on
    the real operator by dense matrices (decides all u, v of this configuration)"""
    import torch

    op, dom, rng_shape, tol = zoo_kernels.build(cfg)
    single = cfg['kind'] == 'sliceproj'  # the sparse projection matrix is float32
    import math

    F = zoo_kernels.dense(op.forward, dom, single=single)
    n_rng = math.prod(rng_shape)
    if n_rng <= 400:
        A = zoo_kernels.dense(op.adjoint, rng_shape, single=single)
    else:
        # large range (long wavelet filters): all u, but only a sample of v (8 random vectors and 8 basis vectors), completed to a matrix
        g = torch.Generator().manual_seed(cfg['seed'])
        V = torch.randn(n_rng, 16, dtype=torch.float64, generator=g).to(F.dtype)
        V[:, 8:] = 0
        for c, r in enumerate(torch.randint(0, n_rng, (8,), generator=g).tolist()):
            V[r, 8 + c] = 1
        AV = torch.stack([op.adjoint(V[:, c].reshape(rng_shape))[0].reshape(-1).to(F.dtype) for c in range(16)], 1)
        want = F.conj().T @ V
        scale = max(1.0, float(F.abs().max()))
        dev = float((want - AV).abs().max()) / scale
        viol = None
        if not (dev <= tol * 10):
            fam = cfg.get('wavelet', '')
            sub = ('biorthogonal' if fam in zoo_kernels.WAVELETS_BIORTHO else 'orthogonal') if cfg['kind'] == 'wavelet' else ''
            viol = {'signature': f'adjoint:{cfg["kind"]}:{sub}', 'what': f'{cfg}: adjoint(v) differs from forward^H v for a sampled v by {dev * scale:.3e}'}
        return Outcome(key={k: v for k, v in cfg.items() if k != 'seed'}, viol=viol, branches=[f'kernel:{cfg["kind"]}:{cfg.get("wavelet", "")}:sampled-v'],
                       sample={**cfg, 'matrix_shape': list(F.shape), 'adjoint_deviation': dev, 'sampled_v': 16})
    scale = max(1.0, float(F.abs().max()))
    dev = float((F.conj().T - A).abs().max()) / scale
    viol = None
    if not (dev <= tol):
        i, j = ((F.conj().T - A).abs() == (F.conj().T - A).abs().max()).nonzero()[0].tolist()
        fam = cfg.get('wavelet', '')
        sub = ('biorthogonal' if fam in zoo_kernels.WAVELETS_BIORTHO else 'orthogonal') if cfg['kind'] == 'wavelet' else ''
        viol = {'signature': f'adjoint:{cfg["kind"]}:{sub}',
                'what': f'{cfg}: adjoint() is not the adjoint of forward(): max |<A e_j, e_i> - <e_j, A^H e_i>| = {dev * scale:.3e} at u = e_{i}, v = e_{j} (tolerance {tol})'}
    return Outcome(key={k: v for k, v in cfg.items() if k != 'seed'}, viol=viol, branches=[f'kernel:{cfg["kind"]}:{cfg.get("wavelet", cfg.get("mode", ""))}'],
                   sample={**cfg, 'matrix_shape': list(F.shape), 'adjoint_deviation': dev})


def run(cfg, drv) -> Outcome:
    if cfg['kind'] in zoo_kernels.KERNEL_KINDS:
        return run_kernel(cfg, drv)
    built, F, A, Fm, Am, notes = _ops.matrices(cfg, drv)
    corr = _ops.correspondence(cfg, built, F, A, Fm, Am, notes)
    viol = _ops.adjoint_oracle(cfg, built, F, A)
    key = {k: v for k, v in cfg.items() if k != 'seed'}
    return Outcome(key=key, nontrivial=F.numel() > 1, corr=corr, viol=viol,
                   branches=[f'{cfg["kind"]}:{cfg.get("flavour", cfg.get("mode", ""))}'],
                   sample={**{k: v for k, v in cfg.items()}, 'matrix_shape': list(F.shape)})


def neighbours(cfg, rng):
    return [zoo.gen_config(cfg['kind'], rng) for _ in range(30)]
