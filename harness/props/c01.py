"""C01 — adjoint identity <A u, v> = <u, A^H v> for every operator, configuration, u, v."""
import random

from harness.core import zoo
from harness.core.runner import Outcome
from harness.props import _ops

RULE = ('operator configurations drawn per kind from the zoo generators (shapes, dims encodings, parities, trajectories with '
        'duplicates / out-of-range / permuted / non-grid / per-other samples); both code paths materialised as dense matrices '
        'from basis vectors (decides all u, v of the configuration). distinct = distinct configuration; non-trivial = matrix '
        'with more than one entry')
ASSUMPTIONS = ['torch kernels (F.pad, conv1d, take_along_dim/scatter, einsum, einops) compute what the model states; this is what '
               'the exact matrix comparison checks per configuration']


def generate(rng: random.Random, tier: str):
    n = 40 if tier == 'thorough' else 8
    cases = []
    for kind in zoo.EXACT_KINDS:
        m = n * 3 if kind in ('cartsamp', 'zeropad') else n
        for _ in range(m):
            cases.append(zoo.gen_config(kind, rng))
    return cases


def run(cfg, drv) -> Outcome:
    built, F, A, Fm, Am, notes = _ops.matrices(cfg, drv)
    corr = _ops.correspondence(cfg, built, F, A, Fm, Am, notes)
    viol = _ops.adjoint_oracle(cfg, built, F, A)
    key = {k: v for k, v in cfg.items() if k != 'seed'}
    return Outcome(key=key, nontrivial=F.numel() > 1, corr=corr, viol=viol,
                   branches=[f'{cfg["kind"]}:{cfg.get("flavour", cfg.get("mode", ""))}'],
                   sample={**{k: v for k, v in cfg.items()}, 'matrix_shape': list(F.shape)})


def neighbours(cfg, rng):
    return [zoo.gen_config(cfg['kind'], rng) for _ in range(30)]
