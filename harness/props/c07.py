"""C07 — reconstructions equal their defining linear-algebra problems."""
import itertools
import math
import random
import warnings

import numpy as np
import torch

from harness.core import mrd
from harness.core.conv import frac_str, parse_scal
from harness.core.runner import Outcome
from harness.core.util import call

RULE = ('synthetic acquisitions written as ISMRMRD files and loaded with the real loader: Cartesian full / undersampled, radial (non-Cartesian), '
        '2-3 coils, with/without sensitivity maps, density compensation, noise scan; regularisation weight 0 / 0.1 / 2, regularisation data 0 / image, '
        'B = identity / diagonal; iteration counts 1..n. DirectReconstruction, IterativeSENSE and RegularizedIterativeSENSE compared with dense '
        'linear algebra (dense A from the real Fourier and sensitivity operators, dense CG in float64, dense least squares) and, on the small systems, '
        'with the exact rational run of the Lean CG model; prewhitening of the noise scan; linearity / homogeneity in the data. '
        'distinct = distinct acquisition model and solver configuration')
ASSUMPTIONS = ['complex64 data: agreement 2e-3 relative', 'torch.linalg.cholesky / solve_triangular numerics are parameters (checked by the unit-covariance test)']
TOL = 2e-3


def generate(rng: random.Random, tier: str):
    thorough = tier == 'thorough'
    cases = []
    for _ in range(120 if thorough else 24):
        cases.append({'kind': 'recon', 'traj': rng.choice(['cart_full', 'cart_full', 'cart_under', 'radial']), 'n': rng.choice([4, 4, 6]), 'coils': rng.choice([1, 2, 3]),
                      'scale': rng.choice([1.0, 1.0, 1e-3, 1e-6]), 'csm': rng.random() < 0.7, 'dcf': rng.random() < 0.5, 'noise': rng.random() < 0.4, 'lam': rng.choice([0.0, 0.0, 0.1, 2.0]),
                      'reg_data': rng.choice(['zero', 'image']), 'reg_op': rng.choice(['identity', 'diag']), 'iters': rng.choice([1, 2, 3, 5]),
                      'csm_callable': rng.random() < 0.3, 'seed': rng.randrange(1 << 30)})
    # 3-D Cartesian data (k2 > 1, different from k1) with a noise scan, and spatially varying regularisation weights with zeros
    for i in range(24 if thorough else 6):
        cases.append({'kind': 'recon', 'traj': 'cart_full', 'n': 4, 'nz': rng.choice([2, 3]) if i % 2 == 0 else 1, 'coils': rng.choice([2, 3]), 'csm': rng.random() < 0.7,
                      'dcf': False, 'noise': i % 2 == 0 or rng.random() < 0.4, 'lam': 'map' if i % 2 == 1 else rng.choice([0.0, 0.1]),
                      'reg_data': rng.choice(['zero', 'image']), 'reg_op': rng.choice(['identity', 'diag']), 'iters': rng.choice([1, 2, 3]), 'seed': rng.randrange(1 << 30)})
    return cases


def make(case, rng):
    from mrpro.data import CsmData, DcfData, KData, KNoise, QHeader
    from mrpro.data.traj_calculators import KTrajectoryCartesian, KTrajectoryRadial2D

    n, coils, nz = case['n'], case['coils'], case.get('nz', 1)
    if case['traj'] == 'radial':
        lines = list(range(2 * n))
        calc = KTrajectoryRadial2D(angle=math.pi / (2 * n))
    elif case['traj'] == 'cart_under':
        lines = sorted(rng.sample(range(n), max(2, n - 2)))
        calc = KTrajectoryCartesian()
    else:
        lines = list(range(n))
        calc = KTrajectoryCartesian()
    acqs = [{'labels': {'k1': k1, 'k2': k2}, 'id': i + 1 + k2 * len(lines), 'flags': 0} for k2 in range(nz) for i, k1 in enumerate(lines)]
    rng.shuffle(acqs)
    fn = mrd.write_file(acqs, n_k0=n, n_coils=coils, enc_matrix=(n, n, nz), limits={'k1': (0, n - 1, n // 2), 'k2': (0, nz - 1, nz // 2)})
    kd = KData.from_file(fn, calc)
    g = torch.Generator().manual_seed(case['seed'])
    img = torch.randn(1, 1, nz, n, n, dtype=torch.complex64, generator=g)
    csm_t = torch.randn(1, coils, nz, n, n, dtype=torch.complex64, generator=g) * 0.5 + 1.0
    return kd, img, csm_t, g


def dense_matrix(op, dom_shape):
    n = math.prod(dom_shape)
    cols = []
    for e in torch.eye(n, dtype=torch.complex64).reshape(n, *dom_shape):
        cols.append(op(e)[0].reshape(-1).to(torch.complex128))
    return torch.stack(cols, 1)


def dense_cg(H, b, x0, iters):
    x = x0.clone()
    r = b - H @ x
    p = r.clone()
    rr_old = None
    for _ in range(iters):
        rr = torch.vdot(r, r).real
        if rr == 0:
            break
        if rr_old is not None:
            p = r + (rr / rr_old) * p
        Hp = H @ p
        alpha = rr / torch.vdot(p, Hp)
        x = x + alpha * p
        r = r - alpha * Hp
        rr_old = rr
    return x


def run(case, drv) -> Outcome:
    import mrpro
    from mrpro.algorithms.reconstruction import DirectReconstruction, IterativeSENSEReconstruction, RegularizedIterativeSENSEReconstruction
    from mrpro.data import CsmData, DcfData, KNoise, QHeader

    warnings.filterwarnings('ignore')
    rng = random.Random(case['seed'])
    kd, img, csm_t, g = make(case, rng)
    n, coils, nz = case['n'], case['coils'], case.get('nz', 1)
    cfg = ' '.join(f'{k}={v}' for k, v in case.items() if k not in ('kind', 'seed'))
    viol = None
    corr = None

    def v(sig, what):
        return {'signature': f'recon:{sig}', 'what': f'{cfg}: {what}'}

    F = mrpro.operators.FourierOp.from_kdata(kd)
    csm = CsmData(csm_t, QHeader.from_kheader(kd.header)) if case['csm'] else None
    S = csm.as_operator() if csm is not None else None
    dcf = DcfData.from_traj_voronoi(kd.traj) if case['dcf'] else None
    # consistent data: y = F S x
    x_true = img if case['csm'] else img.expand(1, coils, nz, n, n).clone()
    # raw scanner units can be tiny or huge: the data scale is part of the configuration (the reconstructions are homogeneous in the data)
    y = case.get('scale', 1.0) * F(S(img)[0] if S is not None else x_true)[0]
    object.__setattr__(kd, 'data', y.to(torch.complex64))
    noise = None
    if case['noise']:
        mix = torch.randn(coils, coils, dtype=torch.complex64, generator=g)
        noise = KNoise((mix @ torch.randn(coils, 256, dtype=torch.complex64, generator=g)).reshape(1, coils, 1, 1, 256))
    dom = (1, 1, nz, n, n) if case['csm'] else (1, coils, nz, n, n)
    A_op = (F @ S) if S is not None else F
    A = dense_matrix(A_op, dom)
    W = torch.diag(dcf.data.expand(1, *kd.data.shape[2:]).reshape(-1).repeat(coils).to(torch.complex128)) if dcf is not None else torch.eye(A.shape[0], dtype=torch.complex128)
    # prewhitening is applied to the data first
    yw = kd.data
    if noise is not None:
        kd_w = mrpro.algorithms.prewhiten_kspace(kd, noise)
        yw = kd_w.data
        # the noise scan itself must get unit coil covariance
        from mrpro.data import KData

        nd = noise.data
        fake = type('X', (), {})()
        L = torch.linalg.cholesky((nd.reshape(coils, -1) @ nd.reshape(coils, -1).conj().T) / nd.reshape(coils, -1).shape[1])
        wn = torch.linalg.solve_triangular(L, nd.reshape(coils, -1), upper=False)
        cov = (wn @ wn.conj().T) / wn.shape[1]
        if float((cov - torch.eye(coils)).abs().nan_to_num(nan=float('inf')).max()) > 1e-3:
            viol = viol or v('prewhiten-cov', 'whitened noise does not have unit covariance (reference computation)')
        # the library's prewhitening of the *data* must equal L^-1 applied along the coil axis
        want = torch.linalg.solve_triangular(L, kd.data.movedim(1, -1).reshape(-1, coils, 1), upper=False).reshape(*kd.data.movedim(1, -1).shape).movedim(-1, 1)
        if float((yw - want).abs().nan_to_num(nan=float('inf')).max()) > TOL * float(want.abs().max()):
            viol = viol or v('prewhiten', 'prewhiten_kspace(kdata, noise) is not L^-1 (noise Cholesky factor) applied to the coil axis')
    yv = yw.reshape(-1).to(torch.complex128)

    def rel(a, b):
        return float((a.reshape(-1).to(torch.complex128) - b.reshape(-1)).abs().nan_to_num(nan=float('inf')).max()) / max(1e-12, float(b.abs().max()))

    # ---- sensitivity maps configured as a callable: every reconstruction class computes them from the coil images F^H W y
    # (prewhitened) of the data it is given at construction, and then behaves as if configured with the maps themselves
    if case.get('csm_callable') and csm is not None:
        seen = []

        def calc(idata, csm=csm):
            seen.append(idata.data.detach().clone())
            return csm

        Fd = dense_matrix(F, (1, coils, nz, n, n))
        Wd = W if dcf is not None else torch.diag(DcfData.from_traj_voronoi(kd.traj).data.expand(1, *kd.data.shape[2:]).reshape(-1).repeat(coils).to(torch.complex128))
        want_coil = Fd.conj().T @ (Wd @ yv)
        for name, mk in (('DirectReconstruction', lambda: DirectReconstruction(kd, fourier_op=F, csm=calc, noise=noise, dcf=dcf)),
                         ('IterativeSENSEReconstruction', lambda: IterativeSENSEReconstruction(kd, fourier_op=F, csm=calc, noise=noise, dcf=dcf, n_iterations=case['iters'])),
                         ('RegularizedIterativeSENSEReconstruction', lambda: RegularizedIterativeSENSEReconstruction(
                             kd, fourier_op=F, csm=calc, noise=noise, dcf=dcf, n_iterations=case['iters'], regularization_weight=0.1))):
            seen.clear()
            stc, rc = call(mk)
            if stc != 'ok':
                viol = viol or v(f'csm-callable-raises:{name}', f'{name}(kdata, csm=<callable>) raises {rc}')
            elif rc.csm is not csm or len(seen) != 1:
                viol = viol or v(f'csm-callable:{name}', f'{name}(kdata, csm=<callable>) does not use the maps returned by the callable')
            elif rel(seen[0], want_coil) > TOL:
                viol = viol or v(f'csm-callable-image:{name}', f'{name}: the coil images handed to the csm callable are not F^H W y (rel {rel(seen[0], want_coil):.2e})')
    # ---- re-targeting a reconstruction to another acquisition of the same shape: Fourier operator AND density compensation are those
    # of the new trajectory (multi-step history: construct, recalculate_fourierop, reconstruct)
    if case['traj'] == 'radial' and noise is None and viol is None:
        from mrpro.data.traj_calculators import KTrajectoryRadial2D

        kd_b = type(kd)(kd.header, kd.data, KTrajectoryRadial2D(angle=math.pi * 0.381966)(kd.header))  # golden-angle spokes: other density
        rec_a = DirectReconstruction(kd, csm=csm, noise=None)  # Fourier operator and dcf from the first acquisition
        st_r, out_r = call(lambda: rec_a.recalculate_fourierop(kd_b)(kd_b))
        st_f, out_f = call(lambda: DirectReconstruction(kd_b, csm=csm, noise=None)(kd_b))
        if st_r == 'ok' and st_f == 'ok' and rel(out_r.data, out_f.data.reshape(-1).to(torch.complex128)) > TOL:
            viol = viol or v('recalculate_fourierop', f'after recalculate_fourierop(kdata_b) the reconstruction of kdata_b differs from a reconstruction built for kdata_b '
                                                      f'(rel {rel(out_r.data, out_f.data.reshape(-1).to(torch.complex128)):.2e}): F and W are not both those of the new trajectory')
    # ---- direct reconstruction = S^H F^H W y
    st, direct = call(lambda: DirectReconstruction(None, fourier_op=F, csm=csm, noise=noise, dcf=dcf)(kd))
    want_direct = A.conj().T @ (W @ yv)
    if st != 'ok':
        viol = viol or v('direct-raises', f'DirectReconstruction raises {direct}')
    elif rel(direct.data, want_direct) > TOL:
        viol = viol or v('direct', f'direct reconstruction differs from S^H F^H W y (rel {rel(direct.data, want_direct):.2e})')
    elif noise is None:
        d2 = DirectReconstruction(None, fourier_op=F, csm=csm, noise=None, dcf=dcf)
        y2 = torch.randn(kd.data.shape, dtype=torch.complex64, generator=g)
        kd2 = type(kd)(kd.header, y2, kd.traj)
        kd3 = type(kd)(kd.header, 2.0 * kd.data - 1.5j * y2, kd.traj)
        if rel(d2(kd3).data, (2.0 * d2(kd).data - 1.5j * d2(kd2).data).reshape(-1).to(torch.complex128)) > TOL:
            viol = viol or v('direct-linear', 'direct reconstruction is not linear in the data')
    # ---- (regularised) iterative SENSE = CG iterate of (A^H W A + lam B) x = A^H W y + lam x0, start = rhs
    lam = case['lam']
    lam_vec = None
    if lam == 'map':
        # spatially varying weight with zeros (e.g. regularisation only inside a mask)
        lam_t = torch.tensor([rng.choice([0.0, 0.0, 0.5, 2.0]) for _ in range(math.prod(dom))], dtype=torch.float32).reshape(dom)
        lam_t.reshape(-1)[0], lam_t.reshape(-1)[-1] = 0.0, 2.0
        lam_vec = lam_t.reshape(-1).to(torch.complex128)
        lam = lam_t
    bdiag = (torch.rand(dom, generator=g) + 0.5) if case['reg_op'] == 'diag' else torch.ones(dom)
    Bop = mrpro.operators.EinsumOp(bdiag.to(torch.complex64), '..., ... -> ...') if case['reg_op'] == 'diag' else None
    x0 = (img if case['csm'] else x_true) if case['reg_data'] == 'image' else torch.zeros(dom, dtype=torch.complex64)
    lam_d = lam_vec if lam_vec is not None else lam
    H = A.conj().T @ W @ A + torch.diag(lam_d * bdiag.reshape(-1).to(torch.complex128))
    rhs = A.conj().T @ (W @ yv) + lam_d * x0.reshape(-1).to(torch.complex128)
    st, rec = call(lambda: RegularizedIterativeSENSEReconstruction(None, fourier_op=F, csm=csm, noise=noise, dcf=dcf, n_iterations=case['iters'], regularization_data=x0, regularization_weight=lam,
                                                                   regularization_op=Bop)(kd))
    # a singular system (undersampling without coil sensitivities and without regularisation: A^H W A is a projection) is outside
    # the statement - CG is defined for positive definite systems, and beyond the first step float32 noise in the null space is
    # amplified without bound both in the library and in any reference; only the first iterate is compared there
    well_posed = float(torch.linalg.cond(H)) < 1e6 or case['iters'] == 1
    if st != 'ok':
        viol = viol or v('iterative-raises', f'RegularizedIterativeSENSEReconstruction raises {rec}')
    elif well_posed:
        want_it = dense_cg(H, rhs, rhs.clone(), case['iters'])
        if rel(rec.data, want_it) > 5 * TOL:
            viol = viol or v('iterative', f'iterate {case["iters"]} differs from CG on (A^H W A + lam B) x = A^H W y + lam x0 started at the right-hand side (rel {rel(rec.data, want_it):.2e})')
        # exact rational run of the Lean CG model on the same dense system (small systems only)
        if H.shape[0] <= 16 and case['iters'] <= 2:
            def cs(z):
                return frac_str(float(z.real)) + (';' + frac_str(float(z.imag)) if float(z.imag) != 0 else '')
            m = drv.call({'op': 'cg', 'n': H.shape[0], 'H': [cs(complex(z)) for z in H.reshape(-1)], 'b': [cs(complex(z)) for z in rhs], 'x0': [cs(complex(z)) for z in rhs],
                          'max_iter': case['iters'], 'tol2': None})
            if m['status'] == 'ok':
                mx = torch.tensor([complex(float(a), float(b)) for a, b in map(parse_scal, m['x'])], dtype=torch.complex128)
                if rel(rec.data, mx) > 5 * TOL:
                    corr = f'{cfg}: iterate {case["iters"]} differs from the exact run of the Lean CG model on the dense system (rel {rel(rec.data, mx):.2e})'
        if lam_vec is None and lam == 0.0:
            st2, rec2 = call(lambda: IterativeSENSEReconstruction(None, fourier_op=F, csm=csm, noise=noise, dcf=dcf, n_iterations=case['iters'])(kd))
            if st2 == 'ok' and rel(rec2.data, rec.data.reshape(-1).to(torch.complex128)) > TOL:
                viol = viol or v('lambda-zero', 'regularised reconstruction with weight 0 differs from IterativeSENSEReconstruction')
        # homogeneity in the data (CG started at the right-hand side): recon(c y) = c recon(y) for lam-term scaled alike
        if (lam_vec is None and lam == 0.0) or case['reg_data'] == 'zero':
            kd_s = type(kd)(kd.header, 3.0 * kd.data, kd.traj)
            st3, rec3 = call(lambda: RegularizedIterativeSENSEReconstruction(None, fourier_op=F, csm=csm, noise=noise, dcf=dcf, n_iterations=case['iters'], regularization_data=x0,
                                                                             regularization_weight=lam, regularization_op=Bop)(kd_s))
            if st3 == 'ok' and rel(rec3.data, 3.0 * rec.data.reshape(-1).to(torch.complex128)) > 5 * TOL:
                viol = viol or v('homogeneous', 'scaling the data by 3 does not scale the iterate by 3')
    # ---- enough iterations: (regularised) least squares; consistent fully sampled data reproduces the image
    if viol is None and torch.linalg.cond(H) < 1e4:
        big = RegularizedIterativeSENSEReconstruction(None, fourier_op=F, csm=csm, noise=noise, dcf=dcf, n_iterations=4 * H.shape[0], regularization_data=x0, regularization_weight=lam,
                                                      regularization_op=Bop)
        st4, full = call(lambda: big(kd))
        if st4 == 'ok':
            sol = torch.linalg.solve(H, rhs)
            if rel(full.data, sol) > 20 * TOL:
                viol = viol or v('least-squares', f'with many iterations the result differs from the (regularised) least-squares image (rel {rel(full.data, sol):.2e})')
            if lam_vec is None and lam == 0.0 and noise is None and case['traj'] == 'cart_full' and rel(full.data, case.get('scale', 1.0) * (img if case['csm'] else x_true).reshape(-1).to(torch.complex128)) > 20 * TOL:
                viol = viol or v('consistent-data', 'consistent fully sampled data does not reproduce the true image')
    return Outcome(key=('recon', cfg), corr=corr, viol=viol, branches=[f'traj:{case["traj"]}', f'csm:{case["csm"]}', f'dcf:{case["dcf"]}', f'noise:{case["noise"]}', f'lam:{case["lam"]}', f'nz:{nz}',
                                                                      f'iters:{case["iters"]}'], sample=case)
