"""C06 — conjugate gradient: Krylov-optimal iterates, true residuals, finite results, untouched inputs."""
import math
import random
from fractions import Fraction

import torch

from harness.core.conv import frac_str, parse_scal, tensor_strs
from harness.core.runner import Outcome
from harness.core.util import call, int_tensor

RULE = ('HPD systems H = M^H M + d I (small integer real/complex M, n <= 6 quick / 10 thorough), H = c I, low-rank-plus-identity (clustered '
        'spectra that terminate exactly), batched block-diagonal systems; start values None / zero / exact solution / random; budgets 0..n+3; '
        'tolerance 0 / 1e-4 / large. Every callback iterate and residual compared with the exact rational run of the Lean model; '
        'property-level oracle on the real code: finiteness, residual = b - H x_k, monotone H-norm error, Krylov optimality of every '
        'iterate, solution within n steps, inputs untouched. distinct = distinct (system, start, budget, tolerance)')
ASSUMPTIONS = ['float64 run tracks the exact run to 1e-7 relative for the generated well-conditioned systems (cond <= ~1e3)',
               'complex Hermitian systems are covered by the theorems as real inner-product spaces (Re<.,.>)']


def gen_system(rng, n, kind):
    cplx = rng.random() < 0.5
    if kind == 'scaled_identity':
        H = torch.eye(n, dtype=torch.complex128) * rng.choice([1, 2, 3, 4])
    elif kind == 'lowrank':
        k = rng.randint(1, max(1, n // 2))
        U = int_tensor(rng, (n, k), complex_=cplx, lo=-2, hi=2).to(torch.complex128)
        H = torch.eye(n, dtype=torch.complex128) * rng.choice([1, 2]) + U @ U.conj().T
    else:
        M = int_tensor(rng, (n, n), complex_=cplx, lo=-2, hi=2).to(torch.complex128)
        H = M.conj().T @ M + rng.choice([1, 2, 5]) * torch.eye(n, dtype=torch.complex128)
    return H, cplx


def generate(rng: random.Random, tier: str):
    thorough = tier == 'thorough'
    cases = []
    nmax = 10 if thorough else 6
    for _ in range(400 if thorough else 90):
        n = rng.randint(1, nmax)
        cases.append({'kind': 'cg', 'n': n, 'sys': rng.choice(['scaled_identity', 'lowrank', 'generic', 'generic']),
                      'start': rng.choice(['none', 'zero', 'exact', 'random']), 'budget': rng.randint(0, n + 3),
                      'tol': rng.choice(['0', '0', '1/10000', '5']), 'batch': rng.choice([1, 1, 1, 2, 3]), 'seed': rng.randrange(1 << 30)})
    # small / large data: cg must not contain absolute thresholds (same run, scaled by a power of two)
    for _ in range(60 if thorough else 14):
        n = rng.randint(2, nmax)
        cases.append({'kind': 'cg', 'n': n, 'sys': rng.choice(['lowrank', 'generic', 'generic']), 'start': rng.choice(['none', 'zero', 'random']),
                      'budget': rng.randint(1, n + 2), 'tol': rng.choice(['0', '0', '1/10000']), 'batch': rng.choice([1, 1, 2]),
                      'scale_exp': rng.choice([-30, -40, -60, 30]), 'seed': rng.randrange(1 << 30)})
    # budgets far beyond n with tolerance 0: the float run goes on after convergence until the residual underflows
    for _ in range(40 if thorough else 10):
        n = rng.randint(2, nmax)
        cases.append({'kind': 'cg', 'n': n, 'sys': rng.choice(['lowrank', 'generic', 'generic']), 'start': rng.choice(['none', 'zero', 'random']),
                      'budget': rng.choice([150, 400]), 'tol': '0', 'batch': rng.choice([1, 1, 2]), 'seed': rng.randrange(1 << 30)})
    # the same in single precision (the dtype of MR data): the recursively updated residual underflows after a few dozen iterations
    for _ in range(30 if thorough else 8):
        n = rng.choice([6, 12, 24, 36])
        cases.append({'kind': 'cg_single', 'n': n, 'sys': rng.choice(['lowrank', 'generic', 'generic']), 'start': rng.choice(['none', 'zero', 'random']),
                      'budget': rng.choice([150, 400, 1000]), 'batch': rng.choice([1, 2]), 'scale_exp': rng.choice([0, 0, -10, 10]), 'seed': rng.randrange(1 << 30)})
    return cases


def run_single(case, drv) -> Outcome:
    """budgets far beyond n, tolerance 0, single precision: once converged the result stays the solution (to single precision)"""
    import mrpro
    from mrpro.algorithms.optimizers import cg

    rng = random.Random(case['seed'])
    n, batch = case['n'], case['batch']
    # well conditioned systems with n distinct generic eigenvalues (normal equations of a random matrix plus a multiple of the
    # identity, like A^H A + lambda I of a reconstruction): the residual decays smoothly through the subnormal range
    gen = torch.Generator().manual_seed(case['seed'])
    cplx = case['seed'] % 2 == 0
    blocks = []
    for _ in range(batch):
        G = torch.randn(n, n, generator=gen, dtype=torch.float64) + (1j * torch.randn(n, n, generator=gen, dtype=torch.float64) if cplx else 0)
        blocks.append((G.conj().T @ G / n + 0.5 * torch.eye(n)).to(torch.complex128))
    Hbatch = torch.stack(blocks)
    xs = int_tensor(rng, (batch, n), complex_=cplx, lo=-3, hi=3).to(torch.complex128)
    b = torch.einsum('bij,bj->bi', Hbatch, xs)
    dtype = torch.complex64 if cplx else torch.float32
    sc = 2.0 ** case.get('scale_exp', 0)
    x0 = None if case['start'] == 'none' else (torch.zeros_like(b) if case['start'] == 'zero' else int_tensor(rng, (batch, n), complex_=cplx, lo=-3, hi=3).to(torch.complex128))
    Hop = mrpro.operators.EinsumOp(Hbatch.to(dtype))
    b_in = (b * sc).to(dtype)
    x0_in = None if x0 is None else (x0 * sc).to(dtype)
    st, x = call(lambda: cg(Hop, b_in, initial_value=x0_in, max_iterations=case['budget'], tolerance=0.0))
    if st != 'ok':
        return Outcome(key=('cg-single-raises', str(case)), viol={'signature': 'cg:single:raises', 'what': f'cg raised {x} for {case}'})
    viol = None
    cond = float(torch.linalg.cond(torch.block_diag(*blocks)))
    xd = (x / sc).reshape(-1).to(torch.complex128)
    if not bool(torch.isfinite(torch.view_as_real(xd)).all()):
        viol = {'signature': 'cg:single:nonfinite', 'what': f'cg returns non-finite values in single precision for an HPD system: {case}'}
    elif case['budget'] >= batch * n and float((xd - xs.reshape(-1)).abs().nan_to_num(nan=float('inf')).max()) > 1e-5 * cond * max(1.0, float(xs.abs().max())):
        viol = {'signature': 'cg:single:n-steps', 'what': f'after {case["budget"]} >= n = {batch * n} iterations with tolerance 0 the single precision result is '
                                                           f'{float((xd - xs.reshape(-1)).abs().max()):.3g} away from the solution (condition number {cond:.3g}) ({case})'}
    return Outcome(key=('cg_single', n, batch, case['sys'], case['start'], case['budget'], case['scale_exp'], case['seed'] % 17), viol=viol,
                   branches=['single', f'budget:{case["budget"]}', f'scale:2^{case["scale_exp"]}'], sample=case)


def run(case, drv) -> Outcome:
    if case['kind'] == 'cg_single':
        return run_single(case, drv)
    import mrpro
    from mrpro.algorithms.optimizers import cg

    rng = random.Random(case['seed'])
    n, batch = case['n'], case['batch']
    blocks, cplx = [], False
    for _ in range(batch):
        Hb, c = gen_system(rng, n, case['sys'])
        blocks.append(Hb)
        cplx = cplx or c
    Hbatch = torch.stack(blocks)  # (batch, n, n)
    N = batch * n
    Hd = torch.block_diag(*blocks)
    xs = int_tensor(rng, (batch, n), complex_=cplx, lo=-3, hi=3).to(torch.complex128)
    b = torch.einsum('bij,bj->bi', Hbatch, xs)
    if case['start'] == 'none':
        x0 = None
    elif case['start'] == 'zero':
        x0 = torch.zeros_like(b)
    elif case['start'] == 'exact':
        x0 = xs.clone()
    else:
        x0 = int_tensor(rng, (batch, n), complex_=cplx, lo=-3, hi=3).to(torch.complex128)
    tol = float(Fraction(case['tol']))
    dtype = torch.complex128 if cplx else torch.float64
    Hop = mrpro.operators.EinsumOp(Hbatch.to(dtype))
    sc = 2.0 ** case.get('scale_exp', 0)
    b_in = (b * sc).to(dtype).clone()
    x0_in = None if x0 is None else (x0 * sc).to(dtype).clone()
    b_copy, x0_copy = b_in.clone(), None if x0_in is None else x0_in.clone()
    b_ver, x0_ver = b_in._version, None if x0_in is None else x0_in._version
    trace = []
    kept = []  # the very tensors handed to the callback, looked at again after the run (a caller may keep them)

    def cb(st):
        trace.append((st['solution'][0].clone(), st['residual'].clone(), st['iteration_number']))
        kept.append((st['solution'][0], st['residual']))

    st, x = call(lambda: cg(Hop, b_in, initial_value=x0_in, max_iterations=case['budget'], tolerance=tol * sc, callback=cb))
    if st != 'ok':
        return Outcome(key=('cg-raises', str(case)), corr=f'cg raised {x} for {case}')
    # cg is homogeneous (theorem C06.cg_homogeneous): the run on (s b, s x0, s tol) is s times the run on (b, x0, tol); s is a
    # power of two, so dividing by it is exact and everything below is compared on the unscaled problem
    x_ret = x
    corrupted = next((ki for (xi, ri, ki), (xk, rk) in zip(trace, kept, strict=True)
                      if not (torch.equal(xi, xk) and torch.equal(ri, rk))), None)
    x = x / sc
    trace = [(xi / sc, ri / sc, ki) for xi, ri, ki in trace]
    # ---- model (exact)
    tol2 = None if case['tol'] == '0' else frac_str(Fraction(case['tol']) ** 2)
    m = drv.call({'op': 'cg', 'n': N, 'H': tensor_strs(Hd), 'b': tensor_strs(b.reshape(-1)), 'x0': None if x0 is None else tensor_strs(x0.reshape(-1)),
                  'max_iter': case['budget'], 'tol2': tol2})
    corr = None
    viol = None

    def to_t(strs):
        return torch.tensor([complex(float(a), float(bb)) for a, bb in map(parse_scal, strs)], dtype=torch.complex128)

    def close(a, bb, tol_=1e-7):
        scale = max(1.0, float(bb.abs().max()))
        return bool(torch.isfinite(a).all()) and float((a.reshape(-1).to(torch.complex128) - bb.reshape(-1)).abs().max()) <= tol_ * scale

    # one step, exact in floats when the scale is a power of two (alpha = 1/c is then exact; for c = 3 the float residual after
    # the step may be 1e-16 instead of 0 and cg legitimately goes on); block-diagonal batches mix scales
    exactish = case['sys'] == 'scaled_identity' and batch == 1 and float(Hbatch[0, 0, 0].real) in (1.0, 2.0, 4.0)
    if m['status'] != 'ok':
        corr = f'model reports a division by zero in iteration {m["k"]} for {case}'
    else:
        mt = m['trace']
        # iterates in lockstep as long as both ran; counts compared only when the stopping decision is exact in floats
        # (floating-point CG loses conjugacy gradually: iterate-by-iterate agreement with exact arithmetic is required for the
        # first 8 iterations, with 1e-7 up to iteration 4 and 1e-5 after; later iterates are judged by the property-level oracle)
        for (xi, ri, ki), e in zip(trace[:8], mt):
            if ki != e['k'] or not close(xi, to_t(e['x']), 1e-7 if ki < 5 else 1e-5) or not close(ri, to_t(e['r']), 1e-6 if ki < 5 else 1e-4):
                corr = corr or f'cg iterate {ki} differs from the exact model run ({case})'
        if exactish and len(trace) != len(mt):
            corr = corr or f'cg ran {len(trace)} iterations, model {len(mt)} ({m["reason"]}) for {case}'
        if (exactish or len(trace) == len(mt)) and not close(x, to_t(m['x'])):
            corr = corr or f'cg result differs from the exact model run ({case}): {x.reshape(-1).tolist()[:3]} vs {m["x"][:3]}'
    # ---- property-level oracle on the real code
    start = (b if x0 is None else x0).reshape(-1).to(torch.complex128)
    bf = b.reshape(-1)
    xsf = xs.reshape(-1)

    def hnorm2(v):
        return float((v.conj() @ (Hd @ v)).real)

    sig = f'{case["start"]}:{"tol0" if case["tol"] == "0" else "tol"}'
    if corrupted is not None:
        viol = {'signature': 'cg:iterate-corrupted', 'what': f'the iterate / residual reported to the callback at iteration {corrupted} was overwritten by later '
                f'iterations (a callback that keeps the tensor sees another iterate, whose residual is not the reported one): {case}'}
    if not bool(torch.isfinite(torch.view_as_real(x.to(torch.complex128))).all()):
        viol = viol or {'signature': f'cg:nonfinite:{sig}', 'what': f'cg returns non-finite values for an HPD system: {case}'}
    else:
        errs = [hnorm2(xsf - start)]
        iterates = [start]
        for xi, ri, ki in trace:
            xv = xi.reshape(-1).to(torch.complex128)
            true_r = bf - Hd @ xv
            if float((ri.reshape(-1).to(torch.complex128) - true_r).abs().nan_to_num(nan=float('inf')).max()) > 1e-7 * max(1.0, float(bf.abs().max())):
                viol = viol or {'signature': f'cg:residual:{sig}', 'what': f'callback residual at iteration {ki} is not b - H x_k ({case})'}
            errs.append(hnorm2(xsf - xv))
            iterates.append(xv)
        for k in range(1, len(errs)):
            if errs[k] > errs[k - 1] * (1 + 1e-9) + 1e-9:
                viol = viol or {'signature': f'cg:monotone:{sig}', 'what': f'H-norm error increases at iteration {k - 1}: {errs[k - 1]:.6g} -> {errs[k]:.6g} ({case})'}
        # Krylov optimality of every iterate: x_k = argmin ||x* - x||_H over x0 + span{r0, H r0, ...}
        r0 = bf - Hd @ start
        if float(r0.abs().max()) > 0:
            L = torch.linalg.cholesky(Hd)
            basis = []
            v = r0
            for k in range(1, min(len(iterates), N + 2)):
                basis.append(v)
                v = Hd @ v
                Kk = torch.stack(basis, dim=1)
                # minimise ||L^H (x* - x0 - K c)||_2
                A = L.conj().T @ Kk
                rhs = L.conj().T @ (xsf - start)
                c = torch.linalg.lstsq(A, rhs.unsqueeze(1)).solution.squeeze(1)
                opt = hnorm2(xsf - start - Kk @ c)
                if errs[k] > opt * (1 + 1e-6) + 1e-9 * max(1.0, errs[0]):
                    viol = viol or {'signature': f'cg:krylov:{sig}',
                                    'what': f'iterate {k} is not Krylov-optimal: H-norm error^2 {errs[k]:.6g} > optimum {opt:.6g} over x0+K_{k} ({case})'}
                    break
        if case['tol'] == '0' and case['budget'] >= N and float((x.reshape(-1).to(torch.complex128) - xsf).abs().nan_to_num(nan=float('inf')).max()) > 1e-6 * max(1.0, float(xsf.abs().max())):
            viol = viol or {'signature': f'cg:n-steps:{sig}', 'what': f'after {case["budget"]} >= n = {N} iterations the solution is not reached ({case})'}
    # inputs untouched
    if not torch.equal(b_in, b_copy) or b_in._version != b_ver or (x0_in is not None and (not torch.equal(x0_in, x0_copy) or x0_in._version != x0_ver)):
        viol = viol or {'signature': 'cg:mutates-input', 'what': f'cg modified right_hand_side or initial_value in place ({case})'}
    if x0_in is not None and x_ret.data_ptr() == x0_in.data_ptr() or x_ret.data_ptr() == b_in.data_ptr():
        viol = viol or {'signature': 'cg:aliases-input', 'what': f'cg returns a tensor sharing memory with an input ({case})'}
    return Outcome(key=('cg', n, batch, case['sys'], case['start'], case['budget'], case['tol'], case.get('scale_exp', 0), case['seed'] % 17), corr=corr, viol=viol,
                   branches=[f'sys:{case["sys"]}', f'start:{case["start"]}', f'tol:{case["tol"]}', f'model-reason:{m.get("reason", "nan")}',
                             f'batch:{batch}', 'complex' if cplx else 'real', f'scale:2^{case.get("scale_exp", 0)}'],
                   sample={**case, 'iterations_run': len(trace), 'model_reason': m.get('reason')})


def neighbours(case, rng):
    return [{**case, 'start': s, 'tol': t, 'seed': rng.randrange(1 << 30)} for s in ('none', 'zero', 'exact', 'random') for t in ('0', '1/10000')]
