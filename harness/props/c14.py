"""C14 — loading raw data is faithful to acquisition indices, not to file order."""
import itertools
from fractions import Fraction
import math
import random
import warnings

import numpy as np
import torch

from harness.core import mrd
from harness.core.runner import Outcome
from harness.core.util import call

RULE = ('ISMRMRD files written by the harness: 2D/3D label layouts (k1 1..4, k2 1..3, up to two other dimensions out of average/slice/contrast/phase/'
        'repetition/set/user), optional ragged k1, reversed readouts, structural flags (first/last in slice/average/encode step) on image readouts, '
        'interleaved noise / calibration / other-coil readouts; acquisition order: all permutations when <= 5 readouts, random permutations otherwise; '
        'trajectory sources: Cartesian / radial calculators, stored trajectories, user trajectory. Every readout carries its identity in data, '
        'header fields and stored trajectory. Loaded positions compared with the Lean model (stable lexsort on the generated label order, '
        'generated filter mask) and with the index-derived expectation. RPE / radial per-readout formulas with label offsets; KNoise.from_file; Pulseq: stub sequences with different extents and encoding sizes per direction (Cartesian steps in any order, generic positions, unencoded / numerically zero directions) against M.pulseqTraj and the step oracle. distinct = distinct layout key')
ASSUMPTIONS = ['ismrmrd / h5py I/O is trusted', 'pypulseq trajectory calculation is a parameter: only the rescaling glue is checked (separate cases)']
OTHER = ['average', 'slice', 'contrast', 'phase', 'repetition', 'set', 'user0', 'user4', 'user7']


ANGLE = 0.7


def generate(rng: random.Random, tier: str):
    thorough = tier == 'thorough'
    cases = []
    for _ in range(150 if thorough else 26):
        others = rng.sample(OTHER, rng.choice([0, 1, 1, 2]))
        cases.append({'kind': 'load', 'n_k1': rng.randint(1, 4), 'n_k2': rng.choice([1, 1, 2, 3]), 'others': {o: rng.randint(2, 3) for o in others},
                      'ragged': rng.random() < 0.15, 'reversed': rng.random() < 0.3, 'struct_flags': rng.random() < 0.5,
                      'interleave': rng.choice(['none', 'noise', 'calibration', 'othercoil', 'mixed']), 'traj': rng.choice(['cartesian', 'cartesian', 'radial', 'stored', 'user', 'rpe', 'rpe']),
                      'k1_offset': rng.choice([0, 0, 1, 3]), 'k2_offset': rng.choice([0, 0, 1, 2, 5]),
                      'perm': rng.choice(['random', 'random', 'reverse', 'all']), 'seed': rng.randrange(1 << 30)})
    for _ in range(20 if thorough else 6):
        cases.append({'kind': 'pulseq', 'zero_axis': rng.choice(['none', 'z', 'zy']), 'seed': rng.randrange(1 << 30)})
    for _ in range(30 if thorough else 8):  # rescaling glue against M.pulseqTraj: extents and encoding sizes that differ between the directions
        cases.append({'kind': 'pulseq', 'zero_axis': rng.choice(['none', 'z', 'z', 'zy']), 'cartesian': rng.random() < 0.6,
                      'enc': [rng.choice([1, 2, 4, 5, 8]), rng.choice([3, 4, 6, 12, 16]), rng.choice([4, 6, 8, 12, 32])],
                      'n_k0': rng.choice([4, 6, 8]), 'n_ro': rng.randint(2, 6), 'dx': rng.choice(['1/4', '1', '5', '32']),
                      'dy': rng.choice(['1/8', '1', '5', '3/2']), 'dz': rng.choice(['1/2', '2', '7']), 'noise': rng.random() < 0.5,
                      'seed': rng.randrange(1 << 30)})
    return cases


def build_acqs(case, rng):
    import ismrmrd

    labels = ['k1', 'k2', *case['others'].keys()]
    sizes = [case['n_k1'], case['n_k2'], *case['others'].values()]
    acqs = []
    ident = 1
    for combo in itertools.product(*[range(s) for s in sizes]):
        lab = dict(zip(labels, combo, strict=True))
        if case['ragged'] and lab['k2'] == 0 and lab['k1'] == case['n_k1'] - 1 and case['n_k1'] > 1:
            continue
        flags = 0
        if case['reversed'] and rng.random() < 0.5:
            flags |= 1 << (ismrmrd.ACQ_IS_REVERSE - 1)
        if case['struct_flags']:
            if lab['k1'] == 0:
                flags |= 1 << (ismrmrd.ACQ_FIRST_IN_ENCODE_STEP1 - 1)
            if lab['k1'] == case['n_k1'] - 1:
                flags |= 1 << (ismrmrd.ACQ_LAST_IN_ENCODE_STEP1 - 1)
            if lab['k2'] == 0:
                flags |= 1 << (ismrmrd.ACQ_FIRST_IN_ENCODE_STEP2 - 1)
            if lab['k2'] == case['n_k2'] - 1:
                flags |= 1 << (ismrmrd.ACQ_LAST_IN_ENCODE_STEP2 - 1)
            if rng.random() < 0.3:
                flags |= 1 << (rng.choice([ismrmrd.ACQ_FIRST_IN_AVERAGE, ismrmrd.ACQ_LAST_IN_AVERAGE, ismrmrd.ACQ_LAST_IN_SLICE, ismrmrd.ACQ_FIRST_IN_SLICE,
                                           ismrmrd.ACQ_LAST_IN_REPETITION, ismrmrd.ACQ_LAST_IN_MEASUREMENT, ismrmrd.ACQ_IS_PARALLEL_CALIBRATION_AND_IMAGING]) - 1)
        # encoding step numbers need not start at 0 (e.g. a file holding lines 2..9)
        lab['k1'] += case.get('k1_offset', 0)
        lab['k2'] += case.get('k2_offset', 0)
        acqs.append({'labels': lab, 'id': ident, 'flags': flags, 'image': True})
        ident += 1
    extra = []
    k = case['interleave']
    n_extra = 0 if k == 'none' else rng.randint(1, 3)
    for _ in range(n_extra):
        kind = k if k != 'mixed' else rng.choice(['noise', 'calibration', 'othercoil'])
        lab = {l: 0 for l in labels}
        lab['k1'], lab['k2'] = case.get('k1_offset', 0), case.get('k2_offset', 0)
        a = {'labels': lab, 'id': ident, 'flags': 0, 'image': False}
        if kind == 'noise':
            a['flags'] = 1 << (ismrmrd.ACQ_IS_NOISE_MEASUREMENT - 1)
        elif kind == 'calibration':
            a['flags'] = 1 << (ismrmrd.ACQ_IS_PARALLEL_CALIBRATION - 1)
            a['labels'] = dict(rng.choice(acqs)['labels'])
        else:
            a['coils'] = 1  # body-coil readout: different number of channels
            a['labels'] = dict(rng.choice(acqs)['labels'])
        extra.append(a)
        ident += 1
    return labels, acqs, extra


def orderings(case, rng, allacq):
    n = len(allacq)
    if case['perm'] == 'all' and n <= 5:
        return [list(p) for p in itertools.permutations(range(n))][:120]
    if case['perm'] == 'reverse':
        return [list(range(n)), list(range(n))[::-1]]
    out = [list(range(n))]
    for _ in range(3):
        p = list(range(n))
        rng.shuffle(p)
        out.append(p)
    return out


def snapshot(kd):
    """everything the property talks about, as plain python (ids from the data, header fields, trajectory)"""
    ai = kd.header.acq_info
    full = (kd.data.shape[0], kd.data.shape[2], kd.data.shape[3], kd.data.shape[4])  # trajectory broadcast against the data
    return {'shape': list(kd.data.shape), 'ids': kd.data[:, 0, :, :, 0].real.round().to(torch.int64).flatten().tolist(), 'data': kd.data.flatten().tolist(),
            'scan_counter': ai.scan_counter.flatten().tolist(), 'time': ai.acquisition_time_stamp.flatten().tolist(), 'pos_x': ai.position.x.flatten().tolist(),
            'k1': ai.idx.k1.flatten().tolist(), 'k2': ai.idx.k2.flatten().tolist(), 'flags': ai.flags.flatten().tolist(),
            'traj': [torch.broadcast_to(t, full).flatten().tolist() for t in (kd.traj.kz, kd.traj.ky, kd.traj.kx)], 'traj_shape': list(full)}


def run_load(case, drv) -> Outcome:
    import ismrmrd
    from mrpro.data import KData, KTrajectory
    from mrpro.data.traj_calculators import KTrajectoryCartesian, KTrajectoryIsmrmrd, KTrajectoryRadial2D, KTrajectoryRpe

    warnings.filterwarnings('ignore')
    rng = random.Random(case['seed'])
    labels, acqs, extra = build_acqs(case, rng)
    allacq = acqs + extra
    n_k0, n_coils = 4, 2
    cfg = f'k1 {case["n_k1"]} k2 {case["n_k2"]} others {case["others"]} ragged {case["ragged"]} reversed {case["reversed"]} flags {case["struct_flags"]} interleave {case["interleave"]} traj {case["traj"]}'
    if case['traj'] == 'stored':
        for a in allacq:
            a['traj'] = np.stack([a['id'] + 0.25 * np.arange(n_k0), -a['id'] - 0.25 * np.arange(n_k0), 0.5 * a['id'] + 0 * np.arange(n_k0)], -1).astype(np.float32)
    viol = None
    corr = None

    def v(sig, what):
        return {'signature': f'load:{sig}', 'what': f'{cfg}: {what}'}

    def load(order):
        fn = mrd.write_file([allacq[i] for i in order], n_k0=n_k0, n_coils=n_coils, enc_matrix=(n_k0, max(case['n_k1'], 1), max(case['n_k2'], 1)))
        if case['traj'] == 'cartesian':
            tr = KTrajectoryCartesian()
        elif case['traj'] == 'radial':
            tr = KTrajectoryRadial2D(angle=ANGLE)
        elif case['traj'] == 'rpe':
            tr = KTrajectoryRpe(angle=ANGLE)
        elif case['traj'] == 'stored':
            tr = KTrajectoryIsmrmrd()
        else:
            tr = KTrajectory(torch.zeros(1, 1, 1, 1), torch.zeros(1, 1, 1, 1), torch.arange(n_k0, dtype=torch.float32).reshape(1, 1, 1, n_k0))
        last_file[0] = (fn, [allacq[i] for i in order])
        return call(lambda: KData.from_file(fn, tr))

    last_file = [None]
    ords = orderings(case, rng, allacq)
    st, kd0 = load(ords[0])
    # the noise scan of the same file: exactly the readouts flagged as noise measurement, in file order, bit-identical
    noise_viol = None
    fn0, in_file = last_file[0]
    noise_ids = [a['id'] for a in in_file if a['flags'] >> (ismrmrd.ACQ_IS_NOISE_MEASUREMENT - 1) & 1]
    from mrpro.data import KNoise

    stn, kn = call(lambda: KNoise.from_file(fn0))
    if noise_ids:
        if stn != 'ok':
            noise_viol = v('noise-raises', f'KNoise.from_file raises {kn} although the file holds noise readouts {noise_ids}')
        else:
            got_ids = [int(round(float(kn.data[i, 0, 0, 0, 0].real))) for i in range(kn.data.shape[0])]
            if got_ids != noise_ids or list(kn.data.shape[1:]) != [n_coils, 1, 1, n_k0]:
                noise_viol = v('noise-readouts', f'KNoise.from_file returns readouts {got_ids} (shape {list(kn.data.shape)}), the file holds noise readouts {noise_ids} in this order')
    elif stn == 'ok':
        noise_viol = v('noise-invented', f'KNoise.from_file returns {kn.data.shape[0]} readouts from a file without noise measurements')
    # ---- model: which readouts are kept, in which order, with which (n_k2, n_k1)
    key = lambda a: [a['labels'].get(l, 0) for l in mrd.LABELS]  # noqa: E731
    image_kept = [a for a in allacq if a.get('coils') is None]
    m = drv.call({'op': 'load', 'filter': True, 'acqs': [{'key': key(a), 'flags': a['flags'], 'id': a['id']} for a in image_kept]})
    if st != 'ok':
        # the model loads, the implementation raises
        want_ids = [a['id'] for a in acqs]
        dropped = [i for i in want_ids if i not in m['order']]
        return Outcome(key=('load-raises', cfg), corr=None if dropped else f'{cfg}: KData.from_file raises {kd0}, the model loads {len(m["order"])} readouts',
                       viol=v('raises', f'KData.from_file raises {kd0} for a file with {len(acqs)} image readouts' + (f'; the default filter removes image readouts {dropped} because of their flags' if dropped else '')),
                       branches=[f'raises:{kd0}'])
    s0 = snapshot(kd0)
    other = math.prod(case['others'].values()) if case['others'] else 1
    if s0['ids'] != m['order'] or s0['shape'][2:4] != [m['n_k2'], m['n_k1']]:
        corr = f'{cfg}: loaded ids {s0["ids"][:12]} shape {s0["shape"]}, model order {m["order"][:12]} (n_k2 {m["n_k2"]}, n_k1 {m["n_k1"]})'
    # ---- property-level oracle
    want_ids = sorted((a for a in acqs), key=lambda a: tuple(key(a)[::-1]))
    if sorted(s0['ids']) != sorted(a['id'] for a in acqs):
        missing = sorted(set(a['id'] for a in acqs) - set(s0['ids']))
        extra_ids = sorted(set(s0['ids']) - set(a['id'] for a in acqs))
        fl = {a['id']: a['flags'] for a in allacq}
        viol = v('dropped-or-extra', f'image readouts missing from the loaded data: {missing} (flags {[fl[i] for i in missing]}), unexpected readouts: {extra_ids}')
    elif s0['ids'] != [a['id'] for a in want_ids]:
        viol = v('position', f'readouts are not at the positions given by their indices: loaded {s0["ids"][:12]}, expected {[a["id"] for a in want_ids][:12]}')
    else:
        byid = {a['id']: a for a in allacq}
        # header and trajectory entries stored at the same position as the data
        if s0['scan_counter'] != s0['ids'] or s0['time'] != [1000 + i for i in s0['ids']] or [round(p * 1000) for p in s0['pos_x']] != s0['ids']:
            viol = v('header-pairing', 'per-readout header fields (scan_counter / time stamp / position) are not stored at the position of their readout')
        if s0['k1'] != [byid[i]['labels']['k1'] for i in s0['ids']] or s0['k2'] != [byid[i]['labels']['k2'] for i in s0['ids']]:
            viol = viol or v('index-pairing', 'idx.k1 / idx.k2 are not stored at the position of their readout')
        # data bit-identical to what was stored
        want = torch.stack([torch.as_tensor((i + 0.001 * np.arange(n_k0))[None, :] + 1j * np.arange(n_coils)[:, None], dtype=torch.complex64) for i in s0['ids']])
        got = kd0.data.permute(0, 2, 3, 1, 4).reshape(-1, n_coils, n_k0)
        if not torch.equal(got, want):
            viol = viol or v('data-values', 'data values are not bit-identical to the stored ones')
        # trajectory agrees readout by readout with indices / stored samples
        tz, ty, tx = (torch.tensor(t).reshape(s0['traj_shape']) for t in s0['traj'])
        ids_t = torch.tensor(s0['ids']).reshape(s0['shape'][0], s0['shape'][2], s0['shape'][3])
        if case['traj'] in ('cartesian', 'radial', 'stored', 'rpe') and not torch.isfinite(torch.stack([tz, ty, tx])).all():
            viol = viol or v('traj-finite', 'trajectory is not finite')
        if case['traj'] == 'cartesian' and viol is None:
            lim1 = kd0.header.encoding_limits.k1.center
            lim2 = kd0.header.encoding_limits.k2.center
            for pos in itertools.product(*[range(s) for s in ids_t.shape]):
                a = byid[int(ids_t[pos])]
                ky = float(ty[pos[0], pos[1], pos[2], 0])
                kz = float(tz[pos[0], pos[1], pos[2], 0])
                rev = bool(a['flags'] >> (ismrmrd.ACQ_IS_REVERSE - 1) & 1)
                mk = drv.call({'op': 'kfreq', 'n': n_k0, 'center': n_k0 // 2, 'reversed': rev})['k']
                kxs = [float(q) for q in tx[pos[0], pos[1], pos[2], :]]
                if ky != a['labels']['k1'] - lim1 or kz != a['labels']['k2'] - lim2:
                    viol = viol or v('traj-cartesian', f'readout {a["id"]} (k1 {a["labels"]["k1"]}, k2 {a["labels"]["k2"]}) has ky {ky}, kz {kz}; centre {lim1}, {lim2}')
                if kxs != [float(q) for q in mk]:
                    corr = corr or f'{cfg}: readout axis of readout {a["id"]} (reversed {rev}): impl {kxs} model {mk}'
                    viol = viol or v('traj-readout', f'readout {a["id"]} (reversed {rev}) has kx {kxs}, expected {"reversed " if rev else ""}j - center_sample')
        if case['traj'] in ('radial', 'rpe') and viol is None:
            # every readout lies where its own indices put it (radial: angle from k1; RPE: angle from k2, radial position from k1,
            # shift of the line chosen by k2 modulo the number of shifts, centre point not shifted)
            lim1 = kd0.header.encoding_limits.k1.center
            shifts = (0.0, 0.5, 0.25, 0.75)
            for pos in itertools.product(*[range(s) for s in ids_t.shape]):
                a = byid[int(ids_t[pos])]
                rev = bool(a['flags'] >> (ismrmrd.ACQ_IS_REVERSE - 1) & 1)
                kf = [float(q) for q in drv.call({'op': 'kfreq', 'n': n_k0, 'center': n_k0 // 2, 'reversed': rev})['k']]
                got = [[float(q) for q in t[pos[0], pos[1], pos[2], :]] for t in (tz, ty, tx)]
                if case['traj'] == 'radial':
                    ang = a['labels']['k1'] * ANGLE
                    want = [[0.0] * n_k0, [r * math.sin(ang) for r in kf], [r * math.cos(ang) for r in kf]]
                else:
                    ang = a['labels']['k2'] * ANGLE
                    krad = float(Fraction(drv.call({'op': 'rpe_krad', 'shifts': ['0', '1/2', '1/4', '3/4'], 'center': int(lim1), 'k1': [a['labels']['k1']],
                                                    'k2': [a['labels']['k2']]})['krad'][0]))  # Lean model M.rpeKrad
                    want = [[krad * math.sin(ang)] * n_k0, [krad * math.cos(ang)] * n_k0, kf]
                if any(abs(g - w) > 2e-5 * (1 + abs(w)) for gg, ww in zip(got, want, strict=True) for g, w in zip(gg, ww, strict=True)):
                    viol = viol or v(f'traj-{case["traj"]}', f'readout {a["id"]} (k1 {a["labels"]["k1"]}, k2 {a["labels"]["k2"]}, centre {lim1}) is at kz,ky,kx = '
                                     f'{[g[:2] for g in got]}, its indices give {[w[:2] for w in want]}')
        if case['traj'] == 'stored' and viol is None:
            for pos in itertools.product(*[range(s) for s in ids_t.shape]):
                i = int(ids_t[pos])
                if [float(q) for q in tx[pos[0], pos[1], pos[2], :]] != [i + 0.25 * j for j in range(n_k0)] or [float(q) for q in ty[pos[0], pos[1], pos[2], :]] != [-i - 0.25 * j for j in range(n_k0)]:
                    viol = viol or v('traj-stored', f'stored trajectory of readout {i} is not at the position of its data')
    # ---- independence of the order in the file
    if viol is None:
        for o in ords[1:]:
            st2, kd = load(o)
            if st2 != 'ok':
                viol = v('order-raises', f'loading raises {kd} for file order {o[:10]} but not for the sorted file')
                break
            s = snapshot(kd)
            diff = [k for k in s0 if s0[k] != s[k]]
            if diff:
                viol = v('order-dependent', f'loaded object depends on the order of acquisitions in the file (order {o[:10]}): differs in {diff}')
                break
    viol = viol or noise_viol
    return Outcome(key=('load', case['n_k1'], case['n_k2'], str(case['others']), case['ragged'], case['reversed'], case['struct_flags'], case['interleave'], case['traj'], len(ords)),
                   corr=corr, viol=viol, branches=[f'traj:{case["traj"]}', f'interleave:{case["interleave"]}', f'others:{len(case["others"])}', f'ragged:{case["ragged"]}',
                                                   f'flags:{case["struct_flags"]}', f'orders:{len(ords)}'], sample={**case, 'n_readouts': len(allacq), 'orders_tried': len(ords)})


def _pulseq_positions(case):
    """sequence k-space positions (exact dyadic rationals as Fractions) per direction, sample-major within a readout"""
    rng = random.Random(case['seed'])
    n_k0, n_ro = case.get('n_k0', 4), case.get('n_ro', 3)
    enc = case.get('enc', [4, 6, 8])  # z, y, x
    if case.get('cartesian', False):
        n_k0 = min(n_k0, enc[2])  # steps 0 .. n_k0-1 of enc_x: the premise of pulseqAxis_cartesian_steps is step < n
    steps = {'x': list(range(n_k0)), 'y': None, 'z': None}
    pos = {}
    # readout direction: sample j of every readout at dx * (j - n_k0/2)
    dx = Fraction(case.get('dx', '5'))
    pos['x'] = [dx * (Fraction(j) - Fraction(enc[2], 2)) for j in range(n_k0)] * n_ro if case.get('cartesian', False) else \
        [Fraction(-10) + Fraction(20 * j, max(n_k0 - 1, 1)).limit_denominator(64) for j in range(n_k0)] * n_ro
    for ax, e, d in (('y', enc[1], Fraction(case.get('dy', '5'))), ('z', enc[0], Fraction(case.get('dz', '2')))):
        if ax in case['zero_axis']:
            noise = case.get('noise', rng.random() < 0.5)
            vals = [Fraction(rng.randrange(-1000, 1000), 10 ** 15) if noise else Fraction(0) for _ in range(n_ro)]
        elif case.get('cartesian', False):
            st = [0] + [rng.randrange(e) for _ in range(n_ro - 1)]
            rng.shuffle(st)
            steps[ax] = st
            vals = [d * (Fraction(i) - Fraction(e, 2)) for i in st]
        else:
            vals = [d * Fraction(rng.randrange(-64, 65), 16) for _ in range(n_ro)]
        pos[ax] = [v for v in vals for _ in range(n_k0)]
    return n_k0, n_ro, enc, pos, steps


def run_pulseq(case, drv) -> Outcome:
    """the rescaling glue of KTrajectoryPulseq with pypulseq replaced by a stub sequence (its k-space calculation is a parameter):
    correspondence with `M.pulseqTraj`, and for Cartesian sequences the property itself - a readout lies at the phase
    encoding step it was played out for, whatever the extents of the other directions"""
    import importlib

    mod = importlib.import_module('mrpro.data.traj_calculators.KTrajectoryPulseq')
    from mrpro.data import SpatialDimension

    n_k0, n_ro, enc, pos, steps = _pulseq_positions(case)
    k = np.array([[float(v) for v in pos['x']], [float(v) for v in pos['y']], [float(v) for v in pos['z']]])

    class FakeSeq:
        def read(self, file_path):
            pass

        def calculate_kspace(self):
            return k.copy(), None, None, None, None

    class Hdr:
        class acq_info:  # noqa: N801
            number_of_samples = torch.full((n_ro, 1), n_k0)
        encoding_matrix = SpatialDimension(*enc)

    orig = mod.pp.Sequence
    mod.pp.Sequence = FakeSeq
    try:
        st, tr = call(lambda: mod.KTrajectoryPulseq('dummy.seq')(Hdr))
    finally:
        mod.pp.Sequence = orig
    viol = corr = None
    cfg = f'pulseq stub zero axes {case["zero_axis"]} enc(z,y,x) {enc} n_k0 {n_k0} readouts {n_ro} {"cartesian" if case.get("cartesian") else "generic"} steps dx {case.get("dx", "5")} dy {case.get("dy", "5")} dz {case.get("dz", "2")}'
    if st != 'ok':
        viol = {'signature': 'pulseq:raises', 'what': f'{cfg}: raises {tr}'}
    else:
        allk = torch.stack([tr.kz, tr.ky, tr.kx])
        if not bool(torch.isfinite(allk).all()):
            viol = {'signature': 'pulseq:nonfinite', 'what': f'{cfg}: trajectory contains non-finite values (an axis that is identically zero is rescaled by 1/max|k| = 1/0)'}
        else:
            for name, t, src in (('kz', tr.kz, k[2]), ('ky', tr.ky, k[1]), ('kx', tr.kx, k[0])):
                if np.abs(src).max() < 1e-9 and float(t.abs().max()) > 1e-3:
                    viol = viol or {'signature': 'pulseq:zero-axis-amplified', 'what': f'{cfg}: axis {name} is (numerically) zero in the sequence but is rescaled to amplitude {float(t.abs().max()):.3g}'}
            # correspondence with the Lean model M.pulseqTraj (exact rationals; the code works in float32)
            m = drv.call({'op': 'pulseq_traj', 'kx': [str(v) for v in pos['x']], 'ky': [str(v) for v in pos['y']], 'kz': [str(v) for v in pos['z']],
                          'nx': enc[2], 'ny': enc[1], 'nz': enc[0]})
            for name, t in (('kz', tr.kz), ('ky', tr.ky), ('kx', tr.kx)):
                want = [float(Fraction(q)) for q in m[name]]
                got = [float(q) for q in t.reshape(-1)]
                if tuple(t.shape) != (n_ro, n_k0):
                    corr = corr or f'{cfg}: {name} has shape {tuple(t.shape)}, expected (readouts, samples) = {(n_ro, n_k0)}'
                elif any(abs(g - w) > 1e-5 * (1 + abs(w)) for g, w in zip(got, want, strict=True)):
                    bad = next(i for i, (g, w) in enumerate(zip(got, want, strict=True)) if abs(g - w) > 1e-5 * (1 + abs(w)))
                    corr = corr or f'{cfg}: {name}[{bad}] = {got[bad]:.6g}, M.pulseqTraj gives {want[bad]:.6g}'
            # the property for a Cartesian sequence: readout r lies at its phase encoding step (theorem pulseqAxis_cartesian_steps)
            if case.get('cartesian'):
                for name, t, ax, e in (('ky', tr.ky, 'y', enc[1]), ('kz', tr.kz, 'z', enc[0])):
                    if steps[ax] is None:
                        continue
                    for r, i in enumerate(steps[ax]):
                        if tuple(t.shape) == (n_ro, n_k0) and abs(float(t[r, 0]) - (i - e / 2)) > 1e-4 * e:
                            viol = viol or {'signature': f'pulseq:cartesian-step:{name}',
                                            'what': f'{cfg}: readout {r} was played out at phase encoding step {i} of {e} along {name[1]}, i.e. position {i - e / 2}, '
                                                    f'but is placed at {name} = {float(t[r, 0]):.5g}'}
                if tuple(tr.kx.shape) == (n_ro, n_k0):
                    for j in range(n_k0):
                        if abs(float(tr.kx[0, j]) - (j - enc[2] / 2)) > 1e-4 * enc[2]:
                            viol = viol or {'signature': 'pulseq:cartesian-step:kx', 'what': f'{cfg}: sample {j} of {n_k0} is placed at kx = {float(tr.kx[0, j]):.5g}, expected {j - enc[2] / 2}'}
    return Outcome(key=('pulseq', case['zero_axis'], bool(case.get('cartesian')), tuple(enc), case['seed'] % 3), viol=viol, corr=corr,
                   branches=[f'pulseq:{case["zero_axis"]}', f'pulseq-cartesian:{bool(case.get("cartesian"))}',
                             f'pulseq-square:{len(set(enc)) == 1}'], sample=case)


def run(case, drv) -> Outcome:
    return run_load(case, drv) if case['kind'] == 'load' else run_pulseq(case, drv)
