"""C11 — equivalent axis specifications and batching give identical results."""
import itertools
import random

import torch

from harness.core.conv import first_diff, tensor_strs, strs_equal
from harness.core.runner import Outcome
from harness.core.util import call, encodings, int_tensor, rand_shape, same

RULE = ('exhaustive (ndim, index) table for normalize_index; random shapes (rank 1-4, sizes 1-5) x dim subsets x ALL '
        'non-negative/negative encodings x permuted orders for zero_pad_or_crop/ZeroPadOp (value-compared with the Lean '
        'model) and for FFT/FD/filters/wavelet/functional/sliding_window/smap/reduce_view (dims normalised by the Lean '
        'model, results compared across encodings); batching = op(stack) vs stack(op). distinct = distinct '
        '(kind, shape, dims, encoding, extra) keys; non-trivial = at least one axis of size > 1 involved')
ASSUMPTIONS = ['torch kernels behave identically for equal normalised dims', 'value model exists for pad/crop only; other '
               'entry points are tied through the dim normalisation model and cross-encoding equality']


def generate(rng: random.Random, tier: str):
    thorough = tier == 'thorough'
    cases = []
    for ndim in range(1, 6):
        for i in range(-ndim - 2, ndim + 3):
            cases.append({'kind': 'norm_index', 'ndim': ndim, 'index': i})
    n = 60 if thorough else 14
    for kind in ('pad', 'zeropadop', 'fft', 'fd', 'filter', 'wavelet', 'functional', 'sliding', 'smap', 'reduce_view'):
        for _ in range(n):
            if kind == 'wavelet':
                rank = rng.randint(1, 4)
                shape = tuple(rng.choice((2, 4, 6)) for _ in range(rank))
                k = rng.randint(1, min(3, rank))
            else:
                shape = rand_shape(rng, 1, 4, 1, 5)
                rank = len(shape)
                k = rng.randint(1, rank)
            dims = tuple(rng.sample(range(rank), k))
            if rng.random() < 0.5 and 0 not in dims:  # make sure axis 0 is exercised often
                dims = (0, *dims[1:]) if rng.random() < 0.5 else dims
                dims = tuple(dict.fromkeys(dims))
            case = {'kind': kind, 'shape': list(shape), 'dims': list(dims), 'seed': rng.randrange(1 << 30)}
            if kind in ('pad', 'zeropadop', 'fft'):
                case['new'] = [rng.randint(1, 6) for _ in dims]
            cases.append(case)
    # malformed stream
    for _ in range(12 if thorough else 6):
        shape = rand_shape(rng, 1, 3, 1, 4)
        rank = len(shape)
        bad = rng.choice(['oob_hi', 'oob_lo', 'repeat'])
        if bad == 'oob_hi':
            dims = [rank + rng.randint(0, 1)]
        elif bad == 'oob_lo':
            dims = [-rank - 1 - rng.randint(0, 1)]
        else:
            d = rng.randrange(rank)
            dims = [d, d - rank]
        cases.append({'kind': 'pad_malformed', 'shape': list(shape), 'dims': dims, 'new': [2] * len(dims),
                      'seed': rng.randrange(1 << 30)})
    for _ in range(40 if thorough else 12):
        cases.append({'kind': 'batch', 'op': rng.choice(BATCH_OPS), 'seed': rng.randrange(1 << 30),
                      'batch': rng.randint(1, 3)})
    for _ in range(20 if thorough else 6):
        cases.append({'kind': 'broadcast', 'op': rng.choice(['sens', 'dcf', 'einsum']), 'seed': rng.randrange(1 << 30),
                      'rep': rng.randint(2, 3)})
    return cases


BATCH_OPS = ['zeropad', 'fft', 'fd', 'sens', 'wavelet', 'cartsamp', 'fourier']


def _model_normdims(drv, ndim, dims):
    return drv.call({'op': 'norm_dims', 'ndim': ndim, 'dims': list(dims)})


def _viol(sig, what, **kw):
    return {'signature': sig, 'what': what, **kw}


def _build(kind, shape, case, rng):
    """returns f(dims_encoding, sizes_in_that_order) -> tensor for the real code"""
    import mrpro

    cplx = kind not in ('functional',)
    x = int_tensor(rng, shape, complex_=True)
    if kind == 'pad':
        return x, lambda d, new: mrpro.utils.zero_pad_or_crop(x, new, d)
    if kind == 'zeropadop':
        y_shape = list(shape)
        for d, n in zip(case['dims'], case['new'], strict=True):
            y_shape[d] = n
        y = int_tensor(rng, y_shape, complex_=True)
        orig = [shape[d] for d in case['dims']]

        def f(d, new, orig_perm=None):
            op = mrpro.operators.ZeroPadOp(dim=d, original_shape=orig_perm, padded_shape=new)
            return torch.stack([op(x)[0].flatten().sum() * 0 + 0]) if False else (op(x)[0], op.adjoint(y)[0])
        return x, f
    if kind == 'fft':
        def f(d, new, orig_perm=None):
            op = mrpro.operators.FastFourierOp(dim=d, recon_matrix=orig_perm, encoding_matrix=new)
            (k,) = op(x)
            return (k, op.adjoint(k)[0])
        return x, f
    if kind == 'fd':
        mode = ('central', 'forward', 'backward')[case['seed'] % 3]
        pad = ('zeros', 'circular')[(case['seed'] // 3) % 2]

        def f(d, new=None, orig_perm=None):
            op = mrpro.operators.FiniteDifferenceOp(dim=d, mode=mode, pad_mode=pad)
            (g,) = op(x)
            return (g, op.adjoint(g)[0])
        return x, f
    if kind == 'filter':
        from mrpro.utils.filters import gaussian_filter, uniform_filter

        which = case['seed'] % 2
        xr = x.real.contiguous()

        nd_ = len(shape)

        def f(d, new=None, orig_perm=None):
            # every axis has its own width, which travels with the axis through every encoding and order of dims
            if which == 0:
                return gaussian_filter(xr, [0.6 + 0.55 * (di % nd_) for di in d], d, truncate=2)
            return uniform_filter(xr, [(3, 1, 5, 3)[di % nd_] for di in d], d)
        return x, f
    if kind == 'wavelet':
        name = ('haar', 'db2', 'sym3')[case['seed'] % 3]

        def f(d, new=None, orig_perm=None):
            op = mrpro.operators.WaveletOp(domain_shape=[shape[i] for i in case['dims']] if orig_perm is None else orig_perm,
                                           dim=tuple(d), wavelet_name=name, level=1)
            (c,) = op(x)
            return (c, op.adjoint(c)[0])
        return x, f
    if kind == 'functional':
        from mrpro.operators.functionals import L1Norm, L2NormSquared

        cls = (L1Norm, L2NormSquared)[case['seed'] % 2]
        div = bool((case['seed'] // 2) % 2)
        keep = bool((case['seed'] // 4) % 2)

        def f(d, new=None, orig_perm=None):
            fn = cls(weight=2.0, target=1.0, dim=tuple(d), divide_by_n=div, keepdim=keep)
            out = (fn(x)[0], fn.prox(x, 0.5)[0])
            if len(d) == 1:  # a single axis may be given as a bare integer
                fi = cls(weight=2.0, target=1.0, dim=int(d[0]), divide_by_n=div, keepdim=keep)
                out = (*out, fi(x)[0], fi.prox(x, 0.5)[0])
            return out
        return x, f
    if kind == 'sliding':
        from mrpro.utils.sliding_window import sliding_window

        def f(d, new=None, orig_perm=None):
            return sliding_window(x, [1] * len(d), axis=tuple(d)).clone()
        return x, f
    if kind == 'smap':
        from mrpro.utils.smap import smap

        def f(d, new=None, orig_perm=None):
            return smap(lambda t: t.cumsum(0) * 2, x, tuple(d))
        return x, f
    if kind == 'reduce_view':
        from mrpro.utils.reshape import reduce_view

        xe = x[(slice(0, 1),) * len(shape)].expand(shape)

        def f(d, new=None, orig_perm=None):
            r = reduce_view(xe, list(d))
            return torch.tensor(r.shape)
        return x, f
    raise KeyError(kind)


def _flatten(v):
    return list(v) if isinstance(v, tuple) else [v]


def run(case, drv) -> Outcome:
    import mrpro

    kind = case['kind']
    if kind == 'norm_index':
        from mrpro.utils.zero_pad_or_crop import normalize_index

        ndim, i = case['ndim'], case['index']
        st, v = call(lambda: normalize_index(ndim, i))
        m = drv.call({'op': 'norm_index', 'ndim': ndim, 'index': i})
        impl = {'ok': v} if st == 'ok' else {'err': v}
        corr = None if impl == m else f'normalize_index({ndim},{i}): impl {impl} model {m}'
        viol = None
        # property-level oracle: equivalent encodings i and i-ndim (0 <= i < ndim) must give the same axis
        if 0 <= i < ndim:
            st2, v2 = call(lambda: normalize_index(ndim, i - ndim))
            if (st, v) != (st2, v2) or st != 'ok' or v != i:
                viol = _viol('normalize_index', f'normalize_index({ndim},{i}) -> {st}:{v} but normalize_index({ndim},{i - ndim}) -> '
                             f'{st2}:{v2}; both name axis {i}', python=f'from mrpro.utils.zero_pad_or_crop import normalize_index; '
                             f'normalize_index({ndim},{i})')
        return Outcome(key=(kind, ndim, i), nontrivial=True, corr=corr, viol=viol,
                       branches=[f'norm_index:{"accept" if "ok" in m else "reject"}'])

    rng = random.Random(case['seed'])
    if kind in ('batch', 'broadcast'):
        return _run_batch(case, rng) if kind == 'batch' else _run_broadcast(case, rng)

    shape = tuple(case['shape'])
    ndim = len(shape)
    dims = tuple(case['dims'])
    new = case.get('new')

    if kind == 'pad_malformed':
        x = int_tensor(rng, shape)
        st, v = call(lambda: mrpro.utils.zero_pad_or_crop(x, new, dims))
        m = drv.call({'op': 'zero_pad_or_crop', 'shape': list(shape), 'x': tensor_strs(x), 'new_shape': new, 'dim': list(dims)})
        impl_err = v if st == 'err' else None
        corr = None if m.get('err') == impl_err else f'malformed dims {dims} on rank {ndim}: impl {st}:{impl_err} model {m.get("err", "ok")}'
        return Outcome(key=(kind, shape, dims), corr=corr, branches=[f'malformed:{m.get("err")}'])

    x, f = _build(kind, shape, case, rng)
    # model: normalisation of every encoding must give the canonical dims
    encs = encodings(dims, ndim, limit=8, rng=rng)
    branches = [f'{kind}:rank{ndim}:ndims{len(dims)}' + (':axis0' if 0 in dims else '')]
    corr = None
    viol = None
    for e in encs:
        m = _model_normdims(drv, ndim, e)
        if m.get('ok') != list(dims):
            corr = f'model normDims({ndim},{e}) = {m} expected {list(dims)}'
    orig = [shape[d] for d in dims]
    ref_st, ref = call(lambda: f(list(dims), new, orig) if kind in ('zeropadop', 'fft', 'wavelet') else f(list(dims), new))
    results = []
    # (1) encodings
    for e in encs:
        st, v = call(lambda e=e: f(list(e), new, orig) if kind in ('zeropadop', 'fft', 'wavelet') else f(list(e), new))
        results.append((e, st, v))
    # (2) permuted order with permuted sizes (for ops whose sizes travel with dims; FD stacks per dim -> skip)
    if kind in ('pad', 'zeropadop', 'fft', 'filter', 'functional', 'wavelet') and len(dims) > 1:
        perm = list(range(len(dims)))
        rng.shuffle(perm)
        pd = [dims[i] - (ndim if rng.random() < 0.5 else 0) for i in perm]
        pnew = [new[i] for i in perm] if new else None
        porig = [orig[i] for i in perm]
        if kind == 'wavelet':
            pass  # the order of dims defines the order of detail coefficients: not an equivalent encoding
        else:
            st, v = call(lambda: f(pd, pnew, porig) if kind in ('zeropadop', 'fft') else f(pd, pnew))
            results.append((tuple(pd), st, v))
            branches.append(f'{kind}:permuted')
    for e, st, v in results:
        # pure data movement is compared bit-exactly; float kernels (fft, conv, wavelets, reductions) may round differently
        # when the axes are visited in another order
        tol = 0.0 if kind in ('pad', 'zeropadop', 'sliding', 'smap', 'reduce_view') else 1e-12
        ok = st == ref_st and (st == 'err' and v == ref or st == 'ok' and all(
            same(a, b, tol) for a, b in zip(_flatten(v), _flatten(ref), strict=True)))
        if not ok and viol is None:
            what = (f'{kind} on shape {shape}: dims {list(dims)} -> {ref_st}:{ref if ref_st == "err" else "tensor"}, equivalent dims '
                    f'{list(e)} -> {st}:{v if st == "err" else "different tensor"}')
            zero = ':index0' if (0 in e or 0 in dims) and 'err' in (st, ref_st) else ''
            viol = _viol(f'{kind}:encoding{zero}', what, dims=list(dims), encoding=list(e))
    # (3) value correspondence with the Lean model where it has one
    if kind in ('pad', 'zeropadop'):
        for e, st, v in results[:3]:
            m = drv.call({'op': 'zero_pad_or_crop', 'shape': list(shape), 'x': tensor_strs(x), 'new_shape': new if e in encs else
                          [new[dims.index(d % ndim)] for d in e], 'dim': list(e)})
            if st == 'err':
                if m.get('err') != v:
                    corr = corr or f'{kind} shape {shape} dim {list(e)} new {new}: impl raises {v}, model {m.get("err", "returns a tensor")}'
                continue
            out = _flatten(v)[0]
            if 'err' in m:
                corr = corr or f'{kind} shape {shape} dim {list(e)}: impl returns, model raises {m["err"]}'
            elif list(out.shape) != m['shape'] or not strs_equal(tensor_strs(out), m['data']):
                corr = corr or (f'{kind} shape {shape} dim {list(e)} new {new}: impl {list(out.shape)} vs model {m["shape"]}, first diff '
                                f'{first_diff(tensor_strs(out), m["data"])}')
    nontrivial = any(shape[d] > 1 for d in dims)
    return Outcome(key=(kind, shape, dims, tuple(new or ()), case['seed'] % 12), nontrivial=nontrivial, corr=corr, viol=viol,
                   branches=branches, sample={**case, 'encodings_tried': [list(e) for e, _, _ in results]})


def _run_batch(case, rng) -> Outcome:
    import mrpro
    from mrpro.data import KTrajectory, SpatialDimension

    opn = case['op']
    b = case['batch']
    tol = 0.0
    if opn == 'zeropad':
        op = mrpro.operators.ZeroPadOp(dim=(-2, -1), original_shape=(3, 4), padded_shape=(5, 3))
        xs = [int_tensor(rng, (2, 3, 4)) for _ in range(b)]
    elif opn == 'fft':
        op = mrpro.operators.FastFourierOp(dim=(-2, -1), recon_matrix=(3, 4), encoding_matrix=(5, 4))
        xs = [int_tensor(rng, (2, 3, 4)) for _ in range(b)]
        tol = 1e-12
    elif opn == 'fd':
        op = mrpro.operators.FiniteDifferenceOp(dim=(-1,), mode='forward', pad_mode='circular')
        xs = [int_tensor(rng, (3, 4)) for _ in range(b)]
    elif opn == 'sens':
        op = mrpro.operators.SensitivityOp(int_tensor(rng, (1, 3, 1, 2, 2)))
        xs = [int_tensor(rng, (1, 1, 1, 2, 2)) for _ in range(b)]
    elif opn == 'wavelet':
        op = mrpro.operators.WaveletOp(domain_shape=(4, 4), dim=(-2, -1), wavelet_name='haar', level=1)
        xs = [int_tensor(rng, (2, 4, 4)) for _ in range(b)]
        tol = 1e-12
    elif opn in ('cartsamp', 'fourier'):
        ny, nx = 4, 4
        ky = torch.tensor(rng.sample(range(-2, 2), 3), dtype=torch.float64).reshape(1, 1, 3, 1)
        kx = torch.arange(-2, 2, dtype=torch.float64).reshape(1, 1, 1, 4)
        traj = KTrajectory(torch.zeros(1, 1, 1, 1, dtype=torch.float64), ky, kx)
        if opn == 'cartsamp':
            op = mrpro.operators.CartesianSamplingOp(SpatialDimension(1, ny, nx), traj)
        else:
            op = mrpro.operators.FourierOp(SpatialDimension(1, ny, nx), SpatialDimension(1, ny, nx), traj)
            tol = 1e-12
        xs = [int_tensor(rng, (1, 2, 1, ny, nx)) for _ in range(b)]
    else:
        raise KeyError(opn)
    # leading batch dim for all; additionally the documented 'other' axis (dim 0 of 5D data) by concatenation
    stacked = torch.stack(xs)
    (ys,) = op(stacked) if opn != 'fd' else (op(stacked)[0].movedim(1, 0),)
    each = torch.stack([op(x)[0] for x in xs])
    viol = None
    if not same(ys, each, tol):
        viol = {'signature': f'batch:{opn}', 'what': f'{opn}: op(stack(xs)) differs from stack(op(x)) for batch {b}'}
    if opn in ('sens', 'cartsamp', 'fourier') and viol is None:
        cat = torch.cat(xs, dim=0)
        (yc,) = op(cat)
        each_c = torch.cat([op(x)[0] for x in xs], dim=0)
        if not same(yc, each_c, tol):
            viol = {'signature': f'batch-other:{opn}', 'what': f'{opn}: op(cat(xs, other)) differs from cat(op(x))'}
    return Outcome(key=('batch', opn, b, case['seed'] % 7), viol=viol, branches=[f'batch:{opn}'])


def _run_broadcast(case, rng) -> Outcome:
    import mrpro

    opn, rep = case['op'], case['rep']
    if opn == 'sens':
        csm = int_tensor(rng, (1, 3, 1, 2, 2))
        x = int_tensor(rng, (rep, 1, 1, 2, 2))
        a = mrpro.operators.SensitivityOp(csm)
        bop = mrpro.operators.SensitivityOp(csm.repeat(rep, 1, 1, 1, 1))
        y = int_tensor(rng, (rep, 3, 1, 2, 2))
    elif opn == 'dcf':
        dcf = int_tensor(rng, (1, 1, 2, 3), complex_=False, lo=1, hi=4)
        x = int_tensor(rng, (rep, 2, 1, 2, 3))
        a = mrpro.operators.DensityCompensationOp(dcf)
        bop = mrpro.operators.DensityCompensationOp(dcf.repeat(rep, 1, 1, 1))
        y = int_tensor(rng, (rep, 2, 1, 2, 3))
    else:
        mat = int_tensor(rng, (1, 3, 2))
        x = int_tensor(rng, (rep, 2))
        a = mrpro.operators.EinsumOp(mat)
        bop = mrpro.operators.EinsumOp(mat.repeat(rep, 1, 1))
        y = int_tensor(rng, (rep, 3))
    viol = None
    if not same(a(x)[0], bop(x)[0]):
        viol = {'signature': f'broadcast:{opn}:forward', 'what': f'{opn}: singleton parameter != repeated parameter (forward)'}
    elif opn != 'einsum' and not same(a.adjoint(y)[0], bop.adjoint(y)[0]):
        viol = {'signature': f'broadcast:{opn}:adjoint', 'what': f'{opn}: singleton parameter != repeated parameter (adjoint)'}
    return Outcome(key=('broadcast', opn, rep, case['seed'] % 7), viol=viol, branches=[f'broadcast:{opn}'])


def neighbours(case, rng):
    """around a disagreement: same kind with axis 0 / every parity of sizes"""
    if case['kind'] not in ('pad', 'zeropadop'):
        return []
    out = []
    for new in itertools.product(range(1, 7), repeat=len(case['dims'])):
        out.append({**case, 'new': list(new)})
    return out[:60]
