"""C13 — rotations, proper and improper, obey the group laws of O(3)."""
import itertools
import math
import random

import torch

from harness.core.runner import Outcome
from harness.core.util import call
from harness.props._rot import drv_rot, rand_quat

RULE = ('triples of rotations p, q, r: proper / improper / mixed batches, single and batched with broadcastable shapes (incl. (3,1)x(1,2)), '
        'generic / near-identity / near-pi / axis / unnormalised quaternions; integer powers -6..6; index expressions; histories of in-place '
        'edits (setitem, component setters, is_improper setter); SpatialDimension application. Real code checked against the group laws '
        'through as_matrix / application, and compared with the Lean model (compose, as_matrix, apply, power flag). distinct = distinct case key')
ASSUMPTIONS = ['float64 rotations: laws checked to 1e-9', 'fractional-angle arithmetic of ** is checked numerically only']
TOL = 1e-9


def generate(rng: random.Random, tier: str):
    thorough = tier == 'thorough'
    cases = []
    shapes = [(), (1,), (2,), (3, 1), (1, 2), (3, 2)]  # pairwise broadcastable
    for _ in range(2000 if thorough else 160):
        cases.append({'kind': 'laws', 'shapes': [list(rng.choice(shapes)) for _ in range(3)], 'improper': [rng.choice(['no', 'yes', 'mixed']) for _ in range(3)],
                      'quat': rng.choice(['generic', 'generic', 'near_identity', 'near_pi', 'axis', 'unnormalised']), 'seed': rng.randrange(1 << 30)})
    for _ in range(300 if thorough else 40):
        cases.append({'kind': 'history', 'n': rng.randint(2, 5), 'steps': rng.randint(2, 8), 'seed': rng.randrange(1 << 30)})
    return cases


def make_rot(rng, shape, improper, kind):
    from mrpro.data import Rotation

    n = math.prod(shape) if shape else 1
    q = torch.tensor([rand_quat(rng, kind) for _ in range(n)], dtype=torch.float64).reshape(*shape, 4)
    if improper == 'no':
        inv = torch.zeros(shape, dtype=torch.bool)
    elif improper == 'yes':
        inv = torch.ones(shape, dtype=torch.bool)
    else:
        inv = torch.tensor([rng.random() < 0.5 for _ in range(n)], dtype=torch.bool).reshape(shape)
    return Rotation.from_quat(q, inversion=inv if shape else bool(inv)), q, inv


def mats(r):
    m = r.as_matrix()
    return m


def bshape(*shapes):
    return torch.broadcast_shapes(*[tuple(s) for s in shapes])


def close(a, b, tol=TOL):
    a, b = torch.broadcast_tensors(torch.as_tensor(a, dtype=torch.float64), torch.as_tensor(b, dtype=torch.float64)) if a.shape != b.shape else (a, b)
    return bool(torch.isfinite(a).all()) and float((a - b).abs().max()) <= tol


def run_laws(case, drv) -> Outcome:
    from mrpro.data import Rotation, SpatialDimension

    rng = random.Random(case['seed'])
    (p, qp, ip), (q, qq, iq), (r, qr, ir) = (make_rot(rng, tuple(s), imp, case['quat']) for s, imp in zip(case['shapes'], case['improper'], strict=True))
    cfg = f'shapes {case["shapes"]} improper {case["improper"]} quats {case["quat"]} seed {case["seed"]}'
    viol = None
    corr = None
    eye = torch.eye(3, dtype=torch.float64)

    def v(sig, what):
        return {'signature': f'law:{sig}', 'what': f'{cfg}: {what}'}

    mp, mq, mr = mats(p), mats(q), mats(r)
    # orthogonality and determinant vs flag
    for name, rot, m in (('p', p, mp), ('q', q, mq)):
        if not close(m @ m.mT, eye.expand_as(m)):
            viol = viol or v('orthogonal', f'as_matrix of {name} is not orthogonal')
        det = torch.linalg.det(m)
        want = torch.where(torch.as_tensor(rot.is_improper).reshape(det.shape), -1.0, 1.0)
        if not close(det, want.to(torch.float64), 1e-8):
            viol = viol or v('det', f'det(as_matrix) of {name} = {det.flatten().tolist()[:3]} does not match is_improper {rot.is_improper.flatten().tolist()[:3]}')
    st, pq = call(lambda: p @ q)
    if st != 'ok':
        return Outcome(key=('laws-raise', cfg), viol=v('compose-raises', f'p @ q raises {pq}'))
    if not close(mats(pq), mp @ mq):
        viol = viol or v('matrix-compose', 'matrix(p @ q) != matrix(p) matrix(q)')
    vec = torch.tensor([rng.uniform(-2, 2) for _ in range(3)], dtype=torch.float64)
    if not close(pq(vec), p(q(vec))):
        viol = viol or v('apply-compose', '(p @ q)(v) != p(q(v))')
    if not close(mats((p @ q) @ r), mats(p @ (q @ r))):
        viol = viol or v('assoc', '(p@q)@r != p@(q@r)')
    pinv = p.inv()
    if not close(mats(p @ pinv), eye.expand_as(mp)) or bool(torch.as_tensor((p @ pinv).is_improper).any()):
        viol = viol or v('inverse', 'p @ p.inv() is not the identity')
    if not close(p(p(vec), inverse=True), vec.expand(*mp.shape[:-2], 3) if mp.ndim > 2 else vec):
        viol = viol or v('apply-inverse', 'p(p(v), inverse=True) != v')
    # powers
    for n in (0, 1, -1, 2, 3, -2, -3, 4, 5, -6):
        st, pn = call(lambda n=n: p**n)
        if st != 'ok':
            viol = viol or v(f'pow-raises:{n}', f'p ** {n} raises {pn}')
            continue
        want = eye.expand_as(mp).clone()
        base = mp if n >= 0 else mp.mT
        for _ in range(abs(n)):
            want = want @ base
        got = mats(pn)
        if got.shape != want.shape or not close(got, want, 1e-7):
            viol = viol or v(f'pow:{"odd" if n % 2 else "even"}:{"one" if n == 1 else "n"}', f'p ** {n} is not the {n}-fold composition (is_improper of p: {torch.as_tensor(p.is_improper).flatten().tolist()[:4]})')
    # reflect / invert_axes act element-wise consistently with the matrices
    ia = p.invert_axes()
    if not close(mats(ia), -mp):
        viol = viol or v('invert_axes', 'invert_axes() is not -matrix')
    if case['quat'] not in ('near_identity',):
        st, rf = call(lambda: p.reflect())
        if st == 'ok':
            mrf = mats(rf)
            # reflection about the plane perpendicular to the rotation axis: matrix(p) (1 - 2 n n^T), det flips
            if not close(torch.linalg.det(mrf), -torch.linalg.det(mp), 1e-6):
                viol = viol or v('reflect', 'reflect() does not flip the determinant')
            # the reflection is about the plane perpendicular to the rotation axis n: matrix (1 - 2 n n^T) matrix(p), whatever the
            # sign of the stored quaternion, and doing it twice gives p back
            qx = torch.as_tensor(p.as_quat(), dtype=torch.float64)[..., :3]
            nrm = qx.norm(dim=-1, keepdim=True)
            if float(nrm.min()) > 1e-3:
                nax = qx / nrm
                house = eye - 2 * nax[..., :, None] * nax[..., None, :]
                if not close(mrf, house @ mp, 1e-6):
                    viol = viol or v('reflect-plane', 'reflect() is not the reflection about the plane perpendicular to the rotation axis: matrix != (1 - 2 n n^T) matrix(p)')
                st_rr, rr = call(lambda: rf.reflect())
                if st_rr == 'ok' and not close(mats(rr), mp, 1e-6):
                    viol = viol or v('reflect-twice', 'p.reflect().reflect() is not p')
    # vectors of other dtypes (voxel indices, matrix sizes; single precision coordinates): the rotation is never rounded to the
    # vectors' dtype
    ivec = torch.tensor([rng.randint(-40, 40) for _ in range(3)], dtype=rng.choice([torch.int64, torch.int32]))
    st_i, pi_ = call(lambda: p(ivec))
    if st_i == 'ok':
        want_i = (mp @ ivec.to(torch.float64)[..., None])[..., 0]
        if not close(torch.as_tensor(pi_).to(torch.float64), want_i, 1e-6 * 40):
            viol = viol or v('apply-int', f'p(v) for an integer vector v = {ivec.tolist()} is not matrix(p) v')
        else:
            st_b, back_i = call(lambda: p(pi_, inverse=True))
            if st_b == 'ok' and not close(torch.as_tensor(back_i).to(torch.float64), ivec.to(torch.float64).expand(*mp.shape[:-2], 3) if mp.ndim > 2 else ivec.to(torch.float64), 1e-4):
                viol = viol or v('apply-int-inverse', 'p(p(v), inverse=True) != v for an integer vector v')
    fvec = vec.to(torch.float32)
    st_f, pf = call(lambda: p(fvec))
    if st_f == 'ok' and not close(torch.as_tensor(pf).to(torch.float64), (mp @ fvec.to(torch.float64)[..., None])[..., 0], 1e-5):
        viol = viol or v('apply-float32', 'p(v) for a single precision vector is not matrix(p) v')
    sdi = SpatialDimension(z=int(ivec[0]), y=int(ivec[1]), x=int(ivec[2]))
    st_s, psi = call(lambda: p(sdi))
    if st_s == 'ok' and st_i == 'ok':
        got_i = torch.stack([torch.as_tensor(psi.z), torch.as_tensor(psi.y), torch.as_tensor(psi.x)], -1).to(torch.float64)
        if not close(got_i, (mp @ ivec.to(torch.float64)[..., None])[..., 0], 1e-4):
            viol = viol or v('spatialdimension-int', 'applying to an integer SpatialDimension differs from matrix(p) applied to its (z, y, x) values')
    # SpatialDimension application
    sd = SpatialDimension(z=float(vec[0]), y=float(vec[1]), x=float(vec[2]))
    st, ps = call(lambda: p(sd))
    if st == 'ok':
        got = torch.stack([torch.as_tensor(ps.z), torch.as_tensor(ps.y), torch.as_tensor(ps.x)], -1).to(torch.float64)
        if not close(got, p(vec), 1e-6):
            viol = viol or v('spatialdimension', 'applying to a SpatialDimension differs from applying to the (z, y, x) vector')
    # as_directions: the columns of the matrix as (z, y, x) SpatialDimensions; from_directions rebuilds the same (also improper) rotation
    st, dirs = call(lambda: p.as_directions())
    if st == 'ok':
        colsd = [torch.stack([torch.as_tensor(d.z), torch.as_tensor(d.y), torch.as_tensor(d.x)], -1).to(torch.float64) for d in dirs]
        if any(not close(colsd[j], mp[..., :, j], 1e-6) for j in range(3)):
            viol = viol or v('as_directions', 'as_directions() are not the columns of as_matrix()')
        st2, back = call(lambda: Rotation.from_directions(*dirs))
        if st2 != 'ok' or not close(mats(back), mp, 1e-5):
            viol = viol or v('from_directions', 'from_directions(*as_directions()) is not the same rotation')
    else:
        viol = viol or v('as_directions-raises', f'as_directions raises {dirs}')
    # indexing / concatenate / reshape for batched p
    if case['shapes'][0]:
        idx = tuple(rng.randrange(s) for s in case['shapes'][0])
        if not close(mats(p[idx]), mp[idx]):
            viol = viol or v('getitem', 'p[idx].as_matrix() != p.as_matrix()[idx]')
        flat = p.reshape(-1)
        if not close(mats(flat), mp.reshape(-1, 3, 3)):
            viol = viol or v('reshape', 'reshape(-1) changes the rotations')
        cat = Rotation.concatenate([flat, flat])
        if not close(mats(cat), torch.cat([mp.reshape(-1, 3, 3)] * 2)):
            viol = viol or v('concatenate', 'concatenate changes the rotations')
    # ---- correspondence with the Lean model on one element
    def first(t):
        return t.reshape(-1, t.shape[-1])[0].tolist()

    qa = p.as_quat()
    qb = q.as_quat()
    qa0, qb0 = first(torch.atleast_2d(qa)), first(torch.atleast_2d(qb))
    ia0 = bool(torch.as_tensor(p.is_improper).reshape(-1)[0])
    m_mat = drv_rot(drv, 'toMat', q=qa0, improper=ia0)
    if not close(torch.tensor(m_mat, dtype=torch.float64).reshape(3, 3), mp.reshape(-1, 3, 3)[0]):
        corr = corr or f'{cfg}: as_matrix differs from the model'
    m_mul = drv_rot(drv, 'normalize', q=drv_rot(drv, 'mul', p=qa0, q=qb0))
    pq0 = first(torch.atleast_2d(pq.as_quat()))
    if not close(torch.tensor(m_mul, dtype=torch.float64), torch.tensor(pq0, dtype=torch.float64), 1e-12):
        corr = corr or f'{cfg}: quaternion of p @ q differs from the model: {pq0} vs {m_mul}'
    m_app = drv_rot(drv, 'apply', q=qa0, improper=ia0, v=vec.tolist(), inverse=False)
    if not close(torch.tensor(m_app, dtype=torch.float64), p(vec).reshape(-1, 3)[0], 1e-12):
        corr = corr or f'{cfg}: p(v) differs from the model'
    for n in (-3, 2, 5):
        fl = drv.call({'op': 'pow_flag', 'n': n, 'improper': ia0})
        st, pn = call(lambda n=n: p**n)
        if st == 'ok' and bool(torch.as_tensor(pn.is_improper).reshape(-1)[0]) != fl['flag']:
            corr = corr or f'{cfg}: improper flag of p ** {n} is {bool(torch.as_tensor(pn.is_improper).reshape(-1)[0])}, model {fl["flag"]}'
    return Outcome(key=('laws', str(case['shapes']), str(case['improper']), case['quat'], case['seed'] % 97), corr=corr, viol=viol,
                   branches=[f'improper:{"/".join(case["improper"])}', f'quat:{case["quat"]}', f'batched:{bool(case["shapes"][0])}'], sample=case)


def run_history(case, drv) -> Outcome:
    """sequences of in-place edits on a batched rotation vs a shadow list of matrices"""
    from mrpro.data import Rotation

    rng = random.Random(case['seed'])
    n = case['n']
    rot, _, _ = make_rot(rng, (n,), 'mixed', 'generic')
    shadow = mats(rot).clone()
    viol = None
    log = []
    for _ in range(case['steps']):
        op = rng.choice(['setitem', 'setitem_slice', 'improper_setter', 'read'])
        if op == 'setitem':
            i = rng.randrange(n)
            new, _, _ = make_rot(rng, (), rng.choice(['no', 'yes']), 'generic')
            rot[i] = new
            shadow[i] = mats(new)
            log.append(f'r[{i}] = rot')
        elif op == 'setitem_slice':
            new, _, _ = make_rot(rng, (2,), 'mixed', 'generic')
            if n >= 2:
                rot[0:2] = new
                shadow[0:2] = mats(new)
                log.append('r[0:2] = rots')
        elif op == 'improper_setter':
            i = rng.randrange(n)
            flags = torch.as_tensor(rot.is_improper).clone()
            flags[i] = ~flags[i]
            rot.is_improper = flags
            shadow[i] = -shadow[i]
            log.append(f'is_improper[{i}] flipped')
        if not close(mats(rot), shadow):
            viol = {'signature': f'history:{op}', 'what': f'after {log}: as_matrix differs from the element-wise expectation'}
            break
        det = torch.linalg.det(mats(rot))
        want = torch.where(torch.as_tensor(rot.is_improper), -1.0, 1.0).to(torch.float64)
        if not close(det, want, 1e-8):
            viol = {'signature': f'history:det:{op}', 'what': f'after {log}: determinant does not match is_improper'}
            break
    return Outcome(key=('history', n, case['steps'], case['seed'] % 31), viol=viol, branches=['history'], sample={**case, 'ops': log})


def run(case, drv) -> Outcome:
    return run_laws(case, drv) if case['kind'] == 'laws' else run_history(case, drv)
