"""C15 — re-organising k-space data keeps every sample with its location and header."""
import itertools
import math
import random
import warnings

import numpy as np
import torch

from harness.core import mrd
from harness.core.runner import Outcome
from harness.core.util import call

RULE = ('KData objects loaded from harness-written ISMRMRD files (other 1..3 x k2 1..3 x k1 2..6, stored trajectories so that data, trajectory and '
        'header each carry the readout identity); random sequences (length <= 4 quick / 7 thorough) of split_k1/k2_into_other (block / overlapping / '
        'cyclic split_idx), select_other_subset, rearrange_k2_k1_into_k1, remove_readout_os, compress_coils, prewhitening, dtype moves. After every '
        'step: identity grids of data / trajectory / header compared with each other (pairing), with the Lean index-map model, shapes mutually '
        'consistent, source object unchanged; value-changing steps checked by their own oracle (FOV invariance, orthogonal projection on the '
        'dominant coil subspace, unit noise covariance). distinct = distinct (layout, op sequence)')
ASSUMPTIONS = ['einops / torch indexing compute the index maps of the model (this is what the comparison checks)']
FREE_LABELS = ['phase', 'contrast', 'set', 'average', 'slice']  # the labels the API accepts (minus 'repetition', used for other)


def generate(rng: random.Random, tier: str):
    thorough = tier == 'thorough'
    cases = []
    for _ in range(250 if thorough else 40):
        n_rec = rng.choice([3, 4, 4, 5, 6])
        cases.append({'kind': 'seq', 'other': rng.choice([1, 1, 2, 3]), 'k2': rng.choice([1, 2, 3]), 'k1': rng.choice([2, 4, 6]), 'steps': rng.randint(1, 7 if thorough else 4),
                      'n_rec': n_rec, 'n_k0': rng.choice([2 * n_rec, 2 * n_rec, n_rec + 3, n_rec + 4]), 'seed': rng.randrange(1 << 30)})
    # coil compression with every way of naming the batch dimensions, on objects where the groups differ
    for variant in ['batch_other', 'joint_k', 'batch_k2', 'batch_k1', 'batch_other_k1', 'joint_other_k1_k0', 'batch_k1_k0'] * (3 if thorough else 1):
        cases.append({'kind': 'seq', 'other': rng.choice([2, 3]), 'k2': rng.choice([2, 3]), 'k1': rng.choice([2, 4]), 'steps': rng.randint(1, 3), 'n_rec': 4,
                      'n_k0': 8, 'first_op': 'compress', 'variant': variant, 'seed': rng.randrange(1 << 30)})
    return cases


def make_kdata(case, rng, n_k0=None, n_coils=3):
    # readout length and reconstruction matrix of every parity (2x oversampling and others)
    n_k0, n_rec = case.get('n_k0', 8), case.get('n_rec', 4)
    from mrpro.data import KData
    from mrpro.data.traj_calculators import KTrajectoryIsmrmrd

    acqs = []
    ident = 1
    for rep, k2, k1 in itertools.product(range(case['other']), range(case['k2']), range(case['k1'])):
        a = {'labels': {'k1': k1, 'k2': k2, 'repetition': rep}, 'id': ident, 'flags': 0}
        a['traj'] = np.stack([ident + 0.25 * np.arange(n_k0), -ident + 0 * np.arange(n_k0), 0.5 * ident + 0 * np.arange(n_k0)], -1).astype(np.float32)
        # every readout has its own orientation; odd readouts have a left-handed (read, phase, slice) frame
        ang = 0.1 * ident
        a['dirs'] = ((math.cos(ang), math.sin(ang), 0.0), (-math.sin(ang), math.cos(ang), 0.0), (0.0, 0.0, -1.0 if ident % 2 else 1.0))
        # asymmetric echoes / partial Fourier: the centre sample differs from readout to readout
        a['center_sample'] = n_k0 // 2 + (ident % 3) - 1
        acqs.append(a)
        ident += 1
    rng.shuffle(acqs)
    fn = mrd.write_file(acqs, n_k0=n_k0, n_coils=n_coils, enc_matrix=(n_k0, case['k1'], case['k2']), recon_matrix=(n_rec, case['k1'], case['k2']))
    return KData.from_file(fn, KTrajectoryIsmrmrd())


def grids(kd):
    """identity grid as seen through data, header and trajectory"""
    o, _, k2, k1, _ = kd.data.shape
    d = kd.data[:, 0, :, :, 0].real.round().to(torch.int64)
    h = kd.header.acq_info.scan_counter.reshape(o, k2, k1).to(torch.int64) if kd.header.acq_info.scan_counter.numel() == o * k2 * k1 else None
    full = (o, k2, k1, kd.data.shape[-1])
    # ky = -id for every sample of a readout (kx = id + 0.25 j would depend on the first retained sample)
    st, ky = call(lambda: (-torch.broadcast_to(kd.traj.ky, full)[..., 0]).round().to(torch.int64))
    return d, h, (ky if st == 'ok' else None)


def state(kd):
    """everything the source object shows to its user: tensors (values and in-place version), every per-readout header
    field, and the non-tensor header entries (encoding limits, matrices, ...) through their repr"""
    import dataclasses

    h = kd.header
    idx = h.acq_info.idx
    labels = tuple(getattr(idx, f.name).clone() for f in dataclasses.fields(idx) if torch.is_tensor(getattr(idx, f.name)))
    plain = repr((h.encoding_limits, h.recon_matrix, h.encoding_matrix, h.recon_fov, h.encoding_fov))
    return (kd.data.clone(), kd.traj.as_tensor().clone(), h.acq_info.scan_counter.clone(), *labels, kd.data._version, plain)


def run(case, drv) -> Outcome:
    import mrpro
    from mrpro.utils import split_idx

    warnings.filterwarnings('ignore')
    rng = random.Random(case['seed'])
    kd = make_kdata(case, rng)
    d0, _, _ = grids(kd)
    model_grid = d0.tolist()
    # orientation of every readout as loaded, by identity
    ids0 = kd.header.acq_info.scan_counter.flatten().tolist()
    om0 = kd.header.acq_info.orientation.as_matrix().reshape(-1, 3, 3).double()
    orient_by_id = {int(i): om0[j] for j, i in enumerate(ids0)}
    det0 = {i: float(torch.linalg.det(m)) for i, m in orient_by_id.items()}
    used = {'repetition'}
    viol = None
    corr = None
    if any(abs(det0[i] - (-1.0 if i % 2 else 1.0)) > 1e-4 for i in det0):
        viol = {'signature': 'kdata:load-orientation', 'what': f'other {case["other"]} k2 {case["k2"]} k1 {case["k1"]}: the loaded orientation of a readout does not have the handedness of its (read, phase, slice) directions'}
    log = []
    ops_model = []
    value_changed = False
    cfg = f'other {case["other"]} k2 {case["k2"]} k1 {case["k1"]} seed {case["seed"]}'

    def v(sig, what):
        return {'signature': f'kdata:{sig}', 'what': f'{cfg} after {log}: {what}'}

    for _ in range(case['steps']):
        o, c, k2, k1, k0 = kd.data.shape
        choices = ['select', 'merge', 'to']
        free = [l for l in FREE_LABELS if l not in used]
        if free and k1 >= 2:
            choices += ['split_k1', 'split_k1']
        if free and k2 >= 2:
            choices += ['split_k2']
        if not value_changed:
            choices += ['remove_os', 'compress']
        op = rng.choice(choices)
        if case.get('first_op') and not log:
            op = case['first_op']
        before = state(kd)
        src = kd
        if op in ('split_k1', 'split_k2'):
            n = k1 if op == 'split_k1' else k2
            size = rng.choice([s for s in range(1, n + 1) if n % s == 0])
            overlap = rng.choice([0, 0, size - 1 if size > 1 else 0])
            cyclic = rng.random() < 0.3
            sidx = split_idx(torch.arange(n), size, overlap, cyclic)
            m = drv.call({'op': 'split_idx', 'n': n, 'size': size, 'overlap': overlap, 'cyclic': cyclic})
            if sidx.tolist() != m['idx']:
                corr = corr or f'{cfg}: split_idx({n},{size},{overlap},{cyclic}) = {sidx.tolist()} vs model {m["idx"]}'
            label = free[0]
            used.add(label)
            log.append(f'{op}(blocks {sidx.tolist()}, {label})')
            st, new = call(lambda: (kd.split_k1_into_other if op == 'split_k1' else kd.split_k2_into_other)(sidx, label))
            ops_model.append({'t': 'splitK1' if op == 'split_k1' else 'splitK2', 'idx': sidx.tolist()})
            if st == 'ok':
                lab = getattr(new.header.acq_info.idx, label)
                ml = drv.call({'op': 'split_label', 'n_other': o, 'idx': sidx.tolist(), 'k2': new.data.shape[2], 'k1': new.data.shape[3]})['grid']
                if list(lab.shape[:3]) != [new.data.shape[0], new.data.shape[2], new.data.shape[3]]:
                    viol = viol or v('label-shape', f'the new label {label} has shape {list(lab.shape)} but the data has (other, k2, k1) = {[new.data.shape[0], new.data.shape[2], new.data.shape[3]]}')
                elif lab.to(torch.int64).tolist() != ml:
                    corr = corr or f'{cfg} after {log}: label values differ from the model'
        elif op == 'select':
            label = 'repetition'
            vals = kd.header.acq_info.idx.repetition[:, 0, 0].tolist()
            subset = rng.sample(sorted(set(vals)), rng.randint(1, len(set(vals))))
            log.append(f'select(repetition in {subset})')
            st, new = call(lambda: kd.select_other_subset(torch.tensor(subset), 'repetition'))
            ops_model.append({'t': 'select', 'labelOf': [int(x) for x in vals], 'subset': [int(x) for x in subset]})
        elif op == 'merge':
            log.append('rearrange_k2_k1_into_k1')
            st, new = call(lambda: kd.rearrange_k2_k1_into_k1())
            ops_model.append({'t': 'merge'})
        elif op == 'to':
            log.append('to(complex128)')
            st, new = call(lambda: kd.to(torch.complex128))
        elif op == 'remove_os':
            log.append('remove_readout_os')
            st, new = call(lambda: kd.remove_readout_os())
            value_changed = True
            if st == 'ok':
                # image inside the reduced field of view is unchanged
                F = mrpro.operators.FastFourierOp(dim=(-1,))
                img_full = F.H(kd.data)[0]
                img_new = F.H(new.data)[0]
                n_new = new.data.shape[-1]
                # the reduced field of view is centred: the centre pixel (index n//2, position 0 of the centred FFT convention)
                # stays the centre pixel
                s0 = k0 // 2 - n_new // 2
                if n_new != kd.header.recon_matrix.x or not torch.allclose(img_new, img_full[..., s0:s0 + n_new], atol=1e-4):
                    viol = viol or v(f'remove_os-fov:{"even" if k0 % 2 == 0 else "odd"}->{"even" if n_new % 2 == 0 else "odd"}',
                                     f'the image inside the (centred) reduced field of view changed: readout {k0} -> {n_new}')
                if list(new.traj.kx.shape[-1:]) not in ([n_new], [1]) or int(new.header.acq_info.number_of_samples.flatten()[0]) != n_new:
                    viol = viol or v('remove_os-shapes', 'trajectory / header sample counts do not match the cropped data')
                # the centre sample of every readout still points at the same sample: shifted by the samples cropped in front
                cs_old = kd.header.acq_info.center_sample.flatten().to(torch.int64)
                cs_new = new.header.acq_info.center_sample.flatten().to(torch.int64)
                if cs_new.shape != cs_old.shape or not torch.equal(cs_new, cs_old - s0):
                    viol = viol or v('remove_os-center_sample', f'center_sample of the readouts is {cs_new.tolist()[:6]} after cropping {s0} samples in front, it was {cs_old.tolist()[:6]}')
        else:
            variant = rng.choice(['default', 'default', 'batch_other', 'joint_k', 'batch_k2', 'batch_k1', 'batch_other_k1', 'joint_other_k1_k0', 'batch_k1_k0'])
            if case.get('variant') and len(log) == 0:
                variant = case['variant']
            kwargs = {'default': {}, 'batch_other': {'batch_dims': (0,)}, 'joint_k': {'joint_dims': (-3, -2, -1)}, 'batch_k2': {'batch_dims': (2,)},
                      'batch_k1': {'batch_dims': (-2,)}, 'batch_other_k1': {'batch_dims': (0, 3)}, 'joint_other_k1_k0': {'joint_dims': (0, -1, -2)},
                      'batch_k1_k0': {'batch_dims': (-2, -1)}}[variant]
            # the dimensions (of other, coils, k2, k1, k0) whose entries get a compression matrix of their own
            bdims = {'default': [], 'batch_other': [0], 'joint_k': [0], 'batch_k2': [2], 'batch_k1': [3], 'batch_other_k1': [0, 3],
                     'joint_other_k1_k0': [2], 'batch_k1_k0': [3, 4]}[variant]
            log.append(f'compress_coils(2, {variant})')
            # generic coil data (the identity-carrying data have rank 2 over the coils): every (other, k2, k1) entry gets its own
            # coil weighting so that the dominant coil subspace differs from group to group
            gen = torch.Generator().manual_seed(case['seed'] % (2 ** 31))
            prof = 0.2 + 3 * torch.rand((o, c, k2, k1, 1), generator=gen)
            noise = torch.randn(kd.data.shape, generator=gen) + 1j * torch.randn(kd.data.shape, generator=gen)
            kd = type(kd)(header=kd.header, data=(kd.data + prof * noise).to(kd.data.dtype), traj=kd.traj)
            src, before = kd, state(kd)
            st, new = call(lambda: kd.compress_coils(2, **kwargs))
            value_changed = True
            if st == 'ok':
                # per group of samples that share one compression matrix (everything, or one `other` entry): the new coil data are
                # M applied to the old ones with orthonormal rows M, and M spans the dominant subspace of the (coil-mean-removed) data
                groups = [tuple(slice(g[bdims.index(d)], g[bdims.index(d)] + 1) if d in bdims else slice(None) for d in range(5))
                          for g in itertools.product(*[range(kd.data.shape[d]) for d in bdims])]
                for gsl in groups:
                    D = kd.data[gsl].permute(0, 2, 3, 4, 1).reshape(-1, c).to(torch.complex128)
                    Y = new.data[gsl].permute(0, 2, 3, 4, 1).reshape(-1, 2).to(torch.complex128)
                    sol = torch.linalg.lstsq(D, Y).solution  # (c, 2) = M^T
                    M = sol.T
                    if float((D @ sol - Y).abs().nan_to_num(nan=float('inf')).max()) > 1e-3 * max(1.0, float(Y.abs().max())):
                        viol = viol or v('compress-linear', f'compressed data ({variant}) are not one matrix applied to the coil axis of the group')
                        break
                    if torch.linalg.matrix_rank(D) >= c and not torch.allclose(M @ M.conj().T, torch.eye(2, dtype=torch.complex128), atol=1e-3):
                        viol = viol or v('compress-orthonormal', f'compression matrix ({variant}) rows are not orthonormal')
                        break
                    Dc = D - D.mean(-1, keepdim=True)
                    ev = torch.linalg.eigvalsh(Dc.T @ Dc.conj())
                    best = float(ev[-2:].sum() / ev.sum())
                    captured = float(((M @ Dc.T).abs() ** 2).sum() / (Dc.abs() ** 2).sum())
                    if torch.linalg.matrix_rank(D) >= c and captured < best - 1e-3:
                        viol = viol or v('compress-dominant', f'coil compression ({variant}) keeps {captured:.4f} of the signal energy, the dominant 2-dimensional coil subspace holds {best:.4f}')
                        break
        if st != 'ok':
            viol = viol or v(f'{op}-raises', f'{op} raises {new}')
            break
        # source unchanged
        after = state(src)
        if not all(torch.equal(a, b) if torch.is_tensor(a) else a == b for a, b in zip(before, after)):
            viol = viol or v(f'{op}-mutates-source', 'the source object was modified')
        if new is src and op not in ('to',):
            pass
        kd = new
        # pairing and shapes
        dg, hg, tg = grids(kd)
        o, c, k2, k1, k0 = kd.data.shape
        tshape = kd.traj.broadcasted_shape
        ok_shapes = hg is not None and tg is not None and tshape[0] in (1, o) and list(tshape[1:3]) == [k2, k1] and tshape[3] in (1, k0)
        if not ok_shapes:
            viol = viol or v(f'{op}-shapes', f'shapes of data {list(kd.data.shape)}, trajectory {list(tshape)} and header {list(kd.header.acq_info.scan_counter.shape)} are not mutually consistent')
            break
        if not torch.equal(hg, tg):
            viol = viol or v(f'{op}-pairing', 'header entries and trajectory are no longer paired position by position')
        st_o, om = call(lambda: kd.header.acq_info.orientation.as_matrix().reshape(-1, 3, 3).double())
        if st_o == 'ok' and om.shape[0] == hg.numel():
            want_o = torch.stack([orient_by_id[int(i)] for i in hg.flatten()])
            if not torch.allclose(om, want_o, atol=1e-5):
                bad = int(((om - want_o).abs().amax((-1, -2)) > 1e-5).sum())
                viol = viol or v(f'{op}-orientation', f'the per-readout orientation of {bad} readouts is no longer the one they were acquired with (e.g. a left-handed frame became right-handed)')
        if not value_changed and not torch.equal(dg, hg):
            viol = viol or v(f'{op}-pairing', 'data and header entries are no longer paired position by position')
        m = drv.call({'op': 'kdata_ops', 'grid': model_grid, 'ops': ops_model})
        if hg.tolist() != m['grid']:
            corr = corr or f'{cfg} after {log}: identity grid {hg.tolist()} differs from the model {m["grid"]}'
        if viol:
            break
    return Outcome(key=('seq', case['other'], case['k2'], case['k1'], tuple(log)), corr=corr, viol=viol, branches=[l.split('(')[0] for l in log], sample={**case, 'ops': log})
