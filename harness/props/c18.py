"""C18 — moving or converting data preserves content, dtype kind and aliasing rules."""
import itertools
import random
import warnings

import numpy as np
import torch

from harness.core import mrd
from harness.core.runner import Outcome
from harness.core.util import call

RULE = ('containers {KData (with KHeader, AcqInfo, AcqIdx, Rotation, SpatialDimension fields), KTrajectory, IData, QData, CsmData, DcfData, KNoise, '
        'SpatialDimension of tensors, Rotation} x overloads {to(dtype), to(device), to(tensor), double(), single(), half(), cpu(), clone()} x dtypes '
        '{float16/32/64, complex64/128} x copy flag x aliasing patterns (same tensor object in two fields). The object graph is walked before and after; '
        'alias partition, dtype of every leaf and the freshness of its memory are compared with the Lean model; values, dtype kinds and the '
        'unchanged source are checked on the real objects. distinct = distinct (container, overload, dtype, copy, alias pattern)')
ASSUMPTIONS = ['torch storage semantics (Tensor.to returns self when nothing changes) are the model parameter `resultId`', 'CPU only in this sandbox']
CONTAINERS = ['KData', 'KTrajectory', 'IData', 'QData', 'CsmData', 'DcfData', 'KNoise', 'SpatialDimension', 'KHeader']  # Rotation is converted as a field (it is a torch Module, not a MoveDataMixin)
OVERLOADS = ['to_dtype', 'to_dtype_kw', 'to_device', 'to_tensor', 'double', 'single', 'half', 'cpu', 'clone', 'apply_none', 'apply_identity', 'apply_inplace']
DTYPES = {'float16': torch.float16, 'float32': torch.float32, 'float64': torch.float64, 'complex64': torch.complex64, 'complex128': torch.complex128}
KIND = {torch.bool: ('bool', 8), torch.int16: ('int', 16), torch.int32: ('int', 32), torch.int64: ('int', 64), torch.uint8: ('int', 8), torch.float16: ('float', 16),
        torch.float32: ('float', 32), torch.float64: ('float', 64), torch.complex32: ('complex', 32), torch.complex64: ('complex', 64), torch.complex128: ('complex', 128)}


def generate(rng: random.Random, tier: str):
    thorough = tier == 'thorough'
    cases = []
    for _ in range(500 if thorough else 70):
        cases.append({'kind': 'move', 'container': rng.choice(CONTAINERS), 'overload': rng.choice(OVERLOADS), 'dtype': rng.choice(list(DTYPES)),
                      'copy': rng.random() < 0.5, 'alias': rng.choice(['none', 'none', 'pair', 'triple', 'views']), 'src_double': rng.random() < 0.35,
                      'seed': rng.randrange(1 << 30)})
    # systematic: containers holding modules (the Rotation in acq_info.orientation) x source precision x every target dtype, without copy:
    # a conversion must never be done in place on the source's module
    for cont in ('KData', 'KHeader', 'IData'):
        for dbl in (False, True):
            for ov in (('to_dtype', 'to_tensor') if thorough else (rng.choice(['to_dtype', 'to_tensor']),)):
                for dt in DTYPES:
                    cases.append({'kind': 'move', 'container': cont, 'overload': ov, 'dtype': dt, 'copy': False, 'alias': 'none', 'src_double': dbl,
                                  'seed': rng.randrange(1 << 30)})
    return cases


_kdata_cache = {}


def make_container(name, rng):
    import mrpro
    from mrpro.data import CsmData, DcfData, IData, IHeader, KData, KNoise, KTrajectory, QData, QHeader, Rotation, SpatialDimension
    from mrpro.data.traj_calculators import KTrajectoryCartesian

    warnings.filterwarnings('ignore')
    if name in ('KData', 'KHeader', 'IData', 'QData', 'CsmData'):
        if 'kd' not in _kdata_cache:
            acqs = [{'labels': {'k1': k1, 'k2': 0, 'repetition': r}, 'id': 1 + k1 + 4 * r, 'flags': 0} for r in range(2) for k1 in range(4)]
            fn = mrd.write_file(acqs, n_k0=4, n_coils=2, enc_matrix=(4, 4, 1))
            _kdata_cache['kd'] = KData.from_file(fn, KTrajectoryCartesian())
        kd = _kdata_cache['kd'].clone()
        if name == 'KData':
            return kd
        if name == 'KHeader':
            return kd.header
        img = torch.randn(2, 2, 1, 4, 4, dtype=torch.complex64)
        if name == 'IData':
            return IData(img, IHeader.from_kheader(kd.header))
        if name == 'QData':
            return QData(img.real.contiguous(), QHeader.from_kheader(kd.header))
        return CsmData(img, QHeader.from_kheader(kd.header))
    if name == 'KTrajectory':
        return KTrajectory(torch.randn(1, 1, 1, 1), torch.randn(1, 1, 3, 1), torch.randn(1, 1, 1, 4), repeat_detection_tolerance=None)
    if name == 'DcfData':
        return DcfData(torch.rand(1, 1, 3, 4))
    if name == 'KNoise':
        return KNoise(torch.randn(1, 2, 1, 1, 8, dtype=torch.complex64))
    if name == 'SpatialDimension':
        return SpatialDimension(torch.randn(2), torch.randn(2), torch.randint(0, 5, (2,)))
    if name == 'Rotation':
        return Rotation.from_quat(torch.randn(3, 4))
    raise KeyError(name)


def walk(obj, path='', seen_modules=None):
    """(path, tensor) for every tensor reachable through the fields the mixin converts"""
    from mrpro.data.MoveDataMixin import MoveDataMixin

    if isinstance(obj, torch.Tensor):
        yield path, obj
    elif isinstance(obj, MoveDataMixin):
        for name, data in obj._items():
            yield from walk(data, f'{path}.{name}')
    elif isinstance(obj, torch.nn.Module):
        for name, p in list(obj._parameters.items()) + list(obj._buffers.items()):
            if p is not None:
                yield f'{path}.{name}', p
        for name, m in obj._modules.items():
            yield from walk(m, f'{path}.{name}')


def walk_other(obj, path=''):
    """(path, value) for every field that is neither a tensor nor a module nor a nested container: plain python objects such as
    encoding limits, lists, dicts, strings"""
    from mrpro.data.MoveDataMixin import MoveDataMixin

    if isinstance(obj, MoveDataMixin):
        for name, data in obj._items():
            if isinstance(data, MoveDataMixin):
                yield from walk_other(data, f'{path}.{name}')
            elif not isinstance(data, (torch.Tensor, torch.nn.Module)):
                yield f'{path}.{name}', data


def scramble(o, depth=0):
    """modify a python object in place as deeply as possible (what a user does to a copy); returns how many places were modified"""
    n = 0
    if depth > 4:
        return 0
    if isinstance(o, list):
        for e in o:
            n += scramble(e, depth + 1)
        o.append('edited-in-the-copy')
        return n + 1
    if isinstance(o, dict):
        for e in o.values():
            n += scramble(e, depth + 1)
        o['edited-in-the-copy'] = 1
        return n + 1
    if hasattr(o, '__dict__') and not isinstance(o, (type, torch.Tensor, torch.nn.Module)):
        for k, v_ in list(vars(o).items()):
            if isinstance(v_, bool) or v_ is None or isinstance(v_, str):
                continue
            if isinstance(v_, (int, float)):
                try:
                    setattr(o, k, v_ + 12345)
                    n += 1
                except Exception:  # noqa: BLE001  (frozen objects cannot be edited - nothing to protect)
                    pass
            else:
                n += scramble(v_, depth + 1)
    return n


def set_path(obj, path, value):
    parts = path.strip('.').split('.')
    for p in parts[:-1]:
        obj = getattr(obj, p)
    object.__setattr__(obj, parts[-1], value)


def run(case, drv) -> Outcome:
    warnings.filterwarnings('ignore')
    rng = random.Random(case['seed'])
    torch.manual_seed(case['seed'])
    src = make_container(case['container'], rng)
    if case.get('src_double'):
        st, src = call(lambda: src.double(copy=True))  # a double-precision source (float64 / complex128 fields and modules)
        if st != 'ok':
            return Outcome(key=('move-raises', case['container'], 'double'), viol={'signature': f'move:raises:{case["container"]}:double', 'what': f'double(copy=True) raises {src}'})
    cfg = f'{case["container"]}{"(double precision)" if case.get("src_double") else ""}.{case["overload"]}({case["dtype"]}, copy={case["copy"]}) alias {case["alias"]}'
    # ---- aliasing pattern: make several plain-tensor fields of equal dtype/shape the very same object
    leaves = list(walk(src))
    plain = [(p, t) for p, t in leaves if not isinstance(t, torch.nn.Parameter)]
    if case['alias'] == 'views' and len(plain) >= 2:
        # two different fields that are views of one buffer starting at the same address, with different shapes
        by_dtype = {}
        for p, t in plain:
            if t.numel() >= 1 and t.is_contiguous():
                by_dtype.setdefault(t.dtype, []).append((p, t))
        cands = [g for g in by_dtype.values() if len(g) >= 2 and len({tuple(t.shape) for _, t in g}) >= 2]
        if cands:
            g = sorted(rng.choice(cands), key=lambda pt: -pt[1].numel())
            (pa, ta) = g[0]
            (pb, tb) = next((p, t) for p, t in g[1:] if tuple(t.shape) != tuple(ta.shape))
            view = ta.detach().reshape(-1)[: tb.numel()].reshape(tb.shape)
            call(lambda: set_path(src, pb, view))
    elif case['alias'] != 'none' and len(plain) >= 2:
        groups = {}
        for p, t in plain:
            groups.setdefault((t.dtype, tuple(t.shape)), []).append(p)
        cands = [g for g in groups.values() if len(g) >= (3 if case['alias'] == 'triple' else 2)]
        if cands:
            g = rng.choice(cands)
            chosen = rng.sample(g, 3 if case['alias'] == 'triple' else 2)
            shared = dict(leaves)[chosen[0]]
            for p in chosen[1:]:
                st, _ = call(lambda p=p: set_path(src, p, shared))
    leaves = list(walk(src))
    ids = {}
    for _, t in leaves:
        ids.setdefault(id(t), len(ids))
    snap = [(p, ids[id(t)], t.dtype, t.detach().clone(), t._version, t.untyped_storage().data_ptr() if t.numel() else 0) for p, t in leaves]
    dt = DTYPES[case['dtype']]
    ov = case['overload']
    copy = case['copy']
    target = dt
    if ov == 'to_dtype':
        f = lambda: src.to(dt, copy=copy)  # noqa: E731
    elif ov == 'to_dtype_kw':
        f = lambda: src.to(dtype=dt, copy=copy)  # noqa: E731
    elif ov == 'to_device':
        f = lambda: src.to('cpu', copy=copy)  # noqa: E731
        target = None
    elif ov == 'to_tensor':
        f = lambda: src.to(torch.zeros(1, dtype=dt), copy=copy)  # noqa: E731
    elif ov == 'double':
        f, target = (lambda: src.double(copy=copy)), torch.float64
    elif ov == 'single':
        f, target = (lambda: src.single(copy=copy)), torch.float32
    elif ov == 'half':
        f, target = (lambda: src.half(copy=copy)), torch.float16
    elif ov == 'cpu':
        f, target = (lambda: src.cpu(copy=copy)), None
    elif ov == 'apply_none':  # apply() is documented as "returns a new object": the semantics of clone() followed by the function
        f, target, copy = (lambda: src.apply(None)), None, True
    elif ov == 'apply_identity':
        f, target, copy = (lambda: src.apply(lambda x: x)), None, True
    elif ov == 'apply_inplace':
        # a function that works in place on what it is given (negates floating point tensors): the result is negated, the source is not
        def _neg(x):
            if isinstance(x, torch.Tensor) and not isinstance(x, torch.nn.Parameter) and (x.is_floating_point() or x.is_complex()):
                x.neg_()
            return x
        f, target, copy = (lambda: src.apply(_neg)), None, True
    else:
        f, target, copy = (lambda: src.clone()), None, True
    negated = ov == 'apply_inplace'
    st, new = call(f)
    if st != 'ok':
        return Outcome(key=('move-raises', cfg), viol={'signature': f'move:raises:{case["container"]}:{ov}', 'what': f'{cfg} raises {new}'}, branches=[f'raises:{ov}'])
    viol = None
    corr = None

    def v(sig, what):
        return {'signature': f'move:{sig}', 'what': f'{cfg}: {what}'}

    new_leaves = list(walk(new))
    if [p for p, _ in new_leaves] != [p for p, _, *_ in snap]:
        viol = v('structure', f'the result has different fields: {[p for p, _ in new_leaves][:6]} vs {[s[0] for s in snap][:6]}')
        return Outcome(key=('move', cfg), viol=viol, branches=[case['container'], ov])
    # ---- model
    tree = {'n': [{'id': i, 'kind': KIND[d][0], 'bits': KIND[d][1]} for _, i, d, *_ in snap]}
    m = drv.call({'op': 'move', 'tree': tree, 'copy': copy, 'target': None if target is None else {'kind': KIND[target][0], 'bits': KIND[target][1]}})
    nid = {}
    for _, t in new_leaves:
        nid.setdefault(id(t), len(nid))
    src_ptrs = {s[5] for s in snap if s[5]}
    for (p, t), ml, s in zip(new_leaves, m['leaves'], snap, strict=True):
        k = KIND[t.dtype]
        if [k[0], k[1]] != [ml['kind'], ml['bits']]:
            corr = corr or f'{cfg}: dtype of {p} is {t.dtype}, model {ml["kind"]}{ml["bits"]}'
    # alias partition: result object identity classes vs model ids
    part_impl = [nid[id(t)] for _, t in new_leaves]
    canon = {}
    part_model = [canon.setdefault(ml['id'], len(canon)) for ml in m['leaves']]
    if part_impl != part_model:
        corr = corr or f'{cfg}: alias partition of the result {part_impl} differs from the model {part_model}'
    # ---- property-level oracle on the real objects
    part_src = [s[1] for s in snap]
    canon2 = {}
    part_src = [canon2.setdefault(i, len(canon2)) for i in part_src]
    if part_impl != part_src:
        viol = viol or v('alias', f'fields that were one object in the source are {part_impl} in the result (source partition {part_src})')
    for (p, t), s in zip(new_leaves, snap, strict=True):
        _, _, d0, val0, ver0, ptr0 = s
        k0, k1 = KIND[d0][0], KIND[t.dtype][0]
        if k0 != k1:
            viol = viol or v('dtype-kind', f'{p}: {d0} became {t.dtype}')
        if k0 in ('int', 'bool') and t.dtype != d0:
            viol = viol or v('int-changed', f'{p}: integer/bool tensor changed dtype {d0} -> {t.dtype}')
        tol = 1e-2 if t.dtype in (torch.float16, torch.complex32) else 1e-6
        tv = -t.detach() if negated and not isinstance(t, torch.nn.Parameter) and k0 in ('float', 'complex') else t.detach()
        if not torch.allclose(tv.to(val0.dtype if k0 in ('int', 'bool') else (torch.complex128 if k0 == 'complex' else torch.float64)),
                              val0.to(torch.complex128 if k0 == 'complex' else (val0.dtype if k0 in ('int', 'bool') else torch.float64)), rtol=tol, atol=tol, equal_nan=True):
            viol = viol or v('values', f'{p}: values changed beyond the requested precision')
        if copy and t.numel() and t.untyped_storage().data_ptr() in src_ptrs:
            viol = viol or v('shares-memory', f'{p}: shares memory with the source although a copy was requested')
    # plain python fields (encoding limits, misc dicts, lists): editing them in a copy must not reach the source
    if copy and viol is None:
        before_other = [(p_, repr(val)) for p_, val in walk_other(src)]
        edited = 0
        for p_, val in walk_other(new):
            st_e, n_e = call(lambda val=val: scramble(val))
            edited += n_e if st_e == 'ok' else 0
        after_other = [(p_, repr(val)) for p_, val in walk_other(src)]
        if edited and before_other != after_other:
            changed = [a[0] for a, b in zip(before_other, after_other) if a != b]
            viol = v('shares-python-field', f'editing the plain python fields of the copy changed the source fields {changed[:4]}')
    # source unchanged
    for (p, t), s in zip(walk(src), snap, strict=True):
        _, _, d0, val0, ver0, ptr0 = s
        if t.dtype != d0 or not torch.equal(t.detach(), val0) if t.dtype == d0 else True:
            viol = viol or v('source-modified', f'the source field {p} was modified (dtype {d0} -> {t.dtype})')
    return Outcome(key=('move', case['container'], ov, case['dtype'], copy, case['alias']), corr=corr, viol=viol,
                   branches=[case['container'], ov, f'copy:{copy}', f'alias:{case["alias"]}', case['dtype']], sample={**case, 'n_leaves': len(snap), 'alias_classes': len(set(part_src))})
