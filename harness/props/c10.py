"""C10 — calls are pure: arguments, operators and source objects are never mutated."""
import itertools
import random
import warnings

import torch

from harness.core import mrd, zoo, zoo_kernels
from harness.core.runner import Outcome
from harness.core.util import call, int_tensor

RULE = ('random call histories (25 calls quick / 60 thorough) over shared objects: 11 linear operators (forward/adjoint/gram/.H on varying inputs, '
        'views and expanded tensors, real and complex dtypes), 5 functionals (forward/prox/prox_convex_conj with python-scalar and tensor sigma), '
        'cg/adam/lbfgs, direct / iterative / regularised iterative SENSE reconstruction, csm estimation (walsh, inati), prewhitening, KData '
        'transformations, trajectory calculators. After every call: value and in-place version of every argument, every operator buffer/parameter '
        'and every data object are compared with their snapshot; every call is repeated later in the history and on a fresh instance and must '
        'return the same value. distinct = distinct (object kind, call, argument kind) triples')
ASSUMPTIONS = ['Tensor._version detects in-place writes of torch kernels', 'the specification (stateless transition system) is the Lean model; refinement by this check']


def generate(rng: random.Random, tier: str):
    thorough = tier == 'thorough'
    # one systematic sweep (every functional x call x sigma kind, every operator x call) plus random histories
    return [{'kind': 'history', 'length': 0, 'sweep': True, 'seed': rng.randrange(1 << 30)}] + [
        {'kind': 'history', 'length': 60 if thorough else 25, 'seed': rng.randrange(1 << 30)} for _ in range(40 if thorough else 8)]


class Watch:
    def __init__(self):
        self.items = {}

    def add(self, name, t):
        if isinstance(t, torch.Tensor):
            self.items[name] = (t, self._val(t), t._version)

    @staticmethod
    def _val(t):
        return (t.to_dense() if t.layout != torch.strided else t).detach().clone()

    def add_module(self, name, m):
        for k, v in itertools.chain(m.named_parameters(), m.named_buffers()):
            self.add(f'{name}.{k}', v)

    def add_data(self, name, obj):
        from harness.props.c18 import walk

        for p, t in walk(obj):
            self.add(f'{name}{p}', t)

    def changed(self):
        out = []
        for name, (t, val, ver) in self.items.items():
            if t._version != ver or t.shape != val.shape or t.dtype != val.dtype or not torch.equal(self._val(t), val):
                out.append(name)
        return out


def make_kdata(rng, n=4, coils=2):
    from mrpro.data import KData
    from mrpro.data.traj_calculators import KTrajectoryCartesian

    acqs = [{'labels': {'k1': k1, 'k2': 0}, 'id': 1 + k1, 'flags': 0} for k1 in range(n)]
    fn = mrd.write_file(acqs, n_k0=n, n_coils=coils, enc_matrix=(n, n, 1))
    kd = KData.from_file(fn, KTrajectoryCartesian())
    g = torch.Generator().manual_seed(rng.randrange(1 << 30))
    object.__setattr__(kd, 'data', torch.randn(kd.data.shape, dtype=torch.complex64, generator=g))
    return kd


def same(a, b, tol=1e-5):
    if isinstance(a, (tuple, list)):
        return len(a) == len(b) and all(same(x, y, tol) for x, y in zip(a, b))
    if hasattr(a, 'data') and not isinstance(a, torch.Tensor):
        return same(a.data, b.data, tol)
    return a.shape == b.shape and torch.allclose(a, b, rtol=tol, atol=tol, equal_nan=True)


def run(case, drv) -> Outcome:
    import mrpro
    from mrpro.algorithms.optimizers import adam, cg, lbfgs
    from mrpro.algorithms.reconstruction import DirectReconstruction, IterativeSENSEReconstruction, RegularizedIterativeSENSEReconstruction
    from mrpro.data import CsmData, KNoise, SpatialDimension
    from mrpro.operators.functionals import L1Norm, L1NormViewAsReal, L2NormSquared, MSE, ZeroFunctional

    warnings.filterwarnings('ignore')
    rng = random.Random(case['seed'])
    torch.manual_seed(case['seed'])
    watch = Watch()
    viol = None
    log = []
    first_results = {}
    branches = []

    # ---- shared objects
    ops = {}
    for kind in ['zeropad', 'fd', 'sens', 'dcf', 'einsum', 'cartsamp']:
        b = zoo.build(zoo.gen_config(kind, rng))
        ops[kind] = (b.op, b.dom, b.rng, lambda k=kind, cfgb=b.cfg: zoo.build(cfgb).op)
    for kind in ['fft', 'wavelet', 'gridsample', 'fourier_nufft', 'sliceproj']:
        cfg = zoo_kernels.gen_config(kind, rng)
        op, dom, rg, _ = zoo_kernels.build(cfg)
        ops[kind] = (op, dom, rg, lambda cfg=cfg: zoo_kernels.build(cfg)[0])
    # operator algebra whose first summand / factor hands its argument through (identity-like): results built by accumulation
    # must not accumulate into the caller's tensor
    bd = zoo.build(zoo.gen_config('dcf', rng))
    if list(bd.dom) == list(bd.rng):
        ident = mrpro.operators.IdentityOp
        ops['sum(identity first)'] = (ident() + bd.op + bd.op, bd.dom, bd.rng, lambda cfgb=bd.cfg: ident() + zoo.build(cfgb).op + zoo.build(cfgb).op)
        ops['sum(identity twice)'] = (ident() + ident() + bd.op, bd.dom, bd.rng, lambda cfgb=bd.cfg: ident() + ident() + zoo.build(cfgb).op)
    for k, (op, *_rest) in ops.items():
        watch.add_module(f'op[{k}]', op)
    shape_f = (2, 3, 4)
    funs = {'L1Norm': L1Norm(weight=torch.rand(shape_f) + 0.5, target=torch.randn(shape_f), dim=(-1,)), 'L1NormViewAsReal': L1NormViewAsReal(weight=2.0, target=torch.randn(shape_f)),
            'L2NormSquared': L2NormSquared(weight=torch.rand(4) + 0.5, target=1.0, divide_by_n=True), 'MSE': MSE(target=torch.randn(shape_f)), 'ZeroFunctional': ZeroFunctional()}
    for k, f in funs.items():
        watch.add_module(f'fun[{k}]', f)
    # objects that accept inputs of different shapes / ranks: the result must not depend on what the instance saw before
    flex_ctor = {
        'L1Norm(divide_by_n)': lambda: L1Norm(weight=2.0, target=0.5, divide_by_n=True),
        'MSE()': lambda: MSE(target=0.25),
        'L2NormSquared(divide_by_n)': lambda: L2NormSquared(weight=0.5, divide_by_n=True),
        'L1NormViewAsReal(divide_by_n)': lambda: L1NormViewAsReal(weight=1.5, divide_by_n=True),
        'FastFourierOp(dim=(-2,-1))': lambda: mrpro.operators.FastFourierOp(dim=(-2, -1)),
        'FastFourierOp(dim=(-1,),pad)': lambda: mrpro.operators.FastFourierOp(dim=(-1,), recon_matrix=(6,), encoding_matrix=(8,)),
        'ZeroPadOp(dim=(-1,-2))': lambda: mrpro.operators.ZeroPadOp(dim=(-1, -2), original_shape=(6, 4), padded_shape=(7, 6)),
        'FiniteDifferenceOp(dim=(-1,))': lambda: mrpro.operators.FiniteDifferenceOp(dim=(-1,), mode='forward'),
        'WaveletOp(dim=(-2,-1))': lambda: mrpro.operators.WaveletOp(domain_shape=(4, 6), dim=(-2, -1), wavelet_name='haar', level=1),
    }
    flex = {k: c() for k, c in flex_ctor.items()}
    for k, f in flex.items():
        watch.add_module(f'flex[{k}]', f)
    flex_shapes = [(4, 6), (2, 4, 6), (2, 1, 4, 6), (5, 4, 6)]
    kd = make_kdata(rng)
    watch.add_data('kdata', kd)
    noise = KNoise(torch.randn(1, 2, 1, 1, 32, dtype=torch.complex64))
    watch.add_data('noise', noise)
    csm_t = torch.randn(1, 2, 1, 4, 4, dtype=torch.complex64)
    H = mrpro.operators.EinsumOp(torch.tensor([[4.0, 1.0], [1.0, 3.0]]))
    watch.add_module('H', H)

    def dtype_for(kind):
        return torch.complex64 if kind in ('sliceproj',) else rng.choice([torch.complex128, torch.complex128, torch.float64]) if kind not in ('fourier_nufft', 'fft') else torch.complex128

    def make_arg(shape, dt, how):
        x = torch.randn(*shape, dtype=dt)
        if how == 'view':
            big = torch.randn(2, *shape, dtype=dt)
            watch.add(f'arg-base#{len(watch.items)}', big)
            x = big[1]
        elif how == 'expanded' and len(shape) and shape[0] > 1:
            base = torch.randn(1, *shape[1:], dtype=dt)
            watch.add(f'arg-base#{len(watch.items)}', base)
            x = base.expand(*shape)
        return x

    calls = []
    for _ in range(case['length']):
        r = rng.random()
        if r < 0.4:
            k = rng.choice(list(ops))
            op, dom, rg, fresh = ops[k]
            which = rng.choice(['forward', 'adjoint', 'gram', 'H'])
            dt = dtype_for(k)
            how = rng.choice(['plain', 'plain', 'view', 'expanded'])
            if k == 'sliceproj':
                dt = torch.float32 if rng.random() < 0.5 else torch.complex64
            if k in ('gridsample',) and dt == torch.float64:
                dt = torch.float64
            shape = dom if which in ('forward', 'gram') else rg
            x = make_arg(list(shape), dt, how)
            fn = {'forward': lambda o, x: o(x)[0], 'adjoint': lambda o, x: o.adjoint(x)[0], 'gram': lambda o, x: o.gram(x)[0], 'H': lambda o, x: o.H(x)[0]}[which]
            calls.append((f'op[{k}].{which}({how},{str(dt).split(".")[-1]})', fn, op, fresh, (x,)))
        elif r < 0.65:
            k = rng.choice(list(funs))
            f = funs[k]
            which = rng.choice(['forward', 'prox', 'prox_convex_conj'])
            x = make_arg(list(shape_f), rng.choice([torch.float32, torch.complex64]), rng.choice(['plain', 'view']))
            sk = rng.choice(['py', 'tensor0', 'tensor', 'tensor_tiny'])
            sigma = {'py': 0.5, 'tensor0': torch.tensor(0.7), 'tensor': torch.rand(2, 3, 1) + 0.1, 'tensor_tiny': torch.tensor([1e-9, 0.5, 2.0]).reshape(1, 3, 1)}[sk]
            if which == 'forward':
                fn, args = (lambda o, x: o(x)[0]), (x,)
            else:
                fn, args = (lambda o, x, s, w=which: getattr(o, w)(x, s)[0]), (x, sigma)
            kw = dict(f.__dict__)
            calls.append((f'fun[{k}].{which}(sigma:{sk})', fn, f, None, args))
        elif r < 0.75:
            which = rng.choice(['cg', 'adam', 'lbfgs'])
            b = torch.randn(3, 2)
            # start values that are leaves of the caller's graph (requires_grad=True) are inputs like any other
            x0 = torch.randn(3, 2).requires_grad_(which != 'cg' and rng.random() < 0.5)
            which_rg = f'{which}(start requires_grad)' if x0.requires_grad else which
            if which == 'cg':
                calls.append(('cg', lambda o, b, x0: cg(o, b, initial_value=x0, max_iterations=4), H, None, (b, x0)))
            elif which == 'adam':
                calls.append((which_rg, lambda o, b, x0: adam(lambda x: ((o(x)[0] - b) ** 2).sum().reshape(1), (x0,), max_iter=3)[0], H, None, (b, x0)))
            else:
                calls.append((which_rg, lambda o, b, x0: lbfgs(lambda x: ((o(x)[0] - b) ** 2).sum().reshape(1), (x0,), max_iter=3)[0], H, None, (b, x0)))
        elif r < 0.9:
            which = rng.choice(['direct', 'sense', 'regsense', 'regsense_nocsm', 'prewhiten', 'walsh', 'inati'])
            if which == 'direct':
                calls.append(('DirectReconstruction(kdata)', lambda o: DirectReconstruction(o, csm=None).forward(o), kd, None, ()))
            elif which == 'sense':
                calls.append(('IterativeSENSEReconstruction(kdata)', lambda o: IterativeSENSEReconstruction(o, csm=None, n_iterations=2).forward(o), kd, None, ()))
            elif which == 'regsense':
                calls.append(('RegularizedIterativeSENSE(kdata, lambda=0.1)', lambda o: RegularizedIterativeSENSEReconstruction(o, csm=None, n_iterations=2, regularization_weight=0.1,
                              regularization_data=1.0).forward(o), kd, None, ()))
            elif which == 'regsense_nocsm':
                # identity operators everywhere: the right-hand side may alias the k-space data
                calls.append(('RegularizedIterativeSENSE(identity ops)', lambda o: RegularizedIterativeSENSEReconstruction(fourier_op=mrpro.operators.IdentityOp(), csm=None, dcf=None,
                              n_iterations=1, regularization_weight=0.5, regularization_data=1.0).forward(o), kd, None, ()))
            elif which == 'prewhiten':
                calls.append(('prewhiten_kspace', lambda o, n: mrpro.algorithms.prewhiten_kspace(o, n), kd, None, (noise,)))
            elif which == 'walsh':
                calls.append(('csm.walsh', lambda o, c: mrpro.algorithms.csm.walsh(c[0], SpatialDimension(1, 3, 3)), None, None, (csm_t,)))
            else:
                calls.append(('csm.inati', lambda o, c: mrpro.algorithms.csm.inati(c[0], SpatialDimension(1, 3, 3)), None, None, (csm_t,)))
        else:
            which = rng.choice(['split', 'select', 'merge', 'remove_os', 'compress'])
            if which == 'split':
                calls.append(('kdata.split_k1_into_other', lambda o: o.split_k1_into_other(torch.tensor([[0, 1], [2, 3]]), 'phase'), kd, None, ()))
            elif which == 'select':
                calls.append(('kdata.select_other_subset', lambda o: o.select_other_subset(torch.tensor([0]), 'repetition'), kd, None, ()))
            elif which == 'merge':
                calls.append(('kdata.rearrange_k2_k1_into_k1', lambda o: o.rearrange_k2_k1_into_k1(), kd, None, ()))
            elif which == 'remove_os':
                calls.append(('kdata.remove_readout_os', lambda o: o.remove_readout_os(), kd, None, ()))
            else:
                calls.append(('kdata.compress_coils', lambda o: o.compress_coils(1), kd, None, ()))
    if case.get('sweep'):
        for nm, solver in (('adam', adam), ('lbfgs', lbfgs)):
            for rg_ in (False, True):
                calls.append((f'{nm}(start requires_grad={rg_})', lambda o, b, x0, solver=solver: solver(lambda x: ((o(x)[0] - b) ** 2).sum().reshape(1), (x0,), max_iter=3)[0],
                              H, None, (torch.randn(3, 2), torch.randn(3, 2).requires_grad_(rg_))))
        for k, f in funs.items():
            for which in ('forward', 'prox', 'prox_convex_conj'):
                for sk in ('py', 'tensor0', 'tensor', 'tensor_tiny'):
                    for dtx in (torch.float32, torch.complex64):
                        x = make_arg(list(shape_f), dtx, 'plain')
                        sigma = {'py': 0.5, 'tensor0': torch.tensor(0.7), 'tensor': torch.rand(2, 3, 1) + 0.1, 'tensor_tiny': torch.tensor([1e-9, 0.5, 2.0]).reshape(1, 3, 1)}[sk]
                        if which == 'forward':
                            calls.append((f'fun[{k}].forward', (lambda o, x: o(x)[0]), f, None, (x,)))
                        else:
                            calls.append((f'fun[{k}].{which}(sigma:{sk})', (lambda o, x, s, w=which: getattr(o, w)(x, s)[0]), f, None, (x, sigma)))
            sf = 2.0 * f
            sig = torch.tensor([1e-9, 0.5, 2.0]).reshape(1, 3, 1)
            calls.append((f'fun[2*{k}].prox_convex_conj(sigma:tensor_tiny)', (lambda o, x, s: o.prox_convex_conj(x, s)[0]), sf, None, (torch.randn(shape_f), sig)))
        for k, (op, dom, rg, fresh) in ops.items():
            for which in ('forward', 'adjoint', 'gram', 'H'):
                dt = torch.complex64 if k == 'sliceproj' else torch.complex128
                x = make_arg(list(dom if which in ('forward', 'gram') else rg), dt, 'view')
                fn = {'forward': lambda o, x: o(x)[0], 'adjoint': lambda o, x: o.adjoint(x)[0], 'gram': lambda o, x: o.gram(x)[0], 'H': lambda o, x: o.H(x)[0]}[which]
                calls.append((f'op[{k}].{which}(view)', fn, op, fresh, (x,)))
    n_flex = len(flex) * len(flex_shapes) if case.get('sweep') else max(2, case['length'] // 5)
    for i in range(n_flex):
        k = list(flex)[i // len(flex_shapes)] if case.get('sweep') else rng.choice(list(flex))
        obj = flex[k]
        # sweep: every instance sees every shape, in increasing and (second half of the instances) decreasing rank order
        order = flex_shapes if (i // len(flex_shapes)) % 2 == 0 else flex_shapes[::-1]
        shape = order[i % len(flex_shapes)] if case.get('sweep') else rng.choice(flex_shapes)
        x = torch.randn(*shape, dtype=torch.complex64 if 'Op' in k else rng.choice([torch.float32, torch.complex64]))
        if 'Op' in k:
            which = rng.choice(['forward', 'gram'])
            fn = {'forward': lambda o, x: o(x)[0], 'gram': lambda o, x: o.adjoint(*o(x))[0]}[which]
            calls.append((f'flex[{k}].{which}(shape {list(shape)})', fn, obj, flex_ctor[k], (x,)))
        else:
            which = rng.choice(['prox', 'prox_convex_conj', 'forward'])
            if which == 'forward':
                calls.append((f'flex[{k}].forward(shape {list(shape)})', (lambda o, x: o(x)[0]), obj, flex_ctor[k], (x,)))
            else:
                calls.append((f'flex[{k}].{which}(shape {list(shape)})', (lambda o, x, s, w=which: getattr(o, w)(x, s)[0]), obj, flex_ctor[k], (x, 0.5)))
    if not case.get('sweep'):
        rng.shuffle(calls)
    # every call is repeated once more at a random later position
    calls = calls + rng.sample(calls, max(1, len(calls) // 3))
    for name, fn, obj, fresh, args in calls:
        for i, a in enumerate(args):
            watch.add(f'{name}.arg{i}#{len(log)}', a) if isinstance(a, torch.Tensor) else None
        watch_before = len(watch.items)
        st, out = call(lambda: fn(obj, *args) if obj is not None or True else None)
        log.append(name)
        branches.append(name.split('(')[0])
        if st != 'ok':
            if fresh is not None:
                st_f, _ = call(lambda: fn(fresh(), *args))
                if st_f == 'ok':
                    viol = {'signature': f'state-leak:{name.split("(")[0]}:raises', 'history': log,
                            'what': f'{name} raises {str(out)[:120]} on the shared instance (after {log[:-1][-3:]}) but works on a fresh instance'}
                    break
            continue  # unsupported combination (dtype): not a purity question
        ch = watch.changed()
        if ch:
            viol = {'signature': f'mutation:{name.split("(")[0]}:{ch[0].split("#")[0].split(".arg")[-1] if ".arg" in ch[0] else ch[0].split("[")[0]}',
                    'what': f'history {log[-4:]}: the call {name} modified {ch[:3]} (value or in-place version of a caller-owned tensor / buffer changed)', 'history': log}
            break
        key = (name, tuple(id(a) for a in args))
        if key in first_results:
            if not same(out, first_results[key]):
                viol = {'signature': f'history-dependent:{name.split("(")[0]}', 'what': f'repeating {name} after {len(log)} calls gives a different result than the first time', 'history': log}
                break
        else:
            first_results[key] = out.detach().clone() if isinstance(out, torch.Tensor) else out
            if fresh is not None:
                st2, out2 = call(lambda: fn(fresh(), *args))
                if st2 == 'ok' and not same(out, out2):
                    viol = {'signature': f'state-leak:{name.split("(")[0]}', 'what': f'{name} on the shared instance (after {log[:-1][-3:]}) differs from the same call on a fresh instance', 'history': log}
                    break
    return Outcome(key=('history', case['length'], case['seed'] % 9973), viol=viol, branches=sorted(set(branches)), sample={**case, 'calls': log[:12], 'n_calls': len(log), 'watched': len(watch.items)})
