"""C17 — signal models match their closed forms; constraints are invertible and bounded."""
import itertools
import math
import random

import torch

from harness.core.conv import bits2f, f2bits
from harness.core.runner import Outcome
from harness.core.util import call

RULE = ('7 signal models x parameter shapes (scalar, maps, extra leading dims) x time vectors (shared or per-voxel); outputs compared '
        'element-wise with the Lean closed forms (double precision) with the time-like axis first; autograd gradients compared with the Lean '
        'analytic derivatives (4 models) / gradcheck (3 models). ConstraintsOp: all bound kinds (finite, None, +-inf) in all 16 '
        'combinations x beta in {0.3,1,2,7}: forward/inverse vs model, strict monotonicity, open-interval range, round trips. '
        'distinct = distinct configuration key')
ASSUMPTIONS = ['libm exp/log/sin of Lean Float and torch agree to 1e-12 relative']
MODELS = ['InversionRecovery', 'SaturationRecovery', 'MonoExponentialDecay', 'MOLLI', 'TransientSteadyStateWithPreparation', 'WASABI', 'WASABITI']
BOUNDS = ['fin', 'none', 'neginf', 'posinf']


def generate(rng: random.Random, tier: str):
    thorough = tier == 'thorough'
    cases = []
    for _ in range(400 if thorough else 56):
        pshape = rng.choice([[], [2], [2, 3], [1, 2, 2], [2, 1, 1, 2]])
        cases.append({'kind': 'model', 'model': rng.choice(MODELS), 'pshape': pshape, 'nt': rng.randint(1, 4), 'per_voxel_time': rng.random() < 0.3 and len(pshape) > 0,
                      'seed': rng.randrange(1 << 30)})
    combos = list(itertools.product(BOUNDS, BOUNDS))
    for lbk, ubk in combos:
        if lbk == 'posinf' or ubk == 'neginf':
            continue
        betas = [0.3, 1.0, 2.0, 7.0]
        # the two steepness parameters are independent: always at least one pair with different values per bound combination
        pairs = [(a, b) for a in betas for b in betas] if thorough else [(rng.choice([0.3, 1.0]), rng.choice([2.0, 7.0])), (rng.choice([2.0, 7.0]), rng.choice([0.3, 1.0])),
                                                                         (rng.choice(betas), rng.choice(betas))]
        for bs_, bp_ in pairs:
            cases.append({'kind': 'constraint', 'lb': lbk, 'ub': ubk, 'beta_sigmoid': bs_, 'beta_softplus': bp_, 'seed': rng.randrange(1 << 30)})
    return cases


def rnd(rng, shape, lo, hi):
    n = 1
    for s in shape:
        n *= s
    return torch.tensor([rng.uniform(lo, hi) for _ in range(n)], dtype=torch.float64).reshape(shape)


def model_eval(drv, fn, rows):
    res = drv.call({'op': 'signal', 'fn': fn, 'args': [[f2bits(float(v)) for v in r] for r in rows]})
    return [bits2f(b) for b in res['out']]


def run_model(case, drv) -> Outcome:
    import mrpro.operators.models as MM

    rng = random.Random(case['seed'])
    name, pshape, nt = case['model'], case['pshape'], case['nt']
    tshape = [nt, *pshape] if case['per_voxel_time'] else [nt]
    t = rnd(rng, tshape, 0.05, 3.0)
    viol = None
    corr = None
    cfg = f'{name} params {pshape} time {tshape}'

    def P(lo, hi):
        return rnd(rng, pshape, lo, hi).requires_grad_(True)

    def tb(idx):
        """time value for output index idx = (t, *voxel)"""
        return t[idx] if case['per_voxel_time'] else t[idx[0]]

    if name in ('InversionRecovery', 'SaturationRecovery', 'MonoExponentialDecay'):
        m0, p1 = P(0.5, 2.0), P(0.3, 2.0)
        op = getattr(MM, name)(t)
        params = (m0, p1)
        fn = {'InversionRecovery': 'invRec', 'SaturationRecovery': 'satRec', 'MonoExponentialDecay': 'monoExp'}[name]
        dfns = {'invRec': ('invRec_dm0', 'invRec_dt1'), 'satRec': ('satRec_dm0', 'satRec_dt1'), 'monoExp': ('monoExp_dm0', 'monoExp_dtd')}[fn]
        argf = lambda idx: [m0[idx[1:]], p1[idx[1:]], tb(idx)]  # noqa: E731
    elif name == 'MOLLI':
        a, c, t1 = P(0.5, 2.0), P(1.2, 2.5), P(0.3, 2.0)
        op = MM.MOLLI(t)
        params = (a, c, t1)
        fn, dfns = 'molli', ('molli_da', 'molli_dc', 'molli_dt1')
        argf = lambda idx: [a[idx[1:]], c[idx[1:]], t1[idx[1:]], tb(idx)]  # noqa: E731
    elif name == 'TransientSteadyStateWithPreparation':
        m0, t1, fa = P(0.5, 2.0), P(0.3, 2.0), P(0.05, 0.6)
        # python floats are stored by the model classes as float32 tensors: the closed form is evaluated with the stored values
        tr, scal, delay = (float(torch.as_tensor(v)) for v in (rng.uniform(0.005, 0.02), rng.choice([1.0, -1.0, 0.5]), rng.uniform(0.0, 0.1)))
        op = MM.TransientSteadyStateWithPreparation(t, tr, scal, delay)
        params = (m0, t1, fa)
        fn, dfns = 'tss', ('tss_dm0', 'tss_dt1', 'tss_dalpha')
        argf = lambda idx: [m0[idx[1:]], t1[idx[1:]], fa[idx[1:]], tb(idx), tr, scal, delay]  # noqa: E731
    elif name == 'WASABI':
        b0, rb1, c, d = P(-30, 30), P(0.7, 1.3), P(0.8, 1.2), P(1.0, 2.0)
        offs = rnd(rng, tshape, -250, 250)
        t = offs
        tp, b1nom, gamma = (float(torch.as_tensor(v)) for v in (0.005, 3.7, 42.5764))
        op = MM.WASABI(offs, tp, b1nom, gamma)
        params = (b0, rb1, c, d)
        fn, dfns = 'wasabi', ('wasabi_db0', 'wasabi_drb1', 'wasabi_dc', 'wasabi_dd')
        argf = lambda idx: [b0[idx[1:]], rb1[idx[1:]], c[idx[1:]], d[idx[1:]], tb(idx), tp, b1nom, gamma]  # noqa: E731
    else:
        b0, rb1, t1 = P(-30, 30), P(0.7, 1.3), P(0.5, 2.0)
        offs = rnd(rng, tshape, -250, 250)
        trec = rnd(rng, tshape, 0.5, 3.0)
        t = offs
        tp, b1nom, gamma = (float(torch.as_tensor(v)) for v in (0.005, 3.75, 42.5764))
        op = MM.WASABITI(offs, trec, tp, b1nom, gamma)
        params = (b0, rb1, t1)
        fn, dfns = 'wasabiti', ('wasabiti_db0', 'wasabiti_drb1', 'wasabiti_dt1')
        argf = lambda idx: [b0[idx[1:]], rb1[idx[1:]], t1[idx[1:]], tb(idx), (trec[idx] if case['per_voxel_time'] else trec[idx[0]]), tp, b1nom, gamma]  # noqa: E731
    st, out = call(lambda: op(*params)[0])
    if st != 'ok':
        return Outcome(key=('model', cfg), viol={'signature': f'model:{name}:raises', 'what': f'{cfg}: forward raises {out}'}, branches=[f'{name}:raises'])
    want_shape = [nt, *pshape]
    if list(out.shape) != want_shape:
        return Outcome(key=('model', cfg), viol={'signature': f'model:{name}:shape', 'what': f'{cfg}: output shape {list(out.shape)}, expected the time-like axis first: {want_shape}'},
                       branches=[f'{name}:shape'])
    idxs = list(itertools.product(*[range(s) for s in want_shape]))
    rows = [[float(v) for v in argf(idx)] for idx in idxs]
    want = model_eval(drv, fn, rows)
    got = [float(out[idx]) for idx in idxs]
    for g, w, idx in zip(got, want, idxs):
        if not (abs(g - w) <= 1e-10 * (1 + abs(w))):
            corr = corr or f'{cfg}: value at {idx}: impl {g!r} model {w!r}'
            viol = viol or {'signature': f'model:{name}:value', 'what': f'{cfg}: output at {idx} is {g!r}, the documented closed form gives {w!r}'}
            break
    # gradients
    grads = torch.autograd.grad(out.sum(), params, allow_unused=True)
    if dfns is not None:
        for gi, (g, dfn) in enumerate(zip(grads, dfns)):
            dw = model_eval(drv, dfn, rows)
            acc = torch.zeros(pshape if pshape else [], dtype=torch.float64)
            for idx, v in zip(idxs, dw):
                acc[idx[1:]] += v
            if float((g - acc).abs().nan_to_num(nan=float('inf')).max()) > 1e-9 * (1 + float(acc.abs().max())):
                corr = corr or f'{cfg}: autograd gradient of parameter {gi} differs from the analytic derivative {dfn}'
                viol = viol or {'signature': f'model:{name}:gradient', 'what': f'{cfg}: autograd gradient w.r.t. parameter {gi} differs from the analytic derivative'}
    else:
        st2, ok = call(lambda: torch.autograd.gradcheck(lambda *p: op(*p)[0], tuple(p.detach().clone().requires_grad_(True) for p in params), eps=1e-6, atol=1e-5,
                                                       rtol=1e-4, raise_exception=False))
        if st2 != 'ok' or not ok:
            viol = viol or {'signature': f'model:{name}:gradcheck', 'what': f'{cfg}: autograd gradients fail the finite-difference check'}
    return Outcome(key=('model', name, tuple(pshape), nt, case['per_voxel_time'], case['seed'] % 11), corr=corr, viol=viol,
                   branches=[name, f'pshape:{len(pshape)}', 'per-voxel-time' if case['per_voxel_time'] else 'shared-time'], sample=case)


def run_constraint(case, drv) -> Outcome:
    import mrpro

    rng = random.Random(case['seed'])

    def bound(kind, lo, hi):
        if kind == 'fin':
            return rng.uniform(lo, hi)
        return {'none': None, 'neginf': -math.inf, 'posinf': math.inf}[kind]

    lb = bound(case['lb'], -3, 0)
    ub = bound(case['ub'], 0.5, 4)
    bs, bp = case['beta_sigmoid'], case['beta_softplus']
    cfg = f'bounds ({lb}, {ub}) beta_sigmoid {bs} beta_softplus {bp}'
    st, op = call(lambda: mrpro.operators.ConstraintsOp(bounds=((lb, ub),), beta_sigmoid=bs, beta_softplus=bp))
    if st != 'ok':
        return Outcome(key=('constraint', cfg), viol={'signature': 'constraint:ctor', 'what': f'ConstraintsOp raises {op} for {cfg}'})
    x = torch.tensor(sorted(rng.uniform(-4, 4) for _ in range(9)), dtype=torch.float64)
    (y,) = op(x)
    (xb,) = op.inverse(y)
    # conditioning of the round trip: where forward saturates (slope -> 0) the rounding of y alone moves inverse(y) by eps*|y|/slope
    xg = x.clone().requires_grad_(True)
    (slope,) = torch.autograd.grad(op(xg)[0].sum(), xg)
    slope = slope.abs()
    viol = None
    corr = None

    def bj(kind, v):
        return {'k': kind, 'v': [f2bits(v if v is not None and math.isfinite(v) else 0.0)]}

    req = {'op': 'constrain', 'beta_sigmoid': [f2bits(bs)], 'beta_softplus': [f2bits(bp)], 'lb': bj(case['lb'], lb), 'ub': bj(case['ub'], ub)}
    m = drv.call({**req, 'inverse': False, 'x': [f2bits(float(v)) for v in x]})
    my = [bits2f(b) for b in m['out']]
    if any(not (abs(float(a) - b) <= 1e-10 * (1 + abs(b))) for a, b in zip(y, my)):
        corr = f'{cfg}: forward impl {y.tolist()[:3]} model {my[:3]}'
    mi = drv.call({**req, 'inverse': True, 'x': [f2bits(float(v)) for v in y]})
    mx = [bits2f(b) for b in mi['out']]
    # conditioning-aware (see slope above): two correct evaluations of the inverse differ by eps*|y|/slope where forward saturates
    if corr is None and any(not (abs(float(a) - b) <= 1e-8 * (1 + abs(b)) + 8 * 2.3e-16 * (1 + abs(float(yy))) / max(float(sl), 1e-300))
                            for a, b, yy, sl in zip(xb, mx, y, slope) if math.isfinite(b)):
        corr = f'{cfg}: inverse impl {xb.tolist()[:3]} model {mx[:3]}'
    # property-level oracle
    lo = -math.inf if lb is None else lb
    hi = math.inf if ub is None else ub
    if not bool(torch.isfinite(y).all()):
        viol = {'signature': f'constraint:nonfinite:{case["lb"]}:{case["ub"]}', 'what': f'{cfg}: forward returns non-finite values {y.tolist()[:3]} for finite inputs'}
    elif not bool((y[1:] > y[:-1]).all()):
        viol = {'signature': 'constraint:not-monotone', 'what': f'{cfg}: forward is not strictly increasing'}
    elif not bool(((y > lo) & (y < hi)).all()):
        viol = {'signature': 'constraint:range', 'what': f'{cfg}: forward leaves the open interval ({lo}, {hi})'}
    elif bool(((xb - x).abs() > 1e-6 * (1 + x.abs()) + 8 * 2.3e-16 * (1 + y.abs()) / slope.clamp_min(1e-300)).any()):
        viol = {'signature': f'constraint:inverse:{m["case"]}', 'what': f'{cfg}: inverse(forward(x)) != x: {xb.tolist()[:3]} vs {x.tolist()[:3]}'}
    else:
        (y2,) = op(op.inverse(y)[0])
        if float((y2 - y).abs().nan_to_num(nan=float('inf')).max()) > 1e-6 * (1 + float(y.abs().max())):
            viol = {'signature': 'constraint:forward-inverse', 'what': f'{cfg}: forward(inverse(y)) != y'}
    return Outcome(key=('constraint', case['lb'], case['ub'], bs, bp), corr=corr, viol=viol, branches=[f'case:{m["case"]}', f'lb:{case["lb"]}', f'ub:{case["ub"]}'],
                   sample=case)


def run(case, drv) -> Outcome:
    return run_model(case, drv) if case['kind'] == 'model' else run_constraint(case, drv)
