"""Operators built on third-party kernels (ptwt, torchkbnufft, grid_sample, sparse matmul, SVD, torch.fft):
their kernels are *parameters* of the Lean model; the assumption "the kernel pair is adjoint / linear"
is evaluated here on the real kernel, per configuration, by dense matrices."""
import math
import random
import warnings

import torch

KERNEL_KINDS = ['wavelet', 'fft', 'fourier_nufft', 'gridsample', 'sliceproj', 'pca', 'einsum_rule']
WAVELETS_ORTHO = ['haar', 'db2', 'db3', 'sym2', 'sym4', 'coif1']
WAVELETS_BIORTHO = ['bior1.3', 'bior2.2', 'rbio2.2', 'bior4.4', 'dmey']


def gen_config(kind, rng: random.Random, thorough=False):
    seed = rng.randrange(1 << 30)
    if kind == 'wavelet':
        ndim = rng.choice([1, 2, 2, 3])
        fam = rng.choice(WAVELETS_ORTHO + ([rng.choice(WAVELETS_BIORTHO)] if rng.random() < 0.3 else []))
        shape = [rng.choice([4, 6, 8]) if ndim < 3 else rng.choice([4, 6]) for _ in range(ndim)]
        if ndim == 3 and fam == 'dmey':
            fam = 'bior2.2'  # dmey has 62 taps: a 3-D transform of a 6^3 volume has 280 000 coefficients (dense tests would need 100s of GB)
        return {'kind': kind, 'wavelet': fam, 'domain': shape, 'level': rng.choice([None, 1, 1, 2]), 'batch': rng.choice([0, 2]),
                # where the transformed axes sit: after the batch axis (negative dims), before it (non-negative dims), around it
                'layout': rng.choice(['trailing', 'trailing', 'leading', 'mixed']), 'seed': seed}
    if kind == 'fft':
        rank = rng.randint(1, 3)
        shape = [rng.randint(1, 5) for _ in range(rank)]
        k = rng.randint(1, rank)
        dims = rng.sample(range(rank), k)
        return {'kind': kind, 'shape': shape, 'dim': [d - rank if rng.random() < 0.5 else d for d in dims], 'recon': [shape[d] for d in dims],
                'enc': [rng.randint(1, 6) for _ in dims], 'seed': seed}
    if kind == 'fourier_nufft':
        return {'kind': kind, 'ny': rng.choice([6, 8]), 'nx': rng.choice([6, 8]), 'k1': rng.randint(2, 3), 'k0': rng.randint(4, 6),
                'coils': rng.choice([1, 1, 2]), 'other': rng.choice([1, 1, 2]),
                # the documented NUFFT parameters (default 2.0 / 6 / 2.34) are part of the operator's interface
                'nufft': rng.choice([None, None, {'nufft_kbwidth': 1.0}, {'nufft_kbwidth': 3.5, 'nufft_numpoints': 4}, {'nufft_oversampling': 1.5},
                                     {'nufft_numpoints': 3, 'nufft_oversampling': 2.5}]), 'seed': seed}
    if kind == 'gridsample':
        return {'kind': kind, 'dim': rng.choice([2, 3]), 'mode': rng.choice(['bilinear', 'nearest', 'bicubic']), 'padding': rng.choice(['zeros', 'border', 'reflection']),
                'align': rng.random() < 0.5, 'batch': rng.choice([1, 1, 2]), 'channels': rng.choice([1, 1, 2]), 'seed': seed}
    if kind == 'sliceproj':
        return {'kind': kind, 'n': rng.choice([4, 5]), 'fwhm': rng.choice([1.0, 2.0, 3.0]), 'generic': rng.random() < 0.5, 'optimize_for': rng.choice(['forward', 'adjoint', 'both']),
                'batch': rng.choice([[], [], [2], [1, 2], [3], [2, 3], [3, 2]]), 'seed': seed}
    if kind == 'pca':
        return {'kind': kind, 'coils': rng.randint(2, 5), 'n': rng.randint(1, 3), 'samples': rng.randint(6, 12), 'lead': rng.choice([[], [], [2], [2, 1]]), 'seed': seed}
    if kind == 'einsum_rule':
        # the documented uses of EinsumOp and a few more (the adjoint pattern is derived from the rule string)
        rule = rng.choice(['i j, ... j -> ... i', '... i j, j -> ... i', '... i j, ... j -> ... i', '... i j, ... j k -> ... i k', 'b i j, b j -> b i',
                           '... i, ... i -> ... i', 'i j, ... j k -> ... k i'])
        return {'kind': kind, 'rule': rule, 'b': rng.randint(1, 3), 'm': rng.randint(1, 3), 'n': rng.randint(1, 3), 'k': rng.randint(1, 2), 'seed': seed}
    raise KeyError(kind)


def force_batch(cfg, rng: random.Random):
    """the same configuration with non-trivial batch / channel / coil dimensions (every kernel operator accepts them)"""
    cfg = dict(cfg)
    k = cfg['kind']
    if k == 'wavelet':
        cfg['batch'] = 2
    elif k == 'fourier_nufft':
        cfg['coils'], cfg['other'] = 2, rng.choice([1, 2])
        cfg['nufft'] = cfg.get('nufft') or rng.choice([{'nufft_kbwidth': 1.0}, {'nufft_kbwidth': 3.5, 'nufft_numpoints': 4}, {'nufft_oversampling': 1.5}])
    elif k == 'gridsample':
        cfg['batch'], cfg['channels'] = 2, rng.choice([1, 2])
    elif k == 'sliceproj':
        cfg['batch'] = rng.choice([[2, 3], [3, 2], [2, 3], [2], [2, 2]])  # several volume batch dimensions of different sizes
    elif k == 'pca':
        cfg['lead'] = rng.choice([[2], [2, 1]])
    elif k == 'fft' and len(cfg['shape']) == len(cfg['dim']):
        cfg['shape'] = [2, *cfg['shape']]
        cfg['dim'] = [d if d < 0 else d + 1 for d in cfg['dim']]
    return cfg


def gen_configs(kind, rng: random.Random, n: int):
    """n configurations of a kind; every second one is forced to carry batch dimensions"""
    out = []
    for i in range(n):
        c = gen_config(kind, rng)
        out.append(force_batch(c, rng) if i % 2 == 1 else c)
    return out


def build(cfg):
    """returns (op, domain shape, range shape, tolerance, complex_ok)"""
    import mrpro
    from mrpro.data import KTrajectory, Rotation, SpatialDimension

    rng = random.Random(cfg['seed'])
    kind = cfg['kind']
    warnings.filterwarnings('ignore')
    if kind == 'wavelet':
        dom = cfg['domain']
        nd = len(dom)
        lead = [cfg['batch']] if cfg['batch'] else []
        layout = cfg.get('layout', 'trailing') if lead else 'trailing'
        if layout == 'leading':
            dims, full = tuple(range(nd)), [*dom, *lead]
        elif layout == 'mixed' and nd >= 2:
            full = [dom[0], *lead, *dom[1:]]
            dims = (0, *range(2, nd + 1)) if rng.random() < 0.5 else (-(nd + 1), *range(-(nd - 1), 0))
        else:
            dims, full = tuple(range(-nd, 0)), [*lead, *dom]
        op = mrpro.operators.WaveletOp(domain_shape=dom, dim=dims, wavelet_name=cfg['wavelet'], level=cfg['level'])
        x = torch.zeros(*full, dtype=torch.complex128)
        (y,) = op(x)
        return op, full, list(y.shape), 1e-9
    if kind == 'fft':
        op = mrpro.operators.FastFourierOp(dim=tuple(cfg['dim']), recon_matrix=cfg['recon'], encoding_matrix=cfg['enc'])
        x = torch.zeros(cfg['shape'], dtype=torch.complex128)
        (y,) = op(x)
        return op, cfg['shape'], list(y.shape), 1e-10
    if kind == 'fourier_nufft':
        ny, nx, k1, k0 = cfg['ny'], cfg['nx'], cfg['k1'], cfg['k0']
        kx = torch.tensor([rng.uniform(-nx / 2, nx / 2 - 0.01) for _ in range(k1 * k0)], dtype=torch.float64).reshape(1, 1, k1, k0)
        ky = torch.tensor([rng.uniform(-ny / 2, ny / 2 - 0.01) for _ in range(k1 * k0)], dtype=torch.float64).reshape(1, 1, k1, k0)
        traj = KTrajectory(torch.zeros(1, 1, 1, 1, dtype=torch.float64), ky, kx, repeat_detection_tolerance=None)
        op = mrpro.operators.FourierOp(SpatialDimension(1, ny, nx), SpatialDimension(1, ny, nx), traj, **(cfg.get('nufft') or {}))
        o, c = cfg.get('other', 1), cfg.get('coils', 1)
        return op, [o, c, 1, ny, nx], [o, c, 1, k1, k0], 1e-6
    if kind == 'gridsample':
        dim = cfg['dim']
        ishape = [rng.randint(2, 3) for _ in range(dim)]
        oshape = [rng.randint(1, 3) for _ in range(dim)]
        mode = cfg['mode'] if not (dim == 3 and cfg['mode'] == 'bicubic') else 'bilinear'
        grid = torch.tensor([rng.uniform(-1.3, 1.3) for _ in range(math.prod(oshape) * dim)], dtype=torch.float64).reshape(1, *oshape, dim)
        sd = SpatialDimension(*(([1] if dim == 2 else []) + ishape))
        op = mrpro.operators.GridSamplingOp(grid, sd, interpolation_mode=mode, padding_mode=cfg['padding'], align_corners=cfg['align'])
        b, c = cfg.get('batch', 1), cfg.get('channels', 1)
        return op, [b, c, *ishape], [b, c, *oshape], 1e-9
    if kind == 'sliceproj':
        n = cfg['n']
        rot = Rotation.from_euler('xyz', [rng.uniform(0, 90) for _ in range(3)], degrees=True) if cfg['generic'] else None
        op = mrpro.operators.SliceProjectionOp(SpatialDimension(n, n, n), slice_rotation=rot, slice_shift=rng.choice([0.0, 0.5]), slice_profile=cfg['fwhm'],
                                               optimize_for=cfg['optimize_for'])
        dom = [*cfg.get('batch', []), n, n, n]
        (y,) = op(torch.zeros(dom, dtype=torch.complex64))
        return op, dom, list(y.shape), 1e-5
    if kind == 'einsum_rule':
        b, m, n, k = cfg['b'], cfg['m'], cfg['n'], cfg['k']
        rule = cfg['rule']
        lhs_m, lhs_x = (t.split() for t in rule.split('->')[0].split(','))
        sizes = {'i': m, 'j': n, 'k': k, 'b': b, '...': b}
        mshape = [sizes[t] for t in lhs_m]
        xshape = [sizes[t] for t in lhs_x]
        mat = torch.tensor([complex(rng.randint(-3, 3), rng.randint(-3, 3)) for _ in range(math.prod(mshape))], dtype=torch.complex128).reshape(mshape)
        op = mrpro.operators.EinsumOp(mat, rule)
        (y,) = op(torch.zeros(xshape, dtype=torch.complex128))
        op._verif = (mat, rule)
        return op, xshape, list(y.shape), 1e-12
    if kind == 'pca':
        c, n, s = cfg['coils'], min(cfg['n'], cfg['coils']), cfg['samples']
        data = torch.tensor([complex(rng.gauss(0, 1), rng.gauss(0, 1)) for _ in range(s * c)], dtype=torch.complex128).reshape(s, c)
        mix = torch.tensor([complex(rng.gauss(0, 1), rng.gauss(0, 1)) for _ in range(c * c)], dtype=torch.complex128).reshape(c, c)
        data = data @ torch.diag(torch.tensor([3.0 ** (-i) for i in range(c)], dtype=torch.complex128)) @ mix
        op = mrpro.operators.PCACompressionOp(data, n)
        op._verif_data = data
        lead = cfg.get('lead', [])
        return op, [*lead, c], [*lead, n], 1e-9
    raise KeyError(kind)


def dense(fn, shape, real_input=False, single=False):
    n = math.prod(shape)
    cols = []
    dt = (torch.float32 if single else torch.float64) if real_input else (torch.complex64 if single else torch.complex128)
    for e in torch.eye(n, dtype=dt).reshape(n, *shape):
        (y,) = fn(e)
        cols.append(y.reshape(-1).to(torch.complex128))
    return torch.stack(cols, 1)
