"""Write small ISMRMRD files whose every readout carries its own identity (data, trajectory, header fields)."""
import os
import tempfile
import warnings

import numpy as np

LABELS = ['k1', 'k2', 'average', 'slice', 'contrast', 'phase', 'repetition', 'set', 'user0', 'user1', 'user2', 'user3', 'user4', 'user7']
_IDX_ATTR = {'k1': 'kspace_encode_step_1', 'k2': 'kspace_encode_step_2', 'average': 'average', 'slice': 'slice', 'contrast': 'contrast', 'phase': 'phase',
             'repetition': 'repetition', 'set': 'set'}
_tmpdir = None


def tmpdir():
    global _tmpdir
    if _tmpdir is None:
        _tmpdir = tempfile.TemporaryDirectory(prefix='mrpro_verif_')
    return _tmpdir.name


def write_file(acqs, n_k0=4, n_coils=2, enc_matrix=(8, 8, 1), recon_matrix=None, limits=None, traj_kind='cartesian', name=None):
    """acqs: list of dicts {labels: {label: int}, id: int, flags: int, coils: int|None, reversed: bool, traj: array|None, center_sample: int|None}
    returns the file name. Readout i stores data[c, j] = id + 0.001*j + 1j*c (float32-exact for small ids)."""
    import ismrmrd
    import ismrmrd.xsd as x

    warnings.filterwarnings('ignore')
    fn = os.path.join(tmpdir(), name or f'f{np.random.randint(1 << 30)}.h5')
    if os.path.exists(fn):
        os.remove(fn)
    h = x.ismrmrdHeader(experimentalConditions=x.experimentalConditionsType(H1resonanceFrequency_Hz=128000000))
    recon_matrix = recon_matrix or enc_matrix
    es = x.encodingSpaceType(matrixSize=x.matrixSizeType(x=enc_matrix[0], y=enc_matrix[1], z=enc_matrix[2]),
                             fieldOfView_mm=x.fieldOfViewMm(x=float(enc_matrix[0]), y=float(enc_matrix[1]), z=float(enc_matrix[2])))
    rs = x.encodingSpaceType(matrixSize=x.matrixSizeType(x=recon_matrix[0], y=recon_matrix[1], z=recon_matrix[2]),
                             fieldOfView_mm=x.fieldOfViewMm(x=float(recon_matrix[0]), y=float(recon_matrix[1]), z=float(recon_matrix[2])))
    lim = x.encodingLimitsType()
    limits = limits or {}
    for lab, attr in (('k1', 'kspace_encoding_step_1'), ('k2', 'kspace_encoding_step_2'), ('average', 'average'), ('slice', 'slice'), ('contrast', 'contrast'),
                      ('phase', 'phase'), ('repetition', 'repetition'), ('set', 'set')):
        vals = [a['labels'].get(lab, 0) for a in acqs]
        mn, mxv, ctr = limits.get(lab, (min(vals), max(vals), (max(vals) + 1) // 2 if lab in ('k1', 'k2') else 0))
        setattr(lim, attr, x.limitType(minimum=mn, maximum=mxv, center=ctr))
    enc = x.encodingType(trajectory=x.trajectoryType(traj_kind), encodedSpace=es, reconSpace=rs, encodingLimits=lim)
    h.encoding.append(enc)
    h.acquisitionSystemInformation = x.acquisitionSystemInformationType(receiverChannels=n_coils)
    ds = ismrmrd.Dataset(fn, 'dataset', create_if_needed=True)
    ds.write_xml_header(x.ToXML(h))
    for a in acqs:
        nc = a.get('coils') or n_coils
        tr = a.get('traj')
        acq = ismrmrd.Acquisition()
        acq.resize(n_k0, nc, trajectory_dimensions=0 if tr is None else tr.shape[1])
        for lab, v in a['labels'].items():
            if lab in _IDX_ATTR:
                setattr(acq.idx, _IDX_ATTR[lab], v)
            else:
                acq.idx.user[int(lab[-1])] = v
        cs = a.get('center_sample')
        acq.center_sample = n_k0 // 2 if cs is None else cs
        acq.scan_counter = a['id']
        acq.acquisition_time_stamp = 1000 + a['id']
        acq.position[:] = (a['id'], 2 * a['id'], 3 * a['id'])
        dirs = a.get('dirs')  # (read, phase, slice) direction cosines; default: the identity frame
        if dirs is None:
            acq.read_dir[0] = 1
            acq.phase_dir[1] = 1
            acq.slice_dir[2] = 1
        else:
            acq.read_dir[:], acq.phase_dir[:], acq.slice_dir[:] = dirs
        flags = a.get('flags', 0)
        for bit in range(64):
            if flags >> bit & 1:
                acq.setFlag(bit + 1)
        acq.data[:] = (a['id'] + 0.001 * np.arange(n_k0))[None, :] + 1j * np.arange(nc)[:, None]
        if tr is not None:
            acq.traj[:] = tr
        ds.append_acquisition(acq)
    ds.close()
    return fn
