"""Shared helpers for the per-property harness modules."""
import itertools
import random

import torch


def int_tensor(rng: random.Random, shape, complex_=True, lo=-4, hi=4, dtype=None) -> torch.Tensor:
    """small-integer valued float64/complex128 tensor (exact in IEEE arithmetic for + - *)"""
    n = 1
    for s in shape:
        n *= s
    re = torch.tensor([rng.randint(lo, hi) for _ in range(n)], dtype=torch.float64).reshape(tuple(shape))
    if complex_:
        im = torch.tensor([rng.randint(lo, hi) for _ in range(n)], dtype=torch.float64).reshape(tuple(shape))
        return torch.complex(re, im)
    return re


def call(f):
    """run f(); return ('ok', value) or ('err', exception class name)"""
    try:
        return ('ok', f())
    except (IndexError, ValueError, NotImplementedError, RuntimeError, TypeError, AttributeError, KeyError) as e:  # noqa: BLE001
        return ('err', type(e).__name__)


def encodings(dims: tuple[int, ...], ndim: int, limit: int | None = None, rng: random.Random | None = None):
    """all re-encodings of normalised dims: each axis by its non-negative or negative index"""
    alls = list(itertools.product(*[(d, d - ndim) for d in dims]))
    if limit is not None and len(alls) > limit and rng is not None:
        alls = [alls[0], alls[-1], *rng.sample(alls[1:-1], limit - 2)]
    return [tuple(e) for e in alls]


def same(a: torch.Tensor, b: torch.Tensor, tol: float = 0.0) -> bool:
    if a.shape != b.shape:
        return False
    if a.is_complex() != b.is_complex():
        return False
    if tol == 0.0:
        return bool(torch.equal(a, b))
    return bool(torch.allclose(a, b, rtol=tol, atol=tol))


def rand_shape(rng: random.Random, rank_lo=1, rank_hi=4, lo=1, hi=5, max_numel=400):
    while True:
        rank = rng.randint(rank_lo, rank_hi)
        shape = tuple(rng.randint(lo, hi) for _ in range(rank))
        n = 1
        for s in shape:
            n *= s
        if n <= max_numel:
            return shape
