"""lake build, axiom audit and source hygiene for the Lean side."""
import fcntl
import os
import re
import subprocess
import time
from pathlib import Path

ROOT = Path(__file__).resolve().parents[2]
LEAN_DIR = ROOT / 'lean'
ALLOWED_AXIOMS = {'propext', 'Classical.choice', 'Quot.sound'}
FORBIDDEN = re.compile(r'\bsorry\b|\badmit\b|^\s*axiom\s|native_decide|bv_decide|implemented_by|\bunsafe\s|maxHeartbeats\s+0\b')


def _run(cmd, timeout=3000):
    t0 = time.time()
    p = subprocess.run(cmd, cwd=LEAN_DIR, capture_output=True, text=True, timeout=timeout)
    return p.returncode, p.stdout + p.stderr, time.time() - t0


class lake_lock:
    def __enter__(self):
        self.f = open(LEAN_DIR / '.lake.lock', 'w')
        fcntl.flock(self.f, fcntl.LOCK_EX)
        return self

    def __exit__(self, *a):
        fcntl.flock(self.f, fcntl.LOCK_UN)
        self.f.close()


def regenerate_consts():
    """translator-lite: regenerate Mrpro/Gen/*.lean from /repo sources (only rewritten when changed)"""
    from harness import extract_consts, translate_src

    a = extract_consts.main()
    b = translate_src.main()
    return a or b


def translated_sites() -> dict:
    from harness import translate_src

    return translate_src.status()


def build(targets: list[str], clean: bool = False):
    """returns (ok, log, seconds)"""
    with lake_lock():
        if clean:
            _run(['lake', 'clean'])
        rc, out, dt = _run(['lake', 'build', *targets])
    return rc == 0, out, dt


def strip_comments(src: str) -> str:
    # remove block comments (nested not handled beyond one level; good enough for hygiene grep) and line comments
    out, depth, i = [], 0, 0
    while i < len(src):
        if src.startswith('/-', i):
            depth += 1
            i += 2
        elif src.startswith('-/', i) and depth:
            depth -= 1
            i += 2
        elif depth:
            if src[i] == '\n':
                out.append('\n')
            i += 1
        else:
            out.append(src[i])
            i += 1
    return '\n'.join(line.split('--')[0] for line in ''.join(out).split('\n'))


def import_closure(roots: list[str]) -> list[Path]:
    """the project files a module depends on (transitively), by parsing `import Mrpro.…` lines"""
    seen, todo = {}, list(roots)
    while todo:
        m = todo.pop()
        if m in seen:
            continue
        f = LEAN_DIR / (m.replace('.', '/') + '.lean')
        if not f.exists():
            continue
        seen[m] = f
        for mm in re.findall(r'^import\s+((?:Mrpro|Driver)[\w.]*)', f.read_text(), flags=re.M):
            todo.append(mm)
    return sorted(seen.values())


def hygiene(prop: str | None = None) -> list[str]:
    """forbidden tokens outside comments in the Lean sources the property depends on (incl. the driver)"""
    files = import_closure([f'Mrpro.Props.{prop}', 'Driver']) if prop else [
        p for p in sorted(LEAN_DIR.rglob('*.lean')) if '.lake' not in p.parts and '.audit' not in p.parts]
    hits = []
    for p in files:
        for n, line in enumerate(strip_comments(p.read_text()).split('\n'), 1):
            if FORBIDDEN.search(line):
                hits.append(f'{p.relative_to(LEAN_DIR)}:{n}: {line.strip()[:120]}')
    return hits


def theorems_of(prop: str) -> list[str]:
    src = strip_comments((LEAN_DIR / 'Mrpro' / 'Props' / f'{prop}.lean').read_text())
    return [f'{prop}.{m}' for m in re.findall(r'^theorem\s+([^\s:({\[]+)', src, flags=re.M)]


def theorem_lines(prop: str) -> list[tuple[int, str]]:
    src = strip_comments((LEAN_DIR / 'Mrpro' / 'Props' / f'{prop}.lean').read_text())
    res = []
    for n, line in enumerate(src.split('\n'), 1):
        m = re.match(r'^theorem\s+([^\s:({\[]+)', line)
        if m:
            res.append((n, f'{prop}.{m.group(1)}'))
    return res


def failed_theorems(prop: str, log: str) -> list[str]:
    """map build errors in Props/<prop>.lean to the theorem they occur in; other failing modules by name"""
    failed = []
    tl = theorem_lines(prop)
    for m in re.finditer(r'error: (?:\S*/)?Mrpro/([\w/]+)\.lean:(\d+):\d+', log):
        mod, line = m.group(1), int(m.group(2))
        if mod == f'Props/{prop}':
            name = None
            for n, t in tl:
                if n <= line:
                    name = t
            failed.append(name or f'Props/{prop}:{line}')
        else:
            name = None
            try:
                src = strip_comments((LEAN_DIR / 'Mrpro' / f'{mod}.lean').read_text()).split('\n')
                for n, l in enumerate(src, 1):
                    mm = re.match(r'^(?:private\s+)?(?:theorem|lemma|def)\s+([^\s:({\[]+)', l)
                    if mm and n <= line:
                        name = mm.group(1)
            except OSError:
                pass
            failed.append(f'{mod}:{line}' + (f' ({name})' if name else ''))
    return sorted(set(failed))


def audit(prop: str):
    """#print axioms for every property theorem. returns (dict thm -> axioms list | None, raw log)"""
    thms = theorems_of(prop)
    d = LEAN_DIR / '.audit'
    d.mkdir(exist_ok=True)
    f = d / f'{prop}.lean'
    f.write_text(f'import Mrpro.Props.{prop}\n' + ''.join(f'#print axioms {t}\n' for t in thms))
    rc, out, _ = _run(['lake', 'env', 'lean', str(f)], timeout=900)
    res: dict[str, list[str] | None] = {t: None for t in thms}
    for m in re.finditer(r"'([^']+)' depends on axioms: \[([^\]]*)\]", out):
        res[m.group(1)] = [a.strip() for a in m.group(2).replace('\n', ' ').split(',') if a.strip()]
    for m in re.finditer(r"'([^']+)' does not depend on any axioms", out):
        res[m.group(1)] = []
    return res, out
