"""The operator zoo: configurations of the library's structural linear operators, the real operator
built from each configuration, and the matching line for the Lean model (canonical layouts)."""
import random
from fractions import Fraction

import torch

from harness.core.conv import frac_str, tensor_strs
from harness.core.util import int_tensor, rand_shape

EXACT_KINDS = ['zeropad', 'fd', 'sens', 'dcf', 'einsum', 'rearrange', 'cartsamp']


def numel(shape):
    n = 1
    for s in shape:
        n *= s
    return n


# ------------------------------------------------------------------ configuration generators
def gen_config(kind: str, rng: random.Random, small: bool = True) -> dict:
    seed = rng.randrange(1 << 30)
    if kind == 'zeropad':
        shape = rand_shape(rng, 1, 4, 1, 5, max_numel=60)
        k = rng.randint(1, len(shape))
        dims = rng.sample(range(len(shape)), k)
        enc = [d if rng.random() < 0.5 else d - len(shape) for d in dims]
        return {'kind': kind, 'shape': list(shape), 'dim': enc, 'orig': [shape[d] for d in dims],
                'padded': [rng.randint(1, 7) for _ in dims], 'seed': seed}
    if kind == 'fd':
        shape = rand_shape(rng, 2, 3, 1, 5, max_numel=48)  # filter_separable flattens leading dims: rank >= 2 only
        k = rng.randint(1, len(shape))
        dims = rng.sample(range(len(shape)), k)
        enc = [d if rng.random() < 0.5 else d - len(shape) for d in dims]
        return {'kind': kind, 'shape': list(shape), 'dim': enc, 'mode': rng.choice(['forward', 'backward', 'central']),
                'circular': rng.random() < 0.5, 'seed': seed}
    if kind == 'sens':
        b, c = rng.randint(1, 2), rng.randint(1, 3)
        zyx = [rng.randint(1, 2), rng.randint(1, 3), rng.randint(1, 3)]
        return {'kind': kind, 'b': b, 'bc': rng.choice([1, b]), 'c': c, 'zyx': zyx, 'seed': seed}
    if kind == 'dcf':
        b, c = rng.randint(1, 2), rng.randint(1, 2)
        k = [rng.randint(1, 2), rng.randint(1, 3), rng.randint(1, 3)]
        return {'kind': kind, 'b': b, 'bd': rng.choice([1, b]), 'c': c, 'k': k, 'complex': rng.random() < 0.5, 'seed': seed}
    if kind == 'einsum':
        b = rng.randint(1, 3)
        return {'kind': kind, 'b': b, 'ba': rng.choice([1, b]), 'm': rng.randint(1, 4), 'n': rng.randint(1, 4), 'seed': seed}
    if kind == 'rearrange':
        shape = rand_shape(rng, 2, 4, 1, 4, max_numel=60)
        perm = list(range(len(shape)))
        rng.shuffle(perm)
        # group some adjacent output axes: '(a b)' -- free in row-major layout
        groups = []
        i = 0
        while i < len(perm):
            g = rng.randint(1, 2)
            groups.append(perm[i:i + g])
            i += g
        return {'kind': kind, 'shape': list(shape), 'perm': perm, 'groups': groups, 'seed': seed}
    if kind == 'cartsamp':
        return gen_cartsamp(rng, seed)
    raise KeyError(kind)


def gen_cartsamp(rng, seed):
    """trajectory on an integer grid with: permuted order, undersampling, duplicates, out-of-range points,
    singleton axes, non-grid axes and per-`other` trajectories"""
    nz, ny, nx = rng.choice([1, 1, 2, 3]), rng.randint(1, 5), rng.randint(1, 5)
    other = rng.randint(1, 2)
    flavour = rng.choice(['full', 'undersampled', 'permuted', 'duplicates', 'outside', 'nongrid_axis', 'per_other', 'dense', 'jitter', 'jitter', 'interleaved', 'interleaved'])
    if flavour == 'interleaved':  # full coverage, acquired in interleaves: first the lowest, last the highest grid point, not sorted in between
        ny, nx = rng.randint(4, 6), rng.randint(1, 5)
    k2 = nz if flavour != 'undersampled' else max(1, nz - 1)
    k1 = ny if flavour not in ('undersampled',) else max(1, ny - rng.randint(0, 2))
    k0 = nx

    def axis_vals(n, k, centre=True):
        vals = list(range(-(n // 2), n - n // 2))
        if flavour == 'undersampled':
            vals = sorted(rng.sample(vals, k))
        elif flavour in ('permuted', 'per_other', 'jitter'):
            rng.shuffle(vals)
            vals = vals[:k]
        elif flavour == 'interleaved':
            if n >= 4:
                mid = vals[1:-1]
                while mid == sorted(mid):
                    rng.shuffle(mid)
                vals = [vals[0], *(mid if rng.random() < 0.5 else (vals[2:-1:2] + vals[1:-1:2] if vals[2:-1:2] + vals[1:-1:2] != vals[1:-1] else mid)), vals[-1]]
        elif flavour == 'duplicates':
            vals = [rng.choice(vals) for _ in range(k)]
        elif flavour == 'outside':
            vals = [v + rng.choice([0, 0, 0, n, -n, 1]) for v in vals][:k]
        else:
            vals = vals[:k]
        return vals

    def comp(n, k, pos, vary_other=False):
        shape = [1, 1, 1, 1]
        shape[pos] = k
        o = other if vary_other else 1
        shape[0] = o
        vals = []
        for _ in range(o):
            vals += axis_vals(n, k)
        return {'shape': shape, 'vals': [str(v) for v in vals]}

    vo = flavour == 'per_other'
    kz = comp(nz, k2, 1, vo)
    ky = comp(ny, k1, 2, vo)
    kx = comp(nx, k0, 3, False)
    if flavour == 'nongrid_axis':
        # ky not on the grid: kept in acquisition order along k1
        ky['vals'] = [frac_str(Fraction(int(v)) + Fraction(1, 4)) for v in ky['vals']]
    if flavour == 'jitter':
        # on the grid only up to the detection tolerance (1e-3): positions stored with small errors of either sign, as a
        # trajectory computed from gradient moments would be; they must be *rounded* to the grid, not truncated
        for comp_ in (kz, ky, kx):
            if len(comp_['vals']) > 1:
                comp_['vals'] = [frac_str(Fraction(int(v)) + rng.choice([-1, 1, 1, -1, 0]) * Fraction(1, rng.choice([4096, 8192, 2048])))
                                 for v in comp_['vals']]
    if flavour == 'dense':
        # fully dense (other,k2,k1,k0) tensors, integer valued, arbitrary positions
        shp = [other, k2, k1, k0]
        n = numel(shp)
        kz = {'shape': shp, 'vals': [str(rng.randint(-(nz // 2), nz - nz // 2 - 1)) for _ in range(n)]}
        ky = {'shape': shp, 'vals': [str(rng.randint(-(ny // 2), ny - ny // 2 - 1)) for _ in range(n)]}
        kx = {'shape': shp, 'vals': [str(rng.randint(-(nx // 2), nx - nx // 2 - 1)) for _ in range(n)]}
    return {'kind': 'cartsamp', 'enc': [nz, ny, nx], 'other': other, 'coils': rng.randint(1, 2), 'flavour': flavour,
            'kz': kz, 'ky': ky, 'kx': kx, 'seed': seed}


# ------------------------------------------------------------------ building the real operator
class Built:
    def __init__(self, cfg, op, dom, rng_shape, can_dom, can_rng, spec):
        self.cfg, self.op, self.dom, self.rng, self.can_dom, self.can_rng, self._spec = cfg, op, tuple(dom), tuple(rng_shape), list(
            can_dom), list(can_rng), spec

    def spec(self, adj: bool) -> dict:
        return {'op': 'linop', 'adj': adj, 'shape': self.can_rng if adj else self.can_dom, **self._spec}


def traj_comp_tensor(c):
    vals = [float(Fraction(v)) for v in c['vals']]
    return torch.tensor(vals, dtype=torch.float64).reshape(c['shape'])


def build(cfg: dict) -> Built:
    import mrpro
    from mrpro.data import KTrajectory, SpatialDimension

    kind = cfg['kind']
    rng = random.Random(cfg['seed'])
    if kind == 'zeropad':
        shape = cfg['shape']
        op = mrpro.operators.ZeroPadOp(dim=cfg['dim'], original_shape=cfg['orig'], padded_shape=cfg['padded'])
        out = list(shape)
        for d, p in zip(cfg['dim'], cfg['padded'], strict=True):
            out[d] = p
        return Built(cfg, op, shape, out, shape, out, {'name': 'zeropad', 'dim': cfg['dim'], 'orig': cfg['orig'], 'padded': cfg['padded']})
    if kind == 'fd':
        shape = cfg['shape']
        op = mrpro.operators.FiniteDifferenceOp(dim=cfg['dim'], mode=cfg['mode'], pad_mode='circular' if cfg['circular'] else 'zeros')
        out = [len(cfg['dim']), *shape]
        return Built(cfg, op, shape, out, shape, out, {'name': 'fd', 'dim': cfg['dim'], 'mode': cfg['mode'], 'circular': cfg['circular']})
    if kind == 'sens':
        b, bc, c, zyx = cfg['b'], cfg['bc'], cfg['c'], cfg['zyx']
        n = numel(zyx)
        csm = int_tensor(rng, (bc, c, *zyx))
        op = mrpro.operators.SensitivityOp(csm)
        return Built(cfg, op, (b, 1, *zyx), (b, c, *zyx), [b, n], [b, c, n],
                     {'name': 'sens', 'bc': bc, 'c': c, 'n': n, 'csm': tensor_strs(csm)})
    if kind == 'dcf':
        b, bd, c, k = cfg['b'], cfg['bd'], cfg['c'], cfg['k']
        n = numel(k)
        dcf = int_tensor(rng, (bd, *k), complex_=cfg['complex'], lo=1, hi=4)
        op = mrpro.operators.DensityCompensationOp(dcf)
        return Built(cfg, op, (b, c, *k), (b, c, *k), [b, c, n], [b, c, n],
                     {'name': 'dcf', 'bd': bd, 'c': c, 'n': n, 'dcf': tensor_strs(dcf)})
    if kind == 'einsum':
        b, ba, m, n = cfg['b'], cfg['ba'], cfg['m'], cfg['n']
        mat = int_tensor(rng, (ba, m, n))
        op = mrpro.operators.EinsumOp(mat)
        return Built(cfg, op, (b, n), (b, m), [b, n], [b, m], {'name': 'einsum', 'ba': ba, 'm': m, 'n': n, 'matrix': tensor_strs(mat)})
    if kind == 'rearrange':
        shape, perm, groups = cfg['shape'], cfg['perm'], cfg['groups']
        names = [f'a{i}' for i in range(len(shape))]
        lhs = ' '.join(names)
        rhs = ' '.join(names[g[0]] if len(g) == 1 else '(' + ' '.join(names[i] for i in g) + ')' for g in groups)
        info = {names[i]: shape[i] for i in range(len(shape))}
        from mrpro.operators.RearrangeOp import RearrangeOp
        op = RearrangeOp(f'{lhs} -> {rhs}', additional_info=info)
        out = [numel([shape[i] for i in g]) for g in groups]
        return Built(cfg, op, shape, out, shape, [shape[p] for p in perm], {'name': 'rearrange', 'perm': perm})
    if kind == 'cartsamp':
        nz, ny, nx = cfg['enc']
        kz, ky, kx = (traj_comp_tensor(cfg[k]) for k in ('kz', 'ky', 'kx'))
        traj = KTrajectory(kz, ky, kx, repeat_detection_tolerance=None)
        import warnings

        with warnings.catch_warnings():
            warnings.simplefilter('ignore')
            op = mrpro.operators.CartesianSamplingOp(SpatialDimension(nz, ny, nx), traj)
        tshape = list(traj.broadcasted_shape)
        grid = list(op._sorted_grid_shape.zyx)
        b = max(cfg['other'], tshape[0])
        c = cfg['coils']
        S = numel(tshape[1:])
        G = numel(grid)
        return Built(cfg, op, (b, c, *grid), (b, c, *tshape[1:]), [b, c, G], [b, c, S],
                     {'name': 'cartsamp', 'enc': [nz, ny, nx], 'tshape': tshape, 'kz': cfg['kz'], 'ky': cfg['ky'], 'kx': cfg['kx']})
    raise KeyError(kind)


# ------------------------------------------------------------------ dense matrices
def basis(shape, dtype=torch.complex128):
    n = numel(shape)
    return torch.eye(n, dtype=dtype).reshape(n, *shape)


def impl_matrix(fn, dom_shape, out_numel=None) -> torch.Tensor:
    """dense matrix of a (C-linear) map from applying it to the canonical basis: columns = fn(e_k)"""
    cols = []
    for e in basis(dom_shape):
        (y,) = fn(e)
        cols.append(y.reshape(-1).to(torch.complex128))
    return torch.stack(cols, dim=1)


def model_matrix(drv, built: Built, adj: bool):
    """returns ('ok', matrix as list of columns of exact strings, out_shape) or ('err', kind)"""
    shape = built.can_rng if adj else built.can_dom
    n = numel(shape)
    xs = [['1' if i == k else '0' for i in range(n)] for k in range(n)]
    res = drv.call({**built.spec(adj), 'xs': xs})
    if 'err' in res:
        return ('err', res['err'], None)
    return ('ok', res['ys'], res['shape'])


def model_apply(drv, built: Built, adj: bool, x: torch.Tensor):
    res = drv.call({**built.spec(adj), 'xs': [tensor_strs(x)]})
    if 'err' in res:
        return ('err', res['err'], None)
    return ('ok', res['ys'][0], res['shape'])
