"""Conversions between torch tensors and the exact line protocol."""
from fractions import Fraction
import struct

import torch


def frac_str(v) -> str:
    f = Fraction(v)
    return str(f.numerator) if f.denominator == 1 else f'{f.numerator}/{f.denominator}'


def scal_str(z) -> str:
    """exact string of a python/torch real or complex number (floats are dyadic rationals)"""
    if isinstance(z, complex):
        return frac_str(z.real) if z.imag == 0 else f'{frac_str(z.real)};{frac_str(z.imag)}'
    return frac_str(z)


def tensor_strs(t: torch.Tensor) -> list[str]:
    flat = t.detach().cpu().reshape(-1)
    if flat.is_complex():
        return [scal_str(complex(z)) for z in flat.to(torch.complex128).tolist()]
    if flat.dtype == torch.bool:
        return [str(int(z)) for z in flat.tolist()]
    if flat.is_floating_point():
        return [frac_str(z) for z in flat.to(torch.float64).tolist()]
    return [str(int(z)) for z in flat.tolist()]


def parse_scal(s: str) -> complex | Fraction:
    if ';' in s:
        a, b = s.split(';')
        return (Fraction(a), Fraction(b))
    return (Fraction(s), Fraction(0))


def strs_equal(a: list[str], b: list[str]) -> bool:
    if len(a) != len(b):
        return False
    return all(parse_scal(x) == parse_scal(y) for x, y in zip(a, b, strict=True))


def strs_to_tensor(strs: list[str], shape) -> torch.Tensor:
    vals = [parse_scal(s) for s in strs]
    return torch.tensor([complex(float(a), float(b)) for a, b in vals], dtype=torch.complex128).reshape(tuple(shape))


def first_diff(a: list[str], b: list[str]):
    if len(a) != len(b):
        return ('len', len(a), len(b))
    for i, (x, y) in enumerate(zip(a, b, strict=True)):
        if parse_scal(x) != parse_scal(y):
            return (i, x, y)
    return None


def f2bits(x: float) -> int:
    return struct.unpack('<Q', struct.pack('<d', float(x)))[0]


def bits2f(n: int) -> float:
    return struct.unpack('<d', struct.pack('<Q', int(n)))[0]


def tensor_bits(t: torch.Tensor) -> list[int]:
    """real tensor -> list of bits; complex tensor -> interleaved re, im bits"""
    t = t.detach().cpu()
    if t.is_complex():
        t = torch.view_as_real(t.to(torch.complex128).contiguous())
    return [f2bits(v) for v in t.to(torch.float64).reshape(-1).tolist()]


def bits_tensor(bits: list[int], shape, complex_: bool = True) -> torch.Tensor:
    vals = torch.tensor([bits2f(b) for b in bits], dtype=torch.float64)
    if complex_:
        return torch.view_as_complex(vals.reshape(-1, 2).contiguous()).reshape(tuple(shape))
    return vals.reshape(tuple(shape))
