"""Generic check runner: proof obligations -> correspondence -> failing-input search -> verdict."""
import argparse
import hashlib
import importlib
import json
import os
import random
import sys
import time
import traceback
from collections import Counter
from pathlib import Path

ROOT = Path(__file__).resolve().parents[2]
sys.path.insert(0, str(ROOT))
REPO = Path(os.environ.get('MRPRO_REPO', '/repo'))
sys.path.insert(0, str(REPO / 'src'))

from harness.core import lean  # noqa: E402

TRUSTED_BASE = [
    'Lean 4.33.0 kernel (thorough tier: re-checked with leanchecker)',
    'axioms allowed in property theorems: propext, Classical.choice, Quot.sound (audited with #print axioms on every run)',
    'hand-written Lean model of the Python code, tied to /repo by the correspondence check of this run',
    'translator-lite harness/extract_consts.py (ast) for the generated constants in lean/Mrpro/Gen/Consts.lean',
    'translator harness/translate_src.py + harness/py2lean.py (ast -> Lean Int terms, Python // and % as Int.fdiv / Int.fmod) '
    'for the integer code regenerated into lean/Mrpro/Gen/Src.lean; a site reported as "fallback" in translated_sites is '
    'tied by the correspondence check only',
    'harness (Python) transmitting cases faithfully; torch / third-party kernels are parameters of the model',
]


class Outcome:
    def __init__(self, key, nontrivial=True, corr=None, viol=None, branches=(), sample=None, improvement=None):
        self.key = key
        self.nontrivial = nontrivial
        self.corr = corr  # description of a model/implementation disagreement, or None
        self.viol = viol  # dict(signature, what, ...) : the property fails on the real code on this input
        self.branches = list(branches)
        self.sample = sample


def load_known():
    p = ROOT / 'known_findings.json'
    if not p.exists():
        return {'findings': [], 'fixed': []}
    return json.loads(p.read_text())


def write_replay(prop, kind, case, detail, broken=None):
    d = ROOT / 'replays'
    d.mkdir(exist_ok=True)
    body = {'property': prop, 'kind': kind, 'case': case, 'detail': detail, 'broken': broken,
            'replay_cmd': f'./check {prop} --replay <this file>'}
    h = hashlib.sha1(json.dumps(body, sort_keys=True, default=str).encode()).hexdigest()[:12]
    p = d / f'{prop}-{h}.json'
    p.write_text(json.dumps(body, indent=1, default=str))
    return str(p.relative_to(ROOT))


def main(argv=None):
    ap = argparse.ArgumentParser()
    ap.add_argument('prop')
    ap.add_argument('--tier', default=os.environ.get('VERIF_TIER', 'quick'))
    ap.add_argument('--replay')
    ap.add_argument('--no-build', action='store_true')
    args = ap.parse_args(argv)
    prop = args.prop
    tier = 'thorough' if args.tier == 'thorough' else 'quick'
    seed = int(os.environ.get('VERIF_SEED', '0') or 0)
    t0 = time.time()
    mod = importlib.import_module(f'harness.props.{prop.lower()}')

    import mrpro

    assert str(Path(mrpro.__file__).resolve()).startswith(str((REPO / 'src').resolve())), (
        f'mrpro imported from {mrpro.__file__}, expected {REPO}/src')

    # ---- (a) translator-lite, (b) build, (c) audit -------------------------------------------
    violations = []  # (signature, what, replay path, has_input)
    lean.regenerate_consts()
    targets = [f'Mrpro.Props.{prop}', 'driver']
    if args.no_build:
        ok, log, build_s = True, '', 0.0
    else:
        ok, log, build_s = lean.build(targets, clean=(tier == 'thorough' and os.environ.get('VERIF_CLEAN') == '1'))
    thms = lean.theorems_of(prop)
    broken_thms: list[str] = []
    axioms = {}
    if not ok:
        broken_thms = lean.failed_theorems(prop, log) or [f'lake build {" ".join(targets)}']
        # the driver may still be buildable even if a proof is not
        ok_drv, log_drv, _ = lean.build(['driver'])
        if not ok_drv:
            broken_thms.append('driver (executable model) does not build')
    else:
        axioms, alog = lean.audit(prop)
        for t, ax in axioms.items():
            if ax is None:
                broken_thms.append(f'{t} (no #print axioms output)')
            elif not set(ax) <= lean.ALLOWED_AXIOMS:
                broken_thms.append(f'{t} (axioms {sorted(set(ax) - lean.ALLOWED_AXIOMS)})')
    hyg = lean.hygiene(prop)
    if hyg:
        broken_thms.append('forbidden tokens in Lean sources: ' + '; '.join(hyg[:5]))
    leanchecker = None
    if tier == 'thorough' and ok and not args.no_build:
        import subprocess

        p = subprocess.run(['lake', 'env', 'leanchecker', f'Mrpro.Props.{prop}'], cwd=lean.LEAN_DIR,
                           capture_output=True, text=True, timeout=3000)
        leanchecker = p.returncode
        if p.returncode != 0:
            broken_thms.append(f'leanchecker rejected Mrpro.Props.{prop}: {(p.stdout + p.stderr)[-300:]}')
    discharged = [t for t in thms if not any(b.startswith(t) for b in broken_thms)] if ok else []
    if not ok:
        failed_named = {b for b in broken_thms}
        discharged = []

    # ---- (d) correspondence + property-level oracle on the real code --------------------------
    from harness.core.driver import ModelDriver

    drv = None
    try:
        drv = ModelDriver()
    except Exception as e:  # noqa: BLE001
        if ok:
            # the build succeeded (or was skipped) but the executable cannot be started: infrastructure, not a verdict (exit 2)
            print(f'HARNESS-ERROR {prop}: model driver not startable: {e}', file=sys.stderr)
        else:
            broken_thms.append(f'driver not startable: {e}')
    rng = random.Random(seed * 1000003 + (1 if tier == 'thorough' else 0))
    cases = []
    corpus_dir = ROOT / 'corpus' / prop
    if args.replay:
        body = json.loads(Path(args.replay).read_text())
        cases = [body['case']] if body.get('case') else []
    else:
        if corpus_dir.exists():
            for p in sorted(corpus_dir.glob('*.json')):
                cases.append(json.loads(p.read_text()))
        n_corpus = len(cases)
        from harness import translate_src

        from harness import source_pins

        fallbacks = translate_src.fallbacks_for(prop)
        gen_tier = tier
        source_drift = source_pins.drift(prop)
        if source_drift:
            # an anchored file differs from the state the model was last validated against: search harder (never a violation by itself)
            gen_tier = 'thorough'
            print(f'NOTE {prop}: source drift in {sorted(source_drift)}; correspondence searched with the thorough generators')
        if fallbacks:
            # the source left the translatable fragment at a site this property relies on: the 'for all integers' tie is
            # gone for that site, so the sampled tie has to carry more - search with the thorough generators
            gen_tier = 'thorough'
            for k, v in fallbacks.items():
                print(f'NOTE {prop}: translated site {k} fell back to the hand-written model ({v}); correspondence searched with the thorough generators')
        cases += list(mod.generate(rng, gen_tier))
        if tier == 'thorough':
            # the thorough tier proper (not the drift-triggered search of the quick tier) draws further rounds of cases
            for r in range(int(os.environ.get('VERIF_THOROUGH_ROUNDS', '3')) - 1):
                cases += [c for c in mod.generate(random.Random(seed * 1000003 + 7919 * (r + 1)), 'thorough')]
    outcomes = []
    disagreements = []
    viols = []
    errors = []
    branch_counter = Counter()
    kind_counter = Counter()
    kind_seconds = Counter()
    if drv is not None:
        for case in cases:
            tc = time.time()
            try:
                o = mod.run(case, drv)
            except Exception as e:  # noqa: BLE001
                frames = traceback.extract_tb(e.__traceback__)
                in_impl = [f for f in frames if str(Path(f.filename).resolve()).startswith(str((REPO / 'src').resolve()))]
                if in_impl and not isinstance(e, MemoryError) and "can't allocate memory" not in str(e):
                    # the library raised on an input for which the property promises a result (the harness only makes calls that
                    # succeed on the tree it was written against): that is a failing input, not an infrastructure problem
                    last = in_impl[-1]
                    o = Outcome(key=('raises', case.get('kind', '?'), type(e).__name__), viol={
                        'signature': f'raises:{case.get("kind", "?")}:{type(e).__name__}',
                        'what': f'mrpro raises {type(e).__name__}: {str(e)[:160]} (in {Path(last.filename).name}:{last.lineno} {last.name}) for case '
                                f'{json.dumps(case, default=str)[:300]}'})
                    outcomes.append(o)
                    viols.append((case, o))
                    continue
                errors.append((case, ''.join(traceback.format_exception_only(type(e), e)).strip(), traceback.format_exc()))
                continue
            outcomes.append(o)
            kind_counter[case.get('kind', '?')] += 1
            kind_seconds[case.get('kind', '?')] += time.time() - tc
            branch_counter.update(o.branches)
            if o.corr:
                disagreements.append((case, o))
            if o.viol:
                viols.append((case, o))
            if args.replay:
                print(json.dumps({'case': case, 'corr': o.corr, 'viol': o.viol}, indent=1, default=str))
    # harness errors are infrastructure failures, not verdicts
    if errors:
        for case, msg, tb in errors[:3]:
            print(f'HARNESS-ERROR {prop}: {msg}\n  case={json.dumps(case, default=str)[:400]}\n{tb}', file=sys.stderr)

    # ---- (e) search for failing inputs around disagreements that came without one ------------
    searched = 0
    for case, o in list(disagreements):
        if o.viol:
            continue
        found = None
        if hasattr(mod, 'neighbours') and drv is not None:
            for nb in mod.neighbours(case, rng):
                searched += 1
                try:
                    on = mod.run(nb, drv)
                except Exception:  # noqa: BLE001
                    continue
                if on.viol:
                    found = (nb, on)
                    break
        if found:
            viols.append(found)
            o.search_found = True
        else:
            o.search_found = False

    # ---- (f) verdict -------------------------------------------------------------------------
    known = load_known()
    known_sigs = {(k['property'], k['signature']): k for k in known.get('findings', [])}
    printed_known = set()
    reported = set()
    n_viol = 0

    def is_known(sig):
        for (p_, s_), k in known_sigs.items():
            if p_ == prop and (sig == s_ or sig.startswith(s_)):
                return k
        return None

    for case, o in viols:
        sig = o.viol['signature']
        k = is_known(sig)
        if k is not None:
            if k['signature'] not in printed_known:
                printed_known.add(k['signature'])
                print(f'KNOWN-FINDING: property={prop} {k["what"]}')
            continue
        if sig in reported:
            continue
        reported.add(sig)
        n_viol += 1
        rp = write_replay(prop, 'failing-input', case, o.viol)
        print(f'VIOLATION property={prop} replay={rp}')
        print(f'  failing input on the real code: {o.viol.get("what", "")[:300]}')
    unexplained = [(c, o) for c, o in disagreements if not o.viol and not getattr(o, 'search_found', False)]
    # a disagreement whose neighbourhood search found only known findings is still a broken correspondence
    seen_corr = set()
    for case, o in unexplained:
        ck = (case.get('kind'), o.corr.split(':')[0][:40])
        if ck in seen_corr:
            continue
        seen_corr.add(ck)
        n_viol += 1
        rp = write_replay(prop, 'no-failing-input-found', case, {'correspondence': o.corr},
                          broken=f'correspondence model<->implementation for case kind {case.get("kind")}')
        print(f'VIOLATION property={prop} replay={rp} no-failing-input-found')
        print(f'  correspondence broken: {o.corr[:300]}')
    if broken_thms:
        new_inputs = [v for v in viols if not is_known(v[1].viol['signature'])]
        if not new_inputs:
            n_viol += 1
            rp = write_replay(prop, 'no-failing-input-found', None, {'build_log_tail': log[-3000:]},
                              broken=broken_thms)
            print(f'VIOLATION property={prop} replay={rp} no-failing-input-found')
            print(f'  proof obligations no longer checked: {broken_thms[:6]}')
        else:
            print(f'  (proof obligations no longer checked: {broken_thms[:6]}; failing input reported above)')

    # ---- (g) evidence ------------------------------------------------------------------------
    distinct = {json.dumps(o.key, sort_keys=True, default=str) for o in outcomes if o.nontrivial}
    samples = []
    seen_kinds = set()
    for case, o in zip(cases, outcomes):
        k = case.get('kind')
        if k not in seen_kinds and len(samples) < 8:
            seen_kinds.add(k)
            samples.append(o.sample if o.sample is not None else case)
    wall = time.time() - t0
    ev = {
        'property_id': prop,
        'tier': tier,
        'seed': seed,
        'level': 'proof',
        'coverage': {
            'obligations': len(thms),
            'discharged': len(discharged),
            'checker_cmd': f'cd lean && lake build Mrpro.Props.{prop} && lake env lean .audit/{prop}.lean'
            + (' && lake env leanchecker Mrpro.Props.' + prop if tier == 'thorough' else ''),
            'trusted_base': TRUSTED_BASE + list(getattr(mod, 'TRUSTED_EXTRA', [])),
            'theorems': {t: axioms.get(t) for t in thms},
            'translated_sites': lean.translated_sites(),
            'source_drift': {k: list(v) for k, v in (source_drift if not args.replay else {}).items()},
            'broken_obligations': broken_thms,
            'leanchecker_exit': leanchecker,
            'build_seconds': round(build_s, 1),
            'evaluations': len(outcomes),
            'distinct_nontrivial': len(distinct),
            'rule': getattr(mod, 'RULE', 'cases are generated from VERIF_SEED; distinct = distinct case keys'),
            'samples': samples[:8] or [{'note': 'no correspondence cases ran'}],
            'traces_validated_against_impl': len(outcomes),
            'disagreements_checked': len(disagreements),
            'neighbour_cases_searched': searched,
            'case_kinds': dict(kind_counter),
            'seconds_per_kind': {k: round(v, 1) for k, v in kind_seconds.items()},
            'branches_hit': dict(branch_counter),
            'corpus_cases': 0 if args.replay else n_corpus,
            'harness_errors': len(errors),
            'known_findings_printed': sorted(printed_known),
            'model_driver_calls': drv.n_calls if drv else 0,
        },
        'assumptions': list(getattr(mod, 'ASSUMPTIONS', [])),
        'wall_s': round(wall, 2),
        'violations': n_viol,
    }
    if not args.replay:
        (ROOT / 'evidence').mkdir(exist_ok=True)
        (ROOT / 'evidence' / f'{prop}.json').write_text(json.dumps(ev, indent=1, default=str))
    if drv:
        drv.close()
    print(f'{prop} {tier} seed={seed}: obligations {len(discharged)}/{len(thms)}, cases {len(outcomes)} '
          f'({len(distinct)} distinct non-trivial), disagreements {len(disagreements)}, violations {n_viol}, '
          f'known {len(printed_known)}, harness errors {len(errors)}, {wall:.1f}s')
    if n_viol:
        return 1
    if errors or drv is None:
        return 2
    return 0


if __name__ == '__main__':
    sys.exit(main())
