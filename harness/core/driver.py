"""The Lean model driver: one JSON object per line in, one per line out."""
import json
import select
import subprocess
from pathlib import Path

LEAN_DIR = Path(__file__).resolve().parents[2] / 'lean'
DRIVER_EXE = LEAN_DIR / '.lake' / 'build' / 'bin' / 'driver'


class ModelDriver:
    def __init__(self):
        self.proc = subprocess.Popen(
            [str(DRIVER_EXE)], stdin=subprocess.PIPE, stdout=subprocess.PIPE, text=True, bufsize=1
        )
        self.n_calls = 0

    def call(self, obj: dict) -> dict:
        self.n_calls += 1
        line = json.dumps(obj, separators=(',', ':'))
        assert '\n' not in line
        self.proc.stdin.write(line + '\n')
        self.proc.stdin.flush()
        ready, _, _ = select.select([self.proc.stdout], [], [], 300)
        if not ready:
            self.proc.kill()
            raise RuntimeError(f'model driver timed out (300 s) on {line[:300]}')
        out = self.proc.stdout.readline()
        if not out:
            raise RuntimeError(f'model driver died on {line[:300]}')
        res = json.loads(out)
        if 'bad' in res:
            raise RuntimeError(f'model driver rejected the line: {res["bad"]} :: {line[:300]}')
        return res

    def close(self):
        try:
            self.proc.stdin.close()
            self.proc.wait(timeout=5)
        except Exception:
            self.proc.kill()
