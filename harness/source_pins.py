"""Source drift detection for the hand-written models.

The models in lean/Mrpro/Model were written against a particular state of the files each property is anchored in
(properties.jsonl, `anchors.files`, plus a few files the harness knows to matter).  `pins.json` records, per file, the sha1 of its AST
(docstrings and comments do not count).  When a check finds that an anchored file of its property differs from the pin it says so
(NOTE line, evidence field `source_drift`) and searches with the thorough generators: the code is no longer the code the sampled
tie was last validated against.  Drift is never a violation by itself.  `tools/pin_sources.py` re-pins after a reviewed change
(every `fix:` commit).
"""
import ast
import hashlib
import json
import os
from pathlib import Path

ROOT = Path(__file__).resolve().parents[1]
REPO = Path(os.environ.get('MRPRO_REPO', '/repo'))
PINS = ROOT / 'harness' / 'pins.json'
EXTRA = {
    'C01': ['src/mrpro/operators/GridSamplingOp.py', 'src/mrpro/operators/SliceProjectionOp.py', 'src/mrpro/operators/WaveletOp.py'],
    'C06': ['src/mrpro/algorithms/optimizers/cg.py'],
    'C14': ['src/mrpro/data/traj_calculators/KTrajectoryRpe.py', 'src/mrpro/data/traj_calculators/KTrajectoryRadial2D.py', 'src/mrpro/data/enums.py'],
    'C15': ['src/mrpro/data/MoveDataMixin.py'],
    'C16': ['src/mrpro/algorithms/dcf/dcf_voronoi.py'],
}


def _strip_docstrings(tree):
    for node in ast.walk(tree):
        if isinstance(node, (ast.FunctionDef, ast.AsyncFunctionDef, ast.ClassDef, ast.Module)):
            if node.body and isinstance(node.body[0], ast.Expr) and isinstance(node.body[0].value, ast.Constant) and isinstance(node.body[0].value.value, str):
                node.body = node.body[1:] or [ast.Pass()]
    return tree


def file_hash(rel: str, repo: Path | None = None) -> str | None:
    p = (repo or REPO) / rel
    try:
        tree = _strip_docstrings(ast.parse(p.read_text()))
    except (OSError, SyntaxError):
        return None
    return hashlib.sha1(ast.dump(tree).encode()).hexdigest()[:16]


def files_of(prop: str) -> list[str]:
    files = []
    for line in (ROOT / 'properties.jsonl').read_text().splitlines():
        if line.strip():
            p = json.loads(line)
            if p['id'] == prop:
                files = list(p.get('anchors', {}).get('files', []))
    for f in EXTRA.get(prop, []):
        if f not in files:
            files.append(f)
    return files


def drift(prop: str) -> dict:
    """{file: (pinned, current)} for the anchored files of the property that differ from the pin"""
    pins = json.loads(PINS.read_text()) if PINS.exists() else {}
    out = {}
    for f in files_of(prop):
        cur = file_hash(f)
        if f in pins and pins[f] != cur:
            out[f] = (pins[f], cur)
    return out


def pin_all() -> dict:
    pins = {}
    for line in (ROOT / 'properties.jsonl').read_text().splitlines():
        if line.strip():
            for f in files_of(json.loads(line)['id']):
                h = file_hash(f, Path('/repo'))
                if h is not None:
                    pins[f] = h
    PINS.write_text(json.dumps(dict(sorted(pins.items())), indent=1))
    return pins
