"""Translator: regenerate lean/Mrpro/Gen/Src.lean from the integer code of mrpro on every check run.

Each *site* is a whole function or the assignments to a few local names inside a function of
/repo/src/mrpro.  `py2lean` turns it into a Lean definition over `Int` with Python semantics
(`//` = `Int.fdiv`, `%` = `Int.fmod`, `raise` = `none`).  The theorems in `Mrpro/Lemmas/SrcL.lean`
(exposed in the Props files) state that each generated definition equals the hand-written model
for *all* integers; they are re-proved against whatever the source says now.

If a site leaves the translatable fragment, its definition falls back to the hand-written model,
`<name>_translated` is `false`, and the evidence lists the site as "fallback" — the code is then
tied to the model by the correspondence check only (which exercises the same site).
"""
import ast
import json
import os
from pathlib import Path

from harness import py2lean

REPO = Path(os.environ.get('MRPRO_REPO', '/repo'))
SRC = REPO / 'src' / 'mrpro'
OUT = Path(__file__).resolve().parents[1] / 'lean' / 'Mrpro' / 'Gen' / 'Src.lean'
STATUS = OUT.with_suffix('.status.json')

# name, file, (class or None, function), kind, options, fallback (Lean term using the model; same type)
SITES = [
    dict(name='normalize_index', file='utils/zero_pad_or_crop.py', func=(None, 'normalize_index'), kind='function',
         params=['ndim', 'index'], type='Option Int',
         fallback='(M.normIndex ndim.toNat index).map (fun k => (k : Int))'),
    dict(name='pad_rule', file='utils/zero_pad_or_crop.py', func=(None, 'zero_pad_or_crop'), kind='snippet',
         targets=['before', 'after'], inputs=['old', 'new'],
         fallback='(M.padShift old_.toNat new_.toNat, new_ - old_ - M.padShift old_.toNat new_.toNat)'),
    dict(name='crop_readout', file='data/_kdata/KDataRemoveOsMixin.py', func=(None, 'remove_readout_os'), kind='snippet',
         targets=['start_cropped_readout', 'end_cropped_readout'],
         inputs=['self_header_encoding_matrix_x', 'self_header_recon_matrix_x'],
         fallback='(((M.cropRange self_header_encoding_matrix_x.toNat self_header_recon_matrix_x.toNat).1 : Int), '
                  '((M.cropRange self_header_encoding_matrix_x.toNat self_header_recon_matrix_x.toNat).2 : Int))'),
    dict(name='filter_pad', file='utils/filters.py', func=(None, 'filter_separable'), kind='snippet',
         targets=['left_pad', 'right_pad'], inputs=['len_kernel'],
         fallback='(Int.fdiv (len_kernel - 1) 2, (len_kernel - 1) - Int.fdiv (len_kernel - 1) 2)'),
    dict(name='euler_axes', file='data/Rotation.py', func=(None, '_quaternion_to_euler'), kind='snippet',
         targets=['s', 'sign'], inputs=['q', 'r', 's'], keep_if=True,
         fallback='(M.eulerThird q r s, M.eulerSign q r (M.eulerThird q r s))'),
    dict(name='sampling_kx', file='operators/CartesianSamplingOp.py', func=('CartesianSamplingOp', '__init__'),
         kind='snippet', targets=['kx_idx'], inputs=['round_ktraj_tensor_m1', 'sorted_grid_shape_x'], match=r'round\(\)',
         fallback='round_ktraj_tensor_m1 + Int.fdiv sorted_grid_shape_x 2'),
    dict(name='sampling_ky', file='operators/CartesianSamplingOp.py', func=('CartesianSamplingOp', '__init__'),
         kind='snippet', targets=['ky_idx'], inputs=['round_ktraj_tensor_m2', 'sorted_grid_shape_y'], match=r'round\(\)',
         fallback='round_ktraj_tensor_m2 + Int.fdiv sorted_grid_shape_y 2'),
    dict(name='sampling_kz', file='operators/CartesianSamplingOp.py', func=('CartesianSamplingOp', '__init__'),
         kind='snippet', targets=['kz_idx'], inputs=['round_ktraj_tensor_m3', 'sorted_grid_shape_z'], match=r'round\(\)',
         fallback='round_ktraj_tensor_m3 + Int.fdiv sorted_grid_shape_z 2'),
    dict(name='sampling_flat', file='operators/CartesianSamplingOp.py', func=('CartesianSamplingOp', '__init__'),
         kind='snippet', targets=['kidx'], inputs=['kz_idx', 'sorted_grid_shape_y', 'sorted_grid_shape_x', 'ky_idx', 'kx_idx'],
         match=r'kz_idx \*',
         fallback='kz_idx * sorted_grid_shape_y * sorted_grid_shape_x + ky_idx * sorted_grid_shape_x + kx_idx'),
    dict(name='sliceproj_start', file='operators/SliceProjectionOp.py', func=('SliceProjectionOp', 'projection_matrix'),
         kind='snippet', targets=['start_x', 'start_y'], inputs=['input_shape_x', 'x', 'input_shape_y', 'y'],
         fallback='(Int.fdiv (input_shape_x - x) 2, Int.fdiv (input_shape_y - y) 2)'),
    dict(name='wavelet_level_shape', file='operators/WaveletOp.py', func=('WaveletOp', '__init__'), kind='snippet',
         targets=['current_shape'], inputs=['domain_shape', 'wavelet_length'],
         fallback='(-(Int.fdiv (-domain_shape) 2)) + Int.fdiv wavelet_length 2 - 1'),
    dict(name='kdata_shape', file='data/_kdata/KData.py', func=('KData', 'from_file'), kind='snippet',
         targets=['n_k1', 'n_k2'], keep_if=True,
         inputs=['len_n_acqs_per_other_and_k2', 'n_acqs_per_other_and_k2_0', 'n_acqs_per_other_0', 'len_n_acqs_per_other'],
         fallback='(if len_n_acqs_per_other_and_k2 = 1 then (n_acqs_per_other_and_k2_0, Int.fdiv n_acqs_per_other_0 '
                  'n_acqs_per_other_and_k2_0) else if len_n_acqs_per_other = 1 then (1, n_acqs_per_other_0) else (1, 1))'),
]


# which property's theorems speak about which site (a fallback there makes that check search harder)
SITE_PROPS = {'normalize_index': 'C11', 'pad_rule': 'C09', 'crop_readout': 'C15', 'filter_pad': 'C09', 'euler_axes': 'C12',
              'sampling_kx': 'C09', 'sampling_ky': 'C09', 'sampling_kz': 'C09', 'sampling_flat': 'C09', 'sliceproj_start': 'C20',
              'wavelet_level_shape': 'C09', 'kdata_shape': 'C14'}
# properties whose correspondence exercises the same code although the theorem lives elsewhere
SITE_ALSO = {'sampling_kx': ['C03', 'C01'], 'sampling_ky': ['C03', 'C01'], 'sampling_kz': ['C03', 'C01'], 'sampling_flat': ['C03', 'C01'],
             'pad_rule': ['C03', 'C01'], 'normalize_index': ['C09']}


def fallbacks_for(prop: str) -> dict:
    st = status()
    return {k: v for k, v in st.items() if v != 'translated' and (SITE_PROPS.get(k) == prop or prop in SITE_ALSO.get(k, []))}


# closed-form signal models: `forward` translated element-wise over a scalar type with `M.Transc`
FLOAT_SITES = [
    dict(name='invRec', file='operators/models/InversionRecovery.py', func=('InversionRecovery', 'forward'), inputs=['m0', 't1', 'self_ti'], model='M.invRec'),
    dict(name='satRec', file='operators/models/SaturationRecovery.py', func=('SaturationRecovery', 'forward'), inputs=['m0', 't1', 'self_ti'], model='M.satRec'),
    dict(name='monoExp', file='operators/models/MonoExponentialDecay.py', func=('MonoExponentialDecay', 'forward'),
         inputs=['m0', 'decay_constant', 'self_decay_time'], model='M.monoExp'),
    dict(name='molli', file='operators/models/MOLLI.py', func=('MOLLI', 'forward'), inputs=['a', 'c', 't1', 'self_ti'], model='M.molli'),
    dict(name='tss', file='operators/models/TransientSteadyStateWithPreparation.py', func=('TransientSteadyStateWithPreparation', 'forward'),
         inputs=['m0', 't1', 'flip_angle', 'self_sampling_time', 'self_repetition_time', 'self_m0_scaling_preparation', 'self_delay_after_preparation'],
         model='M.tss'),
    dict(name='wasabi', file='operators/models/WASABI.py', func=('WASABI', 'forward'),
         inputs=['b0_shift', 'relative_b1', 'c', 'd', 'self_offsets', 'self_tp', 'self_b1_nom', 'self_gamma'], model='M.wasabi'),
    dict(name='wasabiti', file='operators/models/WASABITI.py', func=('WASABITI', 'forward'),
         inputs=['b0_shift', 'rb1', 't1', 'self_offsets', 'self_trec', 'self_tp', 'self_b1_nom', 'self_gamma'], model='M.wasabiti'),
    # ConstraintsOp: the elementary maps (argument order of the source: x, beta; the model takes beta first)
    dict(name='c_sigmoid', file='operators/ConstraintsOp.py', func=('ConstraintsOp', 'sigmoid'), inputs=['x', 'beta'], model='(fun x b => M.sigmoidT b x)'),
    dict(name='c_sigmoid_inverse', file='operators/ConstraintsOp.py', func=('ConstraintsOp', 'sigmoid_inverse'), inputs=['x', 'beta'],
         model='(fun x b => M.sigmoidInvT b x)'),
    dict(name='c_softplus', file='operators/ConstraintsOp.py', func=('ConstraintsOp', 'softplus'), inputs=['x', 'beta'], model='(fun x b => M.softplusT b x)'),
    dict(name='c_softplus_inverse', file='operators/ConstraintsOp.py', func=('ConstraintsOp', 'softplus_inverse'), inputs=['x', 'beta'],
         model='(fun x b => M.softplusInvT b x)'),
]
for _s in FLOAT_SITES:
    SITE_PROPS['sig_' + _s['name']] = 'C17'


def translate_float_site(site):
    name = 'sig_' + site['name']
    try:
        tree = ast.parse((SRC / site['file']).read_text())
        fn = _find(tree, *site['func'])
        text = py2lean.float_function(fn, site['inputs'], name)
        return f'/-- translated from `{site["file"]}:{fn.name} (line {fn.lineno})` -/\n{text}\ndef {name}_translated : Bool := true', 'translated'
    except (py2lean.Untranslatable, OSError, SyntaxError) as e:
        sig = ' '.join(f'({py2lean._lean_name(p)} : K)' for p in site['inputs'])
        args = ' '.join(py2lean._lean_name(p) for p in site['inputs'])
        text = (f'/-- FALLBACK (source outside the translatable fragment: {str(e)[:100]}): the hand-written model -/\n'
                f'def {name} {sig} : K :=\n  {site["model"]} {args}\ndef {name}_translated : Bool := false')
        return text, f'fallback: {e}'


PULSEQ_GLUE = {  # statements of KTrajectoryPulseq.__call__ that the model of the whole rescaling relies on, as source text
    'k_max_all_directions': 'torch.max(torch.abs(k_traj_adc))',
    'kx': 'reshape_pulseq_traj(k_traj_adc[0], kheader.encoding_matrix.x)',
    'ky': 'reshape_pulseq_traj(k_traj_adc[1], kheader.encoding_matrix.y)',
    'kz': 'reshape_pulseq_traj(k_traj_adc[2], kheader.encoding_matrix.z)',
}
SITE_PROPS['pulseq_scale'] = 'C14'


def translate_pulseq():
    """`KTrajectoryPulseq.__call__`: the scale factor of a direction (an expression over a field), the threshold of the
    `not encoded` guard (an exact decimal) and the statements that say WHICH extent and WHICH encoding size go in"""
    from fractions import Fraction

    file = 'data/traj_calculators/KTrajectoryPulseq.py'
    try:
        tree = ast.parse((SRC / file).read_text())
        call = _find(tree, 'KTrajectoryPulseq', '__call__')
        inner = _find(call, None, 'reshape_pulseq_traj')
        if [a.arg for a in inner.args.args] != ['k_traj', 'encoding_size']:
            raise py2lean.Untranslatable('parameters of reshape_pulseq_traj')
        body = [st for st in inner.body if not (isinstance(st, ast.Expr) and isinstance(st.value, ast.Constant))]
        if len(body) != 3 or not isinstance(body[1], ast.If) or not isinstance(body[2], ast.Return):
            raise py2lean.Untranslatable('shape of reshape_pulseq_traj')
        if ast.unparse(body[0]) != 'k_max = torch.max(torch.abs(k_traj))':
            raise py2lean.Untranslatable('k_max is not the extent of the direction itself')
        if ast.unparse(body[2].value) != "rearrange(k_traj, '(other k0) -> other k0', k0=n_k0)":
            raise py2lean.Untranslatable('reshape of the scaled positions')
        test = body[1].test
        if not (isinstance(test, ast.Compare) and len(test.ops) == 1 and isinstance(test.ops[0], ast.Gt) and ast.unparse(test.left) == 'k_max'
                and isinstance(test.comparators[0], ast.BinOp) and isinstance(test.comparators[0].op, ast.Mult)
                and isinstance(test.comparators[0].left, ast.Constant) and ast.unparse(test.comparators[0].right) == 'k_max_all_directions'):
            raise py2lean.Untranslatable('guard of the rescaling')
        thr = Fraction(repr(test.comparators[0].left.value))
        then, other = body[1].body, body[1].orelse
        if not (len(then) == 1 and isinstance(then[0], ast.Assign) and ast.unparse(then[0].targets[0]) == 'k_traj'):
            raise py2lean.Untranslatable('then-branch of the rescaling')
        if not (len(other) == 1 and ast.unparse(other[0]) == 'k_traj = torch.zeros_like(k_traj)'):
            raise py2lean.Untranslatable('else-branch of the rescaling')
        e = py2lean.fexpr(then[0].value, py2lean.Ctx(['k_traj', 'encoding_size', 'k_max', 'k_max_all_directions']), set()).replace(' : K)', ' : Rat)')
        stmts = {ast.unparse(st.targets[0]): ast.unparse(st.value) for st in call.body if isinstance(st, ast.Assign) and len(st.targets) == 1}
        for k, v in PULSEQ_GLUE.items():
            if stmts.get(k) != v:
                raise py2lean.Untranslatable(f'{k} = {stmts.get(k)}')
        text = (f'/-- translated from `{file}:reshape_pulseq_traj (line {inner.lineno})` -/\n'
                f'def pulseq_scale (k_traj encoding_size k_max k_max_all_directions : Rat) : Rat :=\n  {e}\n'
                f'def pulseq_threshold : Rat := ({thr.numerator} : Rat) / {thr.denominator}\ndef pulseq_scale_translated : Bool := true')
        return text, 'translated'
    except (py2lean.Untranslatable, OSError, SyntaxError, ValueError) as e:
        text = (f'/-- FALLBACK (source outside the translatable fragment: {str(e)[:100]}): the hand-written model -/\n'
                'def pulseq_scale (k_traj encoding_size k_max k_max_all_directions : Rat) : Rat :=\n  M.pulseqScale k_traj encoding_size k_max\n'
                'def pulseq_threshold : Rat := M.pulseqThreshold\ndef pulseq_scale_translated : Bool := false')
        return text, f'fallback: {e}'


def _find(tree, cls, func):
    scope = tree
    if cls is not None:
        for node in ast.walk(tree):
            if isinstance(node, ast.ClassDef) and node.name == cls:
                scope = node
                break
        else:
            raise py2lean.Untranslatable(f'class {cls} not found')
    for node in ast.walk(scope):
        if isinstance(node, ast.FunctionDef) and node.name == func:
            return node
    raise py2lean.Untranslatable(f'function {func} not found')


def translate_site(site):
    """returns (lean definition text, status string)"""
    name = site['name']
    try:
        tree = ast.parse((SRC / site['file']).read_text())
        fn = _find(tree, *site['func'])
        if site['kind'] == 'function':
            text, params = py2lean.function(fn, name)
            if params != site['params']:
                raise py2lean.Untranslatable(f'parameters {params}, expected {site["params"]}')
        else:
            text, params = py2lean.snippet(fn, site['targets'], site['inputs'], name, match=site.get('match'),
                                           keep_if=site.get('keep_if', False))
        loc = f'{site["file"]}:{fn.name} (line {fn.lineno})'
        return f'/-- translated from `{loc}` -/\n{text}\ndef {name}_translated : Bool := true', 'translated'
    except (py2lean.Untranslatable, OSError, SyntaxError) as e:
        params = site['params'] if site['kind'] == 'function' else site['inputs']
        sig = ' '.join(f'({py2lean._lean_name(p)} : Int)' for p in params)
        typ = site.get('type') or ' × '.join(['Int'] * len(site['targets']))
        fb = site['fallback']
        for p in params:  # the fallback text uses the plain names
            pass
        text = (f'/-- FALLBACK (source outside the translatable fragment: {str(e)[:100]}): the hand-written model -/\n'
                f'def {name} {sig} : {typ} :=\n  {fb}\ndef {name}_translated : Bool := false')
        return text, f'fallback: {e}'


def generate():
    out = ['import Mrpro.Model.Index', 'import Mrpro.Model.Ops', 'import Mrpro.Model.KDataOps',
           'import Mrpro.Model.SrcModel', 'import Mrpro.Model.Signal', 'import Mrpro.Model.Load', '',
           '/-! GENERATED by harness/translate_src.py from /repo/src on every check run. Do not edit. -/', '',
           'namespace M.Src', '']
    status = {}
    for site in SITES:
        text, st = translate_site(site)
        out += [text, '']
        status[site['name']] = st
    text, st = translate_pulseq()
    out += [text, '']
    status['pulseq_scale'] = st
    out += ['/-! closed-form signal models, element-wise -/', 'section Signal',
            'variable {K : Type} [Add K] [Sub K] [Mul K] [Div K] [Neg K] [OfNat K 0] [OfNat K 1] [OfNat K 2] [M.Transc K]', 'open M', '']
    for site in FLOAT_SITES:
        text, st = translate_float_site(site)
        out += [text, '']
        status['sig_' + site['name']] = st
    out += ['end Signal', '', 'end M.Src', '']
    return '\n'.join(out), status


def main() -> bool:
    new, status = generate()
    STATUS.write_text(json.dumps(status, indent=1))
    if not OUT.exists() or OUT.read_text() != new:
        OUT.parent.mkdir(parents=True, exist_ok=True)
        OUT.write_text(new)
        return True
    return False


def status() -> dict:
    return json.loads(STATUS.read_text()) if STATUS.exists() else {}


if __name__ == '__main__':
    print('changed' if main() else 'unchanged')
    print(json.dumps(status(), indent=1))
