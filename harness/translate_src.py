"""Translator: regenerate lean/Mrpro/Gen/Src.lean from the integer code of mrpro on every check run.

Each *site* is a whole function or the assignments to a few local names inside a function of
/repo/src/mrpro.  `py2lean` turns it into a Lean definition over `Int` with Python semantics
(`//` = `Int.fdiv`, `%` = `Int.fmod`, `raise` = `none`).  The theorems in `Mrpro/Lemmas/SrcL.lean`
(exposed in the Props files) state that each generated definition equals the hand-written model
for *all* integers; they are re-proved against whatever the source says now.

If a site leaves the translatable fragment, its definition falls back to the hand-written model,
`<name>_translated` is `false`, and the evidence lists the site as "fallback" — the code is then
tied to the model by the correspondence check only (which exercises the same site).
"""
import ast
import json
import os
from pathlib import Path

from harness import py2lean

REPO = Path(os.environ.get('MRPRO_REPO', '/repo'))
SRC = REPO / 'src' / 'mrpro'
OUT = Path(__file__).resolve().parents[1] / 'lean' / 'Mrpro' / 'Gen' / 'Src.lean'
STATUS = OUT.with_suffix('.status.json')

# name, file, (class or None, function), kind, options, fallback (Lean term using the model; same type)
SITES = [
    dict(name='normalize_index', file='utils/zero_pad_or_crop.py', func=(None, 'normalize_index'), kind='function',
         params=['ndim', 'index'], type='Option Int',
         fallback='(M.normIndex ndim.toNat index).map (fun k => (k : Int))'),
    dict(name='pad_rule', file='utils/zero_pad_or_crop.py', func=(None, 'zero_pad_or_crop'), kind='snippet',
         targets=['before', 'after'], inputs=['old', 'new'],
         fallback='(M.padShift old_.toNat new_.toNat, new_ - old_ - M.padShift old_.toNat new_.toNat)'),
    dict(name='crop_readout', file='data/_kdata/KDataRemoveOsMixin.py', func=(None, 'remove_readout_os'), kind='snippet',
         targets=['start_cropped_readout', 'end_cropped_readout'],
         inputs=['self_header_encoding_matrix_x', 'self_header_recon_matrix_x'],
         fallback='(((M.cropRange self_header_encoding_matrix_x.toNat self_header_recon_matrix_x.toNat).1 : Int), '
                  '((M.cropRange self_header_encoding_matrix_x.toNat self_header_recon_matrix_x.toNat).2 : Int))'),
    dict(name='filter_pad', file='utils/filters.py', func=(None, 'filter_separable'), kind='snippet',
         targets=['left_pad', 'right_pad'], inputs=['len_kernel'],
         fallback='(Int.fdiv (len_kernel - 1) 2, (len_kernel - 1) - Int.fdiv (len_kernel - 1) 2)'),
    dict(name='euler_axes', file='data/Rotation.py', func=(None, '_quaternion_to_euler'), kind='snippet',
         targets=['s', 'sign'], inputs=['q', 'r', 's'], keep_if=True,
         fallback='(M.eulerThird q r s, M.eulerSign q r (M.eulerThird q r s))'),
    dict(name='sampling_kx', file='operators/CartesianSamplingOp.py', func=('CartesianSamplingOp', '__init__'),
         kind='snippet', targets=['kx_idx'], inputs=['round_ktraj_tensor_m1', 'sorted_grid_shape_x'], match=r'round\(\)',
         fallback='round_ktraj_tensor_m1 + Int.fdiv sorted_grid_shape_x 2'),
    dict(name='sampling_ky', file='operators/CartesianSamplingOp.py', func=('CartesianSamplingOp', '__init__'),
         kind='snippet', targets=['ky_idx'], inputs=['round_ktraj_tensor_m2', 'sorted_grid_shape_y'], match=r'round\(\)',
         fallback='round_ktraj_tensor_m2 + Int.fdiv sorted_grid_shape_y 2'),
    dict(name='sampling_kz', file='operators/CartesianSamplingOp.py', func=('CartesianSamplingOp', '__init__'),
         kind='snippet', targets=['kz_idx'], inputs=['round_ktraj_tensor_m3', 'sorted_grid_shape_z'], match=r'round\(\)',
         fallback='round_ktraj_tensor_m3 + Int.fdiv sorted_grid_shape_z 2'),
    dict(name='sampling_flat', file='operators/CartesianSamplingOp.py', func=('CartesianSamplingOp', '__init__'),
         kind='snippet', targets=['kidx'], inputs=['kz_idx', 'sorted_grid_shape_y', 'sorted_grid_shape_x', 'ky_idx', 'kx_idx'],
         match=r'kz_idx \*',
         fallback='kz_idx * sorted_grid_shape_y * sorted_grid_shape_x + ky_idx * sorted_grid_shape_x + kx_idx'),
    dict(name='sliceproj_start', file='operators/SliceProjectionOp.py', func=('SliceProjectionOp', 'projection_matrix'),
         kind='snippet', targets=['start_x', 'start_y'], inputs=['input_shape_x', 'x', 'input_shape_y', 'y'],
         fallback='(Int.fdiv (input_shape_x - x) 2, Int.fdiv (input_shape_y - y) 2)'),
    dict(name='wavelet_level_shape', file='operators/WaveletOp.py', func=('WaveletOp', '__init__'), kind='snippet',
         targets=['current_shape'], inputs=['domain_shape', 'wavelet_length'],
         fallback='(-(Int.fdiv (-domain_shape) 2)) + Int.fdiv wavelet_length 2 - 1'),
    dict(name='kdata_shape', file='data/_kdata/KData.py', func=('KData', 'from_file'), kind='snippet',
         targets=['n_k1', 'n_k2'], keep_if=True,
         inputs=['len_n_acqs_per_other_and_k2', 'n_acqs_per_other_and_k2_0', 'n_acqs_per_other_0', 'len_n_acqs_per_other'],
         fallback='(if len_n_acqs_per_other_and_k2 = 1 then (n_acqs_per_other_and_k2_0, Int.fdiv n_acqs_per_other_0 '
                  'n_acqs_per_other_and_k2_0) else if len_n_acqs_per_other = 1 then (1, n_acqs_per_other_0) else (1, 1))'),
]


# which property's theorems speak about which site (a fallback there makes that check search harder)
SITE_PROPS = {'normalize_index': 'C11', 'pad_rule': 'C09', 'crop_readout': 'C15', 'filter_pad': 'C09', 'euler_axes': 'C12',
              'sampling_kx': 'C09', 'sampling_ky': 'C09', 'sampling_kz': 'C09', 'sampling_flat': 'C09', 'sliceproj_start': 'C20',
              'wavelet_level_shape': 'C09', 'kdata_shape': 'C14'}
# properties whose correspondence exercises the same code although the theorem lives elsewhere
SITE_ALSO = {'sampling_kx': ['C03', 'C01'], 'sampling_ky': ['C03', 'C01'], 'sampling_kz': ['C03', 'C01'], 'sampling_flat': ['C03', 'C01'],
             'pad_rule': ['C03', 'C01'], 'normalize_index': ['C09']}


def fallbacks_for(prop: str) -> dict:
    st = status()
    return {k: v for k, v in st.items() if v != 'translated' and (SITE_PROPS.get(k) == prop or prop in SITE_ALSO.get(k, []))}


# closed-form signal models: `forward` translated element-wise over a scalar type with `M.Transc`
FLOAT_SITES = [
    dict(name='invRec', file='operators/models/InversionRecovery.py', func=('InversionRecovery', 'forward'), inputs=['m0', 't1', 'self_ti'], model='M.invRec'),
    dict(name='satRec', file='operators/models/SaturationRecovery.py', func=('SaturationRecovery', 'forward'), inputs=['m0', 't1', 'self_ti'], model='M.satRec'),
    dict(name='monoExp', file='operators/models/MonoExponentialDecay.py', func=('MonoExponentialDecay', 'forward'),
         inputs=['m0', 'decay_constant', 'self_decay_time'], model='M.monoExp'),
    dict(name='molli', file='operators/models/MOLLI.py', func=('MOLLI', 'forward'), inputs=['a', 'c', 't1', 'self_ti'], model='M.molli'),
    dict(name='tss', file='operators/models/TransientSteadyStateWithPreparation.py', func=('TransientSteadyStateWithPreparation', 'forward'),
         inputs=['m0', 't1', 'flip_angle', 'self_sampling_time', 'self_repetition_time', 'self_m0_scaling_preparation', 'self_delay_after_preparation'],
         model='M.tss'),
    dict(name='wasabi', file='operators/models/WASABI.py', func=('WASABI', 'forward'),
         inputs=['b0_shift', 'relative_b1', 'c', 'd', 'self_offsets', 'self_tp', 'self_b1_nom', 'self_gamma'], model='M.wasabi'),
    dict(name='wasabiti', file='operators/models/WASABITI.py', func=('WASABITI', 'forward'),
         inputs=['b0_shift', 'rb1', 't1', 'self_offsets', 'self_trec', 'self_tp', 'self_b1_nom', 'self_gamma'], model='M.wasabiti'),
    # ConstraintsOp: the elementary maps (argument order of the source: x, beta; the model takes beta first)
    dict(name='c_sigmoid', file='operators/ConstraintsOp.py', func=('ConstraintsOp', 'sigmoid'), inputs=['x', 'beta'], model='(fun x b => M.sigmoidT b x)'),
    dict(name='c_sigmoid_inverse', file='operators/ConstraintsOp.py', func=('ConstraintsOp', 'sigmoid_inverse'), inputs=['x', 'beta'],
         model='(fun x b => M.sigmoidInvT b x)'),
    dict(name='c_softplus', file='operators/ConstraintsOp.py', func=('ConstraintsOp', 'softplus'), inputs=['x', 'beta'], model='(fun x b => M.softplusT b x)'),
    dict(name='c_softplus_inverse', file='operators/ConstraintsOp.py', func=('ConstraintsOp', 'softplus_inverse'), inputs=['x', 'beta'],
         model='(fun x b => M.softplusInvT b x)'),
]
for _s in FLOAT_SITES:
    SITE_PROPS['sig_' + _s['name']] = 'C17'


def translate_float_site(site):
    name = 'sig_' + site['name']
    try:
        tree = ast.parse((SRC / site['file']).read_text())
        fn = _find(tree, *site['func'])
        text = py2lean.float_function(fn, site['inputs'], name)
        return f'/-- translated from `{site["file"]}:{fn.name} (line {fn.lineno})` -/\n{text}\ndef {name}_translated : Bool := true', 'translated'
    except (py2lean.Untranslatable, OSError, SyntaxError) as e:
        sig = ' '.join(f'({py2lean._lean_name(p)} : K)' for p in site['inputs'])
        args = ' '.join(py2lean._lean_name(p) for p in site['inputs'])
        text = (f'/-- FALLBACK (source outside the translatable fragment: {str(e)[:100]}): the hand-written model -/\n'
                f'def {name} {sig} : K :=\n  {site["model"]} {args}\ndef {name}_translated : Bool := false')
        return text, f'fallback: {e}'


PULSEQ_GLUE = {  # statements of KTrajectoryPulseq.__call__ that the model of the whole rescaling relies on, as source text
    'k_max_all_directions': 'torch.max(torch.abs(k_traj_adc))',
    'kx': 'reshape_pulseq_traj(k_traj_adc[0], kheader.encoding_matrix.x)',
    'ky': 'reshape_pulseq_traj(k_traj_adc[1], kheader.encoding_matrix.y)',
    'kz': 'reshape_pulseq_traj(k_traj_adc[2], kheader.encoding_matrix.z)',
}
SITE_PROPS['pulseq_scale'] = 'C14'


def translate_pulseq():
    """`KTrajectoryPulseq.__call__`: the scale factor of a direction (an expression over a field), the threshold of the
    `not encoded` guard (an exact decimal) and the statements that say WHICH extent and WHICH encoding size go in"""
    from fractions import Fraction

    file = 'data/traj_calculators/KTrajectoryPulseq.py'
    try:
        tree = ast.parse((SRC / file).read_text())
        call = _find(tree, 'KTrajectoryPulseq', '__call__')
        inner = _find(call, None, 'reshape_pulseq_traj')
        if [a.arg for a in inner.args.args] != ['k_traj', 'encoding_size']:
            raise py2lean.Untranslatable('parameters of reshape_pulseq_traj')
        body = [st for st in inner.body if not (isinstance(st, ast.Expr) and isinstance(st.value, ast.Constant))]
        if len(body) != 3 or not isinstance(body[1], ast.If) or not isinstance(body[2], ast.Return):
            raise py2lean.Untranslatable('shape of reshape_pulseq_traj')
        if ast.unparse(body[0]) != 'k_max = torch.max(torch.abs(k_traj))':
            raise py2lean.Untranslatable('k_max is not the extent of the direction itself')
        if ast.unparse(body[2].value) != "rearrange(k_traj, '(other k0) -> other k0', k0=n_k0)":
            raise py2lean.Untranslatable('reshape of the scaled positions')
        test = body[1].test
        if not (isinstance(test, ast.Compare) and len(test.ops) == 1 and isinstance(test.ops[0], ast.Gt) and ast.unparse(test.left) == 'k_max'
                and isinstance(test.comparators[0], ast.BinOp) and isinstance(test.comparators[0].op, ast.Mult)
                and isinstance(test.comparators[0].left, ast.Constant) and ast.unparse(test.comparators[0].right) == 'k_max_all_directions'):
            raise py2lean.Untranslatable('guard of the rescaling')
        thr = Fraction(repr(test.comparators[0].left.value))
        then, other = body[1].body, body[1].orelse
        if not (len(then) == 1 and isinstance(then[0], ast.Assign) and ast.unparse(then[0].targets[0]) == 'k_traj'):
            raise py2lean.Untranslatable('then-branch of the rescaling')
        if not (len(other) == 1 and ast.unparse(other[0]) == 'k_traj = torch.zeros_like(k_traj)'):
            raise py2lean.Untranslatable('else-branch of the rescaling')
        e = py2lean.fexpr(then[0].value, py2lean.Ctx(['k_traj', 'encoding_size', 'k_max', 'k_max_all_directions']), set()).replace(' : K)', ' : Rat)')
        stmts = {ast.unparse(st.targets[0]): ast.unparse(st.value) for st in call.body if isinstance(st, ast.Assign) and len(st.targets) == 1}
        for k, v in PULSEQ_GLUE.items():
            if stmts.get(k) != v:
                raise py2lean.Untranslatable(f'{k} = {stmts.get(k)}')
        text = (f'/-- translated from `{file}:reshape_pulseq_traj (line {inner.lineno})` -/\n'
                f'def pulseq_scale (k_traj encoding_size k_max k_max_all_directions : Rat) : Rat :=\n  {e}\n'
                f'def pulseq_threshold : Rat := ({thr.numerator} : Rat) / {thr.denominator}\ndef pulseq_scale_translated : Bool := true')
        return text, 'translated'
    except (py2lean.Untranslatable, OSError, SyntaxError, ValueError) as e:
        text = (f'/-- FALLBACK (source outside the translatable fragment: {str(e)[:100]}): the hand-written model -/\n'
                'def pulseq_scale (k_traj encoding_size k_max k_max_all_directions : Rat) : Rat :=\n  M.pulseqScale k_traj encoding_size k_max\n'
                'def pulseq_threshold : Rat := M.pulseqThreshold\ndef pulseq_scale_translated : Bool := false')
        return text, f'fallback: {e}'


# ---- Rotation kernels: the component formulas of `_compose_quaternions_single` and `_quaternion_to_matrix` ----------------
# Translated over any scalar type with + - * and negation; a tensor whose last axis has a fixed small length is a list of
# components (`p[3]`, `torch.stack((..), 0)`, `x.unbind(-1)`, `torch.linalg.cross(p[:3], q[:3])` by its definition).
ROT_SITES = [
    dict(name='rot_compose', file='data/Rotation.py', func=(None, '_compose_quaternions_single'), params={'p': 4, 'q': 4}, out=4,
         fallback='M.Q.mul ⟨p_0, p_1, p_2, p_3⟩ ⟨q_0, q_1, q_2, q_3⟩'),
    dict(name='rot_to_matrix', file='data/Rotation.py', func=(None, '_quaternion_to_matrix'), params={'quaternion': 4}, out=9,
         fallback='M.Q.toMat ⟨quaternion_0, quaternion_1, quaternion_2, quaternion_3⟩'),
]
SITE_PROPS['rot_compose'] = 'C13'
SITE_PROPS['rot_to_matrix'] = 'C13'
SITE_ALSO['rot_compose'] = ['C12']
SITE_ALSO['rot_to_matrix'] = ['C12']
_ROT_TYPES = {4: 'M.Q K', 9: 'M.Mat3 K'}


def _rexpr(node, env, vecs):
    U = py2lean.Untranslatable
    if isinstance(node, ast.Constant) and isinstance(node.value, int) and not isinstance(node.value, bool) and 0 <= node.value <= 2:
        return f'({node.value} : K)'
    if isinstance(node, ast.Name):
        if node.id in env:
            return env[node.id]
        raise U(f'name {node.id}')
    if isinstance(node, ast.Subscript) and isinstance(node.value, ast.Name) and node.value.id in vecs \
            and isinstance(node.slice, ast.Constant) and isinstance(node.slice.value, int):
        comp = vecs[node.value.id]
        i = node.slice.value
        if not -len(comp) <= i < len(comp):
            raise U(f'index {i} out of range')
        return comp[i]
    if isinstance(node, ast.UnaryOp) and isinstance(node.op, ast.USub):
        return f'(-{_rexpr(node.operand, env, vecs)})'
    if isinstance(node, ast.BinOp) and type(node.op) in (ast.Add, ast.Sub, ast.Mult):
        op = {ast.Add: '+', ast.Sub: '-', ast.Mult: '*'}[type(node.op)]
        return f'({_rexpr(node.left, env, vecs)} {op} {_rexpr(node.right, env, vecs)})'
    if isinstance(node, ast.Call) and isinstance(node.func, ast.Attribute) and node.func.attr == 'square' and not node.args and not node.keywords:
        x = _rexpr(node.func.value, env, vecs)
        return f'({x} * {x})'
    raise U(f'expression {ast.unparse(node)[:50]}')


def _first3(node, vecs):
    """`x[:3]` of a known component list"""
    if isinstance(node, ast.Subscript) and isinstance(node.value, ast.Name) and node.value.id in vecs and isinstance(node.slice, ast.Slice) \
            and node.slice.lower is None and node.slice.step is None and isinstance(node.slice.upper, ast.Constant) and node.slice.upper.value == 3:
        return vecs[node.value.id][:3]
    raise py2lean.Untranslatable(f'expected x[:3], got {ast.unparse(node)[:40]}')


def _stack_elts(call, env, vecs):
    """`torch.stack((e0, .., *(..)), d)` of scalars: the list of component expressions"""
    U = py2lean.Untranslatable
    if not (isinstance(call, ast.Call) and ast.unparse(call.func) == 'torch.stack' and call.args and isinstance(call.args[0], ast.Tuple)):
        raise U('not torch.stack of a tuple')
    dim = call.args[1] if len(call.args) > 1 else next((k.value for k in call.keywords if k.arg == 'dim'), None)
    if dim is not None and ast.unparse(dim) not in ('0', '-1'):
        raise U(f'stack dim {ast.unparse(dim)}')
    elts = []
    for e in call.args[0].elts:
        if isinstance(e, ast.Starred):
            if not isinstance(e.value, ast.Tuple):
                raise U('starred non-tuple')
            elts += list(e.value.elts)
        else:
            elts.append(e)
    return [_rexpr(e, env, vecs) for e in elts]


def translate_rot_site(site):
    name = site['name']
    sig = ' '.join(f'({p}_{i} : K)' for p, n in site['params'].items() for i in range(n))
    typ = _ROT_TYPES[site['out']]
    U = py2lean.Untranslatable
    try:
        tree = ast.parse((SRC / site['file']).read_text())
        fn = _find(tree, *site['func'])
        if [a.arg for a in fn.args.args] != list(site['params']):
            raise U(f'parameters {[a.arg for a in fn.args.args]}')
        env, vecs, lets, ret = {}, {p: [f'{p}_{i}' for i in range(n)] for p, n in site['params'].items()}, [], None

        def bind_vec(target, comps):
            names = [f'{target}_{i}' for i in range(len(comps))]
            lets.extend(f'let {n} : K := {c}' for n, c in zip(names, comps))
            vecs[target] = names
            env.pop(target, None)

        for st in fn.body:
            if isinstance(st, ast.Expr) and isinstance(st.value, ast.Constant):
                continue
            if isinstance(st, ast.Return):
                if not (isinstance(st.value, ast.Name) and st.value.id in vecs and len(vecs[st.value.id]) == site['out']):
                    raise U(f'return {ast.unparse(st.value)[:40]}')
                ret = '⟨' + ', '.join(vecs[st.value.id]) + '⟩'
                break
            if not (isinstance(st, ast.Assign) and len(st.targets) == 1):
                raise U(f'statement {type(st).__name__}')
            tgt, val = st.targets[0], st.value
            if isinstance(tgt, ast.Tuple):  # a, b, c, d = x.unbind(-1)
                if not (isinstance(val, ast.Call) and isinstance(val.func, ast.Attribute) and val.func.attr == 'unbind'
                        and isinstance(val.func.value, ast.Name) and val.func.value.id in vecs and [ast.unparse(a) for a in val.args] == ['-1']
                        and len(tgt.elts) == len(vecs[val.func.value.id]) and all(isinstance(e, ast.Name) for e in tgt.elts)):
                    raise U(f'tuple assignment {ast.unparse(st)[:50]}')
                for e, c in zip(tgt.elts, vecs[val.func.value.id]):
                    env[e.id] = c
                    vecs.pop(e.id, None)
                continue
            if not isinstance(tgt, ast.Name):
                raise U('assignment target')
            if isinstance(val, ast.Call) and ast.unparse(val.func) == 'torch.linalg.cross' and len(val.args) == 2 and not val.keywords:
                a, b = _first3(val.args[0], vecs), _first3(val.args[1], vecs)
                bind_vec(tgt.id, [f'(({a[1]} * {b[2]}) - ({a[2]} * {b[1]}))', f'(({a[2]} * {b[0]}) - ({a[0]} * {b[2]}))',
                                  f'(({a[0]} * {b[1]}) - ({a[1]} * {b[0]}))'])
                continue
            inner = val
            if isinstance(val, ast.Call) and isinstance(val.func, ast.Attribute) and val.func.attr == 'reshape':
                # row-major (.., 3, 3) view of nine stacked entries
                if [ast.unparse(a) for a in val.args[-2:]] != ['3', '3'] or val.keywords:
                    raise U('reshape other than (..., 3, 3)')
                inner = val.func.value
            if isinstance(inner, ast.Call) and ast.unparse(inner.func) == 'torch.stack':
                comps = _stack_elts(inner, env, vecs)
                if inner is not val and len(comps) != 9:
                    raise U('reshape of other than nine entries')
                bind_vec(tgt.id, comps)
                continue
            lets.append(f'let {py2lean._lean_name(tgt.id)} : K := {_rexpr(val, env, vecs)}')
            env[tgt.id] = py2lean._lean_name(tgt.id)
            vecs.pop(tgt.id, None)
        if ret is None:
            raise U('no return')
        body = '\n  '.join(lets + [ret])
        return (f'/-- translated from `{site["file"]}:{fn.name} (line {fn.lineno})` -/\ndef {name} {sig} : {typ} :=\n  {body}\n'
                f'def {name}_translated : Bool := true'), 'translated'
    except (U, OSError, SyntaxError) as e:
        return (f'/-- FALLBACK (source outside the translatable fragment: {str(e)[:100]}): the hand-written model -/\n'
                f'def {name} {sig} : {typ} :=\n  {site["fallback"]}\ndef {name}_translated : Bool := false'), f'fallback: {e}'


# ---- proximal maps of the functionals, per element, real case (C08) ------------------------------------------------------
# `torch.sgn / relu / abs / clamp_max` are the order primitives of `Mrpro/Model/Functional.lean` (`sgnK`, `reluK`, `absK`, `minK`);
# `self._divide_by_n(e, shape)` is `e / n` with `n` the divisor the method computes (1 when `divide_by_n` is off; the
# bookkeeping of `n` is part of the model `funN`, compared with the code by the correspondence check); `.conj()` and `.to(dtype)`
# are the identity on real values.
PROX_SITES = [
    dict(name='l1_prox', file='operators/functionals/L1Norm.py', func=('L1Norm', 'prox'),
         inputs=['x', 'self_target', 'self_weight', 'sigma', 'n'], model='(fun x t w s n => M.l1ProxEl w s n t x)'),
    dict(name='l1_prox_conj', file='operators/functionals/L1Norm.py', func=('L1Norm', 'prox_convex_conj'),
         inputs=['x', 'sigma', 'self_target', 'self_weight', 'n'], model='(fun x s t w n => M.l1ConjProxEl w s n t x)'),
    dict(name='l2_prox', file='operators/functionals/L2NormSquared.py', func=('L2NormSquared', 'prox'),
         inputs=['self_weight', 'sigma', 'n', 'x', 'self_target'], model='(fun w s n x t => M.l2ProxEl w s n t x)'),
    dict(name='l2_prox_conj', file='operators/functionals/L2NormSquared.py', func=('L2NormSquared', 'prox_convex_conj'),
         inputs=['self_weight', 'n', 'x', 'sigma', 'self_target'], model='(fun w n x s t => M.l2ConjProxEl w s n t x)'),
]
for _s in PROX_SITES:
    SITE_PROPS['prox_' + _s['name']] = 'C08'


def _prox_hook(node, ctx, poisoned):
    f = node.func
    fx = lambda a: py2lean.fexpr(a, ctx, poisoned)  # noqa: E731
    name = ast.unparse(f)
    if name in ('torch.sgn', 'torch.relu', 'torch.abs') and len(node.args) == 1 and not node.keywords:
        return f'({ {"torch.sgn": "sgnK", "torch.relu": "reluK", "torch.abs": "absK"}[name] } {fx(node.args[0])})'
    if name == 'torch.clamp_max' and len(node.args) == 2 and not node.keywords:
        return f'(minK {fx(node.args[0])} {fx(node.args[1])})'
    if name == 'self._divide_by_n' and len(node.args) == 2 and not node.keywords:
        return f'({fx(node.args[0])} / {ctx.use("n")})'
    if isinstance(f, ast.Attribute) and f.attr == 'abs' and not node.args and not node.keywords:
        return f'(absK {fx(f.value)})'
    if isinstance(f, ast.Attribute) and f.attr == 'conj' and not node.args and not node.keywords:
        return fx(f.value)
    if isinstance(f, ast.Attribute) and f.attr == 'to' and len(node.args) == 1 and not node.keywords \
            and ast.unparse(node.args[0]).startswith('torch.result_type('):
        return fx(f.value)
    return None


def translate_prox_site(site):
    name = 'prox_' + site['name']
    py2lean.CALL_HOOKS.append(_prox_hook)
    try:
        tree = ast.parse((SRC / site['file']).read_text())
        fn = _find(tree, *site['func'])
        text = py2lean.float_function(fn, site['inputs'], name)
        return f'/-- translated from `{site["file"]}:{fn.name} (line {fn.lineno})` -/\n{text}\ndef {name}_translated : Bool := true', 'translated'
    except (py2lean.Untranslatable, OSError, SyntaxError) as e:
        sig = ' '.join(f'({py2lean._lean_name(p)} : K)' for p in site['inputs'])
        args = ' '.join(py2lean._lean_name(p) for p in site['inputs'])
        text = (f'/-- FALLBACK (source outside the translatable fragment: {str(e)[:100]}): the hand-written model -/\n'
                f'def {name} {sig} : K :=\n  {site["model"]} {args}\ndef {name}_translated : Bool := false')
        return text, f'fallback: {e}'
    finally:
        py2lean.CALL_HOOKS.remove(_prox_hook)


# ---- conjugate gradient: the update formulas of `cg` as typed vector expressions (C06 / C07) -----------------------------
# K = scalars, V = vectors.  `a + b`, `a - b` on vectors are `ops.add / ops.sub`, scalar * vector is `ops.smul`,
# `torch.vdot(u.flatten(), v.flatten())` (and its `.real`: the value is real for the real embedding the theorems use) is `ops.dot u v`,
# `operator(v)` (unpacked by `(y,) = ...` or `[0]`) is `H v`, `.clone()` / `.flatten()` are the identity on values.
CG_TYPES = {'solution': 'V', 'residual': 'V', 'conjugate_vector': 'V', 'operator_conjugate_vector': 'V', 'right_hand_side': 'V',
            'residual_flat': 'V', 'initial_value': 'V', 'residual_norm_squared': 'K', 'residual_norm_squared_previous': 'K', 'alpha': 'K', 'beta': 'K'}
# target -> (Lean name, parameters in this order, result type, fallback body)
CG_SITES = [
    ('init_residual', 'residual', ['right_hand_side', 'solution'], 'V', 'ops.sub right_hand_side (H solution)', 'pre'),
    ('init_direction', 'conjugate_vector', ['residual'], 'V', 'residual', 'pre'),
    ('rr', 'residual_norm_squared', ['residual'], 'K', 'ops.dot residual residual', 'loop'),
    ('beta', 'beta', ['residual_norm_squared', 'residual_norm_squared_previous'], 'K', 'residual_norm_squared / residual_norm_squared_previous', 'loop'),
    ('direction', 'conjugate_vector', ['residual', 'beta', 'conjugate_vector'], 'V', 'ops.add residual (ops.smul beta conjugate_vector)', 'loop'),
    ('hp', 'operator_conjugate_vector', ['conjugate_vector'], 'V', 'H conjugate_vector', 'loop'),
    ('alpha', 'alpha', ['residual_norm_squared', 'conjugate_vector', 'operator_conjugate_vector'], 'K',
     'residual_norm_squared / ops.dot conjugate_vector operator_conjugate_vector', 'loop'),
    ('solution', 'solution', ['solution', 'alpha', 'conjugate_vector'], 'V', 'ops.add solution (ops.smul alpha conjugate_vector)', 'loop'),
    ('residual', 'residual', ['residual', 'alpha', 'operator_conjugate_vector'], 'V', 'ops.sub residual (ops.smul alpha operator_conjugate_vector)', 'loop'),
    ('rr_previous', 'residual_norm_squared_previous', ['residual_norm_squared'], 'K', 'residual_norm_squared', 'loop'),
]
for _c in CG_SITES:
    SITE_PROPS['cg_' + _c[0]] = 'C06'
    SITE_ALSO['cg_' + _c[0]] = ['C07']


_VT = {'types': None}


def _vexpr(node, subst, used):
    """(Lean term, 'K' | 'V'); `subst` inlines local aliases such as residual_flat = residual.flatten()"""
    U = py2lean.Untranslatable
    types = _VT['types'] or CG_TYPES
    if isinstance(node, ast.Name):
        if node.id in subst:
            used.extend(subst[node.id][2])
            return subst[node.id][:2]
        if node.id in types:
            used.append(node.id)
            return node.id, types[node.id]
        raise U(f'name {node.id}')
    if isinstance(node, ast.Call) and ast.unparse(node.func) == 'torch.linalg.vector_norm' and len(node.args) == 1 \
            and sorted(ast.unparse(k) for k in node.keywords) == ['dim=dim', 'keepdim=True']:
        a, ta = _vexpr(node.args[0], subst, used)
        if ta != 'V':
            raise U('vector_norm of a scalar')
        return f'(sqrt (ops.dot {a} {a}))', 'K'  # the 2-norm over the dims of one operator
    if isinstance(node, ast.Call) and ast.unparse(node.func) == 'self.adjoint' and len(node.args) == 1 and isinstance(node.args[0], ast.Starred) \
            and isinstance(node.args[0].value, ast.Call) and ast.unparse(node.args[0].value.func) == 'self' and len(node.args[0].value.args) == 1:
        a, ta = _vexpr(node.args[0].value.args[0], subst, used)
        if ta != 'V':
            raise U('operator applied to a scalar')
        return f'(G {a})', 'V'  # self.adjoint(*self(v)) = (A^H A) v
    if isinstance(node, ast.Attribute) and node.attr == 'real':
        t, ty = _vexpr(node.value, subst, used)
        if ty != 'K':
            raise U('.real of a vector')
        return t, ty
    if isinstance(node, ast.Call) and isinstance(node.func, ast.Attribute) and node.func.attr in ('flatten', 'clone') and not node.args and not node.keywords:
        t, ty = _vexpr(node.func.value, subst, used)
        if ty != 'V':
            raise U(f'.{node.func.attr}() of a scalar')
        return t, ty
    if isinstance(node, ast.Call) and ast.unparse(node.func) == 'torch.vdot' and len(node.args) == 2 and not node.keywords:
        (a, ta), (b, tb) = _vexpr(node.args[0], subst, used), _vexpr(node.args[1], subst, used)
        if (ta, tb) != ('V', 'V'):
            raise U('vdot of non-vectors')
        return f'(ops.dot {a} {b})', 'K'
    if isinstance(node, ast.Subscript) and isinstance(node.slice, ast.Constant) and node.slice.value == 0 and isinstance(node.value, ast.Call) \
            and ast.unparse(node.value.func) == 'operator' and len(node.value.args) == 1 and not node.value.keywords:
        a, ta = _vexpr(node.value.args[0], subst, used)
        if ta != 'V':
            raise U('operator applied to a scalar')
        return f'(H {a})', 'V'
    if isinstance(node, ast.BinOp):
        (a, ta), (b, tb) = _vexpr(node.left, subst, used), _vexpr(node.right, subst, used)
        if isinstance(node.op, (ast.Add, ast.Sub)):
            if ta != tb:
                raise U('mixed addition')
            sym, fn_ = ('+', 'ops.add') if isinstance(node.op, ast.Add) else ('-', 'ops.sub')
            return (f'({fn_} {a} {b})', 'V') if ta == 'V' else (f'({a} {sym} {b})', 'K')
        if isinstance(node.op, ast.Mult):
            if (ta, tb) == ('K', 'V'):
                return f'(ops.smul {a} {b})', 'V'
            if (ta, tb) == ('V', 'K'):
                return f'(ops.smul {b} {a})', 'V'
            if (ta, tb) == ('K', 'K'):
                return f'({a} * {b})', 'K'
            raise U('product of vectors')
        if isinstance(node.op, ast.Div) and (ta, tb) == ('K', 'K'):
            return f'({a} / {b})', 'K'
        if isinstance(node.op, ast.Div) and (ta, tb) == ('V', 'K'):
            return f'(ops.smul ((1 : K) / {b}) {a})', 'V'
    raise U(f'expression {ast.unparse(node)[:50]}')


def translate_cg():
    """one definition per assignment of `cg` (before the loop / in the loop body, incl. the `is not None` branch), in source order"""
    U = py2lean.Untranslatable
    found, order, err = {}, [], None
    try:
        tree = ast.parse((SRC / 'algorithms/optimizers/cg.py').read_text())
        fn = _find(tree, None, 'cg')
        loops = [st for st in fn.body if isinstance(st, ast.For)]
        if len(loops) != 1:
            raise U('expected exactly one for loop')
        pre = fn.body[:fn.body.index(loops[0])]

        def flat(stmts):
            for st in stmts:
                if isinstance(st, ast.If) and ast.unparse(st.test) == 'residual_norm_squared_previous is not None' and not st.orelse:
                    yield from flat(st.body)
                else:
                    yield st

        for where, stmts in (('pre', pre), ('loop', list(flat(loops[0].body)))):
            subst = {}
            for st in stmts:
                if not isinstance(st, (ast.Assign, ast.AnnAssign)):
                    continue
                tgt = st.targets[0] if isinstance(st, ast.Assign) else st.target
                val = st.value
                if isinstance(tgt, ast.Tuple) and len(tgt.elts) == 1:  # (y,) = operator(v)
                    tgt, val = tgt.elts[0], ast.Subscript(value=val, slice=ast.Constant(value=0))
                if not isinstance(tgt, ast.Name) or val is None:
                    continue
                if isinstance(val, ast.Constant) and val.value is None:
                    continue  # residual_norm_squared_previous = None before the loop: `rrPrev := none` of the model
                if tgt.id == 'solution' and where == 'pre':
                    txt = ast.unparse(val)
                    if txt != 'initial_value.clone() if initial_value is not None else right_hand_side.clone()':
                        raise U(f'start value: {txt[:60]}')
                    continue  # the model's `match x0 with | some v => v | none => b`, pinned as source text
                used = []
                term, ty = _vexpr(val, subst, used)
                if tgt.id == 'residual_flat':
                    subst[tgt.id] = (term, ty, list(used))
                    continue
                if tgt.id not in CG_TYPES or CG_TYPES[tgt.id] != ty:
                    raise U(f'assignment to {tgt.id} of type {ty}')
                found[(where, tgt.id)] = (term, used, st.lineno)
                order.append((where, tgt.id))
        # the order of the updates inside the loop is part of what the model assumes
        want = [(w, t) for _, t, _, _, _, w in CG_SITES]
        if order != want:
            raise U(f'assignments in the order {order}, expected {want}')
    except (U, OSError, SyntaxError, ValueError) as e:
        err = str(e)
    out, status = [], {}
    for lname, tgt, params, ty, fb, where in CG_SITES:
        sig = ' '.join(f'({p_} : {CG_TYPES[p_]})' for p_ in params)
        ok = err is None and set(found[(where, tgt)][1]) == set(params)
        if ok:
            term, _, line = found[(where, tgt)]
            out.append(f'/-- translated from `algorithms/optimizers/cg.py:cg` (line {line}): `{tgt} = …` -/\n'
                       f'def cg_{lname} (ops : M.VecOps K V) (H : V → V) {sig} : {ty} :=\n  {term}\ndef cg_{lname}_translated : Bool := true')
            status['cg_' + lname] = 'translated'
        else:
            why = err or f'free names {sorted(set(found[(where, tgt)][1]))}, expected {params}'
            out.append(f'/-- FALLBACK (source outside the translatable fragment: {why[:100]}): the hand-written model -/\n'
                       f'def cg_{lname} (ops : M.VecOps K V) (H : V → V) {sig} : {ty} :=\n  {fb}\ndef cg_{lname}_translated : Bool := false')
            status['cg_' + lname] = f'fallback: {why}'
    return '\n\n'.join(out), status


# ---- power iteration of `LinearOperator.operator_norm` (C19) ----------------------------------------------------------
PI_TYPES = {'initial_value': 'V', 'norm_initial_value': 'K', 'vector': 'V', 'vector_new': 'V', 'op_norm': 'K', 'op_norm_old': 'K'}
# the estimate <v, G v> is written as three statements on real and imaginary parts (the real inner product of the real embedding);
# they are pinned as source text and stand for `op_norm = sqrt(ops.dot vector vector_new)`
PI_ESTIMATE = ['product = vector.real * vector_new.real',
               'if vector.is_complex() and vector_new.is_complex():\n    product += vector.imag * vector_new.imag',
               'op_norm = product.sum(dim, keepdim=True).sqrt()']
PI_SITES = [
    ('norm0', 'norm_initial_value', ['initial_value'], 'K', 'sqrt (ops.dot initial_value initial_value)', 'pre'),
    ('start', 'vector', ['initial_value', 'norm_initial_value'], 'V', 'ops.smul ((1 : K) / norm_initial_value) initial_value', 'pre'),
    ('apply', 'vector_new', ['vector'], 'V', 'G vector', 'loop'),
    ('estimate', 'op_norm', ['vector', 'vector_new'], 'K', 'sqrt (ops.dot vector vector_new)', 'loop'),
    ('normalise', 'vector', ['vector_new'], 'V', 'ops.smul ((1 : K) / (sqrt (ops.dot vector_new vector_new))) vector_new', 'loop'),
    ('old', 'op_norm_old', ['op_norm'], 'K', 'op_norm', 'loop'),
]
for _c in PI_SITES:
    SITE_PROPS['pi_' + _c[0]] = 'C19'


def translate_power_iteration():
    U = py2lean.Untranslatable
    found, order, err = {}, [], None
    _VT['types'] = PI_TYPES
    try:
        tree = ast.parse((SRC / 'operators/LinearOperator.py').read_text())
        fn = _find(tree, 'LinearOperator', 'operator_norm')
        loops = [st for st in fn.body if isinstance(st, ast.For)]
        if len(loops) != 1:
            raise U('expected exactly one for loop')
        pre = fn.body[:fn.body.index(loops[0])]
        body = list(loops[0].body)
        texts = [ast.unparse(st) for st in body]
        est = [ast.unparse(ast.parse(t).body[0]) for t in PI_ESTIMATE]
        at = next((i for i in range(len(texts)) if texts[i:i + 3] == est), None)
        if at is None:
            raise U('the three statements of the estimate <v, G v> were rewritten')
        for where, stmts in (('pre', pre), ('loop', body)):
            for idx, st in enumerate(stmts):
                if where == 'loop' and at <= idx < at + 3:
                    if idx == at + 2:
                        found[('loop', 'op_norm')] = ('(sqrt (ops.dot vector vector_new))', ['vector', 'vector_new'], st.lineno)
                        order.append(('loop', 'op_norm'))
                    continue
                if not isinstance(st, ast.Assign) or len(st.targets) != 1:
                    continue
                tgt, val = st.targets[0], st.value
                if isinstance(tgt, ast.Tuple) and len(tgt.elts) == 1:
                    tgt = tgt.elts[0]
                if not isinstance(tgt, ast.Name) or tgt.id not in PI_TYPES:
                    continue
                if tgt.id == 'op_norm_old' and where == 'pre':
                    if not ast.unparse(val).startswith('torch.zeros('):
                        raise U('initial op_norm_old is not zero')
                    continue
                used = []
                term, ty = _vexpr(val, {}, used)
                if PI_TYPES[tgt.id] != ty:
                    raise U(f'assignment to {tgt.id} of type {ty}')
                found[(where, tgt.id)] = (term, used, st.lineno)
                order.append((where, tgt.id))
        want = [(w, t) for _, t, _, _, _, w in PI_SITES]
        if order != want:
            raise U(f'assignments in the order {order}, expected {want}')
    except (U, OSError, SyntaxError, ValueError) as e:
        err = str(e)
    finally:
        _VT['types'] = None
    out, status = [], {}
    for lname, tgt, params, ty, fb, where in PI_SITES:
        sig = ' '.join(f'({p_} : {PI_TYPES[p_]})' for p_ in params)
        ok = err is None and set(found[(where, tgt)][1]) == set(params)
        if ok:
            term, _, line = found[(where, tgt)]
            out.append(f'/-- translated from `operators/LinearOperator.py:operator_norm` (line {line}): `{tgt} = …` -/\n'
                       f'def pi_{lname} (ops : M.VecOps K V) (sqrt : K → K) (G : V → V) {sig} : {ty} :=\n  {term}\ndef pi_{lname}_translated : Bool := true')
            status['pi_' + lname] = 'translated'
        else:
            why = err or f'free names {sorted(set(found[(where, tgt)][1]))}, expected {params}'
            out.append(f'/-- FALLBACK (source outside the translatable fragment: {why[:100]}): the hand-written model -/\n'
                       f'def pi_{lname} (ops : M.VecOps K V) (sqrt : K → K) (G : V → V) {sig} : {ty} :=\n  {fb}\ndef pi_{lname}_translated : Bool := false')
            status['pi_' + lname] = f'fallback: {why}'
    return '\n\n'.join(out), status


# ---- ConstraintsOp.forward / inverse: the four branches, per element (C17) ---------------------------------------------------
# each branch appends one expression; `self.sigmoid(z, beta=self.beta_sigmoid)` etc. are the *generated* functions `sig_c_*` above;
# the branch conditions are pinned as source text (which case of bounds selects which branch is `M.boundCase` of the model)
CONSTR_CONDS = [
    '(lb is not None and (not torch.isneginf(torch.tensor(lb)))) and (ub is not None and (not torch.isposinf(torch.tensor(ub))))',
    'lb is not None and (ub is None or torch.isposinf(torch.tensor(ub)))',
    '(lb is None or torch.isneginf(torch.tensor(lb))) and ub is not None',
    '(lb is None or torch.isneginf(torch.tensor(lb))) and (ub is None or torch.isposinf(torch.tensor(ub)))',
]
CONSTR_BRANCHES = ['both', 'lower', 'upper', 'none']
CONSTR_INPUTS = {'both': ['item', 'lb', 'ub', 'self_beta_sigmoid'], 'lower': ['item', 'lb', 'self_beta_softplus'],
                 'upper': ['item', 'ub', 'self_beta_softplus'], 'none': ['item']}
CONSTR_FALLBACK = {
    ('forward', 'both'): 'M.constrainFwd self_beta_sigmoid self_beta_sigmoid (.fin lb) (.fin ub) item',
    ('forward', 'lower'): 'M.constrainFwd self_beta_softplus self_beta_softplus (.fin lb) .none item',
    ('forward', 'upper'): 'M.constrainFwd self_beta_softplus self_beta_softplus .none (.fin ub) item',
    ('forward', 'none'): 'item',
    ('inverse', 'both'): 'M.constrainInv self_beta_sigmoid self_beta_sigmoid (.fin lb) (.fin ub) item',
    ('inverse', 'lower'): 'M.constrainInv self_beta_softplus self_beta_softplus (.fin lb) .none item',
    ('inverse', 'upper'): 'M.constrainInv self_beta_softplus self_beta_softplus .none (.fin ub) item',
    ('inverse', 'none'): 'item',
}
for _m in ('forward', 'inverse'):
    for _b in CONSTR_BRANCHES:
        SITE_PROPS[f'constr_{_m}_{_b}'] = 'C17'
_CONSTR_MAPS = {'self.sigmoid': ('sig_c_sigmoid', 'beta_sigmoid'), 'self.sigmoid_inverse': ('sig_c_sigmoid_inverse', 'beta_sigmoid'),
                'self.softplus': ('sig_c_softplus', 'beta_softplus'), 'self.softplus_inverse': ('sig_c_softplus_inverse', 'beta_softplus')}


def _constr_hook(node, ctx, poisoned):
    name = ast.unparse(node.func)
    if name in _CONSTR_MAPS and len(node.args) == 1 and len(node.keywords) == 1 and node.keywords[0].arg == 'beta':
        fn_, beta = _CONSTR_MAPS[name]
        if ast.unparse(node.keywords[0].value) != f'self.{beta}':
            raise py2lean.Untranslatable(f'{name} called with beta={ast.unparse(node.keywords[0].value)}')
        return f'({fn_} {py2lean.fexpr(node.args[0], ctx, poisoned)} {py2lean.fexpr(node.keywords[0].value, ctx, poisoned)})'
    return None


def translate_constraints():
    U = py2lean.Untranslatable
    out, status = [], {}
    py2lean.CALL_HOOKS.append(_constr_hook)
    try:
        for method in ('forward', 'inverse'):
            exprs, err, line = {}, None, 0
            try:
                tree = ast.parse((SRC / 'operators/ConstraintsOp.py').read_text())
                fn = _find(tree, 'ConstraintsOp', method)
                line = fn.lineno
                loops = [st for st in fn.body if isinstance(st, ast.For)]
                if len(loops) != 1 or ast.unparse(loops[0].target) != '(item, lb, ub)' \
                        or not ast.unparse(loops[0].iter).endswith('self.lower_bounds, self.upper_bounds, strict=False)'):
                    raise U('loop over (item, lb, ub) not found')
                ifs = [st for st in loops[0].body if isinstance(st, ast.If)]
                if len(ifs) != 1 or len(loops[0].body) != 1:
                    raise U('loop body is not a single if-chain')
                node, k = ifs[0], 0
                while True:
                    if k >= 4 or ast.unparse(node.test) != ast.unparse(ast.parse(CONSTR_CONDS[k], mode='eval').body):
                        raise U(f'branch {k}: condition rewritten')
                    if len(node.body) != 1 or not (isinstance(node.body[0], ast.Expr) and isinstance(node.body[0].value, ast.Call)
                                                   and isinstance(node.body[0].value.func, ast.Attribute) and node.body[0].value.func.attr == 'append'
                                                   and len(node.body[0].value.args) == 1):
                        raise U(f'branch {k}: body is not a single append')
                    ctx = py2lean.Ctx(CONSTR_INPUTS[CONSTR_BRANCHES[k]])
                    term = py2lean.fexpr(node.body[0].value.args[0], ctx, set())
                    if ctx.params != CONSTR_INPUTS[CONSTR_BRANCHES[k]]:
                        raise U(f'branch {k}: free names {ctx.params}')
                    exprs[CONSTR_BRANCHES[k]] = term
                    k += 1
                    if len(node.orelse) == 1 and isinstance(node.orelse[0], ast.If):
                        node = node.orelse[0]
                    elif not node.orelse:
                        break
                    else:
                        raise U('else branch')
                if k != 4:
                    raise U(f'{k} branches')
            except (U, OSError, SyntaxError) as e:
                err = str(e)
            for b in CONSTR_BRANCHES:
                name = f'constr_{method}_{b}'
                sig = ' '.join(f'({p_} : K)' for p_ in CONSTR_INPUTS[b])
                if err is None:
                    out.append(f'/-- translated from `operators/ConstraintsOp.py:{method}` (line {line}), branch `{b}` -/\n'
                               f'def {name} {sig} : K :=\n  {exprs[b]}\ndef {name}_translated : Bool := true')
                    status[name] = 'translated'
                else:
                    out.append(f'/-- FALLBACK (source outside the translatable fragment: {err[:100]}): the hand-written model -/\n'
                               f'def {name} {sig} : K :=\n  {CONSTR_FALLBACK[(method, b)]}\ndef {name}_translated : Bool := false')
                    status[name] = f'fallback: {err}'
    finally:
        py2lean.CALL_HOOKS.remove(_constr_hook)
    return '\n\n'.join(out), status


# per-element value of L1Norm / L2NormSquared (`value = ...` in forward) and the reduction that follows, pinned as source text
VALUE_SITES = [
    dict(name='l1_value', file='operators/functionals/L1Norm.py', cls='L1Norm', inputs=['self_weight', 'x', 'self_target'], model='(fun w x t => M.l1ValEl w t x)'),
    dict(name='l2_value', file='operators/functionals/L2NormSquared.py', cls='L2NormSquared', inputs=['self_weight', 'x', 'self_target'], model='(fun w x t => M.l2ValEl w t x)'),
]
VALUE_REDUCTION = ('if self.divide_by_n:\n    return (torch.mean(value, dim=self.dim, keepdim=self.keepdim),)\n'
                   'else:\n    return (torch.sum(value, dim=self.dim, keepdim=self.keepdim),)')
for _s in VALUE_SITES:
    SITE_PROPS['prox_' + _s['name']] = 'C08'


def _value_hook(node, ctx, poisoned):
    f = node.func
    if isinstance(f, ast.Attribute) and f.attr == 'square' and not node.args and not node.keywords:
        z = py2lean.fexpr(f.value, ctx, poisoned)
        return f'({z} * {z})'
    return _prox_hook(node, ctx, poisoned)


def translate_value_site(site):
    name = 'prox_' + site['name']
    py2lean.CALL_HOOKS.append(_value_hook)
    try:
        tree = ast.parse((SRC / site['file']).read_text())
        fn = _find(tree, site['cls'], 'forward')
        body = [st for st in fn.body if not (isinstance(st, ast.Expr) and isinstance(st.value, ast.Constant))]
        if len(body) != 2 or not (isinstance(body[0], ast.Assign) and ast.unparse(body[0].targets[0]) == 'value'):
            raise py2lean.Untranslatable('forward is not `value = ...` followed by the reduction')
        if ast.unparse(body[1]) != ast.unparse(ast.parse(VALUE_REDUCTION).body[0]):
            raise py2lean.Untranslatable('the reduction (mean / sum over self.dim) was rewritten')
        ctx = py2lean.Ctx(site['inputs'])
        term = py2lean.fexpr(body[0].value, ctx, set())
        if ctx.params != site['inputs']:
            raise py2lean.Untranslatable(f'free names {ctx.params}')
        sig = ' '.join(f'({p_} : K)' for p_ in site['inputs'])
        return (f'/-- translated from `{site["file"]}:forward (line {fn.lineno})`: `value = …` (the reduction that follows is pinned as text) -/\n'
                f'def {name} {sig} : K :=\n  {term}\ndef {name}_translated : Bool := true'), 'translated'
    except (py2lean.Untranslatable, OSError, SyntaxError) as e:
        sig = ' '.join(f'({p_} : K)' for p_ in site['inputs'])
        args = ' '.join(site['inputs'])
        return (f'/-- FALLBACK (source outside the translatable fragment: {str(e)[:100]}): the hand-written model -/\n'
                f'def {name} {sig} : K :=\n  {site["model"]} {args}\ndef {name}_translated : Bool := false'), f'fallback: {e}'
    finally:
        py2lean.CALL_HOOKS.remove(_value_hook)


# ---- `_canonical_quaternion`: the sign rule (which of q / -q represents the rotation), as a Boolean expression ---------------
CANON_GLUE = ["(x, y, z, w) = (quaternion[..., QUAT_AXIS_ORDER.index(axis)] for axis in 'xyzw')",
              'canonical_quaternion = torch.where(needs_inversion.unsqueeze(-1), -quaternion, quaternion)',
              'return canonical_quaternion']
SITE_PROPS['rot_needs_inversion'] = 'C12'
SITE_ALSO['rot_needs_inversion'] = ['C13']


def _bexpr(node, env):
    U = py2lean.Untranslatable
    if isinstance(node, ast.BinOp) and isinstance(node.op, (ast.BitOr, ast.BitAnd)):
        op = '||' if isinstance(node.op, ast.BitOr) else '&&'
        return f'({_bexpr(node.left, env)} {op} {_bexpr(node.right, env)})'
    if isinstance(node, ast.Compare) and len(node.ops) == 1 and isinstance(node.left, ast.Name) and node.left.id in env \
            and isinstance(node.comparators[0], ast.Constant) and node.comparators[0].value == 0:
        if isinstance(node.ops[0], ast.Lt):
            return f'(decide ({env[node.left.id]} < 0))'
        if isinstance(node.ops[0], ast.Eq):
            return f'({env[node.left.id]} == 0)'
    raise U(f'boolean expression {ast.unparse(node)[:50]}')


def translate_canonical():
    U = py2lean.Untranslatable
    sig = '(q_0 : K) (q_1 : K) (q_2 : K) (q_3 : K)'
    try:
        text = (SRC / 'data/Rotation.py').read_text()
        tree = ast.parse(text)
        fn = _find(tree, None, '_canonical_quaternion')
        consts = {t.targets[0].id: t.value for t in tree.body if isinstance(t, ast.Assign) and isinstance(t.targets[0], ast.Name)}
        if not (isinstance(consts.get('AXIS_ORDER'), ast.Constant) and ast.unparse(consts.get('QUAT_AXIS_ORDER')) == "AXIS_ORDER + 'w'"):
            raise U('AXIS_ORDER / QUAT_AXIS_ORDER are not the expected constants')
        order = consts['AXIS_ORDER'].value + 'w'
        if sorted(order) != sorted('xyzw'):
            raise U(f'axis order {order}')
        env = {a: f'q_{order.index(a)}' for a in 'xyzw'}
        body = [st for st in fn.body if not (isinstance(st, ast.Expr) and isinstance(st.value, ast.Constant))]
        if len(body) != 4 or [ast.unparse(body[i]) for i in (0, 2, 3)] != [ast.unparse(ast.parse(t).body[0]) if not t.startswith('return') else t for t in CANON_GLUE]:
            raise U('the statements around the sign rule were rewritten')
        st = body[1]
        if not (isinstance(st, ast.Assign) and ast.unparse(st.targets[0]) == 'needs_inversion'):
            raise U('needs_inversion not found')
        term = _bexpr(st.value, env)
        return (f'/-- translated from `data/Rotation.py:_canonical_quaternion (line {fn.lineno})`: `needs_inversion = …` with x, y, z, w = components '
                f'{[order.index(a) for a in "xyzw"]} of the stored quaternion (AXIS_ORDER = {order[:3]!r}); the result is `-q` where it holds, else `q` -/\n'
                f'def rot_needs_inversion {sig} : Bool :=\n  {term}\ndef rot_needs_inversion_translated : Bool := true'), 'translated'
    except (U, OSError, SyntaxError, AttributeError) as e:
        return (f'/-- FALLBACK (source outside the translatable fragment: {str(e)[:100]}): the hand-written model -/\n'
                f'def rot_needs_inversion {sig} : Bool :=\n  M.needsInversion 2 1 0 ⟨q_0, q_1, q_2, q_3⟩\ndef rot_needs_inversion_translated : Bool := false'), f'fallback: {e}'


# ---- Rotation.inv: the sign vector the stored quaternion is multiplied with; the flag is kept (pinned as text) --------------
INV_GLUE = ['improper = self._is_improper.clone()', 'return self.__class__(quaternions, inversion=improper, copy=False)']
SITE_PROPS['rot_inv'] = 'C13'
SITE_ALSO['rot_inv'] = ['C12']


def translate_rot_inv():
    U = py2lean.Untranslatable
    sig = '(q_0 : K) (q_1 : K) (q_2 : K) (q_3 : K)'
    try:
        tree = ast.parse((SRC / 'data/Rotation.py').read_text())
        fn = _find(tree, 'Rotation', 'inv')
        body = [st for st in fn.body if not (isinstance(st, ast.Expr) and isinstance(st.value, ast.Constant))]
        texts = [ast.unparse(st) for st in body]
        if len(body) != 4 or texts[1] != INV_GLUE[0] or texts[3] != INV_GLUE[1] or not texts[2].startswith('if self._single:'):
            raise U('statements of inv() were rewritten')
        st = body[0]
        if not (isinstance(st, ast.Assign) and ast.unparse(st.targets[0]) == 'quaternions' and isinstance(st.value, ast.BinOp) and isinstance(st.value.op, ast.Mult)
                and ast.unparse(st.value.left) == 'self._quaternions' and isinstance(st.value.right, ast.Call) and ast.unparse(st.value.right.func) == 'torch.tensor'
                and len(st.value.right.args) == 1 and isinstance(st.value.right.args[0], ast.List)):
            raise U(f'quaternions = {ast.unparse(st.value)[:50]}')
        signs = [ast.literal_eval(e) for e in st.value.right.args[0].elts]
        if len(signs) != 4 or any(v not in (-1, 1) for v in signs):
            raise U(f'sign vector {signs}')
        comps = ', '.join(f'(q_{i} * ({"-1" if v < 0 else "1"} : K))' for i, v in enumerate(signs))
        return (f'/-- translated from `data/Rotation.py:inv (line {fn.lineno})`: `self._quaternions * torch.tensor({signs})`; the improper flag is kept -/\n'
                f'def rot_inv {sig} : M.Q K :=\n  ⟨{comps}⟩\ndef rot_inv_translated : Bool := true'), 'translated'
    except (U, OSError, SyntaxError, ValueError) as e:
        return (f'/-- FALLBACK (source outside the translatable fragment: {str(e)[:100]}): the hand-written model -/\n'
                f'def rot_inv {sig} : M.Q K :=\n  M.Q.conj ⟨q_0, q_1, q_2, q_3⟩\ndef rot_inv_translated : Bool := false'), f'fallback: {e}'


def _find(tree, cls, func):
    scope = tree
    if cls is not None:
        for node in ast.walk(tree):
            if isinstance(node, ast.ClassDef) and node.name == cls:
                scope = node
                break
        else:
            raise py2lean.Untranslatable(f'class {cls} not found')
    for node in ast.walk(scope):
        if isinstance(node, ast.FunctionDef) and node.name == func:
            return node
    raise py2lean.Untranslatable(f'function {func} not found')


def translate_site(site):
    """returns (lean definition text, status string)"""
    name = site['name']
    try:
        tree = ast.parse((SRC / site['file']).read_text())
        fn = _find(tree, *site['func'])
        if site['kind'] == 'function':
            text, params = py2lean.function(fn, name)
            if params != site['params']:
                raise py2lean.Untranslatable(f'parameters {params}, expected {site["params"]}')
        else:
            text, params = py2lean.snippet(fn, site['targets'], site['inputs'], name, match=site.get('match'),
                                           keep_if=site.get('keep_if', False))
        loc = f'{site["file"]}:{fn.name} (line {fn.lineno})'
        return f'/-- translated from `{loc}` -/\n{text}\ndef {name}_translated : Bool := true', 'translated'
    except (py2lean.Untranslatable, OSError, SyntaxError) as e:
        params = site['params'] if site['kind'] == 'function' else site['inputs']
        sig = ' '.join(f'({py2lean._lean_name(p)} : Int)' for p in params)
        typ = site.get('type') or ' × '.join(['Int'] * len(site['targets']))
        fb = site['fallback']
        for p in params:  # the fallback text uses the plain names
            pass
        text = (f'/-- FALLBACK (source outside the translatable fragment: {str(e)[:100]}): the hand-written model -/\n'
                f'def {name} {sig} : {typ} :=\n  {fb}\ndef {name}_translated : Bool := false')
        return text, f'fallback: {e}'


def generate():
    out = ['import Mrpro.Model.Index', 'import Mrpro.Model.Ops', 'import Mrpro.Model.KDataOps',
           'import Mrpro.Model.SrcModel', 'import Mrpro.Model.Signal', 'import Mrpro.Model.Load', 'import Mrpro.Model.Rotation', 'import Mrpro.Model.Functional', 'import Mrpro.Model.CG', '',
           '/-! GENERATED by harness/translate_src.py from /repo/src on every check run. Do not edit. -/', '',
           'namespace M.Src', '']
    status = {}
    for site in SITES:
        text, st = translate_site(site)
        out += [text, '']
        status[site['name']] = st
    text, st = translate_pulseq()
    out += [text, '']
    status['pulseq_scale'] = st
    out += ['/-! closed-form signal models, element-wise -/', 'section Signal',
            'variable {K : Type} [Add K] [Sub K] [Mul K] [Div K] [Neg K] [OfNat K 0] [OfNat K 1] [OfNat K 2] [M.Transc K]', 'open M', '']
    for site in FLOAT_SITES:
        text, st = translate_float_site(site)
        out += [text, '']
        status['sig_' + site['name']] = st
    text, st = translate_constraints()
    out += ['/-! ConstraintsOp: the branches of forward / inverse, composed of the generated elementary maps -/', text, '']
    status.update(st)
    out += ['end Signal', '', '/-! Rotation kernels, component-wise -/', 'section Rot',
            'variable {K : Type} [Add K] [Sub K] [Mul K] [Neg K] [OfNat K 2]', '']
    for site in ROT_SITES:
        text, st = translate_rot_site(site)
        out += [text, '']
        status[site['name']] = st
    out += ['section RotInv', 'variable {K : Type} [Mul K] [Neg K] [OfNat K 1]', '']
    text, st = translate_rot_inv()
    out += [text, '', 'end RotInv', '']
    status['rot_inv'] = st
    out += ['end Rot', '', 'section RotOrder', 'variable {K : Type} [LT K] [DecidableLT K] [BEq K] [OfNat K 0] [Neg K]', '']
    text, st = translate_canonical()
    out += [text, '']
    status['rot_needs_inversion'] = st
    out += ['end RotOrder', '', '/-! proximal maps of the functionals, per element (real case) -/', 'section Prox',
            'variable {K : Type} [LT K] [DecidableLT K] [Neg K] [OfNat K 0] [OfNat K 1] [OfNat K 2] [Add K] [Sub K] [Mul K] [Div K]', 'open M', '']
    for site in PROX_SITES:
        text, st = translate_prox_site(site)
        out += [text, '']
        status['prox_' + site['name']] = st
    for site in VALUE_SITES:
        text, st = translate_value_site(site)
        out += [text, '']
        status['prox_' + site['name']] = st
    out += ['end Prox', '', '/-! conjugate gradient: the update formulas -/', 'section CG',
            'variable {K V : Type} [Add K] [Sub K] [Mul K] [Div K]', 'set_option linter.unusedVariables false', '']
    text, st = translate_cg()
    out += [text, '']
    status.update(st)
    out += ['end CG', '', '/-! power iteration of `operator_norm` -/', 'section PowerIter',
            'variable {K V : Type} [Div K] [OfNat K 1]', 'set_option linter.unusedVariables false', '']
    text, st = translate_power_iteration()
    out += [text, '']
    status.update(st)
    out += ['end PowerIter', '', 'end M.Src', '']
    return '\n'.join(out), status


def main() -> bool:
    new, status = generate()
    STATUS.write_text(json.dumps(status, indent=1))
    if not OUT.exists() or OUT.read_text() != new:
        OUT.parent.mkdir(parents=True, exist_ok=True)
        OUT.write_text(new)
        return True
    return False


def status() -> dict:
    return json.loads(STATUS.read_text()) if STATUS.exists() else {}


if __name__ == '__main__':
    print('changed' if main() else 'unchanged')
    print(json.dumps(status(), indent=1))
