"""A small translator from a fragment of Python (integer arithmetic, comparisons, if/elif/else,
return/raise, local assignments) to Lean 4 terms over `Int`.

It is used by `translate_src.py` to regenerate, on every check run, Lean definitions of the pure
integer code of mrpro *from the source text* (only `ast`, nothing is imported or executed).
Python semantics are kept: `//` is `Int.fdiv`, `%` is `Int.fmod`, `raise` is `none`.

Anything outside the fragment raises `Untranslatable`; the caller records that and the site is then
tied to the hand-written model by the correspondence check only.
"""
import ast


class Untranslatable(Exception):
    pass


def _ident(node) -> str:
    """a.b.c -> a_b_c ; len(x) -> len_x ; x[0] -> x_0"""
    if isinstance(node, ast.Name):
        return node.id
    if isinstance(node, ast.Attribute):
        return _ident(node.value) + '_' + node.attr
    if isinstance(node, ast.Subscript):
        sl = node.slice.elts if isinstance(node.slice, ast.Tuple) else [node.slice]
        parts = []
        for e in sl:
            if isinstance(e, ast.Constant) and e.value is Ellipsis:
                continue
            if isinstance(e, ast.UnaryOp) and isinstance(e.op, ast.USub) and isinstance(e.operand, ast.Constant):
                parts.append('m' + str(e.operand.value))
            elif isinstance(e, ast.Constant) and isinstance(e.value, int):
                parts.append(str(e.value).replace('-', 'm'))
            else:
                raise Untranslatable(f'subscript {ast.unparse(node)[:60]}')
        return _ident(node.value) + '_' + '_'.join(parts)
    raise Untranslatable(f'not an identifier: {ast.dump(node)[:80]}')


class Ctx:
    """names bound so far (locals) and free names in order of first use (become parameters)"""

    def __init__(self, params=()):
        self.params = list(params)
        self.bound = set(params)

    def use(self, name):
        if name not in self.bound:
            self.params.append(name)
            self.bound.add(name)
        return _lean_name(name)


def _lean_name(n: str) -> str:
    reserved = {'at', 'from', 'end', 'in', 'then', 'else', 'if', 'fun', 'do', 'let', 'have', 'show', 'open', 'new',
                'old'}
    return n + '_' if n in reserved else n


def expr(node, ctx: Ctx) -> str:
    """integer-valued expression"""
    if isinstance(node, ast.Constant):
        if isinstance(node.value, bool) or not isinstance(node.value, int):
            raise Untranslatable(f'non-integer constant {node.value!r}')
        return f'({node.value} : Int)' if node.value >= 0 else f'(-{-node.value} : Int)'
    if isinstance(node, (ast.Name, ast.Attribute, ast.Subscript)):
        return ctx.use(_ident(node))
    if isinstance(node, ast.Call):
        f = node.func
        if isinstance(f, ast.Name) and f.id == 'len' and len(node.args) == 1:
            return ctx.use('len_' + _ident(node.args[0]))
        if isinstance(f, ast.Name) and f.id in ('min', 'max') and len(node.args) == 2 and not node.keywords:
            return f'({f.id} {expr(node.args[0], ctx)} {expr(node.args[1], ctx)})'
        if isinstance(f, ast.Name) and f.id == 'abs' and len(node.args) == 1:
            return f'(Int.natAbs {expr(node.args[0], ctx)} : Int)'
        if isinstance(f, ast.Name) and f.id == 'int' and len(node.args) == 1:
            return expr(node.args[0], ctx)
        # tensor-valued integer arithmetic used elementwise: as_tensor(x) is x, (a / b).ceil() is ceil division
        if isinstance(f, ast.Attribute) and f.attr == 'as_tensor' and len(node.args) == 1:
            return expr(node.args[0], ctx)
        # dtype conversion of an integer-valued tensor is the identity; the rounded coordinate is an opaque input
        if isinstance(f, ast.Attribute) and f.attr in ('to', 'long', 'int') and not node.args:
            return expr(f.value, ctx)
        if isinstance(f, ast.Attribute) and f.attr == 'round' and not node.args and not node.keywords:
            return ctx.use('round_' + _ident(f.value))
        if isinstance(f, ast.Attribute) and f.attr == 'ceil' and not node.args:
            v = f.value
            if isinstance(v, ast.BinOp) and isinstance(v.op, ast.Div):
                return f'(-(Int.fdiv (-{expr(v.left, ctx)}) {expr(v.right, ctx)}))'
        raise Untranslatable(f'call {ast.unparse(node)[:60]}')
    if isinstance(node, ast.UnaryOp) and isinstance(node.op, ast.USub):
        return f'(-{expr(node.operand, ctx)})'
    if isinstance(node, ast.UnaryOp) and isinstance(node.op, ast.UAdd):
        return expr(node.operand, ctx)
    if isinstance(node, ast.BinOp):
        a, b = expr(node.left, ctx), expr(node.right, ctx)
        if isinstance(node.op, ast.Add):
            return f'({a} + {b})'
        if isinstance(node.op, ast.Sub):
            return f'({a} - {b})'
        if isinstance(node.op, ast.Mult):
            return f'({a} * {b})'
        if isinstance(node.op, ast.FloorDiv):
            return f'(Int.fdiv {a} {b})'
        if isinstance(node.op, ast.Mod):
            return f'(Int.fmod {a} {b})'
        raise Untranslatable(f'operator {type(node.op).__name__}')
    if isinstance(node, ast.IfExp):
        return f'(if {cond(node.test, ctx)} then {expr(node.body, ctx)} else {expr(node.orelse, ctx)})'
    if isinstance(node, ast.NamedExpr):
        raise Untranslatable('walrus in integer expression')
    raise Untranslatable(f'expression {type(node).__name__}')


_CMP = {ast.Lt: '<', ast.LtE: '≤', ast.Gt: '>', ast.GtE: '≥', ast.Eq: '=', ast.NotEq: '≠'}


def cond(node, ctx: Ctx) -> str:
    """decidable proposition"""
    if isinstance(node, ast.NamedExpr):  # `if flag := a == b:` — the flag itself is not an integer; use its value
        return cond(node.value, ctx)
    if isinstance(node, ast.Compare):
        parts, left = [], node.left
        for op, right in zip(node.ops, node.comparators):
            if type(op) not in _CMP:
                raise Untranslatable(f'comparison {type(op).__name__}')
            parts.append(f'{expr(left, ctx)} {_CMP[type(op)]} {expr(right, ctx)}')
            left = right
        return '(' + ' ∧ '.join(parts) + ')'
    if isinstance(node, ast.BoolOp):
        sep = ' ∧ ' if isinstance(node.op, ast.And) else ' ∨ '
        return '(' + sep.join(cond(v, ctx) for v in node.values) + ')'
    if isinstance(node, ast.UnaryOp) and isinstance(node.op, ast.Not):
        return f'(¬ {cond(node.operand, ctx)})'
    raise Untranslatable(f'condition {type(node).__name__}')


def _assigned(stmts) -> list[str]:
    out = []
    for s in stmts:
        if isinstance(s, ast.Assign):
            for t in s.targets:
                if isinstance(t, ast.Name) and t.id not in out:
                    out.append(t.id)
        elif isinstance(s, ast.AugAssign) and isinstance(s.target, ast.Name):
            if s.target.id not in out:
                out.append(s.target.id)
        elif isinstance(s, ast.If):
            for n in _assigned(s.body) + _assigned(s.orelse):
                if n not in out:
                    out.append(n)
    return out


def _terminates(stmts) -> bool:
    if not stmts:
        return False
    s = stmts[-1]
    if isinstance(s, (ast.Return, ast.Raise)):
        return True
    if isinstance(s, ast.If):
        return _terminates(s.body) and _terminates(s.orelse)
    return False


def block(stmts, ctx: Ctx, tail: str | None, indent='  ') -> str:
    """Translate a statement list. `tail` is the Lean term evaluated after the block falls through
    (None = falling through is an error, i.e. the function would return None)."""
    if not stmts:
        if tail is None:
            raise Untranslatable('control reaches the end of the function without return')
        return tail
    s, rest = stmts[0], stmts[1:]
    if isinstance(s, ast.Expr) and isinstance(s.value, ast.Constant):  # docstring
        return block(rest, ctx, tail, indent)
    if isinstance(s, ast.Return):
        if s.value is None:
            raise Untranslatable('bare return')
        return f'some {expr(s.value, ctx)}'
    if isinstance(s, ast.Raise):
        return 'none'
    if isinstance(s, ast.Assign):
        if len(s.targets) != 1 or not isinstance(s.targets[0], ast.Name):
            raise Untranslatable('assignment target')
        v = expr(s.value, ctx)
        name = s.targets[0].id
        ctx.bound.add(name)
        return f'let {_lean_name(name)} : Int := {v}\n{indent}{block(rest, ctx, tail, indent)}'
    if isinstance(s, ast.AugAssign) and isinstance(s.target, ast.Name):
        return block([ast.Assign(targets=[s.target], value=ast.BinOp(left=s.target, op=s.op, right=s.value)), *rest],
                     ctx, tail, indent)
    if isinstance(s, ast.If):
        c = cond(s.test, ctx)
        if _terminates(s.body) or _terminates(s.orelse):
            # duplicate the continuation into the branch(es) that fall through
            b = block(list(s.body) + ([] if _terminates(s.body) else list(rest)), ctx_copy(ctx), tail, indent + '  ')
            e = block(list(s.orelse) + ([] if _terminates(s.orelse) else list(rest)), ctx_copy(ctx, into=ctx), tail,
                      indent + '  ')
            return f'if {c} then\n{indent}  {b}\n{indent}else\n{indent}  {e}'
        # neither branch leaves: the branches only update locals
        names = _assigned([s])
        if not names:
            return block(rest, ctx, tail, indent)
        for n in names:
            if n not in ctx.bound and not _definitely_assigned([s], n):
                raise Untranslatable(f'{n} assigned only conditionally')
        tup = names[0] if len(names) == 1 else '(' + ', '.join(_lean_name(n) for n in names) + ')'
        ret = _lean_name(names[0]) if len(names) == 1 else tup
        b = block(list(s.body), ctx_copy(ctx), ret, indent + '  ')
        e = block(list(s.orelse), ctx_copy(ctx), ret, indent + '  ')
        ctx.bound.update(names)
        if len(names) == 1:
            head = f'let {_lean_name(names[0])} : Int := if {c} then\n{indent}  {b}\n{indent}else\n{indent}  {e}'
        else:
            head = f'let {tup} : {" × ".join(["Int"] * len(names))} := if {c} then\n{indent}  {b}\n{indent}else\n{indent}  {e}'
        return f'{head}\n{indent}{block(rest, ctx, tail, indent)}'
    if isinstance(s, ast.Pass):
        return block(rest, ctx, tail, indent)
    if isinstance(s, ast.Expr) and isinstance(s.value, ast.Call) and ast.unparse(s.value.func) == 'warnings.warn':
        return block(rest, ctx, tail, indent)  # no effect on the integer state
    raise Untranslatable(f'statement {type(s).__name__}')


def ctx_copy(ctx: Ctx, into: Ctx | None = None) -> Ctx:
    """branches share the parameter list (free names) but not the locals they bind"""
    c = Ctx.__new__(Ctx)
    c.params = ctx.params  # shared on purpose
    c.bound = set(ctx.bound)
    return c


def function(fn: ast.FunctionDef, lean_name: str) -> tuple[str, list[str]]:
    """whole function with integer parameters -> `def lean_name (p… : Int) : Option Int`"""
    params = [a.arg for a in fn.args.args]
    if fn.args.vararg or fn.args.kwarg or fn.args.kwonlyargs:
        raise Untranslatable('variadic signature')
    ctx = Ctx(params)
    body = block(list(fn.body), ctx, None)
    if ctx.params != params:
        raise Untranslatable(f'free names {ctx.params[len(params):]}')
    sig = ' '.join(f'({_lean_name(p)} : Int)' for p in params)
    return f'def {lean_name} {sig} : Option Int :=\n  {body}', params


def _definitely_assigned(stmts, name) -> bool:
    for s in stmts:
        if isinstance(s, ast.Assign) and any(isinstance(t, ast.Name) and t.id == name for t in s.targets):
            return True
        if isinstance(s, ast.If) and _definitely_assigned(s.body, name) and _definitely_assigned(s.orelse, name):
            return True
    return False


def snippet(fn: ast.FunctionDef, targets: list[str], inputs: list[str], lean_name: str, match: str | None = None,
            keep_if: bool = False):
    """The assignments to `targets` inside `fn`, in program order, as
    `def lean_name (inputs… : Int) : Int × … × Int` returning the final values of the targets.

    * `match`: only assignments whose source text matches this regular expression are taken;
    * `keep_if`: an `if` statement that assigns a target is translated as a whole (with its tests),
      otherwise the translator looks inside both branches for matching assignments;
    * names in `inputs` are the parameters (in this order); an assignment to one of them whose
      right-hand side is not integer arithmetic (e.g. unpacking a generator) defines the input and is skipped.
    Any other free name makes the site untranslatable (the parameter list is part of the theorem statement)."""
    import re

    picked = []

    def want(s):
        return match is None or re.search(match, ast.unparse(s)) is not None

    def walk(stmts):
        for s in stmts:
            if isinstance(s, ast.Assign) and len(s.targets) == 1:
                t = s.targets[0]
                if isinstance(t, ast.Name) and t.id in targets:
                    if want(s):
                        picked.append(s)
                    continue
                if isinstance(t, ast.Tuple) and all(isinstance(e, ast.Name) for e in t.elts):
                    names = [e.id for e in t.elts]
                    if any(n in targets for n in names):
                        if isinstance(s.value, ast.Tuple) and len(s.value.elts) == len(names):
                            # a, b = e1, e2 : simultaneous; safe to sequentialise when no e_j reads a target a_i (i<j)
                            for j, v in enumerate(s.value.elts):
                                used = {n.id for n in ast.walk(v) if isinstance(n, ast.Name)}
                                if used & set(names[:j]):
                                    raise Untranslatable('simultaneous assignment with dependence')
                            for n, v in zip(t.elts, s.value.elts):
                                a = ast.Assign(targets=[n], value=v)
                                if n.id in targets and want(a):
                                    picked.append(a)
                            continue
                        if all(n in inputs for n in names if n in targets):
                            continue  # defines inputs
                        raise Untranslatable(f'tuple assignment to {names}')
                continue
            if isinstance(s, ast.AugAssign) and isinstance(s.target, ast.Name) and s.target.id in targets:
                if want(s):
                    picked.append(s)
                continue
            if isinstance(s, ast.If):
                if keep_if and any(n in targets for n in _assigned([s])):
                    picked.append(s)
                else:
                    walk(s.body)
                    walk(s.orelse)
                continue
            if isinstance(s, (ast.For, ast.While, ast.With)):
                walk(s.body)
            elif isinstance(s, ast.Try):
                walk(s.body)

    walk(fn.body)
    if not picked:
        raise Untranslatable(f'no assignment to {targets} in {fn.name}')
    for s in picked:
        for n in ast.walk(s):
            if isinstance(n, (ast.Return, ast.Raise)):
                raise Untranslatable('return/raise inside a snippet')
    ctx = Ctx(inputs)
    for t in targets:
        if t in inputs:
            continue
        ctx.bound.discard(t)
    ret = _lean_name(targets[0]) if len(targets) == 1 else '(' + ', '.join(_lean_name(t) for t in targets) + ')'
    body = block(picked, ctx, ret)
    if ctx.params != list(inputs):
        raise Untranslatable(f'free names {[p for p in ctx.params if p not in inputs]} (expected inputs {inputs})')
    for t in targets:
        if t not in inputs and not _definitely_assigned(picked, t):
            raise Untranslatable(f'{t} not assigned on every path')
    sig = ' '.join(f'({_lean_name(p)} : Int)' for p in ctx.params)
    typ = ' × '.join(['Int'] * len(targets))
    return f'def {lean_name} {sig} : {typ} :=\n  {body}', list(ctx.params)


# ---------------------------------------------------------------------------------------------------------------
# floating-point closed forms (signal models): expressions over a scalar type with the transcendental functions of
# `M.Transc`; tensors are translated element-wise (broadcasting helpers such as `unsqueeze_right(x, n)` are the identity
# per element), `x ** 2` is `sq x`

CALL_HOOKS: list = []
_TRANSC = {'exp': 'exp', 'log': 'log', 'cos': 'cos', 'sin': 'sin', 'sqrt': 'sqrt', 'sinc': 'sinc'}


def fexpr(node, ctx: Ctx, poisoned: set) -> str:
    if isinstance(node, ast.Constant):
        v = node.value
        if isinstance(v, bool):
            raise Untranslatable('bool constant')
        if isinstance(v, float) and v == int(v):
            v = int(v)
        if isinstance(v, int) and 0 <= v <= 2:
            return f'({v} : K)'
        raise Untranslatable(f'constant {node.value!r}')
    if isinstance(node, ast.Attribute) and isinstance(node.value, ast.Name) and node.value.id == 'torch' and node.attr == 'pi':
        return 'Transc.pi'
    if isinstance(node, ast.Attribute) and node.attr in ('ndim', 'shape', 'dtype', 'device'):
        raise Untranslatable(f'.{node.attr}')
    if isinstance(node, (ast.Name, ast.Attribute)):
        name = _ident(node)
        if name in poisoned:
            raise Untranslatable(f'{name} depends on untranslated code')
        return ctx.use(name)
    if isinstance(node, ast.UnaryOp) and isinstance(node.op, ast.USub):
        return f'(-{fexpr(node.operand, ctx, poisoned)})'
    if isinstance(node, ast.BinOp):
        if isinstance(node.op, ast.Pow):
            if isinstance(node.right, ast.Constant) and node.right.value == 2:
                return f'(sq {fexpr(node.left, ctx, poisoned)})'
            raise Untranslatable('power other than 2')
        a, b = fexpr(node.left, ctx, poisoned), fexpr(node.right, ctx, poisoned)
        op = {ast.Add: '+', ast.Sub: '-', ast.Mult: '*', ast.Div: '/'}.get(type(node.op))
        if op is None:
            raise Untranslatable(f'operator {type(node.op).__name__}')
        return f'({a} {op} {b})'
    if isinstance(node, ast.Call):
        f = node.func
        for hook in CALL_HOOKS:  # site-specific primitives (empty unless a translator installs some)
            r = hook(node, ctx, poisoned)
            if r is not None:
                return r
        if isinstance(f, ast.Name) and f.id in ('unsqueeze_right', 'unsqueeze_left') and node.args:
            return fexpr(node.args[0], ctx, poisoned)
        if isinstance(f, ast.Attribute) and isinstance(f.value, ast.Name) and f.value.id == 'torch' and f.attr in _TRANSC and len(node.args) == 1:
            return f'({_TRANSC[f.attr]} {fexpr(node.args[0], ctx, poisoned)})'
        # torch primitives that are defined through exp / log (their defining expressions are trusted, like `//` = Int.fdiv)
        fname = ast.unparse(f)
        if len(node.args) == 1 and not node.keywords:
            z = fexpr(node.args[0], ctx, poisoned)
            if fname in ('F.sigmoid', 'torch.sigmoid', 'torch.nn.functional.sigmoid'):
                return f'((1 : K) / ((1 : K) + (exp (-{z}))))'
            if fname in ('F.logsigmoid', 'torch.nn.functional.logsigmoid'):
                return f'(-(log ((1 : K) + (exp (-{z})))))'
            if fname == 'torch.logit':
                return f'(log ({z} / ((1 : K) - {z})))'
            if fname == 'torch.expm1':
                return f'((exp {z}) - (1 : K))'
        raise Untranslatable(f'call {ast.unparse(node)[:50]}')
    raise Untranslatable(f'expression {type(node).__name__}')


def float_function(fn: ast.FunctionDef, inputs: list[str], lean_name: str):
    """`forward` of a signal model: local assignments in order, `return (expr,)`; names in `inputs` (in this order) are the
    parameters (method arguments and `self.<attr>` as `self_<attr>`); assignments that cannot be translated (shape
    bookkeeping) poison their target - using a poisoned name makes the site untranslatable"""
    ctx = Ctx(inputs)
    poisoned: set = set()
    lets = []
    ret = None
    for st in fn.body:
        if isinstance(st, ast.Expr) and isinstance(st.value, ast.Constant):
            continue
        if isinstance(st, ast.Expr) and isinstance(st.value, ast.Call) and ast.unparse(st.value.func).startswith('self._throw_if_'):
            continue  # a guard that only raises: no effect on the value computed
        if isinstance(st, ast.Assign) and len(st.targets) == 1 and isinstance(st.targets[0], ast.Name):
            name = st.targets[0].id
            try:
                v = fexpr(st.value, ctx, poisoned)
            except Untranslatable:
                poisoned.add(name)
                ctx.bound.discard(name)
                continue
            poisoned.discard(name)
            ctx.bound.add(name)
            lets.append(f'let {_lean_name(name)} : K := {v}')
            continue
        if isinstance(st, ast.Return):
            v = st.value
            if isinstance(v, ast.Tuple) and len(v.elts) == 1:
                v = v.elts[0]
            ret = fexpr(v, ctx, poisoned)
            break
        raise Untranslatable(f'statement {type(st).__name__}')
    if ret is None:
        raise Untranslatable('no return')
    if ctx.params != list(inputs):
        raise Untranslatable(f'free names {[p for p in ctx.params if p not in inputs]} (expected inputs {inputs})')
    sig = ' '.join(f'({_lean_name(p)} : K)' for p in inputs)
    body = '\n  '.join(lets + [ret])
    return f'def {lean_name} {sig} : K :=\n  {body}'
