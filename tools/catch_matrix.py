#!/venv/bin/python
"""Print the catch matrix (markdown) from seeded/*/meta.json and optionally splice it into DESIGN.md
between the markers <!-- CATCH-MATRIX-BEGIN --> and <!-- CATCH-MATRIX-END -->."""
import json
import sys
from pathlib import Path

ROOT = Path(__file__).resolve().parents[1]


def first_line(text):
    for l in text.splitlines():
        l = l.strip()
        if l:
            return l
    return ''


def main():
    rows = []
    for d in sorted((ROOT / 'seeded').glob('*/meta.json')):
        m = json.loads(d.read_text())
        readme = (d.parent / 'README.md').read_text() if (d.parent / 'README.md').exists() else ''
        what = first_line(readme)[:230].replace('|', '/')
        checks = m.get('checks', {})
        caught = m.get('caught_by', [])
        how = []
        for c in caught:
            lines = checks[c]['lines']
            kinds = set()
            for l in lines:
                if l.startswith('VIOLATION'):
                    kinds.add('no-failing-input-found' if l.rstrip().endswith('no-failing-input-found') else 'failing input')
            how.append(f'{c} ({", ".join(sorted(kinds)) or "violation"})')
        missed = [c for c in checks if c not in caught]
        suite = m.get('suite')
        rows.append((d.parent.name, what, '; '.join(how) or '**not caught**', ', '.join(missed) or '–',
                     f'{suite["passed_with_change"]}/{suite["stable_pass"]}' if suite else 'sub-agent run only',
                     'yes' if m.get('valid') else 'NO'))
    out = ['| seeded change | what it does (first line of its README) | caught by | ran, no alarm | pinned suite with the change | demo fails with / passes without |',
           '|---|---|---|---|---|---|']
    for r in rows:
        out.append('| ' + ' | '.join(r) + ' |')
    n_caught = sum(1 for r in rows if 'not caught' not in r[2])
    out.append('')
    out.append(f'{n_caught} of {len(rows)} seeded changes are caught by the quick tier of at least one check.')
    text = '\n'.join(out)
    print(text)
    if '--splice' in sys.argv:
        p = ROOT / 'DESIGN.md'
        s = p.read_text()
        b, e = '<!-- CATCH-MATRIX-BEGIN -->', '<!-- CATCH-MATRIX-END -->'
        if b in s and e in s:
            s = s[:s.index(b) + len(b)] + '\n' + text + '\n' + s[s.index(e):]
            p.write_text(s)


if __name__ == '__main__':
    main()
