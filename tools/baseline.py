#!/venv/bin/python
"""Run the repository's pinned test suite (guard off) and compare with /root/.vp/BASELINE.json stable_pass."""
import json, subprocess, sys, tempfile, xml.etree.ElementTree as ET, os
base = json.load(open('/root/.vp/BASELINE.json'))
with tempfile.TemporaryDirectory() as d:
    x = os.path.join(d, 'j.xml')
    cmd = base['cmd'].replace('<file>', x) + ' -n ' + os.environ.get('SUITE_N', '8')
    p = subprocess.run(cmd, shell=True, capture_output=True, text=True)
    passed = set()
    for tc in ET.parse(x).getroot().iter('testcase'):
        if not any(c.tag in ('failure', 'error', 'skipped') for c in tc):
            passed.add(f"{tc.get('classname')}::{tc.get('name')}")
want = set(base['stable_pass'])
missing = sorted(want - passed)
print(f'stable_pass {len(want)}, passed now {len(passed)}, missing {len(missing)}')
for m in missing[:20]:
    print('  MISSING', m)
sys.exit(1 if missing else 0)
