#!/venv/bin/python
"""Confirm a seeded change and run the checks against it.

usage: tools/seed_try.py <Cxx> <label> <dir with patch.diff demo.py README.md> [--checks C01,C09] [--no-suite]

1. scratch worktree of /repo under /tmp: apply the patch, run the demonstration (must fail), run it on the
   unchanged tree (must pass), run the pinned test suite against the worktree (every stable_pass test must pass);
   the worktree is removed afterwards;
2. `git -C /repo apply`, run ./check for the property (and any extra ones), `git -C /repo checkout -- .`;
3. store everything under /verif/seeded/<Cxx>-<label>/ (patch.diff, demo.py, README.md, meta.json).
"""
import argparse
import json
import os
import shutil
import subprocess
import sys
import tempfile
import time
import xml.etree.ElementTree as ET
from pathlib import Path

ROOT = Path(__file__).resolve().parents[1]


def sh(cmd, cwd=None, env=None, timeout=3600):
    e = dict(os.environ)
    if env:
        e.update(env)
    p = subprocess.run(cmd, shell=True, cwd=cwd, env=e, capture_output=True, text=True, timeout=timeout)
    return p.returncode, (p.stdout + p.stderr)


def main():
    ap = argparse.ArgumentParser()
    ap.add_argument('prop')
    ap.add_argument('label')
    ap.add_argument('dir')
    ap.add_argument('--checks', default='')
    ap.add_argument('--no-suite', action='store_true')
    ap.add_argument('--suite-only', action='store_true', help='only (re)run the pinned suite and update meta.json')
    ap.add_argument('--needs', default='')
    args = ap.parse_args()
    src = Path(args.dir)
    patch = (src / 'patch.diff').resolve()
    demo = (src / 'demo.py').resolve()
    name = f'{args.prop}-{args.label}'
    meta = {'property': args.prop, 'label': args.label, 'ran': []}
    old_meta = ROOT / 'seeded' / name / 'meta.json'
    if old_meta.exists():
        prev = json.loads(old_meta.read_text())
        if args.suite_only:
            meta = prev
        elif args.no_suite and 'suite' in prev:
            meta['suite'] = prev['suite']  # keep an earlier suite confirmation

    wt = Path(tempfile.mkdtemp(prefix=f'seedwt_{name}_', dir='/tmp'))
    wt.rmdir()
    rc, out = sh(f'git -C /repo worktree add -q {wt} HEAD')
    assert rc == 0, out
    try:
        rc, out = sh(f'git apply {patch}', cwd=wt)
        if rc != 0:  # the tree has moved on since the patch was written (a later fix: commit): merge
            rc, out = sh(f'git apply --3way {patch}', cwd=wt)
            meta['applied_with_3way'] = rc == 0
            if rc == 0:
                sh('git reset -q', cwd=wt)
        meta['patch_applies'] = rc == 0
        if rc != 0:
            print('PATCH DOES NOT APPLY', out)
            return 2
        env = {'PYTHONPATH': f'{wt}/src'}
        rc_m, out_m = sh(f'/venv/bin/python -W ignore {demo}', cwd=wt, env=env, timeout=1800)
        rc_c, out_c = sh(f'/venv/bin/python -W ignore {demo}', cwd='/repo', env={'PYTHONPATH': '/repo/src'}, timeout=1800)
        meta['demo_exit_with_change'] = rc_m
        meta['demo_exit_unchanged'] = rc_c
        meta['demo_tail_with_change'] = out_m[-600:]
        meta['ran'].append(f'PYTHONPATH=<worktree>/src python demo.py -> exit {rc_m}; on /repo -> exit {rc_c}')
        print(f'demo: with change exit {rc_m}, unchanged exit {rc_c}')
        if not args.no_suite:
            base = json.load(open('/root/.vp/BASELINE.json'))
            x = f'/tmp/{name}.junit.xml'
            cmd = base['cmd'].replace('cd /repo', f'cd {wt}').replace('<file>', x) + ' -n 12'
            t0 = time.time()
            rc, out = sh(f'flock /tmp/mut/suite.lock bash -c "{cmd}"', env=env, timeout=7200)
            passed = set()
            for tc in ET.parse(x).getroot().iter('testcase'):
                if not any(c.tag in ('failure', 'error', 'skipped') for c in tc):
                    passed.add(f"{tc.get('classname')}::{tc.get('name')}")
            os.remove(x)
            want = set(base['stable_pass'])
            missing = sorted(want - passed)
            meta['suite'] = {'stable_pass': len(want), 'passed_with_change': len(passed & want), 'missing': missing[:20],
                             'seconds': round(time.time() - t0)}
            meta['ran'].append(f'pinned suite against the worktree with the change: {len(passed & want)}/{len(want)} stable tests pass')
            print(f'suite: {len(passed & want)}/{len(want)} stable tests pass, missing {missing[:5]}')
        # checks: a private copy of /verif (so that development in /verif can go on) run against the worktree
        # that carries the change (MRPRO_REPO); equivalent to applying the patch to /repo, which stays untouched
        checks = [] if args.suite_only else [args.prop] + [c for c in args.checks.split(',') if c and c != args.prop]
        sv = Path('/tmp/verif_seed' + os.environ.get('SEED_SLOT', ''))
        sh(f'mkdir -p {sv} && rsync -a --delete --exclude .git --exclude seeded --exclude replays /verif/ {sv}/')
        results = {}
        for c in checks:
            t0 = time.time()
            rc, out = sh(f'./check {c}', cwd=sv, env={'MRPRO_REPO': str(wt)}, timeout=3600)
            lines = [l for l in out.splitlines() if l.startswith(('VIOLATION', 'KNOWN-FINDING', c + ' ', '  failing', '  correspondence', '  proof', '  (', 'HARNESS-ERROR'))]
            results[c] = {'exit': rc, 'lines': [l[:400] for l in lines][:12], 'seconds': round(time.time() - t0)}
            print(f'check {c}: exit {rc}')
            for l in lines[:6]:
                print('   ', l[:300])
    finally:
        sh(f'git -C /repo worktree remove --force {wt}')
        shutil.rmtree(wt, ignore_errors=True)
    if not args.suite_only:
        meta['checks'] = results
        meta['caught_by'] = [c for c, r in results.items() if r['exit'] == 1]
        meta['ran'].append('MRPRO_REPO=<worktree with patch.diff applied> ./check <id> (quick tier), from a copy of /verif')
    readme = (src / 'README.md').read_text() if (src / 'README.md').exists() else ''
    meta['needs_to_manifest'] = args.needs or readme
    valid = meta.get('demo_exit_with_change', 0) != 0 and meta.get('demo_exit_unchanged', 1) == 0 and (
        'suite' not in meta or not meta['suite']['missing'])
    meta['suite_confirmed'] = 'suite' in meta
    meta['valid'] = valid
    d = ROOT / 'seeded' / name
    d.mkdir(parents=True, exist_ok=True)
    if patch.resolve() != (d / 'patch.diff').resolve():
        shutil.copy(patch, d / 'patch.diff')
    if demo.resolve() != (d / 'demo.py').resolve():
        shutil.copy(demo, d / 'demo.py')
    if readme:
        (d / 'README.md').write_text(readme)
    (d / 'meta.json').write_text(json.dumps(meta, indent=1))
    print(f'{name}: valid={valid} caught_by={meta["caught_by"]}')
    return 0


if __name__ == '__main__':
    sys.exit(main())
