#!/venv/bin/python
"""Re-pin the AST hashes of the anchored source files (after a reviewed change of /repo, e.g. a fix: commit)."""
import sys
from pathlib import Path
sys.path.insert(0, str(Path(__file__).resolve().parents[1]))
from harness import source_pins
print(len(source_pins.pin_all()), 'files pinned')
