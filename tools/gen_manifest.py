#!/usr/bin/env python3
"""Regenerate MANIFEST.json from tools/claims.json (what is claimed, with level text) and properties.jsonl."""
import json
from pathlib import Path
ROOT = Path(__file__).resolve().parents[1]
props = [json.loads(l) for l in open(ROOT / 'properties.jsonl')]
claims = json.load(open(ROOT / 'tools' / 'claims.json'))
checks = []
for p in props:
    c = claims['claimed'].get(p['id'])
    if not c:
        continue
    checks.append({
        'property_id': p['id'],
        'quick_cmd': f"./check {p['id']} --tier quick",
        'thorough_cmd': f"./check {p['id']} --tier thorough",
        'evidence_file': f"evidence/{p['id']}.json",
        'replay_cmd_template': f"./check {p['id']} --replay {{path}}",
        'engine': 'lean-proof+correspondence',
        'level_claimed': {'category': 'proof', 'text': c['text'], 'design_ref': f"DESIGN.md §3 {p['id']}"},
        'level_note': c['note'],
        'technique': 'Lean 4 machine-checked proof about an executable model of the code; the model is tied to /repo on every run by a model/implementation correspondence check and, for declarative constants and integer code, by translators that regenerate Lean definitions from the source',
    })
m = {'version': 1, 'setup_cmd': './setup.sh',
     'hooks': {'guard': 'MRPRO_VERIF', 'enable': 'no source hooks are needed: all observation is through the public API',
               'baseline_off_cmd': 'cd /repo && /venv/bin/python -m pytest -ra -q -p no:cacheprovider --timeout=900 --continue-on-collection-errors',
               'source_commits': [], 'add_only': True},
     'engines': [{'name': 'lean-proof+correspondence', 'path': 'check', 'serves_properties': sorted(claims['claimed']),
                  'kind_free_text': 'Lean 4 models + theorems (lean/), compiled model driver (lean/Driver.lean), Python correspondence harness (harness/)'}],
     'checks': checks,
     'notes': 'see DESIGN.md; known findings in known_findings.json',
     'not_applicable': [{'property_id': p['id'], 'reason': claims['not_claimed'].get(p['id'], 'check under construction in this build round')}
                        for p in props if p['id'] not in claims['claimed']]}
json.dump(m, open(ROOT / 'MANIFEST.json', 'w'), indent=1)
print('claimed', sorted(claims['claimed']))
