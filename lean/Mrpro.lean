import Mrpro.Gen.Consts
import Mrpro.Model.Index
import Mrpro.Model.Ops
import Mrpro.Model.Proto
import Mrpro.Model.Scalar
import Mrpro.Model.Tensor
import Mrpro.Model.Vec
import Mrpro.Props.C11
