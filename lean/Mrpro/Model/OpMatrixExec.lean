import Mrpro.Model.OpMatrix
import Mrpro.Model.AlgebraExec
/-! Array-based evaluation of operator matrices (what a compiled driver runs) and a JSON-free
program API.  `Mrpro/Lemmas/OpMatrixL.lean` proves that `OpMat.fwdA / adjA` refine `OpMat.fwd / adj`. -/
namespace M
variable {K : Type} [DecidableEq K] [OfNat K 0] [OfNat K 1] [Mul K] [Add K] [Conj K]

/-- `u + v` on arrays of length `n` -/
def addA (n : Nat) (u v : Array K) : Array K := ofFnN n (fun t => toFn u t + toFn v t)

namespace OpMat
/-- `forward(*x)` on arrays; same control flow (and the same rejections) as `OpMat.fwd` -/
def fwdA (n : Nat) (Lf La : Nat → Array K → Array K) (A : OpMat K) (xs : List (Array K)) :
    Option (List (Array K)) :=
  if xs.length ≠ A.ncols then none else
  mapOpt (fun row =>
    (zipWithS (fun o x => Obj.fwdA n Lf La o x) row xs).bind (reduce1 (addA n))) A.rows

/-- `adjoint(*x) = self.H(*x)` on arrays -/
def adjA (n : Nat) (Lf La : Nat → Array K → Array K) (A : OpMat K) (ys : List (Array K)) :
    Option (List (Array K)) :=
  A.H.bind fun B => B.fwdA n Lf La ys
end OpMat

/-- run a program: leaf `i` is the dense `n×n` matrix `leaves i` (row-major index), applied with
`matLeafFwd / matLeafAdj`; `none` iff the Python raises somewhere (building the matrix or applying it) -/
def evalProgram (n : Nat) (leaves : Nat → Nat → K) (prog : MExpr K) (adjoint : Bool)
    (xs : List (Array K)) : Option (List (Array K)) :=
  (buildM prog).bind fun A =>
    if adjoint then A.adjA n (fun l => matLeafFwd n (leaves l)) (fun l => matLeafAdj n (leaves l)) xs
    else A.fwdA n (fun l => matLeafFwd n (leaves l)) (fun l => matLeafAdj n (leaves l)) xs

/-- the shape of the matrix a program builds (`none` iff building it raises) -/
def evalShape (prog : MExpr K) : Option (Nat × Nat) := (buildM prog).map OpMat.shape

/-- run the single operator `prog[ri, ci]` -/
def evalEntry (n : Nat) (leaves : Nat → Nat → K) (prog : MExpr K) (ri ci : Idx) (adjoint : Bool)
    (x : Array K) : Option (Array K) :=
  (buildEntry prog ri ci).map fun o =>
    if adjoint then Obj.adjA n (fun l => matLeafFwd n (leaves l)) (fun l => matLeafAdj n (leaves l)) o x
    else Obj.fwdA n (fun l => matLeafFwd n (leaves l)) (fun l => matLeafAdj n (leaves l)) o x

/-- the specification `denM / denHM` of a program on the same leaves, tabulated (function-level
evaluation: closures are re-evaluated, only meant for small `n` and shallow programs) -/
def specProgram (n : Nat) (leaves : Nat → Nat → K) (prog : MExpr K) (adjoint : Bool)
    (xs : List (Array K)) : List (Array K) :=
  let Lf := fun l => matVec n (leaves l)
  let La := fun l => matVecH n n (leaves l)
  ((if adjoint then denHM Lf La prog (xs.map toFn) else denM Lf La prog (xs.map toFn))).map (ofFnN n)

end M
