import Mrpro.Model.Dcf
/-! Glue code of `dcf_2d3d_voronoi` (2-D/3-D Voronoi density compensation) around the qhull call.

Python (`mrpro/algorithms/dcf/dcf_voronoi.py`):

1. `traj_unique, inverse, counts = np.unique(round(traj).reshape(dim, -1), return_inverse, return_counts, axis=1)`
   — the columns (sample positions) are sorted lexicographically, coordinate 0 most significant
   (checked: columns `(1,0) (0,5) (1,0) (0,-2) (1,-3) (-1,7)` give `(-1,7) (0,-2) (0,5) (1,-3) (1,0)`,
   `inverse = [4 2 4 1 3 0]`, `counts = [1 1 1 1 2]`).
2. Voronoi cell volume of every unique position (scipy/qhull, with bounding corner points): a PARAMETER
   here, `volOfUnique : List Rat`, one value per unique position in the order of `uniquePts`.
3. outlier replacement: values `> q3 + 1.5 * (q3 - q1)` (`np.percentile`, linear interpolation, of the
   sorted volumes) are set to the average of `sorted[int(0.99 * m) : m]`, `m = n - n_outliers`.
4. `(dcf / counts)[inverse]`.

The model takes positions that are already rounded (`np.round(…, decimals=15)` acts on floats and is
not modelled; the model starts from the rounded array).  A sample position is a `List Rat` of length
`d`; nothing below depends on `d`.

Sorting is a structural insertion sort (so that closed instances reduce in the kernel); any sorting
algorithm gives the same list because the orders used are total orders. -/
namespace M

/-! ### sorting, unique -/

/-- insert into a list sorted by `le` -/
def insertBy {α : Type} (le : α → α → Bool) (a : α) : List α → List α
  | [] => [a]
  | b :: bs => if le a b then a :: b :: bs else b :: insertBy le a bs

/-- insertion sort by the (total) order `le` -/
def isortBy {α : Type} (le : α → α → Bool) : List α → List α
  | [] => []
  | a :: as => insertBy le a (isortBy le as)

/-- `np.sort` on values -/
def sortRat (l : List Rat) : List Rat := isortBy (fun a b => decide (a ≤ b)) l

/-- lexicographic `≤` on positions, coordinate 0 most significant — the order in which
`np.unique(axis=1)` returns the columns -/
def lexLe : List Rat → List Rat → Bool
  | [], _ => true
  | _ :: _, [] => false
  | a :: as, b :: bs => if a < b then true else if b < a then false else lexLe as bs

/-- remove repeated entries (one representative of each is kept) -/
def dedupL : List (List Rat) → List (List Rat)
  | [] => []
  | a :: as => if (dedupL as).contains a then dedupL as else a :: dedupL as

/-- `traj_unique`: the distinct positions in lexicographic order -/
def uniquePts (pts : List (List Rat)) : List (List Rat) := isortBy lexLe (dedupL pts)

/-- `inverse`: for every sample the index of its position in `uniquePts` -/
def inverseIdx (pts : List (List Rat)) : List Nat := pts.map (fun p => (uniquePts pts).idxOf p)

/-- `counts`: multiplicity of every unique position -/
def counts (pts : List (List Rat)) : List Nat := (uniquePts pts).map (fun u => pts.count u)

/-! ### percentile and outlier replacement -/

/-- `np.percentile(sorted, p)` with the default method `linear`: virtual index `v = (n-1)·p/100`,
`i = ⌊v⌋`, `γ = v - i`, result `s[i] + γ·(s[min(i+1, n-1)] - s[i])`.
(checked: `[1,2,3,10] ↦ 1.75, 4.75`; `[5] ↦ 5, 5`; `[1,2] ↦ 1.25, 1.75`.)
For the empty list numpy raises `IndexError`; the value here is then meaningless and `replaceOutliers`
guards that case. -/
def percentileLin (s : List Rat) (p : Rat) : Rat :=
  let v : Rat := ((s.length : Rat) - 1) * p / 100
  let i : Nat := v.floor.toNat
  let g : Rat := v - (i : Rat)
  s.getD i 0 + g * (s.getD (min (i + 1) (s.length - 1)) 0 - s.getD i 0)

/-- `upper_bound = q3 + 1.5 * (q3 - q1)` of the sorted volumes -/
def upperBound (vol : List Rat) : Rat :=
  percentileLin (sortRat vol) 75 + 3 / 2 * (percentileLin (sortRat vol) 75 - percentileLin (sortRat vol) 25)

/-- `dcf > upper_bound` -/
def isOutlier (vol : List Rat) (x : Rat) : Bool := decide (upperBound vol < x)

/-- `n_outliers` -/
def nOutliers (vol : List Rat) : Nat := (vol.filter (isOutlier vol)).length

/-- `high_values_start = int(0.99 * m)`.  Python multiplies the double `0.99`
(= 4458563631096791/4503599627370496 < 99/100) by `m` in floating point and truncates.  This equals
`(99 * m) // 100` for every `m < 3·10^8` (checked exhaustively) and, by the error estimate
`|fl(0.99·m) - 99m/100| ≤ m·(2.2e-17 + 1.1e-16) < 1/100`, for every `m < 7·10^13`: for `m` not a
multiple of 100 the fractional part of `99m/100` is at least `1/100`, and for multiples of 100 the
product rounds to the exact integer.  Beyond that size the two could differ by one. -/
def highStart (m : Nat) : Nat := (99 * m) / 100

/-- `dcf_sorted[high_values_start : high_values_end]`, `high_values_end = n - n_outliers` -/
def topSlice (vol : List Rat) : List Rat :=
  let m := vol.length - nOutliers vol
  ((sortRat vol).drop (highStart m)).take (m - highStart m)

/-- `np.average` of the slice -/
def fillValue (vol : List Rat) : Rat := (topSlice vol).sum / ((topSlice vol).length : Rat)

/-- Outlier replacement.  `none` stands for the two situations in which Python has no proper value:
`vol = []` (`np.percentile` raises `IndexError`) and an empty slice (`np.average([])` is `nan` with a
`RuntimeWarning: Mean of empty slice`).  The second cannot happen for non-empty input, see
`replaceOutliers_isSome` in `Mrpro/Lemmas/Dcf2dL.lean`. -/
def replaceOutliers (vol : List Rat) : Option (List Rat) :=
  if vol = [] ∨ topSlice vol = [] then none
  else some (vol.map (fun x => if isOutlier vol x then fillValue vol else x))

/-! ### the glue -/

/-- weights per sample: `(replaced / counts)[inverse]`.  `none` additionally if the number of volumes is
not the number of unique positions (numpy: broadcast error in `dcf / counts`). -/
def dcfGlue (pts : List (List Rat)) (volOfUnique : List Rat) : Option (List Rat) :=
  if volOfUnique.length = (uniquePts pts).length then
    (replaceOutliers volOfUnique).map (fun r =>
      (inverseIdx pts).map (fun j => r.getD j 0 / (((counts pts).getD j 0 : Nat) : Rat)))
  else none

/-- as `dcfGlue`, also returning `inverse` and `counts` -/
def dcfGlueIdx (pts : List (List Rat)) (volOfUnique : List Rat) :
    Option (List Rat) × List Nat × List Nat :=
  (dcfGlue pts volOfUnique, inverseIdx pts, counts pts)

end M
