import Mrpro.Model.Scalar
/-! Vectors are functions `Nat → K` with an explicit length; N-D tensors are flat row-major
vectors with a shape.  `applyAlong` lifts a 1-D operator to one axis of an N-D tensor. -/
namespace M
variable {K : Type}

/-- `∑_{i<n} f i`, import-free -/
def sumTo [Add K] [OfNat K 0] (n : Nat) (f : Nat → K) : K :=
  (List.range n).foldl (fun a i => a + f i) 0

/-- `⟨x, y⟩ = ∑ conj(x_i) y_i` (the `torch.vdot` convention) -/
def inner [Add K] [Mul K] [OfNat K 0] [Conj K] (n : Nat) (x y : Nat → K) : K :=
  sumTo n (fun i => conj (x i) * y i)

def prodL : List Nat → Nat
  | [] => 1
  | a :: l => a * prodL l

/-- A tensor of shape `[outer, n, inner]` (row-major, flat) is mapped to one of shape
`[outer, m, inner]` by applying `op : Kⁿ → Kᵐ` to every fibre along the middle axis. -/
def applyAlong (inner n m : Nat) (op : (Nat → K) → (Nat → K)) (x : Nat → K) : Nat → K :=
  fun flat =>
    let o := flat / (m * inner)
    let j := flat / inner % m
    let i := flat % inner
    op (fun t => x ((o * n + t) * inner + i)) j

/-- materialise the first `n` values in an array (driver only: avoids re-evaluating closures).
Returns the array — a function-valued `memo` would be eta-expanded by the compiler and recompute. -/
def tabulate (n : Nat) (f : Nat → K) : Array K := Array.ofFn (n := n) (fun i => f i.val)

end M
