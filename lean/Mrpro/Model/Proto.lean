import Lean.Data.Json
import Mrpro.Model.Tensor
/-! Line protocol helpers (driver side): one JSON object per line in, one per line out.
Exact scalars are strings `"p"`, `"p/q"` or `"re;im"`; doubles travel as their IEEE bit pattern. -/
namespace M.Proto
open Lean

def parseRat (s : String) : Option Rat :=
  match s.splitOn "/" with
  | [n] => n.toInt?.map (fun i => (i : Rat))
  | [n, d] => do
      let i ← n.toInt?
      let j ← d.toNat?
      if j = 0 then none else some ((i : Rat) / (j : Rat))
  | _ => none

def showRat (r : Rat) : String := if r.den = 1 then toString r.num else s!"{r.num}/{r.den}"

def parseCRat (s : String) : Option CRat :=
  match s.splitOn ";" with
  | [a] => (parseRat a).map CRat.ofRat
  | [a, b] => do some ⟨← parseRat a, ← parseRat b⟩
  | _ => none

def showCRat (c : CRat) : String :=
  if c.im = 0 then showRat c.re else s!"{showRat c.re};{showRat c.im}"

def getStr (j : Json) (k : String) : Except String String := j.getObjValAs? String k
def getNat (j : Json) (k : String) : Except String Nat := j.getObjValAs? Nat k
def getInt (j : Json) (k : String) : Except String Int := j.getObjValAs? Int k
def getBool (j : Json) (k : String) : Except String Bool := j.getObjValAs? Bool k
def getNats (j : Json) (k : String) : Except String (List Nat) := do
  let a ← j.getObjValAs? (Array Nat) k; pure a.toList
def getInts (j : Json) (k : String) : Except String (List Int) := do
  let a ← j.getObjValAs? (Array Int) k; pure a.toList
def getStrs (j : Json) (k : String) : Except String (List String) := do
  let a ← j.getObjValAs? (Array String) k; pure a.toList
def getCRats (j : Json) (k : String) : Except String (List CRat) := do
  let l ← getStrs j k
  match l.mapM parseCRat with
  | some r => pure r
  | none => throw s!"bad scalar in {k}"
def getRats (j : Json) (k : String) : Except String (List Rat) := do
  let l ← getStrs j k
  match l.mapM parseRat with
  | some r => pure r
  | none => throw s!"bad scalar in {k}"
/-- list of vectors -/
def getCRatss (j : Json) (k : String) : Except String (List (List CRat)) := do
  let a ← j.getObjValAs? (Array (Array String)) k
  a.toList.mapM (fun v => match v.toList.mapM parseCRat with
    | some r => pure r
    | none => throw s!"bad scalar in {k}")

def getFloats (j : Json) (k : String) : Except String (List Float) := do
  let a ← j.getObjValAs? (Array Nat) k
  pure (a.toList.map (fun n => Float.ofBits n.toUInt64))
def floatsJson (l : List Float) : Json := Json.arr (l.map (fun f => Json.num (JsonNumber.fromNat f.toBits.toNat))).toArray
def getCFloats (j : Json) (k : String) : Except String (List CFloat) := do
  let l ← getFloats j k
  let rec go : List Float → List CFloat
    | a :: b :: r => ⟨a, b⟩ :: go r
    | _ => []
  pure (go l)
def cfloatsJson (l : List CFloat) : Json := floatsJson (l.flatMap (fun c => [c.re, c.im]))

def cratsJson (l : List CRat) : Json := Json.arr (l.map (fun c => Json.str (showCRat c))).toArray
def ratsJson (l : List Rat) : Json := Json.arr (l.map (fun c => Json.str (showRat c))).toArray
def natsJson (l : List Nat) : Json := Json.arr (l.map (fun n => Json.num (JsonNumber.fromNat n))).toArray
def intsJson (l : List Int) : Json := Json.arr (l.map (fun n => Json.num (JsonNumber.fromInt n))).toArray

def tensorJson (t : Tensor CRat) : Json :=
  Json.mkObj [("shape", natsJson t.shape), ("data", cratsJson t.toList)]
def errJson (e : ErrKind) : Json := Json.mkObj [("err", Json.str e.toString)]
def resultJson (r : Except ErrKind (Tensor CRat)) : Json :=
  match r with | .ok t => tensorJson t | .error e => errJson e

end M.Proto
