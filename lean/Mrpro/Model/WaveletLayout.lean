/-! `WaveletOp` bookkeeping (`operators/WaveletOp.py`): the discrete wavelet transform itself is a
trusted parameter; modelled here is what the class adds around it

* `coefficients_shape` as computed in `__init__` (`coefficientsShape`),
* `_coeff_to_stacked_tensor` / `_stacked_tensor_to_coeff` (`stack` / `unstack`),
* `_format_coeffs_2d/3d` / `_undo_format_coeffs_2d/3d` (`formatND` / `undoFormatND k`).

A coefficient block is a `List K` (the block flattened row-major, `coeff.flatten(start_dim=-d)`);
leading batch dimensions are untouched by all of these functions and are left out.
(Own namespace `M.Wavelet`: `M.stack` is the `torch.stack` of `Mrpro/Model/OpsND.lean`.) -/
namespace M.Wavelet

/-- `int(np.prod(shape))` -/
def shapeSize : List Nat → Nat
  | [] => 1
  | n :: s => n * shapeSize s

/-- one pass of the loop body `current = (current / 2).ceil() + wavelet_length // 2 - 1`, in every
dimension (`ceil(n/2) = (n+1)/2`; `wavelet_length` is the same `dec_len` in every dimension) -/
def levelShape (L : Nat) (shape : List Nat) : List Nat :=
  shape.map (fun n => (n + 1) / 2 + L / 2 - 1)

/-- the values `current_shape` takes in the iterations `1, …, level` of the loop, in loop order:
level 1 (finest, largest) first, level `level` (coarsest) last -/
def levelShapes (L : Nat) (shape : List Nat) : Nat → List (List Nat)
  | 0 => []
  | level + 1 => levelShape L shape :: levelShapes L (levelShape L shape) level

/-- `n_wavelet_directions`: 1, 3, 7 for `d = 1, 2, 3` -/
def nDirections (d : Nat) : Nat := 2 ^ d - 1

/-- `self.coefficients_shape` exactly as `__init__` builds it: `[domain]` for level 0, otherwise
each level shape `n_wavelet_directions` times (`extend([shape] * n)`), the whole list reversed
(`[::-1]`, coarsest level first) and its first entry prepended (`insert(0, l[0])`, the
approximation block).  (`l[0]` of an empty list cannot occur in Python, `d ∈ {1,2,3}`; `headD`.) -/
def coefficientsShape (L : Nat) (domain : List Nat) (level : Nat) : List (List Nat) :=
  if level = 0 then [domain]
  else
    let l := ((levelShapes L domain level).map
      (fun s => List.replicate (nDirections domain.length) s)).flatten
    let r := l.reverse
    r.headD [] :: r

/-- `_coeff_to_stacked_tensor`: flatten each block, concatenate -/
def stack {K : Type} (blocks : List (List K)) : List K := blocks.flatten

/-- `torch.split(v, sizes)`: consecutive pieces of the given sizes; raises (`none`) unless the sizes
add up to the length exactly -/
def splitSizes {K : Type} : List Nat → List K → Option (List (List K))
  | [], [] => some []
  | [], _ :: _ => none
  | n :: ns, v =>
    if n ≤ v.length then (splitSizes ns (v.drop n)).map (fun bs => v.take n :: bs) else none

/-- `_stacked_tensor_to_coeff`: split by the products of `coefficients_shape` (the reshape of each
piece to its shape does not change the row-major content) -/
def unstack {K : Type} (shapes : List (List Nat)) (v : List K) : Option (List (List K)) :=
  splitSizes (shapes.map shapeSize) v

/-- `_format_coeffs_2d/3d`: `[a, (d₁,…,d_k)_n, …, (d₁,…,d_k)_1] ↦ [a, d₁_n, …, d_k_n, …, d_k_1]`
(`extend(c_tuple)` / `extend(c_dict.values())`, dict order = insertion order) -/
def formatND {B : Type} (c : B × List (List B)) : List B := c.1 :: c.2.flatten

/-- `[l[i : i + k] for i in range(0, len(l), k)]`; `range(0, n, k)` has `⌈n/k⌉` elements and a slice
beyond the end is shorter (or empty) -/
def chunks {B : Type} (k : Nat) (l : List B) : List (List B) :=
  (List.range ((l.length + k - 1) / k)).map (fun j => (l.drop (j * k)).take k)

/-- `_undo_format_coeffs_2d` with `k = n_wavelet_directions`:
`[coefficients[0]] + [tuple(coefficients[i : i + k]) for i in range(1, len(coefficients), k)]`;
`none` where Python raises (`coefficients[0]` of an empty list, `range` with step 0) -/
def undoFormatND {B : Type} (k : Nat) : List B → Option (B × List (List B))
  | [] => none
  | a :: rest => if k = 0 then none else some (a, chunks k rest)

/-- `_undo_format_coeffs_3d`: additionally `zip(names, chunk, strict=True)` raises when a chunk
does not have exactly `k` (= 7 = number of names) entries -/
def undoFormatStrict {B : Type} (k : Nat) (l : List B) : Option (B × List (List B)) :=
  match undoFormatND k l with
  | none => none
  | some c => if c.2.all (fun t => t.length == k) then some c else none

/-- the sizes of the blocks a `level`-level transform with the PyWavelets length rule returns, in the
nested format of `ptwt`: approximation block of the coarsest level, then per level (coarsest first)
`k` detail blocks of that level's shape -/
def nestedSizes (L : Nat) (domain : List Nat) (level : Nat) : Nat × List (List Nat) :=
  let ls := levelShapes L domain level
  (shapeSize (ls.getLastD domain),
   ls.reverse.map (fun s => List.replicate (nDirections domain.length) (shapeSize s)))

/-! ### examples (true values: `WaveletOp(domain_shape, dim, wavelet_name, level).coefficients_shape`
and the shapes returned by `ptwt.wavedec2/3(..., mode='zero')`, run in the sandbox) -/

-- haar (L = 2), (8, 8), level 2
example : coefficientsShape 2 [8, 8] 2 = [[2,2],[2,2],[2,2],[2,2],[4,4],[4,4],[4,4]] := by decide
-- db2 (L = 4), (8, 8), level 1
example : coefficientsShape 4 [8, 8] 1 = [[5,5],[5,5],[5,5],[5,5]] := by decide
-- db2, (16, 12), level 2
example : coefficientsShape 4 [16, 12] 2 = [[6,5],[6,5],[6,5],[6,5],[9,7],[9,7],[9,7]] := by decide
-- db2, 1-D (16,), level 2
example : coefficientsShape 4 [16] 2 = [[6],[6],[9]] := by decide
-- haar, (10, 6), level 2 (odd intermediate size 5)
example : coefficientsShape 2 [10, 6] 2 = [[3,2],[3,2],[3,2],[3,2],[5,3],[5,3],[5,3]] := by decide
-- level 0
example : coefficientsShape 2 [8, 8] 0 = [[8, 8]] := by decide
-- haar, 3-D (8, 8, 8), level 2: 1 + 7 blocks (2,2,2), 7 blocks (4,4,4)
example : coefficientsShape 2 [8, 8, 8] 2
    = List.replicate 8 [2,2,2] ++ List.replicate 7 [4,4,4] := by decide
-- db2, 3-D (8, 4, 6), level 1
example : coefficientsShape 4 [8, 4, 6] 1 = List.replicate 8 [5,3,4] := by decide
-- total number of stacked coefficients (`forward(x).shape[-1]`): 64, 100, 309, 480
example : ((coefficientsShape 2 [8, 8] 2).map shapeSize).sum = 64 := by decide
example : ((coefficientsShape 4 [8, 8] 1).map shapeSize).sum = 100 := by decide
example : ((coefficientsShape 4 [16, 12] 2).map shapeSize).sum = 309 := by decide
example : ((coefficientsShape 4 [8, 4, 6] 1).map shapeSize).sum = 480 := by decide

-- block sizes of `ptwt.wavedec2(x(16,12), 'db2', level=2, mode='zero')`:
-- `[(6,5), ((6,5),(6,5),(6,5)), ((9,7),(9,7),(9,7))]`
example : nestedSizes 4 [16, 12] 2 = (30, [[30, 30, 30], [63, 63, 63]]) := by decide
example : formatND (nestedSizes 4 [16, 12] 2) = (coefficientsShape 4 [16, 12] 2).map shapeSize := by
  decide

-- stack / unstack on numbers: shapes (1,2), (1,2), (2,1), (2,2)
example : stack [[1, 2], [3, 4], [5, 6], [7, 8, 9, 10]] = [1, 2, 3, 4, 5, 6, 7, 8, 9, 10] := by decide
example : unstack [[1,2],[1,2],[2,1],[2,2]] [1, 2, 3, 4, 5, 6, 7, 8, 9, 10]
    = some [[1, 2], [3, 4], [5, 6], [7, 8, 9, 10]] := by decide
-- `torch.split` raises when the sizes do not add up to the length
example : unstack [[1,2],[2,2]] [1, 2, 3, 4, 5] = none := by decide
example : unstack [[1,2],[2,2]] [1, 2, 3, 4, 5, 6, 7] = none := by decide
-- format / undo format, k = 3, two levels
example : formatND (0, [[1, 2, 3], [4, 5, 6]]) = [0, 1, 2, 3, 4, 5, 6] := by decide
example : undoFormatND 3 [0, 1, 2, 3, 4, 5, 6] = some (0, [[1, 2, 3], [4, 5, 6]]) := by decide
-- a flat list of the wrong length: the 2-D code returns a short last tuple, the 3-D code raises
example : undoFormatND 3 [0, 1, 2, 3, 4, 5] = some (0, [[1, 2, 3], [4, 5]]) := by decide
example : undoFormatStrict 3 [0, 1, 2, 3, 4, 5] = none := by decide
example : undoFormatStrict 3 [0, 1, 2, 3, 4, 5, 6] = some (0, [[1, 2, 3], [4, 5, 6]]) := by decide

end M.Wavelet
