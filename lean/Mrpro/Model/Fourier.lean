import Mrpro.Model.OpsND
/-! `FastFourierOp` / Cartesian `FourierOp` on N-D tensors, and the MR encoding model (NUDFT) they
must equal.  The scalar type, the normalisation constants `c n = 1/√n` and the twiddle factors
`tw n t = e^{-2πi t/n}` are parameters (the DFT kernel of torch is a parameter of the model). -/
namespace M
variable {K : Type} [Inhabited K] [Add K] [Mul K] [OfNat K 0] [Conj K]

structure FourierParams (K : Type) where
  /-- normalisation constant for a transform of length n (`1/√n` for norm='ortho') -/
  c : Nat → K
  /-- `tw n t = ω_n^t`, `ω_n = e^{-2πi/n}` -/
  tw : Nat → Nat → K

/-- centred FFT along the (already normalised) axes `ds` -/
def fftAxes (P : FourierParams K) (inverse : Bool) (ds : List Nat) (x : Tensor K) : Tensor K :=
  ds.foldl (fun t d =>
    let n := t.shape.getD d 1
    (alongAxis t d n (if inverse then centredIdft n (P.c n) (P.tw n) else centredDft n (P.c n) (P.tw n))).memo) x

def normDimsE (ndim : Nat) (dims : List Int) : Except ErrKind (List Nat) :=
  match dims.mapM (normIndex ndim) with
  | some ds => if ds.Nodup then pure ds else throw .valueError
  | none => throw .indexError

/-- `FastFourierOp(dim, recon_matrix, encoding_matrix).forward`; `sizes = none` ⇒ no padding -/
def fastFourierFwd (P : FourierParams K) (dims : List Int) (sizes : Option (List Nat × List Nat))
    (x : Tensor K) : Except ErrKind (Tensor K) := do
  let padded ← match sizes with
    | some (recon, enc) => zeroPadOpFwd dims recon enc x
    | none => pure x
  let ds ← normDimsE padded.ndim dims
  pure (fftAxes P false ds padded)

def fastFourierAdj (P : FourierParams K) (dims : List Int) (sizes : Option (List Nat × List Nat))
    (y : Tensor K) : Except ErrKind (Tensor K) := do
  let ds ← normDimsE y.ndim dims
  let t := fftAxes P true ds y
  match sizes with
  | some (recon, enc) => zeroPadOpAdj dims recon enc t
  | none => pure t

/-! ### the specification: non-uniform DFT with centred image coordinates

`y[s] = c · ∑_r x[r] · e(−2πi · k_s·(r − N_rec/2)/N_enc)` along each transformed axis. 1-D core: -/

/-- 1-D encoding sum: `e k r` is the phase factor `e^{-2πi k (r - nrec/2)/nenc}` supplied by the caller -/
def nudft1 (c : K) (nrec : Nat) (e : Nat → Nat → K) (x : Nat → K) : Nat → K :=
  fun s => c * sumTo nrec (fun r => e s r * x r)

end M

namespace M
/-- what `FourierOp.__init__` does with one of the axes kz/ky/kx -/
inductive Treatment | ignore | fft | nufft
deriving DecidableEq, Repr

/-- `type & SINGLEVALUE` ⇒ ignore; else `type & ONGRID` ⇒ FFT + sampling; else NUFFT -/
def treatment (allSingleton onGrid : Bool) : Treatment :=
  if allSingleton then .ignore else if onGrid then .fft else .nufft

def TrajComp.treatment (t : TrajComp) (tol : Rat) : Treatment :=
  M.treatment ((t.shape.drop 1).all (· = 1)) (t.onGrid tol)
end M
