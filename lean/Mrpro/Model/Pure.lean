/-! Purity specification: the API as a *stateless* transition system.  A call reads the world
(caller tensors, operator buffers, data objects) and returns an output; it never writes. -/
namespace M

structure Call (W O : Type) where
  run : W → O

def step {W O : Type} (w : W) (c : Call W O) : W × O := (w, c.run w)

/-- run a history of calls; returns the final world and the outputs in order -/
def runHistory {W O : Type} (w : W) : List (Call W O) → W × List O
  | [] => (w, [])
  | c :: cs =>
    let (w1, o) := step w c
    let (w2, os) := runHistory w1 cs
    (w2, o :: os)

end M
