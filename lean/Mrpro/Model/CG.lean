/-! Conjugate gradient (`mrpro.algorithms.optimizers.cg`), line by line, generic in the vector type:
the driver instantiates it with arrays of rationals, the theorems with an abstract inner-product
space over an ordered field.  Division is *partial*: a zero divisor yields `.nan`, never `x/0 = 0`. -/
namespace M

/-- the vector operations `cg` uses (`+`, `-`, scalar `*`, `torch.vdot`) -/
structure VecOps (K V : Type) where
  add : V → V → V
  sub : V → V → V
  smul : K → V → V
  dot : V → V → K

structure CGState (K V : Type) where
  x : V
  r : V
  p : V
  /-- `residual_norm_squared_previous` (`None` before the first iteration) -/
  rrPrev : Option K

/-- one callback record: (solution, residual, iteration_number) -/
structure CGTrace (V : Type) where
  x : V
  r : V
  k : Nat

inductive CGResult (K V : Type) where
  /-- returned solution, why the loop ended, the callback trace (oldest first) -/
  | ok (x : V) (reason : String) (trace : List (CGTrace V))
  /-- a division by zero was executed in iteration `k` (the real code would return NaNs) -/
  | nan (k : Nat) (trace : List (CGTrace V))

variable {K V : Type} [Div K] [OfNat K 0] [DecidableEq K] [LT K] [DecidableLT K]

/-- initial state: `solution = initial_value or right_hand_side`, `residual = b − H(solution)`, `p = residual` -/
def cgInit (ops : VecOps K V) (H : V → V) (b : V) (x0 : Option V) : CGState K V :=
  let x := match x0 with | some v => v | none => b
  let r := ops.sub b (H x)
  { x := x, r := r, p := r, rrPrev := none }

/-- the loop body with the remaining budget as fuel; `tol2 = none` encodes `tolerance == 0` -/
def cgLoop (ops : VecOps K V) (H : V → V) (tol2 : Option K) :
    Nat → Nat → CGState K V → List (CGTrace V) → CGResult K V
  | 0, _, st, tr => .ok st.x "budget" tr.reverse
  | fuel + 1, k, st, tr =>
    let rr := ops.dot st.r st.r
    if rr = 0 then .ok st.x "zero-residual" tr.reverse
    else if (match tol2 with | some t => decide (rr < t) | none => false) then .ok st.x "tolerance" tr.reverse
    else
      -- conjugate direction update (not in the first iteration)
      let pOpt : Option V := match st.rrPrev with
        | none => some st.p
        | some prev => if prev = 0 then none else some (ops.add st.r (ops.smul (rr / prev) st.p))
      match pOpt with
      | none => .nan k tr.reverse
      | some p =>
        let hp := H p
        let php := ops.dot p hp
        if php = 0 then .nan k tr.reverse
        else
          let α := rr / php
          let x' := ops.add st.x (ops.smul α p)
          let r' := ops.sub st.r (ops.smul α hp)
          cgLoop ops H tol2 fuel (k + 1) { x := x', r := r', p := p, rrPrev := some rr }
            ({ x := x', r := r', k := k } :: tr)

/-- `cg(operator, right_hand_side, initial_value, max_iterations, tolerance)` -/
def cgRun (ops : VecOps K V) (H : V → V) (b : V) (x0 : Option V) (maxIter : Nat) (tol2 : Option K) :
    CGResult K V :=
  let st := cgInit ops H b x0
  if ops.dot st.r st.r = 0 then .ok st.x "zero-initial-residual" []
  else cgLoop ops H tol2 maxIter 0 st []

end M
