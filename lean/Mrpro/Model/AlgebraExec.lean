import Mrpro.Model.Algebra
import Mrpro.Model.Ops
/-! Efficient (array-based, every node evaluated once) evaluators for the operator algebra.
These are what the driver runs; `Mrpro/Props/C04.lean` proves that they refine the function-based
model (`Obj.fwd`, `Obj.adj`, `den`, `denH`) the theorems are about. -/
namespace M
variable {K : Type} [OfNat K 0] [Mul K] [Add K] [Conj K]

def toFn (a : Array K) : Nat → K := fun i => a.getD i 0
def ofFnN (n : Nat) (f : Nat → K) : Array K := Array.ofFn (n := n) (fun i => f i.val)

namespace Obj
mutual
def fwdA (n : Nat) (Lf La : Nat → Array K → Array K) : Obj K → Array K → Array K
  | leaf i, x => Lf i x
  | identity, x => x
  | zeroOp, _ => ofFnN n (fun _ => 0)
  | composition a b, x => fwdA n Lf La a (fwdA n Lf La b x)
  | sum ops, x => fwdSumA n Lf La ops x
  | prodRight a c, x => let y := fwdA n Lf La a x; ofFnN n (fun i => c.at i * toFn y i)
  | prodLeft a c, x => fwdA n Lf La a (ofFnN n (fun i => c.at i * toFn x i))
  | adjointOf a, x => adjA n Lf La a x
def fwdSumA (n : Nat) (Lf La : Nat → Array K → Array K) : List (Obj K) → Array K → Array K
  | [], _ => ofFnN n (fun _ => 0)
  | o :: os, x => let y := fwdA n Lf La o x; let z := fwdSumA n Lf La os x; ofFnN n (fun i => toFn y i + toFn z i)
def adjA (n : Nat) (Lf La : Nat → Array K → Array K) : Obj K → Array K → Array K
  | leaf i, y => La i y
  | identity, y => y
  | zeroOp, _ => ofFnN n (fun _ => 0)
  | composition a b, y => adjA n Lf La b (adjA n Lf La a y)
  | sum ops, y => adjSumA n Lf La ops y
  | prodRight a c, y => adjA n Lf La a (ofFnN n (fun i => toFn y i * M.conj (c.at i)))
  | prodLeft a c, y => let z := adjA n Lf La a y; ofFnN n (fun i => toFn z i * M.conj (c.at i))
  | adjointOf a, y => fwdA n Lf La a y
def adjSumA (n : Nat) (Lf La : Nat → Array K → Array K) : List (Obj K) → Array K → Array K
  | [], _ => ofFnN n (fun _ => 0)
  | o :: os, y => let u := adjA n Lf La o y; let v := adjSumA n Lf La os y; ofFnN n (fun i => toFn u i + toFn v i)
end
end Obj

mutual
def denA (n : Nat) (Lf La : Nat → Array K → Array K) : Expr K → Array K → Array K
  | .leaf i, x => Lf i x
  | .ident, x => x
  | .zero, _ => ofFnN n (fun _ => 0)
  | .comp a b, x => denA n Lf La a (denA n Lf La b x)
  | .add a b, x => let u := denA n Lf La a x; let v := denA n Lf La b x; ofFnN n (fun i => toFn u i + toFn v i)
  | .addT a d, x => let u := denA n Lf La a x; ofFnN n (fun i => toFn u i + d.at i * toFn x i)
  | .rmul c a, x => let u := denA n Lf La a x; ofFnN n (fun i => c.at i * toFn u i)
  | .mul a c, x => denA n Lf La a (ofFnN n (fun i => c.at i * toFn x i))
  | .adj a, x => denHA n Lf La a x
  | .gram a, x => denHA n Lf La a (denA n Lf La a x)
def denHA (n : Nat) (Lf La : Nat → Array K → Array K) : Expr K → Array K → Array K
  | .leaf i, y => La i y
  | .ident, y => y
  | .zero, _ => ofFnN n (fun _ => 0)
  | .comp a b, y => denHA n Lf La b (denHA n Lf La a y)
  | .add a b, y => let u := denHA n Lf La a y; let v := denHA n Lf La b y; ofFnN n (fun i => toFn u i + toFn v i)
  | .addT a d, y => let u := denHA n Lf La a y; ofFnN n (fun i => toFn u i + M.conj (d.at i) * toFn y i)
  | .rmul c a, y => denHA n Lf La a (ofFnN n (fun i => M.conj (c.at i) * toFn y i))
  | .mul a c, y => let u := denHA n Lf La a y; ofFnN n (fun i => M.conj (c.at i) * toFn u i)
  | .adj a, y => denA n Lf La a y
  | .gram a, y => denHA n Lf La a (denA n Lf La a y)
end

/-- dense-matrix leaves on arrays (`A` row-major `n×n`) -/
def matLeafFwd (n : Nat) (A : Nat → K) (x : Array K) : Array K := ofFnN n (matVec n A (toFn x))
def matLeafAdj (n : Nat) (A : Nat → K) (y : Array K) : Array K := ofFnN n (matVecH n n A (toFn y))

end M
