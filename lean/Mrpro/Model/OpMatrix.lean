import Mrpro.Model.Algebra
/-! Operator matrices: the Python class `LinearOperatorMatrix` (a 2-D grid of `LinearOperator`s acting
on tuples of vectors), on top of the deep embedding of `Mrpro/Model/Algebra.lean`.

* `OpMat`  — the grid of `Obj`s the class stores (`_operators`), every constructor call goes through
             `OpMat.ofRows` (= `__init__`, which rejects ragged rows);
* the operations mirror the overloads line by line; entries are combined through the *element*
  overloads `Obj.matmul / Obj.plus / Obj.plusT / Obj.rmul / Obj.mul / Obj.H`, so all their shortcuts apply;
  everything the Python rejects (`ValueError`, `IndexError`, `TypeError`, `NotImplementedError`) is `none`;
* `MExpr`  — user-level programs over operator matrices, `buildM` evaluates them with the operations;
* `shapeM` — the shape such a program has (or `none` when some step is rejected);
* `denM / denHM` — the shortcut-free specification: plain block-matrix algebra on `den / denH` of the
  entries, as functions from lists of vectors to lists of vectors.

Naming follows the behaviour, not the (swapped) docstrings of the Python: `&` appends *rows*
(`vstack`), `|` appends *columns* (`hstack`). -/
namespace M
variable {K : Type}

/-! ### python helpers -/

/-- `functools.reduce(f, l)` without start element: left fold starting from the first element,
`TypeError` on an empty sequence -/
def reduce1 {α : Type} (f : α → α → α) : List α → Option α
  | [] => none
  | a :: l => some (l.foldl f a)

/-- a comprehension whose body may raise -/
def mapOpt {α β : Type} (f : α → Option β) : List α → Option (List β)
  | [] => some []
  | a :: l =>
    match f a, mapOpt f l with
    | some b, some bs => some (b :: bs)
    | _, _ => none

/-- `[f(a, b) for a, b in zip(l, m, strict=True)]` -/
def zipWithS {α β γ : Type} (f : α → β → γ) (l : List α) (m : List β) : Option (List γ) :=
  if l.length = m.length then some (List.zipWith f l m) else none

/-- all rows have the length of the first one -/
def rect {α : Type} : List (List α) → Bool
  | [] => true
  | r :: rs => (r :: rs).all (fun r' => r'.length == r.length)

/-- the columns of a list of rows (total version of `zip(*rows)`) -/
def columns {α : Type} : List (List α) → List (List α)
  | [] => []
  | r :: rs => (List.range r.length).map (fun j => (r :: rs).filterMap (fun r' => r'[j]?))

/-- `zip(*rows, strict=True)` -/
def zipStar {α : Type} (rs : List (List α)) : Option (List (List α)) :=
  if rect rs then some (columns rs) else none

/-- `l[i]` for a python `int` (negative indices count from the end), `IndexError` → `none` -/
def pyIndex {α : Type} (l : List α) (i : Int) : Option α :=
  if 0 ≤ i then l[i.toNat]?
  else if -i ≤ (l.length : Int) then l[l.length - (-i).toNat]? else none

/-- the index kinds of `__getitem__` modelled here: `int`, `Sequence[int]`, `Ellipsis` / `:`,
and `start:stop` (step `None`) -/
inductive Idx where
  | int (i : Int)
  | seq (l : List Int)
  | all
  | slice (start stop : Option Int)

/-- `_to_numeric_index(idx, length)`: the python indices (still possibly negative) or `IndexError`
(`ValueError` for an empty sequence: `min(())`) -/
def Idx.numeric (len : Nat) : Idx → Option (List Int)
  | .int i => if i < -(len : Int) ∨ i ≥ (len : Int) then none else some [i]
  | .seq l =>
    match l with
    | [] => none                                         -- `min(idx)` of an empty sequence
    | _ =>                                                -- `min(idx) < -length or max(idx) >= length`
      if l.all (fun i => decide (-(len : Int) ≤ i ∧ i < (len : Int))) then some l else none
  | .all => some ((List.range len).map Int.ofNat)        -- `range(length)`
  | .slice start stop =>
    let badStart := match start with
      | none => false | some s => decide (s < -(len : Int) ∨ s ≥ (len : Int))
    let badStop := match stop with
      | none => false | some s => decide (s < -(len : Int) ∨ s > (len : Int))
    if badStart || badStop then none else
    -- `range(*slice(start, stop).indices(length))`; after the check no clamping is left to do
    let s : Int := match start with | none => 0 | some s => if s < 0 then s + len else s
    let e : Int := match stop with | none => len | some s => if s < 0 then s + len else s
    some ((List.range (e - s).toNat).map (fun (k : Nat) => s + Int.ofNat k))

/-- a checked python index as a position -/
def normIdx (len : Nat) (i : Int) : Nat := if i < 0 then (i + len).toNat else i.toNat

/-- the selected positions as natural numbers -/
def Idx.resolve (len : Nat) (ix : Idx) : Option (List Nat) :=
  (ix.numeric len).map (fun l => l.map (normIdx len))

/-! ### the class -/

/-- `LinearOperatorMatrix._operators` -/
structure OpMat (K : Type) where
  rows : List (List (Obj K))

namespace OpMat

def nrows (A : OpMat K) : Nat := A.rows.length
/-- `len(operators[0]) if operators else 0` -/
def ncols (A : OpMat K) : Nat :=
  match A.rows with
  | [] => 0
  | r :: _ => r.length
/-- `.shape` -/
def shape (A : OpMat K) : Nat × Nat := (A.nrows, A.ncols)

/-- class invariant established by `__init__` -/
def WF (A : OpMat K) : Prop := ∀ r ∈ A.rows, r.length = A.ncols

/-- entry `(i, j)` (`ZeroOp` outside the grid; only used inside it) -/
def get (A : OpMat K) (i j : Nat) : Obj K := (A.rows.getD i []).getD j .zeroOp

/-- `__init__`: `ValueError` unless all rows have the same length -/
def ofRows (rs : List (List (Obj K))) : Option (OpMat K) :=
  if rect rs then some ⟨rs⟩ else none

end OpMat

namespace OpMat
variable [DecidableEq K] [OfNat K 0] [OfNat K 1] [Mul K] [Add K] [Conj K]

/-- `forward(*x)`: `ValueError` unless `len(x) == shape[1]`; row `i` is
`reduce(operator.add, (op(xi) for op, xi in zip(row, x, strict=True)))` — left fold, no start element,
so a matrix with rows but no columns raises `TypeError` -/
def fwd (Lf La : Nat → (Nat → K) → (Nat → K)) (A : OpMat K) (xs : List (Nat → K)) :
    Option (List (Nat → K)) :=
  if xs.length ≠ A.ncols then none else
  mapOpt (fun row =>
    (zipWithS (fun o x => Obj.fwd Lf La o x) row xs).bind
      (reduce1 (fun u v => fun t => u t + v t))) A.rows

/-- `.H`: `[[op.H for op in row] for row in zip(*self._operators, strict=True)]` -/
def H (A : OpMat K) : Option (OpMat K) :=
  (zipStar A.rows).bind fun cols => ofRows (cols.map (fun col => col.map Obj.H))

/-- `adjoint(*x)` is `self.H(*x)` -/
def adj (Lf La : Nat → (Nat → K) → (Nat → K)) (A : OpMat K) (ys : List (Nat → K)) :
    Option (List (Nat → K)) :=
  A.H.bind fun B => B.fwd Lf La ys

/-- `__matmul__` with a single `LinearOperator`: `[[op @ other for op in row] for row in rows]` -/
def matmulOp (A : OpMat K) (o : Obj K) : Option (OpMat K) :=
  ofRows (A.rows.map (fun row => row.map (fun op => Obj.matmul op o)))

/-- `__matmul__` with a matrix: entry `(i, j)` is `reduce(operator.add, [s @ o for s, o in zip(row_i, col_j)])`,
the left fold of `LinearOperator.__add__` (`Obj.plus`: `ZeroOp` neutral, sums flattened) without start
element.  An empty inner dimension never reaches `reduce`: then `other` is the `0×0` matrix and has no column. -/
def matmul (A B : OpMat K) : Option (OpMat K) :=
  if A.ncols ≠ B.nrows then none else
  (zipStar B.rows).bind fun cols =>
  (mapOpt (fun row =>
      mapOpt (fun col => (zipWithS Obj.matmul row col).bind (reduce1 Obj.plus)) cols) A.rows).bind ofRows

/-- `__add__` with a matrix: entrywise `s + o` (non-strict zips after the shape check) -/
def add (A B : OpMat K) : Option (OpMat K) :=
  if A.shape ≠ B.shape then none else
  ofRows (List.zipWith (fun ra rb => List.zipWith Obj.plus ra rb) A.rows B.rows)

/-- the diagonal update of `__add__` with an operator / a tensor -/
def onDiag (f : Obj K → Obj K) (A : OpMat K) : Option (OpMat K) :=
  if A.nrows ≠ A.ncols then none else      -- `NotImplementedError`
  ofRows (A.rows.mapIdx (fun i row => row.mapIdx (fun j op => if i = j then f op else op)))

/-- `__add__` with a `LinearOperator`: `op + other` on the diagonal (square matrices only) -/
def addOp (A : OpMat K) (o : Obj K) : Option (OpMat K) := onDiag (fun op => Obj.plus op o) A

/-- `__add__` / `__radd__` with a `torch.Tensor` (python scalars are rejected: `TypeError`) -/
def addT (A : OpMat K) (d : Scal K) : Option (OpMat K) :=
  match d with
  | .py _ => none
  | d => onDiag (fun op => Obj.plusT op d) A

/-- `__mul__` with a sequence: column `j` is multiplied by `other[j]` (`op * o`) -/
def mulSeq (A : OpMat K) (cs : List (Scal K)) : Option (OpMat K) :=
  if cs.length ≠ A.ncols then none else
  (mapOpt (fun row => zipWithS Obj.mul row cs) A.rows).bind ofRows
/-- `__mul__` with a tensor or python scalar: `(other,) * shape[1]` -/
def mul (A : OpMat K) (c : Scal K) : Option (OpMat K) := mulSeq A (List.replicate A.ncols c)

/-- `__rmul__` with a sequence: row `i` is multiplied by `other[i]` (`o * op`) -/
def rmulSeq (cs : List (Scal K)) (A : OpMat K) : Option (OpMat K) :=
  if cs.length ≠ A.nrows then none else
  (zipWithS (fun row c => row.map (fun op => Obj.rmul c op)) A.rows cs).bind ofRows
/-- `__rmul__` with a tensor or python scalar: `(other,) * shape[0]` -/
def rmul (c : Scal K) (A : OpMat K) : Option (OpMat K) := rmulSeq (List.replicate A.nrows c) A

/-- `__getitem__`: a single `LinearOperator` if exactly one row and one column are selected -/
def getitem (A : OpMat K) (ri ci : Idx) : Option (Sum (Obj K) (OpMat K)) :=
  (ri.numeric A.nrows).bind fun rn =>
  (ci.numeric A.ncols).bind fun cn =>
  (mapOpt (pyIndex A.rows) rn).bind fun rws =>
  (mapOpt (fun row => mapOpt (pyIndex row) cn) rws).bind fun sl =>
  if rn.length = 1 ∧ cn.length = 1 then
    match sl with
    | (o :: _) :: _ => some (.inl o)      -- `sliced_operators[0][0]`
    | _ => none
  else (ofRows sl).map .inr
/-- `__getitem__` when the result is a matrix -/
def getitemM (A : OpMat K) (ri ci : Idx) : Option (OpMat K) :=
  match A.getitem ri ci with
  | some (.inr B) => some B
  | _ => none
/-- `__getitem__` when the result is a single operator -/
def getitemO (A : OpMat K) (ri ci : Idx) : Option (Obj K) :=
  match A.getitem ri ci with
  | some (.inl o) => some o
  | _ => none

/-- `A & B` (`__and__` with a matrix): rows appended -/
def vstack (A B : OpMat K) : Option (OpMat K) :=
  if A.ncols ≠ B.ncols then none else ofRows (A.rows ++ B.rows)
/-- `A & op` -/
def vstackOp (A : OpMat K) (o : Obj K) : Option (OpMat K) :=
  if A.ncols > 1 then none else ofRows (A.rows ++ [[o]])
/-- `op & A` (`__rand__`) -/
def opVstack (o : Obj K) (A : OpMat K) : Option (OpMat K) :=
  if A.ncols > 1 then none else ofRows ([o] :: A.rows)
/-- `A | B` (`__or__` with a matrix): columns appended -/
def hstack (A B : OpMat K) : Option (OpMat K) :=
  if A.nrows ≠ B.nrows then none else
  (zipWithS (fun ra rb => ra ++ rb) A.rows B.rows).bind ofRows
/-- `A | op`: `[[*self._operators[0], other]]` -/
def hstackOp (A : OpMat K) (o : Obj K) : Option (OpMat K) :=
  if A.nrows > 1 then none else
  match A.rows with
  | [] => none                              -- `IndexError`
  | r :: _ => ofRows [r ++ [o]]
/-- `op | A` (`__ror__`) -/
def opHstack (o : Obj K) (A : OpMat K) : Option (OpMat K) :=
  if A.nrows > 1 then none else
  match A.rows with
  | [] => none
  | r :: _ => ofRows [o :: r]

/-- `from_diagonal(*operators)`: `ZeroOp(False)` off the diagonal -/
def fromDiagonal (ops : List (Obj K)) : Option (OpMat K) :=
  ofRows (ops.mapIdx (fun i op => (List.range ops.length).map (fun j => if i = j then op else .zeroOp)))

end OpMat

/-! ### programs -/

inductive MExpr (K : Type) where
  /-- `LinearOperatorMatrix(rows)` (also `a & b`, `a | b` of two operators) -/
  | lit (rows : List (List (Expr K)))
  | fromDiag (ops : List (Expr K))
  | matmul (a b : MExpr K)
  | matmulOp (a : MExpr K) (o : Expr K)
  | add (a b : MExpr K)
  | addOp (a : MExpr K) (o : Expr K)
  /-- `a + tensor`, `tensor + a` -/
  | addT (a : MExpr K) (d : Scal K)
  | rmul (c : Scal K) (a : MExpr K)
  | rmulSeq (cs : List (Scal K)) (a : MExpr K)
  | mul (a : MExpr K) (c : Scal K)
  | mulSeq (a : MExpr K) (cs : List (Scal K))
  | H (a : MExpr K)
  /-- `a[ri, ci]` where the result is a matrix (`a[ri]` is `a[ri, :]`) -/
  | getitem (a : MExpr K) (ri ci : Idx)
  | vstack (a b : MExpr K)
  | vstackOp (a : MExpr K) (o : Expr K)
  | opVstack (o : Expr K) (a : MExpr K)
  | hstack (a b : MExpr K)
  | hstackOp (a : MExpr K) (o : Expr K)
  | opHstack (o : Expr K) (a : MExpr K)

section
variable [DecidableEq K] [OfNat K 0] [OfNat K 1] [Mul K] [Add K] [Conj K]

/-- the object the library builds -/
def buildM : MExpr K → Option (OpMat K)
  | .lit rows => OpMat.ofRows (rows.map (fun row => row.map build))
  | .fromDiag ops => OpMat.fromDiagonal (ops.map build)
  | .matmul a b => (buildM a).bind fun A => (buildM b).bind fun B => A.matmul B
  | .matmulOp a o => (buildM a).bind fun A => A.matmulOp (build o)
  | .add a b => (buildM a).bind fun A => (buildM b).bind fun B => A.add B
  | .addOp a o => (buildM a).bind fun A => A.addOp (build o)
  | .addT a d => (buildM a).bind fun A => A.addT d
  | .rmul c a => (buildM a).bind fun A => A.rmul c
  | .rmulSeq cs a => (buildM a).bind fun A => A.rmulSeq cs
  | .mul a c => (buildM a).bind fun A => A.mul c
  | .mulSeq a cs => (buildM a).bind fun A => A.mulSeq cs
  | .H a => (buildM a).bind fun A => A.H
  | .getitem a ri ci => (buildM a).bind fun A => A.getitemM ri ci
  | .vstack a b => (buildM a).bind fun A => (buildM b).bind fun B => A.vstack B
  | .vstackOp a o => (buildM a).bind fun A => A.vstackOp (build o)
  | .opVstack o a => (buildM a).bind fun A => A.opVstack (build o)
  | .hstack a b => (buildM a).bind fun A => (buildM b).bind fun B => A.hstack B
  | .hstackOp a o => (buildM a).bind fun A => A.hstackOp (build o)
  | .opHstack o a => (buildM a).bind fun A => A.opHstack (build o)

/-- a single entry selected with `a[ri, ci]` -/
def buildEntry (a : MExpr K) (ri ci : Idx) : Option (Obj K) :=
  (buildM a).bind fun A => A.getitemO ri ci
end

/-! ### shapes -/

/-- the shape of a grid with `r` rows of length `c` (no rows: no columns) -/
def mkShape (r c : Nat) : Nat × Nat := (r, if r = 0 then 0 else c)

/-- shape of the result, `none` iff some step is rejected (or `getitem` leaves the matrix world) -/
def shapeM : MExpr K → Option (Nat × Nat)
  | .lit rows => if rect rows then some (rows.length, match rows with | [] => 0 | r :: _ => r.length) else none
  | .fromDiag ops => some (ops.length, ops.length)
  | .matmul a b =>
    match shapeM a, shapeM b with
    | some (r, c), some (r', c') => if c = r' then some (r, c') else none
    | _, _ => none
  | .matmulOp a _ => shapeM a
  | .add a b =>
    match shapeM a, shapeM b with
    | some s, some s' => if s = s' then some s else none
    | _, _ => none
  | .addOp a _ => (shapeM a).bind fun s => if s.1 = s.2 then some s else none
  | .addT a d =>
    match d with
    | .py _ => none
    | _ => (shapeM a).bind fun s => if s.1 = s.2 then some s else none
  | .rmul _ a => shapeM a
  | .rmulSeq cs a => (shapeM a).bind fun s => if cs.length = s.1 then some s else none
  | .mul a _ => shapeM a
  | .mulSeq a cs => (shapeM a).bind fun s => if cs.length = s.2 then some s else none
  | .H a => (shapeM a).map fun s => mkShape s.2 s.1
  | .getitem a ri ci =>
    (shapeM a).bind fun s =>
    (ri.resolve s.1).bind fun rn =>
    (ci.resolve s.2).bind fun cn =>
    if rn.length = 1 ∧ cn.length = 1 then none else some (mkShape rn.length cn.length)
  | .vstack a b =>
    match shapeM a, shapeM b with
    | some (r, c), some (r', c') => if c = c' then some (r + r', c) else none
    | _, _ => none
  | .vstackOp a _ => (shapeM a).bind fun s => if s.1 = 0 ∨ s.2 = 1 then some (s.1 + 1, 1) else none
  | .opVstack _ a => (shapeM a).bind fun s => if s.1 = 0 ∨ s.2 = 1 then some (s.1 + 1, 1) else none
  | .hstack a b =>
    match shapeM a, shapeM b with
    | some (r, c), some (r', c') => if r = r' then some (r, c + c') else none
    | _, _ => none
  | .hstackOp a _ => (shapeM a).bind fun s => if s.1 = 1 then some (1, s.2 + 1) else none
  | .opHstack _ a => (shapeM a).bind fun s => if s.1 = 1 then some (1, s.2 + 1) else none

def rowsM (e : MExpr K) : Nat := ((shapeM e).map (·.1)).getD 0
def colsM (e : MExpr K) : Nat := ((shapeM e).map (·.2)).getD 0

/-! ### specification: block-matrix algebra on lists of vectors -/
section
variable [OfNat K 0] [Mul K] [Add K] [Conj K]

def vzero : Nat → K := fun _ => 0
def vadd (u v : Nat → K) : Nat → K := fun t => u t + v t
/-- `Σ` of a list of vectors -/
def vsum (l : List (Nat → K)) : Nat → K := l.foldr vadd vzero
/-- `c * x` and `conj(c) * x`, element-wise -/
def vscale (c : Scal K) (x : Nat → K) : Nat → K := fun t => c.at t * x t
def vscaleH (c : Scal K) (x : Nat → K) : Nat → K := fun t => M.conj (c.at t) * x t

/-- the selected blocks `[l[i] for i in idx]` -/
def selectV (idx : List Nat) (l : List (Nat → K)) : List (Nat → K) := idx.map (fun i => l.getD i vzero)
/-- transpose of a selection: block `j` of the result is the sum of the `x_k` with `idx[k] = j` -/
def scatterV (n : Nat) (idx : List Nat) (xs : List (Nat → K)) : List (Nat → K) :=
  (List.range n).map (fun j => vsum (List.zipWith (fun k x => if k = j then x else vzero) idx xs))

/-- the resolved index list of a `getitem` (empty if rejected) -/
def Idx.sel (len : Nat) (ix : Idx) : List Nat := (ix.resolve len).getD []

mutual
/-- `out_i = Σ_j A_ij x_j` for the block matrix the program denotes -/
def denM (Lf La : Nat → (Nat → K) → (Nat → K)) : MExpr K → List (Nat → K) → List (Nat → K)
  | .lit rows, xs => rows.map (fun row => vsum (List.zipWith (fun e x => den Lf La e x) row xs))
  | .fromDiag ops, xs => List.zipWith (fun e x => den Lf La e x) ops xs
  | .matmul a b, xs => denM Lf La a (denM Lf La b xs)
  | .matmulOp a o, xs => denM Lf La a (xs.map (den Lf La o))
  | .add a b, xs => List.zipWith vadd (denM Lf La a xs) (denM Lf La b xs)
  | .addOp a o, xs => List.zipWith vadd (denM Lf La a xs) (xs.map (den Lf La o))
  | .addT a d, xs => List.zipWith vadd (denM Lf La a xs) (xs.map (vscale d))
  | .rmul c a, xs => (denM Lf La a xs).map (vscale c)
  | .rmulSeq cs a, xs => List.zipWith vscale cs (denM Lf La a xs)
  | .mul a c, xs => denM Lf La a (xs.map (vscale c))
  | .mulSeq a cs, xs => denM Lf La a (List.zipWith vscale cs xs)
  -- `.H` of a matrix with rows but no columns is the empty matrix (`zip(*rows)` forgets the rows)
  | .H a, xs => if colsM a = 0 then [] else denHM Lf La a xs
  | .getitem a ri ci, xs =>
      selectV (ri.sel (rowsM a)) (denM Lf La a (scatterV (colsM a) (ci.sel (colsM a)) xs))
  | .vstack a b, xs => denM Lf La a xs ++ denM Lf La b xs
  | .vstackOp a o, xs => denM Lf La a (xs.take (colsM a)) ++ [den Lf La o (xs.headD vzero)]
  | .opVstack o a, xs => den Lf La o (xs.headD vzero) :: denM Lf La a (xs.take (colsM a))
  | .hstack a b, xs =>
      List.zipWith vadd (denM Lf La a (xs.take (colsM a))) (denM Lf La b (xs.drop (colsM a)))
  | .hstackOp a o, xs =>
      [vadd ((denM Lf La a (xs.take (colsM a))).headD vzero) (den Lf La o (xs.getD (colsM a) vzero))]
  | .opHstack o a, xs =>
      [vadd (den Lf La o (xs.headD vzero)) ((denM Lf La a (xs.drop 1)).headD vzero)]
/-- the adjoint block matrix: `out_j = Σ_i A_ijᴴ y_i` -/
def denHM (Lf La : Nat → (Nat → K) → (Nat → K)) : MExpr K → List (Nat → K) → List (Nat → K)
  | .lit rows, ys => (columns rows).map (fun col => vsum (List.zipWith (fun e y => denH Lf La e y) col ys))
  | .fromDiag ops, ys => List.zipWith (fun e y => denH Lf La e y) ops ys
  | .matmul a b, ys => denHM Lf La b (denHM Lf La a ys)
  | .matmulOp a o, ys => (denHM Lf La a ys).map (denH Lf La o)
  | .add a b, ys => List.zipWith vadd (denHM Lf La a ys) (denHM Lf La b ys)
  | .addOp a o, ys => List.zipWith vadd (denHM Lf La a ys) (ys.map (denH Lf La o))
  | .addT a d, ys => List.zipWith vadd (denHM Lf La a ys) (ys.map (vscaleH d))
  | .rmul c a, ys => denHM Lf La a (ys.map (vscaleH c))
  | .rmulSeq cs a, ys => denHM Lf La a (List.zipWith vscaleH cs ys)
  | .mul a c, ys => (denHM Lf La a ys).map (vscaleH c)
  | .mulSeq a cs, ys => List.zipWith vscaleH cs (denHM Lf La a ys)
  | .H a, ys => if colsM a = 0 then [] else denM Lf La a ys
  -- no row selected: the result is the empty matrix, it has no columns either
  | .getitem a ri ci, ys =>
      if (ri.sel (rowsM a)).isEmpty then [] else
      selectV (ci.sel (colsM a)) (denHM Lf La a (scatterV (rowsM a) (ri.sel (rowsM a)) ys))
  | .vstack a b, ys =>
      List.zipWith vadd (denHM Lf La a (ys.take (rowsM a))) (denHM Lf La b (ys.drop (rowsM a)))
  | .vstackOp a o, ys =>
      [vadd ((denHM Lf La a (ys.take (rowsM a))).headD vzero) (denH Lf La o (ys.getD (rowsM a) vzero))]
  | .opVstack o a, ys =>
      [vadd (denH Lf La o (ys.headD vzero)) ((denHM Lf La a (ys.drop 1)).headD vzero)]
  | .hstack a b, ys => denHM Lf La a ys ++ denHM Lf La b ys
  | .hstackOp a o, ys => denHM Lf La a ys ++ [denH Lf La o (ys.headD vzero)]
  | .opHstack o a, ys => denH Lf La o (ys.headD vzero) :: denHM Lf La a ys
end

/-- a single entry `a[i, j]` of the block matrix: `x ↦ (A (0,…,x,…,0))_i` with `x` in block `j` -/
def denEntry (Lf La : Nat → (Nat → K) → (Nat → K)) (a : MExpr K) (i j : Nat) (x : Nat → K) : Nat → K :=
  (denM Lf La a ((List.range (colsM a)).map (fun k => if k = j then x else vzero))).getD i vzero
def denHEntry (Lf La : Nat → (Nat → K) → (Nat → K)) (a : MExpr K) (i j : Nat) (y : Nat → K) : Nat → K :=
  (denHM Lf La a ((List.range (rowsM a)).map (fun k => if k = i then y else vzero))).getD j vzero
end

end M
