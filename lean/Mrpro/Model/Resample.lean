import Mrpro.Model.OpsND
/-! Resampling operators: the slice-profile support search of `SliceProjectionOp`, its row
normalisation, and the interpolation rule `GridSamplingOp` delegates to (`grid_sample`,
bilinear / nearest, zeros padding) as the reference the operator output is compared with. -/
namespace M

/-! ### `_find_width` -/

/-- prefix sums `[p₀, p₀+p₁, …]` -/
def prefixSums : List Rat → List Rat
  | [] => []
  | p :: ps => p :: (prefixSums ps).map (· + p)

/-- `np.argmax(mask)`: index of the first `true`, 0 if there is none -/
def argmaxFirst (l : List Bool) : Nat := match l.idxOf? true with | some i => i | none => 0

/-- `_find_width` on a test grid `grid` with profile values `prof` (same length):
`cdf = cumsum(profile)/sum`, `left = grid[argmax(cdf > 0.01)]`, `right = grid[argmax(cdf > 0.99)]`,
result `int(max(|left|, |right|)) + 1` -/
def findWidthOn (grid prof : List Rat) : Nat :=
  let total := prof.foldl (· + ·) 0
  let cdf := (prefixSums prof).map (· / total)
  let left := grid.getD (argmaxFirst (cdf.map (fun c => decide (c > 1/100)))) 0
  let right := grid.getD (argmaxFirst (cdf.map (fun c => decide (c > 99/100)))) 0
  let a := if left < 0 then -left else left
  let b := if right < 0 then -right else right
  (max a b).floor.toNat + 1

/-- the test grid of the pinned commit: `torch.arange(-m, m, m) = [-m, 0]` -/
def gridShipped (m : Nat) : List Rat := [-(m : Rat), 0]
/-- half-voxel test grid over the whole volume: `linspace(-m, m, 4m+1)` -/
def gridFine (m : Nat) : List Rat := (List.range (4 * m + 1)).map (fun (i : Nat) => (i : Rat) / 2 - (m : Rat))

/-- row normalisation: `matrix *= fraction_in_view / (rowsum + 1e-6)` -/
def rowNorm (fraction rowsum eps w : Rat) : Rat := w * (fraction / (rowsum + eps))

/-! ### interpolation along one axis (`grid_sample`, zeros padding) -/

/-- un-normalise a grid coordinate `x ∈ [-1, 1]` to a pixel coordinate on an axis of `n` pixels -/
def unnorm (alignCorners : Bool) (n : Nat) (x : Rat) : Rat :=
  if alignCorners then (x + 1) / 2 * ((n : Rat) - 1) else ((x + 1) * n - 1) / 2

def pix (n : Nat) (img : Int → Rat) (i : Int) : Rat := if 0 ≤ i ∧ i < n then img i else 0

/-- linear interpolation at pixel coordinate `c` with zero padding -/
def lerpAt (n : Nat) (img : Int → Rat) (c : Rat) : Rat :=
  let i0 := c.floor
  let w := c - i0
  (1 - w) * pix n img i0 + w * pix n img (i0 + 1)

/-- nearest neighbour (`nearbyint`: ties to even) -/
def nearestAt (n : Nat) (img : Int → Rat) (c : Rat) : Rat := pix n img (roundHalfEven c)

/-- separable interpolation of an N-D image (shape `shape`, row-major `img`) at normalised
coordinates `coords` given in `grid_sample` order (last coordinate = first axis … i.e. (x, y[, z])) -/
def interpND (alignCorners nearest : Bool) (shape : List Nat) (img : Nat → Rat) (coordsXYZ : List Rat) : Rat :=
  let coords := coordsXYZ.reverse  -- now in axis order (z, y, x)
  -- recursively contract the leading axis
  let rec go (shape : List Nat) (coords : List Rat) (get : List Int → Rat) : Rat :=
    match shape, coords with
    | n :: srest, c :: crest =>
      let f : Int → Rat := fun i => go srest crest (fun idx => get (i :: idx))
      let cc := unnorm alignCorners n c
      if nearest then nearestAt n f cc else lerpAt n f cc
    | _, _ => get []
  go shape coords (fun idx =>
    if idx.length = shape.length ∧ (idx.zip shape).all (fun (i, s) => decide (0 ≤ i ∧ i < (s : Int)))
    then img (ravel shape (idx.map Int.toNat)) else 0)

/-! ### padding modes of `grid_sample` (coordinate maps applied after un-normalisation; `zeros` leaves the coordinate alone) -/

/-- `clip_coordinates`: clamp to `[0, n-1]` -/
def clipCoord (n : Nat) (c : Rat) : Rat := max 0 (min ((n : Rat) - 1) c)

/-- `reflect_coordinates(in, twice_low, twice_high)` -/
def reflectCoord (twiceLow twiceHigh : Int) (c : Rat) : Rat :=
  if twiceLow = twiceHigh then 0
  else
    let mn : Rat := (twiceLow : Rat) / 2
    let span : Rat := ((twiceHigh - twiceLow : Int) : Rat) / 2
    let a := if c - mn < 0 then -(c - mn) else c - mn
    let flips : Int := (a / span).floor
    let extra : Rat := a - (flips : Rat) * span        -- fmod(a, span) for a ≥ 0, span > 0
    if flips % 2 = 0 then extra + mn else span - extra + mn

/-- coordinate map of a padding mode: 0 = zeros, 1 = border, 2 = reflection (followed by the clip, as in torch) -/
def padCoord (mode : Nat) (alignCorners : Bool) (n : Nat) (c : Rat) : Rat :=
  match mode with
  | 1 => clipCoord n c
  | 2 => clipCoord n (if alignCorners then reflectCoord 0 (2 * ((n : Int) - 1)) c else reflectCoord (-1) (2 * (n : Int) - 1) c)
  | _ => c

/-- `interpND` with a padding mode -/
def interpNDP (mode : Nat) (alignCorners nearest : Bool) (shape : List Nat) (img : Nat → Rat) (coordsXYZ : List Rat) : Rat :=
  let coords := coordsXYZ.reverse
  let rec go (shape : List Nat) (coords : List Rat) (get : List Int → Rat) : Rat :=
    match shape, coords with
    | n :: srest, c :: crest =>
      let f : Int → Rat := fun i => go srest crest (fun idx => get (i :: idx))
      let cc := padCoord mode alignCorners n (unnorm alignCorners n c)
      if nearest then nearestAt n f cc else lerpAt n f cc
    | _, _ => get []
  go shape coords (fun idx =>
    if idx.length = shape.length ∧ (idx.zip shape).all (fun (i, s) => decide (0 ≤ i ∧ i < (s : Int)))
    then img (ravel shape (idx.map Int.toNat)) else 0)

/-! ### `SliceProjectionOp`: the fraction of a slice pixel's support that lies inside the volume (zero padding) -/
/-- sum of a list -/
def sumR (l : List Rat) : Rat := l.foldl (· + ·) 0
/-- the weights of the candidate points of one slice pixel that lie inside the volume (`mask`), the others replaced by 0 -/
def inView (w : List Rat) (mask : List Bool) : List Rat := (w.zip mask).map (fun p => if p.2 then p.1 else 0)
/-- `fraction_in_view`: the weights in view over all weights -/
def fractionInView (w : List Rat) (mask : List Bool) : Rat := sumR (inView w mask) / sumR w
/-- `fraction_in_view` AS SHIPPED (before the repair): the number of candidate points with positive weight in view over their number -/
def fractionInViewShipped (w : List Rat) (mask : List Bool) : Rat :=
  (((w.zip mask).filter (fun p => p.2 && decide (0 < p.1))).length : Rat) / (((w.filter (fun x => decide (0 < x))).length : Nat) : Rat)
/-- value of the slice pixel: the in-view weights, normalised to sum `frac` (`rowNorm` with their own sum), applied to the voxel values -/
def pixelValue (frac eps : Rat) (w : List Rat) (mask : List Bool) (v : List Rat) : Rat :=
  sumR (((inView w mask).zip v).map (fun p => rowNorm frac (sumR (inView w mask)) eps p.1 * p.2))

end M
