import Mrpro.Model.Vec
/-! Deep embedding of the operator algebra of `LinearOperator`:

* `Expr`  — what the user writes with `@ + * .H .gram` (and python scalars / tensors on either side);
* `Obj`   — the object graph the library builds, *including every shortcut* of the overloads
            (`IdentityOp` neutral for `@`, `ZeroOp` neutral for `+`, python scalars 0/1,
            `OperatorSum` flattening, `AdjointLinearOperator.H`, class-specific `gram` rules);
* `Obj.fwd/adj` — how each class evaluates `forward` / `adjoint` on a vector.

All operators act on vectors of one fixed length `n` (square leaves given as dense matrices). -/
namespace M
variable {K : Type}

/-- the three kinds of factors the overloads distinguish -/
inductive Scal (K : Type) where
  /-- python `int | float | complex`: gets the 0 / 1 shortcuts -/
  | py (c : K)
  /-- `torch.Tensor` with one element: no shortcuts, but `numel() == 1` in the gram rule -/
  | t1 (c : K)
  /-- `torch.Tensor` with more than one element: element-wise factor -/
  | tn (d : Nat → K)

def Scal.at : Scal K → Nat → K
  | .py c, _ => c | .t1 c, _ => c | .tn d, i => d i
def Scal.conj [Conj K] : Scal K → Scal K
  | .py c => .py (M.conj c) | .t1 c => .t1 (M.conj c) | .tn d => .tn (fun i => M.conj (d i))
/-- `conj(s) * s` as the code computes it (stays python scalar / tensor) -/
def Scal.normSq [Mul K] [Conj K] : Scal K → Scal K
  | .py c => .py (M.conj c * c) | .t1 c => .t1 (M.conj c * c) | .tn d => .tn (fun i => M.conj (d i) * d i)

inductive Expr (K : Type) where
  | leaf (i : Nat) | ident | zero
  | comp (a b : Expr K)            -- a @ b
  | add (a b : Expr K)             -- a + b
  | addT (a : Expr K) (d : Scal K) -- a + tensor   (= a + IdentityOp * tensor)
  | rmul (c : Scal K) (a : Expr K) -- c * a
  | mul (a : Expr K) (c : Scal K)  -- a * c
  | adj (a : Expr K)               -- a.H
  | gram (a : Expr K)              -- a.gram

inductive Obj (K : Type) where
  | leaf (i : Nat) | identity | zeroOp
  | composition (a b : Obj K)
  | sum (ops : List (Obj K))
  | prodRight (a : Obj K) (c : Scal K)   -- x ↦ c * A x
  | prodLeft (a : Obj K) (c : Scal K)    -- x ↦ A (c * x)
  | adjointOf (a : Obj K)

namespace Obj
variable [DecidableEq K] [OfNat K 0] [OfNat K 1] [Mul K] [Add K] [Conj K]

/-- `LinearOperator.__matmul__` -/
def matmul : Obj K → Obj K → Obj K
  | a, identity => a
  | identity, b => b
  | _, zeroOp => zeroOp            -- `A @ ZeroOp()` is the zero operator (the scalar 0 is not passed into `A`)
  | zeroOp, _ => zeroOp            -- `ZeroOp() @ A` likewise (its adjoint would pass the scalar 0 into `A.H`)
  | a, b => composition a b

/-- `OperatorSum.__init__`: nested sums are flattened -/
def mkSum (a b : Obj K) : Obj K :=
  let fl : Obj K → List (Obj K) := fun o => match o with | sum l => l | o => [o]
  sum (fl a ++ fl b)

/-- `LinearOperator.__add__` for two operators -/
def plus : Obj K → Obj K → Obj K
  | zeroOp, b => b
  | a, zeroOp => a
  | a, b => mkSum a b

/-- `__rmul__`: `c * A` -/
def rmul (c : Scal K) (a : Obj K) : Obj K :=
  match a with
  | zeroOp => zeroOp               -- `ZeroOp.__rmul__`: c * 0 = 0
  | a =>
    match c with
    | .py v => if v = 0 then zeroOp else if v = 1 then a else prodRight a c
    | _ => prodRight a c
/-- `__mul__`: `A * c` -/
def mul (a : Obj K) (c : Scal K) : Obj K :=
  match a with
  | zeroOp => zeroOp               -- `ZeroOp.__mul__`: 0 * c = 0
  | a =>
    match c with
    | .py v => if v = 0 then zeroOp else if v = 1 then a else prodLeft a c
    | _ => prodLeft a c

/-- `__add__` with a tensor: `LinearOperatorSum(self, IdentityOp() * other)` (no ZeroOp shortcut) -/
def plusT (a : Obj K) (d : Scal K) : Obj K := mkSum a (mul identity d)

/-- `.H` -/
def H : Obj K → Obj K
  | adjointOf a => a
  | zeroOp => zeroOp               -- `ZeroOp.H`
  | a => adjointOf a

/-- `.gram` with the class-specific rules -/
def gram : Obj K → Obj K
  | composition a b => matmul (matmul (H b) (gram a)) b
  | prodRight a c =>
      match c with
      | .tn _ => matmul (H a) (rmul c.normSq a)
      | _ => rmul c.normSq (gram a)
  | prodLeft a c => mul (rmul c.conj (gram a)) c
  | a => matmul (H a) a

/- evaluation of `forward` / `adjoint` on vectors; `Lf i`, `La i` are the two code paths of leaf `i` -/
mutual
def fwd (Lf La : Nat → (Nat → K) → (Nat → K)) : Obj K → (Nat → K) → (Nat → K)
  | leaf i, x => Lf i x
  | identity, x => x
  | zeroOp, _ => fun _ => 0
  | composition a b, x => fwd Lf La a (fwd Lf La b x)
  | sum ops, x => fwdSum Lf La ops x
  | prodRight a c, x => fun i => c.at i * fwd Lf La a x i
  | prodLeft a c, x => fwd Lf La a (fun i => c.at i * x i)
  | adjointOf a, x => adj Lf La a x
def fwdSum (Lf La : Nat → (Nat → K) → (Nat → K)) : List (Obj K) → (Nat → K) → (Nat → K)
  | [], _ => fun _ => 0
  | o :: os, x => fun i => fwd Lf La o x i + fwdSum Lf La os x i
def adj (Lf La : Nat → (Nat → K) → (Nat → K)) : Obj K → (Nat → K) → (Nat → K)
  | leaf i, y => La i y
  | identity, y => y
  | zeroOp, _ => fun _ => 0
  | composition a b, y => adj Lf La b (adj Lf La a y)
  | sum ops, y => adjSum Lf La ops y
  | prodRight a c, y => adj Lf La a (fun i => y i * M.conj (c.at i))
  | prodLeft a c, y => fun i => adj Lf La a y i * M.conj (c.at i)
  | adjointOf a, y => fwd Lf La a y
def adjSum (Lf La : Nat → (Nat → K) → (Nat → K)) : List (Obj K) → (Nat → K) → (Nat → K)
  | [], _ => fun _ => 0
  | o :: os, y => fun i => adj Lf La o y i + adjSum Lf La os y i
end
end Obj

variable [DecidableEq K] [OfNat K 0] [OfNat K 1] [Mul K] [Add K] [Conj K]

/-- the object graph built by evaluating the user's expression with the library's overloads -/
def build : Expr K → Obj K
  | .leaf i => .leaf i | .ident => .identity | .zero => .zeroOp
  | .comp a b => Obj.matmul (build a) (build b)
  | .add a b => Obj.plus (build a) (build b)
  | .addT a d => Obj.plusT (build a) d
  | .rmul c a => Obj.rmul c (build a)
  | .mul a c => Obj.mul (build a) c
  | .adj a => Obj.H (build a)
  | .gram a => Obj.gram (build a)

/- specification: the same expression evaluated on the operands as linear maps, no shortcuts.
`den` and `denH` are the map and its adjoint (for leaves: the two code paths). -/
mutual
def den (Lf La : Nat → (Nat → K) → (Nat → K)) : Expr K → (Nat → K) → (Nat → K)
  | .leaf i, x => Lf i x
  | .ident, x => x
  | .zero, _ => fun _ => 0
  | .comp a b, x => den Lf La a (den Lf La b x)
  | .add a b, x => fun i => den Lf La a x i + den Lf La b x i
  | .addT a d, x => fun i => den Lf La a x i + d.at i * x i
  | .rmul c a, x => fun i => c.at i * den Lf La a x i
  | .mul a c, x => den Lf La a (fun i => c.at i * x i)
  | .adj a, x => denH Lf La a x
  | .gram a, x => denH Lf La a (den Lf La a x)
def denH (Lf La : Nat → (Nat → K) → (Nat → K)) : Expr K → (Nat → K) → (Nat → K)
  | .leaf i, y => La i y
  | .ident, y => y
  | .zero, _ => fun _ => 0
  | .comp a b, y => denH Lf La b (denH Lf La a y)
  | .add a b, y => fun i => denH Lf La a y i + denH Lf La b y i
  | .addT a d, y => fun i => denH Lf La a y i + M.conj (d.at i) * y i
  | .rmul c a, y => denH Lf La a (fun i => M.conj (c.at i) * y i)
  | .mul a c, y => fun i => M.conj (c.at i) * denH Lf La a y i
  | .adj a, y => den Lf La a y
  | .gram a, y => denH Lf La a (den Lf La a y)
end

end M
