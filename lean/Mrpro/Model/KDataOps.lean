/-! Re-organising k-space data (`KData` mixins): a data set is a grid `(other, k2, k1)` of readouts;
the coil data, the trajectory and every per-readout header field are three arrays indexed by the
same grid.  Each transformation is the index map the code applies, defined once on an arbitrary
payload type — applying it to data, trajectory and header is applying it to the three arrays. -/
namespace M

/-- `grid[o][k2][k1]` -/
abbrev Grid (α : Type) := List (List (List α))

namespace Grid
variable {α β : Type}

def map (f : α → β) (g : Grid α) : Grid β := List.map (List.map (List.map f)) g
def toFlat (g : Grid α) : List α := (List.flatten (List.flatten g))
def shape (g : Grid α) : Nat × Nat × Nat :=
  (g.length, (g.head?.map List.length).getD 0, ((g.head?.bind List.head?).map List.length).getD 0)

/-- gather along a list: `xs[idx]` (indices must be in range; out-of-range entries are dropped) -/
def gather (xs : List α) (idx : List Nat) : List α := idx.filterMap (fun i => xs[i]?)

/-- `utils.split_idx`: windows of `size` indices with `size - overlap` step (`unfold`), optionally cyclic -/
def splitIdx (idx : List Nat) (size overlap : Nat) (cyclic : Bool) : List (List Nat) :=
  let step := size - overlap
  let ext := if cyclic then idx ++ idx.take step else idx
  if size = 0 ∨ step = 0 ∨ ext.length < size then []
  else (List.range ((ext.length - size) / step + 1)).map (fun s => (ext.drop (s * step)).take size)

/-- `split_k1_into_other(split_idx, label)`: new other index `(o, s)`, `k1' = split_idx[s]` -/
def splitK1 (g : Grid α) (sidx : List (List Nat)) : Grid α :=
  List.flatMap (fun (o : List (List α)) => sidx.map (fun win => List.map (fun row => gather row win) o)) g

/-- `split_k2_into_other` -/
def splitK2 (g : Grid α) (sidx : List (List Nat)) : Grid α :=
  List.flatMap (fun (o : List (List α)) => sidx.map (fun win => gather o win)) g

/-- the values written to the new label: position `s` in the split for every readout of block `(o, s)` -/
def splitLabel (nOther : Nat) (sidx : List (List Nat)) (k2 k1 : Nat) : Grid Nat :=
  (List.range nOther).flatMap (fun _ => (List.range sidx.length).map (fun s => List.replicate k2 (List.replicate k1 s)))

/-- `select_other_subset(subset_idx, label)`: `labelOf o` is the label value of other-index `o`;
for each requested value (in the requested order) the other-indices carrying it -/
def selectOther (g : Grid α) (labelOf : List Nat) (subset : List Nat) : Grid α :=
  let otherIdx := subset.flatMap (fun v => (List.range labelOf.length).filter (fun o => labelOf[o]? == some v))
  gather g otherIdx

/-- `rearrange_k2_k1_into_k1`: `(other, k2, k1) → (other, 1, k2·k1)` -/
def mergeK2K1 (g : Grid α) : Grid α := List.map (fun (o : List (List α)) => [o.flatten]) g

end Grid

/-- `remove_readout_os`: the readout samples that are kept: `[start, start + n_recon)`, `start = (n_enc − n_recon)/2` -/
def cropRange (nEnc nRecon : Nat) : Nat × Nat := (nEnc / 2 - nRecon / 2, nEnc / 2 - nRecon / 2 + nRecon)

/-- the window of the pinned commit (`(nEnc − nRecon) // 2`): one sample off for an even readout and an odd reconstruction size; witness only -/
def cropRangeShipped (nEnc nRecon : Nat) : Nat × Nat := ((nEnc - nRecon) / 2, (nEnc - nRecon) / 2 + nRecon)

end M
