import Mrpro.Model.Vec
/-! One-dimensional cores of the structural operators, each as the *two code paths*
(`forward`, `adjoint`) of the library, not as a matrix and its transpose. -/
namespace M
variable {K : Type}

/-! ### centred zero-padding / cropping (`zero_pad_or_crop`, `ZeroPadOp`) -/

/-- shift of the data when going from length `old` to `new`: the centre sample `old/2`
must land on `new/2`. -/
def padShift (old new : Nat) : Int := (new / 2 : Nat) - (old / 2 : Nat)

/-- the rule of the pinned commit: `after = trunc(diff/2)`, `before = diff - after`, and the
reversed list handed to `F.pad` makes `after` the *left* amount; kept as a witness. -/
def padShiftShipped (old new : Nat) : Int := ((new : Int) - (old : Int)).tdiv 2

/-- out[j] = x[j - shift] when that index exists, else 0 (pad and crop are the same formula) -/
def padCropWith [OfNat K 0] (shift : Int) (old : Nat) (x : Nat → K) : Nat → K :=
  fun j => let i : Int := (j : Int) - shift
           if 0 ≤ i ∧ i < old then x i.toNat else 0

def padCrop [OfNat K 0] (old new : Nat) (x : Nat → K) : Nat → K :=
  padCropWith (padShift old new) old x

/-! ### gather / scatter (`CartesianSamplingOp`) -/

/-- forward: y[s] = x[idx s] if the sample is inside the grid (`idx s = some g`, `g < G`), else 0 -/
def gather [OfNat K 0] (G : Nat) (idx : Nat → Option Nat) (x : Nat → K) : Nat → K :=
  fun s => match idx s with
    | some g => if g < G then x g else 0
    | none => 0

/-- adjoint: x[g] = ∑_{s<S, idx s = g} y[s]  (scatter-**add** into a zero tensor) -/
def scatterAdd [Add K] [OfNat K 0] (S : Nat) (idx : Nat → Option Nat) (y : Nat → K) : Nat → K :=
  fun g => sumTo S (fun s => if idx s = some g then y s else 0)

/-- last-write-wins scatter (what `Tensor.scatter_` does on CPU for repeated indices); witness only -/
def scatterLast [OfNat K 0] (S : Nat) (idx : Nat → Option Nat) (y : Nat → K) : Nat → K :=
  fun g => (List.range S).foldl (fun acc s => if idx s = some g then y s else acc) 0

/-- grid index of one trajectory coordinate on an axis of length `n`: `k + n/2`, if inside -/
def axisIdx (n : Nat) (k : Int) : Option Nat :=
  let i := k + (n / 2 : Nat)
  if 0 ≤ i ∧ i < n then some i.toNat else none

/-- flat index `kz·Ny·Nx + ky·Nx + kx` of a sample, `none` if any coordinate is outside -/
def ravel3 (nz ny nx : Nat) (kz ky kx : Int) : Option Nat := do
  let z ← axisIdx nz kz
  let y ← axisIdx ny ky
  let x ← axisIdx nx kx
  some (z * ny * nx + y * nx + x)

/-! ### 3-tap correlation (`filter_separable` as used by `FiniteDifferenceOp`) -/

/-- out[i] = k0·x[i-1] + k1·x[i] + k2·x[i+1]; outside values are 0 (`zeros`) or wrap (`circular`) -/
def corr3 [Add K] [Mul K] [OfNat K 0] (circular : Bool) (k0 k1 k2 : K) (n : Nat) (x : Nat → K) : Nat → K :=
  fun i =>
    let xm := if circular then x ((i + n - 1) % n) else if 0 < i then x (i - 1) else 0
    let xp := if circular then x ((i + 1) % n) else if i + 1 < n then x (i + 1) else 0
    k0 * xm + k1 * x i + k2 * xp

/-! ### element-wise products and coil sums (`SensitivityOp`, `DensityCompensationOp`) -/

def diagMul [Mul K] (d x : Nat → K) : Nat → K := fun i => d i * x i
def diagMulConj [Mul K] [Conj K] (d x : Nat → K) : Nat → K := fun i => conj (d i) * x i

/-- forward of the sensitivity operator on `[coils, n]`: y[c,i] = csm[c,i]·x[i] -/
def sensFwd [Mul K] (n : Nat) (csm x : Nat → K) : Nat → K := fun f => csm f * x (f % n)
/-- adjoint: x[i] = ∑_c conj(csm[c,i])·y[c,i] -/
def sensAdj [Add K] [Mul K] [OfNat K 0] [Conj K] (coils n : Nat) (csm y : Nat → K) : Nat → K :=
  fun i => sumTo coils (fun c => conj (csm (c * n + i)) * y (c * n + i))

/-- matrix–vector product (`EinsumOp` default rule), A is `[m, n]` row-major -/
def matVec [Add K] [Mul K] [OfNat K 0] (n : Nat) (A x : Nat → K) : Nat → K :=
  fun i => sumTo n (fun j => A (i * n + j) * x j)
def matVecH [Add K] [Mul K] [OfNat K 0] [Conj K] (m n : Nat) (A y : Nat → K) : Nat → K :=
  fun j => sumTo m (fun i => conj (A (i * n + j)) * y i)

/-! ### permutations (`RearrangeOp`) -/
def permute (σ : Nat → Nat) (x : Nat → K) : Nat → K := fun i => x (σ i)

/-! ### shifts and the DFT (`FastFourierOp`); the primitive root table `ω` is a parameter -/

/-- `torch.fft.fftshift`: out[i] = x[(i - n/2) mod n] -/
def fftshift (n : Nat) (x : Nat → K) : Nat → K := fun i => x ((i + n - n / 2) % n)
/-- `torch.fft.ifftshift`: out[i] = x[(i + n/2) mod n] -/
def ifftshift (n : Nat) (x : Nat → K) : Nat → K := fun i => x ((i + n / 2) % n)

/-- `fftn(norm='ortho')` along one axis: c·∑_r ω^{k r} x[r], `w t = ω^t`, `c = 1/√n` -/
def dft [Add K] [Mul K] [OfNat K 0] (n : Nat) (c : K) (w : Nat → K) (x : Nat → K) : Nat → K :=
  fun k => c * sumTo n (fun r => w ((k * r) % n) * x r)
/-- `ifftn(norm='ortho')`: c·∑_k conj(ω^{k r}) y[k] -/
def idft [Add K] [Mul K] [OfNat K 0] [Conj K] (n : Nat) (c : K) (w : Nat → K) (y : Nat → K) : Nat → K :=
  fun r => c * sumTo n (fun k => conj (w ((k * r) % n)) * y k)

/-- the library's centred transform along one axis: `fftshift ∘ fft ∘ ifftshift` -/
def centredDft [Add K] [Mul K] [OfNat K 0] (n : Nat) (c : K) (w : Nat → K) (x : Nat → K) : Nat → K :=
  fftshift n (dft n c w (ifftshift n x))
def centredIdft [Add K] [Mul K] [OfNat K 0] [Conj K] (n : Nat) (c : K) (w : Nat → K) (y : Nat → K) : Nat → K :=
  fftshift n (idft n c w (ifftshift n y))

/-- the specification: centred DFT written directly with centre index `n/2` on both sides -/
def centredDftSpec [Add K] [Mul K] [OfNat K 0] (n : Nat) (c : K) (wI : Int → K) (x : Nat → K) : Nat → K :=
  fun k => c * sumTo n (fun r => wI (((k : Int) - (n / 2 : Nat)) * ((r : Int) - (n / 2 : Nat))) * x r)

end M
