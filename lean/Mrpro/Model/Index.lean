/-! Python index semantics used by the library's axis arguments. -/
namespace M

/-- What the documentation of `normalize_index` promises and what every module that takes
`dim` arguments must do: accept exactly `[-ndim, ndim)` and return `i mod ndim`.
`none` is the `IndexError` branch. -/
def normIndex (ndim : Nat) (i : Int) : Option Nat :=
  if 0 ≤ i ∧ i < ndim then some i.toNat
  else if -(ndim : Int) ≤ i ∧ i < 0 then some (i + ndim).toNat
  else none

/-- the rule as shipped in the pinned commit (`0 < index < ndim`): kept as a witness only -/
def normIndexShipped (ndim : Nat) (i : Int) : Option Nat :=
  if 0 < i ∧ i < ndim then some i.toNat
  else if -(ndim : Int) ≤ i ∧ i < 0 then some (i + ndim).toNat
  else none

/-- `d % ndim` with Python's floor-mod (what `filter_separable`, `WaveletOp` … use); defined for
`ndim > 0`; it does not range-check. -/
def pyMod (ndim : Nat) (i : Int) : Nat := (i.fmod ndim).toNat

/-- normalise a list of dims, rejecting repeated axes (the `ValueError` branch) -/
def normDims (ndim : Nat) (dims : List Int) : Option (List Nat) := do
  let ds ← dims.mapM (normIndex ndim)
  if ds.Nodup then some ds else none

end M
