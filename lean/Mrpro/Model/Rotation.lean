/-! `mrpro.data.Rotation`: quaternion algebra exactly as coded (storage order: three vector
components in `AXIS_ORDER`, then `w`), the improper flag, and — over `Float` — the conversions
(rotation vectors, Euler angles for all sequences, matrix → quaternion). -/
namespace M

/-- quaternion in storage order `(q₀, q₁, q₂, w)` -/
structure Q (K : Type) where
  a : K
  b : K
  c : K
  w : K
deriving Repr, DecidableEq

structure Mat3 (K : Type) where
  m00 : K
  m01 : K
  m02 : K
  m10 : K
  m11 : K
  m12 : K
  m20 : K
  m21 : K
  m22 : K
deriving Repr, DecidableEq

structure V3 (K : Type) where
  x0 : K
  x1 : K
  x2 : K
deriving Repr, DecidableEq

section Algebra
variable {K : Type} [Add K] [Sub K] [Mul K] [Neg K]

/-- `_compose_quaternions_single(p, q)` -/
def Q.mul (p q : Q K) : Q K :=
  let c0 := p.b * q.c - p.c * q.b
  let c1 := p.c * q.a - p.a * q.c
  let c2 := p.a * q.b - p.b * q.a
  { a := p.w * q.a + q.w * p.a + c0,
    b := p.w * q.b + q.w * p.b + c1,
    c := p.w * q.c + q.w * p.c + c2,
    w := p.w * q.w - p.a * q.a - p.b * q.b - p.c * q.c }

/-- `inv`: conjugate quaternion -/
def Q.conj (q : Q K) : Q K := ⟨-q.a, -q.b, -q.c, q.w⟩
def Q.normSq (q : Q K) : K := q.a * q.a + q.b * q.b + q.c * q.c + q.w * q.w
def Q.neg (q : Q K) : Q K := ⟨-q.a, -q.b, -q.c, -q.w⟩

def two (x : K) : K := x + x

/-- `_quaternion_to_matrix` -/
def Q.toMat (q : Q K) : Mat3 K :=
  let qq := q.a*q.a; let rr := q.b*q.b; let ss := q.c*q.c; let ww := q.w*q.w
  let qr := q.a*q.b; let sw := q.c*q.w; let qs := q.a*q.c; let rw := q.b*q.w; let rs := q.b*q.c; let qw := q.a*q.w
  { m00 := qq - rr - ss + ww, m01 := two (qr - sw), m02 := two (qs + rw),
    m10 := two (qr + sw), m11 := -qq + rr - ss + ww, m12 := two (rs - qw),
    m20 := two (qs - rw), m21 := two (rs + qw), m22 := -qq - rr + ss + ww }

def Mat3.mul (x y : Mat3 K) : Mat3 K :=
  { m00 := x.m00*y.m00 + x.m01*y.m10 + x.m02*y.m20, m01 := x.m00*y.m01 + x.m01*y.m11 + x.m02*y.m21, m02 := x.m00*y.m02 + x.m01*y.m12 + x.m02*y.m22,
    m10 := x.m10*y.m00 + x.m11*y.m10 + x.m12*y.m20, m11 := x.m10*y.m01 + x.m11*y.m11 + x.m12*y.m21, m12 := x.m10*y.m02 + x.m11*y.m12 + x.m12*y.m22,
    m20 := x.m20*y.m00 + x.m21*y.m10 + x.m22*y.m20, m21 := x.m20*y.m01 + x.m21*y.m11 + x.m22*y.m21, m22 := x.m20*y.m02 + x.m21*y.m12 + x.m22*y.m22 }
def Mat3.transpose (x : Mat3 K) : Mat3 K :=
  ⟨x.m00, x.m10, x.m20, x.m01, x.m11, x.m21, x.m02, x.m12, x.m22⟩
def Mat3.smul (s : K) (x : Mat3 K) : Mat3 K :=
  ⟨s*x.m00, s*x.m01, s*x.m02, s*x.m10, s*x.m11, s*x.m12, s*x.m20, s*x.m21, s*x.m22⟩
def Mat3.det (x : Mat3 K) : K :=
  x.m00 * (x.m11 * x.m22 - x.m12 * x.m21) - x.m01 * (x.m10 * x.m22 - x.m12 * x.m20) + x.m02 * (x.m10 * x.m21 - x.m11 * x.m20)
def Mat3.apply (x : Mat3 K) (v : V3 K) : V3 K :=
  ⟨x.m00*v.x0 + x.m01*v.x1 + x.m02*v.x2, x.m10*v.x0 + x.m11*v.x1 + x.m12*v.x2, x.m20*v.x0 + x.m21*v.x1 + x.m22*v.x2⟩

/-- a rotation: unit quaternion plus the improper flag (inversion convention) -/
structure Rot (K : Type) where
  q : Q K
  improper : Bool

variable [OfNat K 1]
def sgn (improper : Bool) : K := if improper then -1 else 1
/-- `as_matrix`: `det · R(q)` -/
def Rot.toMat (r : Rot K) : Mat3 K := Mat3.smul (sgn r.improper) r.q.toMat
/-- `__matmul__` (before the re-normalisation of the product) -/
def Rot.mul (p q : Rot K) : Rot K := ⟨Q.mul p.q q.q, xor p.improper q.improper⟩
/-- `inv` -/
def Rot.inv (r : Rot K) : Rot K := ⟨r.q.conj, r.improper⟩
/-- `invert_axes` -/
def Rot.invertAxes (r : Rot K) : Rot K := ⟨r.q, !r.improper⟩
/-- `__call__(v)` and `__call__(v, inverse=True)` -/
def Rot.apply (r : Rot K) (v : V3 K) : V3 K := r.toMat.apply v
def Rot.applyInv (r : Rot K) (v : V3 K) : V3 K := r.toMat.transpose.apply v
end Algebra

section EulerG
variable {K : Type} [Add K] [Sub K] [Mul K] [Neg K] [OfNat K 0] [OfNat K 1]
/-- `_make_elementary_quat` with `s = sin(angle/2)`, `c = cos(angle/2)` about storage axis `i` -/
def elementaryG (i : Nat) (s c : K) : Q K :=
  ⟨if i = 0 then s else 0, if i = 1 then s else 0, if i = 2 then s else 0, c⟩
/-- `from_euler`: `axes` are storage indices, `sc` the (sin, cos) of the half angles; intrinsic composes on the right -/
def fromEulerG (axes : List Nat) (sc : List (K × K)) (intrinsic : Bool) : Q K :=
  match axes.zip sc with
  | [] => ⟨0, 0, 0, 1⟩
  | (a0, t0) :: rest =>
    rest.foldl (fun q (a, t) => if intrinsic then Q.mul q (elementaryG a t.1 t.2) else Q.mul (elementaryG a t.1 t.2) q)
      (elementaryG a0 t0.1 t0.2)
/-- rotation matrix about storage axis `i` with the given cosine and sine of the full angle -/
def axisRot (i : Nat) (co si : K) : Mat3 K :=
  if i = 0 then ⟨1, 0, 0, 0, co, -si, 0, si, co⟩
  else if i = 1 then ⟨co, 0, si, 0, 1, 0, -si, 0, co⟩
  else ⟨co, -si, 0, si, co, 0, 0, 0, 1⟩
end EulerG

/-- improper flag of `p ** n` for an integer `n` (`**` decision logic): kept for odd `n`, dropped for even -/
def powFlag (n : Int) (improper : Bool) : Bool := if n % 2 = 1 then improper else false
/-- n-fold XOR of a flag with itself -/
def xorN : Nat → Bool → Bool
  | 0, _ => false
  | n + 1, b => xor b (xorN n b)

/-- `_matrix_to_quaternion` over any scalar type, with the square root as a parameter (Shepperd's
method: relu of the four candidates, first-maximum argmax, division by `2·sqrt(best)`; `1 + 1` is the
literal `2`, exact in `Float`). `F.matrixToQuat` is this function at `Float.sqrt`. -/
def matrixToQuatG {K : Type} [Add K] [Sub K] [Mul K] [Div K] [OfNat K 0] [OfNat K 1]
    [LT K] [DecidableLT K] [LE K] [DecidableLE K] (sqrt : K → K) (m : Mat3 K) : Q K :=
  let relu := fun (x : K) => if x < 0 then 0 else x
  let q := relu (1 + m.m00 - m.m11 - m.m22); let r := relu (1 - m.m00 + m.m11 - m.m22)
  let s := relu (1 - m.m00 - m.m11 + m.m22); let w := relu (1 + m.m00 + m.m11 + m.m22)
  -- argmax returns the first maximal entry
  let best := if q ≥ r && q ≥ s && q ≥ w then 0 else if r ≥ s && r ≥ w then 1 else if s ≥ w then 2 else 3
  match best with
  | 0 => let d := sqrt q * (1 + 1); ⟨q / d, (m.m10 + m.m01) / d, (m.m02 + m.m20) / d, (m.m21 - m.m12) / d⟩
  | 1 => let d := sqrt r * (1 + 1); ⟨(m.m10 + m.m01) / d, r / d, (m.m12 + m.m21) / d, (m.m02 - m.m20) / d⟩
  | 2 => let d := sqrt s * (1 + 1); ⟨(m.m20 + m.m02) / d, (m.m21 + m.m12) / d, s / d, (m.m10 - m.m01) / d⟩
  | _ => let d := sqrt w * (1 + 1); ⟨(m.m21 - m.m12) / d, (m.m02 - m.m20) / d, (m.m10 - m.m01) / d, w / d⟩

/-- the transcendental functions (and the constant π) used by the rotation-vector conversions, as
parameters: `F.floatTrig` is the `Float` instance, `Mrpro/Lemmas/RotvecL.lean` reasons about any instance
over ℝ that satisfies a specification -/
structure TrigOps (K : Type) where
  sqrt : K → K
  sin : K → K
  cos : K → K
  /-- `atan2 y x` (argument order of `torch.atan2` / `Float.atan2`) -/
  atan2 : K → K → K
  pi : K

section RotvecG
variable {K : Type} [Mul K] [Div K] [OfNat K 0] [OfNat K 1] [OfNat K 2] [BEq K]

/-- `torch.sinc`: `sin(πx)/(πx)`, `1` at `x == 0` -/
def sincG (T : TrigOps K) (x : K) : K := if x == 0 then 1 else T.sin (T.pi * x) / (T.pi * x)

variable [Add K]

/-- `from_rotvec` (proper part) over any scalar type: `angle = ‖v‖`, `q = (sinc(angle/(2π))/2 · v, cos(angle/2))`.
`F.fromRotvec` is this function at `F.floatTrig`. -/
def fromRotvecG (T : TrigOps K) (v : V3 K) : Q K :=
  let ang := T.sqrt (v.x0 * v.x0 + v.x1 * v.x1 + v.x2 * v.x2)
  let x := ang / (2 * T.pi)
  let sinc := sincG T x
  let sc := sinc / 2
  ⟨sc * v.x0, sc * v.x1, sc * v.x2, T.cos (ang / 2)⟩

/-- `as_rotvec` on a canonical quaternion over any scalar type: `angle = 2·atan2(‖(a,b,c)‖, w)`,
`v = 2/sinc(angle/(2π)) · (a,b,c)`. `F.toRotvec` is this function at `F.floatTrig`. -/
def toRotvecG (T : TrigOps K) (q : Q K) : V3 K :=
  let ang := 2 * T.atan2 (T.sqrt (q.a * q.a + q.b * q.b + q.c * q.c)) q.w
  let x := ang / (2 * T.pi)
  let sinc := sincG T x
  let sc := 2 / sinc
  ⟨sc * q.a, sc * q.b, sc * q.c⟩
end RotvecG

section ToEulerG
variable {K : Type} [Add K] [Sub K] [Mul K] [Div K] [Neg K] [OfNat K 0] [OfNat K 1] [OfNat K 2]
  [LT K] [DecidableLT K] [LE K] [DecidableLE K]

/-- component `i` of a quaternion in storage order (`3` = scalar part) -/
def qgetG (q : Q K) (i : Nat) : K := if i = 0 then q.a else if i = 1 then q.b else if i = 2 then q.c else q.w

/-- `_quaternion_to_euler` (Bernardes–Viollet) over any scalar type, `seq` given as storage indices,
lower-case semantics. The transcendental functions come from `T`, `ofInt` is the cast of the integer sign
product, `eps` the gimbal-lock threshold (`1e-7` in the code); `hypot x y` is `sqrt (x*x + y*y)` and `|x| ≤ eps`
is tested on `if x < 0 then -x else x`. `F.toEuler` is this function at `F.floatTrig`, `Float.ofInt`, `1e-7`. -/
def toEulerG (T : TrigOps K) (ofInt : Int → K) (eps : K) (quat : Q K) (seq : List Nat) (extrinsic : Bool) :
    List K :=
  let hypot := fun (x y : K) => T.sqrt (x * x + y * y)
  let abs := fun (x : K) => if x < 0 then -x else x
  let seq := if extrinsic then seq else seq.reverse
  let q := seq.getD 0 0; let r := seq.getD 1 0; let s0 := seq.getD 2 0
  let symmetric := q == s0
  let s := if symmetric then 3 - q - r else s0
  let sign : K := (ofInt (((q : Int) - r) * ((r : Int) - s) * ((s : Int) - q))) / 2
  let a := if symmetric then qgetG quat 3 else qgetG quat 3 - qgetG quat r
  let b := if symmetric then qgetG quat q else qgetG quat q + qgetG quat s * sign
  let c := if symmetric then qgetG quat r else qgetG quat r + qgetG quat 3
  let d := if symmetric then qgetG quat s * sign else qgetG quat s * sign - qgetG quat q
  let angles1 := 2 * T.atan2 (hypot c d) (hypot a b)
  let halfSum := T.atan2 b a
  let halfDiff := T.atan2 d c
  -- the singularity test uses the second angle *before* it is shifted for non-symmetric sequences
  let case1 : Bool := decide (abs angles1 ≤ eps)
  let case2 : Bool := decide (abs (angles1 - T.pi) ≤ eps)
  let angles0 := halfSum - halfDiff
  let angles2 := halfSum + halfDiff
  let angles0' := if extrinsic then angles0 else angles2
  let angles2' := if extrinsic then angles2 else angles0
  let angles2 := if !case1 && !case2 then angles2' else 0
  let angles0 := if case1 then 2 * halfSum else if case2 then 2 * halfDiff * (if extrinsic then -1 else 1) else angles0'
  let angles2 := if !symmetric && extrinsic then angles2 * sign else angles2
  let angles0 := if !symmetric && !extrinsic then angles0 * sign else angles0
  let angles1 := if symmetric then angles1 else angles1 - T.pi / 2
  let wrap := fun (t : K) => let t := if t < -T.pi then t + 2 * T.pi else t; if t > T.pi then t - 2 * T.pi else t
  [wrap angles0, wrap angles1, wrap angles2]
end ToEulerG

/-! ### conversions over `Float` -/
section Canonical
variable {K : Type} [LT K] [DecidableLT K] [BEq K] [OfNat K 0] [Neg K]
/-- the sign rule of `_canonical_quaternion`: `w < 0`, ties broken on x, y, z (storage components `ix iy iz`) -/
def needsInversion (ix iy iz : Nat) (q : Q K) : Bool :=
  let comp := fun (i : Nat) => if i = 0 then q.a else if i = 1 then q.b else q.c
  let x := comp ix; let y := comp iy; let z := comp iz
  (q.w < 0) || ((q.w == 0) && ((x < 0) || ((x == 0) && ((y < 0) || ((y == 0) && (z < 0))))))
/-- `_canonical_quaternion` -/
def canonicalG (ix iy iz : Nat) (q : Q K) : Q K := if needsInversion ix iy iz q then q.neg else q
end Canonical

namespace F

def pi : Float := 3.141592653589793
def hypot (a b : Float) : Float := Float.sqrt (a * a + b * b)

/-- the `Float` transcendental functions; `pi` is the double nearest to π -/
def floatTrig : TrigOps Float := ⟨Float.sqrt, Float.sin, Float.cos, Float.atan2, pi⟩

/-- `_canonical_quaternion`: `w ≥ 0`, ties broken on x, y, z (which are components 2, 1, 0 for
`AXIS_ORDER = 'zyx'`; the index map is a parameter) -/
def canonical (ix iy iz : Nat) (q : Q Float) : Q Float := canonicalG ix iy iz q

/-- `_make_elementary_quat`: rotation by `angle` about storage axis `i` -/
def elementary (i : Nat) (angle : Float) : Q Float := elementaryG i (Float.sin (angle / 2)) (Float.cos (angle / 2))

/-- `from_euler`: `axes` are storage indices of the sequence letters; intrinsic composes on the right -/
def fromEuler (axes : List Nat) (angles : List Float) (intrinsic : Bool) : Q Float :=
  fromEulerG axes (angles.map (fun t => (Float.sin (t / 2), Float.cos (t / 2)))) intrinsic

def qget (q : Q Float) (i : Nat) : Float := if i = 0 then q.a else if i = 1 then q.b else if i = 2 then q.c else q.w

/-- `_quaternion_to_euler` (Bernardes–Viollet), `seq` given as storage indices, lower-case semantics -/
def toEuler (quat : Q Float) (seq : List Nat) (extrinsic : Bool) : List Float :=
  toEulerG floatTrig Float.ofInt 1e-7 quat seq extrinsic

/-- `_matrix_to_quaternion` -/
def matrixToQuat (m : Mat3 Float) : Q Float := matrixToQuatG Float.sqrt m

/-- `from_rotvec` (proper part) -/
def fromRotvec (v : V3 Float) : Q Float := fromRotvecG floatTrig v

/-- `as_rotvec` on a canonical quaternion -/
def toRotvec (q : Q Float) : V3 Float := toRotvecG floatTrig q

def normalize (q : Q Float) : Q Float :=
  let n := Float.sqrt q.normSq
  ⟨q.a / n, q.b / n, q.c / n, q.w / n⟩

end F
end M
