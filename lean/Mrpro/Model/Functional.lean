import Mrpro.Model.OpsND
/-! Functionals (`L1Norm`, `L1NormViewAsReal`, `L2NormSquared`/`MSE`, `ZeroFunctional`, scaled and
separable sums): per-element closed forms exactly as coded, and the reduction bookkeeping
(`dim`, `keepdim`, `divide_by_n`, broadcasting of weight/target/sigma). Real case over any ordered
field; the driver runs it at `Rat`. -/
namespace M
variable {K : Type}

section Scalar
variable [LT K] [DecidableLT K] [Neg K] [OfNat K 0] [OfNat K 1] [Add K] [Sub K] [Mul K] [Div K]

def absK (x : K) : K := if x < 0 then -x else x
/-- `torch.sgn` on reals -/
def sgnK (x : K) : K := if x < 0 then -1 else if 0 < x then 1 else 0
def reluK (x : K) : K := if x < 0 then 0 else x
def minK (a b : K) : K := if b < a then b else a

/-- `sgn(d)·relu(|d| − τ)` -/
def softThr (d τ : K) : K := sgnK d * reluK (absK d - τ)

/-- `L1Norm.prox` per element; `n` is the `divide_by_n` divisor (1 if off) -/
def l1ProxEl (w σ n t x : K) : K := softThr (x - t) (absK (w * σ / n)) + t
/-- `L1Norm.prox_convex_conj` per element -/
def l1ConjProxEl (w σ n t x : K) : K :=
  let d := x - σ * t
  sgnK d * minK (absK d) (absK (absK w / n))
/-- `L2NormSquared.prox` per element (real weight: `conj(w)·w = w²`) -/
def l2ProxEl (w σ n t x : K) : K :=
  let a := w * w * (1 + 1) * σ / n
  (x + a * t) / (1 + a)
/-- `L2NormSquared.prox_convex_conj` per element -/
def l2ConjProxEl (w σ n t x : K) : K :=
  let ws := w * w / n
  (1 + 1) * ws * (x - σ * t) / (σ + (1 + 1) * ws)
/-- values per element -/
def l1ValEl (w t x : K) : K := absK (w * (x - t))
def l2ValEl (w t x : K) : K := absK (w * (x - t)) * absK (w * (x - t))

/-- `ProximableFunctional.prox_convex_conj` (generic Moreau fallback); `clampSigma` is the code's
`sigma[sigma < 1e-8] += 1e-6` -/
def genericConjProx (prox : K → K → K) (σ' x : K) : K := x - σ' * prox (x / σ') (1 / σ')

/-- `ZeroFunctional.prox_convex_conj`: `x` where `σ = 0`, else 0 -/
def zeroConjProxEl (σ x : K) : K := if σ < 0 then 0 else if 0 < σ then 0 else x
end Scalar

/-! ### broadcasting and reductions -/

/-- value of `t` at the multi-index `idx` of a (larger) broadcast shape, right-aligned -/
def Tensor.bget (t : Tensor K) (bshape idx : List Nat) : K :=
  let off := bshape.length - t.shape.length
  let own := (t.shape.zip (idx.drop off)).map (fun (s, i) => if s = 1 then 0 else i)
  t.get (ravel t.shape own)

/-- right-aligned broadcast of two shapes (`none` if incompatible) -/
def bshape2 (a b : List Nat) : Option (List Nat) :=
  let n := max a.length b.length
  let pa := List.replicate (n - a.length) 1 ++ a
  let pb := List.replicate (n - b.length) 1 ++ b
  (pa.zip pb).mapM (fun (x, y) => if x = y then some x else if x = 1 then some y else if y = 1 then some x else none)

/-- sum (or mean when `n ≠ 1` is given by the caller) over the axes `dims` of a tensor -/
def reduceSum [Add K] [OfNat K 0] [Inhabited K] (t : Tensor K) (dims : List Nat) (keepdim : Bool) : Tensor K :=
  let oshapeK := (List.range t.ndim).map (fun a => if dims.contains a then 1 else t.shape.getD a 1)
  let oshape := if keepdim then oshapeK else ((List.range t.ndim).filter (fun a => !dims.contains a)).map (fun a => t.shape.getD a 1)
  let rshape := dims.map (fun a => t.shape.getD a 1)
  let rsize := prodL rshape
  Tensor.memo ⟨oshape, fun f =>
    let oidx := unravel oshapeK f
    sumTo rsize (fun r =>
      let ridx := unravel rshape r
      let idx := (List.range t.ndim).map (fun a =>
        let j := dims.idxOf a
        if j < dims.length then ridx.getD j 0 else oidx.getD a 0)
      t.get (ravel t.shape idx))⟩

end M

namespace M
/-! ### tensor level: `ElementaryProximableFunctional` subclasses -/
variable {K : Type} [Inhabited K] [LT K] [DecidableLT K] [Neg K] [OfNat K 0] [OfNat K 1] [Add K] [Sub K] [Mul K] [Div K]

inductive FunCls | l1 | l1ViewAsReal | l2 | zero
deriving DecidableEq, Repr

structure FunCfg (K : Type) where
  cls : FunCls
  weight : Tensor K
  target : Tensor K
  /-- `None` = all axes -/
  dims : Option (List Int)
  divideByN : Bool
  keepdim : Bool

def bshapeAll (shapes : List (List Nat)) : Except ErrKind (List Nat) :=
  shapes.foldlM (fun acc s => match bshape2 acc s with | some r => pure r | none => throw ErrKind.valueError) []

/-- the axes a functional reduces over, for a tensor of rank `ndim` (python/torch index rules) -/
def funDims (c : FunCfg K) (ndim : Nat) : Except ErrKind (List Nat) :=
  match c.dims with
  | none => pure (List.range ndim)
  | some ds => match ds.mapM (normIndex ndim) with
    | some l => pure l
    | none => throw .indexError

/-- number of elements the mean runs over: `prod(shape[i] for i in dim)` -/
def funN (c : FunCfg K) (shape : List Nat) (natCast : Nat → K) : Except ErrKind K := do
  if !c.divideByN then return 1
  let ds ← funDims c shape.length
  pure (natCast (prodL (ds.map (fun a => shape.getD a 1))))

def funForward (c : FunCfg K) (natCast : Nat → K) (x : Tensor K) : Except ErrKind (Tensor K) := do
  let shp ← bshapeAll [x.shape, c.weight.shape, c.target.shape]
  let ds ← funDims c shp.length
  if !ds.Nodup then throw .valueError  -- torch: "dim appears multiple times"
  let val : Tensor K := Tensor.memo ⟨shp, fun f =>
    let idx := unravel shp f
    let w := c.weight.bget shp idx; let t := c.target.bget shp idx; let xv := x.bget shp idx
    match c.cls with
    | .l1 | .l1ViewAsReal => l1ValEl w t xv
    | .l2 => l2ValEl w t xv
    | .zero => 0⟩
  let s := reduceSum val ds c.keepdim
  if c.divideByN then
    let n := natCast (prodL (ds.map (fun a => shp.getD a 1)))
    pure (Tensor.memo ⟨s.shape, fun f => s.get f / n⟩)
  else pure s

/-- `prox(x, sigma)`; `sigma` is a tensor (python scalars are 0-dim) -/
def funProx (c : FunCfg K) (natCast : Nat → K) (x σ : Tensor K) : Except ErrKind (Tensor K) := do
  let shp ← bshapeAll [x.shape, c.weight.shape, c.target.shape, σ.shape]
  -- the shape `_divide_by_n` sees differs per class
  let nshape ← match c.cls with
    | .l1 => bshapeAll [x.shape, c.weight.shape, σ.shape]
    | .l1ViewAsReal => bshapeAll [x.shape, c.weight.shape]
    | .l2 => bshapeAll [x.shape, c.target.shape, c.weight.shape]
    | .zero => pure shp
  let n ← match c.cls with | .zero => pure 1 | _ => funN c nshape natCast
  pure (Tensor.memo ⟨shp, fun f =>
    let idx := unravel shp f
    let w := c.weight.bget shp idx; let t := c.target.bget shp idx; let xv := x.bget shp idx; let s := σ.bget shp idx
    match c.cls with
    | .l1 | .l1ViewAsReal => l1ProxEl w s n t xv
    | .l2 => l2ProxEl w s n t xv
    | .zero => xv⟩)

/-- `prox_convex_conj(x, sigma)`; `tiny`/`bump` are the constants of the generic fallback
(`sigma[sigma < 1e-8] += 1e-6`) -/
def funConj (c : FunCfg K) (natCast : Nat → K) (tiny bump : K) (x σ : Tensor K) : Except ErrKind (Tensor K) := do
  let shp ← bshapeAll [x.shape, c.weight.shape, c.target.shape, σ.shape]
  let nshape ← match c.cls with
    | .l1 | .l1ViewAsReal => bshapeAll [x.shape, c.weight.shape]
    | .l2 => bshapeAll [x.shape, c.target.shape, c.weight.shape]
    | .zero => pure shp
  let n ← match c.cls with | .zero => pure 1 | _ => funN c nshape natCast
  pure (Tensor.memo ⟨shp, fun f =>
    let idx := unravel shp f
    let w := c.weight.bget shp idx; let t := c.target.bget shp idx; let xv := x.bget shp idx; let s := σ.bget shp idx
    match c.cls with
    | .l1 => l1ConjProxEl w s n t xv
    | .l1ViewAsReal =>
        let s' := if s < tiny then s + bump else s
        genericConjProx (fun y τ => l1ProxEl w τ n t y) s' xv
    | .l2 => l2ConjProxEl w s n t xv
    | .zero => zeroConjProxEl s xv⟩)

end M
