import Mrpro.Model.CG
/-! Power iteration of `LinearOperator.operator_norm`, line by line, generic in the vector type
(`G = Aᴴ A` is passed as one map).  `stop old new` is the `isclose`-based stopping test. -/
namespace M
variable {K V : Type} [Div K] [OfNat K 0] [OfNat K 1]

/-- returns (estimate, callback values oldest first); `sqrt` is a parameter -/
def powerLoop (ops : VecOps K V) (sqrt : K → K) (G : V → V) (stop : K → K → Bool) :
    Nat → V → K → K → List K → K × List K
  | 0, _, _, last, cb => (last, cb.reverse)
  | fuel + 1, v, old, _, cb =>
    let vnew := G v
    let est := sqrt (ops.dot v vnew)
    if stop est old then (est, cb.reverse)
    else
      let nrm := sqrt (ops.dot vnew vnew)
      powerLoop ops sqrt G stop fuel (ops.smul (1 / nrm) vnew) est est (est :: cb)

/-- `operator_norm(initial_value, dim=None, max_iterations, …)`: the start vector is normalised first -/
def powerRun (ops : VecOps K V) (sqrt : K → K) (G : V → V) (stop : K → K → Bool) (v0 : V) (maxIter : Nat) : K × List K :=
  let n0 := sqrt (ops.dot v0 v0)
  powerLoop ops sqrt G stop maxIter (ops.smul (1 / n0) v0) 0 0 []

/-- the rule as shipped in the pinned commit (start vector used as is); witness only -/
def powerRunShipped (ops : VecOps K V) (sqrt : K → K) (G : V → V) (stop : K → K → Bool) (v0 : V) (maxIter : Nat) : K × List K :=
  powerLoop ops sqrt G stop maxIter v0 0 0 []

end M
