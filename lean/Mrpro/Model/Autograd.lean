/-! Autograd wiring of linear operators: `_AutogradWrapper` (adjoint-as-backward) and the
real/complex case table of `_MatrixMultiplication.backward` (scalar level: the matrix product is
bilinear, so each case is an identity between products of real and imaginary parts). -/
namespace M

/-- `_AutogradWrapper.apply(fw, bw, x)`: evaluates `fw`; autograd differentiates it with the rules below -/
structure Wrapped (V : Type) where
  fw : V → V
  bw : V → V

namespace Wrapped
variable {V : Type}
def apply (w : Wrapped V) (x : V) : V := w.fw x
/-- `backward(ctx, g) = _AutogradWrapper.apply(ctx.bw, ctx.fw, g)`: again a wrapped function, with the roles swapped -/
def backward (w : Wrapped V) : Wrapped V := ⟨w.bw, w.fw⟩
/-- `jvp(ctx, t) = _AutogradWrapper.apply(ctx.fw, ctx.bw, t)` -/
def jvpRule (w : Wrapped V) : Wrapped V := ⟨w.fw, w.bw⟩
end Wrapped

/-- complex numbers as pairs over a ring, as the sparse backward treats them -/
structure CPair (K : Type) where
  re : K
  im : K
deriving DecidableEq

section
variable {K : Type} [Add K] [Sub K] [Mul K] [OfNat K 0]
def CPair.mul (a b : CPair K) : CPair K := ⟨a.re * b.re - a.im * b.im, a.re * b.im + a.im * b.re⟩
def CPair.ofReal (r : K) : CPair K := ⟨r, 0⟩

/-- `_MatrixMultiplication.backward`, one matrix entry `m` (of the adjoint matrix) times one cotangent entry `g`.
`mC`, `gC`: whether adjoint matrix / cotangent are complex tensors; `xC`: whether the input was complex. -/
def matmulBackward (xC mC gC : Bool) (m g : CPair K) : CPair K :=
  if xC then
    if mC == gC then (if mC then m.mul g else ⟨m.re * g.re, 0⟩)
    else if mC then ⟨m.re * g.re, m.im * g.re⟩       -- complex(M.real @ g, M.imag @ g)
    else ⟨m.re * g.re, m.re * g.im⟩                   -- complex(M @ g.real, M @ g.imag)
  else
    let r := m.re * g.re
    ⟨if mC && gC then r - m.im * g.im else r, 0⟩
end

end M
