/-! Scalars for the executable models (import-free).

The models are polymorphic in the scalar type `K` and only use notation classes from core
(`Add`, `Mul`, `Neg`, `Sub`, `OfNat K 0`, …) plus the tiny classes below.  The driver runs them at
`CRat` (exact Gaussian rationals) and `CFloat` (pairs of IEEE doubles); the theorems are stated
for every commutative (star) ring / ordered field, which includes `ℚ`, `ℝ`, `ℂ`. -/
namespace M

class Conj (K : Type) where conj : K → K
export Conj (conj)

instance : Conj Rat := ⟨id⟩
instance : Conj Int := ⟨id⟩
instance : Conj Float := ⟨id⟩

/-- Gaussian rationals: exact complex numbers -/
structure CRat where
  re : Rat
  im : Rat
deriving DecidableEq, Repr, Inhabited

namespace CRat
instance : Add CRat := ⟨fun a b => ⟨a.re + b.re, a.im + b.im⟩⟩
instance : Sub CRat := ⟨fun a b => ⟨a.re - b.re, a.im - b.im⟩⟩
instance : Neg CRat := ⟨fun a => ⟨-a.re, -a.im⟩⟩
instance : Mul CRat := ⟨fun a b => ⟨a.re * b.re - a.im * b.im, a.re * b.im + a.im * b.re⟩⟩
instance : OfNat CRat 0 := ⟨⟨0, 0⟩⟩
instance : OfNat CRat 1 := ⟨⟨1, 0⟩⟩
instance : Conj CRat := ⟨fun a => ⟨a.re, -a.im⟩⟩
def ofRat (r : Rat) : CRat := ⟨r, 0⟩
def normSq (a : CRat) : Rat := a.re * a.re + a.im * a.im
/-- division by a non-zero complex number; `none` for a zero divisor (never totalised) -/
def div? (a b : CRat) : Option CRat :=
  let n := normSq b
  if n = 0 then none else some ⟨(a.re * b.re + a.im * b.im) / n, (a.im * b.re - a.re * b.im) / n⟩
end CRat

/-- pairs of IEEE doubles -/
structure CFloat where
  re : Float
  im : Float
deriving Inhabited

namespace CFloat
instance : Add CFloat := ⟨fun a b => ⟨a.re + b.re, a.im + b.im⟩⟩
instance : Sub CFloat := ⟨fun a b => ⟨a.re - b.re, a.im - b.im⟩⟩
instance : Neg CFloat := ⟨fun a => ⟨-a.re, -a.im⟩⟩
instance : Mul CFloat := ⟨fun a b => ⟨a.re * b.re - a.im * b.im, a.re * b.im + a.im * b.re⟩⟩
instance : OfNat CFloat 0 := ⟨⟨0, 0⟩⟩
instance : OfNat CFloat 1 := ⟨⟨1, 0⟩⟩
instance : Conj CFloat := ⟨fun a => ⟨a.re, -a.im⟩⟩
/-- e^{i t} -/
def cis (t : Float) : CFloat := ⟨Float.cos t, Float.sin t⟩
def scale (s : Float) (a : CFloat) : CFloat := ⟨s * a.re, s * a.im⟩
end CFloat

end M
