/-! Signal models and `ConstraintsOp`: closed forms exactly as coded, over a scalar type with the
transcendental functions as a class (`Float` in the driver, `ℝ` in the theorems), together with
the analytic partial derivatives the autograd gradients are compared with. -/
namespace M

class Transc (K : Type) where
  exp : K → K
  log : K → K
  cos : K → K
  sin : K → K
  sqrt : K → K
  /-- `torch.sinc`: sin(πx)/(πx), 1 at 0 -/
  sinc : K → K
  pi : K
export Transc (exp log cos sin sqrt sinc)

instance : Transc Float where
  exp := Float.exp
  log := Float.log
  cos := Float.cos
  sin := Float.sin
  sqrt := Float.sqrt
  sinc := fun x => if x == 0.0 then 1.0 else Float.sin (3.141592653589793 * x) / (3.141592653589793 * x)
  pi := 3.141592653589793

variable {K : Type} [Add K] [Sub K] [Mul K] [Div K] [Neg K] [OfNat K 0] [OfNat K 1] [OfNat K 2] [Transc K]

/-! ### signal models (per voxel and time point) -/
def invRec (m0 t1 ti : K) : K := m0 * (1 - 2 * exp (-(ti / t1)))
def satRec (m0 t1 ti : K) : K := m0 * (1 - exp (-(ti / t1)))
def monoExp (m0 td t : K) : K := m0 * exp (-(t / td))
def molli (a c t1 ti : K) : K := a * (1 - c * exp (ti / t1 * (1 - c)))

/-- TransientSteadyStateWithPreparation -/
def tss (m0 t1 alpha ts tr scal delay : K) : K :=
  let mStart0 := m0 * scal
  let mStart := m0 + (mStart0 - m0) * exp (-(delay / t1))
  let lnCosTr := log (cos alpha) / tr
  let r1Star := 1 / t1 - lnCosTr
  let m0Star := m0 / (1 - t1 * lnCosTr)
  m0Star + (mStart - m0Star) * exp (-ts * r1Star)

def sq (x : K) : K := x * x
def wasabi (b0 rb1 c d offset tp b1nom gamma : K) : K :=
  let dx := offset - b0
  let b1 := b1nom * rb1
  c - d * sq (Transc.pi * b1 * gamma * tp) * sq (sinc (tp * sqrt (sq (b1 * gamma) + sq dx)))
def wasabiti (b0 rb1 t1 offset trec tp b1nom gamma : K) : K :=
  let b1 := b1nom * rb1
  let da := offset - b0
  let mz := 1 - exp (-trec / t1)
  mz * (1 - 2 * sq (Transc.pi * b1 * gamma * tp) * sq (sinc (tp * sqrt (sq (b1 * gamma) + sq da))))

/-! analytic partial derivatives -/
def invRec_dm0 (_m0 t1 ti : K) : K := 1 - 2 * exp (-(ti / t1))
def invRec_dt1 (m0 t1 ti : K) : K := -(2 * m0 * exp (-(ti / t1)) * (ti / (t1 * t1)))
def satRec_dm0 (_m0 t1 ti : K) : K := 1 - exp (-(ti / t1))
def satRec_dt1 (m0 t1 ti : K) : K := -(m0 * exp (-(ti / t1)) * (ti / (t1 * t1)))
def monoExp_dm0 (_m0 td t : K) : K := exp (-(t / td))
def monoExp_dtd (m0 td t : K) : K := m0 * exp (-(t / td)) * (t / (td * td))
def molli_da (_a c t1 ti : K) : K := 1 - c * exp (ti / t1 * (1 - c))
def molli_dc (a c t1 ti : K) : K := -(a * (exp (ti / t1 * (1 - c)) - c * exp (ti / t1 * (1 - c)) * (ti / t1)))
def molli_dt1 (a c t1 ti : K) : K := a * c * exp (ti / t1 * (1 - c)) * (ti * (1 - c) / (t1 * t1))

/-- derivative of `sinc` away from `0`: `d/dx sinc x = (cos(πx) − sinc x) / x` -/
def dsinc (x : K) : K := (cos (Transc.pi * x) - sinc x) / x

/-! `tss`: with `lnCosTr = log(cos α)/tr`, `den = 1 − t1·lnCosTr`, `e = exp(−ts·r1Star)` the signal is
`m0Star + (mStart − m0Star)·e`; each partial is the product/chain rule applied to that expression. -/
def tss_dm0 (_m0 t1 alpha ts tr scal delay : K) : K :=
  let dmStart := 1 + (scal - 1) * exp (-(delay / t1))
  let lnCosTr := log (cos alpha) / tr
  let r1Star := 1 / t1 - lnCosTr
  let dm0Star := 1 / (1 - t1 * lnCosTr)
  dm0Star + (dmStart - dm0Star) * exp (-ts * r1Star)
def tss_dt1 (m0 t1 alpha ts tr scal delay : K) : K :=
  let mStart0 := m0 * scal
  let eDelay := exp (-(delay / t1))
  let mStart := m0 + (mStart0 - m0) * eDelay
  let dmStart := (mStart0 - m0) * (eDelay * (delay / (t1 * t1)))
  let lnCosTr := log (cos alpha) / tr
  let r1Star := 1 / t1 - lnCosTr
  let den := 1 - t1 * lnCosTr
  let m0Star := m0 / den
  let dm0Star := m0 * lnCosTr / (den * den)
  let e := exp (-ts * r1Star)
  let de := e * (ts / (t1 * t1))
  dm0Star + (dmStart - dm0Star) * e + (mStart - m0Star) * de
def tss_dalpha (m0 t1 alpha ts tr scal delay : K) : K :=
  let mStart0 := m0 * scal
  let mStart := m0 + (mStart0 - m0) * exp (-(delay / t1))
  let lnCosTr := log (cos alpha) / tr
  /- d/dα log(cos α) = −sin α / cos α -/
  let dlnCosTr := -(sin alpha / cos alpha) / tr
  let r1Star := 1 / t1 - lnCosTr
  let den := 1 - t1 * lnCosTr
  let m0Star := m0 / den
  let dm0Star := m0 * (t1 * dlnCosTr) / (den * den)
  let e := exp (-ts * r1Star)
  let de := e * (ts * dlnCosTr)
  dm0Star * (1 - e) + (mStart - m0Star) * de

/-! `wasabi`: `c − d·amp·sinc(x)²` with `amp = (π·b1·γ·tp)²`, `x = tp·root`, `root = √((b1·γ)² + dx²)`. -/
def wasabi_db0 (b0 rb1 _c d offset tp b1nom gamma : K) : K :=
  let dx := offset - b0
  let b1 := b1nom * rb1
  let amp := sq (Transc.pi * b1 * gamma * tp)
  let root := sqrt (sq (b1 * gamma) + sq dx)
  let x := tp * root
  let dxdb0 := tp * (-(dx / root))
  d * amp * -(2 * sinc x * (dsinc x * dxdb0))
def wasabi_drb1 (b0 rb1 _c d offset tp b1nom gamma : K) : K :=
  let dx := offset - b0
  let b1 := b1nom * rb1
  let w := Transc.pi * b1 * gamma * tp
  let dw := Transc.pi * b1nom * gamma * tp
  let root := sqrt (sq (b1 * gamma) + sq dx)
  let x := tp * root
  let dxdrb1 := tp * (b1 * gamma * (b1nom * gamma) / root)
  d * -(2 * w * dw * sq (sinc x) + sq w * (2 * sinc x * (dsinc x * dxdrb1)))
def wasabi_dc (_b0 _rb1 _c _d _offset _tp _b1nom _gamma : K) : K := 1
def wasabi_dd (b0 rb1 _c _d offset tp b1nom gamma : K) : K :=
  -(sq (Transc.pi * (b1nom * rb1) * gamma * tp) * sq (sinc (tp * sqrt (sq (b1nom * rb1 * gamma) + sq (offset - b0)))))

/-! `wasabiti`: `mz·(1 − 2·amp·sinc(x)²)` with `mz = 1 − exp(−trec/t1)` and `amp`, `x` as for `wasabi`. -/
def wasabiti_db0 (b0 rb1 t1 offset trec tp b1nom gamma : K) : K :=
  let b1 := b1nom * rb1
  let da := offset - b0
  let mz := 1 - exp (-trec / t1)
  let amp := sq (Transc.pi * b1 * gamma * tp)
  let root := sqrt (sq (b1 * gamma) + sq da)
  let x := tp * root
  let dxdb0 := tp * (-(da / root))
  mz * -(2 * amp * (2 * sinc x * (dsinc x * dxdb0)))
def wasabiti_drb1 (b0 rb1 t1 offset trec tp b1nom gamma : K) : K :=
  let b1 := b1nom * rb1
  let da := offset - b0
  let mz := 1 - exp (-trec / t1)
  let w := Transc.pi * b1 * gamma * tp
  let dw := Transc.pi * b1nom * gamma * tp
  let root := sqrt (sq (b1 * gamma) + sq da)
  let x := tp * root
  let dxdrb1 := tp * (b1 * gamma * (b1nom * gamma) / root)
  mz * -(2 * (2 * w * dw * sq (sinc x) + sq w * (2 * sinc x * (dsinc x * dxdrb1))))
def wasabiti_dt1 (b0 rb1 t1 offset trec tp b1nom gamma : K) : K :=
  let b1 := b1nom * rb1
  let da := offset - b0
  let dmz := -(exp (-trec / t1) * (trec / (t1 * t1)))
  dmz * (1 - 2 * sq (Transc.pi * b1 * gamma * tp) * sq (sinc (tp * sqrt (sq (b1 * gamma) + sq da))))

/-! ### ConstraintsOp -/
def sigmoidT (β x : K) : K := 1 / (1 + exp (-(β * x)))
def sigmoidInvT (β p : K) : K := log (p / (1 - p)) / β
/-- `-(1/β)·logsigmoid(−βx) = log(1 + e^{βx})/β` -/
def softplusT (β x : K) : K := log (1 + exp (β * x)) / β
/-- inverse of `softplusT`: `x + log(1 − e^{−βx})/β` -/
def softplusInvT (β y : K) : K := y + log (1 - exp (-(β * y))) / β
/-- the formula of the pinned commit (`β·x + log(−expm1(−βx))`); witness only -/
def softplusInvShipped (β y : K) : K := β * y + log (1 - exp (-(β * y)))

/-- a bound as the user may give it -/
inductive Bound (K : Type) | none | negInf | posInf | fin (v : K)

/-- which transform applies: 0 two-sided, 1 lower only, 2 upper only, 3 unconstrained -/
def boundCase : Bound K → Bound K → Nat
  | .fin _, .fin _ => 0
  | .fin _, .none => 1 | .fin _, .posInf => 1
  | .none, .fin _ => 2 | .negInf, .fin _ => 2
  | _, _ => 3

def constrainFwd (βs βp : K) (lb ub : Bound K) (x : K) : K :=
  match lb, ub with
  | .fin l, .fin u => l + (u - l) * sigmoidT βs x
  | .fin l, .none => l + softplusT βp x
  | .fin l, .posInf => l + softplusT βp x
  | .none, .fin u => u - softplusT βp (-x)
  | .negInf, .fin u => u - softplusT βp (-x)
  | _, _ => x

def constrainInv (βs βp : K) (lb ub : Bound K) (y : K) : K :=
  match lb, ub with
  | .fin l, .fin u => sigmoidInvT βs ((y - l) / (u - l))
  | .fin l, .none => softplusInvT βp (y - l)
  | .fin l, .posInf => softplusInvT βp (y - l)
  | .none, .fin u => -(softplusInvT βp (-(y - u)))
  | .negInf, .fin u => -(softplusInvT βp (-(y - u)))
  | _, _ => y

end M
