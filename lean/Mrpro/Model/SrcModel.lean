/-! Specifications for the translated integer code (`Mrpro/Gen/Src.lean`) that have no other home. -/
namespace M

/-- third axis of an Euler sequence: for a proper sequence (first = last axis) the remaining one -/
def eulerThird (q r s : Int) : Int := if q = s then 3 - q - r else s

/-- Levi-Civita symbol of three axis numbers in {0,1,2}: +1 for cyclic order, -1 for anti-cyclic -/
def leviCivita (q r s : Int) : Int :=
  if (q, r, s) = (0, 1, 2) ∨ (q, r, s) = (1, 2, 0) ∨ (q, r, s) = (2, 0, 1) then 1
  else if (q, r, s) = (0, 2, 1) ∨ (q, r, s) = (2, 1, 0) ∨ (q, r, s) = (1, 0, 2) then -1
  else 0

/-- the formula of `_quaternion_to_euler` -/
def eulerSign (q r s : Int) : Int := Int.fdiv ((q - r) * (r - s) * (s - q)) 2

/-- `KData.from_file`: (n_k1, n_k2) from the unique acquisition counts -/
def shapeKOf (perOtherK2 perOther : List Nat) : Nat × Nat :=
  match perOtherK2, perOther with
  | [c], d :: _ => (c, d / c)
  | _, [d] => (1, d)
  | _, _ => (1, 1)

end M
