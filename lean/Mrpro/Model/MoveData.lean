/-! `MoveDataMixin._to / apply_ / clone`: the object graph of a data container (tensors as leaves
with an identity, nested containers / modules as nodes), the memoised recursive conversion keyed by
identity, and the dtype rule (`to_real()` / `to_complex()` of the requested dtype). -/
namespace M

inductive DKind | bool | int | float | complex
deriving DecidableEq, Repr

structure DType where
  kind : DKind
  bits : Nat
deriving DecidableEq, Repr

def DType.toReal (d : DType) : DType := match d.kind with | .complex => ⟨.float, d.bits / 2⟩ | _ => d
def DType.toComplex (d : DType) : DType := match d.kind with | .float => ⟨.complex, d.bits * 2⟩ | _ => d

/-- `_tensor_to`: floating tensors go to `dtype.to_real()`, complex tensors to `dtype.to_complex()`,
integer and boolean tensors keep their dtype -/
def convertDType (target : Option DType) (d : DType) : DType :=
  match target with
  | none => d
  | some t =>
    match d.kind with
    | .float => t.toReal
    | .complex => t.toComplex
    | _ => d

/-- object graph: a leaf is a tensor object (identity, dtype); equal identities = the same object -/
inductive OTree where
  | leaf (id : Nat) (dt : DType)
  | node (children : List OTree)

/-- identity of the result tensor: `Tensor.to` returns the *same* object when nothing changes and no
copy is requested, otherwise a new one (`fresh id`); the memo makes this a function of the source identity -/
def resultId (fresh : Nat → Nat) (copy : Bool) (target : Option DType) (id : Nat) (dt : DType) : Nat :=
  if copy || convertDType target dt != dt then fresh id else id

mutual
def OTree.to (fresh : Nat → Nat) (copy : Bool) (target : Option DType) : OTree → OTree
  | .leaf id dt => .leaf (resultId fresh copy target id dt) (convertDType target dt)
  | .node cs => .node (OTree.toList fresh copy target cs)
def OTree.toList (fresh : Nat → Nat) (copy : Bool) (target : Option DType) : List OTree → List OTree
  | [] => []
  | c :: cs => OTree.to fresh copy target c :: OTree.toList fresh copy target cs
end

mutual
/-- leaves in field order -/
def OTree.leaves : OTree → List (Nat × DType)
  | .leaf id dt => [(id, dt)]
  | .node cs => OTree.leavesList cs
def OTree.leavesList : List OTree → List (Nat × DType)
  | [] => []
  | c :: cs => c.leaves ++ OTree.leavesList cs
end

mutual
/-- `apply(function)`: `fresh` is the identity of the clone of an object, `g` the identity of what the function returns for it,
`h` the dtype of what it returns -/
def OTree.apply (fresh g : Nat → Nat) (h : DType → DType) : OTree → OTree
  | .leaf id dt => .leaf (g (fresh id)) (h dt)
  | .node cs => .node (OTree.applyList fresh g h cs)
def OTree.applyList (fresh g : Nat → Nat) (h : DType → DType) : List OTree → List OTree
  | [] => []
  | c :: cs => OTree.apply fresh g h c :: OTree.applyList fresh g h cs
end

end M
