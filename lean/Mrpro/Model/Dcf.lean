/-! 1-D density compensation (`dcf_1d`): sorted unique positions, central differences with the edge
rule, division by the multiplicity, mapped back to the input order. -/
namespace M

/-- sorted list of the distinct values -/
def sortedUnique (xs : List Rat) : List Rat := (xs.mergeSort (fun a b => decide (a ≤ b))).eraseDups

/-- cell width of the `i`-th distinct position `u[i]` -/
def cellWidth (u : List Rat) (i : Nat) : Rat :=
  let n := u.length
  if n ≥ 3 then
    if i = 0 then u.getD 1 0 - u.getD 0 0
    else if i = n - 1 then u.getD (n - 1) 0 - u.getD (n - 2) 0
    else (u.getD (i + 1) 0 - u.getD (i - 1) 0) / 2
  else if n = 2 then u.getD 1 0 - u.getD 0 0
  else 1

/-- `dcf_1d(traj)`: every sample gets the width of its cell divided by the number of coincident samples -/
def dcf1d (xs : List Rat) : List Rat :=
  let u := sortedUnique xs
  xs.map (fun x => cellWidth u (u.idxOf x) / ((xs.filter (· == x)).length : Rat))

end M
