import Mrpro.Gen.Consts
/-! `KData.from_file`: the order and shape in which acquisitions are stored depends only on their
encoding indices.  An acquisition is its key (index labels in `KDIM_SORT_LABELS` order), its flag
word and an identity standing for everything stored with it (coil data, trajectory, header). -/
namespace M

structure Acq where
  /-- values of the labels in `KDIM_SORT_LABELS` order (k1, k2, average, …) -/
  key : List Nat
  flags : Nat
  id : Nat
deriving DecidableEq, Repr

/-- `np.lexsort` makes the LAST key the most significant: compare the reversed keys lexicographically -/
def lexLE : List Nat → List Nat → Bool
  | [], _ => true
  | _ :: _, [] => false
  | a :: as, b :: bs => if a < b then true else if b < a then false else lexLE as bs

def Acq.le (a b : Acq) : Bool := lexLE a.key.reverse b.key.reverse

/-- `kdata[sort_idx]`: stable sort by the index labels -/
def loadOrder (l : List Acq) : List Acq := l.mergeSort Acq.le

/-- mask of `DEFAULT_IGNORE_FLAGS` from the generated enum values -/
def flagValue (name : String) : Nat := ((Gen.acqFlagValues.find? (fun p => p.1 == name)).map (·.2)).getD 0
def ignoreMask : Nat := Gen.defaultIgnoreFlags.foldl (fun m n => m ||| flagValue n) 0
/-- `is_image_acquisition` -/
def isImage (flags : Nat) : Bool := (ignoreMask &&& flags) == 0

def isPow2 (n : Nat) : Bool := n != 0 && (n &&& (n - 1)) == 0

/-- number of acquisitions per distinct value of `f` -/
def countsBy (f : Acq → List Nat) (l : List Acq) : List Nat :=
  (l.map f).eraseDups.map (fun k => (l.filter (fun a => f a == k)).length)

/-- `(n_k2, n_k1)` as decided in `from_file` (keys: index 0 = k1, 1 = k2, rest = other) -/
def shapeK (l : List Acq) : Nat × Nat :=
  let perOther := (countsBy (fun a => a.key.drop 2) l).eraseDups
  let perOtherK2 := (countsBy (fun a => a.key.drop 1) l).eraseDups
  match perOtherK2, perOther with
  | [c], d :: _ => (d / c, c)
  | _, [d] => (d, 1)
  | _, _ => (1, 1)

/-- readout axis: `linspace(0, n-1, n) - center_sample`, flipped for reversed readouts -/
def kfreq (n : Nat) (center : Int) (reversed : Bool) (j : Nat) : Int :=
  if reversed then ((n - 1 - j : Nat) : Int) - center else (j : Int) - center

/-- `KTrajectoryRpe`: radial position of phase-encoding step `k1` on the radial line `k2`: `k1 - centre`, shifted along
the line by `shifts[k2 mod len]`; the k-space centre is not shifted -/
def rpeKrad (shifts : List Rat) (centre : Int) (k1 k2 : Nat) : Rat :=
  let r : Int := (k1 : Int) - centre
  if r = 0 then 0 else (r : Rat) + shifts.getD (k2 % shifts.length) 0

/-! ### `KTrajectoryPulseq`: rescaling of the sequence's k-space positions to encoding-matrix units -/
def absR (x : Rat) : Rat := if x < 0 then -x else x
def maxR (a b : Rat) : Rat := if a ≤ b then b else a
/-- `torch.max(torch.abs(k))` -/
def maxAbs (k : List Rat) : Rat := k.foldl (fun m x => maxR m (absR x)) 0
/-- `k_traj * (encoding_size / (2 * k_max))` -/
def pulseqScale (x enc km : Rat) : Rat := x * enc / (2 * km)
/-- a direction whose extent is below this fraction of the largest extent is "not encoded" -/
def pulseqThreshold : Rat := 1 / 1000000
/-- `reshape_pulseq_traj` before the reshape: a direction is rescaled with ITS OWN extent `maxAbs k`; `kmaxAll` (the extent
over all directions) only decides whether the direction is encoded at all -/
def pulseqAxis (k : List Rat) (enc : Nat) (kmaxAll : Rat) : List Rat :=
  if pulseqThreshold * kmaxAll < maxAbs k then k.map (fun x => pulseqScale x (enc : Rat) (maxAbs k)) else k.map (fun _ => 0)
/-- `(kz, ky, kx)` of `KTrajectoryPulseq.__call__` for the sequence positions `(kx, ky, kz)` and the encoding matrix -/
def pulseqTraj (kx ky kz : List Rat) (nx ny nz : Nat) : List Rat × List Rat × List Rat :=
  let all := maxR (maxAbs kx) (maxR (maxAbs ky) (maxAbs kz))
  (pulseqAxis kz nz all, pulseqAxis ky ny all, pulseqAxis kx nx all)

end M
