import Mrpro.Model.Rotation
/-! `mrpro.data.Rotation` as a *batch*: the class stores a tensor of quaternions `(..., 4)` and, separately,
a boolean tensor `_is_improper` of shape `(...)`. Indexing, item assignment, concatenation, reshape,
`invert_axes`, `@` with a single rotation and the quaternion component setters act on the two tensors one
after the other. The batch is modelled flattened (row-major): two lists, edited *separately*, exactly as
the Python edits the two tensors; `RotBatch.toList` zips them into the list of single rotations `Rot K` of
`Mrpro/Model/Rotation.lean`. `Mrpro/Lemmas/RotBatchL.lean` proves that every edit is the element-wise edit
of that list (flags included). -/
namespace M

deriving instance DecidableEq for Rot

/-! ### one tensor: advanced indexing with a list of (resolved, non-negative) flat indices -/
section Tensor
variable {α : Type}

/-- `t[idx]` (advanced indexing, also an int or a slice after resolution to flat indices); an index out
of range is torch's `IndexError` → `none` -/
def gather? (xs : List α) : List Nat → Option (List α)
  | [] => some []
  | i :: is =>
    match xs[i]?, gather? xs is with
    | some x, some r => some (x :: r)
    | _, _ => none

/-- broadcasting of the assigned value against `k` index positions: a single value is repeated, anything
else is taken as is (and must then have `k` entries, see `tensorSet?`) -/
def bcast (k : Nat) : List α → List α
  | [v] => List.replicate k v
  | vs => vs

/-- the writes of `t[idx] = vs` in order: position `idx[k]` receives `vs[k]`; for a repeated index the
later write wins (a write out of range is dropped here and rejected in `tensorSet?`) -/
def writeList (xs : List α) (idx : List Nat) (vs : List α) : List α :=
  (idx.zip vs).foldl (fun acc p => acc.set p.1 p.2) xs

/-- `t[idx] = vs` with torch's checks: every index in range, and the value either a single entry
(broadcast) or one entry per index -/
def tensorSet? (xs : List α) (idx : List Nat) (vs : List α) : Option (List α) :=
  if idx.all (· < xs.length) ∧ (bcast idx.length vs).length = idx.length then
    some (writeList xs idx (bcast idx.length vs))
  else none

/-- `t.reshape(shape)` on the flat data: identity, rejected when the number of elements differs -/
def tensorReshape? (xs : List α) (shape : List Nat) : Option (List α) :=
  if shape.foldl (· * ·) 1 = xs.length then some xs else none

end Tensor

/-! ### quaternion components -/
section Comp
variable {K : Type}

/-- overwrite storage component `c` (`0, 1, 2`, anything else = `3` = `w`) -/
def Q.setComp (q : Q K) (c : Nat) (x : K) : Q K :=
  if c = 0 then { q with a := x } else if c = 1 then { q with b := x }
  else if c = 2 then { q with c := x } else { q with w := x }

/-- read storage component `c` (same convention) -/
def Q.getComp (q : Q K) (c : Nat) : K :=
  if c = 0 then q.a else if c = 1 then q.b else if c = 2 then q.c else q.w

/-- element-wise counterpart on a single rotation: the flag is not touched -/
def Rot.setComp (r : Rot K) (c : Nat) (x : K) : Rot K := ⟨r.q.setComp c x, r.improper⟩

/-- `quats[i, c] = x` (no-op out of range) -/
def setCompAt (c : Nat) (qs : List (Q K)) (i : Nat) (x : K) : List (Q K) :=
  match qs[i]? with
  | some q => qs.set i (q.setComp c x)
  | none => qs

/-- the same on a list of rotations -/
def rotSetCompAt (c : Nat) (rs : List (Rot K)) (i : Nat) (x : K) : List (Rot K) :=
  match rs[i]? with
  | some r => rs.set i (r.setComp c x)
  | none => rs
end Comp

/-- the flattened batch: `_quaternions.reshape(-1, 4)` and `_is_improper.reshape(-1)` -/
structure RotBatch (K : Type) where
  qs : List (Q K)
  flags : List Bool
deriving DecidableEq

namespace RotBatch
variable {K : Type}

/-- the two tensors describe the same batch shape -/
def WF (b : RotBatch K) : Prop := b.qs.length = b.flags.length

instance (b : RotBatch K) : Decidable b.WF := by unfold WF; infer_instance

/-- the rotations of the batch, in row-major order -/
def toList (b : RotBatch K) : List (Rot K) := List.zipWith Rot.mk b.qs b.flags

def ofList (rs : List (Rot K)) : RotBatch K := ⟨rs.map Rot.q, rs.map Rot.improper⟩

/-- `__len__` of a one-dimensional batch / number of elements -/
def size (b : RotBatch K) : Nat := b.qs.length

/-- `__getitem__`: `Rotation(self._quaternions[idx, :], inversion=self._is_improper[idx])`; each tensor is
indexed (and range-checked) on its own -/
def getIdx? (b : RotBatch K) (idx : List Nat) : Option (RotBatch K) :=
  match gather? b.qs idx, gather? b.flags idx with
  | some q, some f => some ⟨q, f⟩
  | _, _ => none

/-- `__setitem__` without torch's checks: `quat, inversion = value.as_quat(improper='inversion')`,
`self._quaternions[idx, :] = quat`, then `self._is_improper[idx] = inversion` — two separate writes, each
with its own broadcasting of a single value -/
def setIdx (b : RotBatch K) (idx : List Nat) (value : RotBatch K) : RotBatch K :=
  ⟨writeList b.qs idx (bcast idx.length value.qs), writeList b.flags idx (bcast idx.length value.flags)⟩

/-- `__setitem__` with torch's checks on each of the two writes (`IndexError` / shape mismatch → `none`) -/
def setIdx? (b : RotBatch K) (idx : List Nat) (value : RotBatch K) : Option (RotBatch K) :=
  match tensorSet? b.qs idx value.qs, tensorSet? b.flags idx value.flags with
  | some q, some f => some ⟨q, f⟩
  | _, _ => none

/-- `Rotation.concatenate([a, b])`: `torch.cat` of the quaternions and `torch.cat` of the flags -/
def concat (a b : RotBatch K) : RotBatch K := ⟨a.qs ++ b.qs, a.flags ++ b.flags⟩

/-- `Rotation.concatenate(rotations)` -/
def concatAll (bs : List (RotBatch K)) : RotBatch K := ⟨bs.flatMap qs, bs.flatMap flags⟩

/-- `reshape`: both tensors are reshaped; the flat data do not move -/
def reshape (b : RotBatch K) (_shape : List Nat) : RotBatch K := ⟨b.qs, b.flags⟩

/-- `reshape` with the element-count check of each of the two `Tensor.reshape` calls -/
def reshape? (b : RotBatch K) (shape : List Nat) : Option (RotBatch K) :=
  match tensorReshape? b.qs shape, tensorReshape? b.flags shape with
  | some q, some f => some ⟨q, f⟩
  | _, _ => none

/-- `invert_axes`: quaternions cloned, `~self._is_improper` -/
def invertAxes (b : RotBatch K) : RotBatch K := ⟨b.qs, b.flags.map (!·)⟩

/-- writing component `c` of the selected quaternions only, `self._quaternions[idx, c] = xs` (what
`rot.quaternion_x[idx] = xs` does through the view returned by the getter); `_is_improper` is not touched -/
def setComponentAt (b : RotBatch K) (c : Nat) (idx : List Nat) (xs : List K) : RotBatch K :=
  ⟨(idx.zip (bcast idx.length xs)).foldl (fun acc p => setCompAt c acc p.1 p.2) b.qs, b.flags⟩

/-- `quaternion_x/y/z/w` setter, `self._quaternions[..., c] = x` with a tensor `xs` of the batch shape or
a single number (broadcast): component `c` of *all* quaternions; `_is_improper` is not touched -/
def setComponent (b : RotBatch K) (c : Nat) (xs : List K) : RotBatch K :=
  b.setComponentAt c (List.range b.qs.length) xs

section Mul
variable [Add K] [Sub K] [Mul K]

/-- `p @ batch` for a single `p`: the `(1, 4)` quaternion and the `(1,)` flag of `p` are broadcast against
the batch, `_compose_quaternions(p, q)` and `p._is_improper ^ q._is_improper` (before re-normalisation) -/
def mapMul (p : Rot K) (b : RotBatch K) : RotBatch K :=
  ⟨b.qs.map (Q.mul p.q), b.flags.map (xor p.improper)⟩

/-- `batch @ p` for a single `p` -/
def mapMulRight (b : RotBatch K) (p : Rot K) : RotBatch K :=
  ⟨b.qs.map (fun q => Q.mul q p.q), b.flags.map (fun f => xor f p.improper)⟩

/-- `a @ b` for two batches of the same shape -/
def zipMul (a b : RotBatch K) : RotBatch K :=
  ⟨List.zipWith Q.mul a.qs b.qs, List.zipWith xor a.flags b.flags⟩
end Mul

end RotBatch

/-! ### edit histories -/

/-- an in-place or functional edit of a batch -/
inductive Edit (K : Type) where
  | setItem (idx : List Nat) (value : RotBatch K)
  | setComponent (c : Nat) (xs : List K)
  | setComponentAt (c : Nat) (idx : List Nat) (xs : List K)
  | invertAxes
  | reshape (shape : List Nat)
  | append (other : RotBatch K)
  | mulLeft (p : Rot K)
  | mulRight (p : Rot K)

section EditSem
variable {K : Type} [Add K] [Sub K] [Mul K]

/-- the edit as the Python performs it: on the two tensors -/
def Edit.apply (b : RotBatch K) : Edit K → RotBatch K
  | .setItem idx v => b.setIdx idx v
  | .setComponent c xs => b.setComponent c xs
  | .setComponentAt c idx xs => b.setComponentAt c idx xs
  | .invertAxes => b.invertAxes
  | .reshape s => b.reshape s
  | .append o => b.concat o
  | .mulLeft p => RotBatch.mapMul p b
  | .mulRight p => b.mapMulRight p

/-- the same edit on the list of single rotations -/
def Edit.applyList (rs : List (Rot K)) : Edit K → List (Rot K)
  | .setItem idx v => writeList rs idx (bcast idx.length v.toList)
  | .setComponent c xs =>
    ((List.range rs.length).zip (bcast rs.length xs)).foldl (fun acc p => rotSetCompAt c acc p.1 p.2) rs
  | .setComponentAt c idx xs => (idx.zip (bcast idx.length xs)).foldl (fun acc p => rotSetCompAt c acc p.1 p.2) rs
  | .invertAxes => rs.map Rot.invertAxes
  | .reshape _ => rs
  | .append o => rs ++ o.toList
  | .mulLeft p => rs.map (Rot.mul p)
  | .mulRight p => rs.map (fun r => Rot.mul r p)

/-- the value assigned by an edit is itself a well-formed batch -/
def Edit.WF : Edit K → Prop
  | .setItem _ v => v.WF
  | .append o => o.WF
  | _ => True
end EditSem

end M
