/-! `DcfData.from_traj_voronoi`: how a (partially broadcast) trajectory is decomposed into 1-D factors and one joint
Voronoi tessellation.  A layout says for each direction (kz, ky, kx) along which of the dimensions (k2, k1, k0) it
varies (is not a singleton).  The weights are the product of one 1-D weight per dimension along which exactly one
direction varies, and the cell volumes of the joint tessellation of all directions that share a dimension with another
one.  Scaling k-space by `a` scales every 1-D factor by `|a|` and the joint tessellation by `|a|^(number of its
directions)`: `degree` is the exponent the code has, `dEnc` the exponent the weights of a `d`-dimensional point set must
have. -/
namespace M.DcfLayout

/-- `v[i][d]`: direction `i` (0 = kz, 1 = ky, 2 = kx) varies along dimension `d` (0 = k2, 1 = k1, 2 = k0) -/
abbrev Layout := List (List Bool)

def varies (L : Layout) (i d : Nat) : Bool := (L.getD i []).getD d false

/-- directions varying along dimension `d` -/
def along (L : Layout) (d : Nat) : List Nat := (List.range 3).filter (fun i => varies L i d)

/-- `(dim, direction)` of the 1-D factors AS SHIPPED (before the repair): every dimension along which exactly one direction varies -/
def oneDShipped (L : Layout) : List (Nat × Nat) :=
  (List.range 3).filterMap (fun d => match along L d with | [i] => some (d, i) | _ => none)

/-- directions in the joint tessellation: the union over the dimensions along which more than one direction varies -/
def joint (L : Layout) : List Nat :=
  (List.range 3).filter (fun i => (List.range 3).any (fun d => varies L i d && decide (2 ≤ (along L d).length)))

/-- directions that get a 1-D factor: not part of the joint tessellation and alone along at least one dimension (the factor is
computed over all dimensions along which the direction is the only one varying) -/
def oneD (L : Layout) : List Nat :=
  (List.range 3).filter (fun i => !(joint L).contains i && (List.range 3).any (fun d => along L d == [i]))

/-- exponent of `|a|` in the weights computed by the code -/
def degree (L : Layout) : Nat := (oneD L).length + (joint L).length

/-- exponent of the code as shipped: one factor per dimension with a single varying direction, plus the joint tessellation -/
def degreeShipped (L : Layout) : Nat := (oneDShipped L).length + (joint L).length

/-- number of directions with an extent: the exponent the cell volumes of the sample points have -/
def dEnc (L : Layout) : Nat := ((List.range 3).filter (fun i => (List.range 3).any (fun d => varies L i d))).length

/-- how often direction `i` enters the product: once per 1-D factor, once if it is in the joint tessellation -/
def count (L : Layout) (i : Nat) : Nat := (if (oneD L).contains i then 1 else 0) + (if (joint L).contains i then 1 else 0)
def countShipped (L : Layout) (i : Nat) : Nat := ((oneDShipped L).filter (fun p => p.2 == i)).length + (if (joint L).contains i then 1 else 0)

/-- no direction was counted twice by the shipped decomposition -/
def wellFormedShipped (L : Layout) : Bool := (List.range 3).all (fun i => decide (countShipped L i ≤ 1))

/-- the layout given by nine flags, row-major: kz along (k2,k1,k0), ky …, kx … -/
def ofFlags (a b c d e f g h i : Bool) : Layout := [[a, b, c], [d, e, f], [g, h, i]]

end M.DcfLayout
