import Mrpro.Model.Ops
import Mrpro.Model.Index
/-! N-D tensors (shape + flat row-major data) and the N-D operators of the library as folds of
`applyAlong` over their `dim` arguments.  Error branches of the real code are explicit
(`Except ErrKind`), never totalised. -/
namespace M

inductive ErrKind | indexError | valueError | notImplemented
deriving DecidableEq, Repr

def ErrKind.toString : ErrKind → String
  | .indexError => "IndexError" | .valueError => "ValueError" | .notImplemented => "NotImplementedError"

structure Tensor (K : Type) where
  shape : List Nat
  get : Nat → K

namespace Tensor
variable {K : Type}
def size (t : Tensor K) : Nat := prodL t.shape
def ndim (t : Tensor K) : Nat := t.shape.length
def toList (t : Tensor K) : List K := (List.range t.size).map t.get
def ofList [Inhabited K] (shape : List Nat) (l : List K) : Tensor K :=
  let a := l.toArray
  ⟨shape, fun i => a.getD i default⟩
def memo [Inhabited K] (t : Tensor K) : Tensor K :=
  let a := tabulate t.size t.get
  ⟨t.shape, fun i => a.getD i default⟩
end Tensor

/-- apply `op : K^n → K^m` (which may depend on the fibre lengths) along axis `a` -/
def alongAxis {K : Type} (t : Tensor K) (a : Nat) (m : Nat) (op : (Nat → K) → (Nat → K)) : Tensor K :=
  let n := t.shape.getD a 1
  let inner := prodL (t.shape.drop (a + 1))
  ⟨t.shape.set a m, applyAlong inner n m op t.get⟩

variable {K : Type} [Inhabited K]

/-- `zero_pad_or_crop(data, new_shape, dim)` with an explicit `dim` -/
def zeroPadOrCrop [OfNat K 0] (t : Tensor K) (newShape : List Nat) (dims : List Int) :
    Except ErrKind (Tensor K) := do
  if newShape.length > t.ndim then throw .valueError
  if newShape.length ≠ dims.length then throw .valueError
  let ds ← match dims.mapM (normIndex t.ndim) with
    | some ds => pure ds
    | none => throw .indexError
  if ¬ ds.Nodup then throw .valueError
  let mut r := t
  for (d, new) in ds.zip newShape do
    let old := r.shape.getD d 1
    r := (alongAxis r d new (padCrop old new)).memo
  return r

/-- `dim = None`: the last `len(new_shape)` axes -/
def zeroPadOrCropLast [OfNat K 0] (t : Tensor K) (newShape : List Nat) : Except ErrKind (Tensor K) :=
  if newShape.length > t.ndim then throw .valueError
  else zeroPadOrCrop t newShape
    ((List.range newShape.length).map (fun (i : Nat) => (i : Int) - (newShape.length : Int)))

end M
