import Mrpro.Model.Tensor
import Mrpro.Gen.Consts
/-! The library's structural linear operators on N-D tensors, each with its `forward` and its
`adjoint` code path, built from the 1-D cores of `Ops.lean` with `applyAlong`. -/
namespace M
variable {K : Type} [Inhabited K]

/-! ### ZeroPadOp -/
def zeroPadOpFwd [OfNat K 0] (dims : List Int) (_orig padded : List Nat) (x : Tensor K) :=
  zeroPadOrCrop x padded dims
def zeroPadOpAdj [OfNat K 0] (dims : List Int) (orig _padded : List Nat) (y : Tensor K) :=
  zeroPadOrCrop y orig dims

/-! ### FiniteDifferenceOp -/
def fdKernel (mode : String) : Option (List Rat) :=
  if mode = "forward" then some Gen.fdKernel_forward
  else if mode = "backward" then some Gen.fdKernel_backward
  else if mode = "central" then some Gen.fdKernel_central
  else none

def corr3L [Add K] [Mul K] [OfNat K 0] (circular : Bool) (k : List K) (n : Nat) (x : Nat → K) : Nat → K :=
  match k with
  | [k0, k1, k2] => corr3 circular k0 k1 k2 n x
  | _ => x

/-- `filter_separable(x, (kernel,), (dim,))` for a 3-tap kernel: the axis is `dim % ndim` -/
def filter3 [Add K] [Mul K] [OfNat K 0] (circular : Bool) (k : List K) (dim : Int) (x : Tensor K) : Tensor K :=
  let a := pyMod x.ndim dim
  let n := x.shape.getD a 1
  (alongAxis x a n (corr3L circular k n)).memo

/-- stack tensors of equal shape along a new leading axis -/
def stack (ts : List (Tensor K)) : Tensor K :=
  match ts with
  | [] => ⟨[0], fun _ => default⟩
  | t :: _ =>
    let sz := t.size
    let arr := ts.toArray
    ⟨ts.length :: t.shape, fun f => ((arr.getD (f / sz) t).get (f % sz))⟩

def fdFwd [Add K] [Mul K] [OfNat K 0] (ofRat : Rat → K) (dims : List Int) (mode : String) (circular : Bool)
    (x : Tensor K) : Except ErrKind (Tensor K) :=
  match fdKernel mode with
  | none => throw .valueError
  | some k => pure (stack (dims.map (fun d => filter3 circular (k.map ofRat) d x))).memo

def fdAdj [Add K] [Mul K] [OfNat K 0] (ofRat : Rat → K) (dims : List Int) (mode : String) (circular : Bool)
    (y : Tensor K) : Except ErrKind (Tensor K) :=
  match fdKernel mode with
  | none => throw .valueError
  | some k =>
    match y.shape with
    | [] => throw .valueError
    | n0 :: rest =>
      if n0 ≠ dims.length then throw .valueError else
      let sz := prodL rest
      let parts := (List.range dims.length).zip dims |>.map (fun (i, d) =>
        filter3 circular (k.reverse.map ofRat) d ⟨rest, fun f => y.get (i * sz + f)⟩)
      pure (Tensor.memo ⟨rest, fun f => parts.foldl (fun acc p => acc + p.get f) 0⟩)

/-! ### SensitivityOp, DensityCompensationOp, EinsumOp (canonical layouts) -/

/-- csm `[Bc, C, n]` with `Bc ∈ {1, B}`, image `[B, n]` → `[B, C, n]` -/
def sensOpFwd [Mul K] (bc c n : Nat) (csm : Nat → K) (x : Tensor K) : Tensor K :=
  let b := x.size / n
  ⟨[b, c, n], fun f =>
    let bi := f / (c * n)
    sensFwd n (fun g => csm ((if bc = 1 then 0 else bi) * c * n + g)) (fun i => x.get (bi * n + i)) (f % (c * n))⟩
def sensOpAdj [Add K] [Mul K] [OfNat K 0] [Conj K] (bc c n : Nat) (csm : Nat → K) (y : Tensor K) : Tensor K :=
  let b := y.size / (c * n)
  ⟨[b, n], fun f =>
    let bi := f / n
    sensAdj c n (fun g => csm ((if bc = 1 then 0 else bi) * c * n + g)) (fun g => y.get (bi * c * n + g)) (f % n)⟩

/-- dcf `[Bd, n]` with `Bd ∈ {1, B}`, data `[B, C, n]` -/
def dcfOpFwd [Mul K] (bd c n : Nat) (d : Nat → K) (x : Tensor K) : Tensor K :=
  ⟨x.shape, fun f => let bi := f / (c * n); d ((if bd = 1 then 0 else bi) * n + f % n) * x.get f⟩
def dcfOpAdj [Mul K] [Conj K] (bd c n : Nat) (d : Nat → K) (y : Tensor K) : Tensor K :=
  ⟨y.shape, fun f => let bi := f / (c * n); conj (d ((if bd = 1 then 0 else bi) * n + f % n)) * y.get f⟩

/-- default einsum rule `... i j, ... j -> ... i`: A `[Ba, m, n]`, x `[B, n]` → `[B, m]` -/
def einsumOpFwd [Add K] [Mul K] [OfNat K 0] (ba m n : Nat) (A : Nat → K) (x : Tensor K) : Tensor K :=
  let b := x.size / n
  ⟨[b, m], fun f => let bi := f / m
    matVec n (fun g => A ((if ba = 1 then 0 else bi) * m * n + g)) (fun j => x.get (bi * n + j)) (f % m)⟩
def einsumOpAdj [Add K] [Mul K] [OfNat K 0] [Conj K] (ba m n : Nat) (A : Nat → K) (y : Tensor K) : Tensor K :=
  let b := y.size / m
  ⟨[b, n], fun f => let bi := f / n
    matVecH m n (fun g => A ((if ba = 1 then 0 else bi) * m * n + g)) (fun i => y.get (bi * m + i)) (f % n)⟩

/-! ### RearrangeOp: axis permutation (grouping of axes is free in row-major layout) -/
def unravel (shape : List Nat) (flat : Nat) : List Nat :=
  (shape.foldr (fun s (acc : List Nat × Nat) => ((acc.2 % s) :: acc.1, acc.2 / s)) ([], flat)).1
def ravel (shape idx : List Nat) : Nat :=
  (shape.zip idx).foldl (fun acc (s, i) => acc * s + i) 0

/-- out has shape `perm.map shape[·]`; out[j₀,…] = x[i] with `i[perm[k]] = j[k]` (torch.permute) -/
def permuteAxes (perm : List Nat) (x : Tensor K) : Tensor K :=
  let oshape := perm.map (fun p => x.shape.getD p 1)
  ⟨oshape, fun f =>
    let j := unravel oshape f
    let i := (List.range x.ndim).map (fun a => j.getD (perm.idxOf a) 0)
    x.get (ravel x.shape i)⟩
def inversePerm (perm : List Nat) : List Nat := (List.range perm.length).map (fun a => perm.idxOf a)

/-! ### CartesianSamplingOp -/

/-- trajectory component: shape `(other,k2,k1,k0)` with broadcastable singleton dims and exact values -/
structure TrajComp where
  shape : List Nat
  vals : Array Rat

/-- round half to even on rationals (`torch.round`) -/
def roundHalfEven (r : Rat) : Int :=
  let fl := r.floor
  let d := r - fl
  if d < 1/2 then fl else if d > 1/2 then fl + 1 else if fl % 2 = 0 then fl else fl + 1

def TrajComp.onGrid (t : TrajComp) (tol : Rat) : Bool :=
  t.vals.all (fun v => let e := v - roundHalfEven v; (if e < 0 then -e else e) ≤ tol)
/-- `type == TrajType.ONGRID` exactly: values on the grid and not all of (k2,k1,k0) singleton -/
def TrajComp.isOnGridOnly (t : TrajComp) (tol : Rat) : Bool :=
  t.onGrid tol && !((t.shape.drop 1).all (· = 1))
/-- value at a broadcast multi-index -/
def TrajComp.at (t : TrajComp) (idx : List Nat) : Rat :=
  let i := (t.shape.zip idx).map (fun (s, i) => if s = 1 then 0 else i)
  t.vals.getD (ravel t.shape i) 0

structure CartSamp where
  /-- broadcast trajectory shape (other,k2,k1,k0) -/
  tshape : List Nat
  /-- sorted grid shape (z,y,x) after replacing non-grid axes by the trajectory shape -/
  grid : List Nat
  /-- per (other, sample) flat grid index, `none` when outside the encoding matrix -/
  idx : Nat → Nat → Option Nat

def cartSampInit (nz ny nx : Nat) (tshape : List Nat) (kz ky kx : TrajComp) (tol : Rat) : CartSamp :=
  let k2 := tshape.getD 1 1; let k1 := tshape.getD 2 1; let k0 := tshape.getD 3 1
  let gz := kz.isOnGridOnly tol; let gy := ky.isOnGridOnly tol; let gx := kx.isOnGridOnly tol
  let sz := if gz then nz else k2
  let sy := if gy then ny else k1
  let sx := if gx then nx else k0
  let S := k2 * k1 * k0
  { tshape := tshape, grid := [sz, sy, sx],
    idx := fun o s =>
      let m := o :: unravel [k2, k1, k0] s
      let iz : Option Nat := if gz then axisIdx sz (roundHalfEven (kz.at m)) else some (m.getD 1 0)
      let iy : Option Nat := if gy then axisIdx sy (roundHalfEven (ky.at m)) else some (m.getD 2 0)
      let ix : Option Nat := if gx then axisIdx sx (roundHalfEven (kx.at m)) else some (m.getD 3 0)
      if s < S then
        match iz, iy, ix with
        | some z, some y, some x => some (z * sy * sx + y * sx + x)
        | _, _, _ => none
      else none }

/-- data `[B, C, G]` (B = other, broadcast against the trajectory's other ∈ {1,B}) → `[B, C, S]` -/
def cartSampFwd [OfNat K 0] (cs : CartSamp) (x : Tensor K) : Except ErrKind (Tensor K) :=
  match x.shape with
  | [b, c, g] =>
    let G := prodL cs.grid
    if g ≠ G then throw .valueError else
    let S := prodL (cs.tshape.drop 1)
    let o1 := cs.tshape.getD 0 1
    pure ⟨[b, c, S], fun f =>
      let bi := f / (c * S); let ci := f / S % c
      gather G (cs.idx (if o1 = 1 then 0 else bi)) (fun i => x.get ((bi * c + ci) * G + i)) (f % S)⟩
  | _ => throw .valueError

def cartSampAdj [Add K] [OfNat K 0] (cs : CartSamp) (y : Tensor K) : Except ErrKind (Tensor K) :=
  match y.shape with
  | [b, c, s] =>
    let G := prodL cs.grid
    let S := prodL (cs.tshape.drop 1)
    if s ≠ S then throw .valueError else
    let o1 := cs.tshape.getD 0 1
    pure ⟨[b, c, G], fun f =>
      let bi := f / (c * G); let ci := f / G % c
      scatterAdd S (cs.idx (if o1 = 1 then 0 else bi)) (fun i => y.get ((bi * c + ci) * S + i)) (f % G)⟩
  | _ => throw .valueError

end M
