import Mrpro.Lemmas.RotvecL
import Mrpro.Lemmas.RotationL
/-! `Rotation.__pow__`: `p ** x = from_rotvec (x · p.as_rotvec())` for every real `x`, over ℝ
(`realTrig`). For a unit quaternion in canonical form (`w ≥ 0`; `as_rotvec` canonicalises first) the
power is the rotation about the same axis by `x` times the angle, `x ↦ p ** x` is a one-parameter
subgroup, and for integers `p ** n` is the `|n|`-fold product of `p` (or of its inverse). -/
namespace M

/-- `p ** x` on the quaternion: `from_rotvec (x · as_rotvec q)` (`q` canonical) -/
noncomputable def powQ (x : ℝ) (q : Q ℝ) : Q ℝ :=
  fromRotvecG realTrig
    ⟨x * (toRotvecG realTrig q).x0, x * (toRotvecG realTrig q).x1, x * (toRotvecG realTrig q).x2⟩

/-- length of the vector part -/
noncomputable def vnorm (q : Q ℝ) : ℝ := Real.sqrt (q.a * q.a + q.b * q.b + q.c * q.c)
/-- rotation angle `2·atan2(‖(a,b,c)‖, w)` as computed by `as_rotvec` -/
noncomputable def qAngle (q : Q ℝ) : ℝ := 2 * Complex.arg ⟨q.w, vnorm q⟩
/-- rotation axis: normalised vector part -/
noncomputable def qAxis (q : Q ℝ) : V3 ℝ := ⟨q.a / vnorm q, q.b / vnorm q, q.c / vnorm q⟩

theorem vnorm_mul_self (q : Q ℝ) : vnorm q * vnorm q = q.a * q.a + q.b * q.b + q.c * q.c :=
  Real.mul_self_sqrt
    (add_nonneg (add_nonneg (mul_self_nonneg _) (mul_self_nonneg _)) (mul_self_nonneg _))

/-- the axis of a quaternion with non-zero vector part is a unit vector -/
theorem qAxis_unit (q : Q ℝ) (hs : vnorm q ≠ 0) :
    (qAxis q).x0 * (qAxis q).x0 + (qAxis q).x1 * (qAxis q).x1 + (qAxis q).x2 * (qAxis q).x2 = 1 := by
  have h := vnorm_mul_self q
  simp only [qAxis]
  field_simp
  linarith [h, sq (vnorm q)]

/-- a unit quaternion with vanishing vector part and `w ≥ 0` is the identity -/
theorem eq_one_of_vnorm_zero (q : Q ℝ) (hq : q.normSq = 1) (hw : 0 ≤ q.w) (hs : vnorm q = 0) :
    q = ⟨0, 0, 0, 1⟩ := by
  obtain ⟨a, b, c, w⟩ := q
  have h := vnorm_mul_self ⟨a, b, c, w⟩
  rw [hs, mul_zero] at h
  simp only [Q.normSq] at hq
  simp only at hw h
  have ha : a = 0 := by nlinarith [mul_self_nonneg a, mul_self_nonneg b, mul_self_nonneg c]
  have hb : b = 0 := by nlinarith [mul_self_nonneg a, mul_self_nonneg b, mul_self_nonneg c]
  have hc : c = 0 := by nlinarith [mul_self_nonneg a, mul_self_nonneg b, mul_self_nonneg c]
  subst ha hb hc
  have hw1 : w = 1 := by
    have : (w - 1) * (w + 1) = 0 := by linarith
    rcases mul_eq_zero.mp this with h | h <;> linarith
  rw [hw1]

/-- `p ** x` of the identity (more generally of `(0,0,0,w)`) is the identity -/
theorem powQ_of_vec_zero (x w : ℝ) : powQ x ⟨0, 0, 0, w⟩ = ⟨0, 0, 0, 1⟩ := by
  simp only [powQ, toRotvecG_zero, mul_zero]
  exact fromRotvecG_zero realTrig_spec

/-- Item 1 without the canonical-form hypothesis: a unit quaternion with non-zero vector part is
`axisAngle (qAxis q) (qAngle q)` and `powQ x q = axisAngle (qAxis q) (x · qAngle q)` for every real `x`
(including `x = 0`, the `sinc` branch, and `x < 0`, where `from_rotvec` sees the flipped axis and the
positive angle `|x|·θ`). -/
theorem powQ_eq_axisAngle' (q : Q ℝ) (hq : q.normSq = 1) (hs : vnorm q ≠ 0) (x : ℝ) :
    q = axisAngle (qAxis q) (qAngle q) ∧ powQ x q = axisAngle (qAxis q) (x * qAngle q) := by
  have hss := vnorm_mul_self q
  obtain ⟨a, b, c, w⟩ := q
  simp only [Q.normSq] at hq
  simp only at hss
  have hs0 : 0 ≤ vnorm ⟨a, b, c, w⟩ := Real.sqrt_nonneg _
  have hsw : vnorm ⟨a, b, c, w⟩ * vnorm ⟨a, b, c, w⟩ + w * w = 1 := by rw [hss]; exact hq
  obtain ⟨hh0, hsin, hcos⟩ := realTrig_spec.atan2_spec _ w hs0 hsw
  have hsinc := fun h hh => sincG_half realTrig_spec (h := h) hh
  simp only [qAxis, qAngle]
  change 0 ≤ Complex.arg ⟨w, vnorm ⟨a, b, c, w⟩⟩ at hh0
  change Real.sin (Complex.arg ⟨w, vnorm ⟨a, b, c, w⟩⟩) = vnorm ⟨a, b, c, w⟩ at hsin
  change Real.cos (Complex.arg ⟨w, vnorm ⟨a, b, c, w⟩⟩) = w at hcos
  have hto : toRotvecG realTrig ⟨a, b, c, w⟩ =
      ⟨2 / (vnorm ⟨a, b, c, w⟩ / Complex.arg ⟨w, vnorm ⟨a, b, c, w⟩⟩) * a,
       2 / (vnorm ⟨a, b, c, w⟩ / Complex.arg ⟨w, vnorm ⟨a, b, c, w⟩⟩) * b,
       2 / (vnorm ⟨a, b, c, w⟩ / Complex.arg ⟨w, vnorm ⟨a, b, c, w⟩⟩) * c⟩ := by
    have hh : Complex.arg ⟨w, vnorm ⟨a, b, c, w⟩⟩ ≠ 0 := by
      intro h0
      apply hs
      rw [← hsin, h0, Real.sin_zero]
    have := hsinc _ hh
    change sincG realTrig (2 * Complex.arg ⟨w, vnorm ⟨a, b, c, w⟩⟩ / (2 * Real.pi))
      = Real.sin (Complex.arg ⟨w, vnorm ⟨a, b, c, w⟩⟩) / Complex.arg ⟨w, vnorm ⟨a, b, c, w⟩⟩ at this
    rw [hsin] at this
    change (⟨2 / sincG realTrig (2 * Complex.arg ⟨w, vnorm ⟨a, b, c, w⟩⟩ / (2 * Real.pi)) * a,
      2 / sincG realTrig (2 * Complex.arg ⟨w, vnorm ⟨a, b, c, w⟩⟩ / (2 * Real.pi)) * b,
      2 / sincG realTrig (2 * Complex.arg ⟨w, vnorm ⟨a, b, c, w⟩⟩ / (2 * Real.pi)) * c⟩ : V3 ℝ) = _
    rw [this]
  generalize vnorm ⟨a, b, c, w⟩ = s at *
  generalize Complex.arg ⟨w, s⟩ = h at *
  have hh : h ≠ 0 := by
    intro h0
    apply hs
    rw [← hsin, h0, Real.sin_zero]
  have hhpos : 0 < h := lt_of_le_of_ne hh0 (Ne.symm hh)
  have h2 : 2 * h / 2 = h := by ring
  refine ⟨?_, ?_⟩
  · simp only [axisAngle, h2, hsin, hcos, Q.mk.injEq, and_true]
    refine ⟨?_, ?_, ?_⟩ <;> field_simp
  · rw [powQ, hto]
    simp only
    by_cases hx : x = 0
    · subst hx
      simp only [zero_mul, axisAngle_zero]
      exact fromRotvecG_zero realTrig_spec
    · have hxpos : 0 < |x| * h := mul_pos (abs_pos.mpr hx) hhpos
      have hxx : |x| * |x| = x * x := abs_mul_abs_self x
      rw [fromRotvecG_of_norm realTrig_spec _ hxpos]
      · change (⟨Real.sin (|x| * h) / (|x| * h) / 2 * _, Real.sin (|x| * h) / (|x| * h) / 2 * _,
          Real.sin (|x| * h) / (|x| * h) / 2 * _, Real.cos (|x| * h)⟩ : Q ℝ) = _
        have h3 : x * (2 * h) / 2 = x * h := by ring
        simp only [axisAngle, h3]
        rcases abs_cases x with ⟨hab, _⟩ | ⟨hab, _⟩
        · rw [hab]
          simp only [Q.mk.injEq, and_true]
          refine ⟨?_, ?_, ?_⟩ <;> field_simp
        · rw [hab]
          simp only [neg_mul, Real.sin_neg, Real.cos_neg, Q.mk.injEq, and_true]
          refine ⟨?_, ?_, ?_⟩ <;> field_simp
      · simp only
        have e : x * (2 / (s / h) * a) * (x * (2 / (s / h) * a)) + x * (2 / (s / h) * b) * (x * (2 / (s / h) * b))
            + x * (2 / (s / h) * c) * (x * (2 / (s / h) * c))
            = (x * x) * (2 / (s / h) * (2 / (s / h))) * (a * a + b * b + c * c) := by ring
        rw [e, ← hss, ← hxx]
        field_simp

/-- **Item 1.** Unit quaternion in canonical form with non-zero vector part, `s = √(a²+b²+c²)`,
`θ = 2·arg(w + i s)`, `u = (a/s, b/s, c/s)`: `u` is a unit vector, `q = axisAngle u θ`, and
`powQ x q = axisAngle u (x·θ)` exactly, for every real `x`. -/
theorem powQ_eq_axisAngle (q : Q ℝ) (hq : q.normSq = 1) (_hw : 0 ≤ q.w)
    (hs : q.a * q.a + q.b * q.b + q.c * q.c ≠ 0) (x : ℝ) :
    let s := Real.sqrt (q.a * q.a + q.b * q.b + q.c * q.c)
    let θ := 2 * Complex.arg ⟨q.w, s⟩
    let u : V3 ℝ := ⟨q.a / s, q.b / s, q.c / s⟩
    u.x0 * u.x0 + u.x1 * u.x1 + u.x2 * u.x2 = 1 ∧ q = axisAngle u θ ∧ powQ x q = axisAngle u (x * θ) := by
  have hs' : vnorm q ≠ 0 := by
    intro h0
    apply hs
    rw [← vnorm_mul_self, h0, mul_zero]
  exact ⟨qAxis_unit q hs', powQ_eq_axisAngle' q hq hs' x⟩

/-- **Item 1**, vanishing vector part: `q = (0,0,0,1)` and `powQ x q = (0,0,0,1)` -/
theorem powQ_of_vec_eq_zero (q : Q ℝ) (hq : q.normSq = 1) (hw : 0 ≤ q.w)
    (hs : q.a * q.a + q.b * q.b + q.c * q.c = 0) (x : ℝ) :
    q = ⟨0, 0, 0, 1⟩ ∧ powQ x q = ⟨0, 0, 0, 1⟩ := by
  have hs' : vnorm q = 0 := by rw [vnorm, hs, Real.sqrt_zero]
  have h1 := eq_one_of_vnorm_zero q hq hw hs'
  refine ⟨h1, ?_⟩
  rw [h1]
  exact powQ_of_vec_zero x 1

theorem qmul_one_one : Q.mul (⟨0, 0, 0, 1⟩ : Q ℝ) ⟨0, 0, 0, 1⟩ = ⟨0, 0, 0, 1⟩ := by
  simp [Q.mul]

theorem qmul_one (p : Q ℝ) : Q.mul p ⟨0, 0, 0, 1⟩ = p := by
  obtain ⟨a, b, c, w⟩ := p
  simp [Q.mul]

/-- **Item 2** for every unit quaternion (canonical or not): `x ↦ powQ x q` is a one-parameter subgroup -/
theorem powQ_add' (q : Q ℝ) (hq : q.normSq = 1) (x y : ℝ) :
    Q.mul (powQ x q) (powQ y q) = powQ (x + y) q := by
  by_cases hs : vnorm q = 0
  · obtain ⟨a, b, c, w⟩ := q
    have h := vnorm_mul_self ⟨a, b, c, w⟩
    rw [hs, mul_zero] at h
    simp only at h
    have ha : a = 0 := by nlinarith [mul_self_nonneg a, mul_self_nonneg b, mul_self_nonneg c]
    have hb : b = 0 := by nlinarith [mul_self_nonneg a, mul_self_nonneg b, mul_self_nonneg c]
    have hc : c = 0 := by nlinarith [mul_self_nonneg a, mul_self_nonneg b, mul_self_nonneg c]
    subst ha hb hc
    simp only [powQ_of_vec_zero, qmul_one_one]
  · rw [(powQ_eq_axisAngle' q hq hs x).2, (powQ_eq_axisAngle' q hq hs y).2,
      (powQ_eq_axisAngle' q hq hs (x + y)).2, axisAngle_mul _ (qAxis_unit q hs), add_mul]

/-- **Item 2.** `p ** x · p ** y = p ** (x + y)` -/
theorem powQ_add (q : Q ℝ) (hq : q.normSq = 1) (_hw : 0 ≤ q.w) (x y : ℝ) :
    Q.mul (powQ x q) (powQ y q) = powQ (x + y) q :=
  powQ_add' q hq x y

/-- **Item 3.** `p ** 1 = p` (round trip through the rotation vector) -/
theorem powQ_one (q : Q ℝ) (hq : q.normSq = 1) (hw : 0 ≤ q.w) : powQ 1 q = q := by
  simp only [powQ, one_mul]
  exact fromRotvec_toRotvec_real q hq hw

/-- **Item 3.** `p ** 0 = 1` (no hypothesis needed) -/
theorem powQ_zero (q : Q ℝ) : powQ 0 q = ⟨0, 0, 0, 1⟩ := by
  simp only [powQ, zero_mul]
  exact fromRotvecG_zero realTrig_spec

/-- **Item 3.** `p ** (-1) = p.inv()` -/
theorem powQ_neg_one (q : Q ℝ) (hq : q.normSq = 1) (hw : 0 ≤ q.w) : powQ (-1) q = q.conj := by
  -- `powQ (-1) q · q = 1`, multiply by `q⁻¹` on the right
  have h1 : Q.mul (powQ (-1) q) q = ⟨0, 0, 0, 1⟩ := by
    have := powQ_add q hq hw (-1) 1
    rw [powQ_one q hq hw] at this
    rw [this, neg_add_cancel, powQ_zero]
  have h2 : Q.mul (Q.mul (powQ (-1) q) q) q.conj = powQ (-1) q := by
    rw [qmul_assoc, (qmul_conj q).1, hq, qmul_one]
  rw [← h2, h1]
  obtain ⟨a, b, c, w⟩ := q
  simp [Q.mul, Q.conj]

/-- **Item 4.** `p ** n` for a natural number `n` is the `n`-fold product -/
theorem powQ_nat (q : Q ℝ) (hq : q.normSq = 1) (hw : 0 ≤ q.w) (n : ℕ) :
    powQ (n : ℝ) q = (fun p => Q.mul p q)^[n] ⟨0, 0, 0, 1⟩ := by
  induction n with
  | zero => simp [powQ_zero]
  | succ k ih =>
    rw [Function.iterate_succ_apply', ← ih, Nat.cast_succ, ← powQ_add q hq hw, powQ_one q hq hw]

/-- **Item 4.** `p ** (-n)` is the `n`-fold product of the inverse -/
theorem powQ_int (q : Q ℝ) (hq : q.normSq = 1) (hw : 0 ≤ q.w) (n : ℕ) :
    powQ (-(n : ℝ)) q = (fun p => Q.mul p q.conj)^[n] ⟨0, 0, 0, 1⟩ := by
  induction n with
  | zero => simp [powQ_zero]
  | succ k ih =>
    rw [Function.iterate_succ_apply', ← ih, Nat.cast_succ, neg_add, ← powQ_add q hq hw,
      powQ_neg_one q hq hw]

theorem toMat_one : (⟨0, 0, 0, 1⟩ : Q ℝ).toMat = Mat3.one' := by
  simp [Q.toMat, Mat3.one', two]

theorem toMat_iterate (q : Q ℝ) (n : ℕ) :
    ((fun p => Q.mul p q)^[n] ⟨0, 0, 0, 1⟩).toMat = (fun m => Mat3.mul m q.toMat)^[n] Mat3.one' := by
  induction n with
  | zero => simp [toMat_one]
  | succ k ih => rw [Function.iterate_succ_apply', Function.iterate_succ_apply', toMat_mul, ih]

/-- **Item 5.** the rotation matrix of `p ** n` is the `n`-fold product of the rotation matrix of `p` -/
theorem powQ_nat_toMat (q : Q ℝ) (hq : q.normSq = 1) (hw : 0 ≤ q.w) (n : ℕ) :
    (powQ (n : ℝ) q).toMat = (fun m => Mat3.mul m q.toMat)^[n] Mat3.one' := by
  rw [powQ_nat q hq hw, toMat_iterate]

theorem toMat_conj (q : Q ℝ) : q.conj.toMat = q.toMat.transpose := by
  simp only [Q.conj, Q.toMat, Mat3.transpose, two, Mat3.mk.injEq]
  refine ⟨?_, ?_, ?_, ?_, ?_, ?_, ?_, ?_, ?_⟩ <;> ring

/-- **Item 5**, negative exponents: the matrix of `p ** (-n)` is the `n`-fold product of the transpose -/
theorem powQ_int_toMat (q : Q ℝ) (hq : q.normSq = 1) (hw : 0 ≤ q.w) (n : ℕ) :
    (powQ (-(n : ℝ)) q).toMat = (fun m => Mat3.mul m q.toMat.transpose)^[n] Mat3.one' := by
  rw [powQ_int q hq hw, toMat_iterate, toMat_conj]

theorem normSq_neg (q : Q ℝ) : q.neg.normSq = q.normSq := by
  simp only [Q.neg, Q.normSq]; ring

/-- **Item 6.** non-canonical unit quaternion (`w < 0`; in fact `w ≤ 0` suffices): the code takes the
power of the canonical representative `-q`, which has the same rotation matrix -/
theorem powQ_nat_toMat_neg (q : Q ℝ) (hq : q.normSq = 1) (hw : q.w ≤ 0) (n : ℕ) :
    (powQ (n : ℝ) q.neg).toMat = (fun m => Mat3.mul m q.toMat)^[n] Mat3.one' := by
  have hw' : 0 ≤ q.neg.w := by simp only [Q.neg]; linarith
  rw [powQ_nat_toMat q.neg (by rw [normSq_neg, hq]) hw', toMat_neg]

theorem powQ_int_toMat_neg (q : Q ℝ) (hq : q.normSq = 1) (hw : q.w ≤ 0) (n : ℕ) :
    (powQ (-(n : ℝ)) q.neg).toMat = (fun m => Mat3.mul m q.toMat.transpose)^[n] Mat3.one' := by
  have hw' : 0 ≤ q.neg.w := by simp only [Q.neg]; linarith
  rw [powQ_int_toMat q.neg (by rw [normSq_neg, hq]) hw', toMat_neg]

/-! ### non-vacuity -/

/-- identity: every power is the identity -/
example (x : ℝ) : powQ x ⟨0, 0, 0, 1⟩ = ⟨0, 0, 0, 1⟩ :=
  (powQ_of_vec_eq_zero ⟨0, 0, 0, 1⟩ (by norm_num [Q.normSq]) (by norm_num) (by norm_num) x).2

/-- the half turn `(1,0,0,0)` (`w = 0` is canonical): its square is `-identity` as a quaternion … -/
example : powQ 2 ⟨1, 0, 0, 0⟩ = ⟨0, 0, 0, -1⟩ := by
  have h := powQ_nat ⟨1, 0, 0, 0⟩ (by norm_num [Q.normSq]) (by norm_num) 2
  rw [show ((2 : ℕ) : ℝ) = 2 by norm_num] at h
  rw [h]
  simp [Q.mul]

/-- … and the identity as a rotation matrix -/
example : (powQ 2 ⟨1, 0, 0, 0⟩).toMat = Mat3.one' := by
  have h := powQ_nat_toMat ⟨1, 0, 0, 0⟩ (by norm_num [Q.normSq]) (by norm_num) 2
  rw [show ((2 : ℕ) : ℝ) = 2 by norm_num] at h
  rw [h]
  simp [Q.toMat, Mat3.mul, Mat3.one', two]

/-- the half turn is `axisAngle (1,0,0) π`, its `x`-th power the rotation by `x·π` about the same axis -/
example (x : ℝ) : powQ x ⟨1, 0, 0, 0⟩ = axisAngle ⟨1, 0, 0⟩ (x * Real.pi) := by
  have h := (powQ_eq_axisAngle ⟨1, 0, 0, 0⟩ (by norm_num [Q.normSq]) (by norm_num) (by norm_num) x).2.2
  have h1 : Real.sqrt (1 * 1 + 0 * 0 + 0 * 0) = 1 := by norm_num
  have harg : Complex.arg ⟨0, 1⟩ = Real.pi / 2 := Complex.arg_I
  simp only [h1, harg, div_one] at h
  rw [h]
  congr 2
  ring

/-- item 6 is not vacuous: the half turn `(-1,0,0,0)` (`w = 0 ≤ 0`), third power of its negative -/
example : (powQ ((3 : ℕ) : ℝ) (Q.neg ⟨-1, 0, 0, 0⟩)).toMat
    = (fun m => Mat3.mul m (Q.toMat (⟨-1, 0, 0, 0⟩ : Q ℝ)))^[3] Mat3.one' :=
  powQ_nat_toMat_neg ⟨-1, 0, 0, 0⟩ (by norm_num [Q.normSq]) (by norm_num) 3

/-- item 6 with `w < 0` strictly: `(-3/5, 0, 0, -4/5)` -/
example : (powQ ((2 : ℕ) : ℝ) (Q.neg ⟨-3/5, 0, 0, -4/5⟩)).toMat
    = (fun m => Mat3.mul m (Q.toMat (⟨-3/5, 0, 0, -4/5⟩ : Q ℝ)))^[2] Mat3.one' :=
  powQ_nat_toMat_neg ⟨-3/5, 0, 0, -4/5⟩ (by norm_num [Q.normSq]) (by norm_num) 2

/-- a generic canonical unit quaternion `(3/5, 0, 0, 4/5)`: one-parameter subgroup -/
example (x y : ℝ) : Q.mul (powQ x ⟨3/5, 0, 0, 4/5⟩) (powQ y ⟨3/5, 0, 0, 4/5⟩) = powQ (x + y) ⟨3/5, 0, 0, 4/5⟩ :=
  powQ_add ⟨3/5, 0, 0, 4/5⟩ (by norm_num [Q.normSq]) (by norm_num) x y

end M
