import Mathlib.LinearAlgebra.Matrix.ConjTranspose
import Mathlib.LinearAlgebra.Matrix.Trace
import Mathlib.LinearAlgebra.Matrix.Hermitian
import Mathlib.LinearAlgebra.Matrix.NonsingularInverse
import Mathlib.Analysis.RCLike.Basic
import Mathlib.Analysis.Complex.Basic
import Mathlib.Algebra.BigOperators.Fin
import Mathlib.Algebra.Order.BigOperators.Ring.Finset
import Mathlib.Data.Fin.VecNotation
import Mathlib.Tactic.FinCases
import Mathlib.Tactic.Linarith
/-! PCA compression (`PCACompressionOp`): the compression matrix is an orthogonal projection onto the
dominant `n`-dimensional subspace.

Setting (`𝕜` any `RCLike` field, i.e. `ℝ` or `ℂ`): `U` unitary (`Uᴴ * U = 1`), `lam` real,
non-negative, decreasing, `C = U * diagonal lam * Uᴴ` (the decomposition returned by the trusted SVD
routine for the Hermitian PSD correlation matrix), `pcaMat h U` = first `n` rows of `Uᴴ`.

* `pca_rows_orthonormal` : `M * Mᴴ = 1`.
* `pca_projection` : `Mᴴ * M` is idempotent and Hermitian.
* `pca_energy` : `re tr (M C Mᴴ) = ∑_{i<n} lam i` (also `pca_energy_cast`, equality in `𝕜`).
* `weighted_sum_le_top` : real rearrangement lemma.
* `pca_optimal` : Ky Fan maximum principle, `re tr (N C Nᴴ) ≤ ∑_{i<n} lam i` for `N Nᴴ = 1`.
* `pca_data_energy`, `pca_data_optimal` : the same in data terms (`C = X Xᴴ`, `X` = coils × samples,
  compressed data `M X`, squared Frobenius norm). -/
namespace M
open Matrix

variable {𝕜 : Type} [RCLike 𝕜]

/-- the compression matrix: first `n` rows of `Uᴴ` -/
def pcaMat {n c : ℕ} (h : n ≤ c) (U : Matrix (Fin c) (Fin c) 𝕜) : Matrix (Fin n) (Fin c) 𝕜 :=
  fun i j => Uᴴ (Fin.castLE h i) j

/-- the decomposed correlation matrix `U Λ Uᴴ` -/
def pcaCorr {c : ℕ} (U : Matrix (Fin c) (Fin c) 𝕜) (lam : Fin c → ℝ) : Matrix (Fin c) (Fin c) 𝕜 :=
  U * diagonal (fun i => (lam i : 𝕜)) * Uᴴ

theorem pcaMat_eq_submatrix {n c : ℕ} (h : n ≤ c) (U : Matrix (Fin c) (Fin c) 𝕜) :
    pcaMat h U = Uᴴ.submatrix (Fin.castLE h) id := rfl

theorem pcaMat_conjTranspose {n c : ℕ} (h : n ≤ c) (U : Matrix (Fin c) (Fin c) 𝕜) :
    (pcaMat h U)ᴴ = U.submatrix id (Fin.castLE h) := by
  ext i j; simp [pcaMat, conjTranspose_apply]

theorem unitary_mul_conjTranspose {c : ℕ} {U : Matrix (Fin c) (Fin c) 𝕜} (hU : Uᴴ * U = 1) :
    U * Uᴴ = 1 := mul_eq_one_comm.mp hU

/-- 1. the rows of the compression matrix are orthonormal -/
theorem pca_rows_orthonormal {n c : ℕ} (h : n ≤ c) (U : Matrix (Fin c) (Fin c) 𝕜)
    (hU : Uᴴ * U = 1) : pcaMat h U * (pcaMat h U)ᴴ = 1 := by
  rw [pcaMat_conjTranspose, pcaMat_eq_submatrix,
    ← submatrix_mul _ _ _ id _ Function.bijective_id, hU,
    submatrix_one _ (Fin.castLE_injective h)]

/-- compress-then-expand is an orthogonal projection, for any matrix with orthonormal rows -/
theorem orthoRows_projection {n c : ℕ} (N : Matrix (Fin n) (Fin c) 𝕜) (hN : N * Nᴴ = 1) :
    (Nᴴ * N) * (Nᴴ * N) = Nᴴ * N ∧ (Nᴴ * N)ᴴ = Nᴴ * N := by
  constructor
  · rw [Matrix.mul_assoc, ← Matrix.mul_assoc N, hN, Matrix.one_mul]
  · rw [conjTranspose_mul, conjTranspose_conjTranspose]

/-- 2. compress-then-expand is an orthogonal projection -/
theorem pca_projection {n c : ℕ} (h : n ≤ c) (U : Matrix (Fin c) (Fin c) 𝕜) (hU : Uᴴ * U = 1) :
    ((pcaMat h U)ᴴ * pcaMat h U) * ((pcaMat h U)ᴴ * pcaMat h U) = (pcaMat h U)ᴴ * pcaMat h U ∧
      ((pcaMat h U)ᴴ * pcaMat h U)ᴴ = (pcaMat h U)ᴴ * pcaMat h U :=
  orthoRows_projection _ (pca_rows_orthonormal h U hU)

/-- the compressed correlation matrix is the leading `n × n` block of `Λ` -/
theorem pca_compressed_corr {n c : ℕ} (h : n ≤ c) (U : Matrix (Fin c) (Fin c) 𝕜) (hU : Uᴴ * U = 1)
    (lam : Fin c → ℝ) :
    pcaMat h U * pcaCorr U lam * (pcaMat h U)ᴴ =
      diagonal (fun i : Fin n => (lam (Fin.castLE h i) : 𝕜)) := by
  have key : Uᴴ * pcaCorr U lam * U = diagonal (fun i => (lam i : 𝕜)) := by
    unfold pcaCorr
    rw [← Matrix.mul_assoc, ← Matrix.mul_assoc, hU, Matrix.one_mul, Matrix.mul_assoc, hU,
      Matrix.mul_one]
  have e : pcaMat h U * pcaCorr U lam * (pcaMat h U)ᴴ =
      (Uᴴ * pcaCorr U lam * U).submatrix (Fin.castLE h) (Fin.castLE h) := by
    rw [submatrix_mul _ _ _ id _ Function.bijective_id,
      submatrix_mul _ _ _ id _ Function.bijective_id, pcaMat_conjTranspose, pcaMat_eq_submatrix,
      submatrix_id_id]
  rw [e, key]
  ext i j
  simp [diagonal_apply, (Fin.castLE_injective h).eq_iff]

/-- 3. captured energy = sum of the `n` largest eigenvalues (equality in `𝕜`) -/
theorem pca_energy_cast {n c : ℕ} (h : n ≤ c) (U : Matrix (Fin c) (Fin c) 𝕜) (hU : Uᴴ * U = 1)
    (lam : Fin c → ℝ) :
    trace (pcaMat h U * pcaCorr U lam * (pcaMat h U)ᴴ) =
      ((∑ i : Fin n, lam (Fin.castLE h i) : ℝ) : 𝕜) := by
  rw [pca_compressed_corr h U hU, trace_diagonal]
  push_cast
  rfl

/-- 3. captured energy = sum of the `n` largest eigenvalues -/
theorem pca_energy {n c : ℕ} (h : n ≤ c) (U : Matrix (Fin c) (Fin c) 𝕜) (hU : Uᴴ * U = 1)
    (lam : Fin c → ℝ) :
    RCLike.re (trace (pcaMat h U * pcaCorr U lam * (pcaMat h U)ᴴ)) =
      ∑ i : Fin n, lam (Fin.castLE h i) := by
  rw [pca_energy_cast h U hU, RCLike.ofReal_re]

/-! ### The rearrangement lemma -/

theorem sum_castLE_eq_sum_ite {n c : ℕ} (h : n ≤ c) (g : Fin c → ℝ) :
    ∑ i : Fin n, g (Fin.castLE h i) = ∑ j : Fin c, if j.val < n then g j else 0 := by
  rw [← Finset.sum_filter]
  have : (Finset.univ.filter fun j : Fin c => j.val < n) =
      Finset.univ.map (Fin.castLEEmb h) := by
    ext j
    simp only [Finset.mem_filter, Finset.mem_univ, true_and, Finset.mem_map, Fin.castLEEmb_apply]
    constructor
    · intro hj; exact ⟨⟨j.val, hj⟩, rfl⟩
    · rintro ⟨i, rfl⟩; exact i.2
  rw [this, Finset.sum_map]
  rfl

/-- For decreasing non-negative `lam` and weights in `[0,1]` of total mass `n`, the weighted sum is
at most the sum of the `n` largest values. -/
theorem weighted_sum_le_top {n c : ℕ} (h : n ≤ c) (lam w : Fin c → ℝ)
    (hpos : ∀ i, 0 ≤ lam i) (hanti : ∀ i j, i ≤ j → lam j ≤ lam i)
    (hw0 : ∀ j, 0 ≤ w j) (hw1 : ∀ j, w j ≤ 1) (hsum : ∑ j, w j = n) :
    ∑ j, lam j * w j ≤ ∑ i : Fin n, lam (Fin.castLE h i) := by
  -- the threshold value
  obtain ⟨t, ht0, hlo, hhi⟩ : ∃ t : ℝ, 0 ≤ t ∧ (∀ j : Fin c, j.val < n → t ≤ lam j) ∧
      (∀ j : Fin c, ¬ j.val < n → lam j ≤ t) := by
    by_cases hc : n < c
    · refine ⟨lam ⟨n, hc⟩, hpos _, fun j hj => hanti _ _ ?_, fun j hj => hanti _ _ ?_⟩
      · exact Fin.le_def.mpr (Nat.le_of_lt hj)
      · exact Fin.le_def.mpr (Nat.le_of_not_lt hj)
    · exact ⟨0, le_refl _, fun j _ => hpos j, fun j hj => absurd (by omega) hj⟩
  have hcard : ∑ j : Fin c, (if j.val < n then (1 : ℝ) else 0) = n := by
    rw [← sum_castLE_eq_sum_ite h (fun _ => (1 : ℝ))]
    simp
  have hterm : ∀ j : Fin c, lam j * w j ≤
      (if j.val < n then lam j else 0) + t * (w j - if j.val < n then (1 : ℝ) else 0) := by
    intro j
    by_cases hj : j.val < n
    · simp only [hj, if_true]
      nlinarith [hlo j hj, hw1 j, mul_nonneg (sub_nonneg.mpr (hlo j hj)) (sub_nonneg.mpr (hw1 j))]
    · simp only [hj, if_false]
      nlinarith [hhi j hj, hw0 j, mul_nonneg (sub_nonneg.mpr (hhi j hj)) (hw0 j)]
  calc ∑ j, lam j * w j
      ≤ ∑ j : Fin c, ((if j.val < n then lam j else 0) +
          t * (w j - if j.val < n then (1 : ℝ) else 0)) :=
        Finset.sum_le_sum fun j _ => hterm j
    _ = ∑ i : Fin n, lam (Fin.castLE h i) := by
        rw [Finset.sum_add_distrib, ← Finset.mul_sum, Finset.sum_sub_distrib, hsum, hcard,
          sub_self, mul_zero, add_zero, sum_castLE_eq_sum_ite]

/-! ### Column weights of a matrix with orthonormal rows -/

/-- diagonal entries of a Hermitian idempotent are at most one -/
theorem hermitian_idempotent_diag_le_one {c : ℕ} (Q : Matrix (Fin c) (Fin c) 𝕜) (hH : Qᴴ = Q)
    (hI : Q * Q = Q) (j : Fin c) : RCLike.re (Q j j) ≤ 1 := by
  have h1 : Q j j = ∑ k, Q j k * star (Q j k) := by
    conv_lhs => rw [← hI]
    rw [Matrix.mul_apply]
    refine Finset.sum_congr rfl fun k _ => ?_
    rw [← conjTranspose_apply, hH]
  have h2 : RCLike.re (Q j j) = ∑ k, ‖Q j k‖ ^ 2 := by
    conv_lhs => rw [h1]
    rw [map_sum]
    refine Finset.sum_congr rfl fun k _ => ?_
    rw [RCLike.star_def, RCLike.mul_conj, ← RCLike.ofReal_pow, RCLike.ofReal_re]
  have h3 : ‖Q j j‖ ^ 2 ≤ RCLike.re (Q j j) := by
    rw [h2]
    exact Finset.single_le_sum (f := fun k => ‖Q j k‖ ^ 2) (fun k _ => sq_nonneg _)
      (Finset.mem_univ j)
  have h4 : RCLike.re (Q j j) ≤ ‖Q j j‖ := RCLike.re_le_norm _
  have h5 : 0 ≤ RCLike.re (Q j j) := by
    rw [h2]; exact Finset.sum_nonneg fun k _ => sq_nonneg _
  nlinarith

/-- column weights `w j = ∑ᵢ ‖P i j‖²` -/
noncomputable def colWeight {n c : ℕ} (P : Matrix (Fin n) (Fin c) 𝕜) (j : Fin c) : ℝ :=
  ∑ i, ‖P i j‖ ^ 2

theorem colWeight_nonneg {n c : ℕ} (P : Matrix (Fin n) (Fin c) 𝕜) (j : Fin c) :
    0 ≤ colWeight P j := Finset.sum_nonneg fun _ _ => sq_nonneg _

theorem colWeight_eq_diag {n c : ℕ} (P : Matrix (Fin n) (Fin c) 𝕜) (j : Fin c) :
    colWeight P j = RCLike.re ((Pᴴ * P) j j) := by
  unfold colWeight
  rw [Matrix.mul_apply, map_sum]
  refine Finset.sum_congr rfl fun i _ => ?_
  rw [conjTranspose_apply, RCLike.star_def, RCLike.conj_mul, ← RCLike.ofReal_pow, RCLike.ofReal_re]

theorem colWeight_le_one {n c : ℕ} (P : Matrix (Fin n) (Fin c) 𝕜) (hP : P * Pᴴ = 1) (j : Fin c) :
    colWeight P j ≤ 1 := by
  rw [colWeight_eq_diag]
  exact hermitian_idempotent_diag_le_one _ (orthoRows_projection P hP).2
    (orthoRows_projection P hP).1 j

theorem colWeight_sum {n c : ℕ} (P : Matrix (Fin n) (Fin c) 𝕜) (hP : P * Pᴴ = 1) :
    ∑ j, colWeight P j = n := by
  unfold colWeight
  rw [Finset.sum_comm]
  have : ∀ i : Fin n, ∑ j, ‖P i j‖ ^ 2 = 1 := by
    intro i
    have h1 : RCLike.re ((P * Pᴴ) i i) = ∑ j, ‖P i j‖ ^ 2 := by
      rw [Matrix.mul_apply, map_sum]
      refine Finset.sum_congr rfl fun j _ => ?_
      rw [conjTranspose_apply, RCLike.star_def, RCLike.mul_conj, ← RCLike.ofReal_pow,
        RCLike.ofReal_re]
    rw [← h1, hP]; simp
  simp [this]

/-- `re tr (P Λ Pᴴ) = ∑ⱼ λⱼ wⱼ` -/
theorem trace_diag_conj {n c : ℕ} (P : Matrix (Fin n) (Fin c) 𝕜) (lam : Fin c → ℝ) :
    RCLike.re (trace (P * diagonal (fun i => (lam i : 𝕜)) * Pᴴ)) =
      ∑ j, lam j * colWeight P j := by
  have hd : ∀ i, (P * diagonal (fun i => (lam i : 𝕜)) * Pᴴ) i i =
      ∑ j, P i j * (lam j : 𝕜) * star (P i j) := by
    intro i
    rw [Matrix.mul_apply]
    simp only [mul_diagonal, conjTranspose_apply]
  unfold colWeight trace
  simp only [diag_apply, hd, map_sum]
  rw [Finset.sum_comm]
  refine Finset.sum_congr rfl fun j _ => ?_
  rw [Finset.mul_sum]
  refine Finset.sum_congr rfl fun i _ => ?_
  rw [mul_right_comm, RCLike.star_def, RCLike.mul_conj, ← RCLike.ofReal_pow, ← RCLike.ofReal_mul,
    RCLike.ofReal_re, mul_comm]

/-- 4. Ky Fan maximum principle: no compression with orthonormal rows captures more energy than the
PCA compression. -/
theorem pca_optimal {n c : ℕ} (h : n ≤ c) (U : Matrix (Fin c) (Fin c) 𝕜) (hU : Uᴴ * U = 1)
    (lam : Fin c → ℝ) (hpos : ∀ i, 0 ≤ lam i) (hanti : ∀ i j, i ≤ j → lam j ≤ lam i)
    (N : Matrix (Fin n) (Fin c) 𝕜) (hN : N * Nᴴ = 1) :
    RCLike.re (trace (N * pcaCorr U lam * Nᴴ)) ≤ ∑ i : Fin n, lam (Fin.castLE h i) := by
  have hU' := unitary_mul_conjTranspose hU
  have hP : (N * U) * (N * U)ᴴ = 1 := by
    rw [conjTranspose_mul, Matrix.mul_assoc, ← Matrix.mul_assoc U, hU', Matrix.one_mul, hN]
  have hrew : N * pcaCorr U lam * Nᴴ =
      (N * U) * diagonal (fun i => (lam i : 𝕜)) * (N * U)ᴴ := by
    unfold pcaCorr
    rw [conjTranspose_mul]
    simp only [Matrix.mul_assoc]
  rw [hrew, trace_diag_conj]
  exact weighted_sum_le_top h lam _ hpos hanti (colWeight_nonneg _) (colWeight_le_one _ hP)
    (colWeight_sum _ hP)

/-- the PCA compression attains the bound of `pca_optimal` -/
theorem pca_optimal_attained {n c : ℕ} (h : n ≤ c) (U : Matrix (Fin c) (Fin c) 𝕜)
    (hU : Uᴴ * U = 1) (lam : Fin c → ℝ) (N : Matrix (Fin n) (Fin c) 𝕜) (hN : N * Nᴴ = 1)
    (hpos : ∀ i, 0 ≤ lam i) (hanti : ∀ i j, i ≤ j → lam j ≤ lam i) :
    RCLike.re (trace (N * pcaCorr U lam * Nᴴ)) ≤
      RCLike.re (trace (pcaMat h U * pcaCorr U lam * (pcaMat h U)ᴴ)) := by
  rw [pca_energy h U hU]
  exact pca_optimal h U hU lam hpos hanti N hN

/-! ### In data terms

`X : coils × samples` (the transposed, mean-removed data of the code), correlation `C = X Xᴴ`
(`= Dᵀ D̄` for `D = Xᵀ`, the `einsum` of the code), compressed data `A X`. -/

/-- squared Frobenius norm -/
noncomputable def frobSq {a b : ℕ} (A : Matrix (Fin a) (Fin b) 𝕜) : ℝ := ∑ i, ∑ j, ‖A i j‖ ^ 2

theorem frobSq_eq_trace {a b : ℕ} (A : Matrix (Fin a) (Fin b) 𝕜) :
    frobSq A = RCLike.re (trace (A * Aᴴ)) := by
  unfold frobSq trace
  simp only [diag_apply, Matrix.mul_apply, conjTranspose_apply, map_sum]
  refine Finset.sum_congr rfl fun i _ => Finset.sum_congr rfl fun j _ => ?_
  rw [RCLike.star_def, RCLike.mul_conj, ← RCLike.ofReal_pow, RCLike.ofReal_re]

theorem frobSq_compressed {n c s : ℕ} (A : Matrix (Fin n) (Fin c) 𝕜) (X : Matrix (Fin c) (Fin s) 𝕜) :
    frobSq (A * X) = RCLike.re (trace (A * (X * Xᴴ) * Aᴴ)) := by
  rw [frobSq_eq_trace, conjTranspose_mul]
  simp only [Matrix.mul_assoc]

/-- 5. the compressed data has squared Frobenius norm `∑_{i<n} lam i` -/
theorem pca_data_energy {n c s : ℕ} (h : n ≤ c) (U : Matrix (Fin c) (Fin c) 𝕜) (hU : Uᴴ * U = 1)
    (lam : Fin c → ℝ) (X : Matrix (Fin c) (Fin s) 𝕜) (hC : X * Xᴴ = pcaCorr U lam) :
    frobSq (pcaMat h U * X) = ∑ i : Fin n, lam (Fin.castLE h i) := by
  rw [frobSq_compressed, hC, pca_energy h U hU]

/-- 5. … the largest possible among compressions with orthonormal rows -/
theorem pca_data_optimal {n c s : ℕ} (h : n ≤ c) (U : Matrix (Fin c) (Fin c) 𝕜) (hU : Uᴴ * U = 1)
    (lam : Fin c → ℝ) (hpos : ∀ i, 0 ≤ lam i) (hanti : ∀ i j, i ≤ j → lam j ≤ lam i)
    (X : Matrix (Fin c) (Fin s) 𝕜) (hC : X * Xᴴ = pcaCorr U lam)
    (N : Matrix (Fin n) (Fin c) 𝕜) (hN : N * Nᴴ = 1) :
    frobSq (N * X) ≤ frobSq (pcaMat h U * X) := by
  rw [pca_data_energy h U hU lam X hC, frobSq_compressed, hC]
  exact pca_optimal h U hU lam hpos hanti N hN

/-! ### Non-vacuity -/

/-- the hypotheses are satisfiable and the bound is attained and strict for another direction:
`c = 2`, `n = 1`, `U = 1`, `lam = ![2, 1]` -/
example :
    let U : Matrix (Fin 2) (Fin 2) ℂ := 1
    let lam : Fin 2 → ℝ := ![2, 1]
    Uᴴ * U = 1 ∧ (∀ i, 0 ≤ lam i) ∧ (∀ i j, i ≤ j → lam j ≤ lam i) ∧
      pcaMat (by decide : 1 ≤ 2) U = !![1, 0] ∧
      RCLike.re (trace (pcaMat (by decide : 1 ≤ 2) U * pcaCorr U lam *
        (pcaMat (by decide : 1 ≤ 2) U)ᴴ)) = 2 := by
  intro U lam
  have hU : Uᴴ * U = 1 := by simp [U]
  refine ⟨hU, ?_, ?_, ?_, ?_⟩
  · intro i; fin_cases i <;> simp [lam]
  · intro i j hij; fin_cases i <;> fin_cases j <;> simp_all [lam]
  · ext i j; fin_cases i; fin_cases j <;> simp [pcaMat, U]
  · rw [pca_energy _ U hU]; simp [lam]

/-- … and another compression with orthonormal rows (the second coil) captures strictly less
(`1 < 2`): the inequality of `pca_optimal` is not an equality in disguise -/
example :
    let U : Matrix (Fin 2) (Fin 2) ℂ := 1
    let lam : Fin 2 → ℝ := ![2, 1]
    let N : Matrix (Fin 1) (Fin 2) ℂ := !![0, 1]
    N * Nᴴ = 1 ∧ RCLike.re (trace (N * pcaCorr U lam * Nᴴ)) = 1 := by
  intro U lam N
  constructor
  · ext i j; fin_cases i; fin_cases j; simp [N, Matrix.mul_apply]
  · simp [N, U, lam, pcaCorr, trace, Matrix.vecMul, dotProduct, Matrix.mul_apply,
      Fin.sum_univ_two, Matrix.diagonal_apply]

end M
