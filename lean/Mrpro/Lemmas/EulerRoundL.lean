import Mrpro.Model.Rotation
import Mrpro.Lemmas.RotationL
import Mrpro.Lemmas.EulerL
import Mrpro.Lemmas.RotvecL
import Mathlib.Tactic.Ring
import Mathlib.Tactic.Linarith
import Mathlib.Tactic.NormNum
import Mathlib.Tactic.LinearCombination
import Mathlib.Tactic.IntervalCases
import Mathlib.Analysis.SpecialFunctions.Complex.Arg
import Mathlib.Analysis.SpecialFunctions.Trigonometric.Basic
/-! Round trip quaternion → Euler angles → quaternion (`from_euler(seq, as_euler(seq))`) over ℝ for the
generic function `toEulerG` of `Mrpro/Model/Rotation.lean` at `realTrig` (`Real.sqrt`, `Real.sin`, `Real.cos`,
`atan2 y x = arg (x + i y)`, `Real.pi`) and the integer cast `Int.cast`: the rotation matrix of the
re-composed quaternion is the rotation matrix of the original unit quaternion, for all twelve axis
sequences, both frames, and all three branches of the algorithm (generic, gimbal lock at `0`, at `π`). -/
namespace M
noncomputable section

/-! ### the intermediate quantities of `toEulerG` at the reals

`p r s0` is the axis triple *after* the reversal that `toEulerG` applies to intrinsic sequences. -/

/-- the third axis `s` (for a symmetric sequence the axis that does not occur) -/
def eS (p r s0 : Nat) : Nat := if p == s0 then 3 - p - r else s0
/-- `sign` -/
def eSign (p r s0 : Nat) : ℝ :=
  ((((p : Int) - r) * ((r : Int) - (eS p r s0 : Nat)) * (((eS p r s0 : Nat) : Int) - p) : Int) : ℝ) / 2
/-- `a`, `b`, `c`, `d` -/
def eA (q : Q ℝ) (p r s0 : Nat) : ℝ := if p == s0 then qgetG q 3 else qgetG q 3 - qgetG q r
def eB (q : Q ℝ) (p r s0 : Nat) : ℝ :=
  if p == s0 then qgetG q p else qgetG q p + qgetG q (eS p r s0) * eSign p r s0
def eC (q : Q ℝ) (p r s0 : Nat) : ℝ := if p == s0 then qgetG q r else qgetG q r + qgetG q 3
def eD (q : Q ℝ) (p r s0 : Nat) : ℝ :=
  if p == s0 then qgetG q (eS p r s0) * eSign p r s0 else qgetG q (eS p r s0) * eSign p r s0 - qgetG q p
/-- half of the second angle before the shift: `atan2 (hypot c d) (hypot a b)` -/
def eH (q : Q ℝ) (p r s0 : Nat) : ℝ :=
  Complex.arg ⟨Real.sqrt (eA q p r s0 * eA q p r s0 + eB q p r s0 * eB q p r s0),
    Real.sqrt (eC q p r s0 * eC q p r s0 + eD q p r s0 * eD q p r s0)⟩
/-- `angles1` before the shift -/
def eTheta (q : Q ℝ) (p r s0 : Nat) : ℝ := 2 * eH q p r s0
/-- `halfSum = atan2 b a` -/
def eSigma (q : Q ℝ) (p r s0 : Nat) : ℝ := Complex.arg ⟨eA q p r s0, eB q p r s0⟩
/-- `halfDiff = atan2 d c` -/
def eDelta (q : Q ℝ) (p r s0 : Nat) : ℝ := Complex.arg ⟨eC q p r s0, eD q p r s0⟩
/-- the absolute value as written in `toEulerG` -/
def absIf (x : ℝ) : ℝ := if x < 0 then -x else x
/-- `case1`: gimbal lock at second angle `0` -/
def eCase1 (eps : ℝ) (q : Q ℝ) (p r s0 : Nat) : Bool := decide (absIf (eTheta q p r s0) ≤ eps)
/-- `case2`: gimbal lock at second angle `π` -/
def eCase2 (eps : ℝ) (q : Q ℝ) (p r s0 : Nat) : Bool := decide (absIf (eTheta q p r s0 - Real.pi) ≤ eps)
/-- wrapping into `[-π, π]` as written in `toEulerG` -/
def wrapPi (t : ℝ) : ℝ :=
  let t := if t < -Real.pi then t + 2 * Real.pi else t
  if t > Real.pi then t - 2 * Real.pi else t

/-- the result of `toEulerG` in terms of the intermediate quantities, for the internal triple `p r s0` -/
def eulerOut (eps : ℝ) (q : Q ℝ) (p r s0 : Nat) (extrinsic : Bool) : List ℝ :=
  let symmetric := p == s0
  let sign := eSign p r s0
  let halfSum := eSigma q p r s0
  let halfDiff := eDelta q p r s0
  let case1 := eCase1 eps q p r s0
  let case2 := eCase2 eps q p r s0
  let angles0 := halfSum - halfDiff
  let angles2 := halfSum + halfDiff
  let angles0' := if extrinsic then angles0 else angles2
  let angles2' := if extrinsic then angles2 else angles0
  let angles2 := if !case1 && !case2 then angles2' else 0
  let angles0 := if case1 then 2 * halfSum else if case2 then 2 * halfDiff * (if extrinsic then -1 else 1) else angles0'
  let angles2 := if !symmetric && extrinsic then angles2 * sign else angles2
  let angles0 := if !symmetric && !extrinsic then angles0 * sign else angles0
  let angles1 := if symmetric then eTheta q p r s0 else eTheta q p r s0 - Real.pi / 2
  [wrapPi angles0, wrapPi angles1, wrapPi angles2]

/-- `toEulerG` on an extrinsic sequence `[i, j, k]`: the internal triple is `i j k` -/
theorem toEulerG_extrinsic (eps : ℝ) (q : Q ℝ) (i j k : Nat) :
    toEulerG realTrig Int.cast eps q [i, j, k] true = eulerOut eps q i j k true := rfl

/-- `toEulerG` on an intrinsic sequence `[i, j, k]`: the internal triple is `k j i` -/
theorem toEulerG_intrinsic (eps : ℝ) (q : Q ℝ) (i j k : Nat) :
    toEulerG realTrig Int.cast eps q [i, j, k] false = eulerOut eps q k j i false := rfl


theorem triple_cases {p r s0 : Nat} (hp : p < 3) (hr : r < 3) (hs : s0 < 3) (hpr : p ≠ r) (hrs : r ≠ s0) :
    (p = 0 ∧ r = 1 ∧ s0 = 0) ∨ (p = 0 ∧ r = 2 ∧ s0 = 0) ∨ (p = 1 ∧ r = 0 ∧ s0 = 1) ∨
    (p = 1 ∧ r = 2 ∧ s0 = 1) ∨ (p = 2 ∧ r = 0 ∧ s0 = 2) ∨ (p = 2 ∧ r = 1 ∧ s0 = 2) ∨
    (p = 0 ∧ r = 1 ∧ s0 = 2) ∨ (p = 0 ∧ r = 2 ∧ s0 = 1) ∨ (p = 1 ∧ r = 0 ∧ s0 = 2) ∨
    (p = 1 ∧ r = 2 ∧ s0 = 0) ∨ (p = 2 ∧ r = 0 ∧ s0 = 1) ∨ (p = 2 ∧ r = 1 ∧ s0 = 0) := by
  interval_cases p <;> interval_cases r <;> interval_cases s0 <;> first | (exact absurd rfl hpr) | (exact absurd rfl hrs) | simp

/-- the quaternion product that `from_euler` forms from the angles, with the half-angle sines and cosines
as variables: the combinations `a b c d` of the product factorise -/
theorem core {p r s0 : Nat} (hp : p < 3) (hr : r < 3) (hs : s0 < 3) (hpr : p ≠ r) (hrs : r ≠ s0)
    (su cu sv cv sm cm : ℝ) :
    let P := Q.mul (Q.mul (elementaryG s0 ((if p == s0 then 1 else eSign p r s0) * sv) cv) (elementaryG r sm cm))
      (elementaryG p su cu)
    eA P p r s0 = (if p == s0 then cm else cm - sm) * (cv * cu - sv * su) ∧
    eB P p r s0 = (if p == s0 then cm else cm - sm) * (sv * cu + cv * su) ∧
    eC P p r s0 = (if p == s0 then sm else cm + sm) * (cv * cu + sv * su) ∧
    eD P p r s0 = (if p == s0 then sm else cm + sm) * (sv * cu - cv * su) := by
  rcases triple_cases hp hr hs hpr hrs with h | h | h | h | h | h | h | h | h | h | h | h <;>
  · obtain ⟨rfl, rfl, rfl⟩ := h
    norm_num [eA, eB, eC, eD, eS, eSign, qgetG, Q.mul, elementaryG]
    refine ⟨?_, ?_, ?_, ?_⟩ <;> ring

theorem abcd_inj {p r s0 : Nat} (hp : p < 3) (hr : r < 3) (hs : s0 < 3) (hpr : p ≠ r) (hrs : r ≠ s0)
    (P q : Q ℝ) (hA : eA P p r s0 = eA q p r s0) (hB : eB P p r s0 = eB q p r s0)
    (hC : eC P p r s0 = eC q p r s0) (hD : eD P p r s0 = eD q p r s0) : P = q := by
  obtain ⟨Pa, Pb, Pc, Pw⟩ := P
  obtain ⟨qa, qb, qc, qw⟩ := q
  rcases triple_cases hp hr hs hpr hrs with h | h | h | h | h | h | h | h | h | h | h | h <;>
  · obtain ⟨rfl, rfl, rfl⟩ := h
    norm_num [eA, eB, eC, eD, eS, eSign, qgetG] at hA hB hC hD
    simp only [Q.mk.injEq]
    refine ⟨?_, ?_, ?_, ?_⟩ <;> linarith

theorem abcd_normSq {p r s0 : Nat} (hp : p < 3) (hr : r < 3) (hs : s0 < 3) (hpr : p ≠ r) (hrs : r ≠ s0)
    (q : Q ℝ) :
    eA q p r s0 * eA q p r s0 + eB q p r s0 * eB q p r s0 + (eC q p r s0 * eC q p r s0 + eD q p r s0 * eD q p r s0)
      = (if p == s0 then 1 else 2) * q.normSq := by
  obtain ⟨qa, qb, qc, qw⟩ := q
  rcases triple_cases hp hr hs hpr hrs with h | h | h | h | h | h | h | h | h | h | h | h <;>
  · obtain ⟨rfl, rfl, rfl⟩ := h
    norm_num [eA, eB, eC, eD, eS, eSign, qgetG, Q.normSq]
    ring

theorem eSign_cases {p r s0 : Nat} (hp : p < 3) (hr : r < 3) (hs : s0 < 3) (hpr : p ≠ r) (hrs : r ≠ s0) :
    eSign p r s0 = 1 ∨ eSign p r s0 = -1 := by
  rcases triple_cases hp hr hs hpr hrs with h | h | h | h | h | h | h | h | h | h | h | h <;>
  · obtain ⟨rfl, rfl, rfl⟩ := h
    norm_num [eS, eSign]

/-- polar form: `x = hypot x y · cos (atan2 y x)` -/
theorem hypot_mul_cos_arg (x y : ℝ) : Real.sqrt (x * x + y * y) * Real.cos (Complex.arg ⟨x, y⟩) = x := by
  have h := Complex.norm_mul_cos_arg (⟨x, y⟩ : ℂ)
  rwa [Complex.norm_def, Complex.normSq_mk] at h

theorem hypot_mul_sin_arg (x y : ℝ) : Real.sqrt (x * x + y * y) * Real.sin (Complex.arg ⟨x, y⟩) = y := by
  have h := Complex.norm_mul_sin_arg (⟨x, y⟩ : ℂ)
  rwa [Complex.norm_def, Complex.normSq_mk] at h

/-- the elementary quaternion of an angle, as `from_euler` forms it from the half angle -/
def elemH (n : Nat) (t : ℝ) : Q ℝ := elementaryG n (Real.sin (t / 2)) (Real.cos (t / 2))

/-- equality of quaternions up to a common sign (the same rotation) -/
def PmEq (x y : Q ℝ) : Prop := x = y ∨ x = y.neg

/-- quaternions that agree up to the sign have the same rotation matrix -/
theorem PmEq.toMat {x y : Q ℝ} (h : PmEq x y) : x.toMat = y.toMat := by
  rcases h with h | h
  · rw [h]
  · rw [h, toMat_neg]

theorem PmEq.mul {x x' y y' : Q ℝ} (hx : PmEq x x') (hy : PmEq y y') : PmEq (Q.mul x y) (Q.mul x' y') := by
  have e1 : ∀ a b : Q ℝ, Q.mul a.neg b = (Q.mul a b).neg := by
    intro a b; simp only [Q.mul, Q.neg, Q.mk.injEq]; refine ⟨?_, ?_, ?_, ?_⟩ <;> ring
  have e2 : ∀ a b : Q ℝ, Q.mul a b.neg = (Q.mul a b).neg := by
    intro a b; simp only [Q.mul, Q.neg, Q.mk.injEq]; refine ⟨?_, ?_, ?_, ?_⟩ <;> ring
  have e3 : ∀ a : Q ℝ, a.neg.neg = a := by
    intro a; simp [Q.neg]
  rcases hx with rfl | rfl <;> rcases hy with rfl | rfl
  · exact Or.inl rfl
  · exact Or.inr (e2 _ _)
  · exact Or.inr (e1 _ _)
  · exact Or.inl (by rw [e1, e2, e3])

/-- wrapping an angle by `±2π` changes the half-angle sine and cosine, hence the elementary quaternion, at
most by a common sign -/
theorem elemH_wrapPi (n : Nat) (t : ℝ) : PmEq (elemH n (wrapPi t)) (elemH n t) := by
  have hneg : ∀ s c : ℝ, elementaryG n (-s) (-c) = (elementaryG n s c).neg := by
    intro s c
    simp only [elementaryG, Q.neg, Q.mk.injEq]
    refine ⟨?_, ?_, ?_, trivial⟩ <;> split_ifs <;> simp
  unfold wrapPi
  simp only
  split_ifs
  · left
    have : t + 2 * Real.pi - 2 * Real.pi = t := by ring
    rw [this]
  · right
    have : (t + 2 * Real.pi) / 2 = t / 2 + Real.pi := by ring
    rw [elemH, this, Real.sin_add_pi, Real.cos_add_pi, hneg]; rfl
  · right
    have : (t - 2 * Real.pi) / 2 = t / 2 - Real.pi := by ring
    rw [elemH, this, Real.sin_sub_pi, Real.cos_sub_pi, hneg]; rfl
  · left; rfl

/-- the common scale of `a b c d`: `1` for proper Euler sequences, `√2` for Tait–Bryan sequences -/
def eK (p s0 : Nat) : ℝ := Real.sqrt (if p == s0 then 1 else 2)

theorem polar {p r s0 : Nat} (hp : p < 3) (hr : r < 3) (hs : s0 < 3) (hpr : p ≠ r) (hrs : r ≠ s0)
    (q : Q ℝ) (hq : q.normSq = 1) :
    eA q p r s0 = eK p s0 * Real.cos (eH q p r s0) * Real.cos (eSigma q p r s0) ∧
    eB q p r s0 = eK p s0 * Real.cos (eH q p r s0) * Real.sin (eSigma q p r s0) ∧
    eC q p r s0 = eK p s0 * Real.sin (eH q p r s0) * Real.cos (eDelta q p r s0) ∧
    eD q p r s0 = eK p s0 * Real.sin (eH q p r s0) * Real.sin (eDelta q p r s0) := by
  have hN := abcd_normSq hp hr hs hpr hrs q
  rw [hq, mul_one] at hN
  simp only [eK, eH, eSigma, eDelta]
  generalize eA q p r s0 = a at *
  generalize eB q p r s0 = b at *
  generalize eC q p r s0 = c at *
  generalize eD q p r s0 = d at *
  have h1 := Real.mul_self_sqrt (add_nonneg (mul_self_nonneg a) (mul_self_nonneg b))
  have h2 := Real.mul_self_sqrt (add_nonneg (mul_self_nonneg c) (mul_self_nonneg d))
  have hc := hypot_mul_cos_arg (Real.sqrt (a * a + b * b)) (Real.sqrt (c * c + d * d))
  have hs' := hypot_mul_sin_arg (Real.sqrt (a * a + b * b)) (Real.sqrt (c * c + d * d))
  rw [h1, h2, hN] at hc hs'
  have ha := hypot_mul_cos_arg a b
  have hb := hypot_mul_sin_arg a b
  have hc' := hypot_mul_cos_arg c d
  have hd := hypot_mul_sin_arg c d
  refine ⟨?_, ?_, ?_, ?_⟩
  · rw [hc]; exact ha.symm
  · rw [hc]; exact hb.symm
  · rw [hs']; exact hc'.symm
  · rw [hs']; exact hd.symm

/-- the half-angle pair of the second returned angle -/
theorem middle (p s0 : Nat) (h : ℝ) :
    let A1 := if p == s0 then 2 * h else 2 * h - Real.pi / 2
    (if p == s0 then Real.cos (A1 / 2) else Real.cos (A1 / 2) - Real.sin (A1 / 2)) = eK p s0 * Real.cos h ∧
    (if p == s0 then Real.sin (A1 / 2) else Real.cos (A1 / 2) + Real.sin (A1 / 2)) = eK p s0 * Real.sin h := by
  cases hsym : p == s0
  · have h4 : (2 * h - Real.pi / 2) / 2 = h - Real.pi / 4 := by ring
    have hk : Real.sqrt 2 / 2 * 2 = Real.sqrt 2 := by ring
    simp only [eK, hsym, Bool.false_eq_true, if_false, h4, Real.cos_sub, Real.sin_sub, Real.cos_pi_div_four,
      Real.sin_pi_div_four]
    constructor <;> ring
  · have h2 : 2 * h / 2 = h := by ring
    simp [eK, hsym, h2]


/-- composition of the three elementary rotations with first angle `U`, second angle the model's
`angles1`, third angle `V` (times `sign` for Tait–Bryan sequences) is the quaternion `q` itself as soon as
`(V + U)/2` and `(V - U)/2` agree with `halfSum`, `halfDiff` where it matters -/
theorem final_of_UV {p r s0 : Nat} (hp : p < 3) (hr : r < 3) (hs : s0 < 3) (hpr : p ≠ r) (hrs : r ≠ s0)
    (q : Q ℝ) (hq : q.normSq = 1) (U V : ℝ)
    (h1 : Real.cos (eH q p r s0) * Real.cos (V / 2 + U / 2) = Real.cos (eH q p r s0) * Real.cos (eSigma q p r s0))
    (h2 : Real.cos (eH q p r s0) * Real.sin (V / 2 + U / 2) = Real.cos (eH q p r s0) * Real.sin (eSigma q p r s0))
    (h3 : Real.sin (eH q p r s0) * Real.cos (V / 2 - U / 2) = Real.sin (eH q p r s0) * Real.cos (eDelta q p r s0))
    (h4 : Real.sin (eH q p r s0) * Real.sin (V / 2 - U / 2) = Real.sin (eH q p r s0) * Real.sin (eDelta q p r s0)) :
    Q.mul (Q.mul (elemH s0 (if p == s0 then V else V * eSign p r s0))
      (elemH r (if p == s0 then eTheta q p r s0 else eTheta q p r s0 - Real.pi / 2))) (elemH p U) = q := by
  have hV : elemH s0 (if p == s0 then V else V * eSign p r s0) =
      elementaryG s0 ((if p == s0 then 1 else eSign p r s0) * Real.sin (V / 2)) (Real.cos (V / 2)) := by
    cases hsym : p == s0
    · rcases eSign_cases hp hr hs hpr hrs with h | h
      · simp [elemH, h]
      · have : -V / 2 = -(V / 2) := by ring
        simp [elemH, h, this]
    · simp [elemH]
  obtain ⟨pa, pb, pc, pd⟩ := polar hp hr hs hpr hrs q hq
  obtain ⟨m1, m2⟩ := middle p s0 (eH q p r s0)
  obtain ⟨cA, cB, cC, cD⟩ := core hp hr hs hpr hrs (Real.sin (U / 2)) (Real.cos (U / 2)) (Real.sin (V / 2))
    (Real.cos (V / 2)) (Real.sin ((if p == s0 then eTheta q p r s0 else eTheta q p r s0 - Real.pi / 2) / 2))
    (Real.cos ((if p == s0 then eTheta q p r s0 else eTheta q p r s0 - Real.pi / 2) / 2))
  simp only [eTheta] at cA cB cC cD ⊢
  try simp only at m1 m2
  rw [hV]
  simp only [elemH]
  apply abcd_inj hp hr hs hpr hrs
  · rw [cA, m1, ← Real.cos_add, pa, mul_assoc, h1, mul_assoc]
  · rw [cB, m1, ← Real.sin_add, pb, mul_assoc, h2, mul_assoc]
  · rw [cC, m2, ← Real.cos_sub, pc, mul_assoc, h3, mul_assoc]
  · rw [cD, m2, ← Real.sin_sub, pd, mul_assoc, h4, mul_assoc]

/-- the half-angle (sin, cos) pair that `from_euler` computes from an angle -/
def halfSC (t : ℝ) : ℝ × ℝ := (Real.sin (t / 2), Real.cos (t / 2))

/-- `from_euler` (extrinsic: composes on the left) on wrapped angles is, up to the sign, the product of the
elementary quaternions of the unwrapped angles -/
theorem fromEuler_ext_pm (i j k : Nat) (a0 a1 a2 : ℝ) :
    PmEq (fromEulerG [i, j, k] ([wrapPi a0, wrapPi a1, wrapPi a2].map halfSC) false)
      (Q.mul (Q.mul (elemH k a2) (elemH j a1)) (elemH i a0)) := by
  have h : fromEulerG [i, j, k] ([wrapPi a0, wrapPi a1, wrapPi a2].map halfSC) false =
      Q.mul (elemH k (wrapPi a2)) (Q.mul (elemH j (wrapPi a1)) (elemH i (wrapPi a0))) := rfl
  rw [h, ← qmul_assoc]
  exact ((elemH_wrapPi k a2).mul (elemH_wrapPi j a1)).mul (elemH_wrapPi i a0)

/-- `from_euler` (intrinsic: composes on the right) on wrapped angles -/
theorem fromEuler_int_pm (i j k : Nat) (a0 a1 a2 : ℝ) :
    PmEq (fromEulerG [i, j, k] ([wrapPi a0, wrapPi a1, wrapPi a2].map halfSC) true)
      (Q.mul (Q.mul (elemH i a0) (elemH j a1)) (elemH k a2)) := by
  have h : fromEulerG [i, j, k] ([wrapPi a0, wrapPi a1, wrapPi a2].map halfSC) true =
      Q.mul (Q.mul (elemH i (wrapPi a0)) (elemH j (wrapPi a1))) (elemH k (wrapPi a2)) := rfl
  rw [h]
  exact ((elemH_wrapPi i a0).mul (elemH_wrapPi j a1)).mul (elemH_wrapPi k a2)

/-- first and third angle of an extrinsic sequence before `sign` and wrapping -/
def uExt (eps : ℝ) (q : Q ℝ) (p r s0 : Nat) : ℝ :=
  if eCase1 eps q p r s0 then 2 * eSigma q p r s0
  else if eCase2 eps q p r s0 then 2 * eDelta q p r s0 * (-1) else eSigma q p r s0 - eDelta q p r s0
def vExt (eps : ℝ) (q : Q ℝ) (p r s0 : Nat) : ℝ :=
  if !eCase1 eps q p r s0 && !eCase2 eps q p r s0 then eSigma q p r s0 + eDelta q p r s0 else 0
/-- third and first angle of an intrinsic sequence before `sign` and wrapping -/
def uInt (eps : ℝ) (q : Q ℝ) (p r s0 : Nat) : ℝ :=
  if !eCase1 eps q p r s0 && !eCase2 eps q p r s0 then eSigma q p r s0 - eDelta q p r s0 else 0
def vInt (eps : ℝ) (q : Q ℝ) (p r s0 : Nat) : ℝ :=
  if eCase1 eps q p r s0 then 2 * eSigma q p r s0
  else if eCase2 eps q p r s0 then 2 * eDelta q p r s0 * 1 else eSigma q p r s0 + eDelta q p r s0

theorem eulerOut_ext (eps : ℝ) (q : Q ℝ) (p r s0 : Nat) :
    eulerOut eps q p r s0 true =
      [wrapPi (uExt eps q p r s0),
       wrapPi (if p == s0 then eTheta q p r s0 else eTheta q p r s0 - Real.pi / 2),
       wrapPi (if p == s0 then vExt eps q p r s0 else vExt eps q p r s0 * eSign p r s0)] := by
  cases hsym : p == s0 <;> simp [eulerOut, uExt, vExt, hsym]

theorem eulerOut_int (eps : ℝ) (q : Q ℝ) (p r s0 : Nat) :
    eulerOut eps q p r s0 false =
      [wrapPi (if p == s0 then vInt eps q p r s0 else vInt eps q p r s0 * eSign p r s0),
       wrapPi (if p == s0 then eTheta q p r s0 else eTheta q p r s0 - Real.pi / 2),
       wrapPi (uInt eps q p r s0)] := by
  cases hsym : p == s0 <;> simp [eulerOut, uInt, vInt, hsym]

/-- `final_of_UV` with the four hypotheses reduced to: `(V + U)/2 = halfSum` unless `cos(θ/2) = 0`,
`(V - U)/2 = halfDiff` unless `sin(θ/2) = 0` -/
theorem final_of_UV' {p r s0 : Nat} (hp : p < 3) (hr : r < 3) (hs : s0 < 3) (hpr : p ≠ r) (hrs : r ≠ s0)
    (q : Q ℝ) (hq : q.normSq = 1) (U V : ℝ)
    (hσ : Real.cos (eH q p r s0) = 0 ∨ V / 2 + U / 2 = eSigma q p r s0)
    (hδ : Real.sin (eH q p r s0) = 0 ∨ V / 2 - U / 2 = eDelta q p r s0) :
    Q.mul (Q.mul (elemH s0 (if p == s0 then V else V * eSign p r s0))
      (elemH r (if p == s0 then eTheta q p r s0 else eTheta q p r s0 - Real.pi / 2))) (elemH p U) = q := by
  apply final_of_UV hp hr hs hpr hrs q hq
  · rcases hσ with h | h
    · rw [h, zero_mul, zero_mul]
    · rw [h]
  · rcases hσ with h | h
    · rw [h, zero_mul, zero_mul]
    · rw [h]
  · rcases hδ with h | h
    · rw [h, zero_mul, zero_mul]
    · rw [h]
  · rcases hδ with h | h
    · rw [h, zero_mul, zero_mul]
    · rw [h]

/-- the three branches of the extrinsic angle pair -/
theorem uvExt_branches (eps : ℝ) (q : Q ℝ) (p r s0 : Nat) :
    (eCase1 eps q p r s0 = true → uExt eps q p r s0 = 2 * eSigma q p r s0 ∧ vExt eps q p r s0 = 0) ∧
    (eCase1 eps q p r s0 = false → eCase2 eps q p r s0 = true →
      uExt eps q p r s0 = 2 * eDelta q p r s0 * (-1) ∧ vExt eps q p r s0 = 0) ∧
    (eCase1 eps q p r s0 = false → eCase2 eps q p r s0 = false →
      uExt eps q p r s0 = eSigma q p r s0 - eDelta q p r s0 ∧ vExt eps q p r s0 = eSigma q p r s0 + eDelta q p r s0) := by
  refine ⟨fun h1 => ?_, fun h1 h2 => ?_, fun h1 h2 => ?_⟩ <;> simp [uExt, vExt, *]

/-- the three branches of the intrinsic angle pair -/
theorem uvInt_branches (eps : ℝ) (q : Q ℝ) (p r s0 : Nat) :
    (eCase1 eps q p r s0 = true → vInt eps q p r s0 = 2 * eSigma q p r s0 ∧ uInt eps q p r s0 = 0) ∧
    (eCase1 eps q p r s0 = false → eCase2 eps q p r s0 = true →
      vInt eps q p r s0 = 2 * eDelta q p r s0 * 1 ∧ uInt eps q p r s0 = 0) ∧
    (eCase1 eps q p r s0 = false → eCase2 eps q p r s0 = false →
      vInt eps q p r s0 = eSigma q p r s0 + eDelta q p r s0 ∧ uInt eps q p r s0 = eSigma q p r s0 - eDelta q p r s0) := by
  refine ⟨fun h1 => ?_, fun h1 h2 => ?_, fun h1 h2 => ?_⟩ <;> simp [uInt, vInt, *]


/-- extrinsic sequence `[i, j, k]`: round trip under the assumption that a gimbal-lock branch is only
taken when the second angle is exactly `0` resp. `π` (i.e. its half is `0` resp. `π/2`) -/
theorem euler_round_trip_quat_ext_of (eps : ℝ) (q : Q ℝ) (hq : q.normSq = 1) {i j k : Nat} (hi : i < 3) (hj : j < 3)
    (hk : k < 3) (hij : i ≠ j) (hjk : j ≠ k)
    (H1 : eCase1 eps q i j k = true → eH q i j k = 0)
    (H2 : eCase1 eps q i j k = false → eCase2 eps q i j k = true → eH q i j k = Real.pi / 2) :
    PmEq (fromEulerG [i, j, k] ((toEulerG realTrig Int.cast eps q [i, j, k] true).map halfSC) false) q := by
  rw [toEulerG_extrinsic, eulerOut_ext]
  have hP := fromEuler_ext_pm i j k (uExt eps q i j k)
    (if i == k then eTheta q i j k else eTheta q i j k - Real.pi / 2)
    (if i == k then vExt eps q i j k else vExt eps q i j k * eSign i j k)
  suffices h : Q.mul (Q.mul (elemH k (if i == k then vExt eps q i j k else vExt eps q i j k * eSign i j k))
      (elemH j (if i == k then eTheta q i j k else eTheta q i j k - Real.pi / 2))) (elemH i (uExt eps q i j k)) = q by
    rwa [h] at hP
  obtain ⟨B1, B2, B3⟩ := uvExt_branches eps q i j k
  apply final_of_UV' hi hj hk hij hjk q hq
  · cases hc1 : eCase1 eps q i j k
    · cases hc2 : eCase2 eps q i j k
      · right; rw [(B3 hc1 hc2).1, (B3 hc1 hc2).2]; ring
      · left; rw [H2 hc1 hc2, Real.cos_pi_div_two]
    · right; rw [(B1 hc1).1, (B1 hc1).2]; ring
  · cases hc1 : eCase1 eps q i j k
    · cases hc2 : eCase2 eps q i j k
      · right; rw [(B3 hc1 hc2).1, (B3 hc1 hc2).2]; ring
      · right; rw [(B2 hc1 hc2).1, (B2 hc1 hc2).2]; ring
    · left; rw [H1 hc1, Real.sin_zero]

/-- intrinsic sequence `[i, j, k]` (the algorithm works on the reversed triple `k j i`) -/
theorem euler_round_trip_quat_int_of (eps : ℝ) (q : Q ℝ) (hq : q.normSq = 1) {i j k : Nat} (hi : i < 3) (hj : j < 3)
    (hk : k < 3) (hij : i ≠ j) (hjk : j ≠ k)
    (H1 : eCase1 eps q k j i = true → eH q k j i = 0)
    (H2 : eCase1 eps q k j i = false → eCase2 eps q k j i = true → eH q k j i = Real.pi / 2) :
    PmEq (fromEulerG [i, j, k] ((toEulerG realTrig Int.cast eps q [i, j, k] false).map halfSC) true) q := by
  rw [toEulerG_intrinsic, eulerOut_int]
  have hP := fromEuler_int_pm i j k (if k == i then vInt eps q k j i else vInt eps q k j i * eSign k j i)
    (if k == i then eTheta q k j i else eTheta q k j i - Real.pi / 2) (uInt eps q k j i)
  suffices h : Q.mul (Q.mul (elemH i (if k == i then vInt eps q k j i else vInt eps q k j i * eSign k j i))
      (elemH j (if k == i then eTheta q k j i else eTheta q k j i - Real.pi / 2))) (elemH k (uInt eps q k j i)) = q by
    rwa [h] at hP
  obtain ⟨B1, B2, B3⟩ := uvInt_branches eps q k j i
  apply final_of_UV' hk hj hi hjk.symm hij.symm q hq
  · cases hc1 : eCase1 eps q k j i
    · cases hc2 : eCase2 eps q k j i
      · right; rw [(B3 hc1 hc2).1, (B3 hc1 hc2).2]; ring
      · left; rw [H2 hc1 hc2, Real.cos_pi_div_two]
    · right; rw [(B1 hc1).1, (B1 hc1).2]; ring
  · cases hc1 : eCase1 eps q k j i
    · cases hc2 : eCase2 eps q k j i
      · right; rw [(B3 hc1 hc2).1, (B3 hc1 hc2).2]; ring
      · right; rw [(B2 hc1 hc2).1, (B2 hc1 hc2).2]; ring
    · left; rw [H1 hc1, Real.sin_zero]

theorem absIf_eq_abs (x : ℝ) : absIf x = |x| := by
  unfold absIf
  split_ifs with h
  · exact (abs_of_neg h).symm
  · exact (abs_of_nonneg (not_lt.mp h)).symm

/-- `case1` does not fire iff `eps < |angles1|` -/
theorem eCase1_eq_false_iff (eps : ℝ) (q : Q ℝ) (p r s0 : Nat) :
    eCase1 eps q p r s0 = false ↔ eps < |eTheta q p r s0| := by
  simp [eCase1, absIf_eq_abs]

/-- `case2` does not fire iff `eps < |angles1 - π|` -/
theorem eCase2_eq_false_iff (eps : ℝ) (q : Q ℝ) (p r s0 : Nat) :
    eCase2 eps q p r s0 = false ↔ eps < |eTheta q p r s0 - Real.pi| := by
  simp [eCase2, absIf_eq_abs]

/-- with threshold `0`, `case1` fires exactly when the second angle is `0` -/
theorem eCase1_zero (q : Q ℝ) (p r s0 : Nat) : eCase1 0 q p r s0 = true ↔ eH q p r s0 = 0 := by
  simp only [eCase1, absIf_eq_abs, eTheta, decide_eq_true_eq, abs_nonpos_iff]
  constructor <;> intro h <;> linarith

/-- with threshold `0`, `case2` fires exactly when the second angle is `π` -/
theorem eCase2_zero (q : Q ℝ) (p r s0 : Nat) : eCase2 0 q p r s0 = true ↔ eH q p r s0 = Real.pi / 2 := by
  simp only [eCase2, absIf_eq_abs, eTheta, decide_eq_true_eq, abs_nonpos_iff]
  constructor <;> intro h <;> linarith

/-- with threshold `0`, `case1` fires exactly when `hypot c d = 0` -/
theorem eCase1_zero_iff_hypot (q : Q ℝ) (p r s0 : Nat) :
    eCase1 0 q p r s0 = true ↔
      Real.sqrt (eC q p r s0 * eC q p r s0 + eD q p r s0 * eD q p r s0) = 0 := by
  rw [eCase1_zero, eH, Complex.arg_eq_zero_iff]
  simp [Real.sqrt_nonneg]

/-- with threshold `0` and a unit quaternion, `case2` fires exactly when `hypot a b = 0` -/
theorem eCase2_zero_iff_hypot {p r s0 : Nat} (hp : p < 3) (hr : r < 3) (hs : s0 < 3) (hpr : p ≠ r) (hrs : r ≠ s0)
    (q : Q ℝ) (hq : q.normSq = 1) :
    eCase2 0 q p r s0 = true ↔
      Real.sqrt (eA q p r s0 * eA q p r s0 + eB q p r s0 * eB q p r s0) = 0 := by
  rw [eCase2_zero, eH, Complex.arg_eq_pi_div_two_iff]
  simp only
  constructor
  · exact fun h => h.1
  · intro h
    refine ⟨h, ?_⟩
    have hN := abcd_normSq hp hr hs hpr hrs q
    rw [hq, mul_one] at hN
    have h0 : eA q p r s0 * eA q p r s0 + eB q p r s0 * eB q p r s0 = 0 := by
      have := Real.mul_self_sqrt (add_nonneg (mul_self_nonneg (eA q p r s0)) (mul_self_nonneg (eB q p r s0)))
      rw [h, mul_zero] at this
      exact this.symm
    rw [h0, zero_add] at hN
    rw [hN]
    apply Real.sqrt_pos.mpr
    split_ifs <;> norm_num

/-- **Round trip at the level of quaternions, generic branch** (any threshold `eps`): if neither gimbal-lock
branch of `toEulerG` fires, `from_euler(seq, as_euler(seq))` is `q` or `-q` (`PmEq`). -/
theorem euler_round_trip_quat_generic (eps : ℝ) (q : Q ℝ) (hq : q.normSq = 1) {i j k : Nat} (hi : i < 3) (hj : j < 3)
    (hk : k < 3) (hij : i ≠ j) (hjk : j ≠ k) (extrinsic : Bool)
    (h1 : eCase1 eps q (if extrinsic then i else k) j (if extrinsic then k else i) = false)
    (h2 : eCase2 eps q (if extrinsic then i else k) j (if extrinsic then k else i) = false) :
    PmEq (fromEulerG [i, j, k] ((toEulerG realTrig Int.cast eps q [i, j, k] extrinsic).map halfSC) (!extrinsic)) q := by
  cases extrinsic
  · simp only [Bool.false_eq_true, if_false] at h1 h2
    exact euler_round_trip_quat_int_of eps q hq hi hj hk hij hjk (fun h => by rw [h1] at h; cases h)
      (fun _ h => by rw [h2] at h; cases h)
  · simp only [if_true] at h1 h2
    exact euler_round_trip_quat_ext_of eps q hq hi hj hk hij hjk (fun h => by rw [h1] at h; cases h)
      (fun _ h => by rw [h2] at h; cases h)

/-- **Round trip at the level of quaternions, all branches, threshold `0`**: `from_euler(seq, as_euler(seq))`
is `q` or `-q`. -/
theorem euler_round_trip_quat (q : Q ℝ) (hq : q.normSq = 1) {i j k : Nat} (hi : i < 3) (hj : j < 3)
    (hk : k < 3) (hij : i ≠ j) (hjk : j ≠ k) (extrinsic : Bool) :
    PmEq (fromEulerG [i, j, k] ((toEulerG realTrig Int.cast 0 q [i, j, k] extrinsic).map halfSC) (!extrinsic)) q := by
  cases extrinsic
  · exact euler_round_trip_quat_int_of 0 q hq hi hj hk hij hjk (eCase1_zero q k j i).mp
      (fun _ => (eCase2_zero q k j i).mp)
  · exact euler_round_trip_quat_ext_of 0 q hq hi hj hk hij hjk (eCase1_zero q i j k).mp
      (fun _ => (eCase2_zero q i j k).mp)

/-- **Round trip, generic branch** (any threshold `eps`): if neither gimbal-lock branch of `toEulerG` fires
(`eps < |angles1|` and `eps < |angles1 - π|`, see `eCase1_eq_false_iff`, `eCase2_eq_false_iff`) then
`from_euler(seq, as_euler(seq))` has the rotation matrix of the unit quaternion `q`; all twelve sequences
`[i, j, k]`, extrinsic (`from_euler` composes on the left) and intrinsic (composes on the right). The internal
axis triple of the algorithm is `i j k` for extrinsic and `k j i` for intrinsic sequences. -/
theorem euler_round_trip_generic (eps : ℝ) (q : Q ℝ) (hq : q.normSq = 1) {i j k : Nat} (hi : i < 3) (hj : j < 3)
    (hk : k < 3) (hij : i ≠ j) (hjk : j ≠ k) (extrinsic : Bool)
    (h1 : eCase1 eps q (if extrinsic then i else k) j (if extrinsic then k else i) = false)
    (h2 : eCase2 eps q (if extrinsic then i else k) j (if extrinsic then k else i) = false) :
    (fromEulerG [i, j, k] ((toEulerG realTrig Int.cast eps q [i, j, k] extrinsic).map halfSC) (!extrinsic)).toMat
      = q.toMat :=
  (euler_round_trip_quat_generic eps q hq hi hj hk hij hjk extrinsic h1 h2).toMat

/-- **Round trip, gimbal-lock branches with exact hypotheses** (any threshold `eps`): if a gimbal-lock branch is
only taken when the second angle is exactly `0` (`case1`) resp. `π` (`case2`) — automatically so for `eps = 0` —
the rotation matrix is reproduced although the third angle is set to `0`. -/
theorem euler_round_trip_of (eps : ℝ) (q : Q ℝ) (hq : q.normSq = 1) {i j k : Nat} (hi : i < 3) (hj : j < 3)
    (hk : k < 3) (hij : i ≠ j) (hjk : j ≠ k) (extrinsic : Bool)
    (H1 : eCase1 eps q (if extrinsic then i else k) j (if extrinsic then k else i) = true →
      eTheta q (if extrinsic then i else k) j (if extrinsic then k else i) = 0)
    (H2 : eCase2 eps q (if extrinsic then i else k) j (if extrinsic then k else i) = true →
      eTheta q (if extrinsic then i else k) j (if extrinsic then k else i) = Real.pi) :
    (fromEulerG [i, j, k] ((toEulerG realTrig Int.cast eps q [i, j, k] extrinsic).map halfSC) (!extrinsic)).toMat
      = q.toMat := by
  cases extrinsic
  · simp only [Bool.false_eq_true, if_false, eTheta] at H1 H2
    exact (euler_round_trip_quat_int_of eps q hq hi hj hk hij hjk (fun h => by linarith [H1 h])
      (fun _ h => by linarith [H2 h])).toMat
  · simp only [if_true, eTheta] at H1 H2
    exact (euler_round_trip_quat_ext_of eps q hq hi hj hk hij hjk (fun h => by linarith [H1 h])
      (fun _ h => by linarith [H2 h])).toMat

/-- **Round trip, all branches, threshold `0`**: for every unit quaternion `q`, every axis sequence `[i, j, k]`
(storage indices `< 3`, adjacent ones different: the six proper Euler and the six Tait–Bryan sequences) and both
frames, `from_euler(seq, as_euler(seq))` has the rotation matrix of `q`. With `eps = 0` the gimbal-lock branches
fire exactly at `hypot c d = 0` resp. `hypot a b = 0` (`eCase1_zero_iff_hypot`, `eCase2_zero_iff_hypot`), where the
third angle is set to `0`. -/
theorem euler_round_trip (q : Q ℝ) (hq : q.normSq = 1) {i j k : Nat} (hi : i < 3) (hj : j < 3)
    (hk : k < 3) (hij : i ≠ j) (hjk : j ≠ k) (extrinsic : Bool) :
    (fromEulerG [i, j, k] ((toEulerG realTrig Int.cast 0 q [i, j, k] extrinsic).map halfSC) (!extrinsic)).toMat
      = q.toMat :=
  (euler_round_trip_quat q hq hi hj hk hij hjk extrinsic).toMat

end
end M

namespace M

/-! ### the `Float` function is the generic one -/
theorem F.toEuler_eq_G : F.toEuler = toEulerG F.floatTrig Float.ofInt 1e-7 := rfl

/-! ### non-vacuity -/

/-- the identity rotation (gimbal lock of every proper Euler sequence), extrinsic `[0, 1, 0]` -/
example : (fromEulerG [0, 1, 0] ((toEulerG realTrig Int.cast 0 ⟨0, 0, 0, 1⟩ [0, 1, 0] true).map halfSC) false).toMat
    = Q.toMat (⟨0, 0, 0, 1⟩ : Q ℝ) :=
  euler_round_trip _ (by norm_num [Q.normSq]) (by norm_num) (by norm_num) (by norm_num) (by norm_num) (by norm_num) true

/-- a Tait–Bryan sequence, intrinsic `[2, 1, 0]`, on the quaternion `(½, ½, ½, ½)` -/
example : (fromEulerG [2, 1, 0] ((toEulerG realTrig Int.cast 0 ⟨1/2, 1/2, 1/2, 1/2⟩ [2, 1, 0] false).map halfSC) true).toMat
    = Q.toMat (⟨1/2, 1/2, 1/2, 1/2⟩ : Q ℝ) :=
  euler_round_trip _ (by norm_num [Q.normSq]) (by norm_num) (by norm_num) (by norm_num) (by norm_num) (by norm_num) false

/-- the hypotheses of `euler_round_trip_generic` are satisfiable: for `(½, ½, ½, ½)` and the proper sequence
`[0, 1, 0]` neither gimbal-lock branch fires at threshold `0` -/
example : eCase1 0 ⟨1/2, 1/2, 1/2, 1/2⟩ 0 1 0 = false ∧ eCase2 0 ⟨1/2, 1/2, 1/2, 1/2⟩ 0 1 0 = false := by
  have hq : (⟨1/2, 1/2, 1/2, 1/2⟩ : Q ℝ).normSq = 1 := by norm_num [Q.normSq]
  have h1 := eCase1_zero_iff_hypot ⟨1/2, 1/2, 1/2, 1/2⟩ 0 1 0
  have h2 := eCase2_zero_iff_hypot (p := 0) (r := 1) (s0 := 0) (by norm_num) (by norm_num) (by norm_num)
    (by norm_num) (by norm_num) ⟨1/2, 1/2, 1/2, 1/2⟩ hq
  constructor
  · rw [Bool.eq_false_iff, Ne, h1, Real.sqrt_eq_zero']
    norm_num [eC, eD, eS, eSign, qgetG]
  · rw [Bool.eq_false_iff, Ne, h2, Real.sqrt_eq_zero']
    norm_num [eA, eB, eS, eSign, qgetG]

end M
