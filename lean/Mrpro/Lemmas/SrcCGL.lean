import Mrpro.Gen.Src
import Mrpro.Lemmas.CGL
import Mathlib.Tactic.Module

/-! The update formulas of `cg` translated from the Python source on every run (`Mrpro/Gen/Src.lean`: one definition per assignment, in
source order, typed as scalar / vector expressions over the operations `cg` uses) are the ones of the hand-written loop
`M.cgLoop` — so the invariants, the Krylov optimality and the finite termination proved for `cgLoop` are statements about
the formulas in `cg.py` as it stands.  What stays hand-modelled and tied by the correspondence check: the control flow around the
formulas (order of the exits, the tolerance tests, the callback). -/

namespace M.SrcL
open M M.Src
variable {K V : Type} [Field K] [LinearOrder K] [IsStrictOrderedRing K] [AddCommGroup V] [Module K V]
variable (B : V →ₗ[K] V →ₗ[K] K) (H : V →ₗ[K] V)

/-- initial state: residual `b − H x`, first direction = residual -/
theorem cg_init_eq (b : V) (x0 : Option V) :
    cgInit (modOps' B) (fun v => H v) b x0 =
      (let x := start' b x0
       let r := cg_init_residual (modOps' B) (fun v => H v) b x
       { x := x, r := r, p := cg_init_direction (modOps' B) (fun v => H v) r, rrPrev := none }) := by
  first
    | (cases x0 <;> rfl)
    | (cases x0 <;> simp only [cgInit, start', cg_init_residual, cg_init_direction, modOps'] <;> congr 1 <;> module)

/-- the search direction of an iteration -/
theorem cg_direction_eq (st : CGState K V) :
    nextP B st = (match st.rrPrev with
      | none => some st.p
      | some prev => if prev = 0 then none
          else some (cg_direction (modOps' B) (fun v => H v) st.r
            (cg_beta (modOps' B) (fun v => H v) (cg_rr (modOps' B) (fun v => H v) st.r) prev) st.p)) := by
  first
    | rfl
    | (cases h : st.rrPrev <;> simp only [nextP, h, cg_direction, cg_beta, cg_rr, modOps'] <;> split <;> first | rfl | (congr 1; module))

/-- the state after an iteration with direction `p` -/
theorem cg_step_eq (st : CGState K V) (p : V) :
    stepSt B H st p =
      (let ops := modOps' B
       let Hf := fun v => H v
       let rr := cg_rr ops Hf st.r
       let hp := cg_hp ops Hf p
       let α := cg_alpha ops Hf rr p hp
       { x := cg_solution ops Hf st.x α p, r := cg_residual ops Hf st.r α hp, p := p,
         rrPrev := some (cg_rr_previous ops Hf rr) }) := by
  first
    | rfl
    | (simp only [stepSt, cg_rr, cg_hp, cg_alpha, cg_solution, cg_residual, cg_rr_previous, modOps']; congr 1 <;> first | rfl | module)

theorem cg_trace_eq (st : CGState K V) (p : V) (k : Nat) :
    stepTr B H st p k =
      (let ops := modOps' B
       let Hf := fun v => H v
       let rr := cg_rr ops Hf st.r
       let hp := cg_hp ops Hf p
       let α := cg_alpha ops Hf rr p hp
       { x := cg_solution ops Hf st.x α p, r := cg_residual ops Hf st.r α hp, k := k }) := by
  first
    | rfl
    | (simp only [stepTr, cg_rr, cg_hp, cg_alpha, cg_solution, cg_residual, modOps']; congr 1 <;> first | rfl | module)

/-- one whole iteration of the loop written with the source formulas only -/
theorem cg_iteration_eq (tol2 : Option K) (fuel k : Nat) (st : CGState K V) (tr : List (CGTrace V)) :
    cgLoop (modOps' B) (fun v => H v) tol2 (fuel + 1) k st tr =
      (let ops := modOps' B
       let Hf := fun v => H v
       let rr := cg_rr ops Hf st.r
       if rr = 0 then .ok st.x "zero-residual" tr.reverse
       else if tolHit tol2 rr then .ok st.x "tolerance" tr.reverse
       else match (match st.rrPrev with
          | none => some st.p
          | some prev => if prev = 0 then none else some (cg_direction ops Hf st.r (cg_beta ops Hf rr prev) st.p)) with
        | none => .nan k tr.reverse
        | some p =>
          let hp := cg_hp ops Hf p
          if ops.dot p hp = 0 then .nan k tr.reverse
          else
            let α := cg_alpha ops Hf rr p hp
            let x' := cg_solution ops Hf st.x α p
            let r' := cg_residual ops Hf st.r α hp
            cgLoop ops Hf tol2 fuel (k + 1) { x := x', r := r', p := p, rrPrev := some (cg_rr_previous ops Hf rr) }
              ({ x := x', r := r', k := k } :: tr)) := by
  first
    | rfl
    | (simp only [cgLoop_succ, cg_direction_eq B H, cg_step_eq B H, cg_trace_eq B H]; rfl)

end M.SrcL
