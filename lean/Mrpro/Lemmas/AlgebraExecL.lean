import Mrpro.Model.AlgebraExec
import Mrpro.Lemmas.Basic
/-! Refinement proofs: array evaluators (driver) vs function-based model (theorems). -/
namespace M
variable {K : Type} [CommRing K] [StarRing K] [DecidableEq K]

set_option linter.unusedSectionVars false

/-! ### arrays vs functions -/

theorem toFn_ofFnN {n : Nat} (f : Nat → K) {i : Nat} (hi : i < n) : toFn (ofFnN n f) i = f i := by
  unfold toFn ofFnN
  simp [Array.getD, hi]

theorem sumTo_congr {n : Nat} {f g : Nat → K} (h : ∀ j, j < n → f j = g j) :
    sumTo n f = sumTo n g := by
  rw [sumTo_eq, sumTo_eq]
  exact Finset.sum_congr rfl (fun j hj => h j (Finset.mem_range.mp hj))

/-- two vectors agree on the first `n` entries -/
def AgreeOn (n : Nat) (x x' : Nat → K) : Prop := ∀ j, j < n → x j = x' j

/-! ### the function model only looks at the first `n` entries -/
section Congr
variable (n : Nat) (Lf La : Nat → (Nat → K) → (Nat → K))
    (cf : ∀ l x x', (∀ j, j < n → x j = x' j) → ∀ i, i < n → Lf l x i = Lf l x' i)
    (ca : ∀ l x x', (∀ j, j < n → x j = x' j) → ∀ i, i < n → La l x i = La l x' i)
include cf ca

mutual
theorem Obj.fwd_congr : ∀ (o : Obj K) (x x' : Nat → K), AgreeOn n x x' →
    AgreeOn n (Obj.fwd Lf La o x) (Obj.fwd Lf La o x')
  | .leaf l, x, x', h => by
      intro i hi; simp only [Obj.fwd]; exact cf l x x' h i hi
  | .identity, x, x', h => by
      intro i hi; simp only [Obj.fwd]; exact h i hi
  | .zeroOp, x, x', h => by
      intro i hi; simp only [Obj.fwd]
  | .composition p q, x, x', h => by
      intro i hi; simp only [Obj.fwd]
      exact Obj.fwd_congr p _ _ (Obj.fwd_congr q x x' h) i hi
  | .sum l, x, x', h => by
      intro i hi; simp only [Obj.fwd]
      exact Obj.fwdSum_congr l x x' h i hi
  | .prodRight p c, x, x', h => by
      intro i hi; simp only [Obj.fwd]
      rw [Obj.fwd_congr p x x' h i hi]
  | .prodLeft p c, x, x', h => by
      intro i hi; simp only [Obj.fwd]
      exact Obj.fwd_congr p _ _ (fun j hj => by show c.at j * x j = c.at j * x' j; rw [h j hj]) i hi
  | .adjointOf p, x, x', h => by
      intro i hi; simp only [Obj.fwd]
      exact Obj.adj_congr p x x' h i hi
theorem Obj.fwdSum_congr : ∀ (l : List (Obj K)) (x x' : Nat → K), AgreeOn n x x' →
    AgreeOn n (Obj.fwdSum Lf La l x) (Obj.fwdSum Lf La l x')
  | [], x, x', h => by
      intro i hi; simp only [Obj.fwdSum]
  | o :: os, x, x', h => by
      intro i hi; simp only [Obj.fwdSum]
      rw [Obj.fwd_congr o x x' h i hi, Obj.fwdSum_congr os x x' h i hi]
theorem Obj.adj_congr : ∀ (o : Obj K) (x x' : Nat → K), AgreeOn n x x' →
    AgreeOn n (Obj.adj Lf La o x) (Obj.adj Lf La o x')
  | .leaf l, x, x', h => by
      intro i hi; simp only [Obj.adj]; exact ca l x x' h i hi
  | .identity, x, x', h => by
      intro i hi; simp only [Obj.adj]; exact h i hi
  | .zeroOp, x, x', h => by
      intro i hi; simp only [Obj.adj]
  | .composition p q, x, x', h => by
      intro i hi; simp only [Obj.adj]
      exact Obj.adj_congr q _ _ (Obj.adj_congr p x x' h) i hi
  | .sum l, x, x', h => by
      intro i hi; simp only [Obj.adj]
      exact Obj.adjSum_congr l x x' h i hi
  | .prodRight p c, x, x', h => by
      intro i hi; simp only [Obj.adj]
      exact Obj.adj_congr p _ _
        (fun j hj => by show x j * conj (c.at j) = x' j * conj (c.at j); rw [h j hj]) i hi
  | .prodLeft p c, x, x', h => by
      intro i hi; simp only [Obj.adj]
      rw [Obj.adj_congr p x x' h i hi]
  | .adjointOf p, x, x', h => by
      intro i hi; simp only [Obj.adj]
      exact Obj.fwd_congr p x x' h i hi
theorem Obj.adjSum_congr : ∀ (l : List (Obj K)) (x x' : Nat → K), AgreeOn n x x' →
    AgreeOn n (Obj.adjSum Lf La l x) (Obj.adjSum Lf La l x')
  | [], x, x', h => by
      intro i hi; simp only [Obj.adjSum]
  | o :: os, x, x', h => by
      intro i hi; simp only [Obj.adjSum]
      rw [Obj.adj_congr o x x' h i hi, Obj.adjSum_congr os x x' h i hi]
end

theorem den_congr_both (e : Expr K) :
    (∀ x x' : Nat → K, AgreeOn n x x' → AgreeOn n (den Lf La e x) (den Lf La e x')) ∧
    (∀ x x' : Nat → K, AgreeOn n x x' → AgreeOn n (denH Lf La e x) (denH Lf La e x')) := by
  induction e with
  | leaf l =>
    exact ⟨fun x x' h i hi => by simp only [den]; exact cf l x x' h i hi,
           fun x x' h i hi => by simp only [denH]; exact ca l x x' h i hi⟩
  | ident =>
    exact ⟨fun x x' h i hi => by simp only [den]; exact h i hi,
           fun x x' h i hi => by simp only [denH]; exact h i hi⟩
  | zero =>
    exact ⟨fun x x' h i hi => by simp only [den], fun x x' h i hi => by simp only [denH]⟩
  | comp a b iha ihb =>
    exact ⟨fun x x' h i hi => by simp only [den]; exact iha.1 _ _ (ihb.1 x x' h) i hi,
           fun x x' h i hi => by simp only [denH]; exact ihb.2 _ _ (iha.2 x x' h) i hi⟩
  | add a b iha ihb =>
    exact ⟨fun x x' h i hi => by simp only [den]; rw [iha.1 x x' h i hi, ihb.1 x x' h i hi],
           fun x x' h i hi => by simp only [denH]; rw [iha.2 x x' h i hi, ihb.2 x x' h i hi]⟩
  | addT a d iha =>
    exact ⟨fun x x' h i hi => by simp only [den]; rw [iha.1 x x' h i hi, h i hi],
           fun x x' h i hi => by simp only [denH]; rw [iha.2 x x' h i hi, h i hi]⟩
  | rmul c a iha =>
    refine ⟨fun x x' h i hi => by simp only [den]; rw [iha.1 x x' h i hi],
            fun x x' h i hi => ?_⟩
    simp only [denH]
    exact iha.2 _ _
      (fun j hj => by show conj (c.at j) * x j = conj (c.at j) * x' j; rw [h j hj]) i hi
  | mul a c iha =>
    refine ⟨fun x x' h i hi => ?_,
            fun x x' h i hi => by simp only [denH]; rw [iha.2 x x' h i hi]⟩
    simp only [den]
    exact iha.1 _ _ (fun j hj => by show c.at j * x j = c.at j * x' j; rw [h j hj]) i hi
  | adj a iha =>
    exact ⟨fun x x' h i hi => by simp only [den]; exact iha.2 x x' h i hi,
           fun x x' h i hi => by simp only [denH]; exact iha.1 x x' h i hi⟩
  | gram a iha =>
    exact ⟨fun x x' h i hi => by simp only [den]; exact iha.2 _ _ (iha.1 x x' h) i hi,
           fun x x' h i hi => by simp only [denH]; exact iha.2 _ _ (iha.1 x x' h) i hi⟩
end Congr

/-! ### refinement -/
section Refine
variable (n : Nat) (LfA LaA : Nat → Array K → Array K) (Lf La : Nat → (Nat → K) → (Nat → K))
    (hf : ∀ l xa i, i < n → toFn (LfA l xa) i = Lf l (toFn xa) i)
    (ha : ∀ l xa i, i < n → toFn (LaA l xa) i = La l (toFn xa) i)
    (cf : ∀ l x x', (∀ j, j < n → x j = x' j) → ∀ i, i < n → Lf l x i = Lf l x' i)
    (ca : ∀ l x x', (∀ j, j < n → x j = x' j) → ∀ i, i < n → La l x i = La l x' i)
include hf ha cf ca

mutual
theorem Obj.fwdA_ref : ∀ (o : Obj K) (xa : Array K),
    AgreeOn n (toFn (Obj.fwdA n LfA LaA o xa)) (Obj.fwd Lf La o (toFn xa))
  | .leaf l, xa => by
      intro i hi; simp only [Obj.fwdA, Obj.fwd]; exact hf l xa i hi
  | .identity, xa => by
      intro i hi; simp only [Obj.fwdA, Obj.fwd]
  | .zeroOp, xa => by
      intro i hi; simp only [Obj.fwdA, Obj.fwd]; exact toFn_ofFnN _ hi
  | .composition p q, xa => by
      intro i hi; simp only [Obj.fwdA, Obj.fwd]
      rw [Obj.fwdA_ref p _ i hi]
      exact Obj.fwd_congr n Lf La cf ca p _ _ (Obj.fwdA_ref q xa) i hi
  | .sum l, xa => by
      intro i hi; simp only [Obj.fwdA, Obj.fwd]
      exact Obj.fwdSumA_ref l xa i hi
  | .prodRight p c, xa => by
      intro i hi; simp only [Obj.fwdA, Obj.fwd]
      rw [toFn_ofFnN _ hi, Obj.fwdA_ref p xa i hi]
  | .prodLeft p c, xa => by
      intro i hi; simp only [Obj.fwdA, Obj.fwd]
      rw [Obj.fwdA_ref p _ i hi]
      exact Obj.fwd_congr n Lf La cf ca p _ _ (fun j hj => toFn_ofFnN _ hj) i hi
  | .adjointOf p, xa => by
      intro i hi; simp only [Obj.fwdA, Obj.fwd]
      exact Obj.adjA_ref p xa i hi
theorem Obj.fwdSumA_ref : ∀ (l : List (Obj K)) (xa : Array K),
    AgreeOn n (toFn (Obj.fwdSumA n LfA LaA l xa)) (Obj.fwdSum Lf La l (toFn xa))
  | [], xa => by
      intro i hi; simp only [Obj.fwdSumA, Obj.fwdSum]; exact toFn_ofFnN _ hi
  | o :: os, xa => by
      intro i hi; simp only [Obj.fwdSumA, Obj.fwdSum]
      rw [toFn_ofFnN _ hi, Obj.fwdA_ref o xa i hi, Obj.fwdSumA_ref os xa i hi]
theorem Obj.adjA_ref : ∀ (o : Obj K) (xa : Array K),
    AgreeOn n (toFn (Obj.adjA n LfA LaA o xa)) (Obj.adj Lf La o (toFn xa))
  | .leaf l, xa => by
      intro i hi; simp only [Obj.adjA, Obj.adj]; exact ha l xa i hi
  | .identity, xa => by
      intro i hi; simp only [Obj.adjA, Obj.adj]
  | .zeroOp, xa => by
      intro i hi; simp only [Obj.adjA, Obj.adj]; exact toFn_ofFnN _ hi
  | .composition p q, xa => by
      intro i hi; simp only [Obj.adjA, Obj.adj]
      rw [Obj.adjA_ref q _ i hi]
      exact Obj.adj_congr n Lf La cf ca q _ _ (Obj.adjA_ref p xa) i hi
  | .sum l, xa => by
      intro i hi; simp only [Obj.adjA, Obj.adj]
      exact Obj.adjSumA_ref l xa i hi
  | .prodRight p c, xa => by
      intro i hi; simp only [Obj.adjA, Obj.adj]
      rw [Obj.adjA_ref p _ i hi]
      exact Obj.adj_congr n Lf La cf ca p _ _ (fun j hj => toFn_ofFnN _ hj) i hi
  | .prodLeft p c, xa => by
      intro i hi; simp only [Obj.adjA, Obj.adj]
      rw [toFn_ofFnN _ hi, Obj.adjA_ref p xa i hi]
  | .adjointOf p, xa => by
      intro i hi; simp only [Obj.adjA, Obj.adj]
      exact Obj.fwdA_ref p xa i hi
theorem Obj.adjSumA_ref : ∀ (l : List (Obj K)) (xa : Array K),
    AgreeOn n (toFn (Obj.adjSumA n LfA LaA l xa)) (Obj.adjSum Lf La l (toFn xa))
  | [], xa => by
      intro i hi; simp only [Obj.adjSumA, Obj.adjSum]; exact toFn_ofFnN _ hi
  | o :: os, xa => by
      intro i hi; simp only [Obj.adjSumA, Obj.adjSum]
      rw [toFn_ofFnN _ hi, Obj.adjA_ref o xa i hi, Obj.adjSumA_ref os xa i hi]
end

theorem denA_ref_both (e : Expr K) :
    (∀ xa : Array K, AgreeOn n (toFn (denA n LfA LaA e xa)) (den Lf La e (toFn xa))) ∧
    (∀ xa : Array K, AgreeOn n (toFn (denHA n LfA LaA e xa)) (denH Lf La e (toFn xa))) := by
  induction e with
  | leaf l =>
    exact ⟨fun xa i hi => by simp only [denA, den]; exact hf l xa i hi,
           fun xa i hi => by simp only [denHA, denH]; exact ha l xa i hi⟩
  | ident =>
    exact ⟨fun xa i hi => by simp only [denA, den], fun xa i hi => by simp only [denHA, denH]⟩
  | zero =>
    exact ⟨fun xa i hi => by simp only [denA, den]; exact toFn_ofFnN _ hi,
           fun xa i hi => by simp only [denHA, denH]; exact toFn_ofFnN _ hi⟩
  | comp a b iha ihb =>
    have ca' := den_congr_both n Lf La cf ca a
    have cb' := den_congr_both n Lf La cf ca b
    constructor
    · intro xa i hi; simp only [denA, den]
      rw [iha.1 _ i hi]
      exact ca'.1 _ _ (ihb.1 xa) i hi
    · intro xa i hi; simp only [denHA, denH]
      rw [ihb.2 _ i hi]
      exact cb'.2 _ _ (iha.2 xa) i hi
  | add a b iha ihb =>
    constructor
    · intro xa i hi; simp only [denA, den]
      rw [toFn_ofFnN _ hi, iha.1 xa i hi, ihb.1 xa i hi]
    · intro xa i hi; simp only [denHA, denH]
      rw [toFn_ofFnN _ hi, iha.2 xa i hi, ihb.2 xa i hi]
  | addT a d iha =>
    constructor
    · intro xa i hi; simp only [denA, den]
      rw [toFn_ofFnN _ hi, iha.1 xa i hi]
    · intro xa i hi; simp only [denHA, denH]
      rw [toFn_ofFnN _ hi, iha.2 xa i hi]
  | rmul c a iha =>
    have ca' := den_congr_both n Lf La cf ca a
    constructor
    · intro xa i hi; simp only [denA, den]
      rw [toFn_ofFnN _ hi, iha.1 xa i hi]
    · intro xa i hi; simp only [denHA, denH]
      rw [iha.2 _ i hi]
      exact ca'.2 _ _ (fun j hj => toFn_ofFnN _ hj) i hi
  | mul a c iha =>
    have ca' := den_congr_both n Lf La cf ca a
    constructor
    · intro xa i hi; simp only [denA, den]
      rw [iha.1 _ i hi]
      exact ca'.1 _ _ (fun j hj => toFn_ofFnN _ hj) i hi
    · intro xa i hi; simp only [denHA, denH]
      rw [toFn_ofFnN _ hi, iha.2 xa i hi]
  | adj a iha =>
    exact ⟨fun xa i hi => by simp only [denA, den]; exact iha.2 xa i hi,
           fun xa i hi => by simp only [denHA, denH]; exact iha.1 xa i hi⟩
  | gram a iha =>
    have ca' := den_congr_both n Lf La cf ca a
    constructor
    · intro xa i hi; simp only [denA, den]
      rw [iha.2 _ i hi]
      exact ca'.2 _ _ (iha.1 xa) i hi
    · intro xa i hi; simp only [denHA, denH]
      rw [iha.2 _ i hi]
      exact ca'.2 _ _ (iha.1 xa) i hi
end Refine

theorem fwdA_refines (n : Nat) (LfA LaA : Nat → Array K → Array K) (Lf La : Nat → (Nat → K) → (Nat → K))
    (hf : ∀ l xa i, i < n → toFn (LfA l xa) i = Lf l (toFn xa) i)
    (ha : ∀ l xa i, i < n → toFn (LaA l xa) i = La l (toFn xa) i)
    (cf : ∀ l x x', (∀ j, j < n → x j = x' j) → ∀ i, i < n → Lf l x i = Lf l x' i)
    (ca : ∀ l x x', (∀ j, j < n → x j = x' j) → ∀ i, i < n → La l x i = La l x' i)
    (o : Obj K) (xa : Array K) (i : Nat) (hi : i < n) :
    toFn (Obj.fwdA n LfA LaA o xa) i = Obj.fwd Lf La o (toFn xa) i :=
  Obj.fwdA_ref n LfA LaA Lf La hf ha cf ca o xa i hi

theorem adjA_refines (n : Nat) (LfA LaA : Nat → Array K → Array K) (Lf La : Nat → (Nat → K) → (Nat → K))
    (hf : ∀ l xa i, i < n → toFn (LfA l xa) i = Lf l (toFn xa) i)
    (ha : ∀ l xa i, i < n → toFn (LaA l xa) i = La l (toFn xa) i)
    (cf : ∀ l x x', (∀ j, j < n → x j = x' j) → ∀ i, i < n → Lf l x i = Lf l x' i)
    (ca : ∀ l x x', (∀ j, j < n → x j = x' j) → ∀ i, i < n → La l x i = La l x' i)
    (o : Obj K) (xa : Array K) (i : Nat) (hi : i < n) :
    toFn (Obj.adjA n LfA LaA o xa) i = Obj.adj Lf La o (toFn xa) i :=
  Obj.adjA_ref n LfA LaA Lf La hf ha cf ca o xa i hi

theorem denA_refines (n : Nat) (LfA LaA : Nat → Array K → Array K) (Lf La : Nat → (Nat → K) → (Nat → K))
    (hf : ∀ l xa i, i < n → toFn (LfA l xa) i = Lf l (toFn xa) i)
    (ha : ∀ l xa i, i < n → toFn (LaA l xa) i = La l (toFn xa) i)
    (cf : ∀ l x x', (∀ j, j < n → x j = x' j) → ∀ i, i < n → Lf l x i = Lf l x' i)
    (ca : ∀ l x x', (∀ j, j < n → x j = x' j) → ∀ i, i < n → La l x i = La l x' i)
    (e : Expr K) (xa : Array K) (i : Nat) (hi : i < n) :
    toFn (denA n LfA LaA e xa) i = den Lf La e (toFn xa) i :=
  (denA_ref_both n LfA LaA Lf La hf ha cf ca e).1 xa i hi

theorem denHA_refines (n : Nat) (LfA LaA : Nat → Array K → Array K) (Lf La : Nat → (Nat → K) → (Nat → K))
    (hf : ∀ l xa i, i < n → toFn (LfA l xa) i = Lf l (toFn xa) i)
    (ha : ∀ l xa i, i < n → toFn (LaA l xa) i = La l (toFn xa) i)
    (cf : ∀ l x x', (∀ j, j < n → x j = x' j) → ∀ i, i < n → Lf l x i = Lf l x' i)
    (ca : ∀ l x x', (∀ j, j < n → x j = x' j) → ∀ i, i < n → La l x i = La l x' i)
    (e : Expr K) (xa : Array K) (i : Nat) (hi : i < n) :
    toFn (denHA n LfA LaA e xa) i = denH Lf La e (toFn xa) i :=
  (denA_ref_both n LfA LaA Lf La hf ha cf ca e).2 xa i hi

theorem matLeaf_refines (n : Nat) (A : Nat → Nat → K) :
    (∀ l xa i, i < n → toFn (matLeafFwd n (A l) xa) i = matVec n (A l) (toFn xa) i) ∧
    (∀ l xa i, i < n → toFn (matLeafAdj n (A l) xa) i = matVecH n n (A l) (toFn xa) i) ∧
    (∀ l x x', (∀ j, j < n → x j = x' j) → ∀ i, i < n → matVec n (A l) x i = matVec n (A l) x' i) ∧
    (∀ l x x', (∀ j, j < n → x j = x' j) → ∀ i, i < n → matVecH n n (A l) x i = matVecH n n (A l) x' i) := by
  refine ⟨fun l xa i hi => ?_, fun l xa i hi => ?_, fun l x x' h i _ => ?_, fun l x x' h i _ => ?_⟩
  · unfold matLeafFwd; exact toFn_ofFnN _ hi
  · unfold matLeafAdj; exact toFn_ofFnN _ hi
  · unfold matVec
    exact sumTo_congr (fun j hj => by rw [h j hj])
  · unfold matVecH
    exact sumTo_congr (fun j hj => by rw [h j hj])
end M
