import Mrpro.Gen.Src
import Mrpro.Model.Load
import Mathlib.Tactic.IntervalCases

/-! The integer code translated from the Python source (`Mrpro/Gen/Src.lean`, regenerated on every
run) equals the hand-written model / its specification, for all integers. -/

namespace M.SrcL
open M.Src

private theorem fdiv2 (a : Int) : Int.fdiv a 2 = a / 2 := Int.fdiv_eq_ediv_of_nonneg a (by decide)

theorem normalize_index_eq (n : Nat) (i : Int) :
    normalize_index n i = (M.normIndex n i).map (fun k => (k : Int)) := by
  unfold normalize_index M.normIndex
  split_ifs <;> simp <;> try omega

theorem pad_rule_eq (old new : Nat) :
    pad_rule old new = (M.padShift old new, (new : Int) - old - M.padShift old new) := by
  simp only [pad_rule, M.padShift, fdiv2]
  refine Prod.ext ?_ ?_ <;> simp <;> omega

theorem crop_readout_eq (enc recon : Nat) (h : recon ≤ enc) :
    crop_readout enc recon = (((M.cropRange enc recon).1 : Int), ((M.cropRange enc recon).2 : Int)) := by
  simp only [crop_readout, M.cropRange, fdiv2]
  refine Prod.ext ?_ ?_ <;> simp <;> omega

/-- the kernel of length `n` is centred at `(n-1)/2`; both paddings together restore the length -/
theorem filter_pad_spec (n : Nat) (h : 0 < n) :
    (filter_pad n).1 = ((n - 1) / 2 : Nat) ∧ (filter_pad n).1 + (filter_pad n).2 = n - 1 := by
  simp only [filter_pad, fdiv2]
  constructor <;> omega

/-- three-tap kernels (`FiniteDifferenceOp`): one sample on each side, as in `M.corr3` -/
theorem filter_pad_three : filter_pad 3 = (1, 1) := by decide

theorem euler_axes_eq (q r s : Int) :
    euler_axes q r s = (M.eulerThird q r s, M.eulerSign q r (M.eulerThird q r s)) := by
  simp only [euler_axes, M.eulerThird, M.eulerSign]
  try (split_ifs <;> rfl)

/-- for every axis triple an Euler sequence can produce (neighbours distinct): the third axis
completes {0,1,2} and `sign` is the parity of the axis permutation -/
theorem euler_axes_spec (q r s : Int) (hq : 0 ≤ q ∧ q ≤ 2) (hr : 0 ≤ r ∧ r ≤ 2) (hs : 0 ≤ s ∧ s ≤ 2)
    (hqr : q ≠ r) (hrs : r ≠ s) :
    let p := euler_axes q r s
    0 ≤ p.1 ∧ p.1 ≤ 2 ∧ p.1 ≠ q ∧ p.1 ≠ r ∧ p.2 = M.leviCivita q r p.1 := by
  obtain ⟨hq0, hq2⟩ := hq
  obtain ⟨hr0, hr2⟩ := hr
  obtain ⟨hs0, hs2⟩ := hs
  interval_cases q <;> interval_cases r <;> interval_cases s <;> simp_all (config := {decide := true}) [euler_axes, M.leviCivita]

theorem sampling_axis_eq (k : Int) (n : Nat) :
    M.axisIdx n k = (if 0 ≤ sampling_kx k n ∧ sampling_kx k n < n then some (sampling_kx k n).toNat else none)
    ∧ sampling_ky k n = sampling_kx k n ∧ sampling_kz k n = sampling_kx k n := by
  simp [M.axisIdx, sampling_kx, sampling_ky, sampling_kz, fdiv2]

theorem sampling_flat_eq (nz ny nx : Nat) (kz ky kx : Int) (z y x : Nat)
    (hz : M.axisIdx nz kz = some z) (hy : M.axisIdx ny ky = some y) (hx : M.axisIdx nx kx = some x) :
    M.ravel3 nz ny nx kz ky kx = some (sampling_flat z ny nx y x).toNat := by
  simp [M.ravel3, hz, hy, hx, sampling_flat]
  norm_cast

theorem sliceproj_start_eq (nx ox ny oy : Nat) (hx : ox ≤ nx) (hy : oy ≤ ny) :
    sliceproj_start nx ox ny oy = ((((nx - ox) / 2 : Nat) : Int), (((ny - oy) / 2 : Nat) : Int)) := by
  simp only [sliceproj_start, fdiv2]
  refine Prod.ext ?_ ?_ <;> simp <;> omega

/-- one decomposition level: `ceil(n/2) + L/2 - 1 = floor((n + L - 1)/2)` (the PyWavelets length) for even filter length -/
theorem wavelet_level_shape_eq (n L : Nat) (hL : L % 2 = 0) (hL0 : 0 < L) :
    wavelet_level_shape n L = (((n + L - 1) / 2 : Nat) : Int) := by
  simp only [wavelet_level_shape, fdiv2]
  omega

private theorem cast_succ_ne (n : Nat) : ((n : Int) + 1 = 0) ↔ False := by
  constructor
  · intro h; omega
  · exact False.elim

theorem kdata_shape_eq (a b : List Nat) (hb : b ≠ []) :
    kdata_shape a.length (a.headD 0) (b.headD 0) b.length
      = (((M.shapeKOf a b).1 : Int), ((M.shapeKOf a b).2 : Int)) := by
  unfold kdata_shape M.shapeKOf
  match a, b, hb with
  | [c], d :: t, _ => simp [Int.fdiv_eq_ediv_of_nonneg]
  | [], [d], _ => simp
  | [], d :: e :: t, _ => simp [cast_succ_ne]
  | c :: c' :: t', [d], _ => simp [cast_succ_ne]
  | c :: c' :: t', d :: e :: t, _ => simp [cast_succ_ne]

theorem shapeK_eq (l : List M.Acq) :
    M.shapeK l = ((M.shapeKOf ((M.countsBy (fun a => a.key.drop 1) l).eraseDups)
        ((M.countsBy (fun a => a.key.drop 2) l).eraseDups)).2,
      (M.shapeKOf ((M.countsBy (fun a => a.key.drop 1) l).eraseDups)
        ((M.countsBy (fun a => a.key.drop 2) l).eraseDups)).1) := by
  unfold M.shapeK M.shapeKOf
  split <;> simp_all

end M.SrcL
