import Mrpro.Model.OpMatrix
import Mrpro.Model.OpMatrixExec
import Mrpro.Lemmas.AlgebraL
import Mrpro.Lemmas.AlgebraExecL
/-! Proofs about operator matrices (`Mrpro/Model/OpMatrix.lean`): the object `buildM e` the library
builds evaluates, forward and adjoint, to the block-matrix specification `denM e / denHM e`;
shapes; adjointness; refinement of the array evaluator. -/
namespace M
open Finset
variable {K : Type} [CommRing K] [StarRing K] [DecidableEq K]

set_option linter.unusedSectionVars false
set_option linter.unusedVariables false
set_option linter.unusedSimpArgs false

/-! ### lists -/

theorem getD_lt {α : Type} (l : List α) (i : Nat) (d d' : α) (h : i < l.length) :
    l.getD i d = l.getD i d' := by
  simp [List.getD_eq_getElem?_getD, List.getElem?_eq_getElem h]
theorem getD_mem {α : Type} (l : List α) (i : Nat) (d : α) (h : i < l.length) : l.getD i d ∈ l := by
  simp [List.getD_eq_getElem?_getD, List.getElem?_eq_getElem h]
theorem getD_map_lt {α β : Type} (f : α → β) (l : List α) (i : Nat) (d : α) (d' : β) (h : i < l.length) :
    (l.map f).getD i d' = f (l.getD i d) := by
  simp [List.getD_eq_getElem?_getD, List.getElem?_eq_getElem h]
theorem getD_zipWith_lt {α β γ : Type} (f : α → β → γ) (l : List α) (m : List β) (i : Nat)
    (da : α) (db : β) (d : γ) (h : i < l.length) (h' : i < m.length) :
    (List.zipWith f l m).getD i d = f (l.getD i da) (m.getD i db) := by
  simp [List.getD_eq_getElem?_getD, List.getElem?_eq_getElem h, List.getElem?_eq_getElem h',
    List.getElem?_zipWith]
theorem getD_range_lt (n i d : Nat) (h : i < n) : (List.range n).getD i d = i := by
  simp [List.getD_eq_getElem?_getD, h]
theorem getD_mapIdx_lt {α β : Type} (f : Nat → α → β) (l : List α) (i : Nat) (d : α) (d' : β)
    (h : i < l.length) : (l.mapIdx f).getD i d' = f i (l.getD i d) := by
  simp [List.getD_eq_getElem?_getD, List.getElem?_eq_getElem h]
theorem getD_range_map_lt {β : Type} (f : Nat → β) (n i : Nat) (d : β) (h : i < n) :
    ((List.range n).map f).getD i d = f i := by
  rw [getD_map_lt f _ i 0 d (by simpa using h), getD_range_lt _ _ _ h]
theorem getD_append_lt {α : Type} (l m : List α) (i : Nat) (d : α) (h : i < l.length) :
    (l ++ m).getD i d = l.getD i d := by
  simp [List.getD_eq_getElem?_getD, List.getElem?_append_left h]
theorem getD_append_ge {α : Type} (l m : List α) (i : Nat) (d : α) (h : l.length ≤ i) :
    (l ++ m).getD i d = m.getD (i - l.length) d := by
  simp [List.getD_eq_getElem?_getD, List.getElem?_append_right h]
theorem getD_take_lt {α : Type} (l : List α) (n i : Nat) (d : α) (h : i < n) :
    (l.take n).getD i d = l.getD i d := by
  simp [List.getD_eq_getElem?_getD, h]
theorem getD_drop {α : Type} (l : List α) (n i : Nat) (d : α) :
    (l.drop n).getD i d = l.getD (n + i) d := by
  simp [List.getD_eq_getElem?_getD, List.getElem?_drop]
theorem getD_replicate_lt {α : Type} (n i : Nat) (a d : α) (h : i < n) :
    (List.replicate n a).getD i d = a := by
  simp [List.getD_eq_getElem?_getD, h]
theorem headD_eq_getD {α : Type} (l : List α) (d : α) : l.headD d = l.getD 0 d := by
  cases l <;> simp

theorem list_eq_of_getD {α : Type} (d : α) {L L' : List α} (hl : L.length = L'.length)
    (h : ∀ i, i < L.length → L.getD i d = L'.getD i d) : L = L' := by
  apply List.ext_getElem hl
  intro i h1 h2
  have := h i h1
  simpa [List.getD_eq_getElem?_getD, List.getElem?_eq_getElem h1, List.getElem?_eq_getElem h2] using this

theorem map_eq_range_map {α β : Type} (g : α → β) (l : List α) (d : α) :
    l.map g = (List.range l.length).map (fun i => g (l.getD i d)) := by
  apply List.ext_getElem (by simp)
  intro i h1 h2
  simp at h1
  simp [List.getD_eq_getElem?_getD, List.getElem?_eq_getElem h1]

theorem sum_zipWith_eq {α β : Type} (f : α → β → K) (da : α) (db : β) :
    ∀ (l : List α) (m : List β), l.length = m.length →
    (List.zipWith f l m).sum = ∑ j ∈ range l.length, f (l.getD j da) (m.getD j db)
  | [], _, _ => by simp
  | a :: l, [], h => by simp at h
  | a :: l, b :: m, h => by
      simp only [List.length_cons, Nat.add_right_cancel_iff] at h
      rw [List.zipWith_cons_cons, List.sum_cons, sum_zipWith_eq f da db l m h, List.length_cons,
        Finset.sum_range_succ']
      simp [add_comm]

theorem sum_map_eq {α : Type} (f : α → K) (da : α) (l : List α) :
    (l.map f).sum = ∑ j ∈ range l.length, f (l.getD j da) := by
  induction l with
  | nil => simp
  | cons a l ih => rw [List.map_cons, List.sum_cons, ih, List.length_cons, Finset.sum_range_succ']; simp [add_comm]

/-! ### python helpers -/

theorem mapOpt_eq_some_map {α β : Type} (f : α → Option β) (g : α → β) :
    ∀ l : List α, (∀ a ∈ l, f a = some (g a)) → mapOpt f l = some (l.map g)
  | [], _ => rfl
  | a :: l, h => by
      have h1 := h a (by simp)
      have h2 := mapOpt_eq_some_map f g l (fun b hb => h b (by simp [hb]))
      simp [mapOpt, h1, h2]

theorem foldl_vadd (l : List (Nat → K)) (a : Nat → K) (t : Nat) :
    (l.foldl (fun u v => fun t => u t + v t) a) t = a t + (l.map (fun v => v t)).sum := by
  induction l generalizing a with
  | nil => simp
  | cons b l ih => simp [ih, add_assoc]

theorem reduce1_vadd (l : List (Nat → K)) (h : l ≠ []) :
    reduce1 (fun u v => fun t => u t + v t) l = some (fun t => (l.map (fun v => v t)).sum) := by
  cases l with
  | nil => exact absurd rfl h
  | cons a l => simp only [reduce1]; congr 1; funext t; rw [foldl_vadd]; simp

theorem vsum_apply (l : List (Nat → K)) (t : Nat) : vsum l t = (l.map (fun v => v t)).sum := by
  induction l with
  | nil => simp [vsum, vzero]
  | cons a l ih => simp only [vsum, List.foldr_cons, vadd, List.map_cons, List.sum_cons] at ih ⊢; rw [ih]

/-- rectangular lists: all rows have length `c` (given there is a row) -/
theorem rect_iff {α : Type} (rs : List (List α)) :
    rect rs = true ↔ ∀ r ∈ rs, r.length = (match rs with | [] => 0 | r0 :: _ => r0.length) := by
  cases rs with
  | nil => simp [rect]
  | cons r rs => simp [rect, List.all_eq_true]

theorem rect_map_map {α β : Type} (f : α → β) (rs : List (List α)) :
    rect (rs.map (fun r => r.map f)) = rect rs := by
  cases rs with
  | nil => rfl
  | cons r rs => simp [rect, List.all_map, Function.comp_def]

theorem filterMap_getElem?_eq_map {α : Type} (d : α) (j : Nat) :
    ∀ rs : List (List α), (∀ r ∈ rs, j < r.length) →
      rs.filterMap (fun r => r[j]?) = rs.map (fun r => r.getD j d)
  | [], _ => rfl
  | r :: rs, h => by
      have h1 : j < r.length := h r (by simp)
      rw [List.filterMap_cons, List.getElem?_eq_getElem h1, List.map_cons,
        filterMap_getElem?_eq_map d j rs (fun r' hr' => h r' (by simp [hr']))]
      simp [List.getD_eq_getElem?_getD, List.getElem?_eq_getElem h1]

/-- the columns of a rectangular list of rows -/
theorem columns_eq {α : Type} (d : α) (rs : List (List α)) (c : Nat) (h : ∀ r ∈ rs, r.length = c)
    (h0 : rs = [] → c = 0) :
    columns rs = (List.range c).map (fun j => rs.map (fun r => r.getD j d)) := by
  cases rs with
  | nil => simp [columns, h0 rfl]
  | cons r rs =>
    have hr : r.length = c := h r (by simp)
    simp only [columns, hr]
    apply List.map_congr_left
    intro j hj
    rw [List.mem_range] at hj
    exact filterMap_getElem?_eq_map d j (r :: rs) (fun r' hr' => by rw [h r' hr']; exact hj)

/-! ### consequences of linearity -/

theorem lin_sum {f : (Nat → K) → (Nat → K)} (h : IsLin' f) (s : Finset Nat) (g : Nat → Nat → K) :
    f (fun t => ∑ j ∈ s, g j t) = fun t => ∑ j ∈ s, f (g j) t := by
  induction s using Finset.induction_on with
  | empty => simpa using lin_zero h
  | insert a s ha ih =>
    have : (fun t => ∑ j ∈ insert a s, g j t) = fun t => 1 * g a t + 1 * (fun t => ∑ j ∈ s, g j t) t := by
      funext t; rw [Finset.sum_insert ha]; ring
    rw [this, lin_ext h, ih]
    funext t; rw [Finset.sum_insert ha]; ring

theorem lin_ite {f : (Nat → K) → (Nat → K)} (h : IsLin' f) (p : Prop) [Decidable p] (x : Nat → K) (t : Nat) :
    f (if p then x else vzero) t = if p then f x t else 0 := by
  by_cases hp : p
  · simp [hp]
  · simp only [hp, if_false]; exact congrFun (lin_zero h) t

/-! ### the class -/
namespace OpMat

theorem WF_iff_rect (A : OpMat K) : A.WF ↔ rect A.rows = true := by
  rw [rect_iff]; unfold WF ncols
  cases A.rows <;> rfl

theorem ofRows_eq_some (rs : List (List (Obj K))) (C : OpMat K) :
    ofRows rs = some C ↔ (OpMat.mk rs).WF ∧ C = ⟨rs⟩ := by
  unfold ofRows
  rw [WF_iff_rect]
  by_cases h : rect rs = true <;> simp [h, eq_comm]

theorem ofRows_of_WF (rs : List (List (Obj K))) (h : (OpMat.mk rs).WF) : ofRows rs = some ⟨rs⟩ :=
  (ofRows_eq_some rs _).2 ⟨h, rfl⟩

theorem row_length {A : OpMat K} (hA : A.WF) {i : Nat} (hi : i < A.nrows) :
    (A.rows.getD i []).length = A.ncols :=
  hA _ (getD_mem _ _ _ hi)

theorem ncols_eq_zero_of_nrows {A : OpMat K} (h : A.nrows = 0) : A.ncols = 0 := by
  unfold nrows at h; unfold ncols
  rw [List.length_eq_zero_iff] at h; rw [h]

theorem rows_eq_nil_of_nrows {A : OpMat K} (h : A.nrows = 0) : A.rows = [] :=
  List.length_eq_zero_iff.mp h

theorem ncols_eq_head {A : OpMat K} (h : 0 < A.nrows) : A.ncols = (A.rows.getD 0 []).length := by
  unfold nrows at h; unfold ncols
  cases hr : A.rows with
  | nil => rw [hr] at h; simp at h
  | cons r rs => simp

/-- a grid given by its row lengths -/
theorem of_lengths (C : OpMat K) (c : Nat) (h : ∀ i, i < C.nrows → (C.rows.getD i []).length = c) :
    C.WF ∧ C.ncols = (if C.nrows = 0 then 0 else c) := by
  by_cases h0 : C.nrows = 0
  · refine ⟨?_, by simp [h0, ncols_eq_zero_of_nrows h0]⟩
    intro r hr; rw [rows_eq_nil_of_nrows h0] at hr; simp at hr
  · have hc : C.ncols = c := by rw [ncols_eq_head (Nat.pos_of_ne_zero h0)]; exact h 0 (Nat.pos_of_ne_zero h0)
    refine ⟨?_, by simp [h0, hc]⟩
    intro r hr
    obtain ⟨i, hi, rfl⟩ := List.getElem_of_mem hr
    have := h i hi
    rw [hc]
    simpa [List.getD_eq_getElem?_getD, List.getElem?_eq_getElem hi] using this

theorem columns_rows {A : OpMat K} (hA : A.WF) :
    columns A.rows = (List.range A.ncols).map (fun j => A.rows.map (fun r => r.getD j .zeroOp)) :=
  columns_eq _ _ _ hA (fun h => by unfold ncols; rw [h])

theorem zipStar_rows {A : OpMat K} (hA : A.WF) :
    zipStar A.rows = some ((List.range A.ncols).map (fun j => A.rows.map (fun r => r.getD j .zeroOp))) := by
  unfold zipStar
  rw [(WF_iff_rect A).1 hA, if_pos rfl, columns_rows hA]

variable (Lf La : Nat → (Nat → K) → (Nat → K))

/-- total version of `forward`: `out_i = Σ_j A_ij x_j` -/
def app (A : OpMat K) (xs : List (Nat → K)) : List (Nat → K) :=
  (List.range A.nrows).map fun i t => ∑ j ∈ range A.ncols, Obj.fwd Lf La (A.get i j) (xs.getD j vzero) t
/-- total version of `adjoint`: `out_j = Σ_i A_ijᴴ y_i` -/
def appH (A : OpMat K) (ys : List (Nat → K)) : List (Nat → K) :=
  (List.range A.ncols).map fun j t => ∑ i ∈ range A.nrows, Obj.adj Lf La (A.get i j) (ys.getD i vzero) t

@[simp] theorem length_app (A : OpMat K) (xs : List (Nat → K)) : (A.app Lf La xs).length = A.nrows := by
  simp [app]
@[simp] theorem length_appH (A : OpMat K) (ys : List (Nat → K)) : (A.appH Lf La ys).length = A.ncols := by
  simp [appH]
theorem getD_app (A : OpMat K) (xs : List (Nat → K)) {i : Nat} (hi : i < A.nrows) :
    (A.app Lf La xs).getD i vzero
      = fun t => ∑ j ∈ range A.ncols, Obj.fwd Lf La (A.get i j) (xs.getD j vzero) t := by
  unfold app; rw [getD_range_map_lt _ _ _ _ hi]
theorem getD_appH (A : OpMat K) (ys : List (Nat → K)) {j : Nat} (hj : j < A.ncols) :
    (A.appH Lf La ys).getD j vzero
      = fun t => ∑ i ∈ range A.nrows, Obj.adj Lf La (A.get i j) (ys.getD i vzero) t := by
  unfold appH; rw [getD_range_map_lt _ _ _ _ hj]

/-- `C.app xs = L` from the entries -/
theorem app_eq_of (C : OpMat K) (xs L : List (Nat → K)) (hl : L.length = C.nrows)
    (h : ∀ i, i < C.nrows → ∀ t, L.getD i vzero t
      = ∑ j ∈ range C.ncols, Obj.fwd Lf La (C.get i j) (xs.getD j vzero) t) : L = C.app Lf La xs := by
  apply list_eq_of_getD vzero (by simp [hl])
  intro i hi
  rw [hl] at hi
  rw [getD_app Lf La C xs hi]
  funext t; exact h i hi t
theorem appH_eq_of (C : OpMat K) (ys L : List (Nat → K)) (hl : L.length = C.ncols)
    (h : ∀ j, j < C.ncols → ∀ t, L.getD j vzero t
      = ∑ i ∈ range C.nrows, Obj.adj Lf La (C.get i j) (ys.getD i vzero) t) : L = C.appH Lf La ys := by
  apply list_eq_of_getD vzero (by simp [hl])
  intro j hj
  rw [hl] at hj
  rw [getD_appH Lf La C ys hj]
  funext t; exact h j hj t

/-- `forward` of a well-formed matrix on the right number of inputs succeeds, except for a matrix
with rows but no columns (python: `reduce` of an empty sequence) -/
theorem fwd_eq_app {A : OpMat K} (hA : A.WF) {xs : List (Nat → K)} (hx : xs.length = A.ncols)
    (hnd : A.ncols ≠ 0 ∨ A.nrows = 0) : A.fwd Lf La xs = some (A.app Lf La xs) := by
  unfold fwd app
  rw [if_neg (by simpa using hx)]
  rw [mapOpt_eq_some_map _ (fun row => fun t => ∑ j ∈ range A.ncols,
      Obj.fwd Lf La (row.getD j .zeroOp) (xs.getD j vzero) t)]
  · rw [map_eq_range_map _ A.rows []]; rfl
  · intro row hrow
    have hl : row.length = A.ncols := hA row hrow
    have hc : A.ncols ≠ 0 := by
      rcases hnd with h | h
      · exact h
      · exfalso; rw [rows_eq_nil_of_nrows h] at hrow; simp at hrow
    unfold zipWithS
    rw [if_pos (by rw [hl, hx])]
    simp only [Option.bind_some]
    rw [reduce1_vadd]
    · congr 1; funext t
      rw [List.map_zipWith, sum_zipWith_eq _ Obj.zeroOp vzero _ _ (by rw [hl, hx]), hl]
    · intro h
      have := congrArg List.length h
      simp [hl, hx] at this
      omega

end OpMat

/-! ### structure of the result of every operation -/
namespace OpMat

theorem get_eq (A : OpMat K) (i j : Nat) : A.get i j = (A.rows.getD i []).getD j .zeroOp := rfl

theorem ncols_fix (A : OpMat K) : (if A.nrows = 0 then 0 else A.ncols) = A.ncols := by
  split
  · next h0 => exact (ncols_eq_zero_of_nrows h0).symm
  · rfl

theorem nrows_pos_of_ncols {A : OpMat K} {j : Nat} (h : j < A.ncols) : 0 < A.nrows := by
  rcases Nat.eq_zero_or_pos A.nrows with h0 | h0
  · rw [ncols_eq_zero_of_nrows h0] at h; omega
  · exact h0

/-- generic way to read off the structure of a freshly built grid -/
theorem struct_of (L : List (List (Obj K))) (R c : Nat) (F : Nat → Nat → Obj K)
    (hR : L.length = R) (hlen : ∀ i, i < R → (L.getD i []).length = c)
    (hget : ∀ i, i < R → ∀ j, j < c → (L.getD i []).getD j .zeroOp = F i j) :
    (OpMat.mk L).WF ∧ (OpMat.mk L).nrows = R ∧ (OpMat.mk L).ncols = (if R = 0 then 0 else c) ∧
    ∀ i, i < R → ∀ j, j < c → (OpMat.mk L).get i j = F i j := by
  obtain ⟨hw, hc⟩ := of_lengths (OpMat.mk L) c (fun i hi => hlen i (by simpa [nrows, hR] using hi))
  refine ⟨hw, hR, ?_, fun i hi j hj => hget i hi j hj⟩
  rw [hc]; simp [nrows, hR]

theorem H_struct {A C : OpMat K} (hA : A.WF) (h : A.H = some C) :
    C.WF ∧ C.nrows = A.ncols ∧ C.ncols = (if A.ncols = 0 then 0 else A.nrows) ∧
    ∀ j, j < A.ncols → ∀ i, i < A.nrows → C.get j i = Obj.H (A.get i j) := by
  unfold H at h
  rw [zipStar_rows hA] at h
  simp only [Option.bind_some] at h
  obtain ⟨_, rfl⟩ := (ofRows_eq_some _ _).1 h
  have hrow : ∀ j, j < A.ncols →
      (((List.range A.ncols).map (fun j => A.rows.map (fun r => r.getD j Obj.zeroOp))).map
        (fun col => col.map Obj.H)).getD j []
      = (A.rows.map (fun r => r.getD j Obj.zeroOp)).map Obj.H := by
    intro j hj
    rw [getD_map_lt _ _ j [] [] (by simpa using hj), getD_range_map_lt _ _ _ _ hj]
  exact struct_of (((List.range A.ncols).map (fun j => A.rows.map (fun r => r.getD j Obj.zeroOp))).map
        (fun col => col.map Obj.H)) A.ncols A.nrows (fun j i => Obj.H (A.get i j))
    (by simp)
    (fun j hj => by rw [hrow j hj]; simp [nrows])
    (fun j hj i hi => by
      rw [hrow j hj, getD_map_lt Obj.H _ i .zeroOp .zeroOp (by simpa [nrows] using hi),
        getD_map_lt _ _ i [] _ hi]; rfl)

theorem matmulOp_struct {A C : OpMat K} (o : Obj K) (hA : A.WF) (h : A.matmulOp o = some C) :
    C.WF ∧ C.nrows = A.nrows ∧ C.ncols = A.ncols ∧
    ∀ i, i < A.nrows → ∀ j, j < A.ncols → C.get i j = Obj.matmul (A.get i j) o := by
  unfold matmulOp at h
  obtain ⟨_, rfl⟩ := (ofRows_eq_some _ _).1 h
  have hrow : ∀ i, i < A.nrows → (A.rows.map (fun row => row.map (fun op => Obj.matmul op o))).getD i []
      = (A.rows.getD i []).map (fun op => Obj.matmul op o) :=
    fun i hi => getD_map_lt _ _ i [] [] hi
  obtain ⟨h1, h2, h3, h4⟩ := struct_of (A.rows.map (fun row => row.map (fun op => Obj.matmul op o)))
    A.nrows A.ncols (fun i j => Obj.matmul (A.get i j) o)
    (by simp [nrows])
    (fun i hi => by rw [hrow i hi, List.length_map, row_length hA hi])
    (fun i hi j hj => by
      rw [hrow i hi, getD_map_lt _ _ j .zeroOp _ (by rw [row_length hA hi]; exact hj)]; rfl)
  exact ⟨h1, h2, by rw [h3, ncols_fix], h4⟩

/-- total version of `reduce(operator.add, l)` on operators -/
def foldPlus : List (Obj K) → Obj K
  | [] => .zeroOp
  | a :: l => l.foldl Obj.plus a

theorem reduce1_plus_ne_nil (l : List (Obj K)) (h : l ≠ []) :
    reduce1 Obj.plus l = some (foldPlus l) := by
  cases l with
  | nil => exact absurd rfl h
  | cons a l => rfl

theorem matmul_struct {A B C : OpMat K} (hA : A.WF) (hB : B.WF) (h : A.matmul B = some C) :
    A.ncols = B.nrows ∧ C.WF ∧ C.nrows = A.nrows ∧ C.ncols = B.ncols ∧
    ∀ i, i < A.nrows → ∀ j, j < B.ncols → C.get i j =
      foldPlus (List.zipWith Obj.matmul (A.rows.getD i []) (B.rows.map (fun r => r.getD j .zeroOp))) := by
  unfold matmul at h
  split at h
  · exact absurd h (by simp)
  next hs =>
  have hm : A.ncols = B.nrows := by simpa using hs
  rw [zipStar_rows hB] at h
  simp only [Option.bind_some] at h
  rw [mapOpt_eq_some_map _ (fun row => ((List.range B.ncols).map
      (fun j => B.rows.map (fun r => r.getD j .zeroOp))).map (fun col =>
        foldPlus (List.zipWith Obj.matmul row col)))] at h
  · simp only [Option.bind_some] at h
    obtain ⟨_, rfl⟩ := (ofRows_eq_some _ _).1 h
    have hrow : ∀ i, i < A.nrows → (A.rows.map (fun row => ((List.range B.ncols).map
      (fun j => B.rows.map (fun r => r.getD j .zeroOp))).map (fun col =>
        foldPlus (List.zipWith Obj.matmul row col)))).getD i []
        = ((List.range B.ncols).map
      (fun j => B.rows.map (fun r => r.getD j .zeroOp))).map (fun col =>
        foldPlus (List.zipWith Obj.matmul (A.rows.getD i []) col)) :=
      fun i hi => getD_map_lt _ _ i [] [] hi
    obtain ⟨h1, h2, h3, h4⟩ := struct_of (A.rows.map (fun row => ((List.range B.ncols).map
      (fun j => B.rows.map (fun r => r.getD j .zeroOp))).map (fun col =>
        foldPlus (List.zipWith Obj.matmul row col)))) A.nrows B.ncols
      (fun i j => foldPlus (List.zipWith Obj.matmul (A.rows.getD i [])
        (B.rows.map (fun r => r.getD j .zeroOp))))
      (by simp [nrows])
      (fun i hi => by rw [hrow i hi]; simp)
      (fun i hi j hj => by
        rw [hrow i hi, getD_map_lt _ _ j [] _ (by simpa using hj), getD_range_map_lt _ _ _ _ hj])
    refine ⟨hm, h1, h2, ?_, h4⟩
    rw [h3]; split
    · next h0 =>
      have : B.nrows = 0 := by rw [← hm]; exact ncols_eq_zero_of_nrows h0
      exact (ncols_eq_zero_of_nrows this).symm
    · rfl
  · intro row hrow
    apply mapOpt_eq_some_map
    intro col hcol
    obtain ⟨j, hj, rfl⟩ := List.mem_map.1 hcol
    rw [List.mem_range] at hj
    have hl : row.length = B.nrows := by rw [← hm]; exact hA row hrow
    unfold zipWithS
    rw [if_pos (by simp [hl, nrows])]
    simp only [Option.bind_some]
    apply reduce1_plus_ne_nil
    intro hnil
    have h1 := congrArg List.length hnil
    rw [List.length_zipWith, List.length_map, hl] at h1
    have h2 := nrows_pos_of_ncols hj
    unfold nrows at h1 h2
    rw [Nat.min_self, List.length_nil] at h1; omega

theorem add_struct {A B C : OpMat K} (hA : A.WF) (hB : B.WF) (h : A.add B = some C) :
    B.nrows = A.nrows ∧ B.ncols = A.ncols ∧ C.WF ∧ C.nrows = A.nrows ∧ C.ncols = A.ncols ∧
    ∀ i, i < A.nrows → ∀ j, j < A.ncols → C.get i j = Obj.plus (A.get i j) (B.get i j) := by
  unfold add at h
  split at h
  · exact absurd h (by simp)
  next hs =>
  simp only [shape, ne_eq, not_not, Prod.mk.injEq] at hs
  obtain ⟨_, rfl⟩ := (ofRows_eq_some _ _).1 h
  have hBr : B.rows.length = A.nrows := by rw [hs.1]; rfl
  have hrow : ∀ i, i < A.nrows →
      (List.zipWith (fun ra rb => List.zipWith Obj.plus ra rb) A.rows B.rows).getD i []
      = List.zipWith Obj.plus (A.rows.getD i []) (B.rows.getD i []) :=
    fun i hi => getD_zipWith_lt _ _ _ i [] [] [] hi (by rw [hBr]; exact hi)
  obtain ⟨h1, h2, h3, h4⟩ := struct_of (List.zipWith (fun ra rb => List.zipWith Obj.plus ra rb) A.rows B.rows)
    A.nrows A.ncols (fun i j => Obj.plus (A.get i j) (B.get i j))
    (by simp [nrows, hBr])
    (fun i hi => by
      rw [hrow i hi, List.length_zipWith, row_length hA hi, row_length hB (by rw [← hs.1]; exact hi), hs.2]
      simp)
    (fun i hi j hj => by
      rw [hrow i hi, getD_zipWith_lt _ _ _ j .zeroOp .zeroOp _ (by rw [row_length hA hi]; exact hj)
        (by rw [row_length hB (by rw [← hs.1]; exact hi), ← hs.2]; exact hj)]; rfl)
  exact ⟨hs.1.symm, hs.2.symm, h1, h2, by rw [h3, ncols_fix], h4⟩

theorem onDiag_struct (f : Obj K → Obj K) {A C : OpMat K} (hA : A.WF) (h : A.onDiag f = some C) :
    A.nrows = A.ncols ∧ C.WF ∧ C.nrows = A.nrows ∧ C.ncols = A.ncols ∧
    ∀ i, i < A.nrows → ∀ j, j < A.ncols → C.get i j = if i = j then f (A.get i j) else A.get i j := by
  unfold onDiag at h
  split at h
  · exact absurd h (by simp)
  next hs =>
  have hsq : A.nrows = A.ncols := by simpa using hs
  obtain ⟨_, rfl⟩ := (ofRows_eq_some _ _).1 h
  have hrow : ∀ i, i < A.nrows →
      (A.rows.mapIdx (fun i row => row.mapIdx (fun j op => if i = j then f op else op))).getD i []
      = (A.rows.getD i []).mapIdx (fun j op => if i = j then f op else op) :=
    fun i hi => getD_mapIdx_lt _ _ i [] [] hi
  obtain ⟨h1, h2, h3, h4⟩ := struct_of
    (A.rows.mapIdx (fun i row => row.mapIdx (fun j op => if i = j then f op else op)))
    A.nrows A.ncols (fun i j => if i = j then f (A.get i j) else A.get i j)
    (by simp [nrows])
    (fun i hi => by rw [hrow i hi, List.length_mapIdx, row_length hA hi])
    (fun i hi j hj => by
      rw [hrow i hi, getD_mapIdx_lt _ _ j .zeroOp _ (by rw [row_length hA hi]; exact hj)]; rfl)
  exact ⟨hsq, h1, h2, by rw [h3, ncols_fix], h4⟩

theorem mulSeq_struct (cs : List (Scal K)) {A C : OpMat K} (hA : A.WF) (h : A.mulSeq cs = some C) :
    cs.length = A.ncols ∧ C.WF ∧ C.nrows = A.nrows ∧ C.ncols = A.ncols ∧
    ∀ i, i < A.nrows → ∀ j, j < A.ncols → C.get i j = Obj.mul (A.get i j) (cs.getD j (.py 0)) := by
  unfold mulSeq at h
  split at h
  · exact absurd h (by simp)
  next hs =>
  have hcs : cs.length = A.ncols := by simpa using hs
  rw [mapOpt_eq_some_map _ (fun row => List.zipWith Obj.mul row cs)] at h
  · simp only [Option.bind_some] at h
    obtain ⟨_, rfl⟩ := (ofRows_eq_some _ _).1 h
    have hrow : ∀ i, i < A.nrows → (A.rows.map (fun row => List.zipWith Obj.mul row cs)).getD i []
        = List.zipWith Obj.mul (A.rows.getD i []) cs :=
      fun i hi => getD_map_lt _ _ i [] [] hi
    obtain ⟨h1, h2, h3, h4⟩ := struct_of (A.rows.map (fun row => List.zipWith Obj.mul row cs))
      A.nrows A.ncols (fun i j => Obj.mul (A.get i j) (cs.getD j (.py 0)))
      (by simp [nrows])
      (fun i hi => by rw [hrow i hi, List.length_zipWith, row_length hA hi, hcs]; simp)
      (fun i hi j hj => by
        rw [hrow i hi, getD_zipWith_lt _ _ _ j .zeroOp (.py 0) _ (by rw [row_length hA hi]; exact hj)
          (by rw [hcs]; exact hj)]; rfl)
    exact ⟨hcs, h1, h2, by rw [h3, ncols_fix], h4⟩
  · intro row hrow
    unfold zipWithS
    rw [if_pos (by rw [hA row hrow, hcs])]

theorem rmulSeq_struct (cs : List (Scal K)) {A C : OpMat K} (hA : A.WF) (h : A.rmulSeq cs = some C) :
    cs.length = A.nrows ∧ C.WF ∧ C.nrows = A.nrows ∧ C.ncols = A.ncols ∧
    ∀ i, i < A.nrows → ∀ j, j < A.ncols → C.get i j = Obj.rmul (cs.getD i (.py 0)) (A.get i j) := by
  unfold rmulSeq at h
  split at h
  · exact absurd h (by simp)
  next hs =>
  have hcs : cs.length = A.nrows := by simpa using hs
  unfold zipWithS at h
  rw [if_pos (by rw [hcs]; rfl)] at h
  simp only [Option.bind_some] at h
  obtain ⟨_, rfl⟩ := (ofRows_eq_some _ _).1 h
  have hrow : ∀ i, i < A.nrows →
      (List.zipWith (fun row c => row.map (fun op => Obj.rmul c op)) A.rows cs).getD i []
      = (A.rows.getD i []).map (fun op => Obj.rmul (cs.getD i (.py 0)) op) :=
    fun i hi => getD_zipWith_lt _ _ _ i [] (Scal.py 0) [] hi (by rw [hcs]; exact hi)
  obtain ⟨h1, h2, h3, h4⟩ := struct_of
    (List.zipWith (fun row c => row.map (fun op => Obj.rmul c op)) A.rows cs)
    A.nrows A.ncols (fun i j => Obj.rmul (cs.getD i (.py 0)) (A.get i j))
    (by simp [nrows, hcs])
    (fun i hi => by rw [hrow i hi, List.length_map, row_length hA hi])
    (fun i hi j hj => by
      rw [hrow i hi, getD_map_lt _ _ j .zeroOp _ (by rw [row_length hA hi]; exact hj)]; rfl)
  exact ⟨hcs, h1, h2, by rw [h3, ncols_fix], h4⟩

/-- rows appended (`&` in all its variants) -/
theorem append_struct {A B : OpMat K} (hA : A.WF) (hB : B.WF)
    (hc : A.nrows = 0 ∨ B.nrows = 0 ∨ A.ncols = B.ncols) :
    (OpMat.mk (A.rows ++ B.rows)).WF ∧ (OpMat.mk (A.rows ++ B.rows)).nrows = A.nrows + B.nrows ∧
    (OpMat.mk (A.rows ++ B.rows)).ncols = (if A.nrows = 0 then B.ncols else A.ncols) ∧
    ∀ i, i < A.nrows + B.nrows → ∀ j, j < (if A.nrows = 0 then B.ncols else A.ncols) →
      (OpMat.mk (A.rows ++ B.rows)).get i j = if i < A.nrows then A.get i j else B.get (i - A.nrows) j := by
  have hrow : ∀ i, (A.rows ++ B.rows).getD i []
      = if i < A.nrows then A.rows.getD i [] else B.rows.getD (i - A.nrows) [] := by
    intro i
    split
    · next h => exact getD_append_lt _ _ _ _ h
    · next h => exact getD_append_ge _ _ _ _ (by unfold nrows at h; omega)
  obtain ⟨h1, h2, h3, h4⟩ := struct_of (A.rows ++ B.rows) (A.nrows + B.nrows)
    (if A.nrows = 0 then B.ncols else A.ncols)
    (fun i j => if i < A.nrows then A.get i j else B.get (i - A.nrows) j)
    (by simp [nrows])
    (fun i hi => by
      rw [hrow i]
      split
      · next h => rw [row_length hA h, if_neg (by omega)]
      · next h =>
        have hb : i - A.nrows < B.nrows := by omega
        rw [row_length hB hb]
        split
        · rfl
        · next h0 =>
          rcases hc with hc | hc | hc
          · exact absurd hc h0
          · omega
          · exact hc.symm)
    (fun i hi j hj => by rw [hrow i]; split <;> rfl)
  refine ⟨h1, h2, ?_, h4⟩
  rw [h3]
  split
  · next h0 =>
    have ha : A.nrows = 0 := by omega
    have hb : B.nrows = 0 := by omega
    rw [if_pos ha, ncols_eq_zero_of_nrows hb]
  · rfl

theorem single_WF (o : Obj K) : (OpMat.mk [[o]]).WF := by
  intro r hr; simp at hr; subst hr; rfl

theorem vstack_struct {A B C : OpMat K} (hA : A.WF) (hB : B.WF) (h : A.vstack B = some C) :
    A.ncols = B.ncols ∧ C = ⟨A.rows ++ B.rows⟩ := by
  unfold vstack at h
  split at h
  · exact absurd h (by simp)
  next hs =>
  obtain ⟨_, rfl⟩ := (ofRows_eq_some _ _).1 h
  exact ⟨by simpa using hs, rfl⟩

theorem vstackOp_struct {A C : OpMat K} (o : Obj K) (hA : A.WF) (h : A.vstackOp o = some C) :
    (A.nrows = 0 ∨ A.ncols = 1) ∧ C = ⟨A.rows ++ [[o]]⟩ := by
  unfold vstackOp at h
  split at h
  · exact absurd h (by simp)
  next hs =>
  obtain ⟨hw, rfl⟩ := (ofRows_eq_some _ _).1 h
  refine ⟨?_, rfl⟩
  rcases Nat.eq_zero_or_pos A.nrows with h0 | h0
  · exact Or.inl h0
  · right
    have := hw [o] (by simp)
    unfold ncols nrows at *
    cases hr : A.rows with
    | nil => rw [hr] at h0; simp at h0
    | cons r rs => rw [hr] at this; simpa using this.symm

theorem opVstack_struct {A C : OpMat K} (o : Obj K) (hA : A.WF) (h : A.opVstack o = some C) :
    (A.nrows = 0 ∨ A.ncols = 1) ∧ C = ⟨[[o]] ++ A.rows⟩ := by
  unfold opVstack at h
  split at h
  · exact absurd h (by simp)
  next hs =>
  obtain ⟨hw, rfl⟩ := (ofRows_eq_some _ _).1 h
  refine ⟨?_, rfl⟩
  rcases Nat.eq_zero_or_pos A.nrows with h0 | h0
  · exact Or.inl h0
  · right
    have h1 := hA
    unfold nrows at h0
    cases hr : A.rows with
    | nil => rw [hr] at h0; simp at h0
    | cons r rs =>
      have := hw r (by simp [hr])
      have h2 : A.ncols = r.length := by unfold ncols; rw [hr]
      rw [h2]; simpa [ncols] using this

theorem hstack_struct {A B C : OpMat K} (hA : A.WF) (hB : B.WF) (h : A.hstack B = some C) :
    A.nrows = B.nrows ∧ C.WF ∧ C.nrows = A.nrows ∧ C.ncols = A.ncols + B.ncols ∧
    ∀ i, i < A.nrows → ∀ j, j < A.ncols + B.ncols →
      C.get i j = if j < A.ncols then A.get i j else B.get i (j - A.ncols) := by
  unfold hstack at h
  split at h
  · exact absurd h (by simp)
  next hs =>
  have hr : A.nrows = B.nrows := by simpa using hs
  unfold zipWithS at h
  rw [if_pos (show A.rows.length = B.rows.length from hr)] at h
  simp only [Option.bind_some] at h
  obtain ⟨_, rfl⟩ := (ofRows_eq_some _ _).1 h
  have hrow : ∀ i, i < A.nrows → (List.zipWith (fun ra rb => ra ++ rb) A.rows B.rows).getD i []
      = A.rows.getD i [] ++ B.rows.getD i [] :=
    fun i hi => getD_zipWith_lt _ _ _ i [] [] [] hi (by rw [← nrows, ← hr]; exact hi)
  obtain ⟨h1, h2, h3, h4⟩ := struct_of (List.zipWith (fun ra rb => ra ++ rb) A.rows B.rows)
    A.nrows (A.ncols + B.ncols) (fun i j => if j < A.ncols then A.get i j else B.get i (j - A.ncols))
    (by have : B.rows.length = A.nrows := hr.symm
        simp [nrows, this])
    (fun i hi => by rw [hrow i hi, List.length_append, row_length hA hi, row_length hB (hr ▸ hi)])
    (fun i hi j hj => by
      rw [hrow i hi]
      split
      · next h => rw [getD_append_lt _ _ _ _ (by rw [row_length hA hi]; exact h)]; rfl
      · next h => rw [getD_append_ge _ _ _ _ (by rw [row_length hA hi]; omega), row_length hA hi]; rfl)
  refine ⟨hr, h1, h2, ?_, h4⟩
  rw [h3]; split
  · next h0 => rw [ncols_eq_zero_of_nrows h0, ncols_eq_zero_of_nrows (hr ▸ h0)]
  · rfl

theorem hstackOp_struct {A C : OpMat K} (o : Obj K) (hA : A.WF) (h : A.hstackOp o = some C) :
    A.nrows = 1 ∧ A.hstack ⟨[[o]]⟩ = some C := by
  unfold hstackOp at h
  split at h
  · exact absurd h (by simp)
  next hs =>
  cases hr : A.rows with
  | nil => rw [hr] at h; exact absurd h (by simp)
  | cons r rs =>
    have h1 : A.nrows = 1 := by unfold nrows at hs ⊢; rw [hr] at hs ⊢; simp at hs ⊢; omega
    have : rs = [] := by unfold nrows at h1; rw [hr] at h1; simpa using h1
    subst this
    rw [hr] at h
    refine ⟨h1, ?_⟩
    unfold hstack zipWithS
    simp only [nrows, hr, List.length_cons, List.length_nil]
    simpa using h

theorem opHstack_struct {A C : OpMat K} (o : Obj K) (hA : A.WF) (h : A.opHstack o = some C) :
    A.nrows = 1 ∧ (OpMat.mk [[o]]).hstack A = some C := by
  unfold opHstack at h
  split at h
  · exact absurd h (by simp)
  next hs =>
  cases hr : A.rows with
  | nil => rw [hr] at h; exact absurd h (by simp)
  | cons r rs =>
    have h1 : A.nrows = 1 := by unfold nrows at hs ⊢; rw [hr] at hs ⊢; simp at hs ⊢; omega
    have : rs = [] := by unfold nrows at h1; rw [hr] at h1; simpa using h1
    subst this
    rw [hr] at h
    refine ⟨h1, ?_⟩
    unfold hstack zipWithS
    simp only [nrows, hr, List.length_cons, List.length_nil]
    simpa using h

theorem fromDiagonal_struct {C : OpMat K} (ops : List (Obj K)) (h : fromDiagonal ops = some C) :
    C.WF ∧ C.nrows = ops.length ∧ C.ncols = ops.length ∧
    ∀ i, i < ops.length → ∀ j, j < ops.length →
      C.get i j = if i = j then ops.getD i .zeroOp else .zeroOp := by
  unfold fromDiagonal at h
  obtain ⟨_, rfl⟩ := (ofRows_eq_some _ _).1 h
  have hrow : ∀ i, i < ops.length →
      (ops.mapIdx (fun i op => (List.range ops.length).map (fun j => if i = j then op else .zeroOp))).getD i []
      = (List.range ops.length).map (fun j => if i = j then ops.getD i .zeroOp else .zeroOp) :=
    fun i hi => getD_mapIdx_lt _ _ i .zeroOp [] hi
  obtain ⟨h1, h2, h3, h4⟩ := struct_of
    (ops.mapIdx (fun i op => (List.range ops.length).map (fun j => if i = j then op else .zeroOp)))
    ops.length ops.length (fun i j => if i = j then ops.getD i .zeroOp else .zeroOp)
    (by simp)
    (fun i hi => by rw [hrow i hi]; simp)
    (fun i hi j hj => by rw [hrow i hi, getD_range_map_lt _ _ _ _ hj])
  refine ⟨h1, h2, ?_, h4⟩
  rw [h3]; split
  · next h0 => exact h0.symm
  · rfl

theorem fromDiagonal_isSome (ops : List (Obj K)) : (fromDiagonal ops).isSome := by
  unfold fromDiagonal
  have hrow : ∀ i, i < ops.length →
      (ops.mapIdx (fun i op => (List.range ops.length).map (fun j => if i = j then op else .zeroOp))).getD i []
      = (List.range ops.length).map (fun j => if i = j then ops.getD i .zeroOp else .zeroOp) :=
    fun i hi => getD_mapIdx_lt _ _ i .zeroOp [] hi
  have := (of_lengths (OpMat.mk (ops.mapIdx (fun i op => (List.range ops.length).map
      (fun j => if i = j then op else (.zeroOp : Obj K))))) ops.length
    (fun i hi => by
      have hi' : i < ops.length := by simpa [nrows] using hi
      rw [hrow i hi']; simp)).1
  rw [ofRows_of_WF _ this]; rfl

end OpMat


/-! ### `__getitem__` -/
theorem Idx.numeric_bounds (len : Nat) (ix : Idx) (l : List Int) (h : ix.numeric len = some l) :
    ∀ i ∈ l, -(len : Int) ≤ i ∧ i < (len : Int) := by
  cases ix with
  | int i0 =>
    simp only [Idx.numeric] at h
    split at h
    · exact absurd h (by simp)
    · next hc =>
      obtain rfl := Option.some.inj h
      intro i hi
      simp at hi; subst hi; omega
  | seq l0 =>
    cases l0 with
    | nil => simp [Idx.numeric] at h
    | cons a l1 =>
      simp only [Idx.numeric] at h
      split at h
      · next hc =>
        obtain rfl := Option.some.inj h
        intro i hi
        have := List.all_eq_true.1 hc i hi
        simpa using this
      · exact absurd h (by simp)
  | all =>
    simp only [Idx.numeric] at h
    obtain rfl := Option.some.inj h
    intro i hi
    obtain ⟨k, hk, rfl⟩ := List.mem_map.1 hi
    rw [List.mem_range] at hk
    simp only [Int.ofNat_eq_natCast]; omega
  | slice start stop =>
    rcases start with _ | s <;> rcases stop with _ | e <;>
    · simp only [Idx.numeric] at h
      split at h
      · exact absurd h (by simp)
      · next hc =>
        obtain rfl := Option.some.inj h
        intro i hi
        obtain ⟨k, hk, rfl⟩ := List.mem_map.1 hi
        rw [List.mem_range] at hk
        simp only [Int.ofNat_eq_natCast]
        simp only [Bool.or_eq_true, decide_eq_true_eq, not_or, Bool.false_eq_true, false_or, or_false,
          not_false_eq_true, true_and, and_true, Bool.or_self, Bool.or_false, Bool.false_or] at hc
        (try split at hk) <;> (try split at hk) <;> (try split) <;> omega

theorem pyIndex_of_bounds {α : Type} (l : List α) (i : Int) (d : α)
    (h : -(l.length : Int) ≤ i ∧ i < (l.length : Int)) :
    normIdx l.length i < l.length ∧ pyIndex l i = some (l.getD (normIdx l.length i) d) := by
  unfold normIdx pyIndex
  by_cases h0 : 0 ≤ i
  · have h1 : i.toNat < l.length := by omega
    rw [if_neg (by omega), if_pos h0]
    refine ⟨h1, ?_⟩
    simp [List.getD_eq_getElem?_getD, List.getElem?_eq_getElem h1]
  · have h1 : (i + l.length).toNat < l.length := by omega
    have h2 : l.length - (-i).toNat = (i + l.length).toNat := by omega
    rw [if_pos (by omega), if_neg h0, if_pos (by omega), h2]
    refine ⟨h1, ?_⟩
    simp [List.getD_eq_getElem?_getD, List.getElem?_eq_getElem h1]

theorem Idx.resolve_eq (len : Nat) (ix : Idx) (l : List Int) (h : ix.numeric len = some l) :
    ix.resolve len = some (l.map (normIdx len)) := by
  unfold Idx.resolve; rw [h]; rfl

theorem Idx.resolve_bounds (len : Nat) (ix : Idx) (l : List Nat) (h : ix.resolve len = some l) :
    ∀ i ∈ l, i < len := by
  unfold Idx.resolve at h
  cases hn : ix.numeric len with
  | none => rw [hn] at h; simp at h
  | some li =>
    rw [hn] at h
    obtain rfl := Option.some.inj h
    intro i hi
    obtain ⟨k, hk, rfl⟩ := List.mem_map.1 hi
    have := Idx.numeric_bounds len ix li hn k hk
    unfold normIdx; split <;> omega

namespace OpMat
/-- what `__getitem__` computes before deciding between operator and matrix -/
theorem getitem_eq {A : OpMat K} (hA : A.WF) (ri ci : Idx) (rn cn : List Int)
    (hr : ri.numeric A.nrows = some rn) (hc : ci.numeric A.ncols = some cn) :
    A.getitem ri ci =
      (let sl := (rn.map (normIdx A.nrows)).map (fun i => (cn.map (normIdx A.ncols)).map (fun j => A.get i j))
       if rn.length = 1 ∧ cn.length = 1 then
         match sl with
         | (o :: _) :: _ => some (.inl o)
         | _ => none
       else (ofRows sl).map .inr) := by
  unfold getitem
  rw [hr, hc]
  simp only [Option.bind_some]
  have hbr := Idx.numeric_bounds _ _ _ hr
  have hbc := Idx.numeric_bounds _ _ _ hc
  rw [mapOpt_eq_some_map _ (fun i => A.rows.getD (normIdx A.nrows i) [])]
  · simp only [Option.bind_some]
    rw [mapOpt_eq_some_map _ (fun row => cn.map (fun j => row.getD (normIdx A.ncols j) .zeroOp))]
    · simp only [Option.bind_some, List.map_map]
      rfl
    · intro row hrow
      obtain ⟨i, hi, rfl⟩ := List.mem_map.1 hrow
      have h1 := (pyIndex_of_bounds A.rows i [] (hbr i hi)).1
      have hl : (A.rows.getD (normIdx A.nrows i) []).length = A.ncols := row_length hA h1
      apply mapOpt_eq_some_map
      intro j hj
      have := (pyIndex_of_bounds (A.rows.getD (normIdx A.nrows i) []) j .zeroOp (by rw [hl]; exact hbc j hj)).2
      rw [hl] at this
      exact this
  · intro i hi
    exact (pyIndex_of_bounds A.rows i [] (hbr i hi)).2

theorem getitemM_struct {A C : OpMat K} (hA : A.WF) (ri ci : Idx) (h : A.getitemM ri ci = some C) :
    ∃ rn cn, ri.resolve A.nrows = some rn ∧ ci.resolve A.ncols = some cn ∧
      ¬ (rn.length = 1 ∧ cn.length = 1) ∧
      C.WF ∧ C.nrows = rn.length ∧ C.ncols = (if rn.length = 0 then 0 else cn.length) ∧
      ∀ i, i < rn.length → ∀ j, j < cn.length → C.get i j = A.get (rn.getD i 0) (cn.getD j 0) := by
  cases hr : ri.numeric A.nrows with
  | none => simp [getitemM, getitem, hr] at h
  | some rn =>
  cases hc : ci.numeric A.ncols with
  | none => simp [getitemM, getitem, hr, hc] at h
  | some cn =>
  have hg := getitem_eq hA ri ci rn cn hr hc
  simp only at hg
  refine ⟨rn.map (normIdx A.nrows), cn.map (normIdx A.ncols), Idx.resolve_eq _ _ _ hr,
    Idx.resolve_eq _ _ _ hc, ?_⟩
  by_cases h1 : rn.length = 1 ∧ cn.length = 1
  · exfalso
    obtain ⟨i, rfl⟩ := List.length_eq_one_iff.1 h1.1
    obtain ⟨j, rfl⟩ := List.length_eq_one_iff.1 h1.2
    simp [getitemM, hg] at h
  · rw [if_neg h1] at hg
    refine ⟨by simpa using h1, ?_⟩
    cases ho : ofRows ((rn.map (normIdx A.nrows)).map
        (fun i => (cn.map (normIdx A.ncols)).map (fun j => A.get i j))) with
    | none => unfold getitemM at h; rw [hg, ho] at h; simp at h
    | some C' =>
      have : C' = C := by unfold getitemM at h; rw [hg, ho] at h; simpa using h
      subst this
      obtain ⟨_, rfl⟩ := (ofRows_eq_some _ _).1 ho
      have hrow : ∀ i, i < (rn.map (normIdx A.nrows)).length →
          ((rn.map (normIdx A.nrows)).map
            (fun i => (cn.map (normIdx A.ncols)).map (fun j => A.get i j))).getD i []
          = (cn.map (normIdx A.ncols)).map (fun j => A.get ((rn.map (normIdx A.nrows)).getD i 0) j) :=
        fun i hi => getD_map_lt _ _ i 0 [] hi
      exact struct_of ((rn.map (normIdx A.nrows)).map
            (fun i => (cn.map (normIdx A.ncols)).map (fun j => A.get i j)))
        (rn.map (normIdx A.nrows)).length (cn.map (normIdx A.ncols)).length
        (fun i j => A.get ((rn.map (normIdx A.nrows)).getD i 0) ((cn.map (normIdx A.ncols)).getD j 0))
        (by simp)
        (fun i hi => by rw [hrow i hi]; simp)
        (fun i hi j hj => by rw [hrow i hi, getD_map_lt _ _ j 0 _ hj])

theorem getitemO_struct {A : OpMat K} {o : Obj K} (hA : A.WF) (ri ci : Idx) (h : A.getitemO ri ci = some o) :
    ∃ i j, ri.resolve A.nrows = some [i] ∧ ci.resolve A.ncols = some [j] ∧ i < A.nrows ∧ j < A.ncols ∧
      o = A.get i j := by
  cases hr : ri.numeric A.nrows with
  | none => simp [getitemO, getitem, hr] at h
  | some rn =>
  cases hc : ci.numeric A.ncols with
  | none => simp [getitemO, getitem, hr, hc] at h
  | some cn =>
  have hg := getitem_eq hA ri ci rn cn hr hc
  simp only at hg
  by_cases h1 : rn.length = 1 ∧ cn.length = 1
  · obtain ⟨i, rfl⟩ := List.length_eq_one_iff.1 h1.1
    obtain ⟨j, rfl⟩ := List.length_eq_one_iff.1 h1.2
    refine ⟨normIdx A.nrows i, normIdx A.ncols j, Idx.resolve_eq _ _ _ hr, Idx.resolve_eq _ _ _ hc, ?_⟩
    have hbr := Idx.resolve_bounds _ _ _ (Idx.resolve_eq _ _ _ hr) (normIdx A.nrows i) (by simp)
    have hbc := Idx.resolve_bounds _ _ _ (Idx.resolve_eq _ _ _ hc) (normIdx A.ncols j) (by simp)
    refine ⟨hbr, hbc, ?_⟩
    simp [getitemO, hg] at h
    exact h.symm
  · rw [if_neg h1] at hg
    exfalso
    cases ho : ofRows ((rn.map (normIdx A.nrows)).map
        (fun i => (cn.map (normIdx A.ncols)).map (fun j => A.get i j))) with
    | none => unfold getitemO at h; rw [hg, ho] at h; simp at h
    | some C' => unfold getitemO at h; rw [hg, ho] at h; simp at h
end OpMat


/-! ### semantics -/
section Sem
variable (Lf La : Nat → (Nat → K) → (Nat → K))

theorem fwd_foldl_plus (l : List (Obj K)) (a : Obj K) (x : Nat → K) (t : Nat) :
    Obj.fwd Lf La (l.foldl Obj.plus a) x t
      = Obj.fwd Lf La a x t + (l.map (fun o => Obj.fwd Lf La o x t)).sum := by
  induction l generalizing a with
  | nil => simp
  | cons b l ih => rw [List.foldl_cons, ih, fwd_plus]; simp [add_assoc]
theorem adj_foldl_plus (l : List (Obj K)) (a : Obj K) (x : Nat → K) (t : Nat) :
    Obj.adj Lf La (l.foldl Obj.plus a) x t
      = Obj.adj Lf La a x t + (l.map (fun o => Obj.adj Lf La o x t)).sum := by
  induction l generalizing a with
  | nil => simp
  | cons b l ih => rw [List.foldl_cons, ih, adj_plus]; simp [add_assoc]

/-- the left fold of `__add__` (with the `ZeroOp` shortcuts and flattening) evaluates to the sum -/
theorem fwd_foldPlus (l : List (Obj K)) (x : Nat → K) (t : Nat) :
    Obj.fwd Lf La (OpMat.foldPlus l) x t = (l.map (fun o => Obj.fwd Lf La o x t)).sum := by
  cases l with
  | nil => simp [OpMat.foldPlus, Obj.fwd]
  | cons a l => simp only [OpMat.foldPlus, fwd_foldl_plus, List.map_cons, List.sum_cons]
theorem adj_foldPlus (l : List (Obj K)) (x : Nat → K) (t : Nat) :
    Obj.adj Lf La (OpMat.foldPlus l) x t = (l.map (fun o => Obj.adj Lf La o x t)).sum := by
  cases l with
  | nil => simp [OpMat.foldPlus, Obj.adj]
  | cons a l => simp only [OpMat.foldPlus, adj_foldl_plus, List.map_cons, List.sum_cons]

theorem fwd_ite_zero (p : Prop) [Decidable p] (o : Obj K) (x : Nat → K) (t : Nat) :
    Obj.fwd Lf La (if p then o else .zeroOp) x t = if p then Obj.fwd Lf La o x t else 0 := by
  split <;> simp [Obj.fwd]
theorem adj_ite_zero (p : Prop) [Decidable p] (o : Obj K) (x : Nat → K) (t : Nat) :
    Obj.adj Lf La (if p then o else .zeroOp) x t = if p then Obj.adj Lf La o x t else 0 := by
  split <;> simp [Obj.adj]

/-- the induction invariant: the built matrix is well formed, has the shape `shapeM` predicts and
its total application agrees with the specification, forward and adjoint -/
structure Inv (e : MExpr K) (A : OpMat K) : Prop where
  wf : A.WF
  shape : shapeM e = some (A.nrows, A.ncols)
  fwd : ∀ xs : List (Nat → K), xs.length = A.ncols → denM Lf La e xs = A.app Lf La xs
  adj : ∀ ys : List (Nat → K), ys.length = A.nrows → denHM Lf La e ys = A.appH Lf La ys

variable {Lf La}
theorem Inv.rowsM {e : MExpr K} {A : OpMat K} (h : Inv Lf La e A) : rowsM e = A.nrows := by
  simp [M.rowsM, h.shape]
theorem Inv.colsM {e : MExpr K} {A : OpMat K} (h : Inv Lf La e A) : colsM e = A.ncols := by
  simp [M.colsM, h.shape]
variable (Lf La)

variable (hf : ∀ i, IsLin' (Lf i)) (ha : ∀ i, IsLin' (La i))
include hf ha

theorem inv_lit (rows : List (List (Expr K))) (C : OpMat K)
    (h : OpMat.ofRows (rows.map (fun row => row.map build)) = some C) : Inv Lf La (.lit rows) C := by
  obtain ⟨hw, rfl⟩ := (OpMat.ofRows_eq_some _ _).1 h
  have hn : (OpMat.mk (rows.map (fun row => row.map (build (K := K))))).nrows = rows.length := by
    simp [OpMat.nrows]
  generalize hC : OpMat.mk (rows.map (fun row => row.map (build (K := K)))) = C at *
  have hrows : C.rows = rows.map (fun row => row.map build) := by rw [← hC]
  have hrow : ∀ i, i < rows.length → C.rows.getD i [] = (rows.getD i []).map build := by
    intro i hi; rw [hrows]; exact getD_map_lt _ _ i [] [] hi
  have hlen : ∀ i, i < rows.length → (rows.getD i []).length = C.ncols := by
    intro i hi
    have := OpMat.row_length hw (i := i) (by rw [hn]; exact hi)
    rw [hrow i hi, List.length_map] at this; exact this
  have hget : ∀ i, i < rows.length → ∀ j, j < C.ncols →
      C.get i j = build ((rows.getD i []).getD j .zero) := by
    intro i hi j hj
    rw [OpMat.get_eq, hrow i hi, getD_map_lt _ _ j .zero _ (by rw [hlen i hi]; exact hj)]
  have hmem : ∀ r ∈ rows, r.length = C.ncols := by
    intro r hr
    have := hw (r.map build) (by rw [hrows]; exact List.mem_map_of_mem hr)
    simpa using this
  refine ⟨hw, ?_, ?_, ?_⟩
  · have hrect : rect rows = true := by
      rw [← rect_map_map (build (K := K))]; rw [← hrows]; exact (OpMat.WF_iff_rect C).1 hw
    simp only [shapeM, hrect, if_true, hn]
    congr 2
    unfold OpMat.ncols; rw [hrows]
    cases rows <;> simp
  · intro xs hx
    simp only [denM]
    apply OpMat.app_eq_of
    · simp [hn]
    · intro i hi t
      rw [hn] at hi
      rw [getD_map_lt _ _ i [] _ hi, vsum_apply, List.map_zipWith,
        sum_zipWith_eq _ Expr.zero vzero _ _ (by rw [hlen i hi, hx]), hlen i hi]
      apply Finset.sum_congr rfl
      intro j hj
      rw [Finset.mem_range] at hj
      rw [hget i hi j hj, fwd_build_eq_den Lf La hf ha]
  · intro ys hy
    simp only [denHM]
    rw [columns_eq Expr.zero rows C.ncols hmem (fun h0 => by
      apply OpMat.ncols_eq_zero_of_nrows; rw [hn, h0]; rfl)]
    apply OpMat.appH_eq_of
    · simp
    · intro j hj t
      rw [getD_map_lt _ _ j [] _ (by simpa using hj), getD_range_map_lt _ _ _ _ hj, vsum_apply,
        List.map_zipWith,
        sum_zipWith_eq _ Expr.zero vzero _ _ (by rw [List.length_map, hy, hn]), List.length_map, hn]
      apply Finset.sum_congr rfl
      intro i hi
      rw [Finset.mem_range] at hi
      rw [getD_map_lt _ _ i [] _ hi, hget i hi j hj, adj_build_eq_denH Lf La hf ha]

theorem inv_fromDiag (ops : List (Expr K)) (C : OpMat K)
    (h : OpMat.fromDiagonal (ops.map build) = some C) : Inv Lf La (.fromDiag ops) C := by
  obtain ⟨hw, hr, hc, hget⟩ := OpMat.fromDiagonal_struct _ h
  rw [List.length_map] at hr hc hget
  have hb : ∀ i, i < ops.length → (ops.map (build (K := K))).getD i .zeroOp = build (ops.getD i .zero) :=
    fun i hi => getD_map_lt _ _ i _ _ hi
  refine ⟨hw, by simp [shapeM, hr, hc], ?_, ?_⟩
  · intro xs hx
    simp only [denM]
    apply OpMat.app_eq_of
    · simp [hx, hr, hc]
    · intro i hi t
      rw [hr] at hi
      rw [getD_zipWith_lt _ _ _ i Expr.zero vzero _ hi (by rw [hx, hc]; exact hi), hc]
      rw [Finset.sum_congr rfl (fun j hj => by
        rw [hget i hi j (Finset.mem_range.1 hj), fwd_ite_zero])]
      rw [Finset.sum_ite_eq, if_pos (Finset.mem_range.2 hi), hb i hi, fwd_build_eq_den Lf La hf ha]
  · intro ys hy
    simp only [denHM]
    apply OpMat.appH_eq_of
    · simp [hy, hr, hc]
    · intro j hj t
      rw [hc] at hj
      rw [getD_zipWith_lt _ _ _ j Expr.zero vzero _ hj (by rw [hy, hr]; exact hj), hr]
      rw [Finset.sum_congr rfl (fun i hi => by
        rw [hget i (Finset.mem_range.1 hi) j hj, adj_ite_zero])]
      rw [Finset.sum_ite_eq', if_pos (Finset.mem_range.2 hj), hb j hj, adj_build_eq_denH Lf La hf ha]

theorem inv_matmulOp {a : MExpr K} {A C : OpMat K} (o : Expr K) (hA : Inv Lf La a A)
    (h : A.matmulOp (build o) = some C) : Inv Lf La (.matmulOp a o) C := by
  obtain ⟨hw, hr, hc, hget⟩ := OpMat.matmulOp_struct _ hA.wf h
  refine ⟨hw, by simp [shapeM, hA.shape, hr, hc], ?_, ?_⟩
  · intro xs hx
    simp only [denM]
    rw [hA.fwd _ (by rw [List.length_map, hx, hc])]
    unfold OpMat.app
    rw [hr, hc]
    apply List.map_congr_left
    intro i hi
    rw [List.mem_range] at hi
    funext t
    apply Finset.sum_congr rfl
    intro j hj
    rw [Finset.mem_range] at hj
    rw [hget i hi j hj, fwd_matmul Lf La hf ha, fwd_build_eq_den Lf La hf ha,
      getD_map_lt _ _ j vzero _ (by rw [hx, hc]; exact hj)]
  · intro ys hy
    simp only [denHM]
    rw [hA.adj _ (by rw [hy, hr])]
    apply OpMat.appH_eq_of
    · simp [hc]
    · intro j hj t
      rw [hc] at hj
      rw [getD_map_lt _ _ j vzero _ (by simpa using hj), OpMat.getD_appH Lf La A ys hj,
        ← adj_build_eq_denH Lf La hf ha, lin_sum (Obj.adj_lin Lf La hf ha _), hr]
      apply Finset.sum_congr rfl
      intro i hi
      rw [Finset.mem_range] at hi
      rw [hget i hi j hj, adj_matmul Lf La hf ha]

theorem inv_matmul {a b : MExpr K} {A B C : OpMat K} (hA : Inv Lf La a A) (hB : Inv Lf La b B)
    (h : A.matmul B = some C) : Inv Lf La (.matmul a b) C := by
  obtain ⟨hm, hw, hr, hc, hget⟩ := OpMat.matmul_struct hA.wf hB.wf h
  have hfe : ∀ i, i < A.nrows → ∀ j, j < B.ncols → ∀ x t, Obj.fwd Lf La (C.get i j) x t
      = ∑ k ∈ range A.ncols, Obj.fwd Lf La (A.get i k) (Obj.fwd Lf La (B.get k j) x) t := by
    intro i hi j hj x t
    rw [hget i hi j hj, fwd_foldPlus, List.map_zipWith,
      sum_zipWith_eq _ Obj.zeroOp Obj.zeroOp _ _ (by
        rw [OpMat.row_length hA.wf hi, List.length_map, hm]; rfl), OpMat.row_length hA.wf hi]
    apply Finset.sum_congr rfl
    intro k hk
    rw [Finset.mem_range] at hk
    rw [fwd_matmul Lf La hf ha, getD_map_lt _ _ k [] _ (by rw [← OpMat.nrows, ← hm]; exact hk)]
    rfl
  have hae : ∀ i, i < A.nrows → ∀ j, j < B.ncols → ∀ y t, Obj.adj Lf La (C.get i j) y t
      = ∑ k ∈ range A.ncols, Obj.adj Lf La (B.get k j) (Obj.adj Lf La (A.get i k) y) t := by
    intro i hi j hj x t
    rw [hget i hi j hj, adj_foldPlus, List.map_zipWith,
      sum_zipWith_eq _ Obj.zeroOp Obj.zeroOp _ _ (by
        rw [OpMat.row_length hA.wf hi, List.length_map, hm]; rfl), OpMat.row_length hA.wf hi]
    apply Finset.sum_congr rfl
    intro k hk
    rw [Finset.mem_range] at hk
    rw [adj_matmul Lf La hf ha, getD_map_lt _ _ k [] _ (by rw [← OpMat.nrows, ← hm]; exact hk)]
    rfl
  refine ⟨hw, by simp [shapeM, hA.shape, hB.shape, hm, hr, hc], ?_, ?_⟩
  · intro xs hx
    simp only [denM]
    rw [hB.fwd _ (by rw [hx, hc]), hA.fwd _ (by rw [OpMat.length_app, hm])]
    apply OpMat.app_eq_of
    · simp [hr]
    · intro i hi t
      rw [hr] at hi
      rw [OpMat.getD_app Lf La A _ hi]
      trans ∑ k ∈ range A.ncols, ∑ j ∈ range B.ncols,
          Obj.fwd Lf La (A.get i k) (Obj.fwd Lf La (B.get k j) (xs.getD j vzero)) t
      · apply Finset.sum_congr rfl
        intro k hk
        rw [OpMat.getD_app Lf La B xs (by rw [← hm]; exact Finset.mem_range.1 hk),
          lin_sum (Obj.fwd_lin Lf La hf ha _)]
      · rw [Finset.sum_comm, hc]
        apply Finset.sum_congr rfl
        intro j hj
        rw [hfe i hi j (Finset.mem_range.1 hj)]
  · intro ys hy
    simp only [denHM]
    rw [hA.adj _ (by rw [hy, hr]), hB.adj _ (by rw [OpMat.length_appH, hm])]
    apply OpMat.appH_eq_of
    · simp [hc]
    · intro j hj t
      rw [hc] at hj
      rw [OpMat.getD_appH Lf La B _ hj, ← hm]
      trans ∑ k ∈ range A.ncols, ∑ i ∈ range A.nrows,
          Obj.adj Lf La (B.get k j) (Obj.adj Lf La (A.get i k) (ys.getD i vzero)) t
      · apply Finset.sum_congr rfl
        intro k hk
        rw [OpMat.getD_appH Lf La A ys (Finset.mem_range.1 hk),
          lin_sum (Obj.adj_lin Lf La hf ha _)]
      · rw [Finset.sum_comm, hr]
        apply Finset.sum_congr rfl
        intro i hi
        rw [hae i (Finset.mem_range.1 hi) j hj]

theorem inv_add {a b : MExpr K} {A B C : OpMat K} (hA : Inv Lf La a A) (hB : Inv Lf La b B)
    (h : A.add B = some C) : Inv Lf La (.add a b) C := by
  obtain ⟨hbr, hbc, hw, hr, hc, hget⟩ := OpMat.add_struct hA.wf hB.wf h
  refine ⟨hw, by simp [shapeM, hA.shape, hB.shape, hbr, hbc, hr, hc], ?_, ?_⟩
  · intro xs hx
    simp only [denM]
    rw [hA.fwd _ (by rw [hx, hc]), hB.fwd _ (by rw [hx, hc, hbc])]
    apply OpMat.app_eq_of
    · simp [hr, hbr]
    · intro i hi t
      rw [hr] at hi
      rw [getD_zipWith_lt _ _ _ i vzero vzero _ (by simpa using hi) (by simpa [hbr] using hi),
        OpMat.getD_app Lf La A _ hi, OpMat.getD_app Lf La B _ (by rw [hbr]; exact hi), hbc, hc]
      simp only [vadd]
      rw [← Finset.sum_add_distrib]
      apply Finset.sum_congr rfl
      intro j hj
      rw [hget i hi j (Finset.mem_range.1 hj), fwd_plus]
  · intro ys hy
    simp only [denHM]
    rw [hA.adj _ (by rw [hy, hr]), hB.adj _ (by rw [hy, hr, hbr])]
    apply OpMat.appH_eq_of
    · simp [hc, hbc]
    · intro j hj t
      rw [hc] at hj
      rw [getD_zipWith_lt _ _ _ j vzero vzero _ (by simpa using hj) (by simpa [hbc] using hj),
        OpMat.getD_appH Lf La A _ hj, OpMat.getD_appH Lf La B _ (by rw [hbc]; exact hj), hbr, hr]
      simp only [vadd]
      rw [← Finset.sum_add_distrib]
      apply Finset.sum_congr rfl
      intro i hi
      rw [hget i (Finset.mem_range.1 hi) j hj, adj_plus]
end Sem

theorem zipWith_replicate_eq_map {α β : Type} (f : α → β → β) (c : α) (n : Nat) (l : List β)
    (h : l.length = n) : List.zipWith f (List.replicate n c) l = l.map (f c) := by
  subst h
  induction l with
  | nil => rfl
  | cons a l ih => simp [List.replicate_succ, ih]

section Sem2
variable (Lf La : Nat → (Nat → K) → (Nat → K))
variable (hf : ∀ i, IsLin' (Lf i)) (ha : ∀ i, IsLin' (La i))
include hf ha

/-- `A + diag(D)`: the common part of `__add__` with an operator / a tensor -/
theorem sem_onDiag (f : Obj K → Obj K) (D DH : (Nat → K) → (Nat → K))
    (hD : ∀ o x t, Obj.fwd Lf La (f o) x t = Obj.fwd Lf La o x t + D x t)
    (hDH : ∀ o y t, Obj.adj Lf La (f o) y t = Obj.adj Lf La o y t + DH y t)
    {A C : OpMat K} (hA : A.WF) (h : A.onDiag f = some C) :
    A.nrows = A.ncols ∧ C.WF ∧ C.nrows = A.nrows ∧ C.ncols = A.ncols ∧
    (∀ xs : List (Nat → K), xs.length = A.ncols →
      List.zipWith vadd (A.app Lf La xs) (xs.map D) = C.app Lf La xs) ∧
    (∀ ys : List (Nat → K), ys.length = A.nrows →
      List.zipWith vadd (A.appH Lf La ys) (ys.map DH) = C.appH Lf La ys) := by
  obtain ⟨hsq, hw, hr, hc, hget⟩ := OpMat.onDiag_struct f hA h
  refine ⟨hsq, hw, hr, hc, ?_, ?_⟩
  · intro xs hx
    apply OpMat.app_eq_of
    · simp [hr, hx, hsq]
    · intro i hi t
      rw [hr] at hi
      rw [getD_zipWith_lt _ _ _ i vzero vzero _ (by simpa using hi) (by simpa [hx, ← hsq] using hi),
        OpMat.getD_app Lf La A _ hi, getD_map_lt _ _ i vzero _ (by rw [hx, ← hsq]; exact hi), hc]
      simp only [vadd]
      trans ∑ j ∈ range A.ncols, (Obj.fwd Lf La (A.get i j) (xs.getD j vzero) t
          + if i = j then D (xs.getD j vzero) t else 0)
      · rw [Finset.sum_add_distrib, Finset.sum_ite_eq, if_pos (Finset.mem_range.2 (hsq ▸ hi))]
      · apply Finset.sum_congr rfl
        intro j hj
        rw [hget i hi j (Finset.mem_range.1 hj)]
        split
        · rw [hD]
        · rw [add_zero]
  · intro ys hy
    apply OpMat.appH_eq_of
    · simp [hc, hy, hsq]
    · intro j hj t
      rw [hc] at hj
      rw [getD_zipWith_lt _ _ _ j vzero vzero _ (by simpa using hj) (by simpa [hy, hsq] using hj),
        OpMat.getD_appH Lf La A _ hj, getD_map_lt _ _ j vzero _ (by rw [hy, hsq]; exact hj), hr]
      simp only [vadd]
      trans ∑ i ∈ range A.nrows, (Obj.adj Lf La (A.get i j) (ys.getD i vzero) t
          + if i = j then DH (ys.getD i vzero) t else 0)
      · rw [Finset.sum_add_distrib, Finset.sum_ite_eq', if_pos (Finset.mem_range.2 (hsq ▸ hj))]
      · apply Finset.sum_congr rfl
        intro i hi
        rw [hget i (Finset.mem_range.1 hi) j hj]
        split
        · rw [hDH]
        · rw [add_zero]

theorem inv_addOp {a : MExpr K} {A C : OpMat K} (o : Expr K) (hA : Inv Lf La a A)
    (h : A.addOp (build o) = some C) : Inv Lf La (.addOp a o) C := by
  obtain ⟨hsq, hw, hr, hc, h1, h2⟩ := sem_onDiag Lf La hf ha (fun op => Obj.plus op (build o))
    (den Lf La o) (denH Lf La o)
    (fun p x t => by rw [fwd_plus, fwd_build_eq_den Lf La hf ha])
    (fun p y t => by rw [adj_plus, adj_build_eq_denH Lf La hf ha]) hA.wf h
  refine ⟨hw, by simp [shapeM, hA.shape, hsq, hr, hc], ?_, ?_⟩
  · intro xs hx
    simp only [denM]
    rw [hA.fwd _ (by rw [hx, hc]), h1 xs (by rw [hx, hc])]
  · intro ys hy
    simp only [denHM]
    rw [hA.adj _ (by rw [hy, hr]), h2 ys (by rw [hy, hr])]

theorem inv_addT {a : MExpr K} {A C : OpMat K} (d : Scal K) (hA : Inv Lf La a A)
    (h : A.addT d = some C) : Inv Lf La (.addT a d) C := by
  have key : ∀ d' : Scal K, (∀ c, d' ≠ .py c) → A.onDiag (fun op => Obj.plusT op d') = some C →
      shapeM (.addT a d') = (shapeM a).bind (fun s => if s.1 = s.2 then some s else none) →
      Inv Lf La (.addT a d') C := by
    intro d' _ h hs
    obtain ⟨hsq, hw, hr, hc, h1, h2⟩ := sem_onDiag Lf La hf ha (fun op => Obj.plusT op d')
      (vscale d') (vscaleH d')
      (fun p x t => by rw [fwd_plusT Lf La hf ha]; rfl)
      (fun p y t => by rw [adj_plusT Lf La hf ha]; rfl) hA.wf h
    refine ⟨hw, by rw [hs]; simp [hA.shape, hsq, hr, hc], ?_, ?_⟩
    · intro xs hx
      simp only [denM]
      rw [hA.fwd _ (by rw [hx, hc]), h1 xs (by rw [hx, hc])]
    · intro ys hy
      simp only [denHM]
      rw [hA.adj _ (by rw [hy, hr]), h2 ys (by rw [hy, hr])]
  cases d with
  | py c => simp [OpMat.addT] at h
  | t1 c => exact key (.t1 c) (fun c h => by cases h) h rfl
  | tn c => exact key (.tn c) (fun c h => by cases h) h rfl

theorem sem_rmulSeq (cs : List (Scal K)) {A C : OpMat K} (hA : A.WF) (h : A.rmulSeq cs = some C) :
    cs.length = A.nrows ∧ C.WF ∧ C.nrows = A.nrows ∧ C.ncols = A.ncols ∧
    (∀ xs : List (Nat → K), List.zipWith vscale cs (A.app Lf La xs) = C.app Lf La xs) ∧
    (∀ ys : List (Nat → K), ys.length = A.nrows →
      A.appH Lf La (List.zipWith vscaleH cs ys) = C.appH Lf La ys) := by
  obtain ⟨hcs, hw, hr, hc, hget⟩ := OpMat.rmulSeq_struct cs hA h
  refine ⟨hcs, hw, hr, hc, ?_, ?_⟩
  · intro xs
    apply OpMat.app_eq_of
    · simp [hr, hcs]
    · intro i hi t
      rw [hr] at hi
      rw [getD_zipWith_lt _ _ _ i (Scal.py 0) vzero _ (by rw [hcs]; exact hi) (by simpa using hi),
        OpMat.getD_app Lf La A _ hi, hc]
      simp only [vscale]
      rw [Finset.mul_sum]
      apply Finset.sum_congr rfl
      intro j hj
      rw [hget i hi j (Finset.mem_range.1 hj), fwd_rmul]
  · intro ys hy
    unfold OpMat.appH
    rw [hr, hc]
    apply List.map_congr_left
    intro j hj
    rw [List.mem_range] at hj
    funext t
    apply Finset.sum_congr rfl
    intro i hi
    rw [Finset.mem_range] at hi
    rw [hget i hi j hj, adj_rmul Lf La hf ha,
      getD_zipWith_lt _ _ _ i (Scal.py 0) vzero _ (by rw [hcs]; exact hi) (by rw [hy]; exact hi)]
    rfl

theorem inv_rmulSeq {a : MExpr K} {A C : OpMat K} (cs : List (Scal K)) (hA : Inv Lf La a A)
    (h : A.rmulSeq cs = some C) : Inv Lf La (.rmulSeq cs a) C := by
  obtain ⟨hcs, hw, hr, hc, h1, h2⟩ := sem_rmulSeq Lf La hf ha cs hA.wf h
  refine ⟨hw, by simp [shapeM, hA.shape, hcs, hr, hc], ?_, ?_⟩
  · intro xs hx
    simp only [denM]
    rw [hA.fwd _ (by rw [hx, hc]), h1]
  · intro ys hy
    simp only [denHM]
    rw [hA.adj _ (by simp [hy, hr, hcs]), h2 ys (by rw [hy, hr])]

theorem inv_rmul {a : MExpr K} {A C : OpMat K} (c : Scal K) (hA : Inv Lf La a A)
    (h : A.rmul c = some C) : Inv Lf La (.rmul c a) C := by
  obtain ⟨hcs, hw, hr, hc, h1, h2⟩ := sem_rmulSeq Lf La hf ha _ hA.wf h
  refine ⟨hw, by simp [shapeM, hA.shape, hr, hc], ?_, ?_⟩
  · intro xs hx
    simp only [denM]
    rw [hA.fwd _ (by rw [hx, hc]), ← h1, zipWith_replicate_eq_map _ _ _ _ (by simp)]
  · intro ys hy
    simp only [denHM]
    rw [hA.adj _ (by simp [hy, hr]), ← h2 ys (by rw [hy, hr]),
      zipWith_replicate_eq_map _ _ _ _ (by rw [hy, hr])]

theorem sem_mulSeq (cs : List (Scal K)) {A C : OpMat K} (hA : A.WF) (h : A.mulSeq cs = some C) :
    cs.length = A.ncols ∧ C.WF ∧ C.nrows = A.nrows ∧ C.ncols = A.ncols ∧
    (∀ xs : List (Nat → K), xs.length = A.ncols →
      A.app Lf La (List.zipWith vscale cs xs) = C.app Lf La xs) ∧
    (∀ ys : List (Nat → K), List.zipWith vscaleH cs (A.appH Lf La ys) = C.appH Lf La ys) := by
  obtain ⟨hcs, hw, hr, hc, hget⟩ := OpMat.mulSeq_struct cs hA h
  refine ⟨hcs, hw, hr, hc, ?_, ?_⟩
  · intro xs hx
    unfold OpMat.app
    rw [hr, hc]
    apply List.map_congr_left
    intro i hi
    rw [List.mem_range] at hi
    funext t
    apply Finset.sum_congr rfl
    intro j hj
    rw [Finset.mem_range] at hj
    rw [hget i hi j hj, fwd_mul Lf La hf ha,
      getD_zipWith_lt _ _ _ j (Scal.py 0) vzero _ (by rw [hcs]; exact hj) (by rw [hx]; exact hj)]
    rfl
  · intro ys
    apply OpMat.appH_eq_of
    · simp [hc, hcs]
    · intro j hj t
      rw [hc] at hj
      rw [getD_zipWith_lt _ _ _ j (Scal.py 0) vzero _ (by rw [hcs]; exact hj) (by simpa using hj),
        OpMat.getD_appH Lf La A _ hj, hr]
      simp only [vscaleH, conj_eq_star]
      rw [Finset.mul_sum]
      apply Finset.sum_congr rfl
      intro i hi
      rw [hget i (Finset.mem_range.1 hi) j hj, adj_mul_pt]

theorem inv_mulSeq {a : MExpr K} {A C : OpMat K} (cs : List (Scal K)) (hA : Inv Lf La a A)
    (h : A.mulSeq cs = some C) : Inv Lf La (.mulSeq a cs) C := by
  obtain ⟨hcs, hw, hr, hc, h1, h2⟩ := sem_mulSeq Lf La hf ha cs hA.wf h
  refine ⟨hw, by simp [shapeM, hA.shape, hcs, hr, hc], ?_, ?_⟩
  · intro xs hx
    simp only [denM]
    rw [hA.fwd _ (by simp [hx, hc, hcs]), h1 xs (by rw [hx, hc])]
  · intro ys hy
    simp only [denHM]
    rw [hA.adj _ (by rw [hy, hr]), h2]

theorem inv_mul {a : MExpr K} {A C : OpMat K} (c : Scal K) (hA : Inv Lf La a A)
    (h : A.mul c = some C) : Inv Lf La (.mul a c) C := by
  obtain ⟨hcs, hw, hr, hc, h1, h2⟩ := sem_mulSeq Lf La hf ha _ hA.wf h
  refine ⟨hw, by simp [shapeM, hA.shape, hr, hc], ?_, ?_⟩
  · intro xs hx
    simp only [denM]
    rw [hA.fwd _ (by simp [hx, hc]), ← h1 xs (by rw [hx, hc]),
      zipWith_replicate_eq_map _ _ _ _ (by rw [hx, hc])]
  · intro ys hy
    simp only [denHM]
    rw [hA.adj _ (by rw [hy, hr]), ← h2, zipWith_replicate_eq_map _ _ _ _ (by simp)]

theorem inv_H {a : MExpr K} {A C : OpMat K} (hA : Inv Lf La a A)
    (h : A.H = some C) : Inv Lf La (.H a) C := by
  obtain ⟨hw, hr, hc, hget⟩ := OpMat.H_struct hA.wf h
  refine ⟨hw, by simp [shapeM, hA.shape, mkShape, hr, hc], ?_, ?_⟩
  · intro xs hx
    simp only [denM, hA.colsM]
    split
    · next h0 =>
      unfold OpMat.app; rw [hr, h0]; rfl
    · next h0 =>
      rw [if_neg h0] at hc
      rw [hA.adj _ (by rw [hx, hc])]
      unfold OpMat.app OpMat.appH
      rw [hr, hc]
      apply List.map_congr_left
      intro j hj
      rw [List.mem_range] at hj
      funext t
      apply Finset.sum_congr rfl
      intro i hi
      rw [hget j hj i (Finset.mem_range.1 hi), fwd_H]
  · intro ys hy
    simp only [denHM, hA.colsM]
    split
    · next h0 =>
      unfold OpMat.appH; rw [hc, if_pos h0]; rfl
    · next h0 =>
      rw [if_neg h0] at hc
      rw [hA.fwd _ (by rw [hy, hr])]
      unfold OpMat.app OpMat.appH
      rw [hr, hc]
      apply List.map_congr_left
      intro i hi
      rw [List.mem_range] at hi
      funext t
      apply Finset.sum_congr rfl
      intro j hj
      rw [hget j (Finset.mem_range.1 hj) i hi, adj_H]
end Sem2


/-! ### `getitem` and stacking -/
section Sem3
variable (Lf La : Nat → (Nat → K) → (Nat → K))

theorem getD_scatterV (n : Nat) (idx : List Nat) (xs : List (Nat → K)) (hl : idx.length = xs.length)
    {j : Nat} (hj : j < n) :
    (scatterV n idx xs).getD j vzero
      = fun t => ∑ k ∈ range idx.length, (if idx.getD k 0 = j then xs.getD k vzero else vzero) t := by
  unfold scatterV
  rw [getD_range_map_lt _ _ _ _ hj]
  funext t
  rw [vsum_apply, List.map_zipWith, sum_zipWith_eq _ 0 vzero idx xs hl]

theorem sum_scatter (F : Nat → (Nat → K) → (Nat → K)) (hF : ∀ j, IsLin' (F j)) (n : Nat)
    (idx : List Nat) (xs : List (Nat → K)) (hl : idx.length = xs.length) (hb : ∀ k ∈ idx, k < n) (t : Nat) :
    ∑ j ∈ range n, F j ((scatterV n idx xs).getD j vzero) t
      = ∑ k ∈ range idx.length, F (idx.getD k 0) (xs.getD k vzero) t := by
  trans ∑ j ∈ range n, ∑ k ∈ range idx.length,
      (if idx.getD k 0 = j then F j (xs.getD k vzero) t else 0)
  · apply Finset.sum_congr rfl
    intro j hj
    rw [getD_scatterV n idx xs hl (Finset.mem_range.1 hj), lin_sum (hF j)]
    apply Finset.sum_congr rfl
    intro k hk
    rw [lin_ite (hF j)]
  · rw [Finset.sum_comm]
    apply Finset.sum_congr rfl
    intro k hk
    rw [Finset.sum_ite_eq, if_pos (Finset.mem_range.2 (hb _ (getD_mem _ _ _ (Finset.mem_range.1 hk))))]

theorem OpMat.app_take (A : OpMat K) (xs : List (Nat → K)) :
    A.app Lf La (xs.take A.ncols) = A.app Lf La xs := by
  unfold OpMat.app
  apply List.map_congr_left
  intro i hi
  funext t
  apply Finset.sum_congr rfl
  intro j hj
  rw [getD_take_lt _ _ _ _ (Finset.mem_range.1 hj)]

theorem OpMat.getD_appH' (A : OpMat K) (ys : List (Nat → K)) {j : Nat} (hj : j < A.ncols ∨ A.nrows = 0)
    (t : Nat) : (A.appH Lf La ys).getD j vzero t
      = ∑ i ∈ range A.nrows, Obj.adj Lf La (A.get i j) (ys.getD i vzero) t := by
  rcases hj with hj | hj
  · rw [OpMat.getD_appH Lf La A ys hj]
  · unfold OpMat.appH
    rw [OpMat.ncols_eq_zero_of_nrows hj, hj]
    simp [vzero]
theorem OpMat.getD_app' (A : OpMat K) (xs : List (Nat → K)) {i : Nat} (hi : i < A.nrows)
    (t : Nat) : (A.app Lf La xs).getD i vzero t
      = ∑ j ∈ range A.ncols, Obj.fwd Lf La (A.get i j) (xs.getD j vzero) t := by
  rw [OpMat.getD_app Lf La A xs hi]

theorem single_app (o : Obj K) (xs : List (Nat → K)) :
    (OpMat.mk [[o]]).app Lf La xs = [Obj.fwd Lf La o (xs.headD vzero)] := by
  have h0 : (OpMat.mk [[o]]).nrows = 1 := rfl
  have h1 : (OpMat.mk [[o]]).ncols = 1 := rfl
  unfold OpMat.app
  rw [h0, h1]
  simp only [List.range_one, List.map_cons, List.map_nil, Finset.sum_range_one, headD_eq_getD]
  rfl
theorem single_appH (o : Obj K) (ys : List (Nat → K)) :
    (OpMat.mk [[o]]).appH Lf La ys = [Obj.adj Lf La o (ys.headD vzero)] := by
  have h0 : (OpMat.mk [[o]]).nrows = 1 := rfl
  have h1 : (OpMat.mk [[o]]).ncols = 1 := rfl
  unfold OpMat.appH
  rw [h0, h1]
  simp only [List.range_one, List.map_cons, List.map_nil, Finset.sum_range_one, headD_eq_getD]
  rfl

/-- rows appended -/
theorem sem_append {A B : OpMat K} (hA : A.WF) (hB : B.WF)
    (hc : A.nrows = 0 ∨ B.nrows = 0 ∨ A.ncols = B.ncols) :
    (∀ xs : List (Nat → K), (OpMat.mk (A.rows ++ B.rows)).app Lf La xs = A.app Lf La xs ++ B.app Lf La xs) ∧
    (∀ (ys : List (Nat → K)) j, j < (OpMat.mk (A.rows ++ B.rows)).ncols → ∀ t,
      ∑ i ∈ range (OpMat.mk (A.rows ++ B.rows)).nrows,
        Obj.adj Lf La ((OpMat.mk (A.rows ++ B.rows)).get i j) (ys.getD i vzero) t
      = ∑ i ∈ range A.nrows, Obj.adj Lf La (A.get i j) (ys.getD i vzero) t
        + ∑ i ∈ range B.nrows, Obj.adj Lf La (B.get i j) (ys.getD (A.nrows + i) vzero) t) := by
  obtain ⟨hw, hr, hcc, hget⟩ := OpMat.append_struct hA hB hc
  constructor
  · intro xs
    symm
    apply OpMat.app_eq_of
    · simp [hr]
    · intro i hi t
      rw [hr] at hi
      by_cases h1 : i < A.nrows
      · rw [getD_append_lt _ _ _ _ (by simpa using h1), OpMat.getD_app' Lf La A xs h1, hcc,
          if_neg (by omega)]
        apply Finset.sum_congr rfl
        intro j hj
        rw [hget i hi j (by rw [if_neg (by omega)]; exact Finset.mem_range.1 hj), if_pos h1]
      · have h2 : i - A.nrows < B.nrows := by omega
        have h3 : (if A.nrows = 0 then B.ncols else A.ncols) = B.ncols := by
          split
          · rfl
          · next h0 =>
            rcases hc with hc | hc | hc
            · exact absurd hc h0
            · omega
            · exact hc
        rw [getD_append_ge _ _ _ _ (by simpa using Nat.le_of_not_lt h1), OpMat.length_app,
          OpMat.getD_app' Lf La B xs h2, hcc, h3]
        apply Finset.sum_congr rfl
        intro j hj
        rw [hget i hi j (by rw [h3]; exact Finset.mem_range.1 hj), if_neg h1]
  · intro ys j hj t
    rw [hcc] at hj
    rw [hr, Finset.sum_range_add]
    congr 1
    · apply Finset.sum_congr rfl
      intro i hi
      rw [Finset.mem_range] at hi
      rw [hget i (by omega) j hj, if_pos hi]
    · apply Finset.sum_congr rfl
      intro i hi
      rw [Finset.mem_range] at hi
      rw [hget (A.nrows + i) (by omega) j hj, if_neg (by omega), Nat.add_sub_cancel_left]

/-- columns appended -/
theorem sem_hstack {A B C : OpMat K} (hA : A.WF) (hB : B.WF) (h : A.hstack B = some C) :
    A.nrows = B.nrows ∧ C.WF ∧ C.nrows = A.nrows ∧ C.ncols = A.ncols + B.ncols ∧
    (∀ (xs : List (Nat → K)) i, i < A.nrows → ∀ t,
      ∑ j ∈ range C.ncols, Obj.fwd Lf La (C.get i j) (xs.getD j vzero) t
      = ∑ j ∈ range A.ncols, Obj.fwd Lf La (A.get i j) (xs.getD j vzero) t
        + ∑ j ∈ range B.ncols, Obj.fwd Lf La (B.get i j) (xs.getD (A.ncols + j) vzero) t) ∧
    (∀ ys : List (Nat → K), C.appH Lf La ys = A.appH Lf La ys ++ B.appH Lf La ys) := by
  obtain ⟨hrr, hw, hr, hc, hget⟩ := OpMat.hstack_struct hA hB h
  refine ⟨hrr, hw, hr, hc, ?_, ?_⟩
  · intro xs i hi t
    rw [hc, Finset.sum_range_add]
    congr 1
    · apply Finset.sum_congr rfl
      intro j hj
      rw [Finset.mem_range] at hj
      rw [hget i hi j (by omega), if_pos hj]
    · apply Finset.sum_congr rfl
      intro j hj
      rw [Finset.mem_range] at hj
      rw [hget i hi (A.ncols + j) (by omega), if_neg (by omega), Nat.add_sub_cancel_left]
  · intro ys
    symm
    apply OpMat.appH_eq_of
    · simp [hc]
    · intro j hj t
      rw [hc] at hj
      rw [hr]
      by_cases h1 : j < A.ncols
      · rw [getD_append_lt _ _ _ _ (by simpa using h1), OpMat.getD_appH Lf La A ys h1]
        apply Finset.sum_congr rfl
        intro i hi
        rw [hget i (Finset.mem_range.1 hi) j hj, if_pos h1]
      · have h2 : j - A.ncols < B.ncols := by omega
        rw [getD_append_ge _ _ _ _ (by simpa using Nat.le_of_not_lt h1), OpMat.length_appH,
          OpMat.getD_appH Lf La B ys h2, ← hrr]
        apply Finset.sum_congr rfl
        intro i hi
        rw [hget i (Finset.mem_range.1 hi) j hj, if_neg h1]

variable (hf : ∀ i, IsLin' (Lf i)) (ha : ∀ i, IsLin' (La i))
include hf ha

theorem inv_getitem {a : MExpr K} {A C : OpMat K} (ri ci : Idx) (hA : Inv Lf La a A)
    (h : A.getitemM ri ci = some C) : Inv Lf La (.getitem a ri ci) C := by
  obtain ⟨rn, cn, hrr, hrc, hne, hw, hr, hc, hget⟩ := OpMat.getitemM_struct hA.wf ri ci h
  have hbr := Idx.resolve_bounds _ _ _ hrr
  have hbc := Idx.resolve_bounds _ _ _ hrc
  refine ⟨hw, ?_, ?_, ?_⟩
  · simp only [shapeM, hA.shape, Option.bind_some, hrr, hrc, if_neg hne, mkShape, hr, hc]
  · intro xs hx
    simp only [denM, hA.rowsM, hA.colsM, Idx.sel, hrr, hrc, Option.getD_some]
    rw [hA.fwd _ (by simp [scatterV])]
    apply OpMat.app_eq_of
    · simp [selectV, hr]
    · intro i hi t
      rw [hr] at hi
      have hcn : C.ncols = cn.length := by rw [hc, if_neg (by omega)]
      unfold selectV
      rw [getD_map_lt _ _ i 0 _ hi, OpMat.getD_app' Lf La A _ (hbr _ (getD_mem _ _ _ hi)),
        sum_scatter (fun j => Obj.fwd Lf La (A.get (rn.getD i 0) j))
          (fun j => Obj.fwd_lin Lf La hf ha _) A.ncols cn xs (by rw [hx, hcn]) hbc, hcn]
      apply Finset.sum_congr rfl
      intro j hj
      rw [hget i hi j (Finset.mem_range.1 hj)]
  · intro ys hy
    simp only [denHM, hA.rowsM, hA.colsM, Idx.sel, hrr, hrc, Option.getD_some]
    split
    · next h0 =>
      have : rn.length = 0 := by simpa [List.isEmpty_iff] using h0
      unfold OpMat.appH; rw [hc, if_pos this]; rfl
    · next h0 =>
      have hn0 : rn.length ≠ 0 := by
        intro h1; apply h0; simpa [List.isEmpty_iff] using h1
      have hcn : C.ncols = cn.length := by rw [hc, if_neg hn0]
      rw [hA.adj _ (by simp [scatterV])]
      apply OpMat.appH_eq_of
      · simp [selectV, hcn]
      · intro j hj t
        rw [hcn] at hj
        unfold selectV
        rw [getD_map_lt _ _ j 0 _ hj, OpMat.getD_appH Lf La A _ (hbc _ (getD_mem _ _ _ hj))]
        show ∑ i ∈ range A.nrows, (fun i => Obj.adj Lf La (A.get i (cn.getD j 0))) i
          ((scatterV A.nrows rn ys).getD i vzero) t = _
        rw [sum_scatter (fun i => Obj.adj Lf La (A.get i (cn.getD j 0)))
          (fun j => Obj.adj_lin Lf La hf ha _) A.nrows rn ys (by rw [hy, hr]) hbr, hr]
        apply Finset.sum_congr rfl
        intro i hi
        rw [hget i (Finset.mem_range.1 hi) j hj]

theorem inv_vstack {a b : MExpr K} {A B C : OpMat K} (hA : Inv Lf La a A) (hB : Inv Lf La b B)
    (h : A.vstack B = some C) : Inv Lf La (.vstack a b) C := by
  obtain ⟨hcab, rfl⟩ := OpMat.vstack_struct hA.wf hB.wf h
  obtain ⟨hw, hr, hcc, hget⟩ := OpMat.append_struct hA.wf hB.wf (Or.inr (Or.inr hcab))
  obtain ⟨h1, h2⟩ := sem_append Lf La hA.wf hB.wf (Or.inr (Or.inr hcab))
  have hc : (OpMat.mk (A.rows ++ B.rows)).ncols = A.ncols := by rw [hcc]; split <;> simp [hcab]
  refine ⟨hw, by simp [shapeM, hA.shape, hB.shape, hcab, hr, hc], ?_, ?_⟩
  · intro xs hx
    simp only [denM]
    rw [hA.fwd _ (by rw [hx, hc]), hB.fwd _ (by rw [hx, hc, hcab]), h1]
  · intro ys hy
    simp only [denHM, hA.rowsM]
    rw [hA.adj _ (by rw [List.length_take, hy, hr]; omega),
      hB.adj _ (by rw [List.length_drop, hy, hr]; omega)]
    apply OpMat.appH_eq_of
    · simp [hc, hcab]
    · intro j hj t
      rw [h2 ys j hj t]
      rw [hc] at hj
      rw [getD_zipWith_lt _ _ _ j vzero vzero _ (by simpa using hj) (by simpa [← hcab] using hj)]
      simp only [vadd]
      rw [OpMat.getD_appH Lf La A _ hj, OpMat.getD_appH Lf La B _ (hcab ▸ hj)]
      congr 1
      · apply Finset.sum_congr rfl
        intro i hi
        rw [getD_take_lt _ _ _ _ (Finset.mem_range.1 hi)]
      · apply Finset.sum_congr rfl
        intro i hi
        rw [getD_drop]

theorem inv_vstackOp {a : MExpr K} {A C : OpMat K} (o : Expr K) (hA : Inv Lf La a A)
    (h : A.vstackOp (build o) = some C) : Inv Lf La (.vstackOp a o) C := by
  obtain ⟨hdis, rfl⟩ := OpMat.vstackOp_struct _ hA.wf h
  have hS := OpMat.single_WF (build o)
  have hcd : A.nrows = 0 ∨ (OpMat.mk [[build o]]).nrows = 0 ∨ A.ncols = (OpMat.mk [[build o]]).ncols := by
    rcases hdis with h0 | h0
    · exact Or.inl h0
    · exact Or.inr (Or.inr h0)
  obtain ⟨hw, hr, hcc, hget⟩ := OpMat.append_struct hA.wf hS hcd
  obtain ⟨h1, h2⟩ := sem_append Lf La hA.wf hS hcd
  have hc : (OpMat.mk (A.rows ++ [[build o]])).ncols = 1 := by
    rw [hcc]; split
    · rfl
    · next h0 => rcases hdis with h | h
                 · exact absurd h h0
                 · exact h
  have hr' : (OpMat.mk (A.rows ++ [[build o]])).nrows = A.nrows + 1 := hr
  have hca : A.ncols ≤ 1 := by
    rcases hdis with h0 | h0
    · rw [OpMat.ncols_eq_zero_of_nrows h0]; omega
    · omega
  refine ⟨hw, by simp [shapeM, hA.shape, hdis, hr', hc], ?_, ?_⟩
  · intro xs hx
    simp only [denM, hA.colsM]
    rw [hA.fwd _ (by rw [List.length_take, hx, hc]; omega), OpMat.app_take, h1, single_app,
      fwd_build_eq_den Lf La hf ha]
  · intro ys hy
    simp only [denHM, hA.rowsM]
    rw [hA.adj _ (by rw [List.length_take, hy, hr']; omega)]
    apply OpMat.appH_eq_of
    · simp [hc]
    · intro j hj t
      rw [h2 ys j hj t]
      rw [hc] at hj
      have : j = 0 := by omega
      subst this
      simp only [List.getD_cons_zero, vadd, headD_eq_getD]
      have hd : 0 < A.ncols ∨ A.nrows = 0 := by
        rcases hdis with h0 | h0
        · exact Or.inr h0
        · exact Or.inl (by omega)
      rw [OpMat.getD_appH' Lf La A _ hd]
      congr 1
      · apply Finset.sum_congr rfl
        intro i hi
        rw [getD_take_lt _ _ _ _ (Finset.mem_range.1 hi)]
      · show _ = ∑ i ∈ range 1, _
        rw [Finset.sum_range_one, ← adj_build_eq_denH Lf La hf ha]
        rfl

theorem inv_opVstack {a : MExpr K} {A C : OpMat K} (o : Expr K) (hA : Inv Lf La a A)
    (h : A.opVstack (build o) = some C) : Inv Lf La (.opVstack o a) C := by
  obtain ⟨hdis, rfl⟩ := OpMat.opVstack_struct _ hA.wf h
  have hS := OpMat.single_WF (build o)
  have hcd : (OpMat.mk [[build o]]).nrows = 0 ∨ A.nrows = 0 ∨ (OpMat.mk [[build o]]).ncols = A.ncols := by
    rcases hdis with h0 | h0
    · exact Or.inr (Or.inl h0)
    · exact Or.inr (Or.inr h0.symm)
  obtain ⟨hw, hr, hcc, hget⟩ := OpMat.append_struct hS hA.wf hcd
  obtain ⟨h1, h2⟩ := sem_append Lf La hS hA.wf hcd
  have hc : (OpMat.mk ([[build o]] ++ A.rows)).ncols = 1 := by rw [hcc]; rfl
  have hr' : (OpMat.mk ([[build o]] ++ A.rows)).nrows = 1 + A.nrows := hr
  have hca : A.ncols ≤ 1 := by
    rcases hdis with h0 | h0
    · rw [OpMat.ncols_eq_zero_of_nrows h0]; omega
    · omega
  refine ⟨hw, by rw [hr', hc]; simp [shapeM, hA.shape, hdis, Nat.add_comm], ?_, ?_⟩
  · intro xs hx
    simp only [denM, hA.colsM]
    rw [hA.fwd _ (by rw [List.length_take, hx, hc]; omega), OpMat.app_take, h1, single_app,
      fwd_build_eq_den Lf La hf ha]
    rfl
  · intro ys hy
    simp only [denHM]
    rw [hA.adj _ (by rw [List.length_drop, hy, hr']; omega)]
    apply OpMat.appH_eq_of
    · rw [hc]; rfl
    · intro j hj t
      rw [h2 ys j hj t]
      rw [hc] at hj
      have : j = 0 := by omega
      subst this
      simp only [List.getD_cons_zero, vadd, headD_eq_getD]
      have hd : 0 < A.ncols ∨ A.nrows = 0 := by
        rcases hdis with h0 | h0
        · exact Or.inr h0
        · exact Or.inl (by omega)
      rw [OpMat.getD_appH' Lf La A _ hd]
      congr 1
      · show _ = ∑ i ∈ range 1, _
        rw [Finset.sum_range_one, ← adj_build_eq_denH Lf La hf ha]
        rfl
      · apply Finset.sum_congr rfl
        intro i hi
        rw [getD_drop]
        rfl

theorem inv_hstack {a b : MExpr K} {A B C : OpMat K} (hA : Inv Lf La a A) (hB : Inv Lf La b B)
    (h : A.hstack B = some C) : Inv Lf La (.hstack a b) C := by
  obtain ⟨hrr, hw, hr, hc, h1, h2⟩ := sem_hstack Lf La hA.wf hB.wf h
  refine ⟨hw, by simp [shapeM, hA.shape, hB.shape, hrr, hr, hc], ?_, ?_⟩
  · intro xs hx
    simp only [denM, hA.colsM]
    rw [hA.fwd _ (by rw [List.length_take, hx, hc]; omega),
      hB.fwd _ (by rw [List.length_drop, hx, hc]; omega)]
    apply OpMat.app_eq_of
    · simp [hr, hrr]
    · intro i hi t
      rw [hr] at hi
      rw [h1 xs i hi t,
        getD_zipWith_lt _ _ _ i vzero vzero _ (by simpa using hi) (by simpa [← hrr] using hi)]
      simp only [vadd]
      rw [OpMat.getD_app Lf La A _ hi, OpMat.getD_app Lf La B _ (hrr ▸ hi)]
      congr 1
      · apply Finset.sum_congr rfl
        intro j hj
        rw [getD_take_lt _ _ _ _ (Finset.mem_range.1 hj)]
      · apply Finset.sum_congr rfl
        intro j hj
        rw [getD_drop]
  · intro ys hy
    simp only [denHM]
    rw [hA.adj _ (by rw [hy, hr]), hB.adj _ (by rw [hy, hr, hrr]), h2]

theorem inv_hstackOp {a : MExpr K} {A C : OpMat K} (o : Expr K) (hA : Inv Lf La a A)
    (h : A.hstackOp (build o) = some C) : Inv Lf La (.hstackOp a o) C := by
  obtain ⟨hone, h'⟩ := OpMat.hstackOp_struct _ hA.wf h
  obtain ⟨hrr, hw, hr, hc, h1, h2⟩ := sem_hstack Lf La hA.wf (OpMat.single_WF (build o)) h'
  have hc' : C.ncols = A.ncols + 1 := hc
  refine ⟨hw, by simp [shapeM, hA.shape, hone, hr, hc'], ?_, ?_⟩
  · intro xs hx
    simp only [denM, hA.colsM]
    rw [hA.fwd _ (by rw [List.length_take, hx, hc']; omega)]
    apply OpMat.app_eq_of
    · simp [hr, hone]
    · intro i hi t
      rw [hr] at hi
      have : i = 0 := by omega
      subst this
      rw [h1 xs 0 hi t]
      simp only [List.getD_cons_zero, vadd, headD_eq_getD]
      rw [OpMat.getD_app Lf La A _ hi]
      congr 1
      · apply Finset.sum_congr rfl
        intro j hj
        rw [getD_take_lt _ _ _ _ (Finset.mem_range.1 hj)]
      · show _ = ∑ j ∈ range 1, _
        rw [Finset.sum_range_one, ← fwd_build_eq_den Lf La hf ha]
        rfl
  · intro ys hy
    simp only [denHM]
    rw [hA.adj _ (by rw [hy, hr]), h2, single_appH, adj_build_eq_denH Lf La hf ha]

theorem inv_opHstack {a : MExpr K} {A C : OpMat K} (o : Expr K) (hA : Inv Lf La a A)
    (h : A.opHstack (build o) = some C) : Inv Lf La (.opHstack o a) C := by
  obtain ⟨hone, h'⟩ := OpMat.opHstack_struct _ hA.wf h
  obtain ⟨hrr, hw, hr, hc, h1, h2⟩ := sem_hstack Lf La (OpMat.single_WF (build o)) hA.wf h'
  have hc' : C.ncols = 1 + A.ncols := hc
  have hr' : C.nrows = 1 := hr
  refine ⟨hw, by simp [shapeM, hA.shape, hone, hr', hc', Nat.add_comm], ?_, ?_⟩
  · intro xs hx
    simp only [denM]
    rw [hA.fwd _ (by rw [List.length_drop, hx, hc']; omega)]
    apply OpMat.app_eq_of
    · simp [hr']
    · intro i hi t
      rw [hr'] at hi
      have : i = 0 := by omega
      subst this
      rw [h1 xs 0 (by show 0 < 1; omega) t]
      simp only [List.getD_cons_zero, vadd, headD_eq_getD]
      rw [OpMat.getD_app Lf La A _ (by rw [hone]; omega)]
      congr 1
      · show _ = ∑ j ∈ range 1, _
        rw [Finset.sum_range_one, ← fwd_build_eq_den Lf La hf ha]
        rfl
      · apply Finset.sum_congr rfl
        intro j hj
        rw [getD_drop]
        rfl
  · intro ys hy
    simp only [denHM]
    rw [hA.adj _ (by rw [hy, hr', hone]), h2, single_appH, adj_build_eq_denH Lf La hf ha]
    rfl
end Sem3


/-! ### main theorems -/
section Main
variable (Lf La : Nat → (Nat → K) → (Nat → K))

theorem inv_buildM (hf : ∀ i, IsLin' (Lf i)) (ha : ∀ i, IsLin' (La i)) :
    ∀ (e : MExpr K) (A : OpMat K), buildM e = some A → Inv Lf La e A := by
  intro e
  induction e with
  | lit rows => intro A h; exact inv_lit Lf La hf ha rows A h
  | fromDiag ops => intro A h; exact inv_fromDiag Lf La hf ha ops A h
  | matmul a b iha ihb =>
    intro C h
    simp only [buildM, Option.bind_eq_some_iff] at h
    obtain ⟨A, hA, B, hB, h⟩ := h
    exact inv_matmul Lf La hf ha (iha A hA) (ihb B hB) h
  | matmulOp a o iha =>
    intro C h
    simp only [buildM, Option.bind_eq_some_iff] at h
    obtain ⟨A, hA, h⟩ := h
    exact inv_matmulOp Lf La hf ha o (iha A hA) h
  | add a b iha ihb =>
    intro C h
    simp only [buildM, Option.bind_eq_some_iff] at h
    obtain ⟨A, hA, B, hB, h⟩ := h
    exact inv_add Lf La hf ha (iha A hA) (ihb B hB) h
  | addOp a o iha =>
    intro C h
    simp only [buildM, Option.bind_eq_some_iff] at h
    obtain ⟨A, hA, h⟩ := h
    exact inv_addOp Lf La hf ha o (iha A hA) h
  | addT a d iha =>
    intro C h
    simp only [buildM, Option.bind_eq_some_iff] at h
    obtain ⟨A, hA, h⟩ := h
    exact inv_addT Lf La hf ha d (iha A hA) h
  | rmul c a iha =>
    intro C h
    simp only [buildM, Option.bind_eq_some_iff] at h
    obtain ⟨A, hA, h⟩ := h
    exact inv_rmul Lf La hf ha c (iha A hA) h
  | rmulSeq cs a iha =>
    intro C h
    simp only [buildM, Option.bind_eq_some_iff] at h
    obtain ⟨A, hA, h⟩ := h
    exact inv_rmulSeq Lf La hf ha cs (iha A hA) h
  | mul a c iha =>
    intro C h
    simp only [buildM, Option.bind_eq_some_iff] at h
    obtain ⟨A, hA, h⟩ := h
    exact inv_mul Lf La hf ha c (iha A hA) h
  | mulSeq a cs iha =>
    intro C h
    simp only [buildM, Option.bind_eq_some_iff] at h
    obtain ⟨A, hA, h⟩ := h
    exact inv_mulSeq Lf La hf ha cs (iha A hA) h
  | H a iha =>
    intro C h
    simp only [buildM, Option.bind_eq_some_iff] at h
    obtain ⟨A, hA, h⟩ := h
    exact inv_H Lf La hf ha (iha A hA) h
  | getitem a ri ci iha =>
    intro C h
    simp only [buildM, Option.bind_eq_some_iff] at h
    obtain ⟨A, hA, h⟩ := h
    exact inv_getitem Lf La hf ha ri ci (iha A hA) h
  | vstack a b iha ihb =>
    intro C h
    simp only [buildM, Option.bind_eq_some_iff] at h
    obtain ⟨A, hA, B, hB, h⟩ := h
    exact inv_vstack Lf La hf ha (iha A hA) (ihb B hB) h
  | vstackOp a o iha =>
    intro C h
    simp only [buildM, Option.bind_eq_some_iff] at h
    obtain ⟨A, hA, h⟩ := h
    exact inv_vstackOp Lf La hf ha o (iha A hA) h
  | opVstack o a iha =>
    intro C h
    simp only [buildM, Option.bind_eq_some_iff] at h
    obtain ⟨A, hA, h⟩ := h
    exact inv_opVstack Lf La hf ha o (iha A hA) h
  | hstack a b iha ihb =>
    intro C h
    simp only [buildM, Option.bind_eq_some_iff] at h
    obtain ⟨A, hA, B, hB, h⟩ := h
    exact inv_hstack Lf La hf ha (iha A hA) (ihb B hB) h
  | hstackOp a o iha =>
    intro C h
    simp only [buildM, Option.bind_eq_some_iff] at h
    obtain ⟨A, hA, h⟩ := h
    exact inv_hstackOp Lf La hf ha o (iha A hA) h
  | opHstack o a iha =>
    intro C h
    simp only [buildM, Option.bind_eq_some_iff] at h
    obtain ⟨A, hA, h⟩ := h
    exact inv_opHstack Lf La hf ha o (iha A hA) h

/-- every matrix the library builds is rectangular -/
theorem buildM_WF (e : MExpr K) (A : OpMat K) (h : buildM e = some A) : A.WF :=
  (inv_buildM (fun _ x => x) (fun _ x => x) (fun _ a b x y i => rfl) (fun _ a b x y i => rfl) e A h).wf

/-- … and has the shape `shapeM` computes from the program -/
theorem buildM_shape (e : MExpr K) (A : OpMat K) (h : buildM e = some A) : shapeM e = some A.shape :=
  (inv_buildM (fun _ x => x) (fun _ x => x) (fun _ a b x y i => rfl) (fun _ a b x y i => rfl) e A h).shape

/-- a shape with no rows has no columns -/
theorem OpMat.shape_inv (A : OpMat K) : A.nrows = 0 → A.ncols = 0 := OpMat.ncols_eq_zero_of_nrows

/-- **forward**: the matrix `buildM e` the library builds (all element-level shortcuts included),
applied with `forward`, is the block-matrix specification `denM e` -/
theorem fwdM_buildM_eq_denM (hf : ∀ i, IsLin' (Lf i)) (ha : ∀ i, IsLin' (La i))
    (e : MExpr K) (A : OpMat K) (h : buildM e = some A) (xs : List (Nat → K))
    (hx : xs.length = A.ncols) (hnd : A.ncols ≠ 0 ∨ A.nrows = 0) :
    A.fwd Lf La xs = some (denM Lf La e xs) := by
  have hI := inv_buildM Lf La hf ha e A h
  rw [OpMat.fwd_eq_app Lf La hI.wf hx hnd, hI.fwd xs hx]

/-- when `forward` raises: wrong number of inputs, or rows but no columns (`reduce` of nothing) -/
theorem OpMat.fwd_eq_none_iff {A : OpMat K} (hA : A.WF) (xs : List (Nat → K)) :
    A.fwd Lf La xs = none ↔ xs.length ≠ A.ncols ∨ (A.ncols = 0 ∧ A.nrows ≠ 0) := by
  constructor
  · intro h
    by_contra hc
    simp only [not_or, not_and, not_not] at hc
    have hnd : A.ncols ≠ 0 ∨ A.nrows = 0 := by
      by_cases h0 : A.ncols = 0
      · exact Or.inr (hc.2 h0)
      · exact Or.inl h0
    rw [OpMat.fwd_eq_app Lf La hA hc.1 hnd] at h
    exact absurd h (by simp)
  · rintro (h | ⟨h0, h1⟩)
    · unfold OpMat.fwd; rw [if_pos h]
    · unfold OpMat.fwd
      split
      · rfl
      · next hx =>
        have hx : xs.length = A.ncols := by simpa using hx
        cases hr : A.rows with
        | nil => exfalso; apply h1; unfold OpMat.nrows; rw [hr]; rfl
        | cons r rs =>
          have hl : r.length = 0 := by rw [hA r (by rw [hr]; simp), h0]
          have hxl : xs = [] := List.length_eq_zero_iff.1 (by rw [hx, h0])
          have hrn : r = [] := List.length_eq_zero_iff.1 hl
          subst hxl; subst hrn
          simp [mapOpt, zipWithS, reduce1]

theorem OpMat.H_isSome {A : OpMat K} (hA : A.WF) : ∃ C, A.H = some C := by
  unfold OpMat.H
  rw [OpMat.zipStar_rows hA]
  simp only [Option.bind_some]
  have hrow : ∀ j, j < A.ncols →
      (((List.range A.ncols).map (fun j => A.rows.map (fun r => r.getD j Obj.zeroOp))).map
        (fun col => col.map Obj.H)).getD j []
      = (A.rows.map (fun r => r.getD j Obj.zeroOp)).map Obj.H := by
    intro j hj
    rw [getD_map_lt _ _ j [] [] (by simpa using hj), getD_range_map_lt _ _ _ _ hj]
  have := (OpMat.struct_of (((List.range A.ncols).map (fun j => A.rows.map (fun r => r.getD j Obj.zeroOp))).map
        (fun col => col.map Obj.H)) A.ncols A.nrows (fun j i => Obj.H (A.get i j))
    (by simp)
    (fun j hj => by rw [hrow j hj]; simp [OpMat.nrows])
    (fun j hj i hi => by
      rw [hrow j hj, getD_map_lt Obj.H _ i .zeroOp .zeroOp (by simpa [OpMat.nrows] using hi),
        getD_map_lt _ _ i [] _ hi]; rfl)).1
  exact ⟨_, OpMat.ofRows_of_WF _ this⟩

/-- **adjoint**: `adjoint` (= `self.H(*y)`) of the built matrix is the adjoint block matrix `denHM e` -/
theorem adjM_buildM_eq_denHM (hf : ∀ i, IsLin' (Lf i)) (ha : ∀ i, IsLin' (La i))
    (e : MExpr K) (A : OpMat K) (h : buildM e = some A) (ys : List (Nat → K))
    (hy : ys.length = A.nrows) (hnd : A.ncols ≠ 0 ∨ A.nrows = 0) :
    A.adj Lf La ys = some (denHM Lf La e ys) := by
  have hI := inv_buildM Lf La hf ha e A h
  obtain ⟨C, hC⟩ := OpMat.H_isSome hI.wf
  have hIH := inv_H Lf La hf ha hI hC
  obtain ⟨hw, hr, hc, _⟩ := OpMat.H_struct hI.wf hC
  unfold OpMat.adj
  rw [hC, Option.bind_some]
  have hcy : ys.length = C.ncols := by
    rw [hc, hy]
    rcases hnd with h0 | h0
    · rw [if_neg h0]
    · rw [h0, OpMat.ncols_eq_zero_of_nrows h0]; rfl
  have hnd' : C.ncols ≠ 0 ∨ C.nrows = 0 := by
    by_cases h0 : A.ncols = 0
    · exact Or.inr (by rw [hr, h0])
    · left; rw [hc, if_neg h0]
      have := OpMat.nrows_pos_of_ncols (Nat.pos_of_ne_zero h0); omega
  rw [OpMat.fwd_eq_app Lf La hw hcy hnd', ← hIH.fwd ys hcy]
  simp only [denM, hI.colsM]
  split
  · next h0 =>
    have : (denHM Lf La e ys).length = 0 := by rw [hI.adj ys hy, OpMat.length_appH, h0]
    rw [List.length_eq_zero_iff.1 this]
  · rfl
end Main


/-! ### single entries, adjointness -/
section Entry
variable (Lf La : Nat → (Nat → K) → (Nat → K))

/-- **`a[i, j]` as an operator**: the `LinearOperator` returned by `__getitem__` when one row and one
column are selected is entry `(i, j)` of the block matrix, on both code paths -/
theorem buildEntry_eq_denEntry (hf : ∀ i, IsLin' (Lf i)) (ha : ∀ i, IsLin' (La i))
    (e : MExpr K) (ri ci : Idx) (o : Obj K) (h : buildEntry e ri ci = some o) :
    ∃ i j, ri.resolve (rowsM e) = some [i] ∧ ci.resolve (colsM e) = some [j] ∧
      (∀ x, Obj.fwd Lf La o x = denEntry Lf La e i j x) ∧
      (∀ y, Obj.adj Lf La o y = denHEntry Lf La e i j y) := by
  simp only [buildEntry, Option.bind_eq_some_iff] at h
  obtain ⟨A, hA, h⟩ := h
  have hI := inv_buildM Lf La hf ha e A hA
  obtain ⟨i, j, hri, hci, hi, hj, rfl⟩ := OpMat.getitemO_struct hI.wf ri ci h
  refine ⟨i, j, by rw [hI.rowsM]; exact hri, by rw [hI.colsM]; exact hci, ?_, ?_⟩
  · intro x
    unfold denEntry
    rw [hI.colsM, hI.fwd _ (by simp), OpMat.getD_app Lf La A _ hi]
    funext t
    rw [Finset.sum_congr rfl (fun k hk => by
      rw [getD_range_map_lt _ _ _ _ (Finset.mem_range.1 hk), lin_ite (Obj.fwd_lin Lf La hf ha _)])]
    rw [Finset.sum_ite_eq', if_pos (Finset.mem_range.2 hj)]
  · intro y
    unfold denHEntry
    rw [hI.rowsM, hI.adj _ (by simp), OpMat.getD_appH Lf La A _ hj]
    funext t
    rw [Finset.sum_congr rfl (fun k hk => by
      rw [getD_range_map_lt _ _ _ _ (Finset.mem_range.1 hk), lin_ite (Obj.adj_lin Lf La hf ha _)])]
    rw [Finset.sum_ite_eq', if_pos (Finset.mem_range.2 hi)]

/-! adjointness of every object of the graph, given it for the leaves -/
variable (n : Nat) (hadj : ∀ i x y, inner n (Lf i x) y = inner n x (La i y))
include hadj

mutual
theorem Obj.adjoint_pair : ∀ (o : Obj K) (x y : Nat → K),
    inner n (Obj.fwd Lf La o x) y = inner n x (Obj.adj Lf La o y)
  | .leaf i, x, y => by simpa [Obj.fwd, Obj.adj] using hadj i x y
  | .identity, x, y => by simp [Obj.fwd, Obj.adj]
  | .zeroOp, x, y => by simp [Obj.fwd, Obj.adj, inner_zero_left, inner_zero_right]
  | .composition p q, x, y => by
      simp only [Obj.fwd, Obj.adj]; rw [Obj.adjoint_pair p, Obj.adjoint_pair q]
  | .sum l, x, y => by simp only [Obj.fwd, Obj.adj]; exact Obj.adjoint_sum l x y
  | .prodRight p c, x, y => by
      simp only [Obj.fwd, Obj.adj]
      rw [inner_diag, Obj.adjoint_pair p]
      congr 2; funext i; simp [mul_comm]
  | .prodLeft p c, x, y => by
      simp only [Obj.fwd, Obj.adj]
      rw [Obj.adjoint_pair p, inner_diag]
      congr 1; funext i; simp [mul_comm]
  | .adjointOf p, x, y => by
      simp only [Obj.fwd, Obj.adj]
      rw [inner_conj_symm, ← Obj.adjoint_pair p, ← inner_conj_symm]
theorem Obj.adjoint_sum : ∀ (l : List (Obj K)) (x y : Nat → K),
    inner n (Obj.fwdSum Lf La l x) y = inner n x (Obj.adjSum Lf La l y)
  | [], x, y => by simp [Obj.fwdSum, Obj.adjSum, inner_zero_left, inner_zero_right]
  | o :: os, x, y => by
      simp only [Obj.fwdSum, Obj.adjSum]
      rw [inner_add_left, inner_add_right, Obj.adjoint_pair o, Obj.adjoint_sum os]
end

omit hadj in
theorem inner_sum_left (s : Finset Nat) (g : Nat → Nat → K) (y : Nat → K) :
    inner n (fun t => ∑ j ∈ s, g j t) y = ∑ j ∈ s, inner n (g j) y := by
  simp only [inner_eq, star_sum, Finset.sum_mul]
  rw [Finset.sum_comm]
omit hadj in
theorem inner_sum_right (s : Finset Nat) (g : Nat → Nat → K) (x : Nat → K) :
    inner n x (fun t => ∑ j ∈ s, g j t) = ∑ j ∈ s, inner n x (g j) := by
  simp only [inner_eq, Finset.mul_sum]
  rw [Finset.sum_comm]

/-- `Σ_i ⟨u_i, v_i⟩` on tuples of vectors -/
def innerL (n : Nat) (us vs : List (Nat → K)) : K := (List.zipWith (fun u v => inner n u v) us vs).sum

/-- adjoint identity for any rectangular grid of objects -/
theorem OpMat.app_adjoint (A : OpMat K) (xs ys : List (Nat → K))
    (hx : xs.length = A.ncols) (hy : ys.length = A.nrows) :
    innerL n (A.app Lf La xs) ys = innerL n xs (A.appH Lf La ys) := by
  unfold innerL
  rw [sum_zipWith_eq _ vzero vzero _ _ (by simp [hy]), sum_zipWith_eq _ vzero vzero _ _ (by simp [hx]),
    OpMat.length_app, hx]
  trans ∑ i ∈ range A.nrows, ∑ j ∈ range A.ncols,
      inner n (Obj.fwd Lf La (A.get i j) (xs.getD j vzero)) (ys.getD i vzero)
  · apply Finset.sum_congr rfl
    intro i hi
    rw [OpMat.getD_app Lf La A xs (Finset.mem_range.1 hi), inner_sum_left]
  · rw [Finset.sum_comm]
    apply Finset.sum_congr rfl
    intro j hj
    rw [OpMat.getD_appH Lf La A ys (Finset.mem_range.1 hj), inner_sum_right]
    apply Finset.sum_congr rfl
    intro i hi
    rw [Obj.adjoint_pair Lf La n hadj]

/-- **adjointness at matrix level**: `Σ_i ⟨(A x)_i, y_i⟩ = Σ_j ⟨x_j, (Aᴴ y)_j⟩` for the specification … -/
theorem denM_adjoint (hf : ∀ i, IsLin' (Lf i)) (ha : ∀ i, IsLin' (La i))
    (e : MExpr K) (A : OpMat K) (h : buildM e = some A) (xs ys : List (Nat → K))
    (hx : xs.length = A.ncols) (hy : ys.length = A.nrows) :
    innerL n (denM Lf La e xs) ys = innerL n xs (denHM Lf La e ys) := by
  have hI := inv_buildM Lf La hf ha e A h
  rw [hI.fwd xs hx, hI.adj ys hy]
  exact OpMat.app_adjoint Lf La n hadj A xs ys hx hy

/-- … and for what the library computes with `forward` / `adjoint` -/
theorem buildM_adjoint (hf : ∀ i, IsLin' (Lf i)) (ha : ∀ i, IsLin' (La i))
    (e : MExpr K) (A : OpMat K) (h : buildM e = some A) (xs ys us vs : List (Nat → K))
    (hx : xs.length = A.ncols) (hy : ys.length = A.nrows) (hnd : A.ncols ≠ 0 ∨ A.nrows = 0)
    (hu : A.fwd Lf La xs = some us) (hv : A.adj Lf La ys = some vs) :
    innerL n us ys = innerL n xs vs := by
  rw [fwdM_buildM_eq_denM Lf La hf ha e A h xs hx hnd] at hu
  rw [adjM_buildM_eq_denHM Lf La hf ha e A h ys hy hnd] at hv
  obtain rfl := Option.some.inj hu
  obtain rfl := Option.some.inj hv
  exact denM_adjoint Lf La n hadj hf ha e A h xs ys hx hy
end Entry


/-! ### the array evaluator refines the model -/
section RefineM

/-- both sides raise, or both return and the results are related -/
def OptRel {α β : Type} (R : α → β → Prop) : Option α → Option β → Prop
  | some a, some b => R a b
  | none, none => True
  | _, _ => False

theorem mapOpt_rel {α β γ : Type} (R : β → γ → Prop) (f : α → Option β) (g : α → Option γ) :
    ∀ l : List α, (∀ a ∈ l, OptRel R (f a) (g a)) → OptRel (List.Forall₂ R) (mapOpt f l) (mapOpt g l)
  | [], _ => by simp [mapOpt, OptRel]
  | a :: l, h => by
      have h1 := h a (by simp)
      have h2 := mapOpt_rel R f g l (fun b hb => h b (by simp [hb]))
      simp only [mapOpt]
      cases hfa : f a <;> cases hga : g a <;> rw [hfa, hga] at h1 <;>
        cases hfl : mapOpt f l <;> cases hgl : mapOpt g l <;> rw [hfl, hgl] at h2 <;>
        simp_all [OptRel]

theorem forall₂_zipWith {α β γ δ : Type} (R : γ → δ → Prop) (f : α → β → γ) (g : α → β → δ)
    (h : ∀ a b, R (f a b) (g a b)) :
    ∀ (l : List α) (m : List β), List.Forall₂ R (List.zipWith f l m) (List.zipWith g l m)
  | [], _ => by simp
  | _ :: _, [] => by simp
  | a :: l, b :: m => by
      simp only [List.zipWith_cons_cons]
      exact List.Forall₂.cons (h a b) (forall₂_zipWith R f g h l m)

theorem foldl_rel {α β : Type} (R : α → β → Prop) (fa : α → α → α) (fb : β → β → β)
    (hstep : ∀ a b a' b', R a b → R a' b' → R (fa a a') (fb b b')) :
    ∀ (la : List α) (lb : List β), List.Forall₂ R la lb → ∀ a b, R a b →
      R (la.foldl fa a) (lb.foldl fb b)
  | _, _, .nil, a, b, h => h
  | _, _, .cons h1 h2, a, b, h => by
      simp only [List.foldl_cons]
      exact foldl_rel R fa fb hstep _ _ h2 _ _ (hstep _ _ _ _ h h1)

theorem reduce1_rel {α β : Type} (R : α → β → Prop) (fa : α → α → α) (fb : β → β → β)
    (hstep : ∀ a b a' b', R a b → R a' b' → R (fa a a') (fb b b'))
    (la : List α) (lb : List β) (h : List.Forall₂ R la lb) :
    OptRel R (reduce1 fa la) (reduce1 fb lb) := by
  cases h with
  | nil => simp [reduce1, OptRel]
  | cons h1 h2 => simp only [reduce1, OptRel]; exact foldl_rel R fa fb hstep _ _ h2 _ _ h1

/-- the result tuples agree: same number of blocks, and the first `n` entries of every block -/
def AgreeL (n : Nat) (yas : List (Array K)) (ys : List (Nat → K)) : Prop :=
  List.Forall₂ (fun ya y => AgreeOn n (toFn ya) y) yas ys

variable (n : Nat) (LfA LaA : Nat → Array K → Array K) (Lf La : Nat → (Nat → K) → (Nat → K))
    (hf : ∀ l xa i, i < n → toFn (LfA l xa) i = Lf l (toFn xa) i)
    (ha : ∀ l xa i, i < n → toFn (LaA l xa) i = La l (toFn xa) i)
    (cf : ∀ l x x', (∀ j, j < n → x j = x' j) → ∀ i, i < n → Lf l x i = Lf l x' i)
    (ca : ∀ l x x', (∀ j, j < n → x j = x' j) → ∀ i, i < n → La l x i = La l x' i)
include hf ha cf ca

/-- **refinement**: `OpMat.fwdA` raises exactly when `OpMat.fwd` does, and otherwise returns the same
blocks (entries `< n`) -/
theorem OpMat.fwdA_refines (A : OpMat K) (xas : List (Array K)) :
    OptRel (AgreeL n) (A.fwdA n LfA LaA xas) (A.fwd Lf La (xas.map toFn)) := by
  unfold OpMat.fwdA OpMat.fwd
  rw [List.length_map]
  split
  · simp [OptRel]
  · apply mapOpt_rel
    intro row _
    unfold zipWithS
    rw [List.length_map]
    split
    · simp only [Option.bind_some]
      apply reduce1_rel
      · intro a b a' b' h h' i hi
        unfold addA
        rw [toFn_ofFnN _ hi, h i hi, h' i hi]
      · rw [List.zipWith_map_right]
        exact forall₂_zipWith (fun ya y => AgreeOn n (toFn ya) y)
          (fun o xa => Obj.fwdA n LfA LaA o xa) (fun o xa => Obj.fwd Lf La o (toFn xa))
          (fun o xa => Obj.fwdA_ref n LfA LaA Lf La hf ha cf ca o xa) row xas
    · simp [OptRel]

theorem OpMat.adjA_refines (A : OpMat K) (yas : List (Array K)) :
    OptRel (AgreeL n) (A.adjA n LfA LaA yas) (A.adj Lf La (yas.map toFn)) := by
  unfold OpMat.adjA OpMat.adj
  cases A.H with
  | none => simp [OptRel]
  | some B => exact OpMat.fwdA_refines n LfA LaA Lf La hf ha cf ca B yas
end RefineM

/-- **what the driver runs**: `evalProgram` on dense-matrix leaves raises exactly when the model
(`buildM`, then `OpMat.fwd / adj` on `matVec / matVecH` leaves) does, and otherwise agrees with it -/
theorem evalProgram_refines (n : Nat) (leaves : Nat → Nat → K) (prog : MExpr K) (adjoint : Bool)
    (xas : List (Array K)) :
    OptRel (AgreeL n) (evalProgram n leaves prog adjoint xas)
      ((buildM prog).bind fun A =>
        if adjoint then A.adj (fun l => matVec n (leaves l)) (fun l => matVecH n n (leaves l)) (xas.map toFn)
        else A.fwd (fun l => matVec n (leaves l)) (fun l => matVecH n n (leaves l)) (xas.map toFn)) := by
  obtain ⟨h1, h2, h3, h4⟩ := matLeaf_refines n leaves
  unfold evalProgram
  cases buildM prog with
  | none => simp [OptRel]
  | some A =>
    simp only [Option.bind_some]
    cases adjoint with
    | true =>
      simp only [if_true]
      exact OpMat.adjA_refines n _ _ _ _ h1 h2 h3 h4 A xas
    | false =>
      simp only [Bool.false_eq_true, if_false]
      exact OpMat.fwdA_refines n _ _ _ _ h1 h2 h3 h4 A xas

/-- end to end: for a program that builds, on the right number of inputs, the driver's result is the
block-matrix specification (`denM` forward, `denHM` adjoint) on dense-matrix leaves -/
theorem evalProgram_eq_spec (n : Nat) (leaves : Nat → Nat → K) (prog : MExpr K) (A : OpMat K)
    (h : buildM prog = some A) (adjoint : Bool) (xas : List (Array K))
    (hx : xas.length = if adjoint then A.nrows else A.ncols) (hnd : A.ncols ≠ 0 ∨ A.nrows = 0) :
    ∃ yas, evalProgram n leaves prog adjoint xas = some yas ∧
      AgreeL n yas (if adjoint
        then denHM (fun l => matVec n (leaves l)) (fun l => matVecH n n (leaves l)) prog (xas.map toFn)
        else denM (fun l => matVec n (leaves l)) (fun l => matVecH n n (leaves l)) prog (xas.map toFn)) := by
  have hr := evalProgram_refines n leaves prog adjoint xas
  obtain ⟨l1, l2, _⟩ := matVec_leaves n leaves
  rw [h, Option.bind_some] at hr
  cases adjoint with
  | true =>
    simp only [if_true] at hr hx ⊢
    rw [adjM_buildM_eq_denHM _ _ l1 l2 prog A h _ (by rw [List.length_map, hx]) hnd] at hr
    cases he : evalProgram n leaves prog true xas with
    | none => rw [he] at hr; exact absurd hr (by simp [OptRel])
    | some yas => rw [he] at hr; exact ⟨yas, rfl, hr⟩
  | false =>
    simp only [Bool.false_eq_true, if_false] at hr hx ⊢
    rw [fwdM_buildM_eq_denM _ _ l1 l2 prog A h _ (by rw [List.length_map, hx]) hnd] at hr
    cases he : evalProgram n leaves prog false xas with
    | none => rw [he] at hr; exact absurd hr (by simp [OptRel])
    | some yas => rw [he] at hr; exact ⟨yas, rfl, hr⟩


/-! ### `buildM` succeeds whenever the shapes fit -/
namespace OpMat

theorem matmulOp_isSome {A : OpMat K} (o : Obj K) (hA : A.WF) : ∃ C, A.matmulOp o = some C := by
  unfold matmulOp
  have hrow : ∀ i, i < A.nrows → (A.rows.map (fun row => row.map (fun op => Obj.matmul op o))).getD i []
      = (A.rows.getD i []).map (fun op => Obj.matmul op o) :=
    fun i hi => getD_map_lt _ _ i [] [] hi
  have := (of_lengths (OpMat.mk (A.rows.map (fun row => row.map (fun op => Obj.matmul op o)))) A.ncols
    (fun i hi => by
      have hi' : i < A.nrows := by simpa [nrows] using hi
      rw [hrow i hi', List.length_map, row_length hA hi'])).1
  exact ⟨_, ofRows_of_WF _ this⟩

theorem matmul_isSome {A B : OpMat K} (hA : A.WF) (hB : B.WF) (hm : A.ncols = B.nrows) :
    ∃ C, A.matmul B = some C := by
  unfold matmul
  rw [if_neg (by simpa using hm), zipStar_rows hB]
  simp only [Option.bind_some]
  rw [mapOpt_eq_some_map _ (fun row => ((List.range B.ncols).map
      (fun j => B.rows.map (fun r => r.getD j .zeroOp))).map (fun col =>
        foldPlus (List.zipWith Obj.matmul row col)))]
  · simp only [Option.bind_some]
    have hrow : ∀ i, i < A.nrows → (A.rows.map (fun row => ((List.range B.ncols).map
      (fun j => B.rows.map (fun r => r.getD j .zeroOp))).map (fun col =>
        foldPlus (List.zipWith Obj.matmul row col)))).getD i []
        = ((List.range B.ncols).map
      (fun j => B.rows.map (fun r => r.getD j .zeroOp))).map (fun col =>
        foldPlus (List.zipWith Obj.matmul (A.rows.getD i []) col)) :=
      fun i hi => getD_map_lt _ _ i [] [] hi
    have := (of_lengths (OpMat.mk (A.rows.map (fun row => ((List.range B.ncols).map
      (fun j => B.rows.map (fun r => r.getD j .zeroOp))).map (fun col =>
        foldPlus (List.zipWith Obj.matmul row col))))) B.ncols
      (fun i hi => by
        have hi' : i < A.nrows := by simpa [nrows] using hi
        rw [hrow i hi']; simp)).1
    exact ⟨_, ofRows_of_WF _ this⟩
  · intro row hrow
    apply mapOpt_eq_some_map
    intro col hcol
    obtain ⟨j, hj, rfl⟩ := List.mem_map.1 hcol
    rw [List.mem_range] at hj
    have hl : row.length = B.nrows := by rw [← hm]; exact hA row hrow
    unfold zipWithS
    rw [if_pos (by simp [hl, nrows])]
    simp only [Option.bind_some]
    apply reduce1_plus_ne_nil
    intro hnil
    have h1 := congrArg List.length hnil
    rw [List.length_zipWith, List.length_map, hl] at h1
    have h2 := nrows_pos_of_ncols hj
    unfold nrows at h1 h2
    rw [Nat.min_self, List.length_nil] at h1; omega

theorem add_isSome {A B : OpMat K} (hA : A.WF) (hB : B.WF) (hr : A.nrows = B.nrows)
    (hc : A.ncols = B.ncols) : ∃ C, A.add B = some C := by
  unfold add
  rw [if_neg (by simp [shape, hr, hc])]
  have hBr : B.rows.length = A.nrows := by rw [hr]; rfl
  have hrow : ∀ i, i < A.nrows →
      (List.zipWith (fun ra rb => List.zipWith Obj.plus ra rb) A.rows B.rows).getD i []
      = List.zipWith Obj.plus (A.rows.getD i []) (B.rows.getD i []) :=
    fun i hi => getD_zipWith_lt _ _ _ i [] [] [] hi (by rw [hBr]; exact hi)
  have := (of_lengths (OpMat.mk (List.zipWith (fun ra rb => List.zipWith Obj.plus ra rb) A.rows B.rows))
    A.ncols (fun i hi => by
      have hi' : i < A.nrows := by
        have : B.rows.length = A.rows.length := hBr
        simpa [nrows, this] using hi
      rw [hrow i hi', List.length_zipWith, row_length hA hi', row_length hB (by rw [← hr]; exact hi'), hc]
      simp)).1
  exact ⟨_, ofRows_of_WF _ this⟩

theorem onDiag_isSome (f : Obj K → Obj K) {A : OpMat K} (hA : A.WF) (hsq : A.nrows = A.ncols) :
    ∃ C, A.onDiag f = some C := by
  unfold onDiag
  rw [if_neg (by simpa using hsq)]
  have hrow : ∀ i, i < A.nrows →
      (A.rows.mapIdx (fun i row => row.mapIdx (fun j op => if i = j then f op else op))).getD i []
      = (A.rows.getD i []).mapIdx (fun j op => if i = j then f op else op) :=
    fun i hi => getD_mapIdx_lt _ _ i [] [] hi
  have := (of_lengths (OpMat.mk (A.rows.mapIdx (fun i row => row.mapIdx
      (fun j op => if i = j then f op else op)))) A.ncols (fun i hi => by
      have hi' : i < A.nrows := by simpa [nrows] using hi
      rw [hrow i hi', List.length_mapIdx, row_length hA hi'])).1
  exact ⟨_, ofRows_of_WF _ this⟩

theorem mulSeq_isSome (cs : List (Scal K)) {A : OpMat K} (hA : A.WF) (hcs : cs.length = A.ncols) :
    ∃ C, A.mulSeq cs = some C := by
  unfold mulSeq
  rw [if_neg (by simpa using hcs),
    mapOpt_eq_some_map _ (fun row => List.zipWith Obj.mul row cs)]
  · simp only [Option.bind_some]
    have hrow : ∀ i, i < A.nrows → (A.rows.map (fun row => List.zipWith Obj.mul row cs)).getD i []
        = List.zipWith Obj.mul (A.rows.getD i []) cs :=
      fun i hi => getD_map_lt _ _ i [] [] hi
    have := (of_lengths (OpMat.mk (A.rows.map (fun row => List.zipWith Obj.mul row cs))) A.ncols
      (fun i hi => by
        have hi' : i < A.nrows := by simpa [nrows] using hi
        rw [hrow i hi', List.length_zipWith, row_length hA hi', hcs]; simp)).1
    exact ⟨_, ofRows_of_WF _ this⟩
  · intro row hrow
    unfold zipWithS
    rw [if_pos (by rw [hA row hrow, hcs])]

theorem rmulSeq_isSome (cs : List (Scal K)) {A : OpMat K} (hA : A.WF) (hcs : cs.length = A.nrows) :
    ∃ C, A.rmulSeq cs = some C := by
  unfold rmulSeq zipWithS
  rw [if_neg (by simpa using hcs), if_pos (by rw [hcs]; rfl)]
  simp only [Option.bind_some]
  have hrow : ∀ i, i < A.nrows →
      (List.zipWith (fun row c => row.map (fun op => Obj.rmul c op)) A.rows cs).getD i []
      = (A.rows.getD i []).map (fun op => Obj.rmul (cs.getD i (.py 0)) op) :=
    fun i hi => getD_zipWith_lt _ _ _ i [] (Scal.py 0) [] hi (by rw [hcs]; exact hi)
  have := (of_lengths (OpMat.mk (List.zipWith (fun row c => row.map (fun op => Obj.rmul c op)) A.rows cs))
    A.ncols (fun i hi => by
      have hi' : i < A.nrows := by
        have : cs.length = A.rows.length := hcs
        simpa [nrows, this] using hi
      rw [hrow i hi', List.length_map, row_length hA hi'])).1
  exact ⟨_, ofRows_of_WF _ this⟩

theorem vstack_isSome {A B : OpMat K} (hA : A.WF) (hB : B.WF) (hc : A.ncols = B.ncols) :
    ∃ C, A.vstack B = some C := by
  unfold vstack
  rw [if_neg (by simpa using hc)]
  exact ⟨_, ofRows_of_WF _ (append_struct hA hB (Or.inr (Or.inr hc))).1⟩

theorem vstackOp_isSome {A : OpMat K} (o : Obj K) (hA : A.WF) (hd : A.nrows = 0 ∨ A.ncols = 1) :
    ∃ C, A.vstackOp o = some C := by
  unfold vstackOp
  have hle : ¬ A.ncols > 1 := by
    rcases hd with h | h
    · rw [ncols_eq_zero_of_nrows h]; omega
    · omega
  rw [if_neg hle]
  have hcd : A.nrows = 0 ∨ (OpMat.mk [[o]]).nrows = 0 ∨ A.ncols = (OpMat.mk [[o]]).ncols := by
    rcases hd with h | h
    · exact Or.inl h
    · exact Or.inr (Or.inr h)
  exact ⟨_, ofRows_of_WF _ (append_struct hA (single_WF o) hcd).1⟩

theorem opVstack_isSome {A : OpMat K} (o : Obj K) (hA : A.WF) (hd : A.nrows = 0 ∨ A.ncols = 1) :
    ∃ C, A.opVstack o = some C := by
  unfold opVstack
  have hle : ¬ A.ncols > 1 := by
    rcases hd with h | h
    · rw [ncols_eq_zero_of_nrows h]; omega
    · omega
  rw [if_neg hle]
  have hcd : (OpMat.mk [[o]]).nrows = 0 ∨ A.nrows = 0 ∨ (OpMat.mk [[o]]).ncols = A.ncols := by
    rcases hd with h | h
    · exact Or.inr (Or.inl h)
    · exact Or.inr (Or.inr h.symm)
  exact ⟨_, ofRows_of_WF _ (append_struct (single_WF o) hA hcd).1⟩

theorem hstack_isSome {A B : OpMat K} (hA : A.WF) (hB : B.WF) (hr : A.nrows = B.nrows) :
    ∃ C, A.hstack B = some C := by
  unfold hstack zipWithS
  rw [if_neg (by simpa using hr), if_pos (show A.rows.length = B.rows.length from hr)]
  simp only [Option.bind_some]
  have hrow : ∀ i, i < A.nrows → (List.zipWith (fun ra rb => ra ++ rb) A.rows B.rows).getD i []
      = A.rows.getD i [] ++ B.rows.getD i [] :=
    fun i hi => getD_zipWith_lt _ _ _ i [] [] [] hi (by rw [← nrows, ← hr]; exact hi)
  have := (of_lengths (OpMat.mk (List.zipWith (fun ra rb => ra ++ rb) A.rows B.rows))
    (A.ncols + B.ncols) (fun i hi => by
      have hi' : i < A.nrows := by
        have : B.rows.length = A.rows.length := hr.symm
        simpa [nrows, this] using hi
      rw [hrow i hi', List.length_append, row_length hA hi', row_length hB (hr ▸ hi')])).1
  exact ⟨_, ofRows_of_WF _ this⟩

theorem rows_of_nrows_one {A : OpMat K} (h : A.nrows = 1) : ∃ r, A.rows = [r] :=
  List.length_eq_one_iff.1 h

theorem hstackOp_isSome {A : OpMat K} (o : Obj K) (h1 : A.nrows = 1) : ∃ C, A.hstackOp o = some C := by
  obtain ⟨r, hr⟩ := rows_of_nrows_one h1
  unfold hstackOp
  rw [if_neg (by omega), hr]
  exact ⟨_, ofRows_of_WF _ (by intro r' hr'; simp at hr'; subst hr'; rfl)⟩

theorem opHstack_isSome {A : OpMat K} (o : Obj K) (h1 : A.nrows = 1) : ∃ C, A.opHstack o = some C := by
  obtain ⟨r, hr⟩ := rows_of_nrows_one h1
  unfold opHstack
  rw [if_neg (by omega), hr]
  exact ⟨_, ofRows_of_WF _ (by intro r' hr'; simp at hr'; subst hr'; rfl)⟩

theorem getitemM_isSome {A : OpMat K} (hA : A.WF) (ri ci : Idx) (rn cn : List Nat)
    (hr : ri.resolve A.nrows = some rn) (hc : ci.resolve A.ncols = some cn)
    (hne : ¬ (rn.length = 1 ∧ cn.length = 1)) : ∃ C, A.getitemM ri ci = some C := by
  unfold Idx.resolve at hr hc
  cases hrn : ri.numeric A.nrows with
  | none => rw [hrn] at hr; simp at hr
  | some rn0 =>
  cases hcn : ci.numeric A.ncols with
  | none => rw [hcn] at hc; simp at hc
  | some cn0 =>
  rw [hrn] at hr; rw [hcn] at hc
  simp only [Option.map_some, Option.some.injEq] at hr hc
  subst hr; subst hc
  have hg := getitem_eq hA ri ci rn0 cn0 hrn hcn
  simp only at hg
  rw [if_neg (by simpa using hne)] at hg
  have hrow : ∀ i, i < (rn0.map (normIdx A.nrows)).length →
      ((rn0.map (normIdx A.nrows)).map
        (fun i => (cn0.map (normIdx A.ncols)).map (fun j => A.get i j))).getD i []
      = (cn0.map (normIdx A.ncols)).map (fun j => A.get ((rn0.map (normIdx A.nrows)).getD i 0) j) :=
    fun i hi => getD_map_lt _ _ i 0 [] hi
  have := (of_lengths (OpMat.mk ((rn0.map (normIdx A.nrows)).map
        (fun i => (cn0.map (normIdx A.ncols)).map (fun j => A.get i j))))
    (cn0.map (normIdx A.ncols)).length (fun i hi => by
      have hi' : i < (rn0.map (normIdx A.nrows)).length := by simpa [nrows] using hi
      rw [hrow i hi']; simp)).1
  unfold getitemM
  rw [hg, ofRows_of_WF _ this]
  exact ⟨_, rfl⟩
end OpMat

theorem shapeM_isSome (e : MExpr K) : ∀ s, shapeM e = some s → ∃ A, buildM e = some A := by
  induction e with
  | lit rows =>
    intro s h
    simp only [shapeM] at h
    split at h
    · next hr =>
      simp only [buildM]
      unfold OpMat.ofRows
      rw [rect_map_map, hr]
      exact ⟨_, rfl⟩
    · exact absurd h (by simp)
  | fromDiag ops =>
    intro s _
    simp only [buildM]
    obtain ⟨C, hC⟩ := Option.isSome_iff_exists.1 (OpMat.fromDiagonal_isSome (ops.map build))
    exact ⟨C, hC⟩
  | matmul a b iha ihb =>
    intro s h
    simp only [shapeM] at h
    split at h
    · next r c r' c' ha hb =>
      obtain ⟨A, hA⟩ := iha _ ha
      obtain ⟨B, hB⟩ := ihb _ hb
      have sa := buildM_shape a A hA
      have sb := buildM_shape b B hB
      rw [ha] at sa; rw [hb] at sb
      simp only [OpMat.shape, Option.some.injEq, Prod.mk.injEq] at sa sb
      split at h
      · next hm =>
        obtain ⟨C, hC⟩ := OpMat.matmul_isSome (buildM_WF a A hA) (buildM_WF b B hB)
          (by rw [← sa.2, ← sb.1]; exact hm)
        exact ⟨C, by simp only [buildM, hA, hB, Option.bind_some]; exact hC⟩
      · exact absurd h (by simp)
    · exact absurd h (by simp)
  | matmulOp a o iha =>
    intro s h
    simp only [shapeM] at h
    obtain ⟨A, hA⟩ := iha _ h
    obtain ⟨C, hC⟩ := OpMat.matmulOp_isSome (build o) (buildM_WF a A hA)
    exact ⟨C, by simp only [buildM, hA, Option.bind_some]; exact hC⟩
  | add a b iha ihb =>
    intro s h
    simp only [shapeM] at h
    split at h
    · next sa' sb' ha hb =>
      obtain ⟨A, hA⟩ := iha _ ha
      obtain ⟨B, hB⟩ := ihb _ hb
      have sa := buildM_shape a A hA
      have sb := buildM_shape b B hB
      rw [ha] at sa; rw [hb] at sb
      simp only [Option.some.injEq] at sa sb
      split at h
      · next hm =>
        have : A.shape = B.shape := by rw [← sa, ← sb, hm]
        simp only [OpMat.shape, Prod.mk.injEq] at this
        obtain ⟨C, hC⟩ := OpMat.add_isSome (buildM_WF a A hA) (buildM_WF b B hB) this.1 this.2
        exact ⟨C, by simp only [buildM, hA, hB, Option.bind_some]; exact hC⟩
      · exact absurd h (by simp)
    · exact absurd h (by simp)
  | addOp a o iha =>
    intro s h
    simp only [shapeM] at h
    cases ha : shapeM a with
    | none => rw [ha] at h; simp at h
    | some sa' =>
      rw [ha] at h
      obtain ⟨A, hA⟩ := iha _ ha
      have sa := buildM_shape a A hA
      rw [ha] at sa
      simp only [Option.some.injEq] at sa
      subst sa
      simp only [Option.bind_some] at h
      split at h
      · next hsq =>
        obtain ⟨C, hC⟩ := OpMat.onDiag_isSome (fun op => Obj.plus op (build o)) (buildM_WF a A hA) hsq
        exact ⟨C, by simp only [buildM, hA, Option.bind_some]; exact hC⟩
      · exact absurd h (by simp)
  | addT a d iha =>
    intro s h
    have key : ∀ d' : Scal K, (∀ c, d' ≠ .py c) →
        (shapeM a).bind (fun s => if s.1 = s.2 then some s else none) = some s →
        ∃ C, (buildM a).bind (fun A => A.onDiag (fun op => Obj.plusT op d')) = some C := by
      intro d' _ h
      cases ha : shapeM a with
      | none => rw [ha] at h; simp at h
      | some sa' =>
        rw [ha] at h
        obtain ⟨A, hA⟩ := iha _ ha
        have sa := buildM_shape a A hA
        rw [ha] at sa
        simp only [Option.some.injEq] at sa
        subst sa
        simp only [Option.bind_some] at h
        split at h
        · next hsq =>
          obtain ⟨C, hC⟩ := OpMat.onDiag_isSome (fun op => Obj.plusT op d') (buildM_WF a A hA) hsq
          exact ⟨C, by simp only [hA, Option.bind_some]; exact hC⟩
        · exact absurd h (by simp)
    cases d with
    | py c => simp [shapeM] at h
    | t1 c => exact key (.t1 c) (fun c h => by cases h) h
    | tn c => exact key (.tn c) (fun c h => by cases h) h
  | rmul c a iha =>
    intro s h
    simp only [shapeM] at h
    obtain ⟨A, hA⟩ := iha _ h
    obtain ⟨C, hC⟩ := OpMat.rmulSeq_isSome (List.replicate A.nrows c) (buildM_WF a A hA) (by simp)
    exact ⟨C, by simp only [buildM, hA, Option.bind_some]; exact hC⟩
  | rmulSeq cs a iha =>
    intro s h
    simp only [shapeM] at h
    cases ha : shapeM a with
    | none => rw [ha] at h; simp at h
    | some sa' =>
      rw [ha] at h
      obtain ⟨A, hA⟩ := iha _ ha
      have sa := buildM_shape a A hA
      rw [ha] at sa
      simp only [Option.some.injEq] at sa
      subst sa
      simp only [Option.bind_some] at h
      split at h
      · next hl =>
        obtain ⟨C, hC⟩ := OpMat.rmulSeq_isSome cs (buildM_WF a A hA) hl
        exact ⟨C, by simp only [buildM, hA, Option.bind_some]; exact hC⟩
      · exact absurd h (by simp)
  | mul a c iha =>
    intro s h
    simp only [shapeM] at h
    obtain ⟨A, hA⟩ := iha _ h
    obtain ⟨C, hC⟩ := OpMat.mulSeq_isSome (List.replicate A.ncols c) (buildM_WF a A hA) (by simp)
    exact ⟨C, by simp only [buildM, hA, Option.bind_some]; exact hC⟩
  | mulSeq a cs iha =>
    intro s h
    simp only [shapeM] at h
    cases ha : shapeM a with
    | none => rw [ha] at h; simp at h
    | some sa' =>
      rw [ha] at h
      obtain ⟨A, hA⟩ := iha _ ha
      have sa := buildM_shape a A hA
      rw [ha] at sa
      simp only [Option.some.injEq] at sa
      subst sa
      simp only [Option.bind_some] at h
      split at h
      · next hl =>
        obtain ⟨C, hC⟩ := OpMat.mulSeq_isSome cs (buildM_WF a A hA) hl
        exact ⟨C, by simp only [buildM, hA, Option.bind_some]; exact hC⟩
      · exact absurd h (by simp)
  | H a iha =>
    intro s h
    simp only [shapeM] at h
    cases ha : shapeM a with
    | none => rw [ha] at h; simp at h
    | some sa' =>
      obtain ⟨A, hA⟩ := iha _ ha
      obtain ⟨C, hC⟩ := OpMat.H_isSome (buildM_WF a A hA)
      exact ⟨C, by simp only [buildM, hA, Option.bind_some]; exact hC⟩
  | getitem a ri ci iha =>
    intro s h
    simp only [shapeM] at h
    cases ha : shapeM a with
    | none => rw [ha] at h; simp at h
    | some sa' =>
      rw [ha] at h
      obtain ⟨A, hA⟩ := iha _ ha
      have sa := buildM_shape a A hA
      rw [ha] at sa
      simp only [Option.some.injEq] at sa
      subst sa
      simp only [Option.bind_some, OpMat.shape] at h
      cases hr : ri.resolve A.nrows with
      | none => rw [hr] at h; simp at h
      | some rn =>
      cases hc : ci.resolve A.ncols with
      | none => rw [hr, hc] at h; simp at h
      | some cn =>
        rw [hr, hc] at h
        simp only [Option.bind_some] at h
        split at h
        · exact absurd h (by simp)
        · next hne =>
          obtain ⟨C, hC⟩ := OpMat.getitemM_isSome (buildM_WF a A hA) ri ci rn cn hr hc hne
          exact ⟨C, by simp only [buildM, hA, Option.bind_some]; exact hC⟩
  | vstack a b iha ihb =>
    intro s h
    simp only [shapeM] at h
    split at h
    · next r c r' c' ha hb =>
      obtain ⟨A, hA⟩ := iha _ ha
      obtain ⟨B, hB⟩ := ihb _ hb
      have sa := buildM_shape a A hA
      have sb := buildM_shape b B hB
      rw [ha] at sa; rw [hb] at sb
      simp only [OpMat.shape, Option.some.injEq, Prod.mk.injEq] at sa sb
      split at h
      · next hm =>
        obtain ⟨C, hC⟩ := OpMat.vstack_isSome (buildM_WF a A hA) (buildM_WF b B hB)
          (by rw [← sa.2, ← sb.2]; exact hm)
        exact ⟨C, by simp only [buildM, hA, hB, Option.bind_some]; exact hC⟩
      · exact absurd h (by simp)
    · exact absurd h (by simp)
  | vstackOp a o iha =>
    intro s h
    simp only [shapeM] at h
    cases ha : shapeM a with
    | none => rw [ha] at h; simp at h
    | some sa' =>
      rw [ha] at h
      obtain ⟨A, hA⟩ := iha _ ha
      have sa := buildM_shape a A hA
      rw [ha] at sa
      simp only [Option.some.injEq] at sa
      subst sa
      simp only [Option.bind_some, OpMat.shape] at h
      split at h
      · next hd =>
        obtain ⟨C, hC⟩ := OpMat.vstackOp_isSome (build o) (buildM_WF a A hA) hd
        exact ⟨C, by simp only [buildM, hA, Option.bind_some]; exact hC⟩
      · exact absurd h (by simp)
  | opVstack o a iha =>
    intro s h
    simp only [shapeM] at h
    cases ha : shapeM a with
    | none => rw [ha] at h; simp at h
    | some sa' =>
      rw [ha] at h
      obtain ⟨A, hA⟩ := iha _ ha
      have sa := buildM_shape a A hA
      rw [ha] at sa
      simp only [Option.some.injEq] at sa
      subst sa
      simp only [Option.bind_some, OpMat.shape] at h
      split at h
      · next hd =>
        obtain ⟨C, hC⟩ := OpMat.opVstack_isSome (build o) (buildM_WF a A hA) hd
        exact ⟨C, by simp only [buildM, hA, Option.bind_some]; exact hC⟩
      · exact absurd h (by simp)
  | hstack a b iha ihb =>
    intro s h
    simp only [shapeM] at h
    split at h
    · next r c r' c' ha hb =>
      obtain ⟨A, hA⟩ := iha _ ha
      obtain ⟨B, hB⟩ := ihb _ hb
      have sa := buildM_shape a A hA
      have sb := buildM_shape b B hB
      rw [ha] at sa; rw [hb] at sb
      simp only [OpMat.shape, Option.some.injEq, Prod.mk.injEq] at sa sb
      split at h
      · next hm =>
        obtain ⟨C, hC⟩ := OpMat.hstack_isSome (buildM_WF a A hA) (buildM_WF b B hB)
          (by rw [← sa.1, ← sb.1]; exact hm)
        exact ⟨C, by simp only [buildM, hA, hB, Option.bind_some]; exact hC⟩
      · exact absurd h (by simp)
    · exact absurd h (by simp)
  | hstackOp a o iha =>
    intro s h
    simp only [shapeM] at h
    cases ha : shapeM a with
    | none => rw [ha] at h; simp at h
    | some sa' =>
      rw [ha] at h
      obtain ⟨A, hA⟩ := iha _ ha
      have sa := buildM_shape a A hA
      rw [ha] at sa
      simp only [Option.some.injEq] at sa
      subst sa
      simp only [Option.bind_some, OpMat.shape] at h
      split at h
      · next hd =>
        obtain ⟨C, hC⟩ := OpMat.hstackOp_isSome (build o) hd
        exact ⟨C, by simp only [buildM, hA, Option.bind_some]; exact hC⟩
      · exact absurd h (by simp)
  | opHstack o a iha =>
    intro s h
    simp only [shapeM] at h
    cases ha : shapeM a with
    | none => rw [ha] at h; simp at h
    | some sa' =>
      rw [ha] at h
      obtain ⟨A, hA⟩ := iha _ ha
      have sa := buildM_shape a A hA
      rw [ha] at sa
      simp only [Option.some.injEq] at sa
      subst sa
      simp only [Option.bind_some, OpMat.shape] at h
      split at h
      · next hd =>
        obtain ⟨C, hC⟩ := OpMat.opHstack_isSome (build o) hd
        exact ⟨C, by simp only [buildM, hA, Option.bind_some]; exact hC⟩
      · exact absurd h (by simp)

/-- `buildM` succeeds exactly when the shapes fit: `shapeM` is `some` iff `buildM` is, and then
it is the shape of the matrix -/
theorem buildM_isSome_iff (e : MExpr K) : (buildM e).isSome ↔ (shapeM e).isSome := by
  constructor
  · intro h
    obtain ⟨A, hA⟩ := Option.isSome_iff_exists.1 h
    rw [buildM_shape e A hA]; rfl
  · intro h
    obtain ⟨s, hs⟩ := Option.isSome_iff_exists.1 h
    obtain ⟨A, hA⟩ := shapeM_isSome e s hs
    rw [hA]; rfl

/-! ### non-vacuity -/
namespace OpMatrixExamples

/-- leaves: `0 ↦ [[1,2],[3,4]]`, `1 ↦ [[0,1],[1,0]]`, `2 ↦ [[2,0],[0,3]]` (row-major) -/
def lv : Nat → Nat → Int
  | 0, k => [1, 2, 3, 4].getD k 0
  | 1, k => [0, 1, 1, 0].getD k 0
  | 2, k => [2, 0, 0, 3].getD k 0
  | _, _ => 0

/-- the 2×2 operator matrix `[[L0, L1], [ZeroOp, L2]]` -/
def P : MExpr Int := .lit [[.leaf 0, .leaf 1], [.zero, .leaf 2]]

-- forward: (L0 x0 + L1 x1, L2 x1) with x0 = (1,1), x1 = (1,2)
example : evalProgram 2 lv P false [#[1, 1], #[1, 2]] = some [#[5, 8], #[2, 6]] := by decide +kernel
-- adjoint: (L0ᴴ y0, L1ᴴ y0 + L2ᴴ y1)
example : evalProgram 2 lv P true [#[1, 1], #[1, 2]] = some [#[4, 6], #[3, 7]] := by decide +kernel
-- the specification gives the same blocks
example : specProgram 2 lv P false [#[1, 1], #[1, 2]] = [#[5, 8], #[2, 6]] := by decide +kernel
example : specProgram 2 lv P true [#[1, 1], #[1, 2]] = [#[4, 6], #[3, 7]] := by decide +kernel
-- products, `.H`, scaling by a sequence, `from_diagonal`, `|`: object graph and specification agree
example : evalProgram 2 lv (.matmul P (.H P)) true [#[1, 1], #[1, 2]] = some [#[23, 39], #[6, 21]] := by
  decide +kernel
example : specProgram 2 lv (.matmul P (.H P)) true [#[1, 1], #[1, 2]] = [#[23, 39], #[6, 21]] := by
  decide +kernel
example : evalProgram 2 lv (.hstack P (.rmulSeq [.py 2, .py 0] (.fromDiag [.leaf 0, .ident]))) false
    [#[1, 1], #[1, 2], #[1, 0], #[0, 1]] = some [#[7, 14], #[2, 6]] := by decide +kernel
example : specProgram 2 lv (.hstack P (.rmulSeq [.py 2, .py 0] (.fromDiag [.leaf 0, .ident]))) false
    [#[1, 1], #[1, 2], #[1, 0], #[0, 1]] = [#[7, 14], #[2, 6]] := by decide +kernel
-- `__getitem__` with repeated and negative indices
example : evalShape (.getitem P (.seq [0, 0, 1]) (.int (-1))) = some (3, 1) := by decide +kernel
example : evalProgram 2 lv (.getitem P (.seq [0, 0, 1]) (.seq [1, 1])) true [#[1, 1], #[1, 2], #[3, 4]]
    = some [#[9, 14], #[9, 14]] := by decide +kernel
example : evalEntry 2 lv P (.int 0) (.int (-2)) false #[1, 1] = some #[3, 7] := by decide +kernel
-- rejections: shape mismatch in `@`, `reduce` of an empty row, slice start out of range, `A + 2`
example : evalShape (.matmul P (.lit [[.ident]])) = none := by decide +kernel
example : evalProgram 2 lv (.lit [[], []]) false [] = none := by decide +kernel
example : evalProgram 2 lv (.lit [[], []]) true [] = some [] := by decide +kernel
example : evalShape (.getitem P (.slice (some 2) none) .all) = none := by decide +kernel
example : evalShape (.addT P (.py 2)) = none := by decide +kernel
-- the element-level shortcuts are used: `from_diagonal(I, I) @ from_diagonal(I, I)` is built with the
-- operators' own `@` and `+`, so it is again `[[I, ZeroOp], [ZeroOp, I]]` (no `LinearOperatorSum` at all)
example : (buildM (.matmul (.fromDiag [.ident, .ident]) (.fromDiag [.ident, .ident]) : MExpr Int)).map
    (fun A => A.rows) = some [[.identity, .zeroOp], [.zeroOp, .identity]] := rfl
-- a genuine sum keeps the fold order and flattening of `reduce(operator.add, …)`: `(L0 L0 + L1 L0) + L2 L0`
example : (buildM (.matmul (.lit [[.leaf 0, .leaf 1, .leaf 2]]) (.lit [[.leaf 0], [.leaf 0], [.leaf 0]])
      : MExpr Int)).map (fun A => A.rows)
    = some [[.sum [.composition (.leaf 0) (.leaf 0), .composition (.leaf 1) (.leaf 0),
                   .composition (.leaf 2) (.leaf 0)]]] := rfl

/-- the main theorems apply to dense-matrix leaves over any commutative star ring -/
example {K : Type} [CommRing K] [StarRing K] [DecidableEq K] (n : Nat) (L : Nat → Nat → K)
    (e : MExpr K) (A : OpMat K) (h : buildM e = some A) (xs : List (Nat → K))
    (hx : xs.length = A.ncols) (hnd : A.ncols ≠ 0 ∨ A.nrows = 0) :
    A.fwd (fun l => matVec n (L l)) (fun l => matVecH n n (L l)) xs
      = some (denM (fun l => matVec n (L l)) (fun l => matVecH n n (L l)) e xs) :=
  fwdM_buildM_eq_denM _ _ (matVec_leaves n L).1 (matVec_leaves n L).2.1 e A h xs hx hnd
end OpMatrixExamples

end M
