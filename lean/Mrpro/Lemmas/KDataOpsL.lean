import Mrpro.Model.KDataOps
import Mathlib.Data.List.Basic
import Mathlib.Tactic.Linarith
/-! Proofs for `Mrpro/Props/C15.lean`. -/
namespace M
open Grid
variable {α β : Type}

theorem gather_map (f : α → β) (xs : List α) (idx : List Nat) :
    gather (xs.map f) idx = (gather xs idx).map f := by
  simp only [gather, List.getElem?_map, List.map_filterMap]

theorem mem_gather (xs : List α) (idx : List Nat) (a : α) (h : a ∈ gather xs idx) : a ∈ xs := by
  simp only [gather, List.mem_filterMap] at h
  obtain ⟨i, _, hi⟩ := h
  exact List.mem_of_getElem? hi

theorem mem_toFlat (g : Grid α) (a : α) :
    a ∈ g.toFlat ↔ ∃ o ∈ g, ∃ row ∈ o, a ∈ row := by
  simp only [toFlat, List.mem_flatten]
  constructor
  · rintro ⟨row, ⟨o, ho, hrow⟩, ha⟩
    exact ⟨o, ho, row, hrow, ha⟩
  · rintro ⟨o, ho, row, hrow, ha⟩
    exact ⟨row, ⟨o, ho, hrow⟩, ha⟩

theorem splitK1_natural (f : α → β) (g : Grid α) (sidx : List (List Nat)) :
    splitK1 (Grid.map f g) sidx = Grid.map f (splitK1 g sidx) := by
  unfold splitK1 Grid.map
  rw [List.flatMap_map, List.map_flatMap]
  congr 1
  funext o
  simp only [List.map_map]
  congr 1
  funext win
  simp only [Function.comp_def, List.map_map, gather_map]
theorem splitK2_natural (f : α → β) (g : Grid α) (sidx : List (List Nat)) :
    splitK2 (Grid.map f g) sidx = Grid.map f (splitK2 g sidx) := by
  unfold splitK2 Grid.map
  rw [List.flatMap_map, List.map_flatMap]
  congr 1
  funext o
  simp only [List.map_map]
  congr 1
  funext win
  simp only [Function.comp_def, gather_map]
theorem selectOther_natural (f : α → β) (g : Grid α) (labelOf subset : List Nat) :
    selectOther (Grid.map f g) labelOf subset = Grid.map f (selectOther g labelOf subset) := by
  unfold selectOther Grid.map
  exact gather_map _ _ _
theorem mergeK2K1_natural (f : α → β) (g : Grid α) : mergeK2K1 (Grid.map f g) = Grid.map f (mergeK2K1 g) := by
  unfold mergeK2K1 Grid.map
  rw [List.map_map, List.map_map]
  congr 1
  funext o
  simp only [Function.comp_def, List.map_cons, List.map_nil, List.map_flatten]
theorem splitK1_subset (g : Grid α) (sidx : List (List Nat)) (a : α) (h : a ∈ (splitK1 g sidx).toFlat) : a ∈ g.toFlat := by
  rw [mem_toFlat] at h ⊢
  obtain ⟨o', ho', row', hrow', ha⟩ := h
  simp only [splitK1, List.mem_flatMap, List.mem_map] at ho'
  obtain ⟨o, ho, win, _, rfl⟩ := ho'
  simp only [List.mem_map] at hrow'
  obtain ⟨row, hrow, rfl⟩ := hrow'
  exact ⟨o, ho, row, hrow, mem_gather _ _ _ ha⟩
theorem splitK2_subset (g : Grid α) (sidx : List (List Nat)) (a : α) (h : a ∈ (splitK2 g sidx).toFlat) : a ∈ g.toFlat := by
  rw [mem_toFlat] at h ⊢
  obtain ⟨o', ho', row', hrow', ha⟩ := h
  simp only [splitK2, List.mem_flatMap, List.mem_map] at ho'
  obtain ⟨o, ho, win, _, rfl⟩ := ho'
  exact ⟨o, ho, row', mem_gather _ _ _ hrow', ha⟩
theorem selectOther_subset (g : Grid α) (labelOf subset : List Nat) (a : α) (h : a ∈ (selectOther g labelOf subset).toFlat) :
    a ∈ g.toFlat := by
  rw [mem_toFlat] at h ⊢
  obtain ⟨o, ho, row, hrow, ha⟩ := h
  exact ⟨o, mem_gather _ _ _ ho, row, hrow, ha⟩
theorem mergeK2K1_flat (g : Grid α) : (mergeK2K1 g).toFlat = g.toFlat := by
  unfold mergeK2K1 toFlat
  induction g with
  | nil => rfl
  | cons o t ih =>
    simp only [List.map_cons, List.flatten_cons, List.flatten_append, List.singleton_append,
      ] at ih ⊢
    rw [ih]
theorem splitIdx_window (idx : List Nat) (size overlap : Nat) (s : Nat) (w : List Nat)
    (h : (splitIdx idx size overlap false)[s]? = some w) :
    w = (idx.drop (s * (size - overlap))).take size ∧ w.length = size := by
  unfold splitIdx at h
  simp only [Bool.false_eq_true, if_false] at h
  split at h
  · simp at h
  · rename_i hg
    have hle : size ≤ idx.length := by
      by_contra hlt
      exact hg (Or.inr (Or.inr (Nat.lt_of_not_le hlt)))
    have hstep : 0 < size - overlap := Nat.pos_of_ne_zero (fun h0 => hg (Or.inr (Or.inl h0)))
    rw [List.getElem?_eq_some_iff] at h
    obtain ⟨hlt, hw⟩ := h
    simp only [List.length_map, List.length_range] at hlt
    simp only [List.getElem_map, List.getElem_range] at hw
    subst hw
    refine ⟨rfl, ?_⟩
    have h1 : s ≤ (idx.length - size) / (size - overlap) := Nat.lt_succ_iff.mp hlt
    have h2 : s * (size - overlap) ≤ idx.length - size :=
      le_trans (Nat.mul_le_mul_right _ h1) (Nat.div_mul_le_self _ _)
    rw [List.length_take, List.length_drop]
    omega
theorem windows_flatten (size : Nat) : ∀ (m : Nat) (l : List Nat), l.length = size * m →
    ((List.range m).map (fun s => (l.drop (s * size)).take size)).flatten = l
  | 0, l, h => by
    have : l = [] := List.eq_nil_of_length_eq_zero (by simpa using h)
    simp [this]
  | m+1, l, h => by
    rw [List.range_succ_eq_map, List.map_cons, List.flatten_cons, List.map_map]
    have ih := windows_flatten size m (l.drop size) (by simp [h, Nat.mul_succ])
    have hf : ((fun s => List.take size (List.drop (s * size) l)) ∘ Nat.succ)
        = fun s => List.take size (List.drop (s * size) (l.drop size)) := by
      funext s
      simp only [Function.comp_def, List.drop_drop, Nat.succ_mul]
      rw [Nat.add_comm]
    rw [hf, ih]
    simp
theorem splitIdx_partition (n size : Nat) (hs : 0 < size) (hd : size ∣ n) :
    (splitIdx (List.range n) size 0 false).flatten = List.range n := by
  obtain ⟨m, rfl⟩ := hd
  unfold splitIdx
  simp only [Bool.false_eq_true, if_false, Nat.sub_zero, List.length_range]
  cases m with
  | zero =>
    simp [hs]
  | succ m =>
    have hge : ¬ (size = 0 ∨ size = 0 ∨ size * (m + 1) < size) := by
      rintro (h | h | h)
      · omega
      · omega
      · have : size ≤ size * (m + 1) := Nat.le_mul_of_pos_right _ (Nat.succ_pos m)
        omega
    rw [if_neg hge]
    have hcount : (size * (m + 1) - size) / size + 1 = m + 1 := by
      rw [Nat.mul_succ, Nat.add_sub_cancel, Nat.mul_div_cancel_left _ hs]
    rw [hcount]
    exact windows_flatten size (m + 1) _ (by simp)
theorem splitLabel_shape (nOther : Nat) (sidx : List (List Nat)) (k2 k1 : Nat) :
    (splitLabel nOther sidx k2 k1).length = nOther * sidx.length := by
  unfold splitLabel
  induction nOther with
  | zero => simp
  | succ n ih =>
    rw [List.range_succ, List.flatMap_append, List.length_append, ih]
    simp [Nat.succ_mul]
end M
