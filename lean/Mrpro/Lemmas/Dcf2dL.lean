import Mrpro.Model.Dcf2d
import Mathlib.Data.List.Sort
import Mathlib.Data.List.Perm.Basic
import Mathlib.Data.List.Count
import Mathlib.Data.Rat.Floor
import Mathlib.Algebra.Order.Field.Basic
import Mathlib.Algebra.Order.AbsoluteValue.Basic
import Mathlib.Algebra.BigOperators.Group.List.Basic
import Mathlib.Algebra.BigOperators.Ring.List
import Mathlib.Algebra.Order.BigOperators.Group.List
import Mathlib.Tactic.Ring
import Mathlib.Tactic.FieldSimp
import Mathlib.Tactic.Linarith
import Mathlib.Tactic.Positivity
import Mathlib.Tactic.NormNum
/-! Proofs about the glue code of `dcf_2d3d_voronoi` (`Mrpro/Model/Dcf2d.lean`): everything that does not
depend on qhull.  The Voronoi volumes of the unique positions are an input. -/
namespace M

/-! ### insertion sort = Mathlib's `insertionSort` -/

theorem insertBy_eq {α : Type} (le : α → α → Bool) (a : α) (l : List α) :
    insertBy le a l = l.orderedInsert (fun x y => le x y = true) a := by
  induction l with
  | nil => rfl
  | cons b bs ih => simp [insertBy, ih]

theorem isortBy_eq {α : Type} (le : α → α → Bool) (l : List α) :
    isortBy le l = l.insertionSort (fun x y => le x y = true) := by
  induction l with
  | nil => rfl
  | cons b bs ih => simp [isortBy, ih, insertBy_eq]

theorem isortBy_perm {α : Type} (le : α → α → Bool) (l : List α) : (isortBy le l).Perm l := by
  rw [isortBy_eq]; exact List.perm_insertionSort _ l

theorem isortBy_pairwise {α : Type} (le : α → α → Bool)
    (htot : ∀ a b, le a b = true ∨ le b a = true)
    (htr : ∀ a b c, le a b = true → le b c = true → le a c = true) (l : List α) :
    (isortBy le l).Pairwise (fun x y => le x y = true) := by
  rw [isortBy_eq]
  have : Std.Total (fun x y => le x y = true) := ⟨htot⟩
  have : IsTrans α (fun x y => le x y = true) := ⟨htr⟩
  exact List.pairwise_insertionSort _ l

/-- a sorted permutation is unique -/
theorem isortBy_congr_perm {α : Type} (le : α → α → Bool)
    (htot : ∀ a b, le a b = true ∨ le b a = true)
    (htr : ∀ a b c, le a b = true → le b c = true → le a c = true)
    (has : ∀ a b, le a b = true → le b a = true → a = b) {l l' : List α} (h : l.Perm l') :
    isortBy le l = isortBy le l' := by
  have : Std.Antisymm (fun x y => le x y = true) := ⟨has⟩
  exact List.Perm.eq_of_pairwise' (isortBy_pairwise le htot htr l) (isortBy_pairwise le htot htr l')
    (((isortBy_perm le l).trans h).trans (isortBy_perm le l').symm)

/-! ### `sortRat` -/

theorem sortRat_perm_self (l : List Rat) : (sortRat l).Perm l := isortBy_perm _ l

theorem sortRat_pairwise (l : List Rat) : (sortRat l).Pairwise (· ≤ ·) := by
  have := isortBy_pairwise (fun a b : Rat => decide (a ≤ b))
    (by intro a b; simpa using le_total a b) (by intro a b c; simpa using le_trans) l
  simpa [sortRat] using this

theorem sortRat_perm {l l' : List Rat} (h : l.Perm l') : sortRat l = sortRat l' :=
  isortBy_congr_perm _ (by intro a b; simpa using le_total a b)
    (by intro a b c; simpa using le_trans) (by intro a b; simpa using le_antisymm) h

theorem mem_sortRat {l : List Rat} {x : Rat} : x ∈ sortRat l ↔ x ∈ l := (sortRat_perm_self l).mem_iff

@[simp] theorem length_sortRat (l : List Rat) : (sortRat l).length = l.length :=
  (sortRat_perm_self l).length_eq

/-- a sorted list which is a permutation of `l` is `sortRat l` -/
theorem sortRat_unique {l s : List Rat} (hs : s.Pairwise (· ≤ ·)) (hp : s.Perm l) : sortRat l = s :=
  List.Perm.eq_of_pairwise' (r := (· ≤ ·)) (sortRat_pairwise l) hs ((sortRat_perm_self l).trans hp.symm)

theorem sortRat_map_mul {c : Rat} (hc : 0 < c) (l : List Rat) :
    sortRat (l.map (c * ·)) = (sortRat l).map (c * ·) := by
  apply sortRat_unique
  · rw [List.pairwise_map]
    exact (sortRat_pairwise l).imp (fun h => mul_le_mul_of_nonneg_left h hc.le)
  · exact (sortRat_perm_self l).map _

/-! ### the lexicographic order on positions is a total order -/

theorem lexLe_nil (b : List Rat) : lexLe [] b = true := by cases b <;> rfl

theorem lexLe_cons_nil (a : Rat) (as : List Rat) : lexLe (a :: as) [] = false := rfl

theorem lexLe_cons_iff (a b : Rat) (as bs : List Rat) :
    lexLe (a :: as) (b :: bs) = true ↔ a < b ∨ (a = b ∧ lexLe as bs = true) := by
  rcases lt_trichotomy a b with h | h | h
  · simp [lexLe, h]
  · subst h; simp [lexLe]
  · simp [lexLe, h, not_lt.mpr h.le, h.ne']

theorem lexLe_total : ∀ a b : List Rat, lexLe a b = true ∨ lexLe b a = true
  | [], b => Or.inl (lexLe_nil b)
  | _ :: _, [] => Or.inr (lexLe_nil _)
  | a :: as, b :: bs => by
    rw [lexLe_cons_iff, lexLe_cons_iff]
    rcases lt_trichotomy a b with h | h | h
    · exact Or.inl (Or.inl h)
    · rcases lexLe_total as bs with h' | h'
      · exact Or.inl (Or.inr ⟨h, h'⟩)
      · exact Or.inr (Or.inr ⟨h.symm, h'⟩)
    · exact Or.inr (Or.inl h)

theorem lexLe_trans : ∀ a b c : List Rat, lexLe a b = true → lexLe b c = true → lexLe a c = true
  | [], _, c => fun _ _ => lexLe_nil c
  | _ :: _, [], _ => fun h _ => by simp [lexLe_cons_nil] at h
  | _ :: _, _ :: _, [] => fun _ h => by simp [lexLe_cons_nil] at h
  | a :: as, b :: bs, c :: cs => by
    rw [lexLe_cons_iff, lexLe_cons_iff, lexLe_cons_iff]
    rintro (h1 | ⟨rfl, h1⟩) (h2 | ⟨rfl, h2⟩)
    · exact Or.inl (lt_trans h1 h2)
    · exact Or.inl h1
    · exact Or.inl h2
    · exact Or.inr ⟨rfl, lexLe_trans as bs cs h1 h2⟩

theorem lexLe_antisymm : ∀ a b : List Rat, lexLe a b = true → lexLe b a = true → a = b
  | [], [] => fun _ _ => rfl
  | [], _ :: _ => fun _ h => by simp [lexLe_cons_nil] at h
  | _ :: _, [] => fun h _ => by simp [lexLe_cons_nil] at h
  | a :: as, b :: bs => by
    rw [lexLe_cons_iff, lexLe_cons_iff]
    rintro (h1 | ⟨rfl, h1⟩) (h2 | ⟨h2', h2⟩)
    · exact absurd h1 (lt_asymm h2)
    · exact absurd h1 (by rw [h2']; exact lt_irrefl _)
    · exact absurd h2 (lt_irrefl _)
    · rw [lexLe_antisymm as bs h1 h2]

/-! ### `dedupL`, `uniquePts`, `counts` -/

theorem mem_dedupL {l : List (List Rat)} {a : List Rat} : a ∈ dedupL l ↔ a ∈ l := by
  induction l with
  | nil => simp [dedupL]
  | cons b bs ih =>
    by_cases h : b ∈ dedupL bs
    · have : dedupL (b :: bs) = dedupL bs := by simp [dedupL, h]
      rw [this, ih, List.mem_cons]
      constructor
      · exact Or.inr
      · rintro (rfl | h')
        · exact ih.mp h
        · exact h'
    · have : dedupL (b :: bs) = b :: dedupL bs := by simp [dedupL, h]
      rw [this, List.mem_cons, List.mem_cons, ih]

theorem nodup_dedupL (l : List (List Rat)) : (dedupL l).Nodup := by
  induction l with
  | nil => simp [dedupL]
  | cons b bs ih =>
    by_cases h : b ∈ dedupL bs
    · have : dedupL (b :: bs) = dedupL bs := by simp [dedupL, h]
      rw [this]; exact ih
    · have : dedupL (b :: bs) = b :: dedupL bs := by simp [dedupL, h]
      rw [this]; exact List.nodup_cons.mpr ⟨h, ih⟩

theorem mem_uniquePts {pts : List (List Rat)} {p : List Rat} : p ∈ uniquePts pts ↔ p ∈ pts := by
  rw [uniquePts, (isortBy_perm lexLe _).mem_iff, mem_dedupL]

theorem uniquePts_nodup (pts : List (List Rat)) : (uniquePts pts).Nodup :=
  (isortBy_perm lexLe _).nodup_iff.mpr (nodup_dedupL pts)

theorem uniquePts_pairwise (pts : List (List Rat)) :
    (uniquePts pts).Pairwise (fun a b => lexLe a b = true) :=
  isortBy_pairwise lexLe lexLe_total lexLe_trans _

/-- `uniquePts` is strictly increasing in the lexicographic order (what `np.unique(axis=1)` returns) -/
theorem uniquePts_strict (pts : List (List Rat)) :
    (uniquePts pts).Pairwise (fun a b => lexLe a b = true ∧ a ≠ b) :=
  (uniquePts_pairwise pts).and (uniquePts_nodup pts)

/-- `uniquePts` is characterised by: sorted, duplicate-free, same elements -/
theorem uniquePts_unique {pts u : List (List Rat)} (hs : u.Pairwise (fun a b => lexLe a b = true))
    (hn : u.Nodup) (hm : ∀ p, p ∈ u ↔ p ∈ pts) : uniquePts pts = u := by
  have : Std.Antisymm (fun x y : List Rat => lexLe x y = true) := ⟨lexLe_antisymm⟩
  refine List.Perm.eq_of_pairwise' (uniquePts_pairwise pts) hs ?_
  exact (List.perm_ext_iff_of_nodup (uniquePts_nodup pts) hn).mpr (fun p => by rw [mem_uniquePts, hm])

theorem uniquePts_perm {xs ys : List (List Rat)} (h : xs.Perm ys) : uniquePts xs = uniquePts ys :=
  uniquePts_unique (uniquePts_pairwise ys) (uniquePts_nodup ys)
    (fun p => by rw [mem_uniquePts, h.mem_iff])

theorem idxOf_uniquePts_lt {pts : List (List Rat)} {p : List Rat} (hp : p ∈ pts) :
    (uniquePts pts).idxOf p < (uniquePts pts).length :=
  List.idxOf_lt_length_of_mem (mem_uniquePts.mpr hp)

theorem counts_getD {pts : List (List Rat)} {p : List Rat} (hp : p ∈ pts) :
    (counts pts).getD ((uniquePts pts).idxOf p) 0 = pts.count p := by
  have h := idxOf_uniquePts_lt hp
  simp [counts, List.getD_eq_getElem?_getD, List.getElem?_map, List.getElem?_eq_getElem h]

@[simp] theorem length_counts (pts : List (List Rat)) : (counts pts).length = (uniquePts pts).length := by
  simp [counts]

@[simp] theorem length_inverseIdx (pts : List (List Rat)) : (inverseIdx pts).length = pts.length := by
  simp [inverseIdx]

/-- every multiplicity is positive -/
theorem counts_pos (pts : List (List Rat)) : ∀ c ∈ counts pts, 0 < c := by
  intro c hc
  simp only [counts, List.mem_map] at hc
  obtain ⟨u, hu, rfl⟩ := hc
  exact List.count_pos_iff.mpr (mem_uniquePts.mp hu)

/-- `traj_unique[:, inverse] = traj` -/
theorem uniquePts_inverseIdx (pts : List (List Rat)) :
    (inverseIdx pts).map (fun j => (uniquePts pts).getD j []) = pts := by
  simp only [inverseIdx, List.map_map]
  conv_rhs => rw [← List.map_id pts]
  apply List.map_congr_left
  intro p hp
  have h := idxOf_uniquePts_lt hp
  simp [List.getD_eq_getElem?_getD, List.getElem?_eq_getElem h]

/-! ### percentile -/

theorem getD_map_mul (c : Rat) (l : List Rat) (i : Nat) :
    (l.map (c * ·)).getD i 0 = c * l.getD i 0 := by
  simp only [List.getD_eq_getElem?_getD, List.getElem?_map]
  cases l[i]? <;> simp

/-- the interpolation at the virtual index `v` -/
def interp (s : List Rat) (v : Rat) : Rat :=
  s.getD v.floor.toNat 0 + (v - (v.floor.toNat : Rat)) *
    (s.getD (min (v.floor.toNat + 1) (s.length - 1)) 0 - s.getD v.floor.toNat 0)

theorem percentileLin_eq_interp (s : List Rat) (p : Rat) :
    percentileLin s p = interp s (((s.length : Rat) - 1) * p / 100) := rfl

/-- percentiles are homogeneous (for any factor) -/
theorem percentileLin_map_mul (c : Rat) (s : List Rat) (p : Rat) :
    percentileLin (s.map (c * ·)) p = c * percentileLin s p := by
  simp only [percentileLin, List.length_map, getD_map_mul]; ring

theorem floor_toNat_spec {v : Rat} (hv : 0 ≤ v) :
    ((v.floor.toNat : Nat) : Rat) ≤ v ∧ v < ((v.floor.toNat : Nat) : Rat) + 1 := by
  have h0 : (0 : Int) ≤ v.floor := Rat.le_floor_iff.mpr (by simpa using hv)
  have hc : ((v.floor.toNat : Nat) : Rat) = ((v.floor : Int) : Rat) := by
    rw [← Int.cast_natCast, Int.toNat_of_nonneg h0]
  rw [hc]
  refine ⟨Rat.floor_le v, ?_⟩
  have := Rat.lt_floor_add_one v
  push_cast at this
  exact this

theorem interp_index {s : List Rat} {v : Rat} (hv0 : 0 ≤ v) (hv1 : v ≤ (s.length : Rat) - 1) :
    v.floor.toNat < s.length ∧ min (v.floor.toNat + 1) (s.length - 1) < s.length ∧
    v.floor.toNat ≤ min (v.floor.toNat + 1) (s.length - 1) := by
  obtain ⟨h1, _⟩ := floor_toNat_spec hv0
  have h3 : ((v.floor.toNat : Nat) : Rat) ≤ (s.length : Rat) - 1 := le_trans h1 hv1
  have h4 : ((v.floor.toNat : Nat) : Rat) + 1 ≤ (s.length : Rat) := by linarith
  have h5 : v.floor.toNat + 1 ≤ s.length := by exact_mod_cast h4
  omega

theorem getD_mem {s : List Rat} {i : Nat} (h : i < s.length) : s.getD i 0 ∈ s := by
  simp [List.getD_eq_getElem?_getD, List.getElem?_eq_getElem h]

theorem getD_mono {s : List Rat} (hs : s.Pairwise (· ≤ ·)) {i j : Nat} (hij : i ≤ j)
    (hj : j < s.length) : s.getD i 0 ≤ s.getD j 0 := by
  have hi : i < s.length := lt_of_le_of_lt hij hj
  simp only [List.getD_eq_getElem?_getD, List.getElem?_eq_getElem hi, List.getElem?_eq_getElem hj,
    Option.getD_some]
  rcases Nat.eq_or_lt_of_le hij with rfl | h
  · exact le_refl _
  · exact List.pairwise_iff_getElem.mp hs i j hi hj h

/-- the interpolated value is a convex combination of two entries -/
theorem interp_ge {s : List Rat} {v a : Rat} (hv0 : 0 ≤ v) (hv1 : v ≤ (s.length : Rat) - 1)
    (h : ∀ x ∈ s, a ≤ x) : a ≤ interp s v := by
  obtain ⟨hi, hj, _⟩ := interp_index hv0 hv1
  obtain ⟨g0, g1⟩ := floor_toNat_spec hv0
  have hlo := h _ (getD_mem hi)
  have hhi := h _ (getD_mem hj)
  unfold interp
  nlinarith

theorem interp_le {s : List Rat} {v b : Rat} (hv0 : 0 ≤ v) (hv1 : v ≤ (s.length : Rat) - 1)
    (h : ∀ x ∈ s, x ≤ b) : interp s v ≤ b := by
  obtain ⟨hi, hj, _⟩ := interp_index hv0 hv1
  obtain ⟨g0, g1⟩ := floor_toNat_spec hv0
  have hlo := h _ (getD_mem hi)
  have hhi := h _ (getD_mem hj)
  unfold interp
  nlinarith

theorem virtualIndex_range {s : List Rat} (hs : s ≠ []) {p : Rat} (hp0 : 0 ≤ p) (hp1 : p ≤ 100) :
    0 ≤ ((s.length : Rat) - 1) * p / 100 ∧ ((s.length : Rat) - 1) * p / 100 ≤ (s.length : Rat) - 1 := by
  have hl : 1 ≤ s.length := List.length_pos_iff.mpr hs
  have hl' : (0 : Rat) ≤ (s.length : Rat) - 1 := by
    have : (1 : Rat) ≤ (s.length : Rat) := by exact_mod_cast hl
    linarith
  constructor
  · positivity
  · rw [div_le_iff₀ (by norm_num)]
    nlinarith

/-- a percentile (`0 ≤ p ≤ 100`) of a non-empty list lies between any lower and upper bound of the entries
(in particular between minimum and maximum) -/
theorem percentileLin_ge {s : List Rat} (hs : s ≠ []) {p a : Rat} (hp0 : 0 ≤ p) (hp1 : p ≤ 100)
    (h : ∀ x ∈ s, a ≤ x) : a ≤ percentileLin s p := by
  obtain ⟨h0, h1⟩ := virtualIndex_range hs hp0 hp1
  exact interp_ge h0 h1 h

theorem percentileLin_le {s : List Rat} (hs : s ≠ []) {p b : Rat} (hp0 : 0 ≤ p) (hp1 : p ≤ 100)
    (h : ∀ x ∈ s, x ≤ b) : percentileLin s p ≤ b := by
  obtain ⟨h0, h1⟩ := virtualIndex_range hs hp0 hp1
  exact interp_le h0 h1 h

/-- one value: every percentile is that value -/
theorem percentileLin_singleton (x p : Rat) : percentileLin [x] p = x := by
  have h0 : ((([x] : List Rat).length : Rat) - 1) * p / 100 = 0 := by simp
  have hf : (0 : Rat).floor = 0 := by simpa using Rat.floor_intCast 0
  rw [percentileLin_eq_interp, h0]
  simp [interp, hf]

/-- for a sorted list the interpolation is monotone in the virtual index -/
theorem interp_mono {s : List Rat} (hs : s.Pairwise (· ≤ ·)) {v w : Rat} (hv0 : 0 ≤ v) (hvw : v ≤ w)
    (hw1 : w ≤ (s.length : Rat) - 1) : interp s v ≤ interp s w := by
  have hw0 : 0 ≤ w := le_trans hv0 hvw
  have hv1 : v ≤ (s.length : Rat) - 1 := le_trans hvw hw1
  obtain ⟨hi, hi', hii'⟩ := interp_index hv0 hv1
  obtain ⟨hj, hj', hjj'⟩ := interp_index hw0 hw1
  obtain ⟨gv0, gv1⟩ := floor_toNat_spec hv0
  obtain ⟨gw0, gw1⟩ := floor_toNat_spec hw0
  have hfl : v.floor.toNat ≤ w.floor.toNat := Int.toNat_le_toNat (Rat.floor_monotone hvw)
  have hlohi_v := getD_mono hs hii' hi'
  have hlohi_w := getD_mono hs hjj' hj'
  rcases Nat.eq_or_lt_of_le hfl with heq | hlt
  · unfold interp
    rw [← heq]
    rw [← heq] at gw0 gw1
    nlinarith
  · have hmid : s.getD (min (v.floor.toNat + 1) (s.length - 1)) 0 ≤ s.getD w.floor.toNat 0 :=
      getD_mono hs (by omega) hj
    have h1 : interp s v ≤ s.getD (min (v.floor.toNat + 1) (s.length - 1)) 0 := by
      unfold interp; nlinarith
    have h2 : s.getD w.floor.toNat 0 ≤ interp s w := by
      unfold interp; nlinarith
    linarith

theorem percentileLin_mono {s : List Rat} (hs : s.Pairwise (· ≤ ·)) (hne : s ≠ []) {p q : Rat}
    (hp0 : 0 ≤ p) (hpq : p ≤ q) (hq1 : q ≤ 100) : percentileLin s p ≤ percentileLin s q := by
  obtain ⟨h0, _⟩ := virtualIndex_range hne hp0 (le_trans hpq hq1)
  obtain ⟨_, h1⟩ := virtualIndex_range hne (le_trans hp0 hpq) hq1
  have hl : 1 ≤ s.length := List.length_pos_iff.mpr hne
  have hl' : (0 : Rat) ≤ (s.length : Rat) - 1 := by
    have : (1 : Rat) ≤ (s.length : Rat) := by exact_mod_cast hl
    linarith
  refine interp_mono hs h0 ?_ h1
  rw [div_le_div_iff_of_pos_right (by norm_num)]
  exact mul_le_mul_of_nonneg_left hpq hl'

/-! ### outlier replacement -/

/-- the value map applied to every volume -/
def repl (vol : List Rat) (x : Rat) : Rat := if isOutlier vol x then fillValue vol else x

theorem replaceOutliers_eq (vol : List Rat) :
    replaceOutliers vol = if vol = [] ∨ topSlice vol = [] then none else some (vol.map (repl vol)) := rfl

theorem replaceOutliers_some {vol r : List Rat} (h : replaceOutliers vol = some r) :
    vol ≠ [] ∧ topSlice vol ≠ [] ∧ r = vol.map (repl vol) := by
  rw [replaceOutliers_eq] at h
  split at h
  · exact absurd h (by simp)
  · rename_i hc
    rw [not_or] at hc
    exact ⟨hc.1, hc.2, (Option.some.inj h).symm⟩

theorem replaceOutliers_length {vol r : List Rat} (h : replaceOutliers vol = some r) :
    r.length = vol.length := by
  rw [(replaceOutliers_some h).2.2, List.length_map]

/-! #### invariance under permutation of the volumes -/

theorem upperBound_perm {vol vol' : List Rat} (h : vol.Perm vol') : upperBound vol = upperBound vol' := by
  simp only [upperBound, sortRat_perm h]

theorem isOutlier_perm {vol vol' : List Rat} (h : vol.Perm vol') : isOutlier vol = isOutlier vol' := by
  funext x; simp only [isOutlier, upperBound_perm h]

theorem nOutliers_perm {vol vol' : List Rat} (h : vol.Perm vol') : nOutliers vol = nOutliers vol' := by
  simp only [nOutliers, isOutlier_perm h, (h.filter _).length_eq]

theorem topSlice_perm {vol vol' : List Rat} (h : vol.Perm vol') : topSlice vol = topSlice vol' := by
  simp only [topSlice, nOutliers_perm h, sortRat_perm h, h.length_eq]

theorem fillValue_perm {vol vol' : List Rat} (h : vol.Perm vol') : fillValue vol = fillValue vol' := by
  simp only [fillValue, topSlice_perm h]

theorem repl_perm {vol vol' : List Rat} (h : vol.Perm vol') : repl vol = repl vol' := by
  funext x; simp only [repl, isOutlier_perm h, fillValue_perm h]

/-- the replacement acts value-wise with a map that does not depend on the order of the volumes -/
theorem replaceOutliers_perm {vol vol' : List Rat} (h : vol.Perm vol') :
    ∃ g : Option (Rat → Rat), replaceOutliers vol = g.map (fun g => vol.map g) ∧
      replaceOutliers vol' = g.map (fun g => vol'.map g) := by
  by_cases hc : vol = [] ∨ topSlice vol = []
  · refine ⟨none, by simp [replaceOutliers_eq, hc], ?_⟩
    have hc' : vol' = [] ∨ topSlice vol' = [] := by
      rcases hc with rfl | hc
      · exact Or.inl (List.perm_nil.mp h.symm)
      · exact Or.inr (by rw [← topSlice_perm h]; exact hc)
    simp [replaceOutliers_eq, hc']
  · refine ⟨some (repl vol), by simp [replaceOutliers_eq, hc], ?_⟩
    have hc' : ¬ (vol' = [] ∨ topSlice vol' = []) := by
      rw [← topSlice_perm h]
      intro h'
      apply hc
      rcases h' with rfl | h'
      · exact Or.inl (List.perm_nil.mp h)
      · exact Or.inr h'
    simp [replaceOutliers_eq, hc', repl_perm h]

/-! #### positive homogeneity -/

theorem upperBound_scale {c : Rat} (hc : 0 < c) (vol : List Rat) :
    upperBound (vol.map (c * ·)) = c * upperBound vol := by
  simp only [upperBound, sortRat_map_mul hc, percentileLin_map_mul]; ring

theorem isOutlier_scale {c : Rat} (hc : 0 < c) (vol : List Rat) (x : Rat) :
    isOutlier (vol.map (c * ·)) (c * x) = isOutlier vol x := by
  simp only [isOutlier, upperBound_scale hc, mul_lt_mul_iff_right₀ hc]

theorem nOutliers_scale {c : Rat} (hc : 0 < c) (vol : List Rat) :
    nOutliers (vol.map (c * ·)) = nOutliers vol := by
  simp only [nOutliers, List.filter_map, List.length_map]
  congr 2
  funext x
  exact isOutlier_scale hc vol x

theorem topSlice_scale {c : Rat} (hc : 0 < c) (vol : List Rat) :
    topSlice (vol.map (c * ·)) = (topSlice vol).map (c * ·) := by
  simp only [topSlice, nOutliers_scale hc, sortRat_map_mul hc, List.length_map, List.map_drop,
    List.map_take]

theorem fillValue_scale {c : Rat} (hc : 0 < c) (vol : List Rat) :
    fillValue (vol.map (c * ·)) = c * fillValue vol := by
  simp only [fillValue, topSlice_scale hc, List.length_map]
  rw [List.sum_map_mul_left, List.map_id', mul_div_assoc]

theorem repl_scale {c : Rat} (hc : 0 < c) (vol : List Rat) (x : Rat) :
    repl (vol.map (c * ·)) (c * x) = c * repl vol x := by
  simp only [repl, isOutlier_scale hc, fillValue_scale hc]
  split <;> rfl

/-- percentiles, the IQR rule and the top-1 % average are positively homogeneous -/
theorem replaceOutliers_scale {c : Rat} (hc : 0 < c) (vol : List Rat) :
    replaceOutliers (vol.map (c * ·)) = (replaceOutliers vol).map (fun r => r.map (c * ·)) := by
  simp only [replaceOutliers_eq, topSlice_scale hc, List.map_eq_nil_iff]
  split
  · rfl
  · simp only [Option.map_some, List.map_map]
    congr 1
    apply List.map_congr_left
    intro x _
    exact repl_scale hc vol x

/-! #### when there is a value -/

theorem topSlice_ne_nil_of_lt {vol : List Rat} (h : nOutliers vol < vol.length) : topSlice vol ≠ [] := by
  intro he
  have hl := congrArg List.length he
  simp only [topSlice, highStart, List.length_take, List.length_drop, length_sortRat,
    List.length_nil] at hl
  omega

theorem nOutliers_le (vol : List Rat) : nOutliers vol ≤ vol.length := List.length_filter_le _ _

/-- the smallest value is never an outlier -/
theorem exists_not_outlier {vol : List Rat} (hv : vol ≠ []) : ∃ x ∈ vol, isOutlier vol x = false := by
  have hs : sortRat vol ≠ [] := by
    intro h; apply hv; exact List.length_eq_zero_iff.mp (by rw [← length_sortRat, h]; rfl)
  have hl : 0 < (sortRat vol).length := List.length_pos_iff.mpr hs
  refine ⟨(sortRat vol).getD 0 0, mem_sortRat.mp (getD_mem hl), ?_⟩
  have hmin : ∀ y ∈ sortRat vol, (sortRat vol).getD 0 0 ≤ y := by
    intro y hy
    obtain ⟨j, hj, rfl⟩ := List.getElem_of_mem hy
    have := getD_mono (sortRat_pairwise vol) (Nat.zero_le j) hj
    simpa [List.getD_eq_getElem?_getD, List.getElem?_eq_getElem hj] using this
  have h3 := percentileLin_ge hs (p := 75) (by norm_num) (by norm_num) hmin
  have h13 := percentileLin_mono (sortRat_pairwise vol) hs (p := 25) (q := 75) (by norm_num)
    (by norm_num) (by norm_num)
  unfold isOutlier upperBound
  rw [decide_eq_false_iff_not, not_lt]
  linarith

theorem nOutliers_lt {vol : List Rat} (hv : vol ≠ []) : nOutliers vol < vol.length := by
  obtain ⟨x, hx, hxo⟩ := exists_not_outlier hv
  unfold nOutliers
  apply lt_of_le_of_ne (List.length_filter_le _ _)
  intro h
  have := List.length_filter_eq_length_iff.mp h x hx
  rw [hxo] at this
  exact absurd this (by simp)

/-- For non-empty input the replacement always has a value: the `nan` branch of Python
(`np.average` of an empty slice) is unreachable, because the minimum is never an outlier. -/
theorem replaceOutliers_isSome {vol : List Rat} (hv : vol ≠ []) : (replaceOutliers vol).isSome = true := by
  rw [replaceOutliers_eq, if_neg]
  · rfl
  · rw [not_or]; exact ⟨hv, topSlice_ne_nil_of_lt (nOutliers_lt hv)⟩

theorem replaceOutliers_eq_some {vol : List Rat} (hv : vol ≠ []) :
    replaceOutliers vol = some (vol.map (repl vol)) := by
  rw [replaceOutliers_eq, if_neg]
  rw [not_or]; exact ⟨hv, topSlice_ne_nil_of_lt (nOutliers_lt hv)⟩

theorem replaceOutliers_nil : replaceOutliers [] = none := rfl

/-- if no value exceeds the bound the list is unchanged -/
theorem replaceOutliers_id_of_no_outliers {vol : List Rat} (hv : vol ≠ [])
    (h : ∀ x ∈ vol, x ≤ upperBound vol) : replaceOutliers vol = some vol := by
  rw [replaceOutliers_eq_some hv]
  congr 1
  conv_rhs => rw [← List.map_id vol]
  apply List.map_congr_left
  intro x hx
  have : isOutlier vol x = false := by simpa [isOutlier] using h x hx
  simp [repl, this]

/-- non-outliers are kept, outliers all get the same value -/
theorem replaceOutliers_getElem {vol r : List Rat} (h : replaceOutliers vol = some r) (i : Nat)
    (hi : i < vol.length) :
    r[i]'(by rw [replaceOutliers_length h]; exact hi) =
      if upperBound vol < vol[i] then fillValue vol else vol[i] := by
  obtain ⟨_, _, rfl⟩ := replaceOutliers_some h
  simp [repl, isOutlier]

/-! ### the glue: weights as a function of the position -/

/-- weight of a sample at position `p`, given the replaced volumes `r` of the unique positions -/
def weightFn (pts : List (List Rat)) (r : List Rat) (p : List Rat) : Rat :=
  r.getD ((uniquePts pts).idxOf p) 0 / (pts.count p : Rat)

theorem dcfGlue_eq_map (pts : List (List Rat)) (vol : List Rat)
    (hlen : vol.length = (uniquePts pts).length) :
    dcfGlue pts vol = (replaceOutliers vol).map (fun r => pts.map (weightFn pts r)) := by
  unfold dcfGlue
  rw [if_pos hlen]
  congr 1
  funext r
  simp only [inverseIdx, List.map_map]
  apply List.map_congr_left
  intro p hp
  simp only [Function.comp, counts_getD hp, weightFn]

theorem dcfGlue_none_of_length (pts : List (List Rat)) (vol : List Rat)
    (h : vol.length ≠ (uniquePts pts).length) : dcfGlue pts vol = none := by
  unfold dcfGlue; rw [if_neg h]

theorem dcfGlue_some {pts : List (List Rat)} {vol w : List Rat} (h : dcfGlue pts vol = some w) :
    vol.length = (uniquePts pts).length ∧
      ∃ r, replaceOutliers vol = some r ∧ w = pts.map (weightFn pts r) := by
  by_cases hlen : vol.length = (uniquePts pts).length
  · refine ⟨hlen, ?_⟩
    rw [dcfGlue_eq_map pts vol hlen] at h
    cases hr : replaceOutliers vol with
    | none => rw [hr] at h; exact absurd h (by simp)
    | some r => rw [hr] at h; exact ⟨r, rfl, (Option.some.inj h).symm⟩
  · rw [dcfGlue_none_of_length pts vol hlen] at h; exact absurd h (by simp)

theorem dcfGlue_length {pts : List (List Rat)} {vol w : List Rat} (h : dcfGlue pts vol = some w) :
    w.length = pts.length := by
  obtain ⟨_, r, _, rfl⟩ := dcfGlue_some h
  simp

/-- The glue has a value exactly when there is at least one sample and one volume per unique position. -/
theorem dcfGlue_isSome {pts : List (List Rat)} {vol : List Rat} (hp : pts ≠ [])
    (hlen : vol.length = (uniquePts pts).length) : (dcfGlue pts vol).isSome = true := by
  have hv : vol ≠ [] := by
    intro h
    obtain ⟨p, hp'⟩ := List.exists_mem_of_ne_nil pts hp
    have := List.length_pos_of_mem (mem_uniquePts.mpr hp')
    rw [h] at hlen; simp at hlen; omega
  rw [dcfGlue_eq_map pts vol hlen, replaceOutliers_eq_some hv]; rfl

theorem weightFn_perm {xs ys : List (List Rat)} (h : xs.Perm ys) : weightFn xs = weightFn ys := by
  funext r p; simp only [weightFn, uniquePts_perm h, h.count_eq]

/-! ### permutation equivariance -/

/-- Permuting the samples permutes the weights the same way (same volumes of the unique positions —
the unique positions do not change under a permutation of the samples): there is one weight function
of the position, `w`, that gives both results. -/
theorem dcfGlue_perm_equivariant (xs ys : List (List Rat)) (h : xs.Perm ys) (vol : List Rat) :
    ∃ W : Option (List Rat → Rat), dcfGlue xs vol = W.map (fun w => xs.map w) ∧
      dcfGlue ys vol = W.map (fun w => ys.map w) := by
  by_cases hlen : vol.length = (uniquePts xs).length
  · have hlen' : vol.length = (uniquePts ys).length := by rw [← uniquePts_perm h]; exact hlen
    refine ⟨(replaceOutliers vol).map (weightFn xs), ?_, ?_⟩
    · rw [dcfGlue_eq_map _ _ hlen, Option.map_map]; rfl
    · rw [dcfGlue_eq_map _ _ hlen', Option.map_map, weightFn_perm h]; rfl
  · have hlen' : vol.length ≠ (uniquePts ys).length := by rw [← uniquePts_perm h]; exact hlen
    exact ⟨none, by rw [dcfGlue_none_of_length _ _ hlen]; rfl,
      by rw [dcfGlue_none_of_length _ _ hlen']; rfl⟩

/-- index form: wherever a position stands before and after the permutation, it has the same weight -/
theorem dcfGlue_perm_getElem? {xs ys : List (List Rat)} (h : xs.Perm ys) {vol wx wy : List Rat}
    (hx : dcfGlue xs vol = some wx) (hy : dcfGlue ys vol = some wy) {i j : Nat}
    (hij : xs[i]? = ys[j]?) : wx[i]? = wy[j]? := by
  obtain ⟨W, h1, h2⟩ := dcfGlue_perm_equivariant xs ys h vol
  cases W with
  | none => rw [hx] at h1; exact absurd h1 (by simp)
  | some w =>
    rw [hx] at h1; rw [hy] at h2
    simp only [Option.map_some, Option.some.injEq] at h1 h2
    rw [h1, h2, List.getElem?_map, List.getElem?_map, hij]

/-- the (position, weight) pairs are permuted -/
theorem dcfGlue_perm_zip {xs ys : List (List Rat)} (h : xs.Perm ys) {vol wx wy : List Rat}
    (hx : dcfGlue xs vol = some wx) (hy : dcfGlue ys vol = some wy) :
    (xs.zip wx).Perm (ys.zip wy) := by
  obtain ⟨W, h1, h2⟩ := dcfGlue_perm_equivariant xs ys h vol
  cases W with
  | none => rw [hx] at h1; exact absurd h1 (by simp)
  | some w =>
    rw [hx] at h1; rw [hy] at h2
    simp only [Option.map_some, Option.some.injEq] at h1 h2
    have e : ∀ l : List (List Rat), l.zip (l.map w) = l.map (fun p => (p, w p)) := by
      intro l; induction l with
      | nil => rfl
      | cons a as ih => simp [ih]
    rw [h1, h2, e, e]
    exact h.map _

/-- the set of results (with multiplicity) does not depend on the order of the samples -/
theorem dcfGlue_perm {xs ys : List (List Rat)} (h : xs.Perm ys) {vol wx wy : List Rat}
    (hx : dcfGlue xs vol = some wx) (hy : dcfGlue ys vol = some wy) : wx.Perm wy := by
  have := (dcfGlue_perm_zip h hx hy).map Prod.snd
  have lx := dcfGlue_length hx
  have ly := dcfGlue_length hy
  rwa [← List.unzip_snd, ← List.unzip_snd, List.unzip_zip lx.symm, List.unzip_zip ly.symm] at this

/-! ### coincident samples -/

theorem sum_filter_zip_map (l : List (List Rat)) (f : List Rat → Rat) (p : List Rat) :
    (((l.zip (l.map f)).filter (fun q => q.1 == p)).map (·.2)).sum = (l.count p : Rat) * f p := by
  induction l with
  | nil => simp
  | cons a as ih =>
    by_cases h : a = p
    · subst h
      simp only [List.map_cons, List.zip_cons_cons, List.filter_cons, beq_self_eq_true, if_true,
        List.sum_cons, ih, List.count_cons_self]
      push_cast; ring
    · have h' : (a == p) = false := by simpa using h
      simp only [List.map_cons, List.zip_cons_cons, List.filter_cons, h']
      rw [List.count_cons_of_ne h]
      simpa using ih

theorem count_ne_zero {pts : List (List Rat)} {p : List Rat} (hp : p ∈ pts) :
    ((pts.count p : Nat) : Rat) ≠ 0 := by
  have : 0 < pts.count p := List.count_pos_iff.mpr hp
  exact_mod_cast this.ne'

/-- The weights of all samples at one position `p` sum to the (possibly replaced) cell volume of `p`. -/
theorem dcfGlue_duplicates_split {pts : List (List Rat)} {vol w r : List Rat}
    (hw : dcfGlue pts vol = some w) (hr : replaceOutliers vol = some r) {p : List Rat} (hp : p ∈ pts) :
    (((pts.zip w).filter (fun q => q.1 == p)).map (·.2)).sum
      = r.getD ((uniquePts pts).idxOf p) 0 := by
  obtain ⟨_, r', hr', rfl⟩ := dcfGlue_some hw
  rw [hr] at hr'
  obtain rfl := Option.some.inj hr'
  rw [sum_filter_zip_map, weightFn, mul_div_cancel₀ _ (count_ne_zero hp)]

/-- the index used in `dcfGlue_duplicates_split` is a valid index of the replaced volumes -/
theorem dcfGlue_idx_lt {pts : List (List Rat)} {vol w r : List Rat}
    (hw : dcfGlue pts vol = some w) (hr : replaceOutliers vol = some r) {p : List Rat} (hp : p ∈ pts) :
    (uniquePts pts).idxOf p < r.length := by
  rw [replaceOutliers_length hr, (dcfGlue_some hw).1]
  exact idxOf_uniquePts_lt hp

/-- each of the `m` samples at a position gets the share `1/m` of its cell -/
theorem dcfGlue_duplicates_share {pts : List (List Rat)} {vol w r : List Rat}
    (hw : dcfGlue pts vol = some w) (hr : replaceOutliers vol = some r) {i : Nat} {p : List Rat} {x : Rat}
    (hp : pts[i]? = some p) (hx : w[i]? = some x) :
    x * (pts.count p : Rat) = r.getD ((uniquePts pts).idxOf p) 0 := by
  obtain ⟨_, r', hr', rfl⟩ := dcfGlue_some hw
  rw [hr] at hr'
  obtain rfl := Option.some.inj hr'
  rw [List.getElem?_map, hp] at hx
  obtain rfl := Option.some.inj hx
  have hmem : p ∈ pts := List.mem_of_getElem? hp
  rw [weightFn, div_mul_cancel₀ _ (count_ne_zero hmem)]

/-- coincident samples get equal weights -/
theorem dcfGlue_duplicates_equal {pts : List (List Rat)} {vol w : List Rat}
    (hw : dcfGlue pts vol = some w) {i j : Nat} (hij : pts[i]? = pts[j]?) : w[i]? = w[j]? :=
  dcfGlue_perm_getElem? (List.Perm.refl pts) hw hw hij

/-! ### positivity -/

theorem mem_topSlice {vol : List Rat} {x : Rat} (hx : x ∈ topSlice vol) : x ∈ vol :=
  mem_sortRat.mp (List.mem_of_mem_drop (List.mem_of_mem_take hx))

theorem fillValue_pos {vol : List Rat} (hv : ∀ v ∈ vol, 0 < v) (ht : topSlice vol ≠ []) :
    0 < fillValue vol := by
  unfold fillValue
  apply div_pos
  · exact List.sum_pos _ (fun x hx => hv x (mem_topSlice hx)) ht
  · exact_mod_cast List.length_pos_iff.mpr ht

theorem replaceOutliers_pos {vol r : List Rat} (h : replaceOutliers vol = some r)
    (hv : ∀ v ∈ vol, 0 < v) : ∀ x ∈ r, 0 < x := by
  obtain ⟨_, ht, rfl⟩ := replaceOutliers_some h
  intro x hx
  obtain ⟨v, hvm, rfl⟩ := List.mem_map.mp hx
  unfold repl
  split
  · exact fillValue_pos hv ht
  · exact hv v hvm

/-- positive cell volumes give positive weights -/
theorem dcfGlue_pos {pts : List (List Rat)} {vol w : List Rat} (hw : dcfGlue pts vol = some w)
    (hv : ∀ v ∈ vol, 0 < v) : ∀ x ∈ w, 0 < x := by
  obtain ⟨hlen, r, hr, rfl⟩ := dcfGlue_some hw
  intro x hx
  obtain ⟨p, hp, rfl⟩ := List.mem_map.mp hx
  have hidx : (uniquePts pts).idxOf p < r.length := by
    rw [replaceOutliers_length hr, hlen]; exact idxOf_uniquePts_lt hp
  unfold weightFn
  apply div_pos
  · exact replaceOutliers_pos hr hv _ (getD_mem hidx)
  · have : 0 < pts.count p := List.count_pos_iff.mpr hp
    exact_mod_cast this

/-! ### volumes given as a function of the position; equivariance under maps of k-space -/

theorem getD_map_idxOf {l : List (List Rat)} {a : List Rat} (ha : a ∈ l) (h : List Rat → Rat) :
    (l.map h).getD (l.idxOf a) 0 = h a := by
  have hi := List.idxOf_lt_length_of_mem ha
  simp [List.getD_eq_getElem?_getD, List.getElem?_map, List.getElem?_eq_getElem hi]

/-- With the volume of the cell of position `p` given as `V p`, the weight of a sample at `p` is
`repl (V p) / multiplicity`. -/
theorem dcfGlue_oracle {pts : List (List Rat)} (hp : pts ≠ []) (V : List Rat → Rat) :
    dcfGlue pts ((uniquePts pts).map V) =
      some (pts.map (fun p => repl ((uniquePts pts).map V) (V p) / (pts.count p : Rat))) := by
  have hv : (uniquePts pts).map V ≠ [] := by
    obtain ⟨p, hp'⟩ := List.exists_mem_of_ne_nil pts hp
    exact List.ne_nil_of_mem (List.mem_map_of_mem (mem_uniquePts.mpr hp'))
  rw [dcfGlue_eq_map _ _ (by simp), replaceOutliers_eq_some hv]
  simp only [Option.map_some]
  congr 1
  apply List.map_congr_left
  intro p hp
  rw [weightFn, List.map_map, getD_map_idxOf (mem_uniquePts.mpr hp)]
  rfl

theorem uniquePts_map_perm (pts : List (List Rat)) {f : List Rat → List Rat}
    (hf : Function.Injective f) : (uniquePts (pts.map f)).Perm ((uniquePts pts).map f) := by
  apply (List.perm_ext_iff_of_nodup (uniquePts_nodup _) ((uniquePts_nodup pts).map hf)).mpr
  intro q
  simp only [mem_uniquePts, List.mem_map]

/-- General equivariance: let `f` be an injective map of k-space (scaling, rotation, translation, …) and let
the cell volumes transform by the factor `c > 0` (`V' (f p) = c · V p` for the sample positions).  Then all
weights are multiplied by `c`.  The unique positions of the mapped samples may be ordered differently;
the volumes are therefore given as functions of the position. -/
theorem dcfGlue_equivariant (pts : List (List Rat)) {f : List Rat → List Rat}
    (hf : Function.Injective f) (V V' : List Rat → Rat) {c : Rat} (hc : 0 < c)
    (hV : ∀ p ∈ pts, V' (f p) = c * V p) :
    dcfGlue (pts.map f) ((uniquePts (pts.map f)).map V') =
      (dcfGlue pts ((uniquePts pts).map V)).map (fun w => w.map (c * ·)) := by
  by_cases hp : pts = []
  · subst hp; rfl
  · have hp' : pts.map f ≠ [] := by simpa using hp
    rw [dcfGlue_oracle hp', dcfGlue_oracle hp]
    simp only [Option.map_some, List.map_map]
    congr 1
    apply List.map_congr_left
    intro p hpm
    simp only [Function.comp]
    have hperm : ((uniquePts (pts.map f)).map V').Perm (((uniquePts pts).map V).map (c * ·)) := by
      refine ((uniquePts_map_perm pts hf).map V').trans ?_
      rw [List.map_map, List.map_map]
      apply List.Perm.of_eq
      apply List.map_congr_left
      intro q hq
      exact hV q (mem_uniquePts.mp hq)
    rw [repl_perm hperm, hV p hpm, repl_scale hc, List.count_map_of_injective _ f hf, mul_div_assoc]

theorem scalePt_injective {a : Rat} (ha : a ≠ 0) :
    Function.Injective (fun p : List Rat => p.map (a * ·)) :=
  List.map_injective_iff.mpr (mul_right_injective₀ ha)

/-- Scaling k-space by `a ≠ 0` in `d` dimensions: if the cell volumes scale by `|a|^d` (hypothesis on the
qhull part) then every weight scales by `|a|^d`. -/
theorem dcfGlue_scale (pts : List (List Rat)) {a : Rat} (ha : a ≠ 0) (d : Nat) (V V' : List Rat → Rat)
    (hV : ∀ p ∈ pts, V' (p.map (a * ·)) = |a| ^ d * V p) :
    dcfGlue (pts.map (fun p => p.map (a * ·)))
        ((uniquePts (pts.map (fun p => p.map (a * ·)))).map V') =
      (dcfGlue pts ((uniquePts pts).map V)).map (fun w => w.map (|a| ^ d * ·)) :=
  dcfGlue_equivariant pts (scalePt_injective ha) V V' (pow_pos (abs_pos.mpr ha) d) hV

/-- Maps of k-space under which the cell volumes do not change (translations, rotations, reflections —
hypothesis on the qhull part) do not change the weights. -/
theorem dcfGlue_invariant (pts : List (List Rat)) {f : List Rat → List Rat}
    (hf : Function.Injective f) (V V' : List Rat → Rat) (hV : ∀ p ∈ pts, V' (f p) = V p) :
    dcfGlue (pts.map f) ((uniquePts (pts.map f)).map V') = dcfGlue pts ((uniquePts pts).map V) := by
  have := dcfGlue_equivariant pts hf V V' (c := 1) one_pos (by simpa using hV)
  rw [this]
  cases dcfGlue pts ((uniquePts pts).map V) with
  | none => rfl
  | some w => simp

/-! #### list form, for maps that keep the lexicographic order (positive scaling, translation) -/

theorem uniquePts_map_of_mono (pts : List (List Rat)) {f : List Rat → List Rat}
    (hf : Function.Injective f) (hmono : ∀ p q, lexLe (f p) (f q) = lexLe p q) :
    uniquePts (pts.map f) = (uniquePts pts).map f := by
  apply uniquePts_unique
  · rw [List.pairwise_map]
    exact (uniquePts_pairwise pts).imp (fun h => by rw [hmono]; exact h)
  · exact (uniquePts_nodup pts).map hf
  · intro q; simp only [List.mem_map, mem_uniquePts]

theorem idxOf_map_of_injective {f : List Rat → List Rat} (hf : Function.Injective f)
    (l : List (List Rat)) (a : List Rat) : (l.map f).idxOf (f a) = l.idxOf a := by
  induction l with
  | nil => simp
  | cons b bs ih =>
    simp only [List.map_cons, List.idxOf_cons, ih]
    by_cases h : b = a
    · subst h; simp
    · have h' : f b ≠ f a := fun e => h (hf e)
      have e1 : (f b == f a) = false := by simpa using h'
      have e2 : (b == a) = false := by simpa using h
      rw [e1, e2]

/-- If `f` keeps the lexicographic order, the unique positions keep their order, and the statement can be
made for the list of volumes: volumes scaled by `c > 0` give weights scaled by `c`. -/
theorem dcfGlue_equivariant_list (pts : List (List Rat)) (vol : List Rat) {f : List Rat → List Rat}
    (hf : Function.Injective f) (hmono : ∀ p q, lexLe (f p) (f q) = lexLe p q) {c : Rat} (hc : 0 < c) :
    dcfGlue (pts.map f) (vol.map (c * ·)) = (dcfGlue pts vol).map (fun w => w.map (c * ·)) := by
  have hu := uniquePts_map_of_mono pts hf hmono
  by_cases hlen : vol.length = (uniquePts pts).length
  · rw [dcfGlue_eq_map _ _ (by rw [hu]; simpa using hlen), dcfGlue_eq_map _ _ hlen,
      replaceOutliers_scale hc, Option.map_map, Option.map_map]
    congr 1
    funext r
    simp only [Function.comp, List.map_map]
    apply List.map_congr_left
    intro p _
    simp only [Function.comp, weightFn, hu, idxOf_map_of_injective hf, getD_map_mul,
      List.count_map_of_injective _ f hf, mul_div_assoc]
  · rw [dcfGlue_none_of_length _ _ (by rw [hu]; simpa using hlen), dcfGlue_none_of_length _ _ hlen]
    rfl

theorem lexLe_map_mul {a : Rat} (ha : 0 < a) : ∀ p q : List Rat,
    lexLe (p.map (a * ·)) (q.map (a * ·)) = lexLe p q
  | [], q => by rw [List.map_nil, lexLe_nil, lexLe_nil]
  | _ :: _, [] => rfl
  | x :: xs, y :: ys => by
    simp only [List.map_cons, lexLe, mul_lt_mul_iff_right₀ ha, lexLe_map_mul ha xs ys]

/-- positive scaling `k ↦ a·k`, `a > 0`, in `d` dimensions, list form: volumes times `a^d` give weights
times `a^d` -/
theorem dcfGlue_scale_pos (pts : List (List Rat)) (vol : List Rat) {a : Rat} (ha : 0 < a) (d : Nat) :
    dcfGlue (pts.map (fun p => p.map (a * ·))) (vol.map (a ^ d * ·)) =
      (dcfGlue pts vol).map (fun w => w.map (a ^ d * ·)) :=
  dcfGlue_equivariant_list pts vol (scalePt_injective ha.ne') (lexLe_map_mul ha) (pow_pos ha d)

/-! ### bounds on the replaced values -/

/-- the entries of the sorted list below index `n - n_outliers` are not outliers -/
theorem sorted_lt_not_outlier (vol : List Rat) {k : Nat} (hk : k < vol.length - nOutliers vol) :
    (sortRat vol).getD k 0 ≤ upperBound vol := by
  by_contra hcon
  rw [not_le] at hcon
  have hkl : k < (sortRat vol).length := by rw [length_sortRat]; omega
  have hall : ∀ x ∈ (sortRat vol).drop k, isOutlier vol x = true := by
    intro x hx
    obtain ⟨j, hj, rfl⟩ := List.getElem_of_mem hx
    rw [List.length_drop] at hj
    rw [List.getElem_drop]
    have := getD_mono (sortRat_pairwise vol) (Nat.le_add_right k j) (by omega : k + j < (sortRat vol).length)
    rw [List.getD_eq_getElem?_getD (l := sortRat vol) (i := k + j),
      List.getElem?_eq_getElem (by omega : k + j < (sortRat vol).length)] at this
    simp only [isOutlier, decide_eq_true_eq]
    exact lt_of_lt_of_le hcon this
  have h1 : nOutliers vol = ((sortRat vol).filter (isOutlier vol)).length :=
    ((sortRat_perm_self vol).filter _).length_eq.symm
  have h2 : (sortRat vol).filter (isOutlier vol) =
      ((sortRat vol).take k).filter (isOutlier vol) ++ ((sortRat vol).drop k).filter (isOutlier vol) := by
    rw [← List.filter_append, List.take_append_drop]
  rw [h2, List.length_append, List.filter_eq_self.mpr hall, List.length_drop, length_sortRat] at h1
  omega

theorem topSlice_le_upper {vol : List Rat} {x : Rat} (hx : x ∈ topSlice vol) : x ≤ upperBound vol := by
  unfold topSlice at hx
  obtain ⟨j, hj, rfl⟩ := List.getElem_of_mem hx
  simp only [List.length_take, List.length_drop, length_sortRat] at hj
  rw [List.getElem_take, List.getElem_drop]
  have hlt : highStart (vol.length - nOutliers vol) + j < vol.length - nOutliers vol := by omega
  have := sorted_lt_not_outlier vol hlt
  rwa [List.getD_eq_getElem?_getD, List.getElem?_eq_getElem (by rw [length_sortRat]; omega)] at this

theorem fillValue_le {vol : List Rat} (ht : topSlice vol ≠ []) {b : Rat}
    (hb : ∀ x ∈ vol, x ≤ upperBound vol → x ≤ b) : fillValue vol ≤ b := by
  unfold fillValue
  have hl : (0 : Rat) < ((topSlice vol).length : Rat) := by exact_mod_cast List.length_pos_iff.mpr ht
  rw [div_le_iff₀ hl]
  have := List.sum_le_card_nsmul (topSlice vol) b
    (fun x hx => hb x (mem_topSlice hx) (topSlice_le_upper hx))
  simpa [nsmul_eq_mul, mul_comm] using this

theorem fillValue_ge {vol : List Rat} (ht : topSlice vol ≠ []) {a : Rat}
    (ha : ∀ x ∈ vol, x ≤ upperBound vol → a ≤ x) : a ≤ fillValue vol := by
  unfold fillValue
  have hl : (0 : Rat) < ((topSlice vol).length : Rat) := by exact_mod_cast List.length_pos_iff.mpr ht
  rw [le_div_iff₀ hl]
  have := List.card_nsmul_le_sum (topSlice vol) a
    (fun x hx => ha x (mem_topSlice hx) (topSlice_le_upper hx))
  simpa [nsmul_eq_mul, mul_comm] using this

/-- Any upper bound `b` of the non-outliers bounds all values after the replacement: the fill value is
an average of non-outliers.  In particular (`b` = largest non-outlier) no value is set above the
largest non-outlier. -/
theorem replaceOutliers_le {vol r : List Rat} (h : replaceOutliers vol = some r) {b : Rat}
    (hb : ∀ x ∈ vol, x ≤ upperBound vol → x ≤ b) : ∀ x ∈ r, x ≤ b := by
  obtain ⟨_, ht, rfl⟩ := replaceOutliers_some h
  intro x hx
  obtain ⟨v, hvm, rfl⟩ := List.mem_map.mp hx
  unfold repl
  split
  · exact fillValue_le ht hb
  · rename_i hno
    apply hb v hvm
    simpa [isOutlier] using hno

/-- after the replacement nothing exceeds `q3 + 1.5·IQR` of the original volumes -/
theorem replaceOutliers_le_upperBound {vol r : List Rat} (h : replaceOutliers vol = some r) :
    ∀ x ∈ r, x ≤ upperBound vol :=
  replaceOutliers_le h (fun _ _ hx => hx)

/-- the replacement never puts a value below a lower bound of the non-outliers -/
theorem replaceOutliers_ge {vol r : List Rat} (h : replaceOutliers vol = some r) {a : Rat}
    (ha : ∀ x ∈ vol, a ≤ x) : ∀ x ∈ r, a ≤ x := by
  obtain ⟨_, ht, rfl⟩ := replaceOutliers_some h
  intro x hx
  obtain ⟨v, hvm, rfl⟩ := List.mem_map.mp hx
  unfold repl
  split
  · exact fillValue_ge ht (fun x hx _ => ha x hx)
  · exact ha v hvm

/-! ### closed instances (kernel evaluation) -/

/-- the order of `np.unique(axis=1)` on the columns `(1,0) (0,5) (1,0) (0,-2) (1,-3) (-1,7)` -/
example : uniquePts [[1, 0], [0, 5], [1, 0], [0, -2], [1, -3], [-1, 7]]
    = [[-1, 7], [0, -2], [0, 5], [1, -3], [1, 0]] := by decide +kernel
example : inverseIdx [[1, 0], [0, 5], [1, 0], [0, -2], [1, -3], [-1, 7]] = [4, 2, 4, 1, 3, 0] := by
  decide +kernel
example : counts [[1, 0], [0, 5], [1, 0], [0, -2], [1, -3], [-1, 7]] = [1, 1, 1, 1, 2] := by
  decide +kernel

/-- `np.percentile([1, 2, 3, 10], [25, 75]) = [1.75, 4.75]` -/
example : percentileLin [1, 2, 3, 10] 25 = 7 / 4 ∧ percentileLin [1, 2, 3, 10] 75 = 19 / 4 := by
  decide +kernel
example : percentileLin [1, 2] 25 = 5 / 4 ∧ percentileLin [1, 2] 75 = 7 / 4 := by decide +kernel

example : highStart 100 = 99 ∧ highStart 250 = 247 ∧ highStart 3 = 2 ∧ highStart 1 = 0 := by decide

/-- one outlier: `q3 = 25.75`, bound `62.875`; `100` is replaced by the mean of `sorted[2:3] = [1]` -/
example : upperBound [1, 1, 1, 100] = 503 / 8 := by decide +kernel
example : replaceOutliers [1, 100, 1, 1] = some [1, 1, 1, 1] := by decide +kernel
/-- sixteen values, one outlier (`50 > 13.625`), replaced by the mean of `sorted[14:15] = [10]`
(numpy gives the same) -/
example : replaceOutliers [3, 1, 2, 4, 5, 6, 7, 8, 9, 10, 50, 2, 3, 4, 5, 5]
    = some [3, 1, 2, 4, 5, 6, 7, 8, 9, 10, 10, 2, 3, 4, 5, 5] := by decide +kernel
example : replaceOutliers [] = none := by decide +kernel
example : replaceOutliers [7] = some [7] := by decide +kernel

/-- five 2-D samples, `(1,0)` twice; unique order `(0,-2) (0,5) (1,-3) (1,0)`; the cell of `(1,0)` is the
outlier: it is replaced by `1` and shared by the two samples -/
example : dcfGlue [[1, 0], [0, 5], [1, 0], [0, -2], [1, -3]] [1, 1, 1, 100]
    = some [1 / 2, 1, 1 / 2, 1, 1] := by decide +kernel
example : dcfGlueIdx [[1, 0], [0, 5], [1, 0], [0, -2], [1, -3]] [1, 1, 1, 100]
    = (some [1 / 2, 1, 1 / 2, 1, 1], [3, 1, 3, 0, 2], [1, 1, 1, 2]) := by decide +kernel
/-- 3-D, a position three times, no outlier -/
example : dcfGlue [[0, 0, 1], [0, 0, 0], [0, 0, 1], [1, 0, 0], [0, 0, 1]] [2, 3, 5]
    = some [1, 2, 1, 5, 1] := by decide +kernel
/-- wrong number of volumes; no samples -/
example : dcfGlue [[1, 0], [0, 5]] [1] = none := by decide +kernel
example : dcfGlue [] [] = none := by decide +kernel

end M
