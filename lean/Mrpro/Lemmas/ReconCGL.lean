import Mrpro.Lemmas.ReconL
import Mrpro.Lemmas.CGKrylovL
import Mrpro.Lemmas.CGFiniteL
/-! Reconstruction-level corollaries: the iterates of `cg` on the (regularised) normal equations in terms of the
least-squares functional `J(z) = ½⟨z, Hz⟩ − ⟨b, z⟩`. -/
namespace M
variable {K V : Type} [Field K] [LinearOrder K] [IsStrictOrderedRing K] [AddCommGroup V] [Module K V]

/-- the functional differs from the energy error by a constant: `J(y) − J(x*) = ½ E(y)` when `H x* = b` -/
theorem functional_eq_energy (B : V →ₗ[K] V →ₗ[K] K) (H : V →ₗ[K] V)
    (symm : ∀ u v, B u v = B v u) (selfadj : ∀ u v, B (H u) v = B u (H v)) (b xs y : V) (hxs : H xs = b) :
    (B y (H y) / 2 - B b y) - (B xs (H xs) / 2 - B b xs) = B (xs - y) (H (xs - y)) / 2 := by
  subst hxs
  have h1 : B y (H xs) = B (H xs) y := symm _ _
  have h2 : B xs (H y) = B (H xs) y := (selfadj xs y).symm
  have h3 : B xs (H xs) = B (H xs) xs := symm _ _
  simp only [map_sub, LinearMap.sub_apply]
  rw [h1, h2, ← h3]
  ring

/-- every CG iterate minimises the least-squares functional over `start + 𝒦ₖ₊₁` -/
theorem cg_iterate_minimises_functional (B : V →ₗ[K] V →ₗ[K] K) (H : V →ₗ[K] V)
    (symm : ∀ u v, B u v = B v u) (selfadj : ∀ u v, B (H u) v = B u (H v))
    (posH : ∀ v, v ≠ 0 → 0 < B v (H v))
    (b : V) (x0 : Option V) (maxIter : Nat) (tol2 : Option K)
    (x : V) (reason : String) (tr : List (CGTrace V)) (xs : V) (hxs : H xs = b)
    (hrun : cgRun (modOps' B) (fun v => H v) b x0 maxIter tol2 = .ok x reason tr)
    (k : ℕ) (hk : k < tr.length) :
    ∀ d ∈ Submodule.span K (Set.range (fun j : Fin (k + 1) => (H ^ (j : ℕ)) (b - H (start' b x0)))),
      B tr[k].x (H tr[k].x) / 2 - B b tr[k].x
        ≤ B (start' b x0 + d) (H (start' b x0 + d)) / 2 - B b (start' b x0 + d) := by
  intro d hd
  have hopt := (cg_krylov_optimal B H symm selfadj posH b x0 maxIter tol2 x reason tr xs hxs hrun k hk).2 d hd
  have e1 := functional_eq_energy B H symm selfadj b xs tr[k].x hxs
  have e2 := functional_eq_energy B H symm selfadj b xs (start' b x0 + d) hxs
  have h2 : (0 : K) < 2 := by norm_num
  have := div_le_div_of_nonneg_right hopt h2.le
  linarith

/-- with at least `dim V` iterations and tolerance 0 the returned image is the minimiser of the functional -/
theorem cg_result_minimises_functional [Module.Finite K V] (B : V →ₗ[K] V →ₗ[K] K) (H : V →ₗ[K] V)
    (symm : ∀ u v, B u v = B v u) (posB : ∀ v, v ≠ 0 → 0 < B v v)
    (selfadj : ∀ u v, B (H u) v = B u (H v)) (posH : ∀ v, v ≠ 0 → 0 < B v (H v))
    (b : V) (x0 : Option V) (maxIter : Nat) (hn : Module.finrank K V ≤ maxIter)
    (x : V) (reason : String) (tr : List (CGTrace V))
    (hrun : cgRun (modOps' B) (fun v => H v) b x0 maxIter none = .ok x reason tr) :
    ∀ z, B x (H x) / 2 - B b x ≤ B z (H z) / 2 - B b z :=
  (normal_eq_minimiser B H symm posB selfadj posH b x).mp
    (cg_finite_termination B H symm posB selfadj posH b x0 maxIter hn x reason tr hrun).1

end M
