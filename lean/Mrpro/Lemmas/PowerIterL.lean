import Mrpro.Model.PowerIter
import Mathlib.LinearAlgebra.BilinearMap
import Mathlib.Analysis.SpecialFunctions.Sqrt
import Mathlib.Algebra.Algebra.Bilinear
import Mathlib.Tactic.Ring
import Mathlib.Tactic.FieldSimp
import Mathlib.Tactic.Linarith
import Mathlib.Tactic.Positivity
import Mathlib.Tactic.NormNum
/-! Proofs for `Mrpro/Props/C19.lean`. -/
namespace M
variable {V W : Type} [AddCommGroup V] [Module ℝ V] [AddCommGroup W] [Module ℝ W]

def realOps' (B : V →ₗ[ℝ] V →ₗ[ℝ] ℝ) : VecOps ℝ V :=
  ⟨fun u v => u + v, fun u v => u - v, fun c v => c • v, fun u v => B u v⟩

@[simp] theorem realOps'_dot (B : V →ₗ[ℝ] V →ₗ[ℝ] ℝ) (u v : V) : (realOps' B).dot u v = B u v := rfl
@[simp] theorem realOps'_smul (B : V →ₗ[ℝ] V →ₗ[ℝ] ℝ) (c : ℝ) (v : V) :
    (realOps' B).smul c v = c • v := rfl

/-! ### Cauchy–Schwarz for a symmetric positive semidefinite bilinear form -/

theorem psd_expand (F : W →ₗ[ℝ] W →ₗ[ℝ] ℝ) (hs : ∀ u v, F u v = F v u) (hp : ∀ w, 0 ≤ F w w)
    (x y : W) (a b : ℝ) : 0 ≤ a ^ 2 * F x x - 2 * (a * b) * F x y + b ^ 2 * F y y := by
  have e : a ^ 2 * F x x - 2 * (a * b) * F x y + b ^ 2 * F y y
      = F (a • x - b • y) (a • x - b • y) := by
    simp only [map_sub, map_smul, LinearMap.sub_apply, LinearMap.smul_apply, smul_eq_mul]
    rw [hs y x]
    ring
  rw [e]
  exact hp _

theorem cs_psd (F : W →ₗ[ℝ] W →ₗ[ℝ] ℝ) (hs : ∀ u v, F u v = F v u) (hp : ∀ w, 0 ≤ F w w)
    (x y : W) : F x y ^ 2 ≤ F x x * F y y := by
  by_cases hβ : F y y = 0
  · have h := psd_expand F hs hp x y (F x y) ((F x x + 1) / 2)
    rw [hβ] at h ⊢
    nlinarith [h]
  · have hβ' : 0 < F y y := lt_of_le_of_ne (hp y) (Ne.symm hβ)
    have h := psd_expand F hs hp x y (F y y) (F x y)
    have h' : F y y * (F x y ^ 2) ≤ F y y * (F x x * F y y) := by nlinarith [h]
    exact le_of_mul_le_mul_left h' hβ'

/-! ### One step of the iteration on a unit vector -/

theorem G_symm (B : V →ₗ[ℝ] V →ₗ[ℝ] ℝ) (B' : W →ₗ[ℝ] W →ₗ[ℝ] ℝ) (A : V →ₗ[ℝ] W) (G : V →ₗ[ℝ] V)
    (symm : ∀ u v, B u v = B v u) (symm' : ∀ u v, B' u v = B' v u)
    (gram : ∀ u v, B u (G v) = B' (A u) (A v)) (u w : V) : B (G u) w = B u (G w) := by
  rw [symm (G u) w, gram, symm', ← gram]

theorem step_unit (B : V →ₗ[ℝ] V →ₗ[ℝ] ℝ) (B' : W →ₗ[ℝ] W →ₗ[ℝ] ℝ) (A : V →ₗ[ℝ] W) (G : V →ₗ[ℝ] V)
    (symm : ∀ u v, B u v = B v u) (pos : ∀ v, v ≠ 0 → 0 < B v v)
    (symm' : ∀ u v, B' u v = B' v u) (pos' : ∀ w, w ≠ 0 → 0 < B' w w)
    (gram : ∀ u v, B u (G v) = B' (A u) (A v)) (inj : ∀ v, v ≠ 0 → A v ≠ 0)
    (v : V) (hv1 : B v v = 1) :
    B ((1 / Real.sqrt (B (G v) (G v))) • G v) ((1 / Real.sqrt (B (G v) (G v))) • G v) = 1 ∧
    B v (G v) ≤ B ((1 / Real.sqrt (B (G v) (G v))) • G v)
      (G ((1 / Real.sqrt (B (G v) (G v))) • G v)) := by
  have hv0 : v ≠ 0 := by
    rintro rfl
    simp at hv1
  have hpB : ∀ w, 0 ≤ B w w := fun w => by
    by_cases h : w = 0
    · simp [h]
    · exact (pos w h).le
  have hpB' : ∀ w, 0 ≤ B' w w := fun w => by
    by_cases h : w = 0
    · simp [h]
    · exact (pos' w h).le
  have ha_pos : 0 < B v (G v) := by
    rw [gram]
    exact pos' _ (inj v hv0)
  have hGv : G v ≠ 0 := by
    intro h
    rw [h] at ha_pos
    simp at ha_pos
  have hb : 0 < B (G v) (G v) := pos _ hGv
  have h1 : B v (G v) ^ 2 ≤ B (G v) (G v) := by
    have := cs_psd B symm hpB v (G v)
    rwa [hv1, one_mul] at this
  have e1 : B' (A v) (A (G v)) = B (G v) (G v) := by
    rw [← gram]
    exact (G_symm B B' A G symm symm' gram v (G v)).symm
  have h2 : B (G v) (G v) ^ 2 ≤ B v (G v) * B (G v) (G (G v)) := by
    have := cs_psd B' symm' hpB' (A v) (A (G v))
    rwa [e1, ← gram, ← gram] at this
  have hsb0 : 0 < Real.sqrt (B (G v) (G v)) := Real.sqrt_pos.mpr hb
  have hsb : Real.sqrt (B (G v) (G v)) * Real.sqrt (B (G v) (G v)) = B (G v) (G v) :=
    Real.mul_self_sqrt hb.le
  generalize ha : B v (G v) = a at *
  generalize hc : B (G v) (G (G v)) = c at *
  simp only [map_smul, LinearMap.smul_apply, smul_eq_mul, hc]
  generalize hbb : B (G v) (G v) = b at *
  generalize Real.sqrt b = q at *
  have hq : q ≠ 0 := hsb0.ne'
  have hab : a * b ≤ c := by
    have : a * (a * b) ≤ a * c := by nlinarith [h1, h2, hb, ha_pos]
    exact le_of_mul_le_mul_left this ha_pos
  constructor
  · rw [← hsb]
    field_simp
  · have : 1 / q * (1 / q * c) = c / b := by
      rw [← hsb]
      field_simp
    rw [this, le_div_iff₀ hb]
    exact hab

/-! ### The loop invariant -/

theorem loop_inv (B : V →ₗ[ℝ] V →ₗ[ℝ] ℝ) (B' : W →ₗ[ℝ] W →ₗ[ℝ] ℝ) (A : V →ₗ[ℝ] W) (G : V →ₗ[ℝ] V)
    (symm : ∀ u v, B u v = B v u) (pos : ∀ v, v ≠ 0 → 0 < B v v)
    (symm' : ∀ u v, B' u v = B' v u) (pos' : ∀ w, w ≠ 0 → 0 < B' w w)
    (gram : ∀ u v, B u (G v) = B' (A u) (A v)) (inj : ∀ v, v ≠ 0 → A v ≠ 0)
    (P : ℝ → Prop) (hP : ∀ v, B v v = 1 → P (Real.sqrt (B v (G v))))
    (stop : ℝ → ℝ → Bool) :
    ∀ (fuel : ℕ) (v : V) (old last : ℝ) (cb : List ℝ),
      B v v = 1 → P last → (∀ e ∈ cb, P e) → (∀ e ∈ cb, e ≤ last) →
      cb.reverse.Pairwise (· ≤ ·) → last ≤ Real.sqrt (B v (G v)) →
      (P (powerLoop (realOps' B) Real.sqrt (fun v => G v) stop fuel v old last cb).1 ∧
        ∀ e ∈ (powerLoop (realOps' B) Real.sqrt (fun v => G v) stop fuel v old last cb).2, P e) ∧
      ((powerLoop (realOps' B) Real.sqrt (fun v => G v) stop fuel v old last cb).2 ++
        [(powerLoop (realOps' B) Real.sqrt (fun v => G v) stop fuel v old last cb).1]).Pairwise
          (· ≤ ·) := by
  intro fuel
  induction fuel with
  | zero =>
    intro v old last cb _ hl hcb hle hpw _
    simp only [powerLoop]
    refine ⟨⟨hl, fun e he => hcb e (List.mem_reverse.mp he)⟩, ?_⟩
    rw [List.pairwise_append]
    refine ⟨hpw, List.pairwise_singleton _ _, ?_⟩
    intro a ha b hb
    rw [List.mem_singleton] at hb
    rw [hb]
    exact hle a (List.mem_reverse.mp ha)
  | succ n ih =>
    intro v old last cb hv1 hl hcb hle hpw hmono
    simp only [powerLoop, realOps'_dot, realOps'_smul]
    have hPest := hP v hv1
    have hpw' : (cb.reverse ++ [Real.sqrt (B v (G v))]).Pairwise (· ≤ ·) := by
      rw [List.pairwise_append]
      refine ⟨hpw, List.pairwise_singleton _ _, ?_⟩
      intro a ha b hb
      rw [List.mem_singleton] at hb
      rw [hb]
      exact (hle a (List.mem_reverse.mp ha)).trans hmono
    by_cases hstop : stop (Real.sqrt (B v (G v))) old = true
    · simp only [hstop, if_true]
      exact ⟨⟨hPest, fun e he => hcb e (List.mem_reverse.mp he)⟩, hpw'⟩
    · simp only [hstop]
      obtain ⟨hu, hstep⟩ := step_unit B B' A G symm pos symm' pos' gram inj v hv1
      apply ih
      · exact hu
      · exact hPest
      · intro e he
        rcases List.mem_cons.mp he with rfl | he
        · exact hPest
        · exact hcb e he
      · intro e he
        rcases List.mem_cons.mp he with rfl | he
        · exact le_refl _
        · exact (hle e he).trans hmono
      · rw [List.reverse_cons]
        exact hpw'
      · exact Real.sqrt_le_sqrt hstep

theorem start_unit (B : V →ₗ[ℝ] V →ₗ[ℝ] ℝ) (pos : ∀ v, v ≠ 0 → 0 < B v v) (v0 : V) (hv : v0 ≠ 0) :
    B ((1 / Real.sqrt (B v0 v0)) • v0) ((1 / Real.sqrt (B v0 v0)) • v0) = 1 := by
  have hb := pos v0 hv
  have hsb0 : 0 < Real.sqrt (B v0 v0) := Real.sqrt_pos.mpr hb
  have hsb : Real.sqrt (B v0 v0) * Real.sqrt (B v0 v0) = B v0 v0 := Real.mul_self_sqrt hb.le
  simp only [map_smul, LinearMap.smul_apply, smul_eq_mul]
  generalize B v0 v0 = b at *
  generalize Real.sqrt b = q at *
  have hq : q ≠ 0 := hsb0.ne'
  rw [← hsb]
  field_simp

theorem powerLoop_neg (B : V →ₗ[ℝ] V →ₗ[ℝ] ℝ) (G : V →ₗ[ℝ] V) (stop : ℝ → ℝ → Bool) :
    ∀ (fuel : ℕ) (v : V) (old last : ℝ) (cb : List ℝ),
      powerLoop (realOps' B) Real.sqrt (fun v => G v) stop fuel (-v) old last cb
        = powerLoop (realOps' B) Real.sqrt (fun v => G v) stop fuel v old last cb := by
  intro fuel
  induction fuel with
  | zero => intro v old last cb; simp only [powerLoop]
  | succ n ih =>
    intro v old last cb
    simp only [powerLoop, realOps'_dot, realOps'_smul, map_neg, LinearMap.neg_apply, neg_neg,
      smul_neg]
    by_cases hstop : stop (Real.sqrt (B v (G v))) old = true
    · simp only [hstop, if_true]
    · simp only [hstop]
      rw [ih]

section
variable (B : V →ₗ[ℝ] V →ₗ[ℝ] ℝ) (B' : W →ₗ[ℝ] W →ₗ[ℝ] ℝ) (A : V →ₗ[ℝ] W) (G : V →ₗ[ℝ] V)
  (symm : ∀ u v, B u v = B v u) (pos : ∀ v, v ≠ 0 → 0 < B v v)
  (symm' : ∀ u v, B' u v = B' v u) (pos' : ∀ w, w ≠ 0 → 0 < B' w w)
  (gram : ∀ u v, B u (G v) = B' (A u) (A v)) (inj : ∀ v, v ≠ 0 → A v ≠ 0)
include symm pos symm' pos' gram inj

set_option linter.unusedVariables false in
theorem estimates_le_norm (M : ℝ) (hM0 : 0 ≤ M)
    (hM : ∀ u, B' (A u) (A u) ≤ M ^ 2 * B u u) (stop : ℝ → ℝ → Bool) (v0 : V) (hv : v0 ≠ 0) (n : Nat) (hn : 1 ≤ n) :
    let r := powerRun (realOps' B) Real.sqrt (fun v => G v) stop v0 n
    r.1 ≤ M ∧ ∀ e ∈ r.2, e ≤ M := by
  intro r
  have hP : ∀ v, B v v = 1 → Real.sqrt (B v (G v)) ≤ M := by
    intro v hv1
    have h := hM v
    rw [hv1, mul_one, ← gram] at h
    calc Real.sqrt (B v (G v)) ≤ Real.sqrt (M ^ 2) := Real.sqrt_le_sqrt h
      _ = M := Real.sqrt_sq hM0
  have := loop_inv B B' A G symm pos symm' pos' gram inj (fun e => e ≤ M) hP stop n
    ((1 / Real.sqrt (B v0 v0)) • v0) 0 0 [] (start_unit B pos v0 hv) hM0
    (by simp) (by simp) (by simp) (Real.sqrt_nonneg _)
  exact this.1

set_option linter.unusedVariables false in
theorem estimates_monotone (stop : ℝ → ℝ → Bool) (v0 : V) (hv : v0 ≠ 0) (n : Nat) (hn : 1 ≤ n) :
    let r := powerRun (realOps' B) Real.sqrt (fun v => G v) stop v0 n
    List.IsChain (· ≤ ·) (r.2 ++ [r.1]) := by
  intro r
  have := loop_inv B B' A G symm pos symm' pos' gram inj (fun _ => True) (fun _ _ => trivial) stop n
    ((1 / Real.sqrt (B v0 v0)) • v0) 0 0 [] (start_unit B pos v0 hv) trivial
    (by simp) (by simp) (by simp) (Real.sqrt_nonneg _)
  exact this.2.isChain

set_option linter.unusedSectionVars false in
theorem scale_free (stop : ℝ → ℝ → Bool) (v0 : V) (hv : v0 ≠ 0) (s : ℝ) (hs : s ≠ 0) (n : Nat) :
    powerRun (realOps' B) Real.sqrt (fun v => G v) stop (s • v0) n
      = powerRun (realOps' B) Real.sqrt (fun v => G v) stop v0 n := by
  have hb := pos v0 hv
  have hq : 0 < Real.sqrt (B v0 v0) := Real.sqrt_pos.mpr hb
  have key : Real.sqrt (B (s • v0) (s • v0)) = |s| * Real.sqrt (B v0 v0) := by
    simp only [map_smul, LinearMap.smul_apply, smul_eq_mul]
    rw [← mul_assoc, Real.sqrt_mul (mul_self_nonneg s), Real.sqrt_mul_self_eq_abs]
  simp only [powerRun, realOps'_dot, realOps'_smul]
  rw [key]
  generalize Real.sqrt (B v0 v0) = q at *
  have hq' : q ≠ 0 := hq.ne'
  rcases lt_or_gt_of_ne hs with hneg | hpos
  · have e : (1 / (|s| * q)) • s • v0 = -((1 / q) • v0) := by
      rw [abs_of_neg hneg, smul_smul, ← neg_smul]
      congr 1
      field_simp
    rw [e, powerLoop_neg]
  · have e : (1 / (|s| * q)) • s • v0 = (1 / q) • v0 := by
      rw [abs_of_pos hpos, smul_smul]
      congr 1
      field_simp
    rw [e]
end

theorem shipped_not_scale_free :
    (powerRunShipped (realOps' (LinearMap.mul ℝ ℝ)) Real.sqrt (fun v => v) (fun _ _ => false) (2 : ℝ) 1).1 = 2 ∧
    (powerRun (realOps' (LinearMap.mul ℝ ℝ)) Real.sqrt (fun v => v) (fun _ _ => false) (2 : ℝ) 1).1 = 1 := by
  have h2 : Real.sqrt (2 * 2) = 2 := Real.sqrt_mul_self (by norm_num)
  constructor
  · simp only [powerRunShipped, powerLoop, realOps'_dot, LinearMap.mul_apply']
    simp [h2]
  · simp only [powerRun, powerLoop, realOps'_dot, realOps'_smul, LinearMap.mul_apply', h2]
    norm_num

theorem row_bound (B' : W →ₗ[ℝ] W →ₗ[ℝ] ℝ) (hs : ∀ u v, B' u v = B' v u) (hp : ∀ w, 0 ≤ B' w w)
    (M₁ M₂ x₁ x₂ : ℝ) (w₁ w₂ : W) (hx₁ : 0 ≤ x₁) (hx₂ : 0 ≤ x₂)
    (h₁ : B' w₁ w₁ ≤ M₁ ^ 2 * x₁) (h₂ : B' w₂ w₂ ≤ M₂ ^ 2 * x₂) :
    B' (w₁ + w₂) (w₁ + w₂) ≤ (M₁ ^ 2 + M₂ ^ 2) * (x₁ + x₂) := by
  have hcs := cs_psd B' hs hp w₁ w₂
  have hp1 := hp w₁
  have hp2 := hp w₂
  have e : B' (w₁ + w₂) (w₁ + w₂) = B' w₁ w₁ + 2 * B' w₁ w₂ + B' w₂ w₂ := by
    simp only [map_add, LinearMap.add_apply]
    rw [hs w₂ w₁]
    ring
  rw [e]
  generalize B' w₁ w₁ = p at *
  generalize B' w₂ w₂ = q at *
  generalize B' w₁ w₂ = y at *
  have hP : 0 ≤ M₁ ^ 2 * x₁ := by positivity
  have hQ : 0 ≤ M₂ ^ 2 * x₂ := by positivity
  have hS : 0 ≤ M₁ ^ 2 * x₂ + M₂ ^ 2 * x₁ := by positivity
  have hy2 : y ^ 2 ≤ (M₁ ^ 2 * x₁) * (M₂ ^ 2 * x₂) :=
    hcs.trans (mul_le_mul h₁ h₂ hp2 hP)
  have hy : 2 * y ≤ M₁ ^ 2 * x₂ + M₂ ^ 2 * x₁ := by
    by_contra h
    rw [not_le] at h
    nlinarith [sq_nonneg (M₁ ^ 2 * x₂ - M₂ ^ 2 * x₁), mul_pos (lt_of_le_of_lt hS h) (lt_of_le_of_lt hS h),
      mul_nonneg hS hS]
  nlinarith [hy, h₁, h₂]
end M
