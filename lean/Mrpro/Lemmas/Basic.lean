import Mrpro.Model.Vec
import Mathlib.Algebra.BigOperators.Group.Finset.Basic
import Mathlib.Algebra.BigOperators.Ring.Finset
import Mathlib.Algebra.BigOperators.Intervals
import Mathlib.Algebra.Star.Basic
import Mathlib.Algebra.Star.BigOperators
import Mathlib.Tactic.Ring
import Mathlib.Tactic.Linarith
/-! Bridge between the import-free model (`sumTo`, `Conj`) and Mathlib (`Finset.sum`, `star`). -/
namespace M
open Finset

/-- in a star ring the model's `conj` is `star` -/
instance (priority := 50) starConj {K : Type} [Star K] : Conj K := ⟨star⟩

@[simp] theorem conj_eq_star {K : Type} [Star K] (x : K) : conj x = star x := rfl

theorem sumTo_eq {K : Type} [AddCommMonoid K] (n : Nat) (f : Nat → K) : sumTo n f = ∑ i ∈ range n, f i := by
  unfold sumTo
  induction n with
  | zero => simp
  | succ n ih => rw [List.range_succ, List.foldl_append, ih, Finset.sum_range_succ]; simp

theorem inner_eq {K : Type} [NonUnitalNonAssocSemiring K] [Star K] (n : Nat) (x y : Nat → K) :
    inner n x y = ∑ i ∈ range n, star (x i) * y i := by
  unfold inner; rw [sumTo_eq]; rfl

end M
