import Mrpro.Model.Ops
import Mrpro.Lemmas.Basic
import Mathlib.Algebra.Module.LinearMap.Defs
/-! Proofs for `Mrpro/Props/C02.lean`. -/
namespace M
open Finset
variable {K : Type} [CommRing K] [StarRing K]
-- the statements keep the `[StarRing K]` argument even where it is unused (C02 refers to them as is)
set_option linter.unusedSectionVars false

def IsLin' (op : (Nat → K) → (Nat → K)) : Prop :=
  ∀ (a b : K) (x y : Nat → K) (i : Nat), op (fun t => a * x t + b * y t) i = a * op x i + b * op y i

/-- a sum whose summands are pointwise a linear combination is that linear combination of sums -/
theorem sumTo_lin (n : Nat) (a b : K) (f g h : Nat → K) (H : ∀ j, f j = a * g j + b * h j) :
    sumTo n f = a * sumTo n g + b * sumTo n h := by
  rw [sumTo_eq, sumTo_eq, sumTo_eq, Finset.mul_sum, Finset.mul_sum, ← Finset.sum_add_distrib]
  exact Finset.sum_congr rfl (fun j _ => H j)

theorem padCrop_linear (old new : Nat) : IsLin' (padCrop (K := K) old new) := by
  intro a b x y i
  simp only [padCrop, padCropWith]
  split <;> ring
theorem gather_linear (G : Nat) (idx : Nat → Option Nat) : IsLin' (gather (K := K) G idx) := by
  intro a b x y i
  simp only [gather]
  split
  · split <;> ring
  · ring
theorem scatterAdd_linear (S : Nat) (idx : Nat → Option Nat) : IsLin' (scatterAdd (K := K) S idx) := by
  intro a b x y i
  simp only [scatterAdd]
  apply sumTo_lin
  intro j
  split <;> ring
theorem corr3_linear (c : Bool) (k0 k1 k2 : K) (n : Nat) : IsLin' (corr3 c k0 k1 k2 n) := by
  intro a b x y i
  simp only [corr3]
  cases c
  · simp only [Bool.false_eq_true, if_false]
    split <;> split <;> ring
  · simp only [if_true]
    ring
theorem diagMul_linear (d : Nat → K) : IsLin' (diagMul d) := by
  intro a b x y i
  simp only [diagMul]
  ring
theorem diagMulConj_linear (d : Nat → K) : IsLin' (diagMulConj d) := by
  intro a b x y i
  simp only [diagMulConj]
  ring
theorem sensFwd_linear (n : Nat) (csm : Nat → K) : IsLin' (sensFwd n csm) := by
  intro a b x y i
  simp only [sensFwd]
  ring
theorem sensAdj_linear (c n : Nat) (csm : Nat → K) : IsLin' (sensAdj c n csm) := by
  intro a b x y i
  simp only [sensAdj]
  apply sumTo_lin
  intro j
  ring
theorem matVec_linear (n : Nat) (A : Nat → K) : IsLin' (matVec n A) := by
  intro a b x y i
  simp only [matVec]
  apply sumTo_lin
  intro j
  ring
theorem matVecH_linear (m n : Nat) (A : Nat → K) : IsLin' (matVecH m n A) := by
  intro a b x y i
  simp only [matVecH]
  apply sumTo_lin
  intro j
  ring
theorem permute_linear (σ : Nat → Nat) : IsLin' (permute (K := K) σ) := by
  intro a b x y i
  rfl
theorem fftshift_linear (n : Nat) : IsLin' (fftshift (K := K) n) := by
  intro a b x y i
  rfl
theorem ifftshift_linear (n : Nat) : IsLin' (ifftshift (K := K) n) := by
  intro a b x y i
  rfl
theorem dft_linear (n : Nat) (c : K) (w : Nat → K) : IsLin' (dft n c w) := by
  intro a b x y i
  simp only [dft]
  rw [sumTo_lin n a b _ (fun r => w ((i * r) % n) * x r) (fun r => w ((i * r) % n) * y r)
    (fun j => by ring)]
  ring
theorem idft_linear (n : Nat) (c : K) (w : Nat → K) : IsLin' (idft n c w) := by
  intro a b x y i
  simp only [idft]
  rw [sumTo_lin n a b _ (fun k => conj (w ((k * i) % n)) * x k) (fun k => conj (w ((k * i) % n)) * y k)
    (fun j => by ring)]
  ring
theorem comp_linear (f g : (Nat → K) → (Nat → K)) (hf : IsLin' f) (hg : IsLin' g) : IsLin' (fun x => f (g x)) := by
  intro a b x y i
  have h : g (fun t => a * x t + b * y t) = fun t => a * g x t + b * g y t := funext (hg a b x y)
  simp only [h]
  exact hf a b (g x) (g y) i
theorem centredDft_linear (n : Nat) (c : K) (w : Nat → K) : IsLin' (centredDft n c w) :=
  comp_linear (fftshift n) (fun x => dft n c w (ifftshift n x)) (fftshift_linear n)
    (comp_linear (dft n c w) (ifftshift n) (dft_linear n c w) (ifftshift_linear n))
theorem centredIdft_linear (n : Nat) (c : K) (w : Nat → K) : IsLin' (centredIdft n c w) :=
  comp_linear (fftshift n) (fun x => idft n c w (ifftshift n x)) (fftshift_linear n)
    (comp_linear (idft n c w) (ifftshift n) (idft_linear n c w) (ifftshift_linear n))
theorem add_linear (f g : (Nat → K) → (Nat → K)) (hf : IsLin' f) (hg : IsLin' g) :
    IsLin' (fun x i => f x i + g x i) := by
  intro a b x y i
  simp only [hf a b x y i, hg a b x y i]
  ring
theorem smul_linear (c : K) (f : (Nat → K) → (Nat → K)) (hf : IsLin' f) : IsLin' (fun x i => c * f x i) := by
  intro a b x y i
  simp only [hf a b x y i]
  ring
theorem applyAlong_linear (inner n m : Nat) (op : (Nat → K) → (Nat → K)) (h : IsLin' op) :
    IsLin' (applyAlong inner n m op) := by
  intro a b x y i
  simp only [applyAlong]
  exact h a b _ _ _
theorem linear_zero (op : (Nat → K) → (Nat → K)) (h : IsLin' op) (i : Nat) : op (fun _ => 0) i = 0 := by
  have := h 0 0 (fun _ => 0) (fun _ => 0) i
  simpa using this
theorem reim_split_complex_linear {V W : Type} [AddCommGroup V] [AddCommGroup W] [Module K V] [Module K W]
    (R : V →ₗ[K] W) (a b : K) (re im : V) :
    (R (a • re - b • im), R (a • im + b • re)) = (a • R re - b • R im, a • R im + b • R re) := by
  simp only [map_sub, map_add, map_smul]
end M
