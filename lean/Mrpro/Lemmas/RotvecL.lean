import Mrpro.Model.Rotation
import Mathlib.Tactic.Ring
import Mathlib.Tactic.Linarith
import Mathlib.Tactic.FieldSimp
import Mathlib.Tactic.NormNum
import Mathlib.Analysis.SpecialFunctions.Complex.Arg
/-! Round trips quaternion → rotation vector → quaternion (`from_rotvec ∘ as_rotvec`) and rotation
vector → quaternion → rotation vector over ℝ, for the generic functions `fromRotvecG` / `toRotvecG` of
`Mrpro/Model/Rotation.lean` at any `T : TrigOps ℝ` that satisfies the specification `TrigSpec`, and the
instance `realTrig` (`Real.sqrt`, `Real.sin`, `Real.cos`, `atan2 s w = arg (w + i s)`, `Real.pi`). -/
namespace M

/-- what the round trip `from_rotvec ∘ as_rotvec` needs from the transcendental functions: a square root
on the non-negative reals, `π ≠ 0`, `sin 0 = 0`, `cos 0 = 1`, and: for a point `(w, s)` of the upper unit
half circle, `atan2 s w` is a non-negative number with sine `s` and cosine `w`. -/
structure TrigSpec (T : TrigOps ℝ) : Prop where
  pi_ne_zero : T.pi ≠ 0
  sqrt_spec : ∀ x, 0 ≤ x → 0 ≤ T.sqrt x ∧ T.sqrt x * T.sqrt x = x
  atan2_spec : ∀ s w, 0 ≤ s → s * s + w * w = 1 →
    0 ≤ T.atan2 s w ∧ T.sin (T.atan2 s w) = s ∧ T.cos (T.atan2 s w) = w
  sin_zero : T.sin 0 = 0
  cos_zero : T.cos 0 = 1

/-- extra requirement for the other direction `as_rotvec ∘ from_rotvec` (rotation angle below `π`):
on `(0, π/2)` the sine is positive and `atan2 (sin t) (cos t) = t` -/
structure TrigSpecInv (T : TrigOps ℝ) : Prop where
  atan2_sin_cos : ∀ t, 0 < t → t < T.pi / 2 → 0 < T.sin t ∧ T.atan2 (T.sin t) (T.cos t) = t

section
variable {T : TrigOps ℝ}

/-- the zero test `x == 0` of the code is the equality test over ℝ -/
theorem sincG_real (T : TrigOps ℝ) (x : ℝ) :
    sincG T x = if x = 0 then 1 else T.sin (T.pi * x) / (T.pi * x) := by
  simp only [sincG, beq_iff_eq]

theorem sqrt_zero_of_spec (hT : TrigSpec T) : T.sqrt 0 = 0 := by
  obtain ⟨_, h⟩ := hT.sqrt_spec 0 le_rfl
  exact mul_self_eq_zero.mp h

/-- the specified square root returns the non-negative root -/
theorem sqrt_mul_self_of_spec (hT : TrigSpec T) {t : ℝ} (ht : 0 ≤ t) : T.sqrt (t * t) = t := by
  obtain ⟨h0, h1⟩ := hT.sqrt_spec (t * t) (mul_self_nonneg t)
  rcases mul_self_eq_mul_self_iff.mp h1 with h | h
  · exact h
  · rw [h] at h0 ⊢; linarith

/-- `sinc(angle/(2π))` for `angle = 2h`, `h ≠ 0`: `sin h / h` -/
theorem sincG_half (hT : TrigSpec T) {h : ℝ} (hh : h ≠ 0) :
    sincG T (2 * h / (2 * T.pi)) = T.sin h / h := by
  have hp := hT.pi_ne_zero
  have hx : 2 * h / (2 * T.pi) ≠ 0 := by
    apply div_ne_zero <;> simp [hh, hp]
  have hpx : T.pi * (2 * h / (2 * T.pi)) = h := by field_simp
  rw [sincG_real, if_neg hx, hpx]

theorem sincG_zero (T : TrigOps ℝ) : sincG T 0 = 1 := by
  rw [sincG_real, if_pos rfl]

/-- `from_rotvec 0 = (0, 0, 0, 1)` -/
theorem fromRotvecG_zero (hT : TrigSpec T) : fromRotvecG T ⟨0, 0, 0⟩ = ⟨0, 0, 0, 1⟩ := by
  simp only [fromRotvecG, mul_zero, add_zero, sqrt_zero_of_spec hT, zero_div, hT.cos_zero]

/-- `from_rotvec` of a vector of norm `2h`, `h > 0`: `(sin h / (2h) · v, cos h)` -/
theorem fromRotvecG_of_norm (hT : TrigSpec T) (v : V3 ℝ) {h : ℝ} (hh : 0 < h)
    (hv : v.x0 * v.x0 + v.x1 * v.x1 + v.x2 * v.x2 = 2 * h * (2 * h)) :
    fromRotvecG T v = ⟨T.sin h / h / 2 * v.x0, T.sin h / h / 2 * v.x1, T.sin h / h / 2 * v.x2, T.cos h⟩ := by
  have h2 : 2 * h / 2 = h := by ring
  simp only [fromRotvecG, hv, sqrt_mul_self_of_spec hT (by linarith : (0 : ℝ) ≤ 2 * h),
    sincG_half hT hh.ne', h2]

/-- `from_rotvec (as_rotvec q) = q` for a unit quaternion other than `(0, 0, 0, -1)` (for which `as_rotvec`
divides by `sinc = 0`); the half angle `atan2 (‖(a,b,c)‖, w)` may be anywhere in `[0, π]` -/
theorem fromRotvec_toRotvec' (hT : TrigSpec T) (q : Q ℝ) (hq : q.normSq = 1) (hw : q.w ≠ -1) :
    fromRotvecG T (toRotvecG T q) = q := by
  obtain ⟨a, b, c, w⟩ := q
  simp only [Q.normSq] at hq
  simp only at hw
  have hn : 0 ≤ a * a + b * b + c * c :=
    add_nonneg (add_nonneg (mul_self_nonneg a) (mul_self_nonneg b)) (mul_self_nonneg c)
  obtain ⟨hs0, hss⟩ := hT.sqrt_spec _ hn
  have hsw : T.sqrt (a * a + b * b + c * c) * T.sqrt (a * a + b * b + c * c) + w * w = 1 := by
    rw [hss]; exact hq
  obtain ⟨hh0, hsin, hcos⟩ := hT.atan2_spec _ w hs0 hsw
  by_cases hs : T.sqrt (a * a + b * b + c * c) = 0
  · -- no rotation: the vector part vanishes and `w = 1`
    rw [hs, mul_zero] at hss
    have ha : a = 0 := by nlinarith [mul_self_nonneg a, mul_self_nonneg b, mul_self_nonneg c]
    have hb : b = 0 := by nlinarith [mul_self_nonneg a, mul_self_nonneg b, mul_self_nonneg c]
    have hc : c = 0 := by nlinarith [mul_self_nonneg a, mul_self_nonneg b, mul_self_nonneg c]
    subst ha hb hc
    have hw1 : w = 1 := by
      have : (w - 1) * (w + 1) = 0 := by linarith
      rcases mul_eq_zero.mp this with h | h
      · linarith
      · exact absurd (by linarith) hw
    subst hw1
    simp only [toRotvecG, mul_zero]
    exact fromRotvecG_zero hT
  · generalize hsdef : T.sqrt (a * a + b * b + c * c) = s at *
    generalize hhdef : T.atan2 s w = h at *
    have hh : h ≠ 0 := by
      rintro rfl
      exact hs (by rw [← hsin, hT.sin_zero])
    have hhpos : 0 < h := lt_of_le_of_ne hh0 (Ne.symm hh)
    have hto : toRotvecG T ⟨a, b, c, w⟩ = ⟨2 / (s / h) * a, 2 / (s / h) * b, 2 / (s / h) * c⟩ := by
      simp only [toRotvecG, hsdef, hhdef, sincG_half hT hh, hsin]
    rw [hto, fromRotvecG_of_norm hT _ hhpos]
    · simp only [hsin, hcos, Q.mk.injEq, and_true]
      refine ⟨?_, ?_, ?_⟩ <;> field_simp
    · simp only
      have : 2 / (s / h) = 2 * h / s := by field_simp
      rw [this]
      field_simp
      rw [sq s, hss]; ring

/-- (a) `from_rotvec (as_rotvec q) = q` for a unit quaternion in canonical form (`w ≥ 0`, which includes
the half turns `w = 0`) -/
theorem fromRotvec_toRotvec (hT : TrigSpec T) (q : Q ℝ) (hq : q.normSq = 1) (hw : 0 ≤ q.w) :
    fromRotvecG T (toRotvecG T q) = q :=
  fromRotvec_toRotvec' hT q hq (by linarith)

/-- (b) the rotation matrix survives the round trip through the rotation vector -/
theorem toMat_fromRotvec_toRotvec (hT : TrigSpec T) (q : Q ℝ) (hq : q.normSq = 1) (hw : 0 ≤ q.w) :
    (fromRotvecG T (toRotvecG T q)).toMat = q.toMat := by
  rw [fromRotvec_toRotvec hT q hq hw]

/-- `as_rotvec (0, 0, 0, w) = 0` -/
theorem toRotvecG_zero (T : TrigOps ℝ) (w : ℝ) : toRotvecG T ⟨0, 0, 0, w⟩ = ⟨0, 0, 0⟩ := by
  simp only [toRotvecG, mul_zero]

/-- (c) `as_rotvec (from_rotvec v) = v` for a rotation vector of length `‖v‖ < π` -/
theorem toRotvec_fromRotvec (hT : TrigSpec T) (hI : TrigSpecInv T) (v : V3 ℝ)
    (hv : T.sqrt (v.x0 * v.x0 + v.x1 * v.x1 + v.x2 * v.x2) < T.pi) :
    toRotvecG T (fromRotvecG T v) = v := by
  obtain ⟨x, y, z⟩ := v
  simp only at hv
  have hn : 0 ≤ x * x + y * y + z * z :=
    add_nonneg (add_nonneg (mul_self_nonneg x) (mul_self_nonneg y)) (mul_self_nonneg z)
  obtain ⟨hθ0, hθθ⟩ := hT.sqrt_spec _ hn
  generalize T.sqrt (x * x + y * y + z * z) = θ at *
  by_cases hθ : θ = 0
  · rw [hθ, mul_zero] at hθθ
    have hx : x = 0 := by nlinarith [mul_self_nonneg x, mul_self_nonneg y, mul_self_nonneg z]
    have hy : y = 0 := by nlinarith [mul_self_nonneg x, mul_self_nonneg y, mul_self_nonneg z]
    have hz : z = 0 := by nlinarith [mul_self_nonneg x, mul_self_nonneg y, mul_self_nonneg z]
    subst hx hy hz
    rw [fromRotvecG_zero hT, toRotvecG_zero]
  · have hθpos : 0 < θ := lt_of_le_of_ne hθ0 (Ne.symm hθ)
    have htpos : 0 < θ / 2 := by linarith
    obtain ⟨hsin, hatan⟩ := hI.atan2_sin_cos (θ / 2) htpos (by linarith)
    have hxyz : x * x + y * y + z * z = 2 * (θ / 2) * (2 * (θ / 2)) := by rw [← hθθ]; ring
    rw [fromRotvecG_of_norm hT _ htpos hxyz]
    generalize θ / 2 = t at *
    have hnorm : T.sin t / t / 2 * x * (T.sin t / t / 2 * x) + T.sin t / t / 2 * y * (T.sin t / t / 2 * y)
        + T.sin t / t / 2 * z * (T.sin t / t / 2 * z) = T.sin t * T.sin t := by
      have hfac : T.sin t / t / 2 * x * (T.sin t / t / 2 * x) + T.sin t / t / 2 * y * (T.sin t / t / 2 * y)
          + T.sin t / t / 2 * z * (T.sin t / t / 2 * z)
          = T.sin t / t / 2 * (T.sin t / t / 2) * (x * x + y * y + z * z) := by ring
      have := htpos.ne'
      rw [hfac, hxyz]; field_simp
    simp only [toRotvecG, hnorm, sqrt_mul_self_of_spec hT hsin.le, hatan, sincG_half hT htpos.ne',
      V3.mk.injEq]
    have := hsin.ne'
    refine ⟨?_, ?_, ?_⟩ <;> field_simp

end

/-! ### the `Float` functions are the generic ones -/
theorem F.fromRotvec_eq_G : F.fromRotvec = fromRotvecG F.floatTrig := rfl
theorem F.toRotvec_eq_G : F.toRotvec = toRotvecG F.floatTrig := rfl

/-! ### instance at the reals -/

/-- the real functions; `atan2 s w` is the argument of `w + i s` -/
noncomputable def realTrig : TrigOps ℝ :=
  ⟨Real.sqrt, Real.sin, Real.cos, fun s w => Complex.arg ⟨w, s⟩, Real.pi⟩

theorem realTrig_spec : TrigSpec realTrig where
  pi_ne_zero := Real.pi_ne_zero
  sqrt_spec := fun x hx => ⟨Real.sqrt_nonneg x, Real.mul_self_sqrt hx⟩
  atan2_spec := by
    intro s w hs hsw
    have hnorm : ‖(⟨w, s⟩ : ℂ)‖ = 1 := by
      rw [Complex.norm_def, Complex.normSq_mk, add_comm, hsw, Real.sqrt_one]
    have hne : (⟨w, s⟩ : ℂ) ≠ 0 := by
      intro h; rw [h, norm_zero] at hnorm; exact zero_ne_one hnorm
    refine ⟨Complex.arg_nonneg_iff.mpr hs, ?_, ?_⟩
    · show Real.sin (Complex.arg ⟨w, s⟩) = s
      rw [Complex.sin_arg, hnorm, div_one]
    · show Real.cos (Complex.arg ⟨w, s⟩) = w
      rw [Complex.cos_arg hne, hnorm, div_one]
  sin_zero := Real.sin_zero
  cos_zero := Real.cos_zero

theorem realTrig_specInv : TrigSpecInv realTrig where
  atan2_sin_cos := by
    intro t h0 h1
    have hpi : t < Real.pi := by
      have : t < Real.pi / 2 := h1
      linarith [Real.pi_pos]
    refine ⟨Real.sin_pos_of_pos_of_lt_pi h0 hpi, ?_⟩
    show Complex.arg ⟨Real.cos t, Real.sin t⟩ = t
    have h : (⟨Real.cos t, Real.sin t⟩ : ℂ) = Complex.cos t + Complex.sin t * Complex.I := by
      apply Complex.ext <;> simp [← Complex.ofReal_cos, ← Complex.ofReal_sin]
    rw [h, Complex.arg_cos_add_sin_mul_I ⟨by linarith [Real.pi_pos], hpi.le⟩]

/-- (a) at the reals -/
theorem fromRotvec_toRotvec_real (q : Q ℝ) (hq : q.normSq = 1) (hw : 0 ≤ q.w) :
    fromRotvecG realTrig (toRotvecG realTrig q) = q :=
  fromRotvec_toRotvec realTrig_spec q hq hw

/-- (a) at the reals for every unit quaternion except `(0, 0, 0, -1)` -/
theorem fromRotvec_toRotvec_real' (q : Q ℝ) (hq : q.normSq = 1) (hw : q.w ≠ -1) :
    fromRotvecG realTrig (toRotvecG realTrig q) = q :=
  fromRotvec_toRotvec' realTrig_spec q hq hw

/-- (b) at the reals -/
theorem toMat_fromRotvec_toRotvec_real (q : Q ℝ) (hq : q.normSq = 1) (hw : 0 ≤ q.w) :
    (fromRotvecG realTrig (toRotvecG realTrig q)).toMat = q.toMat :=
  toMat_fromRotvec_toRotvec realTrig_spec q hq hw

/-- (c) at the reals: `‖v‖ < π` -/
theorem toRotvec_fromRotvec_real (v : V3 ℝ)
    (hv : Real.sqrt (v.x0 * v.x0 + v.x1 * v.x1 + v.x2 * v.x2) < Real.pi) :
    toRotvecG realTrig (fromRotvecG realTrig v) = v :=
  toRotvec_fromRotvec realTrig_spec realTrig_specInv v hv

/-! ### non-vacuity -/

/-- identity rotation -/
example : fromRotvecG realTrig (toRotvecG realTrig ⟨0, 0, 0, 1⟩) = ⟨0, 0, 0, 1⟩ :=
  fromRotvec_toRotvec_real ⟨0, 0, 0, 1⟩ (by norm_num [Q.normSq]) (by norm_num)

/-- half turn (`w = 0`, rotation angle π) -/
example : fromRotvecG realTrig (toRotvecG realTrig ⟨1, 0, 0, 0⟩) = ⟨1, 0, 0, 0⟩ :=
  fromRotvec_toRotvec_real ⟨1, 0, 0, 0⟩ (by norm_num [Q.normSq]) (by norm_num)

/-- quarter turn `(√½, 0, 0, √½)` -/
example : fromRotvecG realTrig (toRotvecG realTrig ⟨√(1/2), 0, 0, √(1/2)⟩) = ⟨√(1/2), 0, 0, √(1/2)⟩ :=
  fromRotvec_toRotvec_real _
    (by simp only [Q.normSq, Real.mul_self_sqrt (by norm_num : (0 : ℝ) ≤ 1 / 2)]; norm_num)
    (Real.sqrt_nonneg _)

/-- a rotation vector of length `1 < π` -/
example : toRotvecG realTrig (fromRotvecG realTrig ⟨1, 0, 0⟩) = ⟨1, 0, 0⟩ :=
  toRotvec_fromRotvec_real ⟨1, 0, 0⟩ (by
    norm_num
    linarith [Real.two_le_pi])
/-- concrete value: the half turn about the first storage axis has the rotation vector `(π, 0, 0)` -/
example : toRotvecG realTrig ⟨1, 0, 0, 0⟩ = ⟨Real.pi, 0, 0⟩ := by
  have h1 : Real.sqrt (1 * 1 + 0 * 0 + 0 * 0) = 1 := by norm_num
  have harg : Complex.arg ⟨0, 1⟩ = Real.pi / 2 := Complex.arg_I
  have hs : sincG realTrig (2 * (Real.pi / 2) / (2 * Real.pi)) = 1 / (Real.pi / 2) := by
    have := sincG_half realTrig_spec (h := Real.pi / 2) (by positivity)
    simp only [realTrig] at this ⊢
    rw [this, Real.sin_pi_div_two]
  simp only [realTrig] at hs
  simp only [toRotvecG, realTrig, h1, harg]
  rw [hs]
  have := Real.pi_ne_zero
  simp only [mul_zero, V3.mk.injEq, and_true]
  field_simp

end M
